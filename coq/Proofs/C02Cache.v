(** Caches: [eval_obj] returns the cache-free value [pure_obj] of an object whenever the caches it reads
    are coherent with the current leaf tables (in particular when they are empty), it never touches
    the leaf tables, kinds or duals, and it keeps every coherent object coherent. *)
From Coq Require Import List QArith Bool Arith Lia.
From PV Require Import Model.Dict Model.Terms Model.Eval.
Import ListNotations.

(** ** cache-free evaluation *)
Definition pure_eh (st : est) (e : eh) : res Q :=
  match e with
  | ELeaf id => leafE st id
  | ERef r => match get_obj st r with
              | Some o => match okind_of o with KExpr d => expr_compute st d | _ => Raise EShape end
              | None => Raise EShape
              end
  end.
Fixpoint pure_row (st : est) (row : list eh) : res (list Q) :=
  match row with
  | [] => Ok []
  | e :: row' => match pure_eh st e with
                 | Raise x => Raise x
                 | Ok q => match pure_row st row' with Raise x => Raise x | Ok qs => Ok (q :: qs) end
                 end
  end.
Fixpoint pure_rows (st : est) (m : list (list eh)) : res (list (list Q)) :=
  match m with
  | [] => Ok []
  | row :: m' => match pure_row st row with
                 | Raise x => Raise x
                 | Ok qs => match pure_rows st m' with Raise x => Raise x | Ok qss => Ok (qs :: qss) end
                 end
  end.
(** [m] = length of the zero vector a derived point starts from *)
Definition pure_obj (m : nat) (st : est) (k : okind) : res val :=
  match k with
  | KPoint d => match point_compute m st d with Ok v => Ok (VVec v) | Raise e => Raise e end
  | KExpr d => match expr_compute st d with Ok q => Ok (VNum q) | Raise e => Raise e end
  | KCons e _ => match pure_eh st e with Ok q => Ok (VNum q) | Raise _ => Raise EUnsolved end
  | KLmi mm => match pure_rows st mm with Ok qss => Ok (VMat qss) | Raise _ => Raise EUnsolved end
  end.

Definition refs_of (k : okind) : list eh :=
  match k with KCons e _ => [e] | KLmi m => concat m | _ => [] end.

(** ** coherence *)
Definition coh_expr (st : est) (r : nat) : Prop :=
  forall o d v, get_obj st r = Some o -> okind_of o = KExpr d -> ocache o = Some v ->
    exists q, v = VNum q /\ expr_compute st d = Ok q.
Definition coh_eh (st : est) (e : eh) : Prop :=
  match e with ELeaf _ => True | ERef r => coh_expr st r end.
Definition coh_obj (m : nat) (st : est) (r : nat) : Prop :=
  forall o v, get_obj st r = Some o -> ocache o = Some v -> pure_obj m st (okind_of o) = Ok v.
Definition good (m : nat) (st : est) (r : nat) : Prop :=
  coh_obj m st r /\ forall o e, get_obj st r = Some o -> In e (refs_of (okind_of o)) -> coh_eh st e.

(** the frame of evaluation: leaves, kinds and duals never change; a cache is either unchanged or
    filled *)
Definition frame (st st' : est) : Prop :=
  lpv st' = lpv st /\ lev st' = lev st /\
  forall r, match get_obj st r, get_obj st' r with
            | None, None => True
            | Some o, Some o' => okind_of o' = okind_of o /\ odual o' = odual o /\
                                 (ocache o' = ocache o \/ ocache o = None)
            | _, _ => False
            end.
(** ... and the finer relation of [eval_eh]: only derived expressions are filled, with their
    cache-free value *)
Definition ext (st st' : est) : Prop :=
  lpv st' = lpv st /\ lev st' = lev st /\
  forall r, match get_obj st r, get_obj st' r with
            | None, None => True
            | Some o, Some o' =>
                okind_of o' = okind_of o /\ odual o' = odual o /\
                (ocache o' = ocache o \/
                 (ocache o = None /\ exists d q, okind_of o = KExpr d /\ expr_compute st d = Ok q /\
                                                 ocache o' = Some (VNum q)))
            | _, _ => False
            end.

(** ** dependence on the leaf tables only *)
Lemma leafP_leaves st st' k : lpv st' = lpv st -> leafP st' k = leafP st k.
Proof. unfold leafP. intros ->. reflexivity. Qed.
Lemma leafE_leaves st st' k : lev st' = lev st -> leafE st' k = leafE st k.
Proof. unfold leafE. intros ->. reflexivity. Qed.
Lemma key_val_leaves st st' k : lpv st' = lpv st -> lev st' = lev st -> key_val st' k = key_val st k.
Proof.
  intros H1 H2. destruct k as [e|i j|]; cbn [key_val].
  - apply leafE_leaves, H2.
  - rewrite !(leafP_leaves st st') by exact H1. reflexivity.
  - reflexivity.
Qed.
Lemma expr_sum_leaves st st' : lpv st' = lpv st -> lev st' = lev st ->
  forall d acc, expr_sum st' acc d = expr_sum st acc d.
Proof.
  intros H1 H2. induction d as [|[k w] d IH]; intro acc; cbn [expr_sum]; [reflexivity|].
  rewrite (key_val_leaves st st') by assumption. destruct (key_val st k); [apply IH|reflexivity].
Qed.
Lemma expr_compute_leaves st st' d : lpv st' = lpv st -> lev st' = lev st ->
  expr_compute st' d = expr_compute st d.
Proof. intros. unfold expr_compute. apply expr_sum_leaves; assumption. Qed.
Lemma point_sum_leaves st st' : lpv st' = lpv st ->
  forall d acc, point_sum st' acc d = point_sum st acc d.
Proof.
  intros H1. induction d as [|[k w] d IH]; intro acc; cbn [point_sum]; [reflexivity|].
  rewrite (leafP_leaves st st') by assumption. destruct (leafP st k); [|reflexivity].
  destruct acc as [a0|]; [|apply IH]. destruct (np_add a0 (vscale w a)); [apply IH|reflexivity].
Qed.
Lemma point_compute_leaves m st st' d : lpv st' = lpv st -> point_compute m st' d = point_compute m st d.
Proof. intros. unfold point_compute. rewrite (point_sum_leaves st st') by assumption. reflexivity. Qed.

(** the same, from pointwise equality of the leaf lookups (appending an unassigned leaf changes no lookup) *)
Definition leaf_eq (st st' : est) : Prop :=
  (forall k, leafP st' k = leafP st k) /\ (forall k, leafE st' k = leafE st k).
Lemma leaf_eq_of_eq st st' : lpv st' = lpv st -> lev st' = lev st -> leaf_eq st st'.
Proof. intros H1 H2. split; intro k; [apply leafP_leaves|apply leafE_leaves]; assumption. Qed.
Lemma leaf_eq_refl st : leaf_eq st st.
Proof. split; reflexivity. Qed.
Lemma leaf_eq_trans a b c : leaf_eq a b -> leaf_eq b c -> leaf_eq a c.
Proof. intros [A1 A2] [B1 B2]. split; intro k; [rewrite B1, A1|rewrite B2, A2]; reflexivity. Qed.
Lemma key_val_ext st st' k : leaf_eq st st' -> key_val st' k = key_val st k.
Proof. intros [H1 H2]. destruct k as [e|i j|]; cbn [key_val]; [apply H2|rewrite !H1; reflexivity|reflexivity]. Qed.
Lemma expr_sum_ext st st' : leaf_eq st st' -> forall d acc, expr_sum st' acc d = expr_sum st acc d.
Proof.
  intros H. induction d as [|[k w] d IH]; intro acc; cbn [expr_sum]; [reflexivity|].
  rewrite (key_val_ext st st') by assumption. destruct (key_val st k); [apply IH|reflexivity].
Qed.
Lemma expr_compute_ext st st' d : leaf_eq st st' -> expr_compute st' d = expr_compute st d.
Proof. intros. unfold expr_compute. apply expr_sum_ext; assumption. Qed.
Lemma point_sum_ext st st' : leaf_eq st st' -> forall d acc, point_sum st' acc d = point_sum st acc d.
Proof.
  intros [H1 _]. induction d as [|[k w] d IH]; intro acc; cbn [point_sum]; [reflexivity|].
  rewrite H1. destruct (leafP st k); [|reflexivity].
  destruct acc as [a0|]; [|apply IH]. destruct (np_add a0 (vscale w a)); [apply IH|reflexivity].
Qed.
Lemma point_compute_ext m st st' d : leaf_eq st st' -> point_compute m st' d = point_compute m st d.
Proof. intros. unfold point_compute. rewrite (point_sum_ext st st') by assumption. reflexivity. Qed.

(** only the empty combination looks at the length [m] of the null vector *)
Lemma point_sum_Some st : forall d a, exists r, point_sum st (Some a) d = r /\ r <> Ok None.
Proof.
  induction d as [|[k w] d IH]; intro a; cbn [point_sum]; [eexists; split; [reflexivity|discriminate]|].
  destruct (leafP st k); [|eexists; split; [reflexivity|discriminate]].
  destruct (np_add a (vscale w a0)); [apply IH|eexists; split; [reflexivity|discriminate]].
Qed.
Lemma point_compute_m m m' st d : d <> [] -> point_compute m st d = point_compute m' st d.
Proof.
  intro H. unfold point_compute. destruct d as [|[k w] d]; [congruence|]. cbn [point_sum].
  destruct (leafP st k); [|reflexivity]. destruct (point_sum_Some st d (vscale w a)) as (r & -> & Hr).
  destruct r as [[v|]|]; try reflexivity. congruence.
Qed.

(** ** store lemmas *)
Lemma nth_error_upd_nth {A} (f : A -> A) n : forall (l : list A) m,
  nth_error (upd_nth f n l) m = if Nat.eqb m n then option_map f (nth_error l n) else nth_error l m.
Proof.
  induction n as [|n IH]; intros [|a l] m; cbn [upd_nth].
  - destruct m; cbn; reflexivity.
  - destruct m; cbn; reflexivity.
  - destruct m; cbn; [reflexivity|]. destruct (Nat.eqb m n); reflexivity.
  - destruct m as [|m]; cbn [nth_error Nat.eqb]; [reflexivity|]. apply IH.
Qed.
Lemma length_upd_nth {A} (f : A -> A) n : forall l : list A, length (upd_nth f n l) = length l.
Proof. induction n as [|n IH]; intros [|a l]; cbn; auto. Qed.

Lemma get_obj_set_cache st r v r' :
  get_obj (set_cache st r v) r' =
  if Nat.eqb r' r then option_map (fun o => mkObj (okind_of o) (Some v) (odual o)) (get_obj st r)
  else get_obj st r'.
Proof. unfold get_obj, set_cache; cbn [objs]. apply nth_error_upd_nth. Qed.
Lemma get_obj_set_dual st r v r' :
  get_obj (set_dual st r v) r' =
  if Nat.eqb r' r then option_map (fun o => mkObj (okind_of o) (ocache o) (Some v)) (get_obj st r)
  else get_obj st r'.
Proof. unfold get_obj, set_dual; cbn [objs]. apply nth_error_upd_nth. Qed.

(** ** [frame] / [ext] are preorders; [ext] refines [frame] *)
Lemma ext_refl st : ext st st.
Proof. split; [reflexivity|split; [reflexivity|]]. intro r. destruct (get_obj st r); auto. Qed.
Lemma frame_refl st : frame st st.
Proof. split; [reflexivity|split; [reflexivity|]]. intro r. destruct (get_obj st r); auto. Qed.
Lemma ext_frame st st' : ext st st' -> frame st st'.
Proof.
  intros (H1 & H2 & H). split; [exact H1|split; [exact H2|]]. intro r. specialize (H r).
  destruct (get_obj st r), (get_obj st' r); try exact H.
  destruct H as (Hk & Hd & [Hc|(Hc & _)]); auto.
Qed.
Lemma frame_trans a b c : frame a b -> frame b c -> frame a c.
Proof.
  intros (A1 & A2 & A) (B1 & B2 & B). split; [congruence|split; [congruence|]]. intro r.
  specialize (A r). specialize (B r).
  destruct (get_obj a r) as [oa|], (get_obj b r) as [ob|], (get_obj c r) as [oc|]; try tauto.
  destruct A as (Ak & Ad & Ac), B as (Bk & Bd & Bc). split; [congruence|split; [congruence|]].
  destruct Ac as [Ac|Ac]; [|right; exact Ac]. destruct Bc as [Bc|Bc]; [left; congruence|right; congruence].
Qed.
Lemma ext_trans a b c : ext a b -> ext b c -> ext a c.
Proof.
  intros (A1 & A2 & A) (B1 & B2 & B). split; [congruence|split; [congruence|]]. intro r.
  specialize (A r). specialize (B r).
  destruct (get_obj a r) as [oa|], (get_obj b r) as [ob|], (get_obj c r) as [oc|]; try tauto.
  destruct A as (Ak & Ad & Ac), B as (Bk & Bd & Bc). split; [congruence|split; [congruence|]].
  destruct Ac as [Ac|(Ac & d & q & Hk & Hq & Hc)].
  - destruct Bc as [Bc|(Bc & d & q & Hk & Hq & Hc)]; [left; congruence|].
    right. split; [congruence|]. exists d, q. split; [congruence|]. split; [|exact Hc].
    rewrite <- Hq. symmetry. apply expr_compute_leaves; assumption.
  - right. split; [exact Ac|]. exists d, q. split; [exact Hk|]. split; [exact Hq|].
    destruct Bc as [Bc|(Bc & _)]; congruence.
Qed.

Lemma frame_set_cache st r v :
  (forall o, get_obj st r = Some o -> ocache o = None) -> frame st (set_cache st r v).
Proof.
  intro Hn. split; [reflexivity|split; [reflexivity|]]. intro r'. rewrite get_obj_set_cache.
  destruct (Nat.eqb_spec r' r) as [->|Hne].
  - destruct (get_obj st r) as [o|] eqn:Ho; cbn; auto.
  - destruct (get_obj st r'); auto.
Qed.

(** ** cache-free values depend on the leaf tables and on the kinds only *)
Definition samek (st st' : est) : Prop :=
  leaf_eq st st' /\
  forall r, option_map okind_of (get_obj st' r) = option_map okind_of (get_obj st r).

Lemma frame_samek st st' : frame st st' -> samek st st'.
Proof.
  intros (H1 & H2 & H). split; [apply leaf_eq_of_eq; assumption|]. intro r. specialize (H r).
  destruct (get_obj st r), (get_obj st' r); try tauto. cbn. f_equal. tauto.
Qed.
Lemma samek_set_cache st r v : samek st (set_cache st r v).
Proof.
  split; [apply leaf_eq_of_eq; reflexivity|]. intro r'. rewrite get_obj_set_cache.
  destruct (Nat.eqb_spec r' r) as [->|]; [|reflexivity]. destruct (get_obj st r); reflexivity.
Qed.
Lemma samek_trans a b c : samek a b -> samek b c -> samek a c.
Proof.
  intros (A1 & A) (B1 & B). split; [eapply leaf_eq_trans; eassumption|]. intro r. rewrite B, A. reflexivity.
Qed.

Lemma pure_eh_samek st st' e : samek st st' -> pure_eh st' e = pure_eh st e.
Proof.
  intros (H1 & H). destruct e as [id|r]; cbn [pure_eh].
  - apply H1.
  - specialize (H r). destruct (get_obj st r) as [o|], (get_obj st' r) as [o'|]; cbn in H; try discriminate;
      [|reflexivity].
    injection H as Hk. rewrite Hk. destruct (okind_of o); try reflexivity.
    apply expr_compute_ext; assumption.
Qed.
Lemma pure_row_samek st st' row : samek st st' -> pure_row st' row = pure_row st row.
Proof.
  intro F. induction row as [|e row IH]; cbn [pure_row]; [reflexivity|].
  rewrite (pure_eh_samek st st') by exact F. rewrite IH. reflexivity.
Qed.
Lemma pure_rows_samek st st' m : samek st st' -> pure_rows st' m = pure_rows st m.
Proof.
  intro F. induction m as [|row m IH]; cbn [pure_rows]; [reflexivity|].
  rewrite (pure_row_samek st st') by exact F. rewrite IH. reflexivity.
Qed.
Lemma pure_obj_samek m st st' k : samek st st' -> pure_obj m st' k = pure_obj m st k.
Proof.
  intro F. pose proof F as (H1 & _). destruct k; cbn [pure_obj].
  - rewrite (point_compute_ext m st st') by assumption. reflexivity.
  - rewrite (expr_compute_ext st st') by assumption. reflexivity.
  - rewrite (pure_eh_samek st st') by exact F. reflexivity.
  - rewrite (pure_rows_samek st st') by exact F. reflexivity.
Qed.
Lemma pure_row_frame st st' row : frame st st' -> pure_row st' row = pure_row st row.
Proof. intro F. apply pure_row_samek, frame_samek, F. Qed.
Lemma pure_rows_frame st st' m : frame st st' -> pure_rows st' m = pure_rows st m.
Proof. intro F. apply pure_rows_samek, frame_samek, F. Qed.

(** coherence of derived expressions survives [ext] *)
Lemma coh_expr_ext st st' r : ext st st' -> coh_expr st r -> coh_expr st' r.
Proof.
  intros E C o' d v Ho' Hk Hc. pose proof E as (H1 & H2 & H). specialize (H r). rewrite Ho' in H.
  destruct (get_obj st r) as [o|] eqn:Ho; [|contradiction].
  destruct H as (Hk' & _ & Hcc). rewrite (expr_compute_leaves st st') by assumption.
  destruct Hcc as [Hcc|(Hcc & d' & q & Hkd & Hq & Hcq)].
  - apply (C o d v Ho); congruence.
  - exists q. split; [congruence|]. assert (d' = d) by congruence. subst d'. exact Hq.
Qed.
Lemma coh_eh_ext st st' e : ext st st' -> coh_eh st e -> coh_eh st' e.
Proof. destruct e; cbn [coh_eh]; [auto|apply coh_expr_ext]. Qed.

(** ** [eval_eh] *)
Lemma eval_eh_spec st e st' x : eval_eh st e = (st', x) ->
  ext st st' /\ (coh_eh st e -> x = pure_eh st e).
Proof.
  destruct e as [id|r]; cbn [eval_eh pure_eh coh_eh].
  - intros [= <- <-]. split; [apply ext_refl|reflexivity].
  - destruct (get_obj st r) as [o|] eqn:Ho.
    2:{ intros [= <- <-]. split; [apply ext_refl|reflexivity]. }
    destruct (okind_of o) as [d|d|e s|m] eqn:Hk; try (intros [= <- <-]; split; [apply ext_refl|reflexivity]).
    destruct (ocache o) as [v|] eqn:Hc.
    + intros [= <- <-]. split; [apply ext_refl|]. intro C.
      destruct (C o d v Ho Hk Hc) as (q & -> & Hq). rewrite Hq. reflexivity.
    + destruct (expr_compute st d) as [q|er] eqn:Hq.
      * intros [= <- <-]. split; [|reflexivity].
        split; [reflexivity|split; [reflexivity|]]. intro r'. rewrite get_obj_set_cache.
        destruct (Nat.eqb_spec r' r) as [->|Hne].
        -- rewrite Ho. cbn. split; [reflexivity|split; [reflexivity|]]. right. split; [exact Hc|].
           exists d, q. auto.
        -- destruct (get_obj st r'); auto.
      * intros [= <- <-]. split; [apply ext_refl|reflexivity].
Qed.

Lemma eval_row_spec : forall row st st' x, eval_row st row = (st', x) ->
  ext st st' /\ ((forall e, In e row -> coh_eh st e) -> x = pure_row st row).
Proof.
  induction row as [|e row IH]; intros st st' x; cbn [eval_row pure_row].
  - intros [= <- <-]. split; [apply ext_refl|reflexivity].
  - destruct (eval_eh st e) as [st1 x1] eqn:H1. apply eval_eh_spec in H1 as [E1 P1].
    destruct x1 as [q|er].
    + destruct (eval_row st1 row) as [st2 x2] eqn:H2. apply IH in H2 as [E2 P2].
      assert (E : ext st st2) by (eapply ext_trans; eassumption).
      assert (Hx : (forall e0, In e0 (e :: row) -> coh_eh st e0) ->
                   x2 = pure_row st row /\ Ok q = pure_eh st e).
      { intro C. split; [|apply P1, C; left; reflexivity].
        rewrite <- (pure_row_frame st st1) by (apply ext_frame; exact E1).
        apply P2. intros e0 Hin. apply (coh_eh_ext st st1); [exact E1|]. apply C. right. exact Hin. }
      destruct x2 as [qs|er]; intros [= <- <-]; (split; [exact E|]); intro C;
        destruct (Hx C) as [Hr He]; rewrite <- He, <- Hr; reflexivity.
    + intros [= <- <-]. split; [exact E1|]. intro C. rewrite <- P1 by (apply C; left; reflexivity).
      reflexivity.
Qed.

Lemma eval_rows_spec : forall m st st' x, eval_rows st m = (st', x) ->
  ext st st' /\ ((forall e, In e (concat m) -> coh_eh st e) -> x = pure_rows st m).
Proof.
  induction m as [|row m IH]; intros st st' x; cbn [eval_rows pure_rows concat].
  - intros [= <- <-]. split; [apply ext_refl|reflexivity].
  - destruct (eval_row st row) as [st1 x1] eqn:H1. apply eval_row_spec in H1 as [E1 P1].
    destruct x1 as [qs|er].
    + destruct (eval_rows st1 m) as [st2 x2] eqn:H2. apply IH in H2 as [E2 P2].
      assert (E : ext st st2) by (eapply ext_trans; eassumption).
      assert (Hx : (forall e0, In e0 (row ++ concat m) -> coh_eh st e0) ->
                   x2 = pure_rows st m /\ Ok qs = pure_row st row).
      { intro C. split; [|apply P1; intros e0 Hin; apply C, in_or_app; left; exact Hin].
        rewrite <- (pure_rows_frame st st1) by (apply ext_frame; exact E1).
        apply P2. intros e0 Hin. apply (coh_eh_ext st st1); [exact E1|]. apply C, in_or_app. right. exact Hin. }
      destruct x2 as [qss|er]; intros [= <- <-]; (split; [exact E|]); intro C;
        destruct (Hx C) as [Hr He]; rewrite <- He, <- Hr; reflexivity.
    + intros [= <- <-]. split; [exact E1|]. intro C.
      rewrite <- P1 by (intros e0 Hin; apply C, in_or_app; left; exact Hin). reflexivity.
Qed.

(** ** [eval_obj] *)
Lemma frame_set_cache2 st st1 r v :
  frame st st1 -> (forall o, get_obj st r = Some o -> ocache o = None) -> frame st (set_cache st1 r v).
Proof.
  intros (H1 & H2 & H) Hn. split; [exact H1|split; [exact H2|]]. intro r'. rewrite get_obj_set_cache.
  destruct (Nat.eqb_spec r' r) as [->|Hne]; [|apply H].
  specialize (H r). destruct (get_obj st r) as [o|] eqn:Ho, (get_obj st1 r) as [o1|]; cbn; try tauto.
  destruct H as (Hk & Hd & _). split; [exact Hk|split; [exact Hd|]]. right. apply Hn. reflexivity.
Qed.

Lemma eval_obj_frame st r st' x : eval_obj st r = (st', x) -> frame st st'.
Proof.
  unfold eval_obj. destruct (get_obj st r) as [o|] eqn:Ho.
  2:{ intros [= <- <-]. apply frame_refl. }
  destruct (ocache o) as [v|] eqn:Hc.
  { intros [= <- <-]. apply frame_refl. }
  assert (Hn : forall o0, Some o = Some o0 -> ocache o0 = None) by (intros o0 [= <-]; exact Hc).
  destruct (okind_of o) as [d|d|e s|m].
  - destruct (point_compute _ st d); intros [= <- <-]; [|apply frame_refl].
    apply frame_set_cache2; [apply frame_refl|rewrite Ho; exact Hn].
  - destruct (expr_compute st d); intros [= <- <-]; [|apply frame_refl].
    apply frame_set_cache2; [apply frame_refl|rewrite Ho; exact Hn].
  - destruct (eval_eh st e) as [st1 x1] eqn:H1. apply eval_eh_spec in H1 as [E1 _].
    destruct x1; intros [= <- <-]; [|apply ext_frame, E1].
    apply frame_set_cache2; [apply ext_frame, E1|rewrite Ho; exact Hn].
  - destruct (eval_rows st m) as [st1 x1] eqn:H1. apply eval_rows_spec in H1 as [E1 _].
    destruct x1; intros [= <- <-]; [|apply ext_frame, E1].
    apply frame_set_cache2; [apply ext_frame, E1|rewrite Ho; exact Hn].
Qed.

(** the value: with coherent caches, [eval] returns the cache-free value *)
Lemma eval_obj_value m st r st' x o :
  eval_obj st r = (st', x) -> get_obj st r = Some o -> good m st r ->
  (okind_of o = KPoint [] -> ocache o = None -> m = length (lpv st)) ->
  x = pure_obj m st (okind_of o).
Proof.
  unfold eval_obj. intros H Ho [Cr Ce] Hm. rewrite Ho in H.
  destruct (ocache o) as [v|] eqn:Hc.
  { injection H as <- <-. symmetry. apply (Cr o v Ho Hc). }
  specialize (Ce o). destruct (okind_of o) as [d|d|e s|mm] eqn:Hk; cbn [pure_obj].
  - assert (E : point_compute (length (lpv st)) st d = point_compute m st d).
    { destruct d as [|kw d]; [rewrite (Hm eq_refl eq_refl); reflexivity|apply point_compute_m; discriminate]. }
    rewrite E in H. destruct (point_compute m st d); injection H as <- <-; reflexivity.
  - destruct (expr_compute st d); injection H as <- <-; reflexivity.
  - destruct (eval_eh st e) as [st1 x1] eqn:H1. apply eval_eh_spec in H1 as [_ P1].
    rewrite <- P1 by (apply Ce; [exact Ho|left; reflexivity]).
    destruct x1; injection H as <- <-; reflexivity.
  - destruct (eval_rows st mm) as [st1 x1] eqn:H1. apply eval_rows_spec in H1 as [_ P1].
    rewrite <- P1 by (intros e0 Hin; apply Ce; [exact Ho|exact Hin]).
    destruct x1; injection H as <- <-; reflexivity.
Qed.

(** coherent objects stay coherent *)
Lemma good_ext m st st1 y : ext st st1 -> good m st y -> good m st1 y.
Proof.
  intros E [Cy Ce]. pose proof E as (H1 & H2 & H). specialize (H y). split.
  - intros o1 v Ho1 Hc1. rewrite Ho1 in H. destruct (get_obj st y) as [o|] eqn:Ho; [|contradiction].
    destruct H as (Hk & _ & Hcc).
    rewrite (pure_obj_samek m st st1) by (apply frame_samek, ext_frame, E). rewrite Hk.
    destruct Hcc as [Hcc|(Hcc & d & q & Hkd & Hq & Hcq)].
    + apply (Cy o v Ho). congruence.
    + rewrite Hkd. cbn [pure_obj]. rewrite Hq. congruence.
  - intros o1 e Ho1 Hin. rewrite Ho1 in H. destruct (get_obj st y) as [o|] eqn:Ho; [|contradiction].
    destruct H as (Hk & _). apply (coh_eh_ext st st1); [exact E|]. apply (Ce o e eq_refl). rewrite <- Hk. exact Hin.
Qed.

Lemma good_set_cache m st1 r v y o1 :
  get_obj st1 r = Some o1 -> good m st1 y ->
  (y = r -> pure_obj m st1 (okind_of o1) = Ok v) ->
  (forall d, okind_of o1 = KExpr d -> pure_obj m st1 (okind_of o1) = Ok v) ->
  good m (set_cache st1 r v) y.
Proof.
  intros Ho1 [Cy Ce] Hy Hx. pose proof (samek_set_cache st1 r v) as S. split.
  - intros o' v' Ho' Hc'. rewrite (pure_obj_samek m st1 _) by exact S.
    rewrite get_obj_set_cache in Ho'. destruct (Nat.eqb_spec y r) as [->|Hne].
    + rewrite Ho1 in Ho'. cbn in Ho'. injection Ho' as <-. cbn in Hc'. injection Hc' as <-. cbn. apply Hy. reflexivity.
    + apply (Cy o' v' Ho' Hc').
  - intros o' e Ho' Hin.
    assert (Hin1 : exists o, get_obj st1 y = Some o /\ In e (refs_of (okind_of o))).
    { rewrite get_obj_set_cache in Ho'. destruct (Nat.eqb_spec y r) as [->|Hne].
      - rewrite Ho1 in Ho'. cbn in Ho'. injection Ho' as <-. cbn in Hin. eauto.
      - eauto. }
    destruct Hin1 as (o & Ho & Hino). pose proof (Ce o e Ho Hino) as C.
    destruct e as [id|r']; cbn [coh_eh] in *; [exact I|].
    intros o2 d v2 Ho2 Hk2 Hc2. destruct S as (S1 & _).
    rewrite (expr_compute_ext st1 _) by assumption.
    rewrite get_obj_set_cache in Ho2. destruct (Nat.eqb_spec r' r) as [->|Hne].
    + rewrite Ho1 in Ho2. cbn in Ho2. injection Ho2 as <-. cbn in Hk2, Hc2. injection Hc2 as <-.
      specialize (Hx d Hk2). rewrite Hk2 in Hx. cbn [pure_obj] in Hx.
      destruct (expr_compute st1 d) as [q|]; [|discriminate]. injection Hx as <-. eauto.
    + apply (C o2 d v2 Ho2 Hk2 Hc2).
Qed.

Lemma eval_obj_good m st r st' x y :
  eval_obj st r = (st', x) -> good m st y ->
  (y = r -> forall o, get_obj st r = Some o -> okind_of o = KPoint [] -> ocache o = None ->
            m = length (lpv st)) ->
  good m st' y.
Proof.
  unfold eval_obj. intros H G Hm. destruct (get_obj st r) as [o|] eqn:Ho.
  2:{ injection H as <- <-. exact G. }
  destruct (ocache o) as [v|] eqn:Hc.
  { injection H as <- <-. exact G. }
  destruct (okind_of o) as [d|d|e s|mm] eqn:Hk.
  - destruct (point_compute (length (lpv st)) st d) as [u|] eqn:Hp; injection H as <- <-; [|exact G].
    apply (good_set_cache m st r (VVec u) y o Ho G).
    + intros ->. rewrite Hk. cbn [pure_obj].
      assert (E : point_compute m st d = point_compute (length (lpv st)) st d).
      { destruct d as [|kw d]; [rewrite (Hm eq_refl o eq_refl Hk Hc); reflexivity|apply point_compute_m; discriminate]. }
      rewrite E, Hp. reflexivity.
    + intros d' Hk'. congruence.
  - destruct (expr_compute st d) as [q|] eqn:Hq; injection H as <- <-; [|exact G].
    apply (good_set_cache m st r (VNum q) y o Ho G); intros; rewrite Hk; cbn [pure_obj]; rewrite Hq; reflexivity.
  - destruct (eval_eh st e) as [st1 x1] eqn:H1. apply eval_eh_spec in H1 as [E1 P1].
    pose proof (good_ext m st st1 y E1 G) as G1.
    destruct x1 as [q|]; injection H as <- <-; [|exact G1].
    pose proof E1 as (_ & _ & E). specialize (E r). rewrite Ho in E.
    destruct (get_obj st1 r) as [o1|] eqn:Ho1; [|contradiction]. destruct E as (Hk1 & _).
    apply (good_set_cache m st1 r (VNum q) y o1 Ho1 G1).
    + intros ->. rewrite Hk1, Hk. cbn [pure_obj].
      rewrite (pure_eh_samek st st1) by (apply frame_samek, ext_frame, E1).
      rewrite <- P1; [reflexivity|]. destruct G as [_ Ce]. apply (Ce o e Ho). rewrite Hk. left. reflexivity.
    + intros d' Hk'. congruence.
  - destruct (eval_rows st mm) as [st1 x1] eqn:H1. apply eval_rows_spec in H1 as [E1 P1].
    pose proof (good_ext m st st1 y E1 G) as G1.
    destruct x1 as [qss|]; injection H as <- <-; [|exact G1].
    pose proof E1 as (_ & _ & E). specialize (E r). rewrite Ho in E.
    destruct (get_obj st1 r) as [o1|] eqn:Ho1; [|contradiction]. destruct E as (Hk1 & _).
    apply (good_set_cache m st1 r (VMat qss) y o1 Ho1 G1).
    + intros ->. rewrite Hk1, Hk. cbn [pure_obj].
      rewrite (pure_rows_samek st st1) by (apply frame_samek, ext_frame, E1).
      rewrite <- P1; [reflexivity|]. intros e0 Hin. destruct G as [_ Ce]. apply (Ce o e0 Ho). rewrite Hk. exact Hin.
    + intros d' Hk'. congruence.
Qed.

(** an object none of whose caches is set is coherent with ANY leaf tables *)
Definition clean (st : est) (r : nat) : Prop :=
  forall o, get_obj st r = Some o ->
    ocache o = None /\
    forall r', In (ERef r') (refs_of (okind_of o)) -> forall o', get_obj st r' = Some o' -> ocache o' = None.

Lemma clean_good m st r : clean st r -> good m st r.
Proof.
  intro C. split.
  - intros o v Ho Hc. destruct (C o Ho) as [Hn _]. congruence.
  - intros o e Ho Hin. destruct e as [id|r']; cbn [coh_eh]; [exact I|].
    intros o' d v Ho' _ Hc. destruct (C o Ho) as [_ Hr]. rewrite (Hr r' Hin o' Ho') in Hc. discriminate.
Qed.
