(** C03 — non-vacuity: for six classes of different kinds a concrete real member, a concrete generator
    state with three recorded samples (leaf points, a linear combination of leaves, a stationary
    sample / repeated point / transpose samples), and a valuation under which EVERY hypothesis of the
    class theorem holds; the theorem then applies, and the generator does produce constraints. *)
From Coq Require Import List QArith Reals Qreals Lra Bool Arith Lia String.
From PV Require Import Base.IPS Model.Dict Model.Terms Model.ClassGen Spec.Sem Spec.Reference Spec.Classes.
From PV Require Import Proofs.DictLemmas Proofs.SemLemmas Proofs.ClassGenLemmas Proofs.FormulaEq Proofs.C04Lemmas.
From PV Require Import Proofs.MembersA Proofs.MembersB Proofs.MembersC Proofs.C03Core Proofs.C03Assembly.
From PV Require Import Gen.Classes.
Import ListNotations.
Local Open Scope R_scope.

Definition leaf_vals {A} (d : A) (l : list A) : nat -> A := fun n => nth n l d.
Definition par1 (p : nat) (v : Q) : nat -> Q := fun q => if Nat.eqb q p then v else 0%Q.
Definition par2 (p1 : nat) (v1 : Q) (p2 : nat) (v2 : Q) : nat -> Q :=
  fun q => if Nat.eqb q p1 then v1 else if Nat.eqb q p2 then v2 else 0%Q.
Definition no_inf : nat -> bool := fun _ => false.
Definition no_Lk : nat -> Q := fun _ => 0%Q.

Ltac nodup := unfold NoDupKeys, keys; cbn; repeat constructor; cbn; intuition (try discriminate; try lia).
Ltac wf_sample_tac := unfold wf_sample; cbn; repeat split; nodup.
Ltac in_cases H := cbn [In] in H; repeat (destruct H as [H|H]; [subst|]); [..|destruct H].
Ltac wf_list_tac := let s := fresh "s" in let H := fresh "H" in intros s H; in_cases H; wf_sample_tac.
Ltac wf_state_tac :=
  unfold wf_state; cbn; split; [|split; [|split]];
  [ wf_list_tac | wf_list_tac | wf_list_tac | first [exact I | nodup] ].
Ltac finish := repeat (split; [assumption|]); try split; vm_compute; reflexivity.
Ltac calc := cbn; unfold Q2R; cbn; lra.

(** ** 1. a smooth class: SmoothConvexFunction(L = 2), F x = x^2 on the real line *)
Definition ex1_rho : nat -> R1 := @leaf_vals R 0 [1; 2; 0; -1].
Definition ex1_phi : nat -> R := leaf_vals 0 [1; 0].
Definition ex1_s1 := mkSample [(0%nat, 1%Q)] [(1%nat, 1%Q)] [(KF 0, 1%Q)] (Some "x0"%string) 0 1 2 [].   (* (1, 2, 1) *)
Definition ex1_s2 := mkSample [(2%nat, 1%Q)] [] [(KF 1, 1%Q)] None 3 4 5 [].                                (* stationary (0, 0, 0) *)
Definition ex1_s3 := mkSample [(0%nat, 1%Q); (3%nat, 2%Q)] [(1%nat, (-1)%Q)] [(KF 0, 1%Q)] None 6 7 8 [].  (* x0 + 2 p3 = -1: (-1, -2, 1) *)
Definition ex1_st : fstate :=
  mkF "f" (par1 0 2%Q) no_inf [ex1_s1; ex1_s2; ex1_s3] [ex1_s2] [] None 4 2 9 0 no_Lk.
Definition ex1_F : @dfn R1 := @mkD R1 (fun x : R => x * x) (fun x : R => 2 * x).

Lemma ex1_member : smooth_convex_member 2 ex1_F.
Proof. exact (proj1 smooth_classes_nonvacuous). Qed.

Example ex_SmoothConvexFunction :
  0 < 2 /\ smooth_convex_member 2 ex1_F /\ par_is ex1_st 0 2 /\ wf_state ex1_st /\
  (forall s, In s (f_points ex1_st) -> genuine_grad ex1_F (sval ex1_rho ex1_phi s)) /\
  all_satisfied ex1_rho ex1_phi (run_plan plan_SmoothConvexFunction ex1_st) /\
  List.length (g_cons (run_plan plan_SmoothConvexFunction ex1_st)) = 6%nat.
Proof.
  assert (H1 : 0 < 2) by lra.
  assert (H3 : par_is ex1_st 0 2) by (unfold par_is; calc).
  assert (H4 : wf_state ex1_st) by wf_state_tac.
  assert (H5 : forall s, In s (f_points ex1_st) -> genuine_grad ex1_F (sval ex1_rho ex1_phi s)).
  { intros s H. cbn [f_points ex1_st] in H. in_cases H; (split; [intro w; calc|calc]). }
  pose proof ex1_member as H2.
  pose proof (c03_SmoothConvexFunction ex1_rho ex1_phi 2 ex1_F ex1_st H1 H2 H3 H4 H5) as Hall.
  finish.
Qed.

(** ** 2. a non-smooth class: ConvexFunction, F x = |x|, with a subgradient 1/2 chosen at the kink *)
Definition ex2_rho : nat -> R1 := @leaf_vals R 0 [1; 1; -2; -1; 0; 1].
Definition ex2_phi : nat -> R := leaf_vals 0 [1; 2; 0].
Definition ex2_s1 := mkSample [(0%nat, 1%Q)] [(1%nat, 1%Q)] [(KF 0, 1%Q)] None 0 1 2 [].            (* (1, 1, 1) *)
Definition ex2_s2 := mkSample [(2%nat, 1%Q)] [(3%nat, 1%Q)] [(KF 1, 1%Q)] None 3 4 5 [].            (* (-2, -1, 2) *)
Definition ex2_s3 := mkSample [(4%nat, 1%Q)] [(5%nat, (1 # 2)%Q)] [(KF 2, 1%Q)] None 6 7 8 [].      (* (0, 1/2, 0) *)
Definition ex2_st : fstate :=
  mkF "f" (fun _ => 0%Q) no_inf [ex2_s1; ex2_s2; ex2_s3; ex2_s1] [] [] None 6 3 9 0 no_Lk.      (* s1 recorded twice *)
Definition ex2_F : @fn R1 := @mkFn R1 (fun _ => True) (fun x : R => Rabs x).

Example ex_ConvexFunction :
  wf_state ex2_st /\
  (forall s, In s (f_points ex2_st) -> genuine_sub ex2_F (sval ex2_rho ex2_phi s)) /\
  all_satisfied ex2_rho ex2_phi (run_plan plan_ConvexFunction ex2_st) /\
  List.length (g_cons (run_plan plan_ConvexFunction ex2_st)) = 10%nat.
Proof.
  assert (H4 : wf_state ex2_st) by wf_state_tac.
  assert (H5 : forall s, In s (f_points ex2_st) -> genuine_sub ex2_F (sval ex2_rho ex2_phi s)).
  { intros s H. cbn [f_points ex2_st] in H.
    in_cases H; (split; [split; [exact I|intros y _; change R in y]|]); cbn; unfold Q2R; cbn;
      unfold Rabs; repeat destruct Rcase_abs; lra. }
  pose proof (c03_ConvexFunction ex2_rho ex2_phi ex2_F ex2_st H4 H5) as Hall.
  finish.
Qed.

(** ** 3. ConvexIndicatorFunction(D = 2): the indicator of [-1, 1] *)
Definition ex3_rho : nat -> R1 := @leaf_vals R 0 [1; 3; 0; -1].
Definition ex3_phi : nat -> R := leaf_vals 0 [0; 0; 0].
Definition ex3_s1 := mkSample [(0%nat, 1%Q)] [(1%nat, 1%Q)] [(KF 0, 1%Q)] None 0 1 2 [].            (* (1, 3, 0): 3 in N_C(1) *)
Definition ex3_s2 := mkSample [(2%nat, 1%Q)] [] [(KF 1, 1%Q)] None 3 4 5 [].                        (* (0, 0, 0) *)
Definition ex3_s3 := mkSample [(3%nat, 1%Q)] [(3%nat, 1%Q)] [(KF 2, 1%Q)] None 6 7 8 [].            (* (-1, -1, 0) *)
Definition ex3_st : fstate :=
  mkF "f" (par1 3 2%Q) no_inf [ex3_s1; ex3_s2; ex3_s3] [] [] None 4 3 9 0 no_Lk.
Definition ex3_F : @fn R1 := @mkFn R1 (fun x : R => -1 <= x <= 1) (fun _ => 0).

Example ex_ConvexIndicatorFunction :
  indicator_member (Some 2) ex3_F /\ opt_par_is ex3_st 3 (Some 2) /\ wf_state ex3_st /\
  (forall s, In s (f_points ex3_st) -> genuine_sub ex3_F (sval ex3_rho ex3_phi s)) /\
  all_satisfied ex3_rho ex3_phi (run_plan plan_ConvexIndicatorFunction ex3_st) /\
  List.length (g_cons (run_plan plan_ConvexIndicatorFunction ex3_st)) = 15%nat.
Proof.
  assert (H1 : indicator_member (Some 2) ex3_F).
  { split; [intros x _; reflexivity|]. intros x y Hx Hy. cbn in *. change R in x, y. unfold nrm2, vsub, vneg. cbn. nra. }
  assert (H3 : opt_par_is ex3_st 3 (Some 2)) by (split; [reflexivity|calc]).
  assert (H4 : wf_state ex3_st) by wf_state_tac.
  assert (H5 : forall s, In s (f_points ex3_st) -> genuine_sub ex3_F (sval ex3_rho ex3_phi s)).
  { intros s H. cbn [f_points ex3_st] in H.
    in_cases H; (split; [split; [|intros y Hy; change R in y]|]); cbn in *; unfold Q2R; cbn; lra. }
  pose proof (c03_ConvexIndicatorFunction ex3_rho ex3_phi (Some 2) ex3_F ex3_st H1 H3 H4 H5) as Hall.
  finish.
Qed.

(** ** 4. an operator class: CocoerciveOperator(beta = 1/2), A x = 2 x *)
Definition ex4_rho : nat -> R1 := @leaf_vals R 0 [1; 2; 0; 3].
Definition ex4_s1 := mkSample [(0%nat, 1%Q)] [(1%nat, 1%Q)] [(KF 0, 1%Q)] None 0 1 2 [].                    (* (1, 2) *)
Definition ex4_s2 := mkSample [(2%nat, 1%Q)] [(2%nat, 1%Q)] [(KF 1, 1%Q)] None 3 4 5 [].                    (* fixed point of I - A... (0, 0) *)
Definition ex4_s3 := mkSample [(3%nat, (1 # 2)%Q); (0%nat, 1%Q)] [(3%nat, 1%Q); (1%nat, 1%Q)] [(KF 2, 1%Q)] None 6 7 8 []. (* (5/2, 5) *)
Definition ex4_st : fstate :=
  mkF "A" (par1 4 (1 # 2)%Q) no_inf [ex4_s1; ex4_s2; ex4_s3] [] [] None 4 3 9 0 no_Lk.
Definition ex4_A : @graph R1 := fun x g : R => g = 2 * x.

Example ex_CocoerciveOperator :
  cocoercive_op (1 / 2) ex4_A /\ par_is ex4_st 4 (1 / 2) /\ wf_state ex4_st /\
  (forall s, In s (f_points ex4_st) -> genuine_op ex4_A (sval ex4_rho (fun _ => 0) s)) /\
  all_satisfied ex4_rho (fun _ => 0) (run_plan plan_CocoerciveOperator ex4_st) /\
  List.length (g_cons (run_plan plan_CocoerciveOperator ex4_st)) = 3%nat.
Proof.
  assert (H1 : cocoercive_op (1 / 2) ex4_A) by exact (proj1 (proj2 (proj2 operator_classes_nonvacuous))).
  assert (H3 : par_is ex4_st 4 (1 / 2)) by (unfold par_is; calc).
  assert (H4 : wf_state ex4_st) by wf_state_tac.
  assert (H5 : forall s, In s (f_points ex4_st) -> genuine_op ex4_A (sval ex4_rho (fun _ => 0) s)).
  { intros s H. cbn [f_points ex4_st] in H. in_cases H; unfold ex4_A; calc. }
  pose proof (c03_CocoerciveOperator ex4_rho (fun _ => 0) (1 / 2) ex4_A ex4_st H1 H3 H4 H5) as Hall.
  finish.
Qed.

(** ** 5. a linear-operator class with LMIs: LinearOperator(L = 1), the quarter turn J of R^2 and its
       transpose; two samples of J, one of J^T *)
Definition ex5_rho : nat -> Rn 2 := @leaf_vals (nat -> R) (vec2 0 0) [vec2 1 0; vec2 0 1; vec2 0 2; vec2 (-2) 0; vec2 0 (-1)].
Definition ex5_s1 := mkSample [(0%nat, 1%Q)] [(1%nat, 1%Q)] [] None 0 1 2 [].                               (* x = e1, J x = e2 *)
Definition ex5_s2 := mkSample [(0%nat, 1%Q); (2%nat, 1%Q)] [(3%nat, 1%Q); (1%nat, 1%Q)] [] None 3 4 5 [].   (* x = (1,2), J x = (-2,1) *)
Definition ex5_t1 := mkSample [(0%nat, 1%Q)] [(4%nat, 1%Q)] [] None 6 7 8 [].                               (* u = e1, J^T u = -e2 *)
Definition ex5_st : fstate :=
  mkF "M" (par1 0 1%Q) no_inf [ex5_s1; ex5_s2] [] [ex5_t1] None 5 0 9 0 no_Lk.
Definition ex5_J := mat2 0 (-1) 1 0.
Definition ex5_Jt := mat2 0 1 (-1) 0.

Example ex_LinearOperator :
  bounded_pair 1 ex5_J ex5_Jt /\ par_is ex5_st 0 1 /\ wf_state ex5_st /\
  (forall s, In s (f_points ex5_st) -> genuine_lin ex5_J (sval ex5_rho (fun _ => 0) s)) /\
  (forall s, In s (f_tpoints ex5_st) -> genuine_lin ex5_Jt (sval ex5_rho (fun _ => 0) s)) /\
  all_satisfied ex5_rho (fun _ => 0) (run_plan plan_LinearOperator ex5_st) /\
  List.length (g_cons (run_plan plan_LinearOperator ex5_st)) = 2%nat /\
  List.length (g_lmis (run_plan plan_LinearOperator ex5_st)) = 2%nat.
Proof.
  assert (H1 : bounded_pair 1 ex5_J ex5_Jt) by exact (proj1 linear_operator_nonvacuous).
  assert (H3 : par_is ex5_st 0 1) by (unfold par_is; calc).
  assert (H4 : wf_state ex5_st) by wf_state_tac.
  assert (H5 : forall s, In s (f_points ex5_st) -> genuine_lin ex5_J (sval ex5_rho (fun _ => 0) s)).
  { intros s H. cbn [f_points ex5_st] in H.
    in_cases H; apply veq_Rn2; unfold ex5_J, mat2, vec2; cbn; unfold Q2R; cbn; split; lra. }
  assert (H6 : forall s, In s (f_tpoints ex5_st) -> genuine_lin ex5_Jt (sval ex5_rho (fun _ => 0) s)).
  { intros s H. cbn [f_tpoints ex5_st] in H.
    in_cases H; apply veq_Rn2; unfold ex5_Jt, mat2, vec2; cbn; unfold Q2R; cbn; split; lra. }
  pose proof (c03_LinearOperator ex5_rho (fun _ => 0) 1 ex5_J ex5_Jt ex5_st H1 H3 H4 H5 H6) as Hall.
  finish.
Qed.

(** ** 6. SmoothStronglyConvexQuadraticFunction(mu = 1, L = 3):
       F x = 5 + 1/2 <x - xs, Q (x - xs)>, Q = [[2,1],[1,2]], xs = (1,1); the stationary sample created
       by the constructor comes first *)
Definition ex6_rho : nat -> Rn 2 := @leaf_vals (nat -> R) (vec2 0 0) [vec2 1 1; vec2 2 1; vec2 0 (-1)].
Definition ex6_phi : nat -> R := leaf_vals 0 [5; 6].
Definition ex6_s0 := mkSample [(0%nat, 1%Q)] [] [(KF 0, 1%Q)] None 0 1 2 [].                                 (* (xs, 0, 5) *)
Definition ex6_s1 := mkSample [(1%nat, 1%Q)] [(1%nat, 1%Q)] [(KF 1, 1%Q)] None 3 4 5 [].                     (* x = (2,1), g = (2,1), f = 6 *)
Definition ex6_s2 := mkSample [(0%nat, 1%Q); (2%nat, 1%Q)] [(2%nat, 2%Q); (1%nat, (-1)%Q); (0%nat, 1%Q)] [(KF 0, 1%Q); (K1, 1%Q)] None 6 7 8 [].
                                                                       (* x = (1,0), x - xs = (0,-1), g = (-1,-2), f = 5 + 1 *)
Definition ex6_st : fstate :=
  mkF "f" (par2 0 3%Q 1 1%Q) no_inf [ex6_s0; ex6_s1; ex6_s2] [ex6_s0] [] None 3 2 9 0 no_Lk.
Definition ex6_Q := mat2 2 1 1 2.

Example ex_SmoothStronglyConvexQuadraticFunction :
  sa_bounded 1 3 ex6_Q /\ par_is ex6_st 0 3 /\ par_is ex6_st 1 1 /\ wf_state ex6_st /\
  (forall s, In s (f_points ex6_st) ->
             genuine_quad ex6_Q (stat_x ex6_rho ex6_st) (stat_f ex6_rho ex6_phi ex6_st) (sval ex6_rho ex6_phi s)) /\
  all_satisfied ex6_rho ex6_phi (run_plan plan_SmoothStronglyConvexQuadraticFunction ex6_st) /\
  List.length (g_cons (run_plan plan_SmoothStronglyConvexQuadraticFunction ex6_st)) = 6%nat /\
  List.length (g_lmis (run_plan plan_SmoothStronglyConvexQuadraticFunction ex6_st)) = 1%nat.
Proof.
  assert (H1 : sa_bounded 1 3 ex6_Q) by exact Q2112_bounded.
  assert (H2 : par_is ex6_st 0 3) by (unfold par_is; calc).
  assert (H3 : par_is ex6_st 1 1) by (unfold par_is; calc).
  assert (H4 : wf_state ex6_st) by wf_state_tac.
  assert (H5 : forall s, In s (f_points ex6_st) ->
             genuine_quad ex6_Q (stat_x ex6_rho ex6_st) (stat_f ex6_rho ex6_phi ex6_st) (sval ex6_rho ex6_phi s)).
  { intros s H. cbn [f_points ex6_st] in H.
    in_cases H; (split; [apply veq_Rn2|]); unfold ex6_Q, mat2, vec2, vsub, vneg; cbn; unfold Q2R; cbn; try split; lra. }
  pose proof (c03_SmoothStronglyConvexQuadraticFunction ex6_rho ex6_phi 1 3 ex6_Q ex6_st H1 H2 H3 H4 H5) as Hall.
  finish.
Qed.
