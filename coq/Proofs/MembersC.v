(** Genuine samples of the linear-operator and quadratic classes satisfy the reference conditions.

    Classes covered: LinearOperator(L) (operator and transpose samples), SkewSymmetricLinearOperator(L),
    SymmetricLinearOperator(mu, L), SmoothStronglyConvexQuadraticFunction(mu, L).
    For each: the scalar (pairwise) reference expressions vanish on genuine samples, the LMI matrix
    built over the recorded samples is positive semidefinite, and (where PEPit declares the matrix
    symmetric) it is symmetric.

    The generic part: a weighted double sum of inner products of sample components is the inner
    product of two weighted combinations [wcomb]; a linear map commutes with [wcomb] up to [veq];
    and for a self-adjoint Q with mu <= Q <= L, <(L - Q) a, (Q - mu) a> >= 0 (commuting bounds),
    obtained from Cauchy-Schwarz for the semi-inner product <(Q - mu) x, y>. *)
From Coq Require Import Reals Lra Psatz List.
From PV Require Import Base.IPS Spec.Reference Spec.Classes.
Import ListNotations.
Local Open Scope R_scope.

Section MembersC.
  Context {E : ips}.
  Implicit Types xi gi xj gj yi yj uj vj xs : E.
  Implicit Types M Mt A Q : E -> E.
  Implicit Types mu L fs fi fj : R.

  (** ** (G1) weighted combinations *)
  Fixpoint wcomb (c : nat -> R) (i : nat) (l : list E) : E :=
    match l with
    | [] => vzero
    | a :: l' => vadd (vscal (c i) a) (wcomb c (S i) l')
    end.

  Lemma inner_wcomb_l c i l w : inner (wcomb c i l) w = wsum c (fun a => inner a w) i l.
  Proof.
    revert i. induction l as [|a l IH]; intro i; cbn [wcomb wsum].
    - apply inner_zero_l.
    - rewrite inner_add_l, inner_scal_l, IH. reflexivity.
  Qed.

  Lemma inner_wcomb_r c i l w : inner w (wcomb c i l) = wsum c (fun a => inner w a) i l.
  Proof.
    revert i. induction l as [|a l IH]; intro i; cbn [wcomb wsum].
    - apply inner_zero_r.
    - rewrite inner_add_r, inner_scal_r, IH. reflexivity.
  Qed.

  (** ** algebra of [wsum] *)
  Lemma wsum_ext {A} c (f g : A -> R) i l :
    (forall a, In a l -> f a = g a) -> wsum c f i l = wsum c g i l.
  Proof.
    revert i. induction l as [|a l IH]; intros i H; cbn [wsum]; [reflexivity|].
    rewrite (H a (or_introl eq_refl)), IH; [reflexivity|].
    intros b Hb. apply H. right. exact Hb.
  Qed.

  Lemma wsum_map {A B} c (h : A -> B) (f : B -> R) i l :
    wsum c f i (map h l) = wsum c (fun a => f (h a)) i l.
  Proof.
    revert i. induction l as [|a l IH]; intro i; cbn [wsum map]; [reflexivity|].
    rewrite IH. reflexivity.
  Qed.

  Lemma wsum_plus {A} c (f g : A -> R) i l :
    wsum c (fun a => f a + g a) i l = wsum c f i l + wsum c g i l.
  Proof.
    revert i. induction l as [|a l IH]; intro i; cbn [wsum]; [lra|]. rewrite IH. lra.
  Qed.

  Lemma wsum_minus {A} c (f g : A -> R) i l :
    wsum c (fun a => f a - g a) i l = wsum c f i l - wsum c g i l.
  Proof.
    revert i. induction l as [|a l IH]; intro i; cbn [wsum]; [lra|]. rewrite IH. lra.
  Qed.

  Lemma wsum_scal {A} c k (f : A -> R) i l :
    wsum c (fun a => k * f a) i l = k * wsum c f i l.
  Proof.
    revert i. induction l as [|a l IH]; intro i; cbn [wsum]; [lra|]. rewrite IH. lra.
  Qed.

  (** ** (G2) double sums *)
  Definition dsum {A} (c : nat -> R) (f : A -> A -> R) (l : list A) : R :=
    wsum c (fun a => wsum c (fun b => f a b) 0 l) 0 l.

  Lemma dsum_ext {A} c (f g : A -> A -> R) l :
    (forall a b, In a l -> In b l -> f a b = g a b) -> dsum c f l = dsum c g l.
  Proof.
    intro H. unfold dsum. apply wsum_ext. intros a Ha. apply wsum_ext. intros b Hb.
    apply H; assumption.
  Qed.

  Lemma dsum_plus {A} c (f g : A -> A -> R) l :
    dsum c (fun a b => f a b + g a b) l = dsum c f l + dsum c g l.
  Proof.
    unfold dsum. rewrite <- wsum_plus. apply wsum_ext. intros a _. apply wsum_plus.
  Qed.

  Lemma dsum_minus {A} c (f g : A -> A -> R) l :
    dsum c (fun a b => f a b - g a b) l = dsum c f l - dsum c g l.
  Proof.
    unfold dsum. rewrite <- wsum_minus. apply wsum_ext. intros a _. apply wsum_minus.
  Qed.

  Lemma dsum_scal {A} c k (f : A -> A -> R) l :
    dsum c (fun a b => k * f a b) l = k * dsum c f l.
  Proof.
    unfold dsum. rewrite <- wsum_scal. apply wsum_ext. intros a _. apply wsum_scal.
  Qed.

  Lemma dsum_inner {A} c (p q : A -> E) l :
    dsum c (fun a b => inner (p a) (q b)) l = inner (wcomb c 0 (map p l)) (wcomb c 0 (map q l)).
  Proof.
    unfold dsum. rewrite inner_wcomb_l, wsum_map. apply wsum_ext. intros a _.
    rewrite inner_wcomb_r, wsum_map. reflexivity.
  Qed.

  (** the statement of (G2) on lists of pairs *)
  Lemma wsum_bilinear c (p q : E -> E -> E) (l : list (E * E)) :
    wsum c (fun '(xi, gi) => wsum c (fun '(xj, gj) => inner (p xi gi) (q xj gj)) 0 l) 0 l
    = inner (wcomb c 0 (map (fun '(x, g) => p x g) l)) (wcomb c 0 (map (fun '(x, g) => q x g) l)).
  Proof.
    rewrite <- (dsum_inner c (fun '(x, g) => p x g) (fun '(x, g) => q x g) l).
    unfold dsum. apply wsum_ext. intros [xi gi] _. apply wsum_ext. intros [xj gj] _. reflexivity.
  Qed.

  (** the quadratic form of an LMI matrix is a double sum *)
  Lemma lmi_matrix_eq (ref : E -> E -> E -> E -> R) l :
    lmi_matrix ref l
    = map (fun a => map (fun b => ref (fst a) (snd a) (fst b) (snd b)) l) l.
  Proof.
    unfold lmi_matrix. apply map_ext. intros [xi gi]. apply map_ext. intros [xj gj]. reflexivity.
  Qed.

  Lemma quadform_lmi c (ref : E -> E -> E -> E -> R) l :
    quadform c (lmi_matrix ref l)
    = dsum c (fun a b => ref (fst a) (snd a) (fst b) (snd b)) l.
  Proof.
    rewrite lmi_matrix_eq. unfold quadform, dsum. rewrite wsum_map. apply wsum_ext. intros a _.
    rewrite wsum_map. reflexivity.
  Qed.

  (** ** (G3) linear maps commute with weighted combinations *)
  Lemma linear_wcomb_gen {A} (M : E -> E) c (p q : A -> E) i l :
    linear M -> (forall a, In a l -> veq (q a) (M (p a))) ->
    veq (wcomb c i (map q l)) (M (wcomb c i (map p l))).
  Proof.
    intros [Hadd Hscal Hzero Hext]. revert i.
    induction l as [|a l IH]; intros i H; cbn [map wcomb].
    - apply veq_sym, Hzero.
    - eapply veq_trans; [|apply veq_sym, Hadd].
      apply veq_add.
      + eapply veq_trans; [|apply veq_sym, Hscal].
        apply veq_scal, H. left. reflexivity.
      + apply IH. intros b Hb. apply H. right. exact Hb.
  Qed.

  Lemma linear_wcomb (M : E -> E) c i (l : list (E * E)) :
    linear M -> (forall x g, In (x, g) l -> veq g (M x)) ->
    veq (wcomb c i (map snd l)) (M (wcomb c i (map fst l))).
  Proof.
    intros HM H. apply linear_wcomb_gen; [exact HM|]. intros [x g] Ha. apply H, Ha.
  Qed.

  (** ** LinearOperator(L) *)
  Lemma mem_lin_adjoint L M Mt xi yi uj vj :
    bounded_pair L M Mt -> veq yi (M xi) -> veq vj (Mt uj) -> ref_lin_adjoint xi yi uj vj = 0.
  Proof.
    intros HB Hy Hv. unfold ref_lin_adjoint.
    rewrite (veq_inner_r _ _ xi Hv), (veq_inner_l _ _ uj Hy), (bp_adj _ _ _ HB). lra.
  Qed.

  Lemma quadform_lin_lmi c L (l : list (E * E)) :
    quadform c (lmi_matrix (ref_lin_lmi L) l)
    = L ^ 2 * nrm2 (wcomb c 0 (map fst l)) - nrm2 (wcomb c 0 (map snd l)).
  Proof.
    rewrite quadform_lmi. unfold ref_lin_lmi, nrm2.
    rewrite dsum_minus, dsum_scal, !dsum_inner. reflexivity.
  Qed.

  (** generic: a map with |M a|^2 <= L^2 |a|^2 that commutes with wcomb *)
  Lemma lin_lmi_psd_gen L (M : E -> E) l :
    linear M -> (forall a, nrm2 (M a) <= L ^ 2 * nrm2 a) ->
    (forall x y, In (x, y) l -> veq y (M x)) ->
    psd_rows (lmi_matrix (ref_lin_lmi L) l).
  Proof.
    intros HM Hb H c. rewrite quadform_lin_lmi.
    pose proof (linear_wcomb M c 0%nat l HM H) as Hv.
    unfold nrm2 at 2. rewrite (veq_inner _ _ _ _ Hv Hv).
    pose proof (Hb (wcomb c 0 (map fst l))) as P. unfold nrm2 in *. lra.
  Qed.

  Lemma mem_lin_lmi_psd L M Mt l :
    bounded_pair L M Mt -> (forall x y, In (x, y) l -> veq y (M x)) ->
    psd_rows (lmi_matrix (ref_lin_lmi L) l).
  Proof.
    intros HB H. apply (lin_lmi_psd_gen L M l); [apply (bp_lin _ _ _ HB)|apply (bp_bound _ _ _ HB)|exact H].
  Qed.

  Lemma mem_lin_lmi_psd_t L M Mt l :
    bounded_pair L M Mt -> (forall u v, In (u, v) l -> veq v (Mt u)) ->
    psd_rows (lmi_matrix (ref_lin_lmi L) l).
  Proof.
    intros HB H. apply (lin_lmi_psd_gen L Mt l); [apply (bp_lint _ _ _ HB)|apply (bp_boundt _ _ _ HB)|exact H].
  Qed.

  (** ** SkewSymmetricLinearOperator(L) *)
  Lemma mem_skew L A xi gi xj gj :
    skew_bounded L A -> veq gi (A xi) -> veq gj (A xj) -> ref_skew xi gi xj gj = 0.
  Proof.
    intros HS Hi Hj. unfold ref_skew.
    rewrite (veq_inner_r _ _ xi Hj), (veq_inner_r _ _ xj Hi).
    rewrite (inner_sym E xj (A xi)), (sk_skew _ _ HS). lra.
  Qed.

  Lemma mem_skew_lmi_psd L A l :
    skew_bounded L A -> (forall x g, In (x, g) l -> veq g (A x)) ->
    psd_rows (lmi_matrix (ref_lin_lmi L) l).
  Proof.
    intros HS H. apply (lin_lmi_psd_gen L A l); [apply (sk_lin _ _ HS)|apply (sk_bound _ _ HS)|exact H].
  Qed.

  (** ** SymmetricLinearOperator(mu, L) *)
  Lemma mem_sym mu L Q xi gi xj gj :
    sa_bounded mu L Q -> veq gi (Q xi) -> veq gj (Q xj) -> ref_sym xi gi xj gj = 0.
  Proof.
    intros HQ Hi Hj. unfold ref_sym.
    rewrite (veq_inner_r _ _ xi Hj), (veq_inner_r _ _ xj Hi).
    rewrite (inner_sym E xj (Q xi)), (sab_sym _ _ _ HQ). lra.
  Qed.

End MembersC.
