(** Genuine samples of the linear-operator and quadratic classes satisfy the reference conditions.

    Classes covered: LinearOperator(L) (operator and transpose samples), SkewSymmetricLinearOperator(L),
    SymmetricLinearOperator(mu, L), SmoothStronglyConvexQuadraticFunction(mu, L).
    For each: the scalar (pairwise) reference expressions vanish on genuine samples, the LMI matrix
    built over the recorded samples is positive semidefinite, and (where PEPit declares the matrix
    symmetric) it is symmetric.

    The generic part: a weighted double sum of inner products of sample components is the inner
    product of two weighted combinations [wcomb]; a linear map commutes with [wcomb] up to [veq];
    and for a self-adjoint Q with mu <= Q <= L, <(L - Q) a, (Q - mu) a> >= 0 (commuting bounds),
    obtained from Cauchy-Schwarz for the semi-inner product <(Q - mu) x, y>. *)
From Coq Require Import Reals Lra Psatz List.
From PV Require Import Base.IPS Spec.Reference Spec.Classes.
Import ListNotations.
Local Open Scope R_scope.

Section MembersC.
  Context {E : ips}.
  Implicit Types xi gi xj gj yi yj uj vj xs : E.
  Implicit Types M Mt A Q : E -> E.
  Implicit Types mu L fs fi fj : R.

  (** ** (G1) weighted combinations *)
  Fixpoint wcomb (c : nat -> R) (i : nat) (l : list E) : E :=
    match l with
    | [] => vzero
    | a :: l' => vadd (vscal (c i) a) (wcomb c (S i) l')
    end.

  Lemma inner_wcomb_l c i l w : inner (wcomb c i l) w = wsum c (fun a => inner a w) i l.
  Proof.
    revert i. induction l as [|a l IH]; intro i; cbn [wcomb wsum].
    - apply inner_zero_l.
    - rewrite inner_add_l, inner_scal_l, IH. reflexivity.
  Qed.

  Lemma inner_wcomb_r c i l w : inner w (wcomb c i l) = wsum c (fun a => inner w a) i l.
  Proof.
    revert i. induction l as [|a l IH]; intro i; cbn [wcomb wsum].
    - apply inner_zero_r.
    - rewrite inner_add_r, inner_scal_r, IH. reflexivity.
  Qed.

  (** ** algebra of [wsum] *)
  Lemma wsum_ext {T} c (f g : T -> R) i l :
    (forall a, In a l -> f a = g a) -> wsum c f i l = wsum c g i l.
  Proof.
    revert i. induction l as [|a l IH]; intros i H; cbn [wsum]; [reflexivity|].
    rewrite (H a (or_introl eq_refl)), IH; [reflexivity|].
    intros b Hb. apply H. right. exact Hb.
  Qed.

  Lemma wsum_map {T U} c (h : T -> U) (f : U -> R) i l :
    wsum c f i (map h l) = wsum c (fun a => f (h a)) i l.
  Proof.
    revert i. induction l as [|a l IH]; intro i; cbn [wsum map]; [reflexivity|].
    rewrite IH. reflexivity.
  Qed.

  Lemma wsum_plus {T} c (f g : T -> R) i l :
    wsum c (fun a => f a + g a) i l = wsum c f i l + wsum c g i l.
  Proof.
    revert i. induction l as [|a l IH]; intro i; cbn [wsum]; [lra|]. rewrite IH. lra.
  Qed.

  Lemma wsum_minus {T} c (f g : T -> R) i l :
    wsum c (fun a => f a - g a) i l = wsum c f i l - wsum c g i l.
  Proof.
    revert i. induction l as [|a l IH]; intro i; cbn [wsum]; [lra|]. rewrite IH. lra.
  Qed.

  Lemma wsum_scal {T} c k (f : T -> R) i l :
    wsum c (fun a => k * f a) i l = k * wsum c f i l.
  Proof.
    revert i. induction l as [|a l IH]; intro i; cbn [wsum]; [lra|]. rewrite IH. lra.
  Qed.

  (** ** (G2) double sums *)
  Definition dsum {T} (c : nat -> R) (f : T -> T -> R) (l : list T) : R :=
    wsum c (fun a => wsum c (fun b => f a b) 0 l) 0 l.

  Lemma dsum_ext {T} c (f g : T -> T -> R) l :
    (forall a b, In a l -> In b l -> f a b = g a b) -> dsum c f l = dsum c g l.
  Proof.
    intro H. unfold dsum. apply wsum_ext. intros a Ha. apply wsum_ext. intros b Hb.
    apply H; assumption.
  Qed.

  Lemma dsum_plus {T} c (f g : T -> T -> R) l :
    dsum c (fun a b => f a b + g a b) l = dsum c f l + dsum c g l.
  Proof.
    unfold dsum. rewrite <- wsum_plus. apply wsum_ext. intros a _. apply wsum_plus.
  Qed.

  Lemma dsum_minus {T} c (f g : T -> T -> R) l :
    dsum c (fun a b => f a b - g a b) l = dsum c f l - dsum c g l.
  Proof.
    unfold dsum. rewrite <- wsum_minus. apply wsum_ext. intros a _. apply wsum_minus.
  Qed.

  Lemma dsum_scal {T} c k (f : T -> T -> R) l :
    dsum c (fun a b => k * f a b) l = k * dsum c f l.
  Proof.
    unfold dsum. rewrite <- wsum_scal. apply wsum_ext. intros a _. apply wsum_scal.
  Qed.

  Lemma dsum_inner {T} c (p q : T -> E) l :
    dsum c (fun a b => inner (p a) (q b)) l = inner (wcomb c 0 (map p l)) (wcomb c 0 (map q l)).
  Proof.
    unfold dsum. rewrite inner_wcomb_l, wsum_map. apply wsum_ext. intros a _.
    rewrite inner_wcomb_r, wsum_map. reflexivity.
  Qed.

  (** the statement of (G2) on lists of pairs *)
  Lemma wsum_bilinear c (p q : E -> E -> E) (l : list (E * E)) :
    wsum c (fun '(xi, gi) => wsum c (fun '(xj, gj) => inner (p xi gi) (q xj gj)) 0 l) 0 l
    = inner (wcomb c 0 (map (fun '(x, g) => p x g) l)) (wcomb c 0 (map (fun '(x, g) => q x g) l)).
  Proof.
    rewrite <- (dsum_inner c (fun '(x, g) => p x g) (fun '(x, g) => q x g) l).
    unfold dsum. apply wsum_ext. intros [xi gi] _. apply wsum_ext. intros [xj gj] _. reflexivity.
  Qed.

  (** the quadratic form of an LMI matrix is a double sum *)
  Lemma lmi_matrix_eq (ref : E -> E -> E -> E -> R) l :
    lmi_matrix ref l
    = map (fun a => map (fun b => ref (fst a) (snd a) (fst b) (snd b)) l) l.
  Proof.
    unfold lmi_matrix. apply map_ext. intros [xi gi]. apply map_ext. intros [xj gj]. reflexivity.
  Qed.

  Lemma quadform_lmi c (ref : E -> E -> E -> E -> R) l :
    quadform c (lmi_matrix ref l)
    = dsum c (fun a b => ref (fst a) (snd a) (fst b) (snd b)) l.
  Proof.
    rewrite lmi_matrix_eq. unfold quadform, dsum. rewrite wsum_map. apply wsum_ext. intros a _.
    rewrite wsum_map. reflexivity.
  Qed.

  (** ** (G3) linear maps commute with weighted combinations *)
  Lemma linear_wcomb_gen {T} (M : E -> E) c (p q : T -> E) i l :
    linear M -> (forall a, In a l -> veq (q a) (M (p a))) ->
    veq (wcomb c i (map q l)) (M (wcomb c i (map p l))).
  Proof.
    intros [Hadd Hscal Hzero Hext]. revert i.
    induction l as [|a l IH]; intros i H; cbn [map wcomb].
    - apply veq_sym, Hzero.
    - eapply veq_trans; [|apply veq_sym, Hadd].
      apply veq_add.
      + eapply veq_trans; [|apply veq_sym, Hscal].
        apply veq_scal, H. left. reflexivity.
      + apply IH. intros b Hb. apply H. right. exact Hb.
  Qed.

  Lemma linear_wcomb (M : E -> E) c i (l : list (E * E)) :
    linear M -> (forall x g, In (x, g) l -> veq g (M x)) ->
    veq (wcomb c i (map snd l)) (M (wcomb c i (map fst l))).
  Proof.
    intros HM H. apply linear_wcomb_gen; [exact HM|]. intros [x g] Ha. apply H, Ha.
  Qed.

  (** ** symmetry of an LMI matrix *)
  Lemma nth_map_err {T U} (f : T -> U) l i d :
    nth i (map f l) d = match nth_error l i with Some a => f a | None => d end.
  Proof.
    revert i. induction l as [|a l IH]; intro i; destruct i; cbn [map nth nth_error]; try reflexivity.
    apply IH.
  Qed.

  Lemma nth_lmi (ref : E -> E -> E -> E -> R) l i j :
    nth j (nth i (lmi_matrix ref l) []) 0
    = match nth_error l i, nth_error l j with
      | Some a, Some b => ref (fst a) (snd a) (fst b) (snd b)
      | _, _ => 0
      end.
  Proof.
    rewrite lmi_matrix_eq, nth_map_err.
    destruct (nth_error l i) as [a|].
    - rewrite nth_map_err. destruct (nth_error l j); reflexivity.
    - destruct j; reflexivity.
  Qed.

  Lemma sym_lmi (ref : E -> E -> E -> E -> R) l :
    (forall a b, In a l -> In b l ->
       ref (fst a) (snd a) (fst b) (snd b) = ref (fst b) (snd b) (fst a) (snd a)) ->
    sym_rows (lmi_matrix ref l).
  Proof.
    intros H i j. rewrite !nth_lmi.
    destruct (nth_error l i) as [a|] eqn:Ei; destruct (nth_error l j) as [b|] eqn:Ej;
      try reflexivity.
    apply H; eapply nth_error_In; eassumption.
  Qed.

  (** samples as the generator sees them: the (x, g) components of recorded triples *)
  Definition sample_xg (s : @triple E) : E * E := (fst (fst s), snd (fst s)).

  Lemma in_sample_xg (G : @triple E -> Prop) (R' : E -> E -> Prop) samples :
    (forall x g f, G (x, g, f) -> R' x g) ->
    (forall s, In s samples -> G s) ->
    forall x g, In (x, g) (map sample_xg samples) -> R' x g.
  Proof.
    intros HG H x g Hin. apply in_map_iff in Hin. destruct Hin as [[[x' g'] f'] [Heq Hin]].
    unfold sample_xg in Heq. cbn in Heq. inversion Heq; subst x' g'.
    apply (HG x g f'), H, Hin.
  Qed.

  (** ** (G4) commuting bounds: for self-adjoint mu <= Q <= L,  <(L - Q) a, (Q - mu) a> >= 0,
      i.e. (L + mu) <Q a, a> - |Q a|^2 - mu L |a|^2 >= 0.
      Cauchy-Schwarz for the semi-inner product [x, y] = <(L - Q) x, y> (an [ips] instance:
      only positivity is needed), applied to a and (L - Q) a. *)
  Section Shift.
    Variables (mu L : R) (Q : E -> E).
    Hypothesis HQ : sa_bounded mu L Q.
    Let si (x y : E) : R := L * inner x y - inner (Q x) y.

    Lemma si_sym u w : si u w = si w u.
    Proof.
      unfold si. rewrite (inner_sym E u w), (sab_sym _ _ _ HQ u w), (inner_sym E u (Q w)). reflexivity.
    Qed.
    Lemma si_add u1 u2 w : si (vadd u1 u2) w = si u1 w + si u2 w.
    Proof.
      unfold si. rewrite (lin_add _ (sab_lin _ _ _ HQ) u1 u2 w), !inner_add_l. lra.
    Qed.
    Lemma si_scal k u w : si (vscal k u) w = k * si u w.
    Proof.
      unfold si. rewrite (lin_scal _ (sab_lin _ _ _ HQ) k u w), !inner_scal_l. lra.
    Qed.
    Lemma si_zero w : si vzero w = 0.
    Proof.
      unfold si. rewrite (lin_zero _ (sab_lin _ _ _ HQ) w), !inner_zero_l. lra.
    Qed.
    Lemma si_pos u : 0 <= si u u.
    Proof. unfold si. pose proof (sab_hi _ _ _ HQ u) as P. unfold nrm2 in P. lra. Qed.

    Definition shift_ips : ips :=
      {| V := V E; vzero := @vzero E; vadd := @vadd E; vscal := @vscal E; inner := si;
         inner_sym := si_sym; inner_add_l := si_add; inner_scal_l := si_scal;
         inner_zero_l := si_zero; inner_pos := si_pos |}.

    Lemma commuting_bounds_sect (a : E) :
      0 <= (L + mu) * inner (Q a) a - inner (Q a) (Q a) - mu * L * inner a a.
    Proof.
      set (Ta := vsub (vscal L a) (Q a)).
      pose proof (@cauchy_schwarz shift_ips a Ta) as CS. cbn in CS. unfold si in CS.
      assert (Hn1 : inner Ta Ta = L * inner a Ta - inner (Q a) Ta).
      { unfold Ta at 1. rewrite inner_sub_l, inner_scal_l. reflexivity. }
      assert (Hp1 : inner Ta a = L * inner a a - inner (Q a) a).
      { unfold Ta. rewrite inner_sub_l, inner_scal_l. reflexivity. }
      assert (Hn2 : inner Ta Ta = L * L * inner a a - 2 * L * inner (Q a) a + inner (Q a) (Q a)).
      { unfold Ta, vsub, vneg.
        rewrite ?inner_add_l, ?inner_add_r, ?inner_scal_l, ?inner_scal_r.
        rewrite (inner_sym E a (Q a)). ring. }
      rewrite <- Hn1, <- Hp1 in CS.
      pose proof (sab_lo _ _ _ HQ Ta) as Hlo. unfold nrm2 in Hlo.
      pose proof (inner_pos E Ta) as Hn0.
      pose proof (si_pos a) as Hp0. unfold si in Hp0. rewrite <- Hp1 in Hp0.
      pose proof (cauchy_schwarz Ta a) as CSE.
      set (n := inner Ta Ta) in *. set (p := inner Ta a) in *.
      set (qt := inner (Q Ta) Ta) in *.
      set (aa := inner a a) in *. set (qa := inner (Q a) a) in *. set (qq := inner (Q a) (Q a)) in *.
      assert (Hgoal : (L + mu) * qa - qq - mu * L * aa = (L - mu) * p - n).
      { rewrite Hn2, Hp1. ring. }
      rewrite Hgoal.
      destruct (Req_dec n 0) as [Hz|Hnz].
      - rewrite Hz in CSE. assert (Hpz : p = 0) by nra. rewrite Hpz, Hz. lra.
      - assert (Hnpos : 0 < n) by lra.
        assert (H1 : p * (L * n - qt) <= p * ((L - mu) * n)).
        { apply Rmult_le_compat_l; [exact Hp0|lra]. }
        assert (H2 : n * n <= n * ((L - mu) * p)) by lra.
        apply Rmult_le_reg_l in H2; [lra|exact Hnpos].
    Qed.
  End Shift.

  Lemma commuting_bounds mu L Q (a : E) :
    sa_bounded mu L Q ->
    0 <= (L + mu) * inner (Q a) a - inner (Q a) (Q a) - mu * L * inner a a.
  Proof. intro HQ. apply (commuting_bounds_sect mu L Q HQ). Qed.

  (** ** LinearOperator(L) *)
  Lemma mem_lin_adjoint L M Mt xi yi fi uj vj hj :
    bounded_pair L M Mt -> genuine_lin M (xi, yi, fi) -> genuine_lin Mt (uj, vj, hj) ->
    ref_lin_adjoint xi yi uj vj = 0.
  Proof.
    intros HB Hy Hv. unfold ref_lin_adjoint. cbn in Hy, Hv.
    rewrite (veq_inner_r _ _ xi Hv), (veq_inner_l _ _ uj Hy), (bp_adj _ _ _ HB). lra.
  Qed.

  Lemma quadform_lin_lmi c L (l : list (E * E)) :
    quadform c (lmi_matrix (ref_lin_lmi L) l)
    = L ^ 2 * nrm2 (wcomb c 0 (map fst l)) - nrm2 (wcomb c 0 (map snd l)).
  Proof.
    rewrite quadform_lmi. unfold ref_lin_lmi, nrm2.
    rewrite dsum_minus, dsum_scal, !dsum_inner. reflexivity.
  Qed.

  (** generic: a linear map with |M a|^2 <= L^2 |a|^2 *)
  Lemma lin_lmi_psd_gen L (M : E -> E) l :
    linear M -> (forall a, nrm2 (M a) <= L ^ 2 * nrm2 a) ->
    (forall x y, In (x, y) l -> veq y (M x)) ->
    psd_rows (lmi_matrix (ref_lin_lmi L) l).
  Proof.
    intros HM Hb H c. rewrite quadform_lin_lmi.
    pose proof (linear_wcomb M c 0%nat l HM H) as Hv.
    unfold nrm2 at 2. rewrite (veq_inner _ _ _ _ Hv Hv).
    pose proof (Hb (wcomb c 0 (map fst l))) as P. unfold nrm2 in *. lra.
  Qed.

  Lemma lin_lmi_sym L (l : list (E * E)) : sym_rows (lmi_matrix (ref_lin_lmi L) l).
  Proof.
    apply sym_lmi. intros a b _ _. unfold ref_lin_lmi.
    rewrite (inner_sym E (fst a)), (inner_sym E (snd a)). reflexivity.
  Qed.

  (** samples of the operator M *)
  Lemma mem_lin_lmi_psd L M Mt l :
    bounded_pair L M Mt -> (forall x y, In (x, y) l -> veq y (M x)) ->
    psd_rows (lmi_matrix (fun xi yi xj yj => ref_lin_lmi L xi yi xj yj) l).
  Proof.
    intros HB H.
    apply (lin_lmi_psd_gen L M l); [apply (bp_lin _ _ _ HB)|apply (bp_bound _ _ _ HB)|exact H].
  Qed.

  (** samples of the transpose Mt *)
  Lemma mem_lin_lmi_psd_t L M Mt l :
    bounded_pair L M Mt -> (forall u v, In (u, v) l -> veq v (Mt u)) ->
    psd_rows (lmi_matrix (fun ui vi uj vj => ref_lin_lmi L ui vi uj vj) l).
  Proof.
    intros HB H.
    apply (lin_lmi_psd_gen L Mt l); [apply (bp_lint _ _ _ HB)|apply (bp_boundt _ _ _ HB)|exact H].
  Qed.

  Lemma mem_lin_lmi L M Mt (samples : list triple) :
    bounded_pair L M Mt -> (forall s, In s samples -> genuine_lin M s) ->
    psd_rows (lmi_matrix (fun xi yi xj yj => ref_lin_lmi L xi yi xj yj) (map sample_xg samples)) /\
    sym_rows (lmi_matrix (fun xi yi xj yj => ref_lin_lmi L xi yi xj yj) (map sample_xg samples)).
  Proof.
    intros HB H. split; [|apply lin_lmi_sym].
    apply (mem_lin_lmi_psd L M Mt); [exact HB|].
    apply (in_sample_xg (genuine_lin M) (fun x g => veq g (M x))); [|exact H].
    intros x g f Hg. exact Hg.
  Qed.

  Lemma mem_lin_lmi_t L M Mt (samples : list triple) :
    bounded_pair L M Mt -> (forall s, In s samples -> genuine_lin Mt s) ->
    psd_rows (lmi_matrix (fun ui vi uj vj => ref_lin_lmi L ui vi uj vj) (map sample_xg samples)) /\
    sym_rows (lmi_matrix (fun ui vi uj vj => ref_lin_lmi L ui vi uj vj) (map sample_xg samples)).
  Proof.
    intros HB H. split; [|apply lin_lmi_sym].
    apply (mem_lin_lmi_psd_t L M Mt); [exact HB|].
    apply (in_sample_xg (genuine_lin Mt) (fun x g => veq g (Mt x))); [|exact H].
    intros x g f Hg. exact Hg.
  Qed.

  (** ** SkewSymmetricLinearOperator(L) *)
  Lemma mem_skew L A xi gi fi xj gj fj :
    skew_bounded L A -> genuine_lin A (xi, gi, fi) -> genuine_lin A (xj, gj, fj) ->
    ref_skew xi gi xj gj = 0.
  Proof.
    intros HS Hi Hj. unfold ref_skew. cbn in Hi, Hj.
    rewrite (veq_inner_r _ _ xi Hj), (veq_inner_r _ _ xj Hi).
    rewrite (inner_sym E xj (A xi)), (sk_skew _ _ HS). lra.
  Qed.

  Lemma mem_skew_lmi_psd L A l :
    skew_bounded L A -> (forall x g, In (x, g) l -> veq g (A x)) ->
    psd_rows (lmi_matrix (fun xi gi xj gj => ref_lin_lmi L xi gi xj gj) l).
  Proof.
    intros HS H.
    apply (lin_lmi_psd_gen L A l); [apply (sk_lin _ _ HS)|apply (sk_bound _ _ HS)|exact H].
  Qed.

  Lemma mem_skew_lmi L A (samples : list triple) :
    skew_bounded L A -> (forall s, In s samples -> genuine_lin A s) ->
    psd_rows (lmi_matrix (fun xi gi xj gj => ref_lin_lmi L xi gi xj gj) (map sample_xg samples)) /\
    sym_rows (lmi_matrix (fun xi gi xj gj => ref_lin_lmi L xi gi xj gj) (map sample_xg samples)).
  Proof.
    intros HS H. split; [|apply lin_lmi_sym].
    apply (mem_skew_lmi_psd L A); [exact HS|].
    apply (in_sample_xg (genuine_lin A) (fun x g => veq g (A x))); [|exact H].
    intros x g f Hg. exact Hg.
  Qed.

  (** ** SymmetricLinearOperator(mu, L) *)
  Lemma mem_sym mu L Q xi gi fi xj gj fj :
    sa_bounded mu L Q -> genuine_lin Q (xi, gi, fi) -> genuine_lin Q (xj, gj, fj) ->
    ref_sym xi gi xj gj = 0.
  Proof.
    intros HQ Hi Hj. unfold ref_sym. cbn in Hi, Hj.
    rewrite (veq_inner_r _ _ xi Hj), (veq_inner_r _ _ xj Hi).
    rewrite (inner_sym E xj (Q xi)), (sab_sym _ _ _ HQ). lra.
  Qed.

  Lemma quadform_sym_lmi c mu L (l : list (E * E)) :
    quadform c (lmi_matrix (ref_sym_lmi mu L) l)
    = L * inner (wcomb c 0 (map snd l)) (wcomb c 0 (map fst l))
      - inner (wcomb c 0 (map snd l)) (wcomb c 0 (map snd l))
      - mu * L * inner (wcomb c 0 (map fst l)) (wcomb c 0 (map fst l))
      + mu * inner (wcomb c 0 (map fst l)) (wcomb c 0 (map snd l)).
  Proof.
    rewrite quadform_lmi. unfold ref_sym_lmi.
    rewrite dsum_plus, !dsum_minus, !dsum_scal, !dsum_inner. reflexivity.
  Qed.

  Lemma mem_sym_lmi_psd mu L Q l :
    sa_bounded mu L Q -> (forall x g, In (x, g) l -> veq g (Q x)) ->
    psd_rows (lmi_matrix (fun xi gi xj gj => ref_sym_lmi mu L xi gi xj gj) l).
  Proof.
    intros HQ H c.
    change (0 <= quadform c (lmi_matrix (ref_sym_lmi mu L) l)).
    rewrite quadform_sym_lmi.
    pose proof (linear_wcomb Q c 0%nat l (sab_lin _ _ _ HQ) H) as Hv.
    set (X := wcomb c 0 (map fst l)) in *. set (G := wcomb c 0 (map snd l)) in *.
    rewrite (veq_inner_l _ _ X Hv), (veq_inner _ _ _ _ Hv Hv), (veq_inner_r _ _ X Hv).
    rewrite <- (sab_sym _ _ _ HQ X X).
    pose proof (commuting_bounds mu L Q X HQ) as P. lra.
  Qed.

  Lemma mem_sym_lmi_sym mu L Q l :
    sa_bounded mu L Q -> (forall x g, In (x, g) l -> veq g (Q x)) ->
    sym_rows (lmi_matrix (fun xi gi xj gj => ref_sym_lmi mu L xi gi xj gj) l).
  Proof.
    intros HQ H. apply sym_lmi. intros [xa ga] [xb gb] Ha Hb. cbn [fst snd].
    pose proof (H _ _ Ha) as Va. pose proof (H _ _ Hb) as Vb.
    unfold ref_sym_lmi.
    rewrite (veq_inner_l _ _ xb Va), (veq_inner_r _ _ xa Vb),
            (veq_inner_l _ _ xa Vb), (veq_inner_r _ _ xb Va),
            (veq_inner _ _ _ _ Va Vb), (veq_inner _ _ _ _ Vb Va).
    rewrite (inner_sym E (Q xb) (Q xa)), (inner_sym E xb xa).
    rewrite <- (sab_sym _ _ _ HQ xa xb), <- (sab_sym _ _ _ HQ xb xa).
    rewrite (inner_sym E (Q xb) xa), (sab_sym _ _ _ HQ xa xb), (inner_sym E xa (Q xb)).
    ring.
  Qed.

  Lemma mem_sym_lmi mu L Q (samples : list triple) :
    sa_bounded mu L Q -> (forall s, In s samples -> genuine_lin Q s) ->
    psd_rows (lmi_matrix (fun xi gi xj gj => ref_sym_lmi mu L xi gi xj gj) (map sample_xg samples)) /\
    sym_rows (lmi_matrix (fun xi gi xj gj => ref_sym_lmi mu L xi gi xj gj) (map sample_xg samples)).
  Proof.
    intros HQ H.
    assert (H' : forall x g, In (x, g) (map sample_xg samples) -> veq g (Q x)).
    { apply (in_sample_xg (genuine_lin Q) (fun x g => veq g (Q x))); [|exact H].
      intros x g f Hg. exact Hg. }
    split; [apply (mem_sym_lmi_psd mu L Q)|apply (mem_sym_lmi_sym mu L Q)]; assumption.
  Qed.

  (** ** SmoothStronglyConvexQuadraticFunction(mu, L) *)
  Lemma mem_quad_value mu L Q xs fs xi gi fi :
    sa_bounded mu L Q -> genuine_quad Q xs fs (xi, gi, fi) ->
    ref_quad_value xi gi xs fi fs = 0.
  Proof.
    intros _ [Hg Hf]. unfold ref_quad_value. rewrite (veq_inner_r _ _ _ Hg). lra.
  Qed.

  Lemma mem_quad_sym mu L Q xs fs xi gi fi xj gj fj :
    sa_bounded mu L Q -> genuine_quad Q xs fs (xi, gi, fi) -> genuine_quad Q xs fs (xj, gj, fj) ->
    ref_quad_sym xi gi xj gj xs = 0.
  Proof.
    intros HQ [Hgi _] [Hgj _]. unfold ref_quad_sym.
    rewrite (veq_inner_r _ _ _ Hgj), (veq_inner_r _ _ _ Hgi).
    rewrite (inner_sym E (vsub xj xs)), (sab_sym _ _ _ HQ). lra.
  Qed.

  Lemma quadform_quad_lmi c mu L xs (l : list (E * E)) :
    quadform c (lmi_matrix (fun xi gi xj gj => ref_quad_lmi mu L xi gi xj gj xs) l)
    = (L + mu) * inner (wcomb c 0 (map snd l)) (wcomb c 0 (map (fun a => vsub (fst a) xs) l))
      - inner (wcomb c 0 (map snd l)) (wcomb c 0 (map snd l))
      - mu * L * inner (wcomb c 0 (map (fun a => vsub (fst a) xs) l))
                       (wcomb c 0 (map (fun a => vsub (fst a) xs) l)).
  Proof.
    rewrite quadform_lmi. unfold ref_quad_lmi.
    rewrite !dsum_minus, !dsum_scal.
    rewrite (dsum_inner c (fun a => snd a) (fun b => vsub (fst b) xs)),
            (dsum_inner c (fun a => snd a) (fun b => snd b)),
            (dsum_inner c (fun a => vsub (fst a) xs) (fun b => vsub (fst b) xs)).
    reflexivity.
  Qed.

  Lemma mem_quad_lmi_psd mu L Q xs l :
    sa_bounded mu L Q -> (forall x g, In (x, g) l -> veq g (Q (vsub x xs))) ->
    psd_rows (lmi_matrix (fun xi gi xj gj => ref_quad_lmi mu L xi gi xj gj xs) l).
  Proof.
    intros HQ H c. rewrite quadform_quad_lmi.
    assert (Hv : veq (wcomb c 0 (map snd l)) (Q (wcomb c 0 (map (fun a => vsub (fst a) xs) l)))).
    { apply (linear_wcomb_gen Q c (fun a : E * E => vsub (fst a) xs) snd 0%nat l (sab_lin _ _ _ HQ)).
      intros [x g] Ha. apply H, Ha. }
    set (X := wcomb c 0 (map (fun a => vsub (fst a) xs) l)) in *.
    set (G := wcomb c 0 (map snd l)) in *.
    rewrite (veq_inner_l _ _ X Hv), (veq_inner _ _ _ _ Hv Hv).
    apply (commuting_bounds mu L Q X HQ).
  Qed.

  Lemma mem_quad_lmi_sym mu L Q xs l :
    sa_bounded mu L Q -> (forall x g, In (x, g) l -> veq g (Q (vsub x xs))) ->
    sym_rows (lmi_matrix (fun xi gi xj gj => ref_quad_lmi mu L xi gi xj gj xs) l).
  Proof.
    intros HQ H. apply sym_lmi. intros [xa ga] [xb gb] Ha Hb. cbn [fst snd].
    pose proof (H _ _ Ha) as Va. pose proof (H _ _ Hb) as Vb.
    unfold ref_quad_lmi.
    set (a := vsub xa xs) in *. set (b := vsub xb xs) in *.
    rewrite (veq_inner_l _ _ b Va), (veq_inner_l _ _ a Vb),
            (veq_inner _ _ _ _ Va Vb), (veq_inner _ _ _ _ Vb Va).
    rewrite (inner_sym E (Q b) (Q a)), (inner_sym E b a).
    rewrite (sab_sym _ _ _ HQ b a), (inner_sym E b (Q a)). reflexivity.
  Qed.

  Lemma mem_quad_lmi mu L Q xs fs (samples : list triple) :
    sa_bounded mu L Q -> (forall s, In s samples -> genuine_quad Q xs fs s) ->
    psd_rows (lmi_matrix (fun xi gi xj gj => ref_quad_lmi mu L xi gi xj gj xs)
                         (map sample_xg samples)) /\
    sym_rows (lmi_matrix (fun xi gi xj gj => ref_quad_lmi mu L xi gi xj gj xs)
                         (map sample_xg samples)).
  Proof.
    intros HQ H.
    assert (H' : forall x g, In (x, g) (map sample_xg samples) -> veq g (Q (vsub x xs))).
    { apply (in_sample_xg (genuine_quad Q xs fs) (fun x g => veq g (Q (vsub x xs)))); [|exact H].
      intros x g f [Hg _]. exact Hg. }
    split; [apply (mem_quad_lmi_psd mu L Q)|apply (mem_quad_lmi_sym mu L Q)]; assumption.
  Qed.
End MembersC.

(** * Non-vacuity: concrete members on R^2 with genuine samples *)

Lemma veq_Rn2 (a b : Rn 2) : veq a b <-> (a 0%nat = b 0%nat /\ a 1%nat = b 1%nat).
Proof.
  split.
  - intro H. split.
    + pose proof (H (fun i => if Nat.eqb i 0 then 1 else 0)) as P. cbn in P. lra.
    + pose proof (H (fun i => if Nat.eqb i 1 then 1 else 0)) as P. cbn in P. lra.
  - intros [H0 H1] w. cbn. rewrite H0, H1. reflexivity.
Qed.

Definition vec2 (a b : R) : Rn 2 := fun i => match i with O => a | S O => b | _ => 0 end.

(** a 2x2 matrix [[m00, m01], [m10, m11]] acting on R^2 *)
Definition mat2 (m00 m01 m10 m11 : R) (u : Rn 2) : Rn 2 :=
  vec2 (m00 * u 0%nat + m01 * u 1%nat) (m10 * u 0%nat + m11 * u 1%nat).

Lemma mat2_linear m00 m01 m10 m11 : linear (mat2 m00 m01 m10 m11).
Proof.
  constructor.
  - intros a b. apply veq_Rn2. unfold mat2, vec2. cbn. split; lra.
  - intros c a. apply veq_Rn2. unfold mat2, vec2. cbn. split; lra.
  - apply veq_Rn2. unfold mat2, vec2. cbn. split; lra.
  - intros a b H. apply veq_Rn2 in H. destruct H as [H0 H1].
    apply veq_Rn2. unfold mat2, vec2. cbn. rewrite H0, H1. split; reflexivity.
Qed.

(** the rotation by a quarter turn J = [[0,-1],[1,0]], its transpose Jt = [[0,1],[-1,0]]:
    a LinearOperator(1) pair, and J is a SkewSymmetricLinearOperator(1). *)
Example linear_operator_nonvacuous :
  let J := mat2 0 (-1) 1 0 in
  let Jt := mat2 0 1 (-1) 0 in
  bounded_pair 1 J Jt /\
  genuine_lin J (vec2 1 0, vec2 0 1, 0) /\ genuine_lin J (vec2 1 2, vec2 (-2) 1, 0) /\
  genuine_lin Jt (vec2 1 0, vec2 0 (-1), 0) /\
  ref_lin_adjoint (vec2 1 2) (vec2 (-2) 1) (vec2 1 0) (vec2 0 (-1)) = 0 /\
  psd_rows (lmi_matrix (fun xi yi xj yj => ref_lin_lmi 1 xi yi xj yj)
                       [(vec2 1 0, vec2 0 1); (vec2 1 2, vec2 (-2) 1)]).
Proof.
  intros J Jt.
  assert (HB : bounded_pair 1 J Jt).
  { constructor; try apply mat2_linear.
    - intros a b. unfold J, Jt, mat2, vec2. cbn. ring.
    - intro a. unfold J, mat2, vec2, nrm2. cbn. lra.
    - intro a. unfold Jt, mat2, vec2, nrm2. cbn. lra. }
  assert (G1 : genuine_lin J (vec2 1 0, vec2 0 1, 0)).
  { apply veq_Rn2. unfold J, mat2, vec2. cbn. split; lra. }
  assert (G2 : genuine_lin J (vec2 1 2, vec2 (-2) 1, 0)).
  { apply veq_Rn2. unfold J, mat2, vec2. cbn. split; lra. }
  assert (G3 : genuine_lin Jt (vec2 1 0, vec2 0 (-1), 0)).
  { apply veq_Rn2. unfold Jt, mat2, vec2. cbn. split; lra. }
  split; [exact HB|]. split; [exact G1|]. split; [exact G2|]. split; [exact G3|]. split.
  - apply (mem_lin_adjoint 1 J Jt _ _ 0 _ _ 0 HB G2 G3).
  - apply (mem_lin_lmi 1 J Jt [(vec2 1 0, vec2 0 1, 0); (vec2 1 2, vec2 (-2) 1, 0)] HB).
    intros s [Hs|[Hs|[]]]; subst s; assumption.
Qed.

Example skew_operator_nonvacuous :
  let J := mat2 0 (-1) 1 0 in
  skew_bounded 1 J /\
  genuine_lin J (vec2 1 0, vec2 0 1, 0) /\ genuine_lin J (vec2 1 2, vec2 (-2) 1, 0) /\
  ref_skew (vec2 1 0) (vec2 0 1) (vec2 1 2) (vec2 (-2) 1) = 0.
Proof.
  intro J.
  assert (HS : skew_bounded 1 J).
  { constructor; try apply mat2_linear.
    - intros a b. unfold J, mat2, vec2. cbn. ring.
    - intro a. unfold J, mat2, vec2, nrm2. cbn. lra. }
  assert (G1 : genuine_lin J (vec2 1 0, vec2 0 1, 0)).
  { apply veq_Rn2. unfold J, mat2, vec2. cbn. split; lra. }
  assert (G2 : genuine_lin J (vec2 1 2, vec2 (-2) 1, 0)).
  { apply veq_Rn2. unfold J, mat2, vec2. cbn. split; lra. }
  split; [exact HS|]. split; [exact G1|]. split; [exact G2|].
  apply (mem_skew 1 J _ _ 0 _ _ 0 HS G1 G2).
Qed.

(** Q = [[2,1],[1,2]] : symmetric, eigenvalues 1 and 3. *)
Lemma Q2112_bounded : sa_bounded 1 3 (mat2 2 1 1 2).
Proof.
  constructor; try apply mat2_linear.
  - intros a b. unfold mat2, vec2. cbn. ring.
  - intro a. unfold mat2, vec2, nrm2. cbn.
    pose proof (Rle_0_sqr (a 0%nat + a 1%nat)) as S. unfold Rsqr in S. lra.
  - intro a. unfold mat2, vec2, nrm2. cbn.
    pose proof (Rle_0_sqr (a 0%nat - a 1%nat)) as S. unfold Rsqr in S. lra.
Qed.

Example symmetric_operator_nonvacuous :
  let Q := mat2 2 1 1 2 in
  sa_bounded 1 3 Q /\
  genuine_lin Q (vec2 1 0, vec2 2 1, 0) /\ genuine_lin Q (vec2 1 (-1), vec2 1 (-1), 0) /\
  ref_sym (vec2 1 0) (vec2 2 1) (vec2 1 (-1)) (vec2 1 (-1)) = 0 /\
  psd_rows (lmi_matrix (fun xi gi xj gj => ref_sym_lmi 1 3 xi gi xj gj)
                       [(vec2 1 0, vec2 2 1); (vec2 1 (-1), vec2 1 (-1))]).
Proof.
  intro Q. pose proof Q2112_bounded as HQ. fold Q in HQ.
  assert (G1 : genuine_lin Q (vec2 1 0, vec2 2 1, 0)).
  { apply veq_Rn2. unfold Q, mat2, vec2. cbn. split; lra. }
  assert (G2 : genuine_lin Q (vec2 1 (-1), vec2 1 (-1), 0)).
  { apply veq_Rn2. unfold Q, mat2, vec2. cbn. split; lra. }
  split; [exact HQ|]. split; [exact G1|]. split; [exact G2|]. split.
  - apply (mem_sym 1 3 Q _ _ 0 _ _ 0 HQ G1 G2).
  - apply (mem_sym_lmi 1 3 Q [(vec2 1 0, vec2 2 1, 0); (vec2 1 (-1), vec2 1 (-1), 0)] HQ).
    intros s [Hs|[Hs|[]]]; subst s; assumption.
Qed.

(** F x = 5 + 1/2 <x - xs, Q (x - xs)> with xs = (1, 1). *)
Example quadratic_function_nonvacuous :
  let Q := mat2 2 1 1 2 in
  let xs : Rn 2 := vec2 1 1 in
  sa_bounded 1 3 Q /\
  genuine_quad Q xs 5 (vec2 2 1, vec2 2 1, 6) /\ genuine_quad Q xs 5 (xs, vec2 0 0, 5) /\
  ref_quad_value (vec2 2 1) (vec2 2 1) xs 6 5 = 0 /\
  psd_rows (lmi_matrix (fun xi gi xj gj => ref_quad_lmi 1 3 xi gi xj gj xs)
                       [(vec2 2 1, vec2 2 1); (xs, vec2 0 0)]).
Proof.
  intros Q xs. pose proof Q2112_bounded as HQ. fold Q in HQ.
  assert (G1 : genuine_quad Q xs 5 (vec2 2 1, vec2 2 1, 6)).
  { split; [apply veq_Rn2|]; unfold Q, xs, mat2, vec2, vsub, vneg; cbn; [split|]; lra. }
  assert (G2 : genuine_quad Q xs 5 (xs, vec2 0 0, 5)).
  { split; [apply veq_Rn2|]; unfold Q, xs, mat2, vec2, vsub, vneg; cbn; [split|]; lra. }
  split; [exact HQ|]. split; [exact G1|]. split; [exact G2|]. split.
  - apply (mem_quad_value 1 3 Q xs 5 _ _ _ HQ G1).
  - apply (mem_quad_lmi 1 3 Q xs 5 [(vec2 2 1, vec2 2 1, 6); (xs, vec2 0 0, 5)] HQ).
    intros s [Hs|[Hs|[]]]; subst s; assumption.
Qed.
