(** C15 — real coordinate partitions of R^n.  A partition of the coordinates {0..n-1} into d blocks is
    a function [blk : nat -> nat] with [blk i < d] for i < n; the projection onto block k masks the
    other coordinates.  The masks sum to the identity and masks of different blocks are orthogonal
    (disjoint supports), so they are an instance of Section Projections of C15Sem.v. *)
From Coq Require Import List QArith Reals Qreals Lra Bool Arith Lia.
From PV Require Import Base.IPS Model.Dict Model.Terms Model.Blocks Spec.Sem
                       Proofs.DictLemmas Proofs.SemLemmas Proofs.C15Model Proofs.C15Sem.
Import ListNotations.
Local Open Scope R_scope.

Section Masks.
  Variable n : nat.
  Variable blk : nat -> nat.

  (** P_k u = u masked to the coordinates of block k *)
  Definition proj (k : nat) (u : Rn n) : Rn n := fun i => if Nat.eqb (blk i) k then u i else 0.

  Lemma dotn_ext m (u u' w : nat -> R) :
    (forall i, (i < m)%nat -> u i = u' i) -> dotn m u w = dotn m u' w.
  Proof.
    induction m as [|m IH]; intros H; cbn [dotn]; [reflexivity|].
    rewrite IH by (intros i Hi; apply H; lia). rewrite (H m) by lia. reflexivity.
  Qed.

  (** masked vectors with disjoint supports are orthogonal (induction on the dimension) *)
  Lemma dotn_proj_orth m k l (u w : nat -> R) :
    k <> l ->
    dotn m (fun i => if Nat.eqb (blk i) k then u i else 0) (fun i => if Nat.eqb (blk i) l then w i else 0) = 0.
  Proof.
    intros Hne. induction m as [|m IH]; cbn [dotn]; [reflexivity|]. rewrite IH.
    destruct (Nat.eqb_spec (blk m) k) as [Hk|Hk], (Nat.eqb_spec (blk m) l) as [Hl|Hl]; try lra.
    exfalso. congruence.
  Qed.

  Lemma proj_orth k l (u w : Rn n) : k <> l -> inner (proj k u) (proj l w) = 0.
  Proof. intros Hne. apply (dotn_proj_orth n k l u w Hne). Qed.

  Lemma vsum_coord (L : list (Rn n)) i : vsum L i = lsum (map (fun v : Rn n => v i) L).
  Proof.
    induction L as [|v L IH]; [reflexivity|]. cbn [map lsum]. rewrite <- IH. reflexivity.
  Qed.

  Lemma lsum_all_zero (f : nat -> R) l : (forall k, In k l -> f k = 0) -> lsum (map f l) = 0.
  Proof.
    induction l as [|a l IH]; cbn; intros H; [reflexivity|].
    rewrite IH by (intros k Hk; apply H; right; exact Hk). rewrite (H a) by (left; reflexivity). lra.
  Qed.

  Lemma lsum_indicator j x d :
    (j < d)%nat -> lsum (map (fun k => if Nat.eqb j k then x else 0) (seq 0 d)) = x.
  Proof.
    induction d as [|d IH]; intros Hj; [lia|]. rewrite seq_S, map_app, lsum_app. cbn [map lsum plus].
    destruct (Nat.eqb_spec j d) as [->|Hne].
    - rewrite lsum_all_zero; [lra|]. intros k Hk. apply in_seq in Hk.
      destruct (Nat.eqb_spec d k); [lia|reflexivity].
    - rewrite IH by lia. lra.
  Qed.

  (** the masks of the d blocks sum to the identity when every coordinate belongs to a block < d *)
  Lemma proj_sum d (u : Rn n) :
    (forall i, (i < n)%nat -> (blk i < d)%nat) ->
    veq (vsum (map (fun k => proj k u) (seq 0 d))) u.
  Proof.
    intros Hb w. apply (dotn_ext n). intros i Hi. rewrite vsum_coord, map_map. unfold proj.
    apply lsum_indicator, Hb, Hi.
  Qed.
End Masks.

(** For every history, every coordinate partition of R^n and every valuation r0 of the other leaves
    there is a valuation, equal to r0 outside the block leaves, that values the fresh leaves of every
    decomposed object by the true projections of the object's value; under it every block (the
    remainder included) IS the projection of the object's value, the blocks sum back, and every
    generated constraint holds. *)
Theorem real_partitions_satisfy_model n blk d n0 ops (phi : nat -> R) :
  (1 <= d)%nat -> (forall i, (i < n)%nat -> (blk i < d)%nat) ->
  ok (init_partition d n0) ops ->
  let st := fst (trace (init_partition d n0) [] ops) in
  let g := snd (trace (init_partition d n0) [] ops) in
  forall r0 : nat -> Rn n, exists r : nat -> Rn n,
    (forall x, (forall e, In e g -> ~ In x (leaves_of d e)) -> r x = r0 x)
    /\ (forall e, In e g -> forall k, (k < d - 1)%nat ->
          r (e_n e + k)%nat = proj n blk k (evalP r (e_pd e)))
    /\ (forall e, In e g -> forall k, (k < d)%nat ->
          veq (evalP r (nth k (blocks_of d e) [])) (proj n blk k (evalP r (e_pd e))))
    /\ (forall e, In e g -> veq (sumP r (blocks_of d e)) (evalP r (e_pd e)))
    /\ (forall c, In c (partition_constraints st) -> holds r phi c).
Proof.
  intros Hd Hb Hok st g r0.
  assert (Psum : forall u : Rn n, veq (vsum (map (fun k => proj n blk k u) (seq 0 d))) u)
    by (intro u; apply proj_sum, Hb).
  assert (Porth : forall k l (u w : Rn n), (k < d)%nat -> (l < d)%nat -> k <> l ->
                   inner (proj n blk k u) (proj n blk l w) = 0)
    by (intros; apply proj_orth; assumption).
  destruct (consistent_exists d (proj n blk) Hd n0 ops Hok r0) as [r [Hc Hagree]].
  exists r. split; [exact Hagree|]. split; [exact Hc|].
  apply (consistent_sound d (proj n blk) Hd Psum Porth st g r phi); [|exact Hc].
  apply trace_Inv, Hok.
Qed.
