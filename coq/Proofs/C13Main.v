(** C13, part 2: invariants of every run, no growth, fresh values under the cache guard, duals of the
    latest solve, what a failed solve leaves behind, and the refutations (stale caches). *)
From Coq Require Import List QArith Bool Arith Lia.
From PV Require Import Model.Dict Model.Terms Model.Dump Model.Sent Model.Eval Model.Resolve
  Proofs.C02Cache Proofs.C13Sent.
Import ListNotations.
Local Open Scope nat_scope.

(** ** the metric rows when the objective leaf is fresh *)
Lemma ekey_eqb_true a b : ekey_eqb a b = true -> a = b.
Proof.
  destruct a as [x|i j|], b as [y|i' j'|]; cbn; try discriminate; intro H.
  - apply Nat.eqb_eq in H. congruence.
  - apply andb_true_iff in H as [H1 H2]. apply Nat.eqb_eq in H1. apply Nat.eqb_eq in H2. congruence.
  - reflexivity.
Qed.
Lemma ekey_eqb_refl a : ekey_eqb a a = true.
Proof. destruct a; cbn; rewrite ?Nat.eqb_refl; reflexivity. Qed.

Lemma lookup_nokey o d : nokey o d -> lookup ekey_eqb (KF o) d = None.
Proof.
  unfold nokey. induction d as [|[k v] d IH]; intro H; cbn [lookup]; [reflexivity|].
  destruct (ekey_eqb (KF o) k) eqn:E.
  - exfalso. apply H. left. apply ekey_eqb_true in E. subst. reflexivity.
  - apply IH. intro Hin. apply H. right. exact Hin.
Qed.
Lemma filter_nokey o q d : nokey o d -> filter (fun '(k, _) => negb (mem ekey_eqb k [(KF o, q)])) d = d.
Proof.
  unfold nokey. induction d as [|[k v] d IH]; intro H; cbn [filter]; [reflexivity|].
  unfold mem at 1. cbn [lookup]. destruct (ekey_eqb k (KF o)) eqn:E.
  - exfalso. apply H. left. apply ekey_eqb_true in E. subst. reflexivity.
  - cbn [negb]. f_equal. apply IH. intro Hin. apply H. right. exact Hin.
Qed.
Lemma keys_x_neg m : keys (x_neg m) = keys m.
Proof.
  unfold keys, x_neg, x_scal, scale. rewrite map_map. apply map_ext. intros [k v]. reflexivity.
Qed.

(** [tau - m <= 0] is the pair [(tau, 1)] followed by the pruned negation of [m] *)
Lemma metric_row_fresh o m : nokey o m ->
  fst (c_le [(KF o, 1%Q)] m) = (KF o, 1%Q) :: prune (x_neg m).
Proof.
  intro H. assert (Hn : nokey o (x_neg m)) by (unfold nokey; rewrite keys_x_neg; exact H).
  unfold c_le, x_sub, x_add, emerge, merge. cbn [fst map].
  rewrite (lookup_nokey o _ Hn), (filter_nokey o _ _ Hn). reflexivity.
Qed.

Definition rest_of (d : decl) : sent :=
  d_conds d ++ d_psds d ++ flat_map items_of_ftempl (d_ftem d) ++ d_own d ++ flat_map items_of_ptempl (d_ptem d).

(** "the same data up to the index of the fresh objective leaf" *)
Theorem sent_of_fresh_form d o : (forall m, In m (d_metrics d) -> nokey o m) ->
  sent_of d o = map (fun m => SC ((KF o, 1%Q) :: prune (x_neg m)) Ineq) (d_metrics d) ++ rest_of d.
Proof.
  intro H. unfold sent_of, rest_of. f_equal. apply map_ext_in. intros m Hm.
  rewrite metric_row_fresh by (apply H, Hm). reflexivity.
Qed.

Theorem counts_indep d o o' :
  (forall m, In m (d_metrics d) -> nokey o m /\ nokey o' m) ->
  map shape (sent_of d o) = map shape (sent_of d o').
Proof.
  intro H. rewrite !sent_of_fresh_form by (intros m Hm; apply H, Hm).
  rewrite !map_app, !map_map. f_equal.
Qed.

(** ** invariants of every run *)
Lemma valid_ehb_ok st e : valid_ehb st e = true -> eh_ok st e.
Proof.
  destruct e as [id|r]; cbn [valid_ehb eh_ok].
  - apply Nat.ltb_lt.
  - unfold is_expr. destruct (get_obj st r) as [o|]; [|discriminate].
    destruct (okind_of o) eqn:Hk; try discriminate. eauto.
Qed.
Lemma item_okb_ok st r : item_okb st r = true -> item_ok st r.
Proof.
  unfold item_okb, item_ok. destruct (get_obj st r) as [o|]; [|discriminate]. intro H. exists o.
  split; [reflexivity|]. destruct (okind_of o); try discriminate.
  - apply valid_ehb_ok, H.
  - intros row Hr e He. apply valid_ehb_ok. rewrite forallb_forall in H. specialize (H row Hr).
    rewrite forallb_forall in H. apply H, He.
Qed.

Definition wf_edict (st : est) (d : edict) : Prop := wf_edictb st d = true.
Lemma wf_edict_mono st st' d : le_st st st' -> wf_edict st d -> wf_edict st' d.
Proof.
  intros (_ & L1 & L2). unfold wf_edict, wf_edictb. rewrite !forallb_forall. intros H [k v] Hin.
  specialize (H (k, v) Hin). cbn in *. destruct k as [e|i j|]; cbn [wf_ekeyb] in *.
  - apply Nat.ltb_lt in H. apply Nat.ltb_lt. lia.
  - apply andb_true_iff in H as [H1 H2]. apply Nat.ltb_lt in H1. apply Nat.ltb_lt in H2.
    apply andb_true_iff. split; apply Nat.ltb_lt; lia.
  - reflexivity.
Qed.
Lemma wf_edict_nokey st d : wf_edict st d -> forall o, length (lev st) <= o -> nokey o d.
Proof.
  unfold wf_edict, wf_edictb, nokey, keys. rewrite forallb_forall. intros H o Ho Hin.
  apply in_map_iff in Hin as ([k v] & Hk & Hin). cbn in Hk. subst k. specialize (H _ Hin). cbn in H.
  apply Nat.ltb_lt in H. lia.
Qed.

(** the metric dictionaries mention registered leaves only: the next objective leaf is fresh *)
Definition mfresh (s : pst) : Prop := Forall (fun e => wf_edict (es s) (dict_of_eh (es s) e)) (metrics s).
Definition inv (s : pst) : Prop := closed s /\ mfresh s.

Lemma inv_le s s' :
  inv s -> le_st (es s) (es s') -> metrics s' = metrics s -> conds s' = conds s -> psds s' = psds s ->
  fown s' = fown s -> inv s'.
Proof.
  intros [(Cm & Cc & Cp & Co) F] L Hm Hc Hp Ho.
  assert (Hor : own_refs s' = own_refs s) by (unfold own_refs; rewrite Ho; reflexivity).
  split; [split; [|split; [|split]]|]; unfold mfresh; rewrite ?Hm, ?Hc, ?Hp, ?Hor.
  - eapply Forall_impl; [|exact Cm]. intro e. apply eh_ok_mono, L.
  - eapply Forall_mono_item; eassumption.
  - eapply Forall_mono_item; eassumption.
  - eapply Forall_mono_item; eassumption.
  - unfold mfresh in F. rewrite Forall_forall in *. intros e He.
    rewrite (dict_of_eh_mono _ _ e L) by (apply Cm, He). eapply wf_edict_mono; [exact L|]. apply F, He.
Qed.

Lemma decl_le s s' :
  closed s -> le_st (es s) (es s') -> metrics s' = metrics s -> conds s' = conds s -> psds s' = psds s ->
  ftem s' = ftem s -> ptem s' = ptem s -> fown s' = fown s -> decl_of s' = decl_of s.
Proof.
  intros (Cm & Cc & Cp & Co) L Hm Hc Hp Hf Hq Ho.
  assert (Hor : own_refs s' = own_refs s) by (unfold own_refs; rewrite Ho; reflexivity).
  unfold decl_of. rewrite Hm, Hc, Hp, Hf, Hq, Hor. f_equal.
  - apply map_ext_in. intros e He. apply dict_of_eh_mono; [exact L|]. rewrite Forall_forall in Cm. apply Cm, He.
  - apply map_item_of_mono; assumption.
  - apply map_item_of_mono; assumption.
  - apply map_item_of_mono; assumption.
Qed.

Lemma solve_fields s a :
  metrics (solve s a) = metrics s /\ conds (solve s a) = conds s /\ psds (solve s a) = psds s
  /\ ftem (solve s a) = ftem s /\ ptem (solve s a) = ptem s /\ fown (solve s a) = fown s.
Proof.
  unfold solve, prepare.
  destruct (gen_functions (new_leafE (es s)) (ftem s)) as [st1 fs].
  destruct (gen_partitions st1 (ptem s)) as [st2 ps].
  destruct (mk_conss st2 _) as [st3 ms]. destruct a; cbn; repeat split; reflexivity.
Qed.

Definition editing (o : op) : bool :=
  match o with
  | AddCond _ | DelCond _ | AddMetric _ | AddPsd _ | SetTemplates _ _ | DeclFun | FAddCons _ _ | FAddPsd _ _ => true
  | _ => false
  end.

Lemma step_le s o : closed s -> le_st (es s) (es (fst (step s o))).
Proof.
  intro C. unfold step. destruct (valid_op s o); [|apply le_st_refl].
  destruct o; cbn [step_valid fst es with_es]; try apply le_st_refl.
  - apply le_st_new_leafP.
  - apply le_st_new_leafE.
  - apply le_st_new_obj.
  - apply le_st_new_obj.
  - apply le_st_new_obj.
  - apply le_st_new_obj.
  - apply solve_le, C.
  - apply solve_le, C.
  - destruct (eval_obj (es s) r) as [st1 x] eqn:H. cbn. apply le_st_frame. eapply eval_obj_frame; eassumption.
Qed.

(** own items of the functions *)
Lemma in_own_refs l x o : In o l -> In x (fst o ++ snd o) -> In x (flat_map (fun f => fst f ++ snd f) (filter has_own l)).
Proof.
  intros Ho Hx. apply in_flat_map. exists o. split; [|exact Hx]. apply filter_In. split; [exact Ho|].
  unfold has_own. destruct o as [[|a c] [|b p]]; cbn in *; try reflexivity. destruct Hx.
Qed.
Lemma in_own_refs_inv l x : In x (flat_map (fun f => fst f ++ snd f) (filter has_own l)) ->
  exists o, In o l /\ In x (fst o ++ snd o).
Proof. intro H. apply in_flat_map in H as (o & Ho & Hx). apply filter_In in Ho as [Ho _]. eauto. Qed.
Lemma In_upd_nth {A} (F : A -> A) n : forall (l : list A) y, In y (upd_nth F n l) -> In y l \/ exists o, In o l /\ y = F o.
Proof.
  induction n as [|n IH]; intros [|a l] y H; cbn [upd_nth] in H; try (destruct H).
  - right. exists a. split; [left; reflexivity|symmetry; assumption].
  - left. right. assumption.
  - left. left. assumption.
  - destruct (IH l y H) as [H1|(o & Ho & ->)]; [left; right; exact H1|right; exists o; split; [right; exact Ho|reflexivity]].
Qed.
Lemma own_refs_decl s (P : nat -> Prop) :
  Forall P (own_refs s) ->
  Forall P (flat_map (fun f => fst f ++ snd f) (filter has_own (fown s ++ [([], [])]))).
Proof. rewrite filter_app. cbn. rewrite app_nil_r. auto. Qed.
Lemma own_refs_add s (P : nat -> Prop) (F : list nat * list nat -> list nat * list nat) f r :
  (forall o x, In x (fst (F o) ++ snd (F o)) -> In x (fst o ++ snd o) \/ x = r) ->
  Forall P (own_refs s) -> P r ->
  Forall P (flat_map (fun g => fst g ++ snd g) (filter has_own (upd_nth F f (fown s)))).
Proof.
  intros HF H Hr. rewrite Forall_forall in *. intros x Hx. apply in_own_refs_inv in Hx as (o & Ho & Hx).
  apply In_upd_nth in Ho as [Ho|(o' & Ho' & ->)].
  - apply H. unfold own_refs. eapply in_own_refs; eassumption.
  - destruct (HF o' x Hx) as [Hx' | ->]; [|exact Hr]. apply H. unfold own_refs. eapply in_own_refs; eassumption.
Qed.

Lemma step_inv s o : inv s -> inv (fst (step s o)).
Proof.
  intros I. pose proof I as [C F]. pose proof (step_le s o C) as L. revert L.
  unfold step. destruct (valid_op s o) eqn:V; [|intros _; exact I].
  destruct C as (Cm & Cc & Cp & Co).
  destruct o; cbn [step_valid fst]; intro L.
  - apply (inv_le s _ I L); reflexivity.
  - apply (inv_le s _ I L); reflexivity.
  - apply (inv_le s _ I L); reflexivity.
  - apply (inv_le s _ I L); reflexivity.
  - apply (inv_le s _ I L); reflexivity.
  - apply (inv_le s _ I L); reflexivity.
  - (* AddCond *) cbn in V. apply andb_true_iff in V as [_ V]. apply item_okb_ok in V.
    split; [split; [exact Cm|split; [|split; [exact Cp|exact Co]]]|exact F].
    cbn [conds es]. apply Forall_app. split; [exact Cc|constructor; [exact V|constructor]].
  - (* DelCond *) split; [split; [exact Cm|split; [|split; [exact Cp|exact Co]]]|exact F].
    cbn [conds es]. rewrite Forall_forall in *. intros x Hx. apply filter_In in Hx as [Hx _]. apply Cc, Hx.
  - (* AddMetric *) cbn in V. apply andb_true_iff in V as [V1 V2]. apply valid_ehb_ok in V1.
    split; [split; [|split; [exact Cc|split; [exact Cp|exact Co]]]|].
    + cbn [metrics es]. apply Forall_app. split; [exact Cm|constructor; [exact V1|constructor]].
    + unfold mfresh. cbn [metrics es]. apply Forall_app. split; [exact F|constructor; [exact V2|constructor]].
  - (* AddPsd *) cbn in V. apply andb_true_iff in V as [_ V]. apply item_okb_ok in V.
    split; [split; [exact Cm|split; [exact Cc|split; [|exact Co]]]|exact F].
    cbn [psds es]. apply Forall_app. split; [exact Cp|constructor; [exact V|constructor]].
  - (* SetTemplates *) apply (inv_le s _ I L); reflexivity.
  - (* DeclFun *) split; [split; [exact Cm|split; [exact Cc|split; [exact Cp|]]]|exact F].
    unfold own_refs. cbn [fown es]. apply own_refs_decl, Co.
  - (* FAddCons *) cbn in V. apply andb_true_iff in V as [_ V]. apply andb_true_iff in V as [_ V]. apply item_okb_ok in V.
    split; [split; [exact Cm|split; [exact Cc|split; [exact Cp|]]]|exact F].
    unfold own_refs. cbn [fown es]. apply (own_refs_add s _ _ f r); [|exact Co|exact V].
    intros o0 x Hx. cbn [fst snd] in Hx. rewrite <- app_assoc in Hx. apply in_app_or in Hx as [Hx|Hx];
      [left; apply in_or_app; left; exact Hx|]. cbn in Hx. destruct Hx as [<-|Hx]; [right; reflexivity|left; apply in_or_app; right; exact Hx].
  - (* FAddPsd *) cbn in V. apply andb_true_iff in V as [_ V]. apply andb_true_iff in V as [_ V]. apply item_okb_ok in V.
    split; [split; [exact Cm|split; [exact Cc|split; [exact Cp|]]]|exact F].
    unfold own_refs. cbn [fown es]. apply (own_refs_add s _ _ f r); [|exact Co|exact V].
    intros o0 x Hx. cbn [fst snd] in Hx. rewrite app_assoc in Hx. apply in_app_or in Hx as [Hx|Hx];
      [left; exact Hx|]. cbn in Hx. destruct Hx as [<-|[]]. right. reflexivity.
  - (* Solve *) destruct (solve_fields s a) as (H1 & H2 & H3 & _ & _ & H6). apply (inv_le s _ I L); assumption.
  - (* SolveH *) destruct (solve_fields s (Some (answer_of first rest))) as (H1 & H2 & H3 & _ & _ & H6).
    apply (inv_le s _ I L); assumption.
  - (* Eval *) revert L. destruct (eval_obj (es s) r) as [st1 x]. cbn. intro L. apply (inv_le s (with_es s st1) I L); reflexivity.
  - exact I.
  - exact I.
  - exact I.
Qed.

Lemma step_decl s o : closed s -> editing o = false -> decl_of (fst (step s o)) = decl_of s.
Proof.
  intros C E. pose proof (step_le s o C) as L. revert L.
  unfold step. destruct (valid_op s o); [|reflexivity].
  destruct o; try discriminate; cbn [step_valid fst]; intro L.
  - apply (decl_le s _ C L); reflexivity.
  - apply (decl_le s _ C L); reflexivity.
  - apply (decl_le s _ C L); reflexivity.
  - apply (decl_le s _ C L); reflexivity.
  - apply (decl_le s _ C L); reflexivity.
  - apply (decl_le s _ C L); reflexivity.
  - destruct (solve_fields s a) as (H1 & H2 & H3 & H4 & H5 & H6). apply (decl_le s _ C L); assumption.
  - destruct (solve_fields s (Some (answer_of first rest))) as (H1 & H2 & H3 & H4 & H5 & H6).
    apply (decl_le s _ C L); assumption.
  - revert L. destruct (eval_obj (es s) r) as [st1 x]. cbn. intro L. apply (decl_le s (with_es s st1) C L); reflexivity.
  - reflexivity.
  - reflexivity.
  - reflexivity.
Qed.

Lemma run_inv : forall ops s, inv s -> inv (fst (run s ops)).
Proof.
  induction ops as [|o ops IH]; intros s I; cbn [run]; [exact I|].
  destruct (step s o) as [s1 d] eqn:H1. destruct (run s1 ops) as [s2 ds] eqn:H2. cbn [fst].
  change s2 with (fst (s2, ds)). rewrite <- H2. apply IH. change s1 with (fst (s1, d)). rewrite <- H1.
  apply step_inv, I.
Qed.

Lemma run_decl : forall ops s, inv s -> forallb (fun o => negb (editing o)) ops = true ->
  decl_of (fst (run s ops)) = decl_of s.
Proof.
  induction ops as [|o ops IH]; intros s I E; cbn [run]; [reflexivity|].
  cbn [forallb] in E. apply andb_true_iff in E as [E1 E2]. apply negb_true_iff in E1.
  destruct (step s o) as [s1 d] eqn:H1. destruct (run s1 ops) as [s2 ds] eqn:H2. cbn [fst].
  change s2 with (fst (s2, ds)). rewrite <- H2.
  assert (I1 : inv s1) by (change s1 with (fst (s1, d)); rewrite <- H1; apply step_inv, I).
  rewrite IH by assumption. change s1 with (fst (s1, d)). rewrite <- H1. apply step_decl; [apply I|exact E1].
Qed.

Lemma inv0 : inv pst0.
Proof. split; [split; [|split; [|split]]|]; constructor. Qed.

Theorem final_inv ops : inv (final ops).
Proof. apply run_inv, inv0. Qed.

(** *** C13_no_growth.  However many solves, evaluations and object creations happened since (no edit
    of the model): the next solve sends exactly as many scalar constraints, LMIs and non-zero
    coefficients, item by item, as the first one. *)
Definition sent_at (s : pst) : sent := map (item_of (es s)) (wsent s).

Lemma inv_fresh s : inv s -> forall m, In m (d_metrics (decl_of s)) -> nokey (length (lev (es s))) m.
Proof.
  intros [_ F] m Hm. cbn [decl_of d_metrics] in Hm. apply in_map_iff in Hm as (e & <- & He).
  unfold mfresh in F. rewrite Forall_forall in F. eapply wf_edict_nokey; [apply F, He|lia].
Qed.

Theorem no_growth s ops a a' :
  inv s -> forallb (fun o => negb (editing o)) ops = true ->
  map shape (sent_at (solve (fst (run s ops)) a')) = map shape (sent_at (solve s a)).
Proof.
  intros I E. pose proof (run_inv ops s I) as I2. pose proof (run_decl ops s I E) as D.
  unfold sent_at. destruct (sent_fresh s a (proj1 I)) as [-> _].
  destruct (sent_fresh (fst (run s ops)) a' (proj1 I2)) as [-> _]. rewrite D.
  apply counts_indep. intros m Hm. split; [|apply inv_fresh; assumption].
  rewrite <- D in Hm. apply inv_fresh; assumption.
Qed.

Corollary no_growth_counts s ops a a' :
  inv s -> forallb (fun o => negb (editing o)) ops = true ->
  let k := sent_at (solve (fst (run s ops)) a') in let k1 := sent_at (solve s a) in
  n_scalars k = n_scalars k1 /\ n_lmis k = n_lmis k1 /\ nnz k = nnz k1 /\ length k = length k1.
Proof.
  intros I E. cbv zeta. pose proof (no_growth s ops a a' I E) as H.
  unfold n_scalars, n_lmis, nnz. rewrite H. repeat split.
  apply (f_equal (@length _)) in H. rewrite !map_length in H. exact H.
Qed.

(** ** values after a finite solve *)
Definition quiet (o : op) : bool := match o with Solve _ | SolveH _ _ => false | _ => true end.

Lemma frame_good_leaves st st' : frame st st' -> lpv st' = lpv st.
Proof. intros (H & _). exact H. Qed.

Lemma eval_all_good m : forall rs st y, m = length (lpv st) -> good m st y -> good m (eval_all st rs) y.
Proof.
  induction rs as [|r rs IH]; intros st y Hm G; cbn [eval_all]; [exact G|].
  destruct (eval_obj st r) as [st1 x] eqn:H. cbn [fst]. apply IH.
  - rewrite (frame_good_leaves st st1) by (eapply eval_obj_frame; eassumption). exact Hm.
  - eapply eval_obj_good; [exact H|exact G|]. intros. exact Hm.
Qed.

Lemma get_obj_assign_duals : forall rs ds st r o, get_obj (assign_duals st rs ds) r = Some o ->
  exists o0, get_obj st r = Some o0 /\ okind_of o = okind_of o0 /\ ocache o = ocache o0.
Proof.
  induction rs as [|r0 rs IH]; intros [|d ds] st r o H; cbn [assign_duals] in H; eauto.
  apply IH in H as (o1 & H1 & K1 & C1). rewrite get_obj_set_dual in H1.
  destruct (Nat.eqb_spec r r0) as [->|].
  - destruct (get_obj st r0) as [o0|]; [|discriminate]. cbn in H1. injection H1 as <-. cbn in *. eauto.
  - eauto.
Qed.

Lemma clean_assign_duals rs ds st x : clean st x -> clean (assign_duals st rs ds) x.
Proof.
  intros C o Ho. apply get_obj_assign_duals in Ho as (o0 & H0 & K0 & C0).
  destruct (C o0 H0) as [Hc Hr]. split; [congruence|]. intros r' Hin o' Ho'.
  apply get_obj_assign_duals in Ho' as (o1 & H1 & K1 & C1). rewrite C1. apply (Hr r'); [congruence|exact H1].
Qed.

(** *** C13_fresh_partial (values).  Guard: when the solver is called, the object and the
    expressions it refers to hold no cache ([clean] in the state [prepare s]).  Then after the
    finite solve, and after any further ops that neither solve nor create a leaf point, the object
    is coherent with solution k, and [eval] returns its cache-free value under the current leaf
    tables -- which are those of solution k. *)
Theorem fresh_after_solve s sol x :
  clean (es (prepare s)) x -> good (length (lpv (es s))) (es (solve s (Some sol))) x.
Proof.
  intro C. unfold solve, finish. cbn [es with_es].
  set (s1 := prepare s).
  set (st1 := assign_duals (es s1) (wsent s1) (sDual sol)).
  set (st2 := assign_solution st1 (sP sol) (sF sol)).
  assert (Hlen : length (lpv (es s)) = length (lpv st2)).
  { unfold st2, assign_solution. cbn [lpv]. rewrite map_length, seq_length. unfold st1.
    destruct (assign_duals_leaves (wsent s1) (sDual sol) (es s1)) as [-> _].
    unfold s1, prepare.
    destruct (gen_functions (new_leafE (es s)) (ftem s)) as [sa fs] eqn:H1.
    destruct (gen_partitions sa (ptem s)) as [sb ps] eqn:H2.
    destruct (mk_conss sb _) as [sc ms] eqn:H3. cbn [es].
    apply gen_functions_spec in H1 as (_ & [S1 _] & _). apply gen_partitions_spec in H2 as (_ & [S2 _] & _).
    apply mk_conss_spec in H3 as (_ & [S3 _] & _). rewrite S3, S2, S1. reflexivity. }
  assert (G2 : good (length (lpv (es s))) st2 x).
  { apply clean_good. apply (clean_assign_duals (wsent s1) (sDual sol)) in C. exact C. }
  assert (F3 := eval_all_frame (filter (is_lmi st2) (wsent s1)) st2).
  set (st3 := eval_all st2 (filter (is_lmi st2) (wsent s1))) in *.
  assert (F4 := eval_all_frame (filter (is_ineq st3) (wsent s1)) st3).
  set (st4 := eval_all st3 (filter (is_ineq st3) (wsent s1))) in *.
  apply eval_all_good; [rewrite (frame_good_leaves _ _ F4), (frame_good_leaves _ _ F3); exact Hlen|].
  apply eval_all_good; [rewrite (frame_good_leaves _ _ F3); exact Hlen|].
  apply eval_all_good; [exact Hlen|exact G2].
Qed.

(** appending objects keeps old objects and their coherence *)
Lemma good_new_obj m st k y : y < length (objs st) ->
  (forall o e, get_obj st y = Some o -> In e (refs_of (okind_of o)) -> eh_ok st e) ->
  good m st y -> good m (new_obj st k) y.
Proof.
  intros Hy Hr [Cy Ce].
  assert (S : samek st (new_obj st k) \/ True) by (right; exact I). clear S.
  assert (P : forall kk, (forall e, In e (refs_of kk) -> eh_ok st e) -> pure_obj m (new_obj st k) kk = pure_obj m st kk).
  { intros kk Hk.
    assert (Pe : forall e, eh_ok st e -> pure_eh (new_obj st k) e = pure_eh st e).
    { intros [id|r]; cbn [eh_ok pure_eh]; [reflexivity|]. intros (o & d & Ho & _).
      rewrite get_obj_new_obj_old by (eapply get_obj_lt; eassumption).
      destruct (get_obj st r) as [o'|]; [|reflexivity]. destruct (okind_of o'); try reflexivity.
      apply expr_compute_leaves; reflexivity. }
    destruct kk as [d|d|e s|mm]; cbn [pure_obj refs_of] in *.
    - rewrite (point_compute_leaves m st (new_obj st k)) by reflexivity. reflexivity.
    - rewrite (expr_compute_leaves st (new_obj st k)) by reflexivity. reflexivity.
    - rewrite Pe by (apply Hk; left; reflexivity). reflexivity.
    - assert (Pr : forall row, (forall e, In e row -> eh_ok st e) -> pure_row (new_obj st k) row = pure_row st row).
      { induction row as [|e row IH]; intro H; cbn [pure_row]; [reflexivity|].
        rewrite Pe by (apply H; left; reflexivity). rewrite IH by (intros; apply H; right; assumption). reflexivity. }
      assert (Pm : pure_rows (new_obj st k) mm = pure_rows st mm).
      { induction mm as [|row mm IH]; cbn [pure_rows]; [reflexivity|]. cbn [concat] in Hk.
        rewrite Pr by (intros; apply Hk, in_or_app; left; assumption).
        rewrite IH by (intros; apply Hk, in_or_app; right; assumption). reflexivity. }
      rewrite Pm. reflexivity. }
  split.
  - intros o v Ho Hc. rewrite get_obj_new_obj_old in Ho by exact Hy. rewrite P; [apply (Cy o v Ho Hc)|].
    intros e He. eapply Hr; eassumption.
  - intros o e Ho Hin. rewrite get_obj_new_obj_old in Ho by exact Hy.
    pose proof (Ce o e Ho Hin) as C. pose proof (Hr o e Ho Hin) as Hok.
    destruct e as [id|r]; cbn [coh_eh] in *; [exact I|].
    destruct Hok as (o1 & d1 & Ho1 & _). intros o2 d v Ho2 Hk Hc.
    rewrite get_obj_new_obj_old in Ho2 by (eapply get_obj_lt; eassumption).
    destruct (C o2 d v Ho2 Hk Hc) as (q & -> & Hq). exists q. split; [reflexivity|].
    rewrite (expr_compute_leaves st (new_obj st k)) by reflexivity. exact Hq.
Qed.

Lemma good_new_leafE m st y : good m st y -> good m (new_leafE st) y.
Proof.
  intros [Cy Ce].
  assert (S : samek st (new_leafE st)).
  { split; [|intro r; reflexivity]. split; intro k; [reflexivity|].
    unfold leafE, new_leafE; cbn [lev]. destruct (Nat.lt_ge_cases k (length (lev st))) as [H|H].
    - rewrite nth_error_app1 by exact H. reflexivity.
    - assert (H1 : nth_error (lev st) k = None) by (apply nth_error_None; exact H). rewrite H1.
      rewrite nth_error_app2 by exact H. destruct (k - length (lev st)) as [|j]; cbn; [reflexivity|].
      destruct j; reflexivity. }
  split.
  - intros o v Ho Hc. rewrite (pure_obj_samek m st _ _ S). apply (Cy o v Ho Hc).
  - intros o e Ho Hin. pose proof (Ce o e Ho Hin) as C. destruct e as [id|r]; cbn [coh_eh] in *; [exact I|].
    intros o2 d v Ho2 Hk Hc. destruct (C o2 d v Ho2 Hk Hc) as (q & -> & Hq). exists q. split; [reflexivity|].
    rewrite (expr_compute_ext st _ d (proj1 S)). exact Hq.
Qed.

Lemma good_new_leafP m st y : good m st y -> good m (new_leafP st) y.
Proof.
  intros [Cy Ce].
  assert (S : samek st (new_leafP st)).
  { split; [|intro r; reflexivity]. split; intro k; [|reflexivity].
    unfold leafP, new_leafP; cbn [lpv]. destruct (Nat.lt_ge_cases k (length (lpv st))) as [H|H].
    - rewrite nth_error_app1 by exact H. reflexivity.
    - assert (H1 : nth_error (lpv st) k = None) by (apply nth_error_None; exact H). rewrite H1.
      rewrite nth_error_app2 by exact H. destruct (k - length (lpv st)) as [|j]; cbn; [reflexivity|].
      destruct j; reflexivity. }
  split.
  - intros o v Ho Hc. rewrite (pure_obj_samek m st _ _ S). apply (Cy o v Ho Hc).
  - intros o e Ho Hin. pose proof (Ce o e Ho Hin) as C. destruct e as [id|r]; cbn [coh_eh] in *; [exact I|].
    intros o2 d v Ho2 Hk Hc. destruct (C o2 d v Ho2 Hk Hc) as (q & -> & Hq). exists q. split; [reflexivity|].
    rewrite (expr_compute_ext st _ d (proj1 S)). exact Hq.
Qed.

(** the object is not the empty combination (whose null vector follows the class counter: F-C02b) *)
Definition nonempty (st : est) (y : nat) : Prop := forall oy, get_obj st y = Some oy -> okind_of oy <> KPoint [].
Lemma nonempty_back st st' y :
  (forall r o', get_obj st' r = Some o' -> exists o, get_obj st r = Some o /\ okind_of o = okind_of o') ->
  nonempty st y -> nonempty st' y.
Proof. intros B N oy Hoy. destruct (B y oy Hoy) as (o & Ho & Hk). rewrite <- Hk. apply (N o Ho). Qed.

(** every reference inside a stored constraint / LMI points to an existing derived expression *)
Definition store_ok (st : est) : Prop :=
  forall r o e, get_obj st r = Some o -> In e (refs_of (okind_of o)) -> eh_ok st e.

Lemma store_ok_new_obj st k : store_ok st -> (forall e, In e (refs_of k) -> eh_ok st e) -> store_ok (new_obj st k).
Proof.
  intros S Hk r o e Ho Hin. destruct (Nat.lt_ge_cases r (length (objs st))) as [H|H].
  - rewrite get_obj_new_obj_old in Ho by exact H. eapply eh_ok_mono; [apply le_st_new_obj|]. eapply S; eassumption.
  - pose proof (get_obj_lt _ _ _ Ho) as Hlt. rewrite length_new_obj in Hlt.
    assert (r = length (objs st)) by lia. subst r. rewrite get_obj_new_obj_last in Ho. injection Ho as <-.
    cbn [okind_of] in Hin. eapply eh_ok_mono; [apply le_st_new_obj|]. apply Hk, Hin.
Qed.

Lemma store_ok_le st st' : store_ok st ->
  (forall r o', get_obj st' r = Some o' -> exists o, get_obj st r = Some o /\ okind_of o = okind_of o') ->
  le_st st st' -> store_ok st'.
Proof.
  intros S B L r o' e Ho' Hin. destruct (B r o' Ho') as (o & Ho & Hk). rewrite <- Hk in Hin.
  eapply eh_ok_mono; [exact L|]. eapply S; eassumption.
Qed.

Lemma frame_back st st' : frame st st' ->
  forall r o', get_obj st' r = Some o' -> exists o, get_obj st r = Some o /\ okind_of o = okind_of o'.
Proof.
  intros (_ & _ & H) r o' Ho'. specialize (H r). rewrite Ho' in H. destruct (get_obj st r) as [o|]; [|contradiction].
  exists o. split; [reflexivity|]. symmetry. tauto.
Qed.

Lemma valid_rows_ok st m : forallb (fun row => forallb (valid_ehb st) row) m = true ->
  forall e, In e (concat m) -> eh_ok st e.
Proof.
  intros H e He. apply in_concat in He as (row & Hr & He). rewrite forallb_forall in H.
  specialize (H row Hr). rewrite forallb_forall in H. apply valid_ehb_ok, H, He.
Qed.

(** one quiet step keeps a coherent object coherent *)
Lemma step_good m s o y :
  quiet o = true -> store_ok (es s) -> nonempty (es s) y -> y < length (objs (es s)) ->
  good m (es s) y ->
  let s' := fst (step s o) in
  good m (es s') y /\ store_ok (es s') /\ nonempty (es s') y /\ y < length (objs (es s')).
Proof.
  intros Q S Hm Hy G. cbv zeta. unfold step. destruct (valid_op s o) eqn:V; [|auto].
  assert (Hr : forall o0 e, get_obj (es s) y = Some o0 -> In e (refs_of (okind_of o0)) -> eh_ok (es s) e)
    by (intros; eapply S; eassumption).
  assert (Nn : forall k, nonempty (new_obj (es s) k) y).
  { intros k oy Hoy. rewrite get_obj_new_obj_old in Hoy by exact Hy. apply (Hm oy Hoy). }
  destruct o; try discriminate; cbn [step_valid fst es with_es]; auto.
  - (* NewLeafP *) split; [apply good_new_leafP, G|]. split; [|auto].
    eapply store_ok_le; [exact S| |apply le_st_new_leafP]. eauto.
  - (* NewLeafE *) split; [apply good_new_leafE, G|]. split; [|auto].
    eapply store_ok_le; [exact S| |apply le_st_new_leafE]. eauto.
  - (* MkPoint *) split; [apply good_new_obj; assumption|]. split; [apply store_ok_new_obj; [exact S|intros e []]|].
    rewrite length_new_obj. split; [apply Nn|lia].
  - (* MkExpr *) split; [apply good_new_obj; assumption|]. split; [apply store_ok_new_obj; [exact S|intros e0 []]|].
    rewrite length_new_obj. split; [apply Nn|lia].
  - (* MkCons *) cbn in V. split; [apply good_new_obj; assumption|]. split.
    + apply store_ok_new_obj; [exact S|]. intros e0 [<-|[]]. apply valid_ehb_ok, V.
    + rewrite length_new_obj. split; [apply Nn|lia].
  - (* MkLmi *) cbn in V. split; [apply good_new_obj; assumption|]. split.
    + apply store_ok_new_obj; [exact S|]. cbn [refs_of]. apply valid_rows_ok, V.
    + rewrite length_new_obj. split; [apply Nn|lia].
  - (* Eval *) destruct (eval_obj (es s) r) as [st1 x] eqn:H. cbn [fst es with_es].
    pose proof (eval_obj_frame _ _ _ _ H) as F. split.
    + eapply eval_obj_good; [exact H|exact G|]. intros -> o0 Ho0 Hk0 _. exfalso. apply (Hm o0 Ho0 Hk0).
    + split; [eapply store_ok_le; [exact S|apply frame_back, F|apply le_st_frame, F]|].
      split; [eapply nonempty_back; [apply frame_back, F|exact Hm]|].
      destruct F as (_ & _ & F). destruct (nth_error (objs (es s)) y) as [oy|] eqn:Hoy.
      * specialize (F y). unfold get_obj in F. rewrite Hoy in F.
        destruct (nth_error (objs st1) y) eqn:E1; [|contradiction]. apply nth_error_Some. congruence.
      * apply nth_error_None in Hoy. lia.
Qed.

Lemma run_good m : forall ops s y,
  forallb quiet ops = true -> store_ok (es s) -> nonempty (es s) y -> y < length (objs (es s)) ->
  good m (es s) y ->
  good m (es (fst (run s ops))) y /\ nonempty (es (fst (run s ops))) y.
Proof.
  induction ops as [|o ops IH]; intros s y Q S Hm Hy G; cbn [run]; [auto|].
  cbn [forallb] in Q. apply andb_true_iff in Q as [Q1 Q2].
  destruct (step s o) as [s1 d] eqn:H1. destruct (run s1 ops) as [s2 ds] eqn:H2. cbn [fst].
  pose proof (step_good m s o y Q1 S Hm Hy G) as (G1 & S1 & M1 & Y1). rewrite H1 in *. cbn [fst] in *.
  change s2 with (fst (s2, ds)). rewrite <- H2. apply IH; assumption.
Qed.

(** *** F-C13d mechanism: a solve without a finite value leaves every leaf value in place *)
Theorem failed_solve_keeps_leaves s : closed s ->
  lpv (es (solve s None)) = lpv (es s) /\ lev (es (solve s None)) = lev (es s) ++ [None].
Proof. intro C. pose proof (prepare_spec s C) as (_ & H1 & H2 & _). split; assumption. Qed.

(** ** duals of the latest solve *)
Lemma assign_duals_dual : forall rs ds st k r d o,
  NoDup rs -> nth_error rs k = Some r -> nth_error ds k = Some d ->
  get_obj st r = Some o -> exists o', get_obj (assign_duals st rs ds) r = Some o' /\ odual o' = Some d.
Proof.
  induction rs as [|r0 rs IH]; intros ds st k r d o N Hr Hd Ho; [destruct k; discriminate|].
  destruct ds as [|d0 ds]; [destruct k; discriminate|]. cbn [assign_duals]. inversion N as [|? ? Hn N']; subst.
  destruct k as [|k]; cbn [nth_error] in Hr, Hd.
  - injection Hr as ->. injection Hd as ->.
    assert (K : forall rs ds st, ~ In r rs -> forall o1, get_obj st r = Some o1 ->
                get_obj (assign_duals st rs ds) r = Some o1).
    { clear. induction rs as [|r1 rs IH]; intros [|d1 ds] st Hn o1 H1; cbn [assign_duals]; auto.
      apply IH; [intro; apply Hn; right; assumption|]. rewrite get_obj_set_dual.
      destruct (Nat.eqb_spec r r1) as [->|]; [exfalso; apply Hn; left; reflexivity|exact H1]. }
    eexists. split; [apply K; [exact Hn|]|].
    + rewrite get_obj_set_dual, Nat.eqb_refl, Ho. reflexivity.
    + reflexivity.
  - apply (IH ds _ k r d (if Nat.eqb r r0 then mkObj (okind_of o) (ocache o) (Some d0) else o) N' Hr Hd).
    rewrite get_obj_set_dual. destruct (Nat.eqb_spec r r0) as [->|]; [rewrite Ho; reflexivity|exact Ho].
Qed.

Lemma frame_dual st st' r o : frame st st' -> get_obj st r = Some o ->
  exists o', get_obj st' r = Some o' /\ odual o' = odual o.
Proof.
  intros (_ & _ & H) Ho. specialize (H r). rewrite Ho in H. destruct (get_obj st' r) as [o'|]; [|contradiction].
  exists o'. split; [reflexivity|tauto].
Qed.

Theorem duals_latest s sol k r d :
  closed s -> let s1 := solve s (Some sol) in
  NoDup (wsent s1) -> nth_error (wsent s1) k = Some r -> nth_error (sDual sol) k = Some d ->
  eval_dual (es s1) r = Ok d.
Proof.
  intros C. cbv zeta. unfold solve, finish. cbn [wsent with_es es]. intros N Hr Hd.
  pose proof (prepare_spec s C) as (_ & _ & _ & _ & O & _).
  assert (Hin : In r (wsent (prepare s))) by (eapply nth_error_In; eassumption).
  rewrite Forall_forall in O. destruct (O r Hin) as (o & Ho & _).
  destruct (assign_duals_dual _ _ _ k r d o N Hr Hd Ho) as (o1 & Ho1 & Hd1).
  set (st1 := assign_duals (es (prepare s)) (wsent (prepare s)) (sDual sol)) in *.
  set (st2 := assign_solution st1 (sP sol) (sF sol)).
  assert (Ho2 : get_obj st2 r = Some o1) by exact Ho1.
  assert (F3 := eval_all_frame (filter (is_lmi st2) (wsent (prepare s))) st2).
  set (st3 := eval_all st2 _) in *.
  assert (F4 := eval_all_frame (filter (is_ineq st3) (wsent (prepare s))) st3).
  set (st4 := eval_all st3 _) in *.
  assert (F5 := eval_all_frame (filter (is_eq st4) (wsent (prepare s))) st4).
  destruct (frame_dual _ _ r o1 (frame_trans _ _ _ F3 (frame_trans _ _ _ F4 F5)) Ho2) as (o5 & Ho5 & Hd5).
  unfold eval_dual. rewrite Ho5, Hd5, Hd1. reflexivity.
Qed.

(** ** refutations, on reachable states *)
(** F-C13a.  x0, xs leaf points; d = |x0 - xs|^2 held by the user; initial condition d <= 1 (object 2),
    metric = leaf expression 0.  Solve 1 (x0 - xs has norm 1), [d.eval()] = 1; the condition is
    replaced by d' <= 4 (objects 3-5); solve 2 (norm 4 = 2^2): a freshly built [|x0 - xs|^2]
    (object 8) evaluates to 4, the held [d] still to 1. *)
Definition dist2 : edict := [(KG 0 0, 1%Q); (KG 0 1, (-1)%Q); (KG 1 0, (-1)%Q); (KG 1 1, 1%Q)].
Definition c13a_prog : list op :=
  [NewLeafP; NewLeafP; NewLeafE;
   MkExpr dist2;                                        (* #0  d, held *)
   MkExpr (x_subs dist2 1); MkCons (ERef 1) Ineq;       (* #1 #2  d <= 1 *)
   AddCond 2; AddMetric (ELeaf 0);
   Solve (Some (mkSol [[1%Q; 0%Q]; [0%Q; 0%Q]] [1%Q; 1%Q] [VNum 1%Q; VNum 1%Q]));
   Eval 0;
   DelCond 2;
   MkExpr (x_subs dist2 4); MkCons (ERef 5) Ineq;       (* #5 #6  d' <= 4   (#3 #4: metric row of solve 1) *)
   AddCond 6;
   Solve (Some (mkSol [[2%Q; 0%Q]; [0%Q; 0%Q]] [4%Q; 1%Q; 4%Q] [VNum 2%Q; VNum 2%Q]));
   MkExpr dist2;                                        (* #9  a new |x0 - xs|^2 *)
   Eval 9; Eval 0].

Theorem refuted_stale :
  exists ops r r', ops = c13a_prog /\
    okind_of (nth r (objs (es (final ops))) (mkObj (KPoint []) None None)) =
    okind_of (nth r' (objs (es (final ops))) (mkObj (KPoint []) None None)) /\
    (* the same dictionary, two objects, two values after the latest solve *)
    snd (eval_obj (es (final ops)) r') = Ok (VNum 4%Q) /\ snd (eval_obj (es (final ops)) r) = Ok (VNum 1%Q)
    /\ pure_obj 2 (es (final ops)) (KExpr dist2) = Ok (VNum 4%Q).
Proof.
  exists c13a_prog, 0, 9. split; [reflexivity|]. split; [vm_compute; reflexivity|].
  split; [vm_compute; reflexivity|]. split; vm_compute; reflexivity.
Qed.

(** F-C13d.  Same model; the second solve finds no finite value (initial condition removed): the held
    object, the leaf points and the dual of the removed-then-unsent condition still answer with the
    numbers of solve 1, whereas an equivalent newly built model would raise "must be solved". *)
Definition c13d_prog : list op :=
  [NewLeafP; NewLeafP; NewLeafE;
   MkExpr dist2; MkExpr (x_subs dist2 1); MkCons (ERef 1) Ineq; AddCond 2; AddMetric (ELeaf 0);
   Solve (Some (mkSol [[1%Q; 0%Q]; [0%Q; 0%Q]] [1%Q; 1%Q] [VNum 1%Q; VNum 1%Q]));
   DelCond 2;
   Solve None;
   Eval 0; EvalLeafP 0; MkExpr dist2; Eval 7].

Definition c13d_fresh_prog : list op :=
  [NewLeafP; NewLeafP; NewLeafE; MkExpr dist2; AddMetric (ELeaf 0); Solve None; Eval 0].

Theorem refuted_failed :
  snd (eval_obj (es (final (removelast (removelast (removelast (removelast c13d_prog)))))) 0) = Ok (VNum 1%Q)
  /\ snd (eval_obj (es (final c13d_fresh_prog)) 0) = Raise EUnsolved.
Proof. split; vm_compute; reflexivity. Qed.
