(** C02: the factorisation theorem composed with the Gram reading.  If the coordinates of the evaluated leaf points
    are the columns of the R factor that [Proofs.C02Factor] is about (leaf k, coordinate b = R[b][k] -- what
    [Model.Eval.assign_solution] / [C02_leaf_assignment] give), then every dictionary over the n leaf points has, at
    the returned instance, exactly the value the solver saw at the PSD PROJECTION of its Gram matrix -- with no
    hypothesis left about numpy other than the specifications of eigh and qr. *)
From Coq Require Import List QArith Reals Qreals Lra Bool Arith Lia.
From PV Require Import Base.IPS Model.Dict Model.Terms Model.Eval Spec.Sem Spec.GramSem
     Proofs.C02Vec Proofs.C02Main Proofs.C02Factor.
From PV Require Spec.KKT.
Import ListNotations.
Local Open Scope R_scope.

Lemma dotn_sumn n (u v : nat -> R) : dotn n u v = KKT.sumn n (fun b => u b * v b).
Proof. induction n as [|n IH]; cbn [dotn KKT.sumn]; [reflexivity|rewrite IH; reflexivity]. Qed.

(** every inner-product key of [d] is between leaf points below [n] *)
Definition keys_below (n : nat) (d : edict) : Prop :=
  forall i j, In (KG i j) (keys d) -> (i < n)%nat /\ (j < n)%nat.

Theorem instance_reads_projection :
  forall n st G lam V Qm Rm,
    eigh_spec n G lam V -> qr_spec n (scaled_T lam V) Qm Rm ->
    (forall k b, (k < n)%nat -> (b < n)%nat -> (rho_of n st k : nat -> R) b = Rm b k) ->
    forall d, keys_below n d ->
      evalE (rho_of n st) (phi_of st) d = evalGF (proj n lam V) (phi_of st) d.
Proof.
  intros n st G lam V Qm Rm He Hq Hcols d Hk.
  apply evalE_evalGF. intros i j Hin. destruct (Hk i j Hin) as [Hi Hj].
  rewrite Rn_inner, dotn_sumn.
  rewrite <- (factor_reproduces_projection n G lam V Qm Rm He Hq i j Hi Hj).
  apply PSDLemmas.sumn_ext. intros b Hb. rewrite (Hcols i b Hi Hb), (Hcols j b Hj Hb). reflexivity.
Qed.

(** when the solver's Gram matrix has no negative eigenvalue the instance reads it exactly *)
Corollary instance_reads_gram :
  forall n st G lam V Qm Rm,
    eigh_spec n G lam V -> qr_spec n (scaled_T lam V) Qm Rm ->
    (forall k, (k < n)%nat -> 0 <= lam k) ->
    (forall k b, (k < n)%nat -> (b < n)%nat -> (rho_of n st k : nat -> R) b = Rm b k) ->
    forall d, keys_below n d ->
      evalE (rho_of n st) (phi_of st) d = evalGF G (phi_of st) d.
Proof.
  intros n st G lam V Qm Rm He Hq Hpos Hcols d Hk.
  rewrite (instance_reads_projection n st G lam V Qm Rm He Hq Hcols d Hk).
  clear Hcols. induction d as [|[k w] d IH]; cbn [evalGF]; [reflexivity|].
  rewrite IH by (intros i j Hin; apply Hk; right; exact Hin). f_equal. f_equal.
  destruct k as [e|i j|]; cbn [evalKGF]; try reflexivity.
  destruct (Hk i j (or_introl eq_refl)) as [Hi Hj].
  apply (projection_is_identity_on_psd n G lam V He Hpos i j Hi Hj).
Qed.
