(** Lemmas about the dictionary model: the weighted sum of a dictionary under any valuation of its
    keys is additive for [merge], invariant under [prune], homogeneous for [scale]; key uniqueness is
    preserved by every operation. *)
From Coq Require Import List QArith Reals Qreals Lra Bool Arith Lia.
From PV Require Import Model.Dict.
Import ListNotations.
Local Open Scope R_scope.

Section Generic.
  Variable K : Type.
  Variable keqb : K -> K -> bool.
  Hypothesis keqb_spec : forall a b, reflect (a = b) (keqb a b).

  Definition NoDupKeys (d : dict K) : Prop := NoDup (keys d).

  Lemma lookup_None k d : lookup keqb k d = None <-> ~ In k (keys d).
  Proof.
    induction d as [|[k' v] d IH]; cbn.
    - tauto.
    - destruct (keqb_spec k k') as [->|Hne].
      + split; [discriminate|intros H; exfalso; apply H; left; reflexivity].
      + rewrite IH. split; intros H; [intros [H1|H1]; [congruence|tauto]|tauto].
  Qed.

  Lemma lookup_Some_In k v d : lookup keqb k d = Some v -> In (k, v) d.
  Proof.
    induction d as [|[k' v'] d IH]; cbn; [discriminate|].
    destruct (keqb_spec k k') as [->|Hne]; [intros [= ->]; left; reflexivity|right; auto].
  Qed.

  Lemma In_lookup k v d : NoDupKeys d -> In (k, v) d -> lookup keqb k d = Some v.
  Proof.
    unfold NoDupKeys. induction d as [|[k' v'] d IH]; cbn; [tauto|].
    intros Hnd [H|H].
    - injection H as -> ->. destruct (keqb_spec k k); [reflexivity|congruence].
    - inversion Hnd as [|? ? Hni Hnd']; subst.
      destruct (keqb_spec k k') as [->|Hne]; [|auto].
      exfalso. apply Hni. change (In k' (keys d)). unfold keys. apply in_map_iff. exists (k', v); auto.
  Qed.

  Lemma mem_true k d : mem keqb k d = true <-> In k (keys d).
  Proof.
    unfold mem. destruct (lookup keqb k d) eqn:Hl.
    - split; [intros _|reflexivity]. apply lookup_Some_In in Hl. unfold keys.
      apply in_map_iff. exists (k, q); auto.
    - apply lookup_None in Hl. split; [discriminate|tauto].
  Qed.

  Lemma mem_false k d : mem keqb k d = false <-> ~ In k (keys d).
  Proof. rewrite <- mem_true. destruct (mem keqb k d); split; congruence. Qed.

  (** Key uniqueness is preserved. *)
  Lemma keys_scale c (d : dict K) : keys (scale c d) = keys d.
  Proof. unfold keys, scale. rewrite map_map. apply map_ext. intros [k v]; reflexivity. Qed.
  Lemma keys_halve (d : dict K) : keys (halve d) = keys d.
  Proof. unfold keys, halve. rewrite map_map. apply map_ext. intros [k v]; reflexivity. Qed.
  Lemma NoDupKeys_scale c (d : dict K) : NoDupKeys d -> NoDupKeys (scale c d).
  Proof. unfold NoDupKeys. rewrite keys_scale. auto. Qed.

  Lemma NoDup_map_filter {A B} (f : A -> B) (p : A -> bool) l :
    NoDup (map f l) -> NoDup (map f (filter p l)).
  Proof.
    induction l as [|a l IH]; cbn; [auto|]. intros H. inversion H as [|? ? Hn H']; subst.
    destruct (p a); cbn; [|auto]. constructor; [|auto].
    intros Hin. apply Hn. apply in_map_iff in Hin as [x [Hx Hin]]. apply filter_In in Hin as [Hin _].
    apply in_map_iff. exists x; auto.
  Qed.

  Lemma NoDup_app_iff_local {A} (l1 l2 : list A) :
    NoDup l1 -> NoDup l2 -> (forall x, In x l1 -> In x l2 -> False) -> NoDup (l1 ++ l2).
  Proof.
    induction l1 as [|a l1 IH]; cbn; intros H1 H2 H; [exact H2|].
    inversion H1 as [|? ? Hn H1']; subst. constructor.
    - intros Hin. apply in_app_or in Hin as [Hin|Hin]; [tauto|]. apply (H a); auto.
    - apply IH; auto. intros x Hx1 Hx2. apply (H x); auto.
  Qed.

  Lemma NoDupKeys_prune (d : dict K) : NoDupKeys d -> NoDupKeys (prune d).
  Proof. apply NoDup_map_filter. Qed.

  Lemma NoDupKeys_merge d1 d2 : NoDupKeys d1 -> NoDupKeys d2 -> NoDupKeys (merge keqb d1 d2).
  Proof.
    unfold NoDupKeys, merge, keys. intros H1 H2. rewrite map_app, map_map.
    replace (map (fun x => fst (let '(k, v) := x in
                 match lookup keqb k d2 with Some v2 => (k, (v + v2)%Q) | None => (k, v) end)) d1)
      with (map fst d1)
      by (apply map_ext; intros [k v]; destruct (lookup keqb k d2); reflexivity).
    apply NoDup_app_iff_local; [exact H1| |].
    - apply NoDup_map_filter. exact H2.
    - intros k Hk1 Hk2. apply in_map_iff in Hk2 as [[k' v'] [Hk' Hin]]. cbn in Hk'; subst k'.
      apply filter_In in Hin as [_ Hm]. apply negb_true_iff in Hm. apply mem_false in Hm.
      apply Hm. exact Hk1.
  Qed.

  Lemma prune_nonzero (d : dict K) k v : In (k, v) (prune d) -> ~ (v == 0)%Q.
  Proof.
    unfold prune. intros H. apply filter_In in H as [_ H]. unfold nonzero in H.
    apply negb_true_iff in H. intros Hz. apply Qeq_bool_iff in Hz. congruence.
  Qed.
  Lemma prune_keeps (d : dict K) k v : In (k, v) d -> ~ (v == 0)%Q -> In (k, v) (prune d).
  Proof.
    intros Hin Hnz. apply filter_In. split; [exact Hin|]. unfold nonzero. apply negb_true_iff.
    destruct (Qeq_bool v 0) eqn:Hz; [|reflexivity]. apply Qeq_bool_iff in Hz. contradiction.
  Qed.


  Section Sum.
  Variable val : K -> R.

  Fixpoint dsum (d : dict K) : R :=
    match d with
    | [] => 0
    | (k, q) :: d' => Q2R q * val k + dsum d'
    end.

  Lemma dsum_app d1 d2 : dsum (d1 ++ d2) = dsum d1 + dsum d2.
  Proof. induction d1 as [|[k q] d1 IH]; cbn; [lra|rewrite IH; lra]. Qed.

  (** value of key k in d, 0 when absent *)
  Definition get (k : K) (d : dict K) : R :=
    match lookup keqb k d with Some v => Q2R v | None => 0 end.

  (** Sum of the [d2]-values found at the keys of [d1] + sum of the [d2]-entries whose key is not in
      [d1] is the whole sum of [d2], when keys are unique on both sides. *)
  Lemma dsum_split d1 d2 :
    NoDupKeys d1 -> NoDupKeys d2 ->
    dsum d2 =
    fold_right (fun '(k, _) acc => get k d2 * val k + acc) 0 d1
    + dsum (filter (fun '(k, _) => negb (mem keqb k d1)) d2).
  Proof.
    unfold NoDupKeys. revert d2. induction d1 as [|[k v] d1 IH]; intros d2 H1 H2.
    - cbn. rewrite Rplus_0_l. f_equal. induction d2 as [|[k' v'] d2 IHd]; cbn; [reflexivity|].
      f_equal. apply IHd. inversion H2; assumption.
    - inversion H1 as [|? ? Hni H1']; subst. cbn [fold_right].
      (* remove k from d2 *)
      set (d2' := filter (fun '(k', _) => negb (keqb k' k)) d2).
      assert (Hd2' : NoDup (keys d2')).
      { unfold d2', keys. clear -H2. induction d2 as [|[a b] d2 IHd]; cbn; [constructor|].
        inversion H2 as [|? ? Hn H2']; subst. destruct (keqb a k); cbn; [apply IHd; assumption|].
        constructor; [|apply IHd; assumption]. intros Hin. apply Hn.
        apply in_map_iff in Hin as [[a' b'] [Ha Hin]]. cbn in Ha; subst a'.
        apply filter_In in Hin as [Hin _]. change (In a (keys d2)). apply in_map_iff. exists (a, b'); auto. }
      assert (Hsum : dsum d2 = get k d2 * val k + dsum d2').
      { unfold d2', get. clear -H2 keqb_spec. induction d2 as [|[a b] d2 IHd]; cbn; [lra|].
        inversion H2 as [|? ? Hn H2']; subst. specialize (IHd H2').
        destruct (keqb_spec k a) as [->|Hne].
        - destruct (keqb_spec a a) as [_|]; [|congruence]. cbn.
          assert (Hl : lookup keqb a d2 = None) by (apply lookup_None; exact Hn).
          rewrite Hl in IHd.
          assert (Hf : filter (fun '(k', _) => negb (keqb k' a)) d2 = d2).
          { clear -Hn keqb_spec. induction d2 as [|[c e] d2 IHd]; cbn; [reflexivity|].
            destruct (keqb_spec c a) as [->|Hne]; [exfalso; apply Hn; left; reflexivity|].
            cbn. f_equal. apply IHd. intros H; apply Hn; right; exact H. }
          rewrite Hf in *. lra.
        - destruct (keqb_spec a k) as [->|_]; [congruence|]. cbn. rewrite IHd. lra. }
      rewrite Hsum. rewrite (IH d2' H1' Hd2'). rewrite Rplus_assoc. f_equal. f_equal.
      + (* fold over d1 : get k' d2' = get k' d2 for k' in d1, since k' <> k *)
        clear -Hni keqb_spec. induction d1 as [|[a b] d1 IHd]; cbn [fold_right]; [reflexivity|].
        rewrite IHd by (intros H; apply Hni; right; exact H). f_equal. f_equal.
        assert (Hak : a <> k) by (intros ->; apply Hni; left; reflexivity).
        unfold get, d2'. clear -Hak keqb_spec. induction d2 as [|[c e] d2 IHd]; cbn; [reflexivity|].
        destruct (keqb_spec c k) as [->|Hck]; cbn.
        * destruct (keqb_spec a k); [congruence|exact IHd].
        * destruct (keqb_spec a c); [reflexivity|exact IHd].
      + (* the two filters agree *)
        unfold d2'. clear. induction d2 as [|[c e] d2 IHd]; cbn; [reflexivity|].
        unfold mem in *. cbn [lookup].
        destruct (keqb c k); cbn; [exact IHd|].
        destruct (lookup keqb c d1); cbn; [exact IHd|rewrite IHd; reflexivity].
  Qed.

  Lemma dsum_merge d1 d2 :
    NoDupKeys d1 -> NoDupKeys d2 -> dsum (merge keqb d1 d2) = dsum d1 + dsum d2.
  Proof.
    intros H1 H2. unfold merge. rewrite dsum_app, (dsum_split d1 d2 H1 H2).
    rewrite <- Rplus_assoc. f_equal.
    clear H1 H2. induction d1 as [|[k v] d1 IH]; cbn [map dsum fold_right]; [lra|].
    unfold get at 1. destruct (lookup keqb k d2) as [v2|]; cbn [dsum].
    - rewrite Q2R_plus, IH. lra.
    - rewrite IH. lra.
  Qed.

  Lemma dsum_prune d : dsum (prune d) = dsum d.
  Proof.
    unfold prune. induction d as [|[k v] d IH]; cbn [filter dsum]; [reflexivity|]. unfold nonzero at 1.
    destruct (Qeq_bool v 0) eqn:Hz; cbn [negb dsum].
    - apply Qeq_bool_eq in Hz. apply Qeq_eqR in Hz. rewrite Hz, RMicromega.Q2R_0, IH. lra.
    - rewrite IH. reflexivity.
  Qed.

  Lemma dsum_scale c d : dsum (scale c d) = Q2R c * dsum d.
  Proof.
    unfold scale. induction d as [|[k v] d IH]; cbn [map dsum]; [lra|rewrite IH, Q2R_mult; lra].
  Qed.

  End Sum.
End Generic.
