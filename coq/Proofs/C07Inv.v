(** C07, part 2: the bookkeeping invariant and its preservation by the primitive state changes
    ([record] = the part of [add_point] common to leaves and composites, fresh leaves, [leaf_oracle]). *)
From Coq Require Import List QArith Reals Qreals Lra Bool Arith Lia Permutation.
From PV Require Import Base.IPS Model.Dict Model.Terms Model.Func Spec.Sem
  Proofs.DictLemmas Proofs.SemLemmas Proofs.C07Dict.
Import ListNotations.
Local Open Scope R_scope.

Definition nfun (s : state) : nat := length (funs s).

(** a recorded sample is well formed: unique keys, the point is pruned and only mentions existing leaves *)
Definition wf_sample (s : state) (t : sample) : Prop :=
  pND (xof t) /\ pND (gof t) /\ eND (vof t) /\ allnz nat (xof t) = true /\
  (forall k, In k (keys (xof t)) -> (k < pt_ctr s)%nat).

(** a well-formed, pruned query point *)
Definition wfq (s : state) (x : pdict) : Prop :=
  pND x /\ allnz nat x = true /\ (forall k, In k (keys x) -> (k < pt_ctr s)%nat).

(** [ch] picks, for every term of the weights [W], a sample recorded for that term at the point [x] *)
Definition covers (s : state) (W : wdict) (x : pdict) (ch : nat -> sample) : Prop :=
  forall i q, In (i, q) W ->
    In (ch i) (f_pts (getf s i)) /\ dict_eqb Nat.eqb (xof (ch i)) x = true.

(** gradient [g] and value [v] are the [W]-weighted sums of the chosen samples, under every valuation of
    the leaves in every inner-product space (the gradient is observed through inner products) *)
Definition sums (W : wdict) (ch : nat -> sample) (g : pdict) (v : edict) : Prop :=
  (forall (E : ips) (rho : nat -> E) (w : E),
      ip rho w g = dsum nat (fun i => ip rho w (gof (ch i))) W) /\
  (forall (E : ips) (rho : nat -> E) (phi : nat -> R),
      evalE rho phi v = dsum nat (fun i => evalE rho phi (vof (ch i))) W).

Definition I3_at (s : state) (W : wdict) (t : sample) : Prop :=
  exists ch, covers s W (xof t) ch /\ sums W ch (gof t) (vof t).

(** The invariant.  [P] exempts samples from I3 (used while [add_point] of a composite has recorded the
    composite's sample but not yet distributed it over the terms); the invariant proper is [inv]. *)
Record inv_gen (P : nat -> sample -> Prop) (s : state) : Prop := {
  ig_leafw : forall i, (i < nfun s)%nat -> f_leaf (getf s i) = true -> f_w (getf s i) = [(i, 1%Q)];
  ig_compw : forall i, (i < nfun s)%nat -> f_leaf (getf s i) = false ->
      pND (f_w (getf s i)) /\ f_w (getf s i) <> [] /\ allnz nat (f_w (getf s i)) = true /\
      forall k q, In (k, q) (f_w (getf s i)) -> (k < nfun s)%nat /\ f_leaf (getf s k) = true;
  ig_samples : forall i t, (i < nfun s)%nat -> In t (f_pts (getf s i)) -> wf_sample s t;
  ig_stat : forall i t, (i < nfun s)%nat -> In t (f_stat (getf s i)) ->
      In t (f_pts (getf s i)) /\ gof t = [];
  ig_I1 : forall i t1 t2, (i < nfun s)%nat -> In t1 (f_pts (getf s i)) -> In t2 (f_pts (getf s i)) ->
      dict_eqb Nat.eqb (xof t1) (xof t2) = true -> eeq (vof t1) (vof t2);
  ig_I2 : forall i t1 t2, (i < nfun s)%nat -> f_reuse (getf s i) = true ->
      In t1 (f_pts (getf s i)) -> In t2 (f_pts (getf s i)) ->
      dict_eqb Nat.eqb (xof t1) (xof t2) = true -> peq (gof t1) (gof t2);
  ig_I3 : forall i t, (i < nfun s)%nat -> f_leaf (getf s i) = false -> In t (f_pts (getf s i)) ->
      P i t \/ I3_at s (f_w (getf s i)) t;
  (* a sum declared differentiable only has differentiable terms (the converse may fail: the flag is the
     conjunction over ALL operands of the construction, also those whose weights cancelled -- a sum is
     allowed to be declared non-differentiable) *)
  ig_I6 : forall i, (i < nfun s)%nat -> f_leaf (getf s i) = false -> f_reuse (getf s i) = true ->
      forallb (fun '(k, _) => f_reuse (getf s k)) (f_w (getf s i)) = true
}.

Definition noP : nat -> sample -> Prop := fun _ _ => False.
Definition inv (s : state) : Prop := inv_gen noP s.

(** ** monotone evolution of the state: [s'] extends [s], only the functions in [K] were touched *)
Definition ext (K : nat -> Prop) (s s' : state) : Prop :=
  nfun s' = nfun s /\ (pt_ctr s <= pt_ctr s')%nat /\ (ex_ctr s <= ex_ctr s')%nat /\
  (forall j, f_leaf (getf s' j) = f_leaf (getf s j) /\ f_reuse (getf s' j) = f_reuse (getf s j) /\
             f_w (getf s' j) = f_w (getf s j)) /\
  (forall j t, In t (f_pts (getf s j)) -> In t (f_pts (getf s' j))) /\
  (forall j, ~ K j -> getf s' j = getf s j).

Lemma ext_refl K s : ext K s s.
Proof. repeat split; auto. Qed.

Lemma ext_trans K s1 s2 s3 : ext K s1 s2 -> ext K s2 s3 -> ext K s1 s3.
Proof.
  intros (A1 & A2 & A3 & A4 & A5 & A6) (B1 & B2 & B3 & B4 & B5 & B6).
  split; [congruence|]. split; [lia|]. split; [lia|]. split; [|split].
  - intros j. destruct (A4 j) as (a & b & c), (B4 j) as (a' & b' & c'). repeat split; congruence.
  - intros j t H. apply B5, A5, H.
  - intros j H. rewrite B6, A6; auto.
Qed.

Lemma ext_weaken (K K' : nat -> Prop) s s' : (forall j, K j -> K' j) -> ext K s s' -> ext K' s s'.
Proof.
  intros HK (A1 & A2 & A3 & A4 & A5 & A6).
  split; [exact A1|]. split; [exact A2|]. split; [exact A3|]. split; [exact A4|]. split; [exact A5|].
  intros j H. apply A6. intros Hk. apply H, HK, Hk.
Qed.

Lemma covers_mono s s' W x ch :
  (forall j t, In t (f_pts (getf s j)) -> In t (f_pts (getf s' j))) ->
  covers s W x ch -> covers s' W x ch.
Proof. intros Hm Hc i q Hin. destruct (Hc i q Hin) as [H1 H2]. split; [apply Hm, H1|exact H2]. Qed.

(** ** [record] *)
Lemma nfun_setf s i f : nfun (setf s i f) = nfun s.
Proof. unfold nfun, setf. cbn. apply upd_length. Qed.

Lemma getf_setf_eq s i f : (i < nfun s)%nat -> getf (setf s i f) i = f (getf s i).
Proof. intros H. unfold getf, setf. cbn. apply nth_upd_eq. exact H. Qed.

Lemma getf_setf_neq s i j f : i <> j -> getf (setf s i f) j = getf s j.
Proof. intros H. unfold getf, setf. cbn. apply nth_upd_neq. exact H. Qed.

Lemma nfun_record s i t : nfun (record s i t) = nfun s.
Proof. apply nfun_setf. Qed.

Lemma getf_record_neq s i j t : i <> j -> getf (record s i t) j = getf s j.
Proof. apply getf_setf_neq. Qed.

Lemma pts_record_eq s i t :
  (i < nfun s)%nat -> f_pts (getf (record s i t) i) = f_pts (getf s i) ++ [pruned_sample t].
Proof. intros H. unfold record. rewrite getf_setf_eq by exact H. reflexivity. Qed.

Lemma flags_record s i j t :
  f_leaf (getf (record s i t) j) = f_leaf (getf s j) /\
  f_reuse (getf (record s i t) j) = f_reuse (getf s j) /\
  f_w (getf (record s i t) j) = f_w (getf s j).
Proof.
  destruct (Nat.eq_dec i j) as [<-|Hne]; [|rewrite getf_record_neq by exact Hne; auto].
  destruct (Nat.lt_ge_cases i (nfun s)) as [Hlt|Hge].
  - unfold record. rewrite getf_setf_eq by exact Hlt. auto.
  - unfold record, setf, getf. cbn. rewrite upd_out by exact Hge. auto.
Qed.

Lemma pts_record_mono s i t j u : In u (f_pts (getf s j)) -> In u (f_pts (getf (record s i t) j)).
Proof.
  intros H. destruct (Nat.eq_dec i j) as [<-|Hne]; [|rewrite getf_record_neq by exact Hne; exact H].
  destruct (Nat.lt_ge_cases i (nfun s)) as [Hlt|Hge].
  - rewrite pts_record_eq by exact Hlt. apply in_or_app. left. exact H.
  - unfold record, setf, getf. cbn. rewrite upd_out by exact Hge. exact H.
Qed.

Lemma ext_record s i t : ext (eq i) s (record s i t).
Proof.
  split; [apply nfun_record|]. split; [cbn; lia|]. split; [cbn; lia|]. split; [|split].
  - intros j. apply flags_record.
  - intros j u. apply pts_record_mono.
  - intros j H. apply getf_record_neq. exact H.
Qed.

Lemma stat_record_eq s i t u :
  (i < nfun s)%nat -> In u (f_stat (getf (record s i t) i)) ->
  In u (f_stat (getf s i)) \/ (u = pruned_sample t /\ gof u = []).
Proof.
  intros Hlt. unfold record. rewrite getf_setf_eq by exact Hlt. cbn [f_stat].
  destruct (is_nil (snd (fst (pruned_sample t)))) eqn:Hn; [|auto].
  intros H. apply in_app_or in H as [H|[<-|[]]]; [auto|]. right. split; [reflexivity|].
  unfold gof. destruct (snd (fst (pruned_sample t))); [reflexivity|discriminate].
Qed.

(** the counters only grow; nothing else is read from them than bounds on recorded points *)
Lemma inv_bump P s a b :
  inv_gen P s -> (pt_ctr s <= a)%nat -> inv_gen P (mkS a b (funs s)).
Proof.
  intros [H1 H2 H3 H4 H5 H6 H7 H8] Ha.
  split; auto.
  intros i t Hi Ht. destruct (H3 i t Hi Ht) as (A & B & C & D & F).
  repeat split; auto. intros k Hk. cbn. specialize (F k Hk). lia.
Qed.

Lemma wf_pruned s x g v :
  pND x -> pND g -> eND v -> (forall k, In k (keys x) -> (k < pt_ctr s)%nat) ->
  wf_sample s (prune x, prune g, prune v).
Proof.
  intros Hx Hg Hv Hk. unfold wf_sample, xof, gof, vof; cbn.
  split; [apply pND_prune, Hx|]. split; [apply pND_prune, Hg|]. split; [apply eND_prune, Hv|].
  split; [apply allnz_prune|]. intros k H. apply Hk. apply (keys_prune_incl nat x k H).
Qed.

Lemma record_inv P s i x g v :
  inv_gen P s -> (i < nfun s)%nat ->
  pND x -> pND g -> eND v -> (forall k, In k (keys x) -> (k < pt_ctr s)%nat) ->
  (forall t0, In t0 (f_pts (getf s i)) -> dict_eqb Nat.eqb (xof t0) (prune x) = true -> eeq (vof t0) v) ->
  (f_reuse (getf s i) = true -> find_pt (f_pts (getf s i)) (prune x) = None) ->
  (f_leaf (getf s i) = false ->
     P i (prune x, prune g, prune v) \/ I3_at s (f_w (getf s i)) (prune x, prune g, prune v)) ->
  inv_gen P (record s i (x, g, v)).
Proof.
  intros Hinv Hi Hx Hg Hv Hk HI1 HI2 HI3.
  set (t' := (prune x, prune g, prune v)).
  assert (Hwf' : wf_sample s t') by (apply wf_pruned; assumption).
  assert (Hmono : forall j u, In u (f_pts (getf s j)) -> In u (f_pts (getf (record s i (x, g, v)) j)))
    by (intros; apply pts_record_mono; assumption).
  assert (Hpts : f_pts (getf (record s i (x, g, v)) i) = f_pts (getf s i) ++ [t'])
    by (apply pts_record_eq; exact Hi).
  assert (Hfl : forall j, f_leaf (getf (record s i (x, g, v)) j) = f_leaf (getf s j) /\
                          f_reuse (getf (record s i (x, g, v)) j) = f_reuse (getf s j) /\
                          f_w (getf (record s i (x, g, v)) j) = f_w (getf s j))
    by (intros; apply flags_record).
  destruct Hinv as [H1 H2 H3 H4 H5 H6 H7 H8].
  split; rewrite ?nfun_record.
  - intros j Hj. destruct (Hfl j) as (-> & _ & ->). auto.
  - intros j Hj. destruct (Hfl j) as (-> & _ & ->). intros Hl.
    destruct (H2 j Hj Hl) as (A & B & C & D). repeat split; auto; try apply D with q; auto.
    destruct (D k q H) as [_ Hk']. destruct (Hfl k) as (-> & _). exact Hk'.
  - intros j t Hj Ht. destruct (Nat.eq_dec i j) as [<-|Hne].
    + rewrite Hpts in Ht. apply in_app_or in Ht as [Ht|[<-|[]]]; [|exact Hwf'].
      exact (H3 i t Hj Ht).
    + rewrite getf_record_neq in Ht by exact Hne. exact (H3 j t Hj Ht).
  - intros j t Hj Ht. destruct (Nat.eq_dec i j) as [<-|Hne].
    + apply stat_record_eq in Ht; [|exact Hi]. destruct Ht as [Ht|[-> Hg0]].
      * destruct (H4 i t Hj Ht). split; [apply Hmono|]; assumption.
      * split; [|exact Hg0]. rewrite Hpts. apply in_or_app. right. left. reflexivity.
    + rewrite getf_record_neq in * by exact Hne. exact (H4 j t Hj Ht).
  - intros j t1 t2 Hj Ht1 Ht2 He. destruct (Nat.eq_dec i j) as [<-|Hne].
    + rewrite Hpts in Ht1, Ht2.
      apply in_app_or in Ht1 as [Ht1|[<-|[]]]; apply in_app_or in Ht2 as [Ht2|[<-|[]]].
      * exact (H5 i t1 t2 Hj Ht1 Ht2 He).
      * eapply eeq_trans; [apply (HI1 t1 Ht1 He)|]. apply eeq_sym, eeq_prune.
      * apply eeq_sym. eapply eeq_trans; [apply (HI1 t2 Ht2)|apply eeq_sym, eeq_prune].
        destruct (H3 i t2 Hj Ht2) as (N2 & _). destruct Hwf' as (N' & _).
        apply peqb_sym; assumption.
      * apply eeq_refl.
    + rewrite getf_record_neq in * by exact Hne. exact (H5 j t1 t2 Hj Ht1 Ht2 He).
  - intros j t1 t2 Hj Hr Ht1 Ht2 He. destruct (Hfl j) as (_ & Hr' & _). rewrite Hr' in Hr.
    destruct (Nat.eq_dec i j) as [<-|Hne].
    + rewrite Hpts in Ht1, Ht2. specialize (HI2 Hr). rewrite find_pt_None in HI2.
      apply in_app_or in Ht1 as [Ht1|[<-|[]]]; apply in_app_or in Ht2 as [Ht2|[<-|[]]].
      * exact (H6 i t1 t2 Hj Hr Ht1 Ht2 He).
      * exfalso. pose proof (HI2 t1 Ht1) as Hc. change (xof t') with (prune x) in He. congruence.
      * exfalso. destruct (H3 i t2 Hj Ht2) as (N2 & _). destruct Hwf' as (N' & _).
        apply peqb_sym in He; try assumption. pose proof (HI2 t2 Ht2) as Hc.
        change (xof t') with (prune x) in He. congruence.
      * apply peq_refl.
    + rewrite getf_record_neq in * by exact Hne. exact (H6 j t1 t2 Hj Hr Ht1 Ht2 He).
  - intros j t Hj Hl Ht. destruct (Hfl j) as (Hl' & _ & ->). rewrite Hl' in Hl.
    assert (Hold : forall u, In u (f_pts (getf s j)) ->
                             P j u \/ I3_at (record s i (x, g, v)) (f_w (getf s j)) u).
    { intros u Hu. destruct (H7 j u Hj Hl Hu) as [Hp|[ch [Hc Hs]]]; [left; exact Hp|].
      right. exists ch. split; [|exact Hs]. eapply covers_mono; [|exact Hc]. exact Hmono. }
    destruct (Nat.eq_dec i j) as [<-|Hne].
    + rewrite Hpts in Ht. apply in_app_or in Ht as [Ht|[<-|[]]]; [apply Hold, Ht|].
      destruct (HI3 Hl) as [Hp|[ch [Hc Hs]]]; [left; exact Hp|].
      right. exists ch. split; [|exact Hs]. eapply covers_mono; [|exact Hc]. exact Hmono.
    + rewrite getf_record_neq in Ht by exact Hne. apply Hold, Ht.
  - intros j Hj. destruct (Hfl j) as (-> & -> & ->). intros Hl Hr. rewrite <- (H8 j Hj Hl Hr).
    generalize (f_w (getf s j)). intros W. induction W as [|[k q] W IH]; cbn [forallb]; [reflexivity|].
    destruct (Hfl k) as (_ & -> & _). rewrite IH. reflexivity.
Qed.

(** ** [leaf_oracle] *)
Lemma wfq_prune s x : wfq s x -> prune x = x.
Proof. intros (_ & H & _). apply prune_id. exact H. Qed.

Lemma getf_bump s a b j : getf (mkS a b (funs s)) j = getf s j.
Proof. reflexivity. Qed.

(** what [leaf_oracle] returns is a sample recorded (before or by the call) at a point [==] the query,
    its value is the stored value when there was one, and only function [i] was touched *)
Lemma leaf_oracle_spec s i x :
  (i < nfun s)%nat -> wfq s x ->
  let s' := fst (leaf_oracle s i x) in
  let g := fst (snd (leaf_oracle s i x)) in
  let v := snd (snd (leaf_oracle s i x)) in
  ext (eq i) s s' /\
  (exists x0, In (x0, g, v) (f_pts (getf s' i)) /\ dict_eqb Nat.eqb x0 x = true) /\
  (forall g0 v0, find_pt (f_pts (getf s i)) x = Some (g0, v0) -> eeq v v0) /\
  (forall g0 v0, find_pt (f_pts (getf s i)) x = Some (g0, v0) -> f_reuse (getf s i) = true ->
                 s' = s /\ g = g0 /\ v = v0).
Proof.
  intros Hi Hq. pose proof (wfq_prune s x Hq) as Hpx. destruct Hq as (Nx & _ & _).
  unfold leaf_oracle. destruct (find_pt (f_pts (getf s i)) x) as [[g0 v0]|] eqn:Hf.
  - destruct (f_reuse (getf s i)) eqn:Hr; cbn [fst snd fresh_pt].
    + split; [apply ext_refl|]. split; [|split].
      * apply find_pt_Some in Hf. exact Hf.
      * intros g1 v1 [= <- <-]. apply eeq_refl.
      * intros g1 v1 [= <- <-] _. auto.
    + split; [|split; [|split]].
      * eapply ext_trans; [|apply ext_record].
        repeat split; cbn; auto.
      * exists (prune x). split.
        -- rewrite pts_record_eq by exact Hi. apply in_or_app. right. left. reflexivity.
        -- rewrite Hpx. apply peqb_refl, Nx.
      * intros g1 v1 [= <- <-]. apply eeq_prune.
      * intros g1 v1 _ Hc. discriminate.
  - cbn [fst snd fresh_pt fresh_ex]. split; [|split; [|split]].
    + eapply ext_trans; [|apply ext_record]. repeat split; cbn; auto.
    + exists (prune x). split.
      * rewrite pts_record_eq by exact Hi. apply in_or_app. right. left. reflexivity.
      * rewrite Hpx. apply peqb_refl, Nx.
    + intros g1 v1 Hc. discriminate.
    + intros g1 v1 Hc. discriminate.
Qed.

Lemma leaf_oracle_inv P s i x :
  inv_gen P s -> (i < nfun s)%nat -> f_leaf (getf s i) = true -> wfq s x ->
  inv_gen P (fst (leaf_oracle s i x)).
Proof.
  intros Hinv Hi Hl Hq. pose proof (wfq_prune s x Hq) as Hpx. destruct Hq as (Nx & Hnz & Hk).
  unfold leaf_oracle. destruct (find_pt (f_pts (getf s i)) x) as [[g0 v0]|] eqn:Hf.
  - destruct (f_reuse (getf s i)) eqn:Hr; cbn [fst snd fresh_pt]; [exact Hinv|].
    destruct (find_pt_Some _ _ _ _ Hf) as [x0 [Hin0 He0]].
    pose proof (ig_samples P s Hinv i _ Hi Hin0) as (N0 & _ & Nv0 & _).
    set (s1 := mkS (S (pt_ctr s)) (ex_ctr s) (funs s)).
    assert (Hinv1 : inv_gen P s1) by (apply inv_bump; [exact Hinv|cbn; lia]).
    apply (record_inv P s1 i x [(pt_ctr s, 1%Q)] v0 Hinv1 Hi Nx (pND_single _ _) Nv0).
    + intros k Hk'. specialize (Hk k Hk'). cbn. lia.
    + intros t0 Ht0 He. rewrite Hpx in He. change (In t0 (f_pts (getf s i))) in Ht0.
      pose proof (ig_samples P s Hinv i _ Hi Ht0) as (Nt0 & _).
      apply (ig_I1 P s Hinv i t0 (x0, g0, v0) Hi Ht0 Hin0).
      apply (peqb_trans (xof t0) x x0); auto. apply peqb_sym; auto.
    + change (f_reuse (getf s i) = true -> find_pt (f_pts (getf s i)) (prune x) = None).
      rewrite Hr. discriminate.
    + change (f_leaf (getf s i) = false -> P i (prune x, prune [(pt_ctr s, 1%Q)], prune v0) \/
              I3_at s1 (f_w (getf s i)) (prune x, prune [(pt_ctr s, 1%Q)], prune v0)).
      rewrite Hl. discriminate.
  - cbn [fst snd fresh_pt fresh_ex].
    set (s1 := mkS (S (pt_ctr s)) (S (ex_ctr s)) (funs s)).
    assert (Hinv1 : inv_gen P s1) by (apply inv_bump; [exact Hinv|cbn; lia]).
    apply (record_inv P s1 i x [(pt_ctr s, 1%Q)] [(KF (ex_ctr s), 1%Q)] Hinv1 Hi Nx (pND_single _ _) (eND_single _ _)).
    + intros k Hk'. specialize (Hk k Hk'). cbn. lia.
    + intros t0 Ht0 He. rewrite Hpx in He. change (In t0 (f_pts (getf s i))) in Ht0.
      rewrite find_pt_None in Hf. rewrite (Hf t0 Ht0) in He. discriminate.
    + intros _. rewrite Hpx. exact Hf.
    + change (f_leaf (getf s i) = false -> P i (prune x, prune [(pt_ctr s, 1%Q)], prune [(KF (ex_ctr s), 1%Q)]) \/
              I3_at s1 (f_w (getf s i)) (prune x, prune [(pt_ctr s, 1%Q)], prune [(KF (ex_ctr s), 1%Q)])).
      rewrite Hl. discriminate.
Qed.
