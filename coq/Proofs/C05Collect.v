(** C05 — the collection phase, interpreted on the GENERATED plan [Gen.SolvePlan.solve_plan], sends
    exactly the declared model (Proofs/C05Spec.v [expected_result]). *)
From Coq Require Import List QArith Bool Arith Lia.
From PV Require Import Model.Dict Model.Terms Model.Sent Model.Collect Gen.SolvePlan Proofs.C05Spec.
Import ListNotations.

(* ------------------------------------------------------------------ appending to the three lists *)
Definition app_sent (st : state) (l : sent) : state :=
  mkState (s_expr_ctr st) (s_objective st) (s_lists st) (s_class_set st) (s_part_set st) (s_fdim st)
          (s_track_c st ++ scalars l) (s_track_p st ++ lmis l) (s_sent st ++ l) (s_generated st).

Lemma scalars_app a b : scalars (a ++ b) = scalars a ++ scalars b.
Proof. unfold scalars. apply flat_map_app. Qed.
Lemma lmis_app a b : lmis (a ++ b) = lmis a ++ lmis b.
Proof. unfold lmis. apply flat_map_app. Qed.

Lemma app_sent_nil st : app_sent st [] = st.
Proof. destruct st. unfold app_sent. cbn. rewrite !app_nil_r. reflexivity. Qed.

Lemma app_sent_app st a b : app_sent (app_sent st a) b = app_sent st (a ++ b).
Proof. unfold app_sent. cbn. rewrite scalars_app, lmis_app, !app_assoc. reflexivity. Qed.

Definition ready (tau : nat) (cs ps : list nat) (st : state) : Prop :=
  wrapper_open st = true /\ s_objective st = Some tau /\ s_class_set st = cs /\ s_part_set st = ps.

Lemma ready_app tau cs ps st l : ready tau cs ps st -> ready tau cs ps (app_sent st l).
Proof. intros H. exact H. Qed.

Lemma fetch_app m c st l s : fetch m c (app_sent st l) s = fetch m c st s.
Proof. destruct s; reflexivity. Qed.

(* ------------------------------------------------------------------ one item *)
Definition payload_item (st : state) (x : obj) (mt : meth) (t : track) (p : payload) : option item :=
  match mt, t, eval_payload st x p with
  | MScalar, TCons, Some (OC c) => Some (sc c)
  | MLmi, TPsd, Some (OP mx) => Some (LMI mx)
  | _, _, _ => None
  end.

Lemma exec_lbody_pair st x mt t p it :
  wrapper_open st = true -> payload_item st x mt t p = Some it ->
  exec_lbody st x [LSend mt p; LTrack t p] = Some (app_sent st [it]).
Proof.
  intros Ho Hp. unfold payload_item in Hp. cbn [exec_lbody exec_l]. rewrite Ho.
  destruct mt, t; try discriminate.
  - destruct (eval_payload st x p) as [[e|c|mx]|] eqn:He; try discriminate. injection Hp as <-.
    assert (He' : eval_payload (set_sent st (s_sent st ++ [SC (fst c) (snd c)])) x p = Some (OC c)) by exact He.
    rewrite He'. destruct c as [e s]. unfold app_sent, set_track_c, set_sent, sc. cbn. rewrite app_nil_r. reflexivity.
  - destruct (eval_payload st x p) as [[e|c|mx]|] eqn:He; try discriminate. injection Hp as <-.
    assert (He' : eval_payload (set_sent st (s_sent st ++ [LMI mx])) x p = Some (OP mx)) by exact He.
    rewrite He'. unfold app_sent, set_track_p, set_sent. cbn. rewrite app_nil_r. reflexivity.
Qed.

Lemma exec_items_map {A} (P : state -> Prop) (body : list lstmt) (inj : A -> obj) (h : A -> item) :
  (forall st l, P st -> P (app_sent st l)) ->
  (forall a st, P st -> exec_lbody st (inj a) body = Some (app_sent st [h a])) ->
  forall l st, P st -> exec_items body (map inj l) st = Some (app_sent st (map h l)).
Proof.
  intros HP Hstep. induction l as [|a l IH]; intros st Hst; cbn [map exec_items].
  - rewrite app_sent_nil. reflexivity.
  - rewrite Hstep by exact Hst. rewrite IH by (apply HP; exact Hst). rewrite app_sent_app. reflexivity.
Qed.

(* ------------------------------------------------------------------ sequencing, loops *)
Lemma run_list_cons m c s l st :
  run_list (exec m) c (s :: l) st
  = match exec m c s st with Some st' => run_list (exec m) c l st' | None => None end.
Proof. reflexivity. Qed.

Lemma run_funcs_app m body cp (P : state -> Prop) (g : func -> sent) :
  (forall st l, P st -> P (app_sent st l)) ->
  forall fs,
    (forall f, In f fs -> forall st, P st ->
                                     run_list (exec m) (mkCtx (Some f) cp) body st = Some (app_sent st (g f))) ->
    forall st, P st -> run_funcs (exec m) body cp fs st = Some (app_sent st (flat_map g fs)).
Proof.
  intros HP. induction fs as [|f fs IH]; intros Hb st Hst; cbn [run_funcs flat_map].
  - rewrite app_sent_nil. reflexivity.
  - rewrite (Hb f) by (try (left; reflexivity); exact Hst).
    rewrite IH; [rewrite app_sent_app; reflexivity| |apply HP; exact Hst].
    intros f' Hin. apply Hb. right. exact Hin.
Qed.

Lemma run_parts_app m body cf (P : state -> Prop) (g : part -> sent) :
  (forall st l, P st -> P (app_sent st l)) ->
  forall ps,
    (forall p, In p ps -> forall st, P st ->
                                     run_list (exec m) (mkCtx cf (Some p)) body st = Some (app_sent st (g p))) ->
    forall st, P st -> run_parts (exec m) body cf ps st = Some (app_sent st (flat_map g ps)).
Proof.
  intros HP. induction ps as [|p ps IH]; intros Hb st Hst; cbn [run_parts flat_map].
  - rewrite app_sent_nil. reflexivity.
  - rewrite (Hb p) by (try (left; reflexivity); exact Hst).
    rewrite IH; [rewrite app_sent_app; reflexivity| |apply HP; exact Hst].
    intros p' Hin. apply Hb. right. exact Hin.
Qed.

(* ------------------------------------------------------------------ the preparation phase *)
Lemma filter_funcs_spec m st c (b : func -> bool) :
  (forall f, fcond_holds m st f c = Some (b f)) ->
  forall fs, filter_funcs m st c fs = Some (filter b fs).
Proof.
  intros H. induction fs as [|f fs IH]; cbn [filter_funcs filter]; [reflexivity|].
  rewrite H, IH. reflexivity.
Qed.

Lemma is_nil_map {A B} (f : A -> B) l : is_nil (map f l) = is_nil l.
Proof. destruct l; reflexivity. Qed.

Definition after_class (st : state) (fs : list func) : state :=
  mkState (s_expr_ctr st + list_sum (map f_fresh_exprs fs)) (s_objective st) (s_lists st)
          (rev (map f_id fs) ++ s_class_set st) (s_part_set st) (s_fdim st) (s_track_c st) (s_track_p st)
          (s_sent st) (s_generated st).

Lemma run_set_class m cp fs : forall st,
    run_funcs (exec m) [SetClassConstraints] cp fs st = Some (after_class st fs).
Proof.
  induction fs as [|f fs IH]; intros st; cbn [run_funcs run_list exec c_fun].
  - unfold after_class. cbn. rewrite Nat.add_0_r. destruct st; reflexivity.
  - rewrite IH. unfold after_class. cbn. rewrite <- app_assoc, Nat.add_assoc. reflexivity.
Qed.

Definition after_parts (st : state) (ps : list part) : state :=
  mkState (s_expr_ctr st) (s_objective st) (s_lists st) (s_class_set st)
          (rev (map p_id ps) ++ s_part_set st) (s_fdim st) (s_track_c st) (s_track_p st)
          (s_sent st) (s_generated st).

Lemma run_add_parts m cf ps : forall st,
    run_parts (exec m) [AddPartitionConstraints] cf ps st = Some (after_parts st ps).
Proof.
  induction ps as [|p ps IH]; intros st; cbn [run_parts run_list exec c_part].
  - unfold after_parts. cbn. destruct st; reflexivity.
  - rewrite IH. unfold after_parts. cbn. rewrite <- app_assoc. reflexivity.
Qed.

Lemma mem_nat_in x l : In x l -> mem_nat x l = true.
Proof.
  intros H. unfold mem_nat. apply existsb_exists. exists x. split; [exact H|apply Nat.eqb_refl].
Qed.

Lemma mem_id_rev {A} (idf : A -> nat) (x : A) l rest :
  In x l -> mem_nat (idf x) (rev (map idf l) ++ rest) = true.
Proof.
  intros H. apply mem_nat_in. apply in_or_app. left. apply -> in_rev. apply in_map. exact H.
Qed.

(* ------------------------------------------------------------------ the send phase, statement shapes *)
(** a guard [if len(LIST) > 0:] around a loop over the same LIST changes nothing, in any state *)
Lemma guard_elim m c s b st :
  exec m c (IfNonEmpty s [ForItems s b]) st = exec m c (ForItems s b) st.
Proof.
  cbn [exec]. destruct (fetch m c st s) as [[|x xs]|] eqn:Hf; [reflexivity| |reflexivity].
  cbn [run_list exec]. rewrite Hf. destruct (exec_items b (x :: xs) st); reflexivity.
Qed.

Section Send.
  Variable m : model.
  Variable tau : nat.
  Variables cs ps : list nat.
  Notation P := (ready tau cs ps).

  Lemma P_app st l : P st -> P (app_sent st l).
  Proof. exact (ready_app tau cs ps st l). Qed.

  (** [for x in LIST: wrapper.send_constraint_to_solver(x); track.append(x)] over constraints *)
  Lemma for_scalars c s (l : list cons_t) st :
    P st -> fetch m c st s = Some (map OC l) ->
    exec m c (ForItems s [LSend MScalar PLoopVar; LTrack TCons PLoopVar]) st = Some (app_sent st (map sc l)).
  Proof.
    intros Hst Hf. cbn [exec]. rewrite Hf. apply (exec_items_map P); [exact P_app| |exact Hst].
    intros a st' Hst'. apply exec_lbody_pair; [apply Hst'|reflexivity].
  Qed.

  (** [for c, x in enumerate(LIST): wrapper.send_lmi_constraint_to_solver(c, x); track.append(x)] *)
  Lemma for_lmis c s (l : list psd_t) st :
    P st -> fetch m c st s = Some (map OP l) ->
    exec m c (ForItems s [LSend MLmi PLoopVar; LTrack TPsd PLoopVar]) st = Some (app_sent st (map LMI l)).
  Proof.
    intros Hst Hf. cbn [exec]. rewrite Hf. apply (exec_items_map P); [exact P_app| |exact Hst].
    intros a st' Hst'. apply exec_lbody_pair; [apply Hst'|reflexivity].
  Qed.

  (** the metrics loop: the comparison built is [self.objective <= metric] *)
  Lemma for_metrics c st :
    P st ->
    exec m c (ForItems SMetrics [LSend MScalar (PCompare CmpLe OObjective OLoopVar);
                                 LTrack TCons (PCompare CmpLe OObjective OLoopVar)]) st
    = Some (app_sent st (map (metric_row tau) (m_metrics m))).
  Proof.
    intros Hst. cbn [exec fetch]. apply (exec_items_map P); [exact P_app| |exact Hst].
    intros a st' Hst'. apply exec_lbody_pair; [apply Hst'|].
    unfold payload_item, eval_payload, operand_dict. destruct Hst' as (_ & -> & _). reflexivity.
  Qed.

  (** class lists of a function whose [set_class_constraints] ran hold the fresh constraints *)
  Lemma fetch_class_cons f cp st :
    P st -> mem_nat (f_id f) cs = true ->
    fetch m (mkCtx (Some f) cp) st SClassCons = Some (map OC (f_class_cons f)).
  Proof. intros (_ & _ & Hc & _) Hm. cbn [fetch c_fun]. rewrite Hc, Hm. reflexivity. Qed.
  Lemma fetch_class_psd f cp st :
    P st -> mem_nat (f_id f) cs = true ->
    fetch m (mkCtx (Some f) cp) st SClassPsd = Some (map OP (f_class_psd f)).
  Proof. intros (_ & _ & Hc & _) Hm. cbn [fetch c_fun]. rewrite Hc, Hm. reflexivity. Qed.
  Lemma fetch_part_cons p cf st :
    P st -> mem_nat (p_id p) ps = true ->
    fetch m (mkCtx cf (Some p)) st SPartCons = Some (map OC (p_cons p)).
  Proof. intros (_ & _ & _ & Hp) Hm. cbn [fetch c_part]. rewrite Hp, Hm. reflexivity. Qed.
End Send.

(* ------------------------------------------------------------------ the theorem on the generated plan *)
Ltac norm_state :=
  cbv beta iota;
  lazymatch goal with
  | |- context [run_list _ _ _ ?st] =>
      let st1 := eval cbv [after_class after_parts set_track_c set_track_p] in st in
      let st' := eval cbn in st1 in change st with st'
  end.
Ltac step := rewrite run_list_cons; cbn [exec].

Theorem collect_correct : forall m, collect solve_plan m = Some (expected_result m).
Proof.
  intros m. unfold collect, solve_plan, exec_list.
  (* preparation: objective leaf, the two filtered lists, class / partition constraints, main variables,
     tracking lists *)
  step. norm_state.
  step. rewrite (filter_funcs_spec m _ FIsLeaf f_is_leaf) by reflexivity. norm_state.
  step. rewrite (filter_funcs_spec m _ _ has_own)
    by (intros f; cbn [fcond_holds fetch c_fun]; rewrite !is_nil_map; reflexivity).
  norm_state.
  step. cbn [s_lists assoc Nat.eqb c_part c_fun]. rewrite run_set_class. norm_state.
  step. cbn [c_fun]. rewrite run_add_parts. norm_state.
  step. cbn [s_fdim]. norm_state.
  step. norm_state.
  step. norm_state.
  (* send phase *)
  set (leafs := filter f_is_leaf (m_funcs m)).
  set (owns := filter has_own (m_funcs m)).
  set (tau := m_expr_ctr m).
  set (cs := rev (map f_id leafs) ++ []).
  set (ps := rev (map p_id (m_parts m)) ++ []).
  match goal with |- context [run_list _ _ _ ?st] => set (st0 := st) end.
  assert (H0 : ready tau cs ps st0) by (repeat split).
  pose proof (P_app tau cs ps) as PA.
  (* metrics *)
  rewrite run_list_cons, (for_metrics m tau cs ps _ st0 H0).
  (* pep constraints *)
  rewrite run_list_cons, ?guard_elim, (for_scalars m tau cs ps _ SPepCons (m_cons m))
    by (try apply PA; try exact H0; reflexivity).
  rewrite app_sent_app.
  (* pep LMIs (guarded or not by `if len(self.list_of_psd) > 0`) *)
  rewrite run_list_cons, ?guard_elim, (for_lmis m tau cs ps _ SPepPsd (m_psd m))
    by (try apply PA; try exact H0; reflexivity).
  rewrite app_sent_app.
  (* class constraints of the leaf functions *)
  rewrite run_list_cons. cbn [exec]. cbn [s_lists app_sent st0 assoc Nat.eqb c_part].
  rewrite (run_funcs_app m _ None (ready tau cs ps)
             (fun f => map sc (f_class_cons f) ++ map LMI (f_class_psd f)) PA leafs);
    [| |apply PA; exact H0].
  2:{ intros f Hin st Hst.
      assert (Hm : mem_nat (f_id f) cs = true) by (apply mem_id_rev; exact Hin).
      rewrite run_list_cons, ?guard_elim, (for_scalars m tau cs ps _ SClassCons (f_class_cons f) st Hst)
        by (apply (fetch_class_cons m tau cs ps); assumption).
      rewrite run_list_cons, ?guard_elim, (for_lmis m tau cs ps _ SClassPsd (f_class_psd f))
        by (try apply PA; try exact Hst; apply (fetch_class_psd m tau cs ps); try apply PA; assumption).
      rewrite app_sent_app. reflexivity. }
  rewrite app_sent_app.
  (* own constraints of the functions that have some *)
  rewrite run_list_cons. cbn [exec]. cbn [s_lists app_sent st0 assoc Nat.eqb c_part].
  rewrite (run_funcs_app m _ None (ready tau cs ps)
             (fun f => map sc (f_cons f) ++ map LMI (f_psd f)) PA owns);
    [| |apply PA; exact H0].
  2:{ intros f Hin st Hst.
      rewrite run_list_cons, ?guard_elim, (for_scalars m tau cs ps _ SOwnCons (f_cons f) st Hst) by reflexivity.
      rewrite run_list_cons, ?guard_elim, (for_lmis m tau cs ps _ SOwnPsd (f_psd f))
        by (try apply PA; try exact Hst; reflexivity).
      rewrite app_sent_app. reflexivity. }
  rewrite app_sent_app.
  (* partitions *)
  rewrite run_list_cons. cbn [exec c_fun].
  rewrite (run_parts_app m _ None (ready tau cs ps) (fun p => map sc (p_cons p)) PA (m_parts m));
    [| |apply PA; exact H0].
  2:{ intros p Hin st Hst.
      assert (Hm : mem_nat (p_id p) ps = true) by (apply mem_id_rev; exact Hin).
      rewrite run_list_cons, ?guard_elim, (for_scalars m tau cs ps _ SPartCons (p_cons p) st Hst)
        by (apply (fetch_part_cons m tau cs ps); assumption).
      reflexivity. }
  rewrite app_sent_app.
  (* generate_problem *)
  rewrite run_list_cons. cbn [exec run_list app_sent st0 s_fdim s_generated s_objective s_sent s_track_c s_track_p].
  unfold expected_result, expected_sent, expected_fdim. fold leafs owns tau.
  cbn [app]. rewrite <- !app_assoc. reflexivity.
Qed.

(* ------------------------------------------------------------------ multiplicities *)
Local Open Scope nat_scope.
Lemma count_app eqb x a b : count_item eqb x (a ++ b) = count_item eqb x a + count_item eqb x b.
Proof. unfold count_item. rewrite filter_app, app_length. reflexivity. Qed.

Lemma count_flat_map {A} eqb x (g : A -> sent) l :
  count_item eqb x (flat_map g l) = list_sum (map (fun a => count_item eqb x (g a)) l).
Proof.
  induction l as [|a l IH]; cbn [flat_map map list_sum]; [reflexivity|].
  rewrite count_app, IH. reflexivity.
Qed.

Theorem multiplicity m r :
  collect solve_plan m = Some r ->
  forall eqb x,
    count_item eqb x (r_sent r)
    = count_item eqb x (map (metric_row (m_expr_ctr m)) (m_metrics m))
      + count_item eqb x (map sc (m_cons m))
      + count_item eqb x (map LMI (m_psd m))
      + list_sum (map (fun f => count_item eqb x (map sc (f_class_cons f)) + count_item eqb x (map LMI (f_class_psd f)))
                      (filter f_is_leaf (m_funcs m)))
      + list_sum (map (fun f => count_item eqb x (map sc (f_cons f)) + count_item eqb x (map LMI (f_psd f)))
                      (filter has_own (m_funcs m)))
      + list_sum (map (fun p => count_item eqb x (map sc (p_cons p))) (m_parts m)).
Proof.
  rewrite collect_correct. intros [= <-] eqb x. cbn [r_sent expected_result]. unfold expected_sent.
  rewrite !count_app, !count_flat_map.
  rewrite (map_ext (fun f => count_item eqb x (map sc (f_class_cons f) ++ map LMI (f_class_psd f)))
                   (fun f => count_item eqb x (map sc (f_class_cons f)) + count_item eqb x (map LMI (f_class_psd f))))
    by (intros; apply count_app).
  rewrite (map_ext (fun f => count_item eqb x (map sc (f_cons f) ++ map LMI (f_psd f)))
                   (fun f => count_item eqb x (map sc (f_cons f)) + count_item eqb x (map LMI (f_psd f))))
    by (intros; apply count_app).
  lia.
Qed.
