(** Non-vacuity of the C14 theorems: complete runs of the generated program, and programs the check rejects. *)
From Coq Require Import List String ZArith Bool Arith.
From PV Require Import Gen.PostSolve Proofs.C14Run Proofs.C14PostSolve.
Import ListNotations.
Open Scope string_scope.
Open Scope list_scope.

Definition int2 (s : string) : option Z := if String.eqb s "2" then Some 2%Z else None.

Lemma run_trace :
  let s := exec (cfg_of (Some "trace") "dual" int2) post_solve init in
  out s = Returned (VDualObjective (Some (Some 1))) /\ n_solves s = 2
  /\ trace s = [EvSolve 1; EvAssign 1; EvGetPrimal 1; EvEig; EvPrepare 1; EvHeuristic WIdentity; EvSolve 2;
                EvGetPrimal 2; EvEig; EvStore; EvStore; EvEval 2; EvCheck (Some 1) 2].
Proof. vm_compute. repeat split. Qed.

Lemma run_logdet2 :
  let s := exec (cfg_of (Some "logdet2") "dual" int2) post_solve init in
  out s = Returned (VDualObjective (Some (Some 1))) /\ n_solves s = 3
  /\ filter is_heur (trace s) = [EvPrepare 1; EvHeuristic WVar; EvHeuristic WVar].
Proof. vm_compute. repeat split. Qed.

Lemma run_primal_mode :
  out (exec (cfg_of (Some "trace") "primal" int2) post_solve init) = Returned (VWc 2).
Proof. vm_compute. reflexivity. Qed.

Lemma run_bad_option :
  out (exec (cfg_of (Some "tracee") "dual" int2) post_solve init) = RaisedValueError
  /\ out (exec (cfg_of (Some "logdetx") "dual" int2) post_solve init) = RaisedValueError.
Proof. vm_compute. split; reflexivity. Qed.

Lemma run_unbounded :
  let s := exec {| c_h := Some "trace"; c_mode := "dual"; c_int := int2; c_none := fun _ => true |} post_solve init in
  out s = Returned VNone /\ trace s = [EvSolve 1].
Proof. vm_compute. split; reflexivity. Qed.

(** programs the check rejects: duals assigned after the heuristic block; wc_value returned in dual mode *)
Definition moved_assign : list top :=
  [ T ASolve; T AReturnIfNone; T AGetPrimal;
    TIfHeuristic [L2 AEig; L2 APrepare;
                  L2Dispatch [(TEqStr "trace", [L1 (AHeuristic WIdentity); L1 ASolve; L1 AGetPrimal; L1 AEig])]
                             [L1 ARaiseValueError]];
    T AAssignDuals; T AStoreGF; T AEvalPoints; T ACheckFeasibility;
    T (AReturnSwitch [("dual", RetDualObjective); ("primal", RetWcValue)]) ].

Definition returns_wc : list top :=
  [ T ASolve; T AReturnIfNone; T AAssignDuals; T AGetPrimal; T AEvalPoints; T ACheckFeasibility;
    T (AReturnSwitch [("dual", RetWcValue); ("primal", RetWcValue)]) ].

Lemma check_rejects : well_ordered moved_assign = false /\ well_ordered returns_wc = false
                      /\ well_ordered post_solve = true.
Proof. vm_compute. repeat split. Qed.

(** ... and the rejected program indeed reads the duals of the second solve *)
Lemma moved_assign_reads_second_solve :
  out (exec (cfg_of (Some "trace") "dual" int2) moved_assign init) = Returned (VDualObjective (Some (Some 2))).
Proof. vm_compute. reflexivity. Qed.
