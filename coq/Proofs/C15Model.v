(** C15 — structural lemmas about Model/Blocks.v: closed form of a decomposition, histories of
    get_block calls with the ghost record of who was decomposed when, the invariant they preserve
    (freshness of the allocated leaves), idempotence, the one-block case, and the exact index form of
    the generated constraint list. *)
From Coq Require Import List QArith Reals Qreals Lra Bool Arith Lia.
From PV Require Import Base.IPS Model.Dict Model.Terms Model.Blocks Spec.Sem
                       Proofs.DictLemmas Proofs.SemLemmas.
Import ListNotations.
Local Open Scope R_scope.

(** * Histories *)

(** An op of a history of ONE partition: a [get_block] call (object identity, the object's
    dictionary at the time of the call, block number), or a leaf point created elsewhere (which
    advances Point.counter). *)
Inductive op : Type :=
| OGet (obj : objid) (pd : pdict) (k : nat)
| OLeaf.

Definition step (st : pstate) (o : op) : pstate :=
  match o with
  | OGet obj pd k => snd (get_block st obj pd k)
  | OLeaf => mkP (bp_d st) (S (bp_next st)) (bp_blocks st)
  end.

Definition run (st : pstate) (ops : list op) : pstate := fold_left step ops st.

Definition decomposed (o : objid) (st : pstate) : bool :=
  match find_blocks o (bp_blocks st) with Some _ => true | None => false end.

(** Ghost record of a decomposition: which object, with which dictionary, and the value of
    Point.counter at that moment (= id of its first fresh leaf). *)
Record entry : Type := mkE { e_obj : objid; e_pd : pdict; e_n : nat }.

Definition gstep (st : pstate) (g : list entry) (o : op) : list entry :=
  match o with
  | OGet obj pd k => if decomposed obj st then g else g ++ [mkE obj pd (bp_next st)]
  | OLeaf => g
  end.

Fixpoint trace (st : pstate) (g : list entry) (ops : list op) : pstate * list entry :=
  match ops with
  | [] => (st, g)
  | o :: r => trace (step st o) (gstep st g o) r
  end.

(** What is assumed of the dictionaries handed to get_block: unique keys, and every leaf they
    mention already exists (its id is below the current Point.counter). *)
Definition op_ok (st : pstate) (o : op) : Prop :=
  match o with
  | OGet obj pd k => pND pd /\ (forall x, In x (keys pd) -> (x < bp_next st)%nat)
  | OLeaf => True
  end.

Fixpoint ok (st : pstate) (ops : list op) : Prop :=
  match ops with
  | [] => True
  | o :: r => op_ok st o /\ ok (step st o) r
  end.

(** * Closed form of one decomposition *)

Definition acc_step (a : pdict) (i : nat) : pdict := p_add a (leaf_dict i).
(** [accumulation] after the loop that created leaves n, n+1, ..., n+m-1 *)
Definition acc_of (n m : nat) : pdict := fold_left acc_step (seq n m) null_dict.
(** the d block dictionaries of a point decomposed when Point.counter was n *)
Definition dblocks (d n : nat) (pd : pdict) : list pdict :=
  map leaf_dict (seq n (d - 1)) ++ [p_sub pd (acc_of n (d - 1))].
Definition blocks_of (d : nat) (e : entry) : list pdict := dblocks d (e_n e) (e_pd e).
Definition leaves_of (d : nat) (e : entry) : list nat := seq (e_n e) (d - 1).

Lemma fresh_loop_spec m : forall next acc part,
  fresh_loop m next acc part
  = ((next + m)%nat, fold_left acc_step (seq next m) acc, part ++ map leaf_dict (seq next m)).
Proof.
  induction m as [|m IH]; intros next acc part; cbn [fresh_loop seq fold_left map].
  - rewrite Nat.add_0_r, app_nil_r. reflexivity.
  - rewrite IH, <- app_assoc. cbn [app]. unfold acc_step at 2.
    replace (S next + m)%nat with (next + S m)%nat by lia. reflexivity.
Qed.

Lemma decompose_spec d n pd : decompose d n pd = ((n + (d - 1))%nat, dblocks d n pd).
Proof. unfold decompose. rewrite fresh_loop_spec. reflexivity. Qed.

Lemma length_dblocks d n pd : (1 <= d)%nat -> length (dblocks d n pd) = d.
Proof. intros H. unfold dblocks. rewrite app_length, map_length, seq_length. cbn. lia. Qed.

Lemma nth_dblocks_leaf d n pd k : (k < d - 1)%nat -> nth k (dblocks d n pd) [] = leaf_dict (n + k).
Proof.
  intros H. unfold dblocks. rewrite app_nth1 by (rewrite map_length, seq_length; exact H).
  rewrite (nth_indep _ [] (leaf_dict 0)) by (rewrite map_length, seq_length; exact H).
  rewrite map_nth, seq_nth by exact H. reflexivity.
Qed.

Lemma nth_dblocks_last d n pd : nth (d - 1) (dblocks d n pd) [] = p_sub pd (acc_of n (d - 1)).
Proof.
  unfold dblocks. rewrite app_nth2 by (rewrite map_length, seq_length; lia).
  rewrite map_length, seq_length, Nat.sub_diag. reflexivity.
Qed.

(** * find_blocks and get_block *)

Lemma find_blocks_app_Some o l1 l2 bl :
  find_blocks o l1 = Some bl -> find_blocks o (l1 ++ l2) = Some bl.
Proof.
  induction l1 as [|[o' b'] l1 IH]; cbn; [discriminate|]. destruct (Nat.eqb o o'); auto.
Qed.

Lemma find_blocks_app_None o l1 l2 :
  find_blocks o l1 = None -> find_blocks o (l1 ++ l2) = find_blocks o l2.
Proof.
  induction l1 as [|[o' b'] l1 IH]; cbn; [reflexivity|]. destruct (Nat.eqb o o'); [discriminate|auto].
Qed.

Lemma find_blocks_None o l : find_blocks o l = None <-> ~ In o (map fst l).
Proof.
  induction l as [|[o' b'] l IH]; cbn; [tauto|].
  destruct (Nat.eqb_spec o o') as [->|Hne].
  - split; [discriminate|intros H; exfalso; apply H; left; reflexivity].
  - rewrite IH. split; intros H; [intros [H1|H1]; [congruence|tauto]|tauto].
Qed.

Lemma find_blocks_In o bl l : NoDup (map fst l) -> In (o, bl) l -> find_blocks o l = Some bl.
Proof.
  induction l as [|[o' b'] l IH]; cbn; [tauto|]. intros Hnd [H|H].
  - injection H as -> ->. rewrite Nat.eqb_refl. reflexivity.
  - inversion Hnd as [|? ? Hni Hnd']; subst. destruct (Nat.eqb_spec o o') as [->|Hne]; [|auto].
    exfalso. apply Hni. apply in_map_iff. exists (o', bl); auto.
Qed.

Lemma find_blocks_Some_In o bl l : find_blocks o l = Some bl -> In (o, bl) l.
Proof.
  induction l as [|[o' b'] l IH]; cbn; [discriminate|].
  destruct (Nat.eqb_spec o o') as [->|Hne]; [intros [= ->]; left; reflexivity|right; auto].
Qed.

Lemma get_block_old st obj pd k bl :
  find_blocks obj (bp_blocks st) = Some bl -> get_block st obj pd k = (nth k bl [], st).
Proof. intros H. unfold get_block. rewrite H. reflexivity. Qed.

Lemma get_block_new st obj pd k :
  find_blocks obj (bp_blocks st) = None ->
  get_block st obj pd k
  = (nth k (dblocks (bp_d st) (bp_next st) pd) [],
     mkP (bp_d st) (bp_next st + (bp_d st - 1)) (bp_blocks st ++ [(obj, dblocks (bp_d st) (bp_next st) pd)])).
Proof. intros H. unfold get_block. rewrite H, decompose_spec. reflexivity. Qed.

Lemma find_after_get st obj pd k :
  exists bl, find_blocks obj (bp_blocks (snd (get_block st obj pd k))) = Some bl
             /\ fst (get_block st obj pd k) = nth k bl [].
Proof.
  destruct (find_blocks obj (bp_blocks st)) as [bl|] eqn:Hf.
  - exists bl. rewrite (get_block_old _ _ _ _ _ Hf). cbn. auto.
  - rewrite (get_block_new _ _ _ _ Hf). cbn [fst snd bp_blocks]. eexists. split; [|reflexivity].
    rewrite find_blocks_app_None by exact Hf. cbn. rewrite Nat.eqb_refl. reflexivity.
Qed.

(** Once decomposed, an object keeps its blocks for ever. *)
Lemma step_stable st o obj bl :
  find_blocks obj (bp_blocks st) = Some bl -> find_blocks obj (bp_blocks (step st o)) = Some bl.
Proof.
  intros H. destruct o as [obj' pd k|]; cbn [step]; [|exact H].
  destruct (find_blocks obj' (bp_blocks st)) as [bl'|] eqn:Hf.
  - rewrite (get_block_old _ _ _ _ _ Hf). exact H.
  - rewrite (get_block_new _ _ _ _ Hf). cbn [snd bp_blocks]. apply find_blocks_app_Some, H.
Qed.

Lemma run_stable ops : forall st obj bl,
  find_blocks obj (bp_blocks st) = Some bl -> find_blocks obj (bp_blocks (run st ops)) = Some bl.
Proof.
  induction ops as [|o ops IH]; intros st obj bl H; cbn; [exact H|]. apply IH, step_stable, H.
Qed.

Lemma step_d st o : bp_d (step st o) = bp_d st.
Proof.
  destruct o as [obj pd k|]; cbn [step]; [|reflexivity].
  destruct (find_blocks obj (bp_blocks st)) as [bl|] eqn:Hf.
  - rewrite (get_block_old _ _ _ _ _ Hf). reflexivity.
  - rewrite (get_block_new _ _ _ _ Hf). reflexivity.
Qed.

(** Asking again — immediately or after any further history, with any block number and whatever the
    object's dictionary has become — returns the stored blocks and leaves the state (in particular
    Point.counter) untouched. *)
Lemma idempotent st obj pd k :
  exists bl,
    find_blocks obj (bp_blocks (snd (get_block st obj pd k))) = Some bl
    /\ fst (get_block st obj pd k) = nth k bl []
    /\ forall ops pd' k',
         let st2 := run (snd (get_block st obj pd k)) ops in
         get_block st2 obj pd' k' = (nth k' bl [], st2).
Proof.
  destruct (find_after_get st obj pd k) as [bl [H1 H2]]. exists bl. split; [exact H1|]. split; [exact H2|].
  intros ops pd' k'. cbv zeta. apply get_block_old, run_stable, H1.
Qed.

(** * Keys and weighted sums of the block dictionaries *)

Lemma keys_p_add a b x : In x (keys (p_add a b)) -> In x (keys a) \/ In x (keys b).
Proof.
  unfold p_add, prune, pmerge, merge, keys. intros H.
  apply in_map_iff in H as [[k v] [Hk H]]. cbn in Hk; subst k.
  apply filter_In in H as [H _]. apply in_app_or in H as [H|H].
  - left. apply in_map_iff in H as [[k' v'] [Heq Hin]].
    destruct (lookup Nat.eqb k' b); injection Heq as <- _; apply in_map_iff; exists (k', v'); auto.
  - right. apply filter_In in H as [H _]. apply in_map_iff. exists (x, v); auto.
Qed.

Lemma keys_p_sub a b x : In x (keys (p_sub a b)) -> In x (keys a) \/ In x (keys b).
Proof.
  unfold p_sub. intros H. apply keys_p_add in H as [H|H]; [left; exact H|right].
  unfold p_neg, p_scal in H. rewrite keys_scale in H. exact H.
Qed.

Lemma pND_leaf i : pND (leaf_dict i).
Proof. unfold NoDupKeys, leaf_dict; cbn. constructor; [tauto|constructor]. Qed.

Lemma keys_leaf i x : In x (keys (leaf_dict i)) <-> x = i.
Proof. unfold leaf_dict; cbn. split; [intros [H|[]]; auto|intros ->; auto]. Qed.

Lemma acc_fold_pND l : forall acc, pND acc -> pND (fold_left acc_step l acc).
Proof.
  induction l as [|i l IH]; intros acc H; cbn [fold_left]; [exact H|].
  apply IH. apply pND_add; [exact H|apply pND_leaf].
Qed.

Lemma acc_fold_keys l : forall acc x,
  In x (keys (fold_left acc_step l acc)) -> In x (keys acc) \/ In x l.
Proof.
  induction l as [|i l IH]; intros acc x H; cbn [fold_left] in H; [left; exact H|].
  apply IH in H as [H|H]; [|right; right; exact H].
  apply keys_p_add in H as [H|H]; [left; exact H|right; left]. apply keys_leaf in H. auto.
Qed.

Lemma pND_acc n m : pND (acc_of n m).
Proof. apply acc_fold_pND. constructor. Qed.

Lemma keys_acc n m x : In x (keys (acc_of n m)) -> (n <= x < n + m)%nat.
Proof. intros H. apply acc_fold_keys in H as [[]|H]. apply in_seq in H. exact H. Qed.

Lemma pND_dblocks d n pd b : pND pd -> In b (dblocks d n pd) -> pND b.
Proof.
  intros Hpd H. unfold dblocks in H. apply in_app_or in H as [H|[<-|[]]].
  - apply in_map_iff in H as [i [<- _]]. apply pND_leaf.
  - apply pND_sub; [exact Hpd|apply pND_acc].
Qed.

(** every key of every block is a key of the point or one of the fresh leaves *)
Lemma keys_dblocks d n pd b x :
  In b (dblocks d n pd) -> In x (keys b) -> In x (keys pd) \/ (n <= x < n + (d - 1))%nat.
Proof.
  intros H Hx. unfold dblocks in H. apply in_app_or in H as [H|[<-|[]]].
  - apply in_map_iff in H as [i [<- Hi]]. apply keys_leaf in Hx. subst x. apply in_seq in Hi. right; exact Hi.
  - apply keys_p_sub in Hx as [Hx|Hx]; [left; exact Hx|right; apply keys_acc, Hx].
Qed.

Fixpoint lsum (l : list R) : R := match l with [] => 0 | x :: l' => x + lsum l' end.

Lemma lsum_app l1 l2 : lsum (l1 ++ l2) = lsum l1 + lsum l2.
Proof. induction l1 as [|x l1 IH]; cbn; [lra|rewrite IH; lra]. Qed.

Section Sums.
  Variable val : nat -> R.
  Notation ds := (dsum nat val).

  Lemma ds_p_add a b : pND a -> pND b -> ds (p_add a b) = ds a + ds b.
  Proof.
    intros Ha Hb. unfold p_add, pmerge. rewrite dsum_prune.
    apply (dsum_merge nat Nat.eqb nat_eqb_spec); assumption.
  Qed.

  Lemma ds_p_sub a b : pND a -> pND b -> ds (p_sub a b) = ds a - ds b.
  Proof.
    intros Ha Hb. unfold p_sub. rewrite ds_p_add by (try apply pND_neg; assumption).
    unfold p_neg, p_scal. rewrite dsum_scale, Q2R_m1. lra.
  Qed.

  Lemma ds_leaf i : ds (leaf_dict i) = val i.
  Proof. unfold leaf_dict. cbn [dsum]. rewrite Q2R_1. lra. Qed.

  Lemma ds_acc_fold l : forall acc, pND acc ->
    ds (fold_left acc_step l acc) = ds acc + lsum (map val l).
  Proof.
    induction l as [|i l IH]; intros acc H; cbn [fold_left map lsum]; [lra|].
    rewrite IH by (apply pND_add; [exact H|apply pND_leaf]).
    unfold acc_step. rewrite ds_p_add, ds_leaf by (exact H || apply pND_leaf). lra.
  Qed.

  Lemma ds_acc n m : ds (acc_of n m) = lsum (map val (seq n m)).
  Proof. unfold acc_of. rewrite ds_acc_fold by constructor. cbn. lra. Qed.

  (** the weighted sums of the d blocks add up to the weighted sum of the point *)
  Lemma ds_dblocks d n pd : pND pd -> lsum (map ds (dblocks d n pd)) = ds pd.
  Proof.
    intros H. unfold dblocks. rewrite map_app, lsum_app, map_map. cbn [map lsum].
    rewrite ds_p_sub, ds_acc by (exact H || apply pND_acc).
    rewrite (map_ext _ val) by (intro; apply ds_leaf). lra.
  Qed.
End Sums.

(** * The invariant of every history *)

Record Inv (d : nat) (st : pstate) (g : list entry) : Prop := {
  inv_d : bp_d st = d;
  inv_blocks : bp_blocks st = map (fun e => (e_obj e, blocks_of d e)) g;
  inv_nodup : NoDup (map e_obj g);
  inv_pd : forall e, In e g ->
           pND (e_pd e) /\ (forall x, In x (keys (e_pd e)) -> (x < e_n e)%nat)
           /\ (e_n e + (d - 1) <= bp_next st)%nat;
  inv_leaves : NoDup (flat_map (leaves_of d) g)
}.

Lemma Inv_init d n0 : Inv d (init_partition d n0) [].
Proof. constructor; cbn; try constructor; tauto. Qed.

Lemma map_fst_blocks d g : map fst (map (fun e => (e_obj e, blocks_of d e)) g) = map e_obj g.
Proof. rewrite map_map. reflexivity. Qed.

Lemma NoDup_snoc_block (l : list nat) n m :
  NoDup l -> (forall x, In x l -> (x < n)%nat) -> NoDup (l ++ seq n m).
Proof.
  intros Hl Hlt. induction l as [|a l IH]; cbn; [apply seq_NoDup|].
  inversion Hl as [|? ? Hn Hl']; subst. constructor.
  - intros Hin. apply in_app_or in Hin as [Hin|Hin]; [tauto|].
    apply in_seq in Hin. specialize (Hlt a (or_introl eq_refl)). lia.
  - apply IH; [exact Hl'|]. intros x Hx. apply Hlt. right; exact Hx.
Qed.

Lemma Inv_step d st g o : Inv d st g -> op_ok st o -> Inv d (step st o) (gstep st g o).
Proof.
  intros I Hok. destruct o as [obj pd k|]; cbn [step gstep].
  - unfold decomposed. destruct (find_blocks obj (bp_blocks st)) as [bl|] eqn:Hf.
    + rewrite (get_block_old _ _ _ _ _ Hf). exact I.
    + rewrite (get_block_new _ _ _ _ Hf). cbn [snd]. destruct Hok as [Hnd Hlt].
      destruct I as [Id Ib In_ Ip Il]. constructor; cbn [bp_d bp_next bp_blocks].
      * exact Id.
      * rewrite Ib, map_app, Id. reflexivity.
      * rewrite map_app. cbn [map e_obj].
        apply find_blocks_None in Hf. rewrite Ib, map_fst_blocks in Hf.
        clear -In_ Hf. induction (map e_obj g) as [|a l IH]; cbn.
        -- constructor; [tauto|constructor].
        -- inversion In_; subst. constructor.
           ++ intros H. apply in_app_or in H as [H|[H|[]]]; [tauto|]. apply Hf. left; auto.
           ++ apply IH; [assumption|]. intros H; apply Hf; right; exact H.
      * intros e He. apply in_app_or in He as [He|[<-|[]]].
        -- destruct (Ip e He) as (A & B & C). repeat split; try assumption. lia.
        -- cbn [e_pd e_n]. repeat split; try assumption. lia.
      * rewrite flat_map_app. cbn [flat_map]. rewrite app_nil_r. unfold leaves_of at 2. cbn [e_n].
        apply NoDup_snoc_block; [exact Il|]. intros x Hx. apply in_flat_map in Hx as [e [He Hx]].
        unfold leaves_of in Hx. apply in_seq in Hx. destruct (Ip e He) as (_ & _ & C). lia.
  - destruct I as [Id Ib In_ Ip Il]. constructor; cbn [bp_d bp_next bp_blocks]; try assumption.
    intros e He. destruct (Ip e He) as (A & B & C). repeat split; try assumption. lia.
Qed.

(** Induction principle over histories: a predicate of (state, ghost) that holds initially and is
    preserved by every admissible step (the invariant being available) holds after every history. *)
Lemma trace_ind_from (Q : pstate -> list entry -> Prop) d :
  (forall st g o, Inv d st g -> Q st g -> op_ok st o -> Q (step st o) (gstep st g o)) ->
  forall ops st g, Inv d st g -> Q st g -> ok st ops ->
    Inv d (fst (trace st g ops)) (snd (trace st g ops))
    /\ Q (fst (trace st g ops)) (snd (trace st g ops)).
Proof.
  intros Hstep. induction ops as [|o ops IH]; intros st g I HQ Hok; cbn [trace].
  - cbn. auto.
  - destruct Hok as [Ho Hr]. apply IH; [apply Inv_step; assumption|apply Hstep; assumption|exact Hr].
Qed.

Lemma trace_Inv d n0 ops :
  ok (init_partition d n0) ops ->
  Inv d (fst (trace (init_partition d n0) [] ops)) (snd (trace (init_partition d n0) [] ops)).
Proof.
  intros H. apply (trace_ind_from (fun _ _ => True) d); auto using Inv_init.
Qed.

Lemma trace_run ops : forall st g, fst (trace st g ops) = run st ops.
Proof. induction ops as [|o ops IH]; intros; cbn; [reflexivity|apply IH]. Qed.

(** Consequences of the invariant. *)
Lemma Inv_find d st g e : Inv d st g -> In e g -> find_blocks (e_obj e) (bp_blocks st) = Some (blocks_of d e).
Proof.
  intros I He. apply find_blocks_In.
  - rewrite (inv_blocks _ _ _ I), map_fst_blocks. apply (inv_nodup _ _ _ I).
  - rewrite (inv_blocks _ _ _ I). apply in_map_iff. exists e; auto.
Qed.

Lemma Inv_vals d st g : Inv d st g -> map snd (bp_blocks st) = map (blocks_of d) g.
Proof. intros I. rewrite (inv_blocks _ _ _ I), map_map. reflexivity. Qed.

(** freshness: every key of every stored block is below Point.counter; the leaves allocated for an
    object are not keys of its dictionary. *)
Lemma Inv_keys_lt d st g e b x :
  Inv d st g -> In e g -> In b (blocks_of d e) -> In x (keys b) -> (x < bp_next st)%nat.
Proof.
  intros I He Hb Hx. destruct (inv_pd _ _ _ I e He) as (_ & B & C).
  apply (keys_dblocks _ _ _ _ _ Hb) in Hx as [Hx|Hx]; [specialize (B x Hx)|]; lia.
Qed.

Lemma Inv_fresh d st g e x :
  Inv d st g -> In e g -> In x (leaves_of d e) -> ~ In x (keys (e_pd e)).
Proof.
  intros I He Hx Hk. destruct (inv_pd _ _ _ I e He) as (_ & B & _).
  apply in_seq in Hx. specialize (B x Hk). lia.
Qed.

Lemma NoDup_flat_map_disjoint {A B} (f : A -> list B) l a1 a2 x :
  NoDup (flat_map f l) -> In a1 l -> In a2 l -> In x (f a1) -> In x (f a2) -> a1 = a2.
Proof.
  induction l as [|a l IH]; cbn; [tauto|]. intros Hnd H1 H2 Hx1 Hx2.
  assert (Hsplit : NoDup (f a) /\ NoDup (flat_map f l) /\ forall y, In y (f a) -> ~ In y (flat_map f l)).
  { clear -Hnd. induction (f a) as [|b fa IHf]; cbn in *.
    - repeat split; [constructor|exact Hnd|tauto].
    - inversion Hnd as [|? ? Hn Hnd']; subst. destruct (IHf Hnd') as (A1 & A2 & A3).
      repeat split; [constructor; [intros H; apply Hn, in_or_app; auto|exact A1]|exact A2|].
      intros y [<-|Hy]; [intros H; apply Hn, in_or_app; auto|apply A3, Hy]. }
  destruct Hsplit as (_ & Hl & Hdis).
  destruct H1 as [<-|H1], H2 as [<-|H2].
  - reflexivity.
  - exfalso. apply (Hdis x Hx1). apply in_flat_map. exists a2; auto.
  - exfalso. apply (Hdis x Hx2). apply in_flat_map. exists a1; auto.
  - apply IH; assumption.
Qed.

(** distinct decomposed objects never share a leaf *)
Lemma Inv_disjoint d st g e1 e2 x :
  Inv d st g -> In e1 g -> In e2 g -> In x (leaves_of d e1) -> In x (leaves_of d e2) -> e1 = e2.
Proof. intros I. apply NoDup_flat_map_disjoint, (inv_leaves _ _ _ I). Qed.

(** * The one-block partition *)

Lemma p_sub_null pd : p_sub pd null_dict = prune pd.
Proof.
  unfold p_sub, p_neg, p_scal, p_add, pmerge, merge, null_dict. cbn [scale map filter].
  rewrite app_nil_r. f_equal. induction pd as [|[k v] pd IH]; cbn [map lookup]; [reflexivity|].
  f_equal. exact IH.
Qed.

Lemma dblocks_one n pd : dblocks 1 n pd = [prune pd].
Proof. unfold dblocks, acc_of. cbn. rewrite p_sub_null. reflexivity. Qed.

Lemma prune_idem (pd : pdict) : prune (prune pd) = prune pd.
Proof.
  unfold prune. induction pd as [|[k v] pd IH]; cbn; [reflexivity|].
  destruct (nonzero v) eqn:Hv; cbn; [rewrite Hv, IH; reflexivity|exact IH].
Qed.

Lemma flat_map_nil {A B} (f : A -> list B) l : (forall a, f a = []) -> flat_map f l = [].
Proof. intros H. induction l as [|a l IH]; cbn; [reflexivity|rewrite H, IH; reflexivity]. Qed.

Lemma constraints_one st : bp_d st = 1%nat -> partition_constraints st = [].
Proof.
  intros H. unfold partition_constraints. rewrite H. apply flat_map_nil. intros xi.
  apply flat_map_nil. intros xj. reflexivity.
Qed.

Lemma one_block st obj pd k :
  bp_d st = 1%nat -> find_blocks obj (bp_blocks st) = None ->
  get_block st obj pd k
  = (nth k [prune pd] [], mkP 1 (bp_next st) (bp_blocks st ++ [(obj, [prune pd])])).
Proof.
  intros Hd Hf. rewrite (get_block_new _ _ _ _ Hf), Hd, dblocks_one. cbn. rewrite Nat.add_0_r. reflexivity.
Qed.

(** * The generated list, by indices *)

(** all (k, l) with l < k < d, in the order of the two inner loops *)
Definition tri (d : nat) : list (nat * nat) := flat_map (fun k => map (pair k) (seq 0 k)) (seq 0 d).
(** all ((i, j), (k, l)) in the order of the four loops *)
Definition idx4 (m d : nat) : list ((nat * nat) * (nat * nat)) :=
  list_prod (list_prod (seq 0 m) (seq 0 m)) (tri d).

Definition blk (st : pstate) (i k : nat) : pdict := nth k (nth i (map snd (bp_blocks st)) []) [].
Definition cons_at (st : pstate) (q : (nat * nat) * (nat * nat)) : edict * sense :=
  let '((i, j), (k, l)) := q in block_constraint (blk st i k) (blk st j l).

Lemma In_tri d k l : In (k, l) (tri d) <-> (k < d /\ l < k)%nat.
Proof.
  unfold tri. rewrite in_flat_map. split.
  - intros [k' [Hk' H]]. apply in_map_iff in H as [l' [Heq Hl']]. injection Heq as -> ->.
    apply in_seq in Hk', Hl'. lia.
  - intros [Hk Hl]. exists k. split; [apply in_seq; lia|]. apply in_map_iff. exists l. split; [reflexivity|].
    apply in_seq; lia.
Qed.

Lemma In_idx4 m d i j k l :
  In ((i, j), (k, l)) (idx4 m d) <-> (i < m /\ j < m /\ k < d /\ l < k)%nat.
Proof.
  unfold idx4. rewrite !in_prod_iff, In_tri, !in_seq. lia.
Qed.

Lemma NoDup_map_pair {A B} (a : A) (l : list B) : NoDup l -> NoDup (map (pair a) l).
Proof.
  induction l as [|b l IH]; cbn; intros H; [constructor|]. inversion H as [|? ? Hn H']; subst.
  constructor; [|auto]. intros Hin. apply in_map_iff in Hin as [b' [Heq Hb']]. injection Heq as ->. tauto.
Qed.

Lemma NoDup_pairs {A B} (f : A -> list B) (l : list A) :
  NoDup l -> (forall a, NoDup (f a)) -> NoDup (flat_map (fun a => map (pair a) (f a)) l).
Proof.
  induction l as [|a l IH]; cbn; intros Hl Hf; [constructor|]. inversion Hl as [|? ? Hn Hl']; subst.
  assert (G : forall (l1 l2 : list (A * B)), NoDup l1 -> NoDup l2 ->
               (forall x, In x l1 -> ~ In x l2) -> NoDup (l1 ++ l2)).
  { clear. induction l1 as [|x l1 IH1]; cbn; intros l2 H1 H2 H; [exact H2|].
    inversion H1; subst. constructor.
    - intros Hin. apply in_app_or in Hin as [Hin|Hin]; [tauto|]. apply (H x); auto.
    - apply IH1; auto. }
  apply G; [apply NoDup_map_pair, Hf|apply IH; assumption|].
  intros [a' b'] H1 H2. apply in_map_iff in H1 as [b'' [Heq _]]. injection Heq as <- _.
  apply in_flat_map in H2 as [a'' [Ha'' H2]]. apply in_map_iff in H2 as [b3 [Heq _]].
  injection Heq as -> _. tauto.
Qed.

Lemma list_prod_flat {A B} (l : list A) (l' : list B) :
  list_prod l l' = flat_map (fun a => map (pair a) l') l.
Proof. induction l as [|a l IH]; cbn; [reflexivity|rewrite IH; reflexivity]. Qed.

Lemma NoDup_list_prod {A B} (l : list A) (l' : list B) : NoDup l -> NoDup l' -> NoDup (list_prod l l').
Proof. intros H H'. rewrite list_prod_flat. apply NoDup_pairs; auto. Qed.

Lemma NoDup_tri d : NoDup (tri d).
Proof. unfold tri. apply NoDup_pairs; [apply seq_NoDup|intro; apply seq_NoDup]. Qed.

Lemma NoDup_idx4 m d : NoDup (idx4 m d).
Proof. unfold idx4. auto using NoDup_list_prod, seq_NoDup, NoDup_tri. Qed.

Lemma length_tri d : (2 * length (tri d) = d * (d - 1))%nat.
Proof.
  unfold tri. induction d as [|d IH]; [reflexivity|].
  rewrite seq_S, flat_map_app, app_length. cbn [flat_map plus]. rewrite app_nil_r, map_length, seq_length.
  destruct d; cbn in *; lia.
Qed.

Lemma length_idx4 m d : (2 * length (idx4 m d) = m * m * (d * (d - 1)))%nat.
Proof. unfold idx4. rewrite !prod_length, !seq_length. pose proof (length_tri d). nia. Qed.

Lemma flat_map_flat_map {A B C} (f : B -> list C) (g : A -> list B) l :
  flat_map f (flat_map g l) = flat_map (fun a => flat_map f (g a)) l.
Proof. induction l as [|a l IH]; cbn; [reflexivity|rewrite flat_map_app, IH; reflexivity]. Qed.

Lemma flat_map_map' {A B C} (f : B -> list C) (g : A -> B) l :
  flat_map f (map g l) = flat_map (fun a => f (g a)) l.
Proof. induction l as [|a l IH]; cbn; [reflexivity|rewrite IH; reflexivity]. Qed.

Lemma map_flat_map {A B C} (f : B -> C) (g : A -> list B) l :
  map f (flat_map g l) = flat_map (fun a => map f (g a)) l.
Proof. induction l as [|a l IH]; cbn; [reflexivity|rewrite map_app, IH; reflexivity]. Qed.

Lemma flat_map_nth {A B} (f : A -> list B) (dflt : A) l :
  flat_map f l = flat_map (fun i => f (nth i l dflt)) (seq 0 (length l)).
Proof.
  induction l as [|a l IH]; cbn [length seq flat_map nth]; [reflexivity|].
  rewrite <- seq_shift, flat_map_map'. cbn [nth]. rewrite <- IH. reflexivity.
Qed.

(** [partition_constraints] is, in this order and each index once, the list of
    [xi[k] * xj[l] == 0] over all (i, j, k, l) with i, j decomposed objects and l < k < d. *)
Lemma constraints_by_index st :
  partition_constraints st = map (cons_at st) (idx4 (length (bp_blocks st)) (bp_d st)).
Proof.
  unfold partition_constraints, idx4, tri. set (vals := map snd (bp_blocks st)).
  assert (Hlen : length (bp_blocks st) = length vals) by (unfold vals; rewrite map_length; reflexivity).
  rewrite Hlen. rewrite !list_prod_flat, flat_map_flat_map, map_flat_map.
  rewrite (flat_map_nth _ [] vals). apply flat_map_ext. intros i.
  rewrite flat_map_map', map_flat_map. rewrite (flat_map_nth _ [] vals). apply flat_map_ext. intros j.
  rewrite map_map, map_flat_map. apply flat_map_ext. intros k. rewrite map_map. reflexivity.
Qed.

Lemma In_constraints st c :
  In c (partition_constraints st) <->
  exists xi xj k l, In xi (map snd (bp_blocks st)) /\ In xj (map snd (bp_blocks st))
                    /\ (k < bp_d st)%nat /\ (l < k)%nat
                    /\ c = block_constraint (nth k xi []) (nth l xj []).
Proof.
  unfold partition_constraints. rewrite in_flat_map. split.
  - intros [xi [Hi H]]. apply in_flat_map in H as [xj [Hj H]]. apply in_flat_map in H as [k [Hk H]].
    apply in_map_iff in H as [l [<- Hl]]. apply in_seq in Hk, Hl. exists xi, xj, k, l. repeat split; auto; lia.
  - intros (xi & xj & k & l & Hi & Hj & Hk & Hl & ->). exists xi. split; [exact Hi|].
    apply in_flat_map. exists xj. split; [exact Hj|]. apply in_flat_map. exists k. split; [apply in_seq; lia|].
    apply in_map_iff. exists l. split; [reflexivity|apply in_seq; lia].
Qed.
