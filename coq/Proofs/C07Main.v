(** C07, part 4: every op preserves the invariant under the side conditions [op_scoped] /\ [op_guard];
    hence the invariant holds after EVERY op sequence accepted by [ops_ok] (induction on the list). *)
From Coq Require Import List QArith Reals Qreals Lra Bool Arith Lia Permutation.
From PV Require Import Base.IPS Model.Dict Model.Terms Model.Func Spec.Sem
  Proofs.DictLemmas Proofs.SemLemmas Proofs.C07Dict Proofs.C07Inv Proofs.C07Ops.
Import ListNotations.
Local Open Scope R_scope.

(** ** reflection of the boolean side conditions *)
Lemma nodup_by_spec {A} (eqb : A -> A -> bool) (Heq : forall a b, reflect (a = b) (eqb a b)) l :
  nodup_by eqb l = true -> NoDup l.
Proof.
  induction l as [|a l IH]; cbn; [constructor|].
  intros H. apply andb_true_iff in H as [H1 H2]. constructor; [|auto].
  intros Hin. apply negb_true_iff in H1.
  assert (existsb (eqb a) l = true); [|congruence].
  apply existsb_exists. exists a. split; [exact Hin|]. destruct (Heq a a); [reflexivity|congruence].
Qed.

Lemma pwf_b_spec s d :
  pwf_b s d = true -> pND d /\ (forall k, In k (keys d) -> (k < pt_ctr s)%nat).
Proof.
  unfold pwf_b. intros H. apply andb_true_iff in H as [H1 H2]. split.
  - apply (nodup_by_spec Nat.eqb nat_eqb_spec). exact H1.
  - intros k Hk. rewrite forallb_forall in H2. apply Nat.ltb_lt. apply H2. exact Hk.
Qed.

Lemma wfq_of_bools s p : pwf_b s p = true -> allnz_b p = true -> wfq s p.
Proof. intros H1 H2. destruct (pwf_b_spec s p H1). split; [|split]; auto. Qed.

Lemma in_range_spec s f : in_range s f = true -> (f < nfun s)%nat.
Proof. unfold in_range. apply Nat.ltb_lt. Qed.

(** ** appending a new function *)
Lemma getf_app_old s r j a b : (j < nfun s)%nat -> getf (mkS a b (funs s ++ [r])) j = getf s j.
Proof. intros H. unfold getf. cbn. apply app_nth1. exact H. Qed.

Lemma getf_app_new s r a b : getf (mkS a b (funs s ++ [r])) (nfun s) = r.
Proof. unfold getf, nfun. cbn. rewrite app_nth2 by lia. rewrite Nat.sub_diag. reflexivity. Qed.

Lemma forallb_keys_ext (p p' : nat -> bool) (W : wdict) :
  (forall k q, In (k, q) W -> p k = p' k) ->
  forallb (fun '(k, _) => p k) W = forallb (fun '(k, _) => p' k) W.
Proof.
  induction W as [|[k q] W IH]; intros H; cbn; [reflexivity|].
  rewrite (H k q) by (left; reflexivity). rewrite IH; [reflexivity|].
  intros k' q' Hin. apply (H k' q'). right. exact Hin.
Qed.

Lemma inv_append s r :
  inv s -> f_pts r = [] -> f_stat r = [] ->
  (f_leaf r = true -> f_w r = [(nfun s, 1%Q)]) ->
  (f_leaf r = false ->
     pND (f_w r) /\ f_w r <> [] /\ allnz nat (f_w r) = true /\
     (forall k q, In (k, q) (f_w r) -> (k < nfun s)%nat /\ f_leaf (getf s k) = true) /\
     (f_reuse r = true -> forallb (fun '(k, _) => f_reuse (getf s k)) (f_w r) = true)) ->
  inv (mkS (pt_ctr s) (ex_ctr s) (funs s ++ [r])).
Proof.
  intros Hinv Hp Hst Hleaf Hcomp.
  set (s' := mkS (pt_ctr s) (ex_ctr s) (funs s ++ [r])).
  assert (Hn : nfun s' = S (nfun s)) by (unfold nfun, s'; cbn; rewrite app_length; cbn; lia).
  assert (Hold : forall j, (j < nfun s)%nat -> getf s' j = getf s j) by (intros; apply getf_app_old; assumption).
  assert (Hnew : getf s' (nfun s) = r) by apply getf_app_new.
  assert (Hcase : forall i, (i < nfun s')%nat -> (i < nfun s)%nat \/ i = nfun s) by (intros; lia).
  destruct Hinv as [H1 H2 H3 H4 H5 H6 H7 H8].
  split.
  - intros i Hi. destruct (Hcase i Hi) as [Ho| ->].
    + rewrite (Hold i Ho). auto.
    + rewrite Hnew. exact Hleaf.
  - intros i Hi. destruct (Hcase i Hi) as [Ho| ->].
    + rewrite (Hold i Ho). intros Hl. destruct (H2 i Ho Hl) as (A & B & C & D).
      repeat split; auto; destruct (D k q H) as [Hk Hkl]; [lia|rewrite (Hold k Hk); exact Hkl].
    + rewrite Hnew. intros Hl. destruct (Hcomp Hl) as (A & B & C & D & _).
      repeat split; auto; destruct (D k q H) as [Hk Hkl]; [lia|rewrite (Hold k Hk); exact Hkl].
  - intros i t Hi. destruct (Hcase i Hi) as [Ho| ->].
    + rewrite (Hold i Ho). intros Ht. exact (H3 i t Ho Ht).
    + rewrite Hnew, Hp. intros [].
  - intros i t Hi. destruct (Hcase i Hi) as [Ho| ->].
    + rewrite (Hold i Ho). apply H4, Ho.
    + rewrite Hnew, Hst. intros [].
  - intros i t1 t2 Hi. destruct (Hcase i Hi) as [Ho| ->].
    + rewrite (Hold i Ho). apply H5, Ho.
    + rewrite Hnew, Hp. intros [].
  - intros i t1 t2 Hi. destruct (Hcase i Hi) as [Ho| ->].
    + rewrite (Hold i Ho). apply H6, Ho.
    + rewrite Hnew, Hp. intros _ [].
  - intros i t Hi. destruct (Hcase i Hi) as [Ho| ->].
    + rewrite (Hold i Ho). intros Hl Ht. right.
      destruct (H7 i t Ho Hl Ht) as [[]|(ch & Hc & Hs)]. exists ch. split; [|exact Hs].
      intros k q Hin. destruct (H2 i Ho Hl) as (_ & _ & _ & D). destruct (D k q Hin) as [Hk _].
      rewrite (Hold k Hk). apply (Hc k q Hin).
    + rewrite Hnew, Hp. intros _ [].
  - intros i Hi. destruct (Hcase i Hi) as [Ho| ->].
    + rewrite (Hold i Ho). intros Hl Hr. rewrite <- (H8 i Ho Hl Hr). apply forallb_keys_ext.
      intros k q Hin. destruct (H2 i Ho Hl) as (_ & _ & _ & D). destruct (D k q Hin) as [Hk _].
      rewrite (Hold k Hk). reflexivity.
    + rewrite Hnew. intros Hl Hr. destruct (Hcomp Hl) as (_ & _ & _ & D & E). rewrite <- (E Hr).
      apply forallb_keys_ext.
      intros k q Hin. destruct (D k q Hin) as [Hk _]. rewrite (Hold k Hk). reflexivity.
Qed.

(** ** weights of an operator-built composite *)
Lemma keys_merge_in (a b : wdict) k :
  In k (keys (merge Nat.eqb a b)) <-> In k (keys a) \/ In k (keys b).
Proof.
  unfold merge, keys. rewrite map_app, in_app_iff, map_map.
  assert (Hk : map (fun x => fst (let '(k0, v) := x in
                 match lookup Nat.eqb k0 b with Some v2 => (k0, (v + v2)%Q) | None => (k0, v) end)) a = map fst a).
  { apply map_ext. intros [k0 v]. destruct (lookup Nat.eqb k0 b); reflexivity. }
  rewrite Hk. split.
  - intros [H|H]; [left; exact H|]. right. apply in_map_iff in H as [[k0 v] [<- H]].
    apply filter_In in H as [H _]. apply in_map_iff. exists (k0, v); auto.
  - intros [H|H]; [left; exact H|].
    destruct (mem Nat.eqb k a) eqn:Hm.
    + left. apply (mem_true nat Nat.eqb nat_eqb_spec) in Hm. exact Hm.
    + right. apply in_map_iff in H as [[k0 v] [<- H]]. apply in_map_iff. exists (k0, v). split; [reflexivity|].
      apply filter_In. split; [exact H|]. cbn in Hm. rewrite Hm. reflexivity.
Qed.

Lemma forallb_mem_equiv {A} (p : A -> bool) l1 l2 :
  (forall a, In a l1 <-> In a l2) -> forallb p l1 = forallb p l2.
Proof.
  intros H. destruct (forallb p l1) eqn:H1, (forallb p l2) eqn:H2; try reflexivity.
  - rewrite forallb_forall in H1. assert (forallb p l2 = true); [|congruence].
    apply forallb_forall. intros a Ha. apply H1, H, Ha.
  - rewrite forallb_forall in H2. assert (forallb p l1 = true); [|congruence].
    apply forallb_forall. intros a Ha. apply H2, H, Ha.
Qed.

Lemma forallb_pairs_keys (p : nat -> bool) (W : wdict) :
  forallb (fun '(k, _) => p k) W = forallb p (keys W).
Proof. induction W as [|[k q] W IH]; cbn; [reflexivity|rewrite IH; reflexivity]. Qed.

Section Combine.
  Variable s : state.
  Hypothesis Hinv : inv s.

  Definition term_ok (fq : fid * Q) : Prop := (fst fq < nfun s)%nat.

  (** weights of an operand: distinct leaves; if the operand is declared differentiable, so are they *)
  Lemma term_weights f :
    (f < nfun s)%nat ->
    pND (f_w (getf s f)) /\
    (forall k, In k (keys (f_w (getf s f))) ->
       (k < nfun s)%nat /\ f_leaf (getf s k) = true /\ (f_reuse (getf s f) = true -> f_reuse (getf s k) = true)).
  Proof.
    intros Hf. destruct (f_leaf (getf s f)) eqn:Hl.
    - rewrite (ig_leafw noP s Hinv f Hf Hl). split; [apply pND_single|].
      intros k [<-|[]]. auto.
    - destruct (ig_compw noP s Hinv f Hf Hl) as (A & _ & _ & D). split; [exact A|].
      intros k Hk. apply key_lookup with (keqb := Nat.eqb) in Hk; [|exact nat_eqb_spec].
      destruct Hk as [q Hq]. apply (lookup_Some_In nat Nat.eqb nat_eqb_spec) in Hq.
      destruct (D k q Hq) as [Hk Hkl]. split; [exact Hk|]. split; [exact Hkl|].
      intros Hr. pose proof (ig_I6 noP s Hinv f Hf Hl Hr) as H6. rewrite forallb_forall in H6.
      apply (H6 (k, q) Hq).
  Qed.

  Definition wprop (terms : list (fid * Q)) (W : wdict) : Prop :=
    pND W /\
    forall k, In k (keys W) ->
      (k < nfun s)%nat /\ f_leaf (getf s k) = true /\
      (forallb (fun '(f, _) => f_reuse (getf s f)) terms = true -> f_reuse (getf s k) = true).

  Lemma combine_fold rest : forall acc (seen : list (fid * Q)),
    Forall term_ok rest -> wprop seen acc ->
    wprop (seen ++ rest)
          (fold_left (fun acc '(f, q) => prune (merge Nat.eqb acc (scale q (f_w (getf s f))))) rest acc).
  Proof.
    induction rest as [|[f q] rest IH]; intros acc seen Hok Hacc; cbn [fold_left].
    - rewrite app_nil_r. exact Hacc.
    - inversion Hok as [|? ? Hf Hok']; subst. unfold term_ok in Hf; cbn in Hf.
      destruct (term_weights f Hf) as (Nf & Kf). destruct Hacc as (Na & Ka).
      replace (seen ++ (f, q) :: rest) with ((seen ++ [(f, q)]) ++ rest) by (rewrite <- app_assoc; reflexivity).
      apply IH; [exact Hok'|]. split.
      + apply NoDupKeys_prune. apply (NoDupKeys_merge nat Nat.eqb nat_eqb_spec); [exact Na|apply NoDupKeys_scale, Nf].
      + intros k Hin. apply (keys_prune_incl nat) in Hin. apply keys_merge_in in Hin.
        rewrite forallb_app. cbn [forallb]. destruct Hin as [Hin|Hin].
        * destruct (Ka k Hin) as (A & B & C). split; [exact A|]. split; [exact B|].
          intros H. apply andb_true_iff in H as [H _]. apply C, H.
        * rewrite keys_scale in Hin. destruct (Kf k Hin) as (A & B & C). split; [exact A|]. split; [exact B|].
          intros H. apply andb_true_iff in H as [_ H]. apply andb_true_iff in H as [H _]. apply C, H.
  Qed.

  Lemma combine_weights_prop terms :
    Forall term_ok terms -> wprop terms (combine_weights s terms).
  Proof.
    intros Hok. destruct terms as [|[f0 q0] rest]; cbn [combine_weights].
    - split; [apply pND_nil|intros k []].
    - inversion Hok as [|? ? Hf Hok']; subst. unfold term_ok in Hf; cbn in Hf.
      destruct (term_weights f0 Hf) as (Nf & Kf).
      apply (combine_fold rest (scale q0 (f_w (getf s f0))) [(f0, q0)] Hok').
      split; [apply NoDupKeys_scale, Nf|].
      intros k Hin. rewrite keys_scale in Hin. destruct (Kf k Hin) as (A & B & C).
      split; [exact A|]. split; [exact B|]. cbn [forallb]. intros H. apply andb_true_iff in H as [H _]. apply C, H.
  Qed.
End Combine.

(** ** the user-level [add_point] on a point that is new for the function and its terms *)
Lemma add_point_fresh_inv s f x g v :
  inv s -> (f < nfun s)%nat -> pND x -> pND g -> eND v ->
  (forall k, In k (keys x) -> (k < pt_ctr s)%nat) ->
  find_pt (f_pts (getf s f)) (prune x) = None ->
  (forall i q, In (i, q) (f_w (getf s f)) -> find_pt (f_pts (getf s i)) (prune x) = None) ->
  inv (add_point s f (x, g, v)).
Proof.
  intros Hinv Hf Nx Ng Nv Hk Hnone Hterms. unfold add_point.
  destruct (f_leaf (getf s f)) eqn:Hl.
  - apply record_inv; auto.
    + intros t0 Ht0 He. rewrite find_pt_None in Hnone. rewrite (Hnone t0 Ht0) in He. discriminate.
    + rewrite Hl. discriminate.
  - apply comp_add_point_inv; auto.
    intros Hev. exfalso.
    destruct (ig_compw noP s Hinv f Hf Hl) as (_ & Wne & _).
    destruct (f_w (getf s f)) as [|[i q] W] eqn:HW; [congruence|].
    specialize (Hev i q (or_introl eq_refl)). apply evald_true in Hev.
    apply Hev, (Hterms i q). left. reflexivity.
Qed.

Lemma no_sample_at_fresh s j :
  inv s -> (j < nfun s)%nat -> find_pt (f_pts (getf s j)) [(pt_ctr s, 1%Q)] = None.
Proof.
  intros Hinv Hj. apply find_pt_None. intros t Ht.
  destruct (ig_samples noP s Hinv j t Hj Ht) as (_ & _ & _ & _ & Hk).
  apply fresh_no_match. exact Hk.
Qed.

Lemma prune_fresh (n : nat) : prune [(n, 1%Q)] = [(n, 1%Q)].
Proof. reflexivity. Qed.

Lemma add_point_new_leaf_point_inv s f a b g v :
  inv s -> (f < nfun s)%nat -> (pt_ctr s < a)%nat -> pND g -> eND v ->
  inv (add_point (mkS a b (funs s)) f ([(pt_ctr s, 1%Q)], g, v)).
Proof.
  intros Hinv Hf Ha Ng Nv.
  apply add_point_fresh_inv; auto.
  - apply inv_bump; [exact Hinv|lia].
  - apply pND_single.
  - intros k [<-|[]]. cbn. lia.
  - rewrite prune_fresh. apply (no_sample_at_fresh s f Hinv Hf).
  - intros i q Hin. rewrite prune_fresh. change (getf (mkS a b (funs s))) with (getf s) in *.
    destruct (f_leaf (getf s f)) eqn:Hl.
    + rewrite (ig_leafw noP s Hinv f Hf Hl) in Hin. destruct Hin as [[= <- _]|[]].
      apply (no_sample_at_fresh s f Hinv Hf).
    + destruct (ig_compw noP s Hinv f Hf Hl) as (_ & _ & _ & D). destruct (D i q Hin) as [Hi _].
      apply (no_sample_at_fresh s i Hinv Hi).
Qed.

(** ** every op *)
Lemma oracle_inv s f p :
  inv s -> (f < nfun s)%nat -> wfq s p -> inv (fst (oracle s f p)).
Proof.
  intros Hinv Hf Hq. unfold oracle. destruct (f_leaf (getf s f)) eqn:Hl.
  - apply leaf_oracle_inv; assumption.
  - apply comp_oracle_inv; assumption.
Qed.

Lemma value_inv s f p :
  inv s -> (f < nfun s)%nat -> wfq s p -> inv (fst (value s f p)).
Proof.
  intros Hinv Hf Hq. unfold value. destruct (find_pt (f_pts (getf s f)) p) as [[g v]|]; [exact Hinv|].
  pose proof (oracle_inv s f p Hinv Hf Hq) as H. destruct (oracle s f p) as [s' [g v]]. exact H.
Qed.

Lemma init_inv : inv init.
Proof. split; cbn; intros; lia. Qed.

Lemma step_inv s o :
  inv s -> op_scoped s o = true -> op_guard s o = true -> inv (step s o).
Proof.
  intros Hinv Hsc Hg. unfold step. destruct o as [| |reuse|terms|w reuse|f p|f p|f p|f|f|f x g v]; cbn [step_ret op_scoped op_guard] in *.
  - cbn. apply inv_bump; [exact Hinv|lia].
  - cbn. apply inv_bump; [exact Hinv|lia].
  - cbn [fst]. apply inv_append; cbn; auto. discriminate.
  - cbn [fst]. apply andb_true_iff in Hsc as [Hr _]. apply andb_true_iff in Hg as [Hnz Hne].
    assert (Hok : Forall (term_ok s) terms).
    { apply Forall_forall. intros [f q] Hin. rewrite forallb_forall in Hr.
      apply in_range_spec. apply (Hr (f, q) Hin). }
    destruct (combine_weights_prop s Hinv terms Hok) as (A & B).
    apply inv_append; cbn [f_pts f_stat f_leaf f_w f_reuse]; auto; [discriminate|].
    intros _. split; [exact A|]. split.
    { intros Hc. rewrite Hc in Hne. discriminate. }
    split; [exact Hnz|]. split.
    + intros k q Hin. destruct (B k (In_keys nat k q _ Hin)) as (B1 & B2 & _). auto.
    + intros Hre. apply forallb_forall. intros [k q] Hin.
      destruct (B k (In_keys nat k q _ Hin)) as (_ & _ & B3). apply B3. exact Hre.
  - cbn [fst]. apply andb_true_iff in Hsc as [Hsc Hre]. apply andb_true_iff in Hsc as [Hnd Hlf].
    apply andb_true_iff in Hg as [Hnz Hne].
    apply inv_append; cbn [f_pts f_stat f_leaf f_w f_reuse]; auto; [discriminate|].
    intros _. split; [apply (nodup_by_spec Nat.eqb nat_eqb_spec), Hnd|]. split.
    { intros Hc. rewrite Hc in Hne. discriminate. }
    split; [exact Hnz|]. split.
    + intros k q Hin. rewrite forallb_forall in Hlf. specialize (Hlf (k, q) Hin). cbn in Hlf.
      apply andb_true_iff in Hlf as [H1 H2]. apply in_range_spec in H1. auto.
    + intros Hr. rewrite Hr in Hre. exact Hre.
  - apply andb_true_iff in Hsc as [Hr Hp]. apply in_range_spec in Hr.
    pose proof (oracle_inv s f (pt p) Hinv Hr (wfq_of_bools s (pt p) Hp Hg)) as H.
    destruct (oracle s f (pt p)) as [s' [g v]]. exact H.
  - apply andb_true_iff in Hsc as [Hr Hp]. apply in_range_spec in Hr.
    pose proof (oracle_inv s f (pt p) Hinv Hr (wfq_of_bools s (pt p) Hp Hg)) as H.
    destruct (oracle s f (pt p)) as [s' [g v]]. exact H.
  - apply andb_true_iff in Hsc as [Hr Hp]. apply in_range_spec in Hr.
    pose proof (value_inv s f (pt p) Hinv Hr (wfq_of_bools s (pt p) Hp Hg)) as H.
    destruct (value s f (pt p)) as [s' v]. exact H.
  - apply in_range_spec in Hsc. cbn [fresh_pt fresh_ex fst pt_ctr ex_ctr funs].
    apply add_point_new_leaf_point_inv; auto; [apply pND_nil|apply eND_single].
  - apply in_range_spec in Hsc. cbn [fresh_pt fresh_ex fst pt_ctr ex_ctr funs].
    apply add_point_new_leaf_point_inv; auto; [apply pND_single|apply eND_single].
  - cbn [fst]. repeat (apply andb_true_iff in Hsc as [Hsc ?]).
    apply in_range_spec in Hsc. destruct (pwf_b_spec s (pt x) H2) as [Nx Hk].
    unfold fresh_for in H. apply andb_true_iff in H as [Hn Ht].
    apply add_point_fresh_inv; auto.
    + apply (nodup_by_spec Nat.eqb nat_eqb_spec). exact H1.
    + apply (nodup_by_spec ekey_eqb ekey_eqb_spec). exact H0.
    + destruct (find_pt (f_pts (getf s f)) (prune (pt x))); [discriminate|reflexivity].
    + intros i q Hin. rewrite forallb_forall in Ht. specialize (Ht (i, q) Hin). cbn in Ht.
      destruct (find_pt (f_pts (getf s i)) (prune (pt x))); [discriminate|reflexivity].
Qed.

Theorem run_inv : forall ops s, inv s -> run_ok s ops = true -> inv (fold_left step ops s).
Proof.
  induction ops as [|o ops IH]; intros s Hinv Hok; cbn [fold_left]; [exact Hinv|].
  cbn [run_ok] in Hok. apply andb_true_iff in Hok as [Hok Hrest]. apply andb_true_iff in Hok as [Hsc Hg].
  apply IH; [apply step_inv; assumption|exact Hrest].
Qed.

Theorem inv_partial : forall ops, ops_ok ops = true -> inv (run ops).
Proof. intros ops H. apply run_inv; [apply init_inv|exact H]. Qed.
