(** C08 x C07: the primitive steps on LEAF AND COMPOSITE functions (interpreter Model/StepsFunc.v).

    A. every bookkeeping instruction of a step program is one op of C07's op language, with C07's side
       conditions ([exec_s_is_func_op]); hence every step program (any program of the step language, in
       particular the 8 generated ones with all their options) preserves C07's invariant under the guard
       [ok_prog] evaluated along the execution ([exec_inv], [run_inv_steps]): the proof applies C07's per-op
       preservation lemmas ([oracle_inv], [value_inv], [add_point_fresh_inv], [inv_bump] = the cases of
       [C07_inv_step]) instruction by instruction.
    B. what the step records on a composite is the weighted sum of samples recorded on its terms at that point
       ([addpoint_composite_weighted_sum], [oracle_composite_weighted_sum], [run_composite_samples]).
    C. on LEAF functions the interpreter agrees with Model/StepsRT.v: same returned tuple, same environment
       (argument objects after the call), same counters, same samples and side constraints on every leaf
       ([exec_s_agree] for instructions, [run_agree] for whole programs). *)
From Coq Require Import List QArith Reals Qreals Lra Bool Arith Lia String.
From PV Require Import Base.IPS Model.Dict Model.Terms Model.StepsRT Model.Func Model.StepsFunc Spec.Sem
  Proofs.DictLemmas Proofs.SemLemmas Proofs.C07Dict Proofs.C07Inv Proofs.C07Ops Proofs.C07Main Proofs.C07Thm.
Import ListNotations.
Local Open Scope R_scope.

Definition st_of (es : env * fstate) : Func.state := fst (snd es).

(** ** A. the invariant *)
Lemma exec_s_inv a i es :
  inv (st_of es) -> guard_s a i es = true ->
  match StepsFunc.exec_s a i es with
  | inl es' => inv (st_of es')
  | inr (_, es') => inv (st_of es')
  end.
Proof.
  destruct es as [e [s cs]]. unfold st_of. cbn [fst snd]. intros Hinv Hg.
  destruct i as [v|v|f p g fx|f p fx|v t|v t|c t|c fmt|f x g fx|f c]; cbn [StepsFunc.exec_s guard_s] in *.
  - cbn. apply inv_bump; [exact Hinv|lia].
  - cbn. apply inv_bump; [exact Hinv|lia].
  - apply andb_true_iff in Hg as [Hg Hnz]. apply andb_true_iff in Hg as [Hr Hp]. apply in_range_spec in Hr.
    pose proof (oracle_inv s (a_fun a f) (e_p e p) Hinv Hr (wfq_of_bools s _ Hp Hnz)) as H.
    destruct (Func.oracle s (a_fun a f) (e_p e p)) as [s' [gd vd]]. exact H.
  - apply andb_true_iff in Hg as [Hg Hnz]. apply andb_true_iff in Hg as [Hr Hp]. apply in_range_spec in Hr.
    pose proof (value_inv s (a_fun a f) (e_p e p) Hinv Hr (wfq_of_bools s _ Hp Hnz)) as H.
    destruct (Func.value s (a_fun a f) (e_p e p)) as [s' vd]. exact H.
  - destruct (pdefb (a_scal a) t); exact Hinv.
  - destruct (xdefb (a_scal a) t); exact Hinv.
  - destruct (cdefb (a_scal a) t); exact Hinv.
  - exact Hinv.
  - cbn [fst snd].
    apply andb_true_iff in Hg as [Hg Hfr]. apply andb_true_iff in Hg as [Hg Hnv].
    apply andb_true_iff in Hg as [Hg Hng]. apply andb_true_iff in Hg as [Hr Hp].
    apply in_range_spec in Hr. destruct (pwf_b_spec s _ Hp) as [Nx Hk].
    unfold fresh_for in Hfr. apply andb_true_iff in Hfr as [Hn Ht].
    apply add_point_fresh_inv; auto.
    + apply (nodup_by_spec Nat.eqb nat_eqb_spec). exact Hng.
    + apply (nodup_by_spec ekey_eqb ekey_eqb_spec). exact Hnv.
    + destruct (find_pt (f_pts (getf s (a_fun a f))) (prune (e_p e x))); [discriminate|reflexivity].
    + intros i q Hin. rewrite forallb_forall in Ht. specialize (Ht (i, q) Hin). cbn in Ht.
      destruct (find_pt (f_pts (getf s i)) (prune (e_p e x))); [discriminate|reflexivity].
  - exact Hinv.
Qed.

Lemma exec_body_inv a body : forall es,
  inv (st_of es) -> ok_body a body es = true ->
  match StepsFunc.exec_body a body es with
  | inl es' => inv (st_of es')
  | inr (_, es') => inv (st_of es')
  end.
Proof.
  induction body as [|i body IH]; intros es Hinv Hok; cbn [StepsFunc.exec_body ok_body] in *; [exact Hinv|].
  apply andb_true_iff in Hok as [Hg Hok].
  pose proof (exec_s_inv a i es Hinv Hg) as H.
  destruct (StepsFunc.exec_s a i es) as [es'|[exn es']]; [|exact H].
  apply IH; assumption.
Qed.

Lemma exec_loop_inv a d body : forall ds es,
  inv (st_of es) -> ok_loop a d body ds es = true ->
  match StepsFunc.exec_loop a d body ds es with
  | inl es' => inv (st_of es')
  | inr (_, es') => inv (st_of es')
  end.
Proof.
  induction ds as [|dv ds IH]; intros es Hinv Hok; cbn [StepsFunc.exec_loop ok_loop] in *; [exact Hinv|].
  apply andb_true_iff in Hok as [Hb Hok].
  pose proof (exec_body_inv a body (setp d dv (fst es), snd es) Hinv Hb) as H.
  destruct (StepsFunc.exec_body a body (setp d dv (fst es), snd es)) as [es'|[exn es']]; [|exact H].
  apply IH; assumption.
Qed.

Lemma exec_inv a prog : forall es,
  inv (st_of es) -> ok_exec a prog es = true -> inv (st_of (snd (StepsFunc.exec a prog es))).
Proof.
  induction prog as [|[i|d body|l|exn] prog IH]; intros es Hinv Hok; cbn [StepsFunc.exec ok_exec] in *;
    try exact Hinv.
  - apply andb_true_iff in Hok as [Hg Hok].
    pose proof (exec_s_inv a i es Hinv Hg) as H.
    destruct (StepsFunc.exec_s a i es) as [es'|[exn es']]; [|exact H].
    apply IH; assumption.
  - apply andb_true_iff in Hok as [Hg Hok].
    pose proof (exec_loop_inv a d body (a_dirs a) es Hinv Hg) as H.
    destruct (StepsFunc.exec_loop a d body (a_dirs a) es) as [es'|[exn es']]; [|exact H].
    apply IH; assumption.
Qed.

(** every step program, on any function (leaf or composite) of a state that satisfies C07's invariant *)
Theorem run_inv_steps (prog : program) (a : args) (s : Func.state) (cs : clog) :
  inv s -> ok_prog prog a (s, cs) = true -> inv (run_state prog a (s, cs)).
Proof. intros Hinv Hok. apply (exec_inv a prog (init_env a, (s, cs)) Hinv Hok). Qed.

(** after an accepted op sequence of C07 (functions built, evaluated, ... in any order) *)
Theorem run_inv_steps_after_ops (ops : list op) (prog : program) (a : args) (cs : clog) :
  ops_ok ops = true -> ok_prog prog a (Func.run ops, cs) = true -> inv (run_state prog a (Func.run ops, cs)).
Proof. intros Hops. apply run_inv_steps. apply inv_partial. exact Hops. Qed.

(** ** every bookkeeping instruction is an op of C07's op language, with its side conditions *)
Definition op_of (a : args) (tp : nat -> pterm) (e : env) (i : sinstr) : option op :=
  match i with
  | FreshPoint _ => Some NewPoint
  | FreshExpr _ => Some NewExpr
  | StepsRT.Oracle f p _ _ => Some (Func.Oracle (a_fun a f) (tp p))
  | StepsRT.Value f p _ => Some (Func.Value (a_fun a f) (tp p))
  | StepsRT.AddPoint f x g fx => Some (Func.AddPoint (a_fun a f) (tp x) (tp g) (e_x e fx))
  | _ => None
  end.

Lemma exec_s_is_func_op a tp i e s cs :
  (forall v, e_p e v = pt (tp v)) ->
  match op_of a tp e i with
  | Some o =>
      (exists e', StepsFunc.exec_s a i (e, (s, cs)) = inl (e', (Func.step s o, cs))) /\
      guard_s a i (e, (s, cs)) = op_scoped s o && op_guard s o
  | None =>
      guard_s a i (e, (s, cs)) = true /\
      match StepsFunc.exec_s a i (e, (s, cs)) with
      | inl (_, (s', _)) => s' = s
      | inr (_, (_, (s', _))) => s' = s
      end
  end.
Proof.
  intros He.
  destruct i as [v|v|f p g fx|f p fx|v t|v t|c t|c fmt|f x g fx|f c];
    cbn [op_of StepsFunc.exec_s guard_s op_scoped op_guard].
  - split; [eexists; reflexivity|reflexivity].
  - split; [eexists; reflexivity|reflexivity].
  - rewrite He. split; [|reflexivity]. unfold Func.step. cbn [step_ret].
    destruct (Func.oracle s (a_fun a f) (pt (tp p))) as [s' [gd vd]]. eexists; reflexivity.
  - rewrite He. split; [|reflexivity]. unfold Func.step. cbn [step_ret].
    destruct (Func.value s (a_fun a f) (pt (tp p))) as [s' vd]. eexists; reflexivity.
  - split; [reflexivity|]. destruct (pdefb (a_scal a) t); reflexivity.
  - split; [reflexivity|]. destruct (xdefb (a_scal a) t); reflexivity.
  - split; [reflexivity|]. destruct (cdefb (a_scal a) t); reflexivity.
  - split; reflexivity.
  - rewrite !He. split; [eexists; reflexivity|]. rewrite andb_true_r. reflexivity.
  - split; reflexivity.
Qed.

(** ** the table of functions keeps its shape: no function is created, leaves stay leaves *)
Definition shape (s s' : Func.state) : Prop :=
  nfun s' = nfun s /\ forall j, f_leaf (getf s' j) = f_leaf (getf s j).

Lemma shape_refl s : shape s s.
Proof. split; auto. Qed.

Lemma shape_trans s1 s2 s3 : shape s1 s2 -> shape s2 s3 -> shape s1 s3.
Proof. intros [A1 A2] [B1 B2]. split; [congruence|]. intros j. rewrite B2. apply A2. Qed.

Lemma shape_setf s i (f : Func.frec -> Func.frec) :
  (forall r, f_leaf (f r) = f_leaf r) -> shape s (setf s i f).
Proof.
  intros Hf. split; [apply nfun_setf|]. intros j.
  destruct (Nat.eq_dec i j) as [<-|Hne]; [|rewrite getf_setf_neq by exact Hne; reflexivity].
  destruct (Nat.lt_ge_cases i (nfun s)) as [Hlt|Hge].
  - rewrite getf_setf_eq by exact Hlt. apply Hf.
  - unfold setf, getf. cbn. rewrite upd_out by exact Hge. reflexivity.
Qed.

Lemma shape_record s i t : shape s (record s i t).
Proof. split; [apply nfun_record|]. intros j. apply flags_record. Qed.

Lemma shape_ctr s a b : shape s (mkS a b (funs s)).
Proof. split; reflexivity. Qed.

Lemma shape_leaf_oracle s i x : shape s (fst (leaf_oracle s i x)).
Proof.
  unfold leaf_oracle. destruct (find_pt (f_pts (getf s i)) x) as [[g0 v0]|].
  - destruct (f_reuse (getf s i)); cbn [fst fresh_pt]; [apply shape_refl|].
    eapply shape_trans; [apply (shape_ctr s)|apply shape_record].
  - cbn [fst fresh_pt fresh_ex]. eapply shape_trans; [apply (shape_ctr s)|apply shape_record].
Qed.

Lemma shape_leaf_value s i x : shape s (fst (leaf_value s i x)).
Proof.
  unfold leaf_value. destruct (find_pt (f_pts (getf s i)) x) as [[g0 v0]|]; [apply shape_refl|].
  pose proof (shape_leaf_oracle s i x) as H. destruct (leaf_oracle s i x) as [s' [g v]]. exact H.
Qed.

Lemma shape_distribute x : forall l s G V b, shape s (distribute s x G V b l).
Proof.
  induction l as [|[i q] l IH]; intros s G V b; cbn [distribute]; [apply shape_refl|].
  destruct b as [|b].
  - eapply shape_trans; [apply shape_record|apply IH].
  - pose proof (shape_leaf_oracle s i x) as H. destruct (leaf_oracle s i x) as [s' [g v]].
    eapply shape_trans; [exact H|apply IH].
Qed.

Lemma shape_comp_add_point s F t : shape s (comp_add_point s F t).
Proof.
  destruct t as [[x g] v]. unfold comp_add_point. cbn [pruned_sample].
  set (s1 := record s F (x, g, v)).
  set (s2 := setf s1 F (fun r => mkF (f_leaf r) (f_reuse r) (prune (f_w r)) (f_pts r) (f_stat r))).
  assert (H2 : shape s s2).
  { eapply shape_trans; [apply shape_record|]. apply shape_setf. reflexivity. }
  destruct (classify s2 (f_w (getf s2 F)) (prune x)) as [[n go] gv].
  destruct (is_nil (go ++ gv)); [exact H2|]. eapply shape_trans; [exact H2|apply shape_distribute].
Qed.

Lemma shape_add_point s f t : shape s (Func.add_point s f t).
Proof. unfold Func.add_point. destruct (f_leaf (getf s f)); [apply shape_record|apply shape_comp_add_point]. Qed.

Lemma shape_sum_values x : forall W s acc, shape s (fst (sum_values s W x acc)).
Proof.
  induction W as [|[i q] W IH]; intros s acc; cbn [sum_values]; [apply shape_refl|].
  pose proof (shape_leaf_value s i x) as H. destruct (leaf_value s i x) as [s' v].
  eapply shape_trans; [exact H|apply IH].
Qed.

Lemma shape_sum_grads x : forall W s acc, shape s (fst (sum_grads s W x acc)).
Proof.
  induction W as [|[i q] W IH]; intros s acc; cbn [sum_grads]; [apply shape_refl|].
  pose proof (shape_leaf_oracle s i x) as H. destruct (leaf_oracle s i x) as [s' [g v]].
  eapply shape_trans; [exact H|apply IH].
Qed.

Lemma shape_co_body s F x assoc : shape s (fst (co_body s F x assoc)).
Proof.
  unfold co_body. set (W := f_w (getf s F)).
  destruct (classify s W x) as [[n go] gvl].
  assert (H1 : shape s (fst (match assoc with
                             | Some (_, v0) => (s, v0)
                             | None => if is_nil gvl then sum_values s W x []
                                       else let '(v', s') := fresh_ex s in (s', v')
                             end))).
  { destruct assoc as [[g0 v0]|]; [apply shape_refl|].
    destruct (is_nil gvl); [apply shape_sum_values|cbn; apply shape_ctr]. }
  destruct (match assoc with
            | Some (_, v0) => (s, v0)
            | None => if is_nil gvl then sum_values s W x []
                      else let '(v', s') := fresh_ex s in (s', v')
            end) as [s1 v]. cbn [fst] in H1.
  assert (H2 : shape s1 (fst (if is_nil gvl && is_nil go then sum_grads s1 W x []
                              else let '(g', s') := fresh_pt s1 in (s', g')))).
  { destruct (is_nil gvl && is_nil go); [apply shape_sum_grads|cbn; apply shape_ctr]. }
  destruct (if is_nil gvl && is_nil go then sum_grads s1 W x []
            else let '(g', s') := fresh_pt s1 in (s', g')) as [s2 g]. cbn [fst] in *.
  eapply shape_trans; [exact H1|]. eapply shape_trans; [exact H2|apply shape_comp_add_point].
Qed.

Lemma comp_oracle_unfold s F x :
  comp_oracle s F x =
  match find_pt (f_pts (getf s F)) x, f_reuse (getf s F) with
  | Some gv, true => (s, gv)
  | a, _ => co_body s F x a
  end.
Proof.
  unfold comp_oracle, co_body. cbv zeta.
  destruct (find_pt (f_pts (getf s F)) x) as [[g0 v0]|]; destruct (f_reuse (getf s F)); reflexivity.
Qed.

Lemma shape_comp_oracle s F x : shape s (fst (comp_oracle s F x)).
Proof.
  rewrite comp_oracle_unfold.
  destruct (find_pt (f_pts (getf s F)) x) as [[g0 v0]|]; destruct (f_reuse (getf s F));
    try apply shape_refl; apply shape_co_body.
Qed.

Lemma shape_oracle s f x : shape s (fst (Func.oracle s f x)).
Proof. unfold Func.oracle. destruct (f_leaf (getf s f)); [apply shape_leaf_oracle|apply shape_comp_oracle]. Qed.

Lemma shape_value s f x : shape s (fst (Func.value s f x)).
Proof.
  unfold Func.value. destruct (find_pt (f_pts (getf s f)) x) as [[g0 v0]|]; [apply shape_refl|].
  pose proof (shape_oracle s f x) as H. destruct (Func.oracle s f x) as [s' [g v]]. exact H.
Qed.

Lemma exec_s_shape a i es :
  match StepsFunc.exec_s a i es with
  | inl es' => shape (st_of es) (st_of es')
  | inr (_, es') => shape (st_of es) (st_of es')
  end.
Proof.
  destruct es as [e [s cs]]. unfold st_of. cbn [fst snd].
  destruct i as [v|v|f p g fx|f p fx|v t|v t|c t|c fmt|f x g fx|f c]; cbn [StepsFunc.exec_s].
  - cbn. apply shape_ctr.
  - cbn. apply shape_ctr.
  - pose proof (shape_oracle s (a_fun a f) (e_p e p)) as H.
    destruct (Func.oracle s (a_fun a f) (e_p e p)) as [s' [gd vd]]. exact H.
  - pose proof (shape_value s (a_fun a f) (e_p e p)) as H.
    destruct (Func.value s (a_fun a f) (e_p e p)) as [s' vd]. exact H.
  - destruct (pdefb (a_scal a) t); apply shape_refl.
  - destruct (xdefb (a_scal a) t); apply shape_refl.
  - destruct (cdefb (a_scal a) t); apply shape_refl.
  - apply shape_refl.
  - cbn [fst snd]. apply shape_add_point.
  - apply shape_refl.
Qed.

Lemma exec_body_shape a body : forall es,
  match StepsFunc.exec_body a body es with
  | inl es' => shape (st_of es) (st_of es')
  | inr (_, es') => shape (st_of es) (st_of es')
  end.
Proof.
  induction body as [|i body IH]; intros es; cbn [StepsFunc.exec_body]; [apply shape_refl|].
  pose proof (exec_s_shape a i es) as H.
  destruct (StepsFunc.exec_s a i es) as [es'|[exn es']]; [|exact H].
  specialize (IH es'). destruct (StepsFunc.exec_body a body es') as [es''|[exn es'']];
    eapply shape_trans; eauto.
Qed.

Lemma exec_loop_shape a d body : forall ds es,
  match StepsFunc.exec_loop a d body ds es with
  | inl es' => shape (st_of es) (st_of es')
  | inr (_, es') => shape (st_of es) (st_of es')
  end.
Proof.
  induction ds as [|dv ds IH]; intros es; cbn [StepsFunc.exec_loop]; [apply shape_refl|].
  pose proof (exec_body_shape a body (setp d dv (fst es), snd es)) as H.
  change (st_of (setp d dv (fst es), snd es)) with (st_of es) in H.
  destruct (StepsFunc.exec_body a body (setp d dv (fst es), snd es)) as [es'|[exn es']]; [|exact H].
  specialize (IH es'). destruct (StepsFunc.exec_loop a d body ds es') as [es''|[exn es'']];
    eapply shape_trans; eauto.
Qed.

Lemma exec_shape a prog : forall es, shape (st_of es) (st_of (snd (StepsFunc.exec a prog es))).
Proof.
  induction prog as [|[i|d body|l|exn] prog IH]; intros es; cbn [StepsFunc.exec]; try apply shape_refl.
  - pose proof (exec_s_shape a i es) as H.
    destruct (StepsFunc.exec_s a i es) as [es'|[exn es']]; [|exact H].
    eapply shape_trans; [exact H|apply IH].
  - pose proof (exec_loop_shape a d body (a_dirs a) es) as H.
    destruct (StepsFunc.exec_loop a d body (a_dirs a) es) as [es'|[exn es']]; [|exact H].
    eapply shape_trans; [exact H|apply IH].
Qed.

Theorem run_shape prog a s cs : shape s (run_state prog a (s, cs)).
Proof. apply (exec_shape a prog (init_env a, (s, cs))). Qed.

(** ** B. what a step records on a composite is the weighted sum of samples of its terms at that point *)

(** [t], a sample of [F], is the [F]-weighted sum of samples recorded for the terms of [F] at the point of
    [t] (as dictionaries: [dict_eqb]), in every inner-product space, under every valuation of the leaves
    (the conclusion of [C07_composite_sample_is_weighted_sum]) *)
Definition weighted_sum_at (s : Func.state) (F : nat) (t : Func.sample) : Prop :=
  exists ch : nat -> Func.sample,
    (forall i q, In (i, q) (f_w (getf s F)) ->
       In (ch i) (f_pts (getf s i)) /\ dict_eqb Nat.eqb (xof (ch i)) (xof t) = true) /\
    forall (E : ips) (rho : nat -> E) (phi : nat -> R),
      veq (evalP rho (gof t)) (wlin rho (f_w (getf s F)) (fun i => gof (ch i))) /\
      evalE rho phi (vof t) = wsum rho phi (f_w (getf s F)) (fun i => vof (ch i)).

Lemma add_point_records s F x g v :
  (F < nfun s)%nat -> In (prune x, prune g, prune v) (f_pts (getf (Func.add_point s F (x, g, v)) F)).
Proof.
  intros HF. unfold Func.add_point. destruct (f_leaf (getf s F)).
  - rewrite pts_record_eq by exact HF. apply in_or_app. right. left. reflexivity.
  - apply comp_add_point_records. exact HF.
Qed.

(** the instruction [f.add_point((x, g, fx))] of a step (proximal, linear optimisation, Bregman, inexact
    proximal, epsilon-subgradient steps) on a composite [f] *)
Theorem addpoint_composite_weighted_sum a f x g fx e s cs :
  inv s -> guard_s a (StepsRT.AddPoint f x g fx) (e, (s, cs)) = true ->
  let F := a_fun a f in
  let s' := Func.add_point s F (e_p e x, e_p e g, e_x e fx) in
  let t := (prune (e_p e x), prune (e_p e g), prune (e_x e fx)) in
  inv s' /\ In t (f_pts (getf s' F)) /\ (f_leaf (getf s F) = false -> weighted_sum_at s' F t).
Proof.
  intros Hinv Hg F s' t.
  pose proof (exec_s_inv a (StepsRT.AddPoint f x g fx) (e, (s, cs)) Hinv Hg) as Hinv'.
  cbn [StepsFunc.exec_s pruned_sample st_of fst snd] in Hinv'. fold F in Hinv'. fold s' in Hinv'.
  assert (HF : (F < nfun s)%nat).
  { cbn [guard_s] in Hg. repeat (apply andb_true_iff in Hg as [Hg _]). apply in_range_spec. exact Hg. }
  pose proof (shape_add_point s F (e_p e x, e_p e g, e_x e fx)) as [Hn Hl]. fold s' in Hn, Hl.
  pose proof (add_point_records s F (e_p e x) (e_p e g) (e_x e fx) HF) as Hin. fold s' in Hin.
  split; [exact Hinv'|]. split; [exact Hin|]. intros Hc.
  apply (read_I3 s' Hinv' F t); [rewrite Hn; exact HF|rewrite Hl; exact Hc|exact Hin].
Qed.

(** the instruction [g, fx = f.oracle(p)] of a step (inexact gradient, line search) on a composite [f] *)
Theorem oracle_composite_weighted_sum a f p g fx e s cs :
  inv s -> guard_s a (StepsRT.Oracle f p g fx) (e, (s, cs)) = true ->
  let F := a_fun a f in
  let s' := fst (Func.oracle s F (e_p e p)) in
  let gd := fst (snd (Func.oracle s F (e_p e p))) in
  let vd := snd (snd (Func.oracle s F (e_p e p))) in
  inv s' /\
  exists x0, In (x0, gd, vd) (f_pts (getf s' F)) /\ dict_eqb Nat.eqb x0 (e_p e p) = true /\
             (f_leaf (getf s F) = false -> weighted_sum_at s' F (x0, gd, vd)).
Proof.
  intros Hinv Hg F s' gd vd. cbn [guard_s] in Hg.
  apply andb_true_iff in Hg as [Hg Hnz]. apply andb_true_iff in Hg as [Hr Hp]. apply in_range_spec in Hr.
  pose proof (wfq_of_bools s _ Hp Hnz) as Hq.
  pose proof (oracle_inv s F (e_p e p) Hinv Hr Hq) as Hinv'. fold s' in Hinv'.
  pose proof (shape_oracle s F (e_p e p)) as [Hn Hl]. fold s' in Hn, Hl.
  destruct (oracle_returns_recorded s F (e_p e p) Hr Hq) as [x0 [Hin He]].
  split; [exact Hinv'|]. exists x0. split; [exact Hin|]. split; [exact He|]. intros Hc.
  apply (read_I3 s' Hinv' F (x0, gd, vd)); [rewrite Hn; exact Hr|rewrite Hl; exact Hc|exact Hin].
Qed.

(** whole programs: after any accepted step program, EVERY sample of EVERY composite (those the step
    recorded included) is the weighted sum of samples of its terms at that point *)
Theorem run_composite_samples prog a s cs :
  inv s -> ok_prog prog a (s, cs) = true ->
  let s' := run_state prog a (s, cs) in
  forall F t, (F < nfun s)%nat -> f_leaf (getf s F) = false -> In t (f_pts (getf s' F)) ->
    weighted_sum_at s' F t.
Proof.
  intros Hinv Hok s' F t HF Hc Hin.
  pose proof (run_inv_steps prog a s cs Hinv Hok) as Hinv'. fold s' in Hinv'.
  destruct (run_shape prog a s cs) as [Hn Hl]. fold s' in Hn, Hl.
  apply (read_I3 s' Hinv' F t); [rewrite Hn; exact HF|rewrite Hl; exact Hc|exact Hin].
Qed.

(** ** C. agreement with Model/StepsRT.v on leaf functions *)
Lemma find_eval_find_pt p l : find_eval p l = find_pt l p.
Proof. induction l as [|[[x g] v] l IH]; cbn [find_eval find_pt]; [reflexivity|]. rewrite IH. reflexivity. Qed.

(** the leaf-only state [rs] and the function table [fs] describe the same leaves: same counters, and every
    LEAF of [fs] has in [rs] the same flag, the same samples and the same side constraints *)
Definition sim (rs : StepsRT.state) (fs : fstate) : Prop :=
  StepsRT.pt_ctr rs = Func.pt_ctr (fst fs) /\ StepsRT.ex_ctr rs = Func.ex_ctr (fst fs) /\
  forall j, (j < nfun (fst fs))%nat -> f_leaf (getf (fst fs) j) = true ->
    StepsRT.f_reuse (StepsRT.funs rs j) = Func.f_reuse (getf (fst fs) j) /\
    StepsRT.f_points (StepsRT.funs rs j) = Func.f_pts (getf (fst fs) j) /\
    StepsRT.f_cons (StepsRT.funs rs j) = cons_of (snd fs) j.

(** every function argument of the call is a leaf of the table *)
Definition leaf_args (a : args) (s : Func.state) : Prop :=
  forall k, (a_fun a k < nfun s)%nat /\ f_leaf (getf s (a_fun a k)) = true.

Lemma leaf_args_shape a s s' : leaf_args a s -> shape s s' -> leaf_args a s'.
Proof. intros H [Hn Hl] k. destruct (H k) as [A B]. rewrite Hn, Hl. auto. Qed.

Lemma sim_ctr rs s cs pc xc :
  sim rs (s, cs) -> sim (mkState pc xc (StepsRT.funs rs)) (mkS pc xc (Func.funs s), cs).
Proof. intros (_ & _ & H). split; [reflexivity|]. split; [reflexivity|]. exact H. Qed.

Lemma sim_record rs s cs i t :
  sim rs (s, cs) -> (i < nfun s)%nat ->
  sim (add_sample i (pruned_sample t) rs) (record s i t, cs).
Proof.
  intros (Hp & Hx & H) Hi. cbn [fst snd] in *.
  split; [exact Hp|]. split; [exact Hx|]. cbn [fst snd].
  intros j Hj Hl. rewrite nfun_record in Hj.
  destruct (flags_record s i j t) as (Fl & Fr & _). rewrite Fl in Hl. rewrite Fr.
  destruct (H j Hj Hl) as (A & B & C).
  unfold add_sample. cbn [StepsRT.funs]. unfold updf.
  destruct (Nat.eqb_spec j i) as [->|Hne].
  - cbn [StepsRT.f_reuse StepsRT.f_points StepsRT.f_cons].
    rewrite pts_record_eq by exact Hi. rewrite B. auto.
  - rewrite getf_record_neq by (intros Hc; apply Hne; symmetry; exact Hc). auto.
Qed.

Lemma cons_of_app cs f c j :
  cons_of (cs ++ [(f, c)]) j = if Nat.eqb f j then cons_of cs j ++ [c] else cons_of cs j.
Proof.
  unfold cons_of. rewrite filter_app, map_app. cbn [filter fst].
  destruct (Nat.eqb f j); cbn [map snd]; [reflexivity|apply app_nil_r].
Qed.

Lemma exec_s_agree a i e rs fs :
  sim rs fs -> leaf_args a (fst fs) ->
  match StepsRT.exec_s a i (e, rs), StepsFunc.exec_s a i (e, fs) with
  | inl (e1, rs'), inl (e2, fs') => e1 = e2 /\ sim rs' fs'
  | inr (x1, (e1, rs')), inr (x2, (e2, fs')) => x1 = x2 /\ e1 = e2 /\ sim rs' fs'
  | _, _ => False
  end.
Proof.
  destruct fs as [s cs]. cbn [fst]. intros Hsim Hargs.
  pose proof Hsim as (Hp & Hx & Hf). cbn [fst snd] in Hp, Hx, Hf.
  destruct i as [v|v|f p g fx|f p fx|v t|v t|c t|c fmt|f x g fx|f c];
    cbn [StepsRT.exec_s StepsFunc.exec_s].
  - cbn [fresh_pt]. unfold leafP. rewrite Hp. split; [reflexivity|].
    unfold bump. rewrite Hp, Hx. apply (sim_ctr rs s cs). exact Hsim.
  - cbn [fresh_ex]. unfold leafX. rewrite Hx. split; [reflexivity|].
    unfold bump. rewrite Hp, Hx. apply (sim_ctr rs s cs). exact Hsim.
  - destruct (Hargs f) as [HF HlF]. destruct (Hf _ HF HlF) as (A & B & C).
    unfold oracle_leaf, Func.oracle, oracle_touch. rewrite HlF. unfold leaf_oracle.
    rewrite find_eval_find_pt, B, A.
    destruct (find_pt (f_pts (getf s (a_fun a f))) (e_p e p)) as [[g0 v0]|].
    + destruct (Func.f_reuse (getf s (a_fun a f))).
      * split; [reflexivity|exact Hsim].
      * cbn [StepsRT.add_point fresh_pt]. unfold leafP, bump. rewrite Hp, Hx.
        split; [reflexivity|].
        apply (sim_record (mkState (1 + Func.pt_ctr s) (0 + Func.ex_ctr s) (StepsRT.funs rs))
                          (mkS (S (Func.pt_ctr s)) (Func.ex_ctr s) (Func.funs s)) cs (a_fun a f)
                          (e_p e p, [(Func.pt_ctr s, 1%Q)], v0)); [|exact HF].
        apply (sim_ctr rs s cs). exact Hsim.
    + cbn [StepsRT.add_point fresh_pt fresh_ex]. unfold leafP, leafX, bump. rewrite Hp, Hx.
      split; [reflexivity|].
      apply (sim_record (mkState (1 + Func.pt_ctr s) (1 + Func.ex_ctr s) (StepsRT.funs rs))
                        (mkS (S (Func.pt_ctr s)) (S (Func.ex_ctr s)) (Func.funs s)) cs (a_fun a f)
                        (e_p e p, [(Func.pt_ctr s, 1%Q)], [(KF (Func.ex_ctr s), 1%Q)])); [|exact HF].
      apply (sim_ctr rs s cs). exact Hsim.
  - destruct (Hargs f) as [HF HlF]. destruct (Hf _ HF HlF) as (A & B & C).
    unfold value_leaf, Func.value, value_touch.
    rewrite find_eval_find_pt, B.
    destruct (find_pt (f_pts (getf s (a_fun a f))) (e_p e p)) as [[g0 v0]|] eqn:Hfind.
    + split; [reflexivity|exact Hsim].
    + unfold oracle_leaf, Func.oracle. rewrite HlF. unfold leaf_oracle.
      rewrite find_eval_find_pt, B, Hfind.
      cbn [StepsRT.add_point fresh_pt fresh_ex]. unfold leafP, leafX, bump. rewrite Hp, Hx.
      split; [reflexivity|].
      apply (sim_record (mkState (1 + Func.pt_ctr s) (1 + Func.ex_ctr s) (StepsRT.funs rs))
                        (mkS (S (Func.pt_ctr s)) (S (Func.ex_ctr s)) (Func.funs s)) cs (a_fun a f)
                        (e_p e p, [(Func.pt_ctr s, 1%Q)], [(KF (Func.ex_ctr s), 1%Q)])); [|exact HF].
      apply (sim_ctr rs s cs). exact Hsim.
  - destruct (pdefb (a_scal a) t); [split; [reflexivity|exact Hsim]|].
    split; [reflexivity|]. split; [reflexivity|exact Hsim].
  - destruct (xdefb (a_scal a) t); [split; [reflexivity|exact Hsim]|].
    split; [reflexivity|]. split; [reflexivity|exact Hsim].
  - destruct (cdefb (a_scal a) t); [split; [reflexivity|exact Hsim]|].
    split; [reflexivity|]. split; [reflexivity|exact Hsim].
  - split; [reflexivity|exact Hsim].
  - destruct (Hargs f) as [HF HlF].
    cbn [StepsRT.add_point pruned_sample]. unfold Func.add_point. rewrite HlF.
    split; [reflexivity|].
    apply (sim_record rs s cs (a_fun a f) (e_p e x, e_p e g, e_x e fx) Hsim HF).
  - split; [reflexivity|]. split; [exact Hp|]. split; [exact Hx|]. cbn [fst snd].
    intros j Hj Hl. destruct (Hf j Hj Hl) as (A & B & C).
    unfold add_cons. cbn [StepsRT.funs]. unfold updf. rewrite cons_of_app.
    rewrite (Nat.eqb_sym (a_fun a f) j).
    destruct (Nat.eqb_spec j (a_fun a f)) as [->|Hne].
    + cbn [StepsRT.f_reuse StepsRT.f_points StepsRT.f_cons].
      destruct (Hf _ Hj Hl) as (A' & B' & C'). rewrite C'. auto.
    + auto.
Qed.

Definition agree_res (r1 : (env * StepsRT.state) + (string * (env * StepsRT.state)))
                     (r2 : (env * fstate) + (string * (env * fstate))) : Prop :=
  match r1, r2 with
  | inl (e1, rs'), inl (e2, fs') => e1 = e2 /\ sim rs' fs'
  | inr (x1, (e1, rs')), inr (x2, (e2, fs')) => x1 = x2 /\ e1 = e2 /\ sim rs' fs'
  | _, _ => False
  end.

Lemma leaf_args_res a i e (fs : fstate) :
  leaf_args a (fst fs) ->
  match StepsFunc.exec_s a i (e, fs) with
  | inl (_, fs') => leaf_args a (fst fs')
  | inr (_, (_, fs')) => leaf_args a (fst fs')
  end.
Proof.
  intros H. pose proof (exec_s_shape a i (e, fs)) as Hs. unfold st_of in Hs. cbn [fst snd] in Hs.
  destruct (StepsFunc.exec_s a i (e, fs)) as [[e' fs']|[exn [e' fs']]]; cbn [fst snd] in Hs;
    eapply leaf_args_shape; eauto.
Qed.

Lemma exec_body_agree a body : forall e rs fs,
  sim rs fs -> leaf_args a (fst fs) ->
  agree_res (StepsRT.exec_body a body (e, rs)) (StepsFunc.exec_body a body (e, fs)) /\
  match StepsFunc.exec_body a body (e, fs) with
  | inl (_, fs') => leaf_args a (fst fs')
  | inr (_, (_, fs')) => leaf_args a (fst fs')
  end.
Proof.
  induction body as [|i body IH]; intros e rs fs Hsim Hargs;
    cbn [StepsRT.exec_body StepsFunc.exec_body agree_res].
  - auto.
  - pose proof (exec_s_agree a i e rs fs Hsim Hargs) as H.
    pose proof (leaf_args_res a i e fs Hargs) as Ha.
    revert H Ha.
    destruct (StepsRT.exec_s a i (e, rs)) as [[e1 rs']|[x1 [e1 rs']]];
      destruct (StepsFunc.exec_s a i (e, fs)) as [[e2 fs']|[x2 [e2 fs']]]; intros H Ha; try contradiction.
    + destruct H as [<- Hsim']. apply IH; [exact Hsim'|exact Ha].
    + destruct H as (<- & <- & Hsim'). cbn [agree_res]. split; [auto|exact Ha].
Qed.

Lemma exec_loop_agree a d body : forall ds e rs fs,
  sim rs fs -> leaf_args a (fst fs) ->
  agree_res (StepsRT.exec_loop a d body ds (e, rs)) (StepsFunc.exec_loop a d body ds (e, fs)) /\
  match StepsFunc.exec_loop a d body ds (e, fs) with
  | inl (_, fs') => leaf_args a (fst fs')
  | inr (_, (_, fs')) => leaf_args a (fst fs')
  end.
Proof.
  induction ds as [|dv ds IH]; intros e rs fs Hsim Hargs;
    cbn [StepsRT.exec_loop StepsFunc.exec_loop agree_res fst snd].
  - auto.
  - destruct (exec_body_agree a body (setp d dv e) rs fs Hsim Hargs) as [H Ha].
    revert H Ha.
    destruct (StepsRT.exec_body a body (setp d dv e, rs)) as [[e1 rs']|[x1 [e1 rs']]];
      destruct (StepsFunc.exec_body a body (setp d dv e, fs)) as [[e2 fs']|[x2 [e2 fs']]];
      intros H Ha; cbn [agree_res] in H; try contradiction.
    + destruct H as [<- Hsim']. apply IH; [exact Hsim'|exact Ha].
    + destruct H as (<- & <- & Hsim'). cbn [agree_res]. split; [auto|exact Ha].
Qed.

Lemma exec_agree a prog : forall e rs fs,
  sim rs fs -> leaf_args a (fst fs) ->
  fst (StepsRT.exec a prog (e, rs)) = fst (StepsFunc.exec a prog (e, fs)) /\
  fst (snd (StepsRT.exec a prog (e, rs))) = fst (snd (StepsFunc.exec a prog (e, fs))) /\
  sim (snd (snd (StepsRT.exec a prog (e, rs)))) (snd (snd (StepsFunc.exec a prog (e, fs)))).
Proof.
  induction prog as [|[i|d body|l|exn] prog IH]; intros e rs fs Hsim Hargs;
    cbn [StepsRT.exec StepsFunc.exec fst snd]; auto.
  - pose proof (exec_s_agree a i e rs fs Hsim Hargs) as H.
    pose proof (leaf_args_res a i e fs Hargs) as Ha.
    revert H Ha.
    destruct (StepsRT.exec_s a i (e, rs)) as [[e1 rs']|[x1 [e1 rs']]];
      destruct (StepsFunc.exec_s a i (e, fs)) as [[e2 fs']|[x2 [e2 fs']]]; intros H Ha; try contradiction.
    + destruct H as [<- Hsim']. apply IH; [exact Hsim'|exact Ha].
    + destruct H as (<- & <- & Hsim'). cbn [fst snd]. auto.
  - destruct (exec_loop_agree a d body (a_dirs a) e rs fs Hsim Hargs) as [H Ha].
    revert H Ha.
    destruct (StepsRT.exec_loop a d body (a_dirs a) (e, rs)) as [[e1 rs']|[x1 [e1 rs']]];
      destruct (StepsFunc.exec_loop a d body (a_dirs a) (e, fs)) as [[e2 fs']|[x2 [e2 fs']]];
      intros H Ha; cbn [agree_res] in H; try contradiction.
    + destruct H as [<- Hsim']. apply IH; [exact Hsim'|exact Ha].
    + destruct H as (<- & <- & Hsim'). cbn [fst snd]. auto.
Qed.

(** whole programs: when every function argument is a leaf, the two interpreters return the same tuple
    (or raise the same exception), leave the same environment (the argument objects after the call) and
    the same counters, samples and side constraints on every leaf *)
Theorem run_agree prog a rs fs :
  sim rs fs -> leaf_args a (fst fs) ->
  fst (StepsRT.run_full prog a rs) = fst (StepsFunc.run_full prog a fs) /\
  fst (snd (StepsRT.run_full prog a rs)) = fst (snd (StepsFunc.run_full prog a fs)) /\
  sim (snd (snd (StepsRT.run_full prog a rs))) (snd (snd (StepsFunc.run_full prog a fs))).
Proof. intros Hsim Hargs. apply (exec_agree a prog (init_env a) rs fs Hsim Hargs). Qed.

(** the leaf-only view of a function table: what Model/StepsRT.v sees of it (non-vacuity of [sim]) *)
Definition rt_of (fs : fstate) : StepsRT.state :=
  mkState (Func.pt_ctr (fst fs)) (Func.ex_ctr (fst fs))
          (fun j => mkFrec (Func.f_reuse (getf (fst fs) j)) (Func.f_pts (getf (fst fs) j)) (cons_of (snd fs) j)).

Lemma sim_rt_of fs : sim (rt_of fs) fs.
Proof. split; [reflexivity|]. split; [reflexivity|]. intros j _ _. auto. Qed.

Theorem run_agree_rt_of prog a fs :
  leaf_args a (fst fs) ->
  fst (StepsRT.run prog a (rt_of fs)) = fst (StepsFunc.run prog a fs) /\
  sim (snd (StepsRT.run prog a (rt_of fs))) (snd (StepsFunc.run prog a fs)).
Proof.
  intros Hargs. destruct (run_agree prog a (rt_of fs) fs (sim_rt_of fs) Hargs) as (A & B & C).
  unfold StepsRT.run, StepsFunc.run.
  destruct (StepsRT.run_full prog a (rt_of fs)) as [r1 [e1 rs']]. cbn [fst snd] in *. auto.
Qed.
