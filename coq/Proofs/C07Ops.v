(** C07, part 3: the invariant is preserved by [add_point] and [oracle] on composites
    (classification, "every term but the last calls oracle, the last gets the remainder divided by its
    weight"), hence by every op. *)
From Coq Require Import List QArith Reals Qreals Lra Bool Arith Lia Permutation.
From PV Require Import Base.IPS Model.Dict Model.Terms Model.Func Spec.Sem
  Proofs.DictLemmas Proofs.SemLemmas Proofs.C07Dict Proofs.C07Inv.
Import ListNotations.
Local Open Scope R_scope.

(** ** the first sample recorded at a point *)
Fixpoint find_s (pts : list sample) (x : pdict) : option sample :=
  match pts with
  | [] => None
  | t :: r => if dict_eqb Nat.eqb (xof t) x then Some t else find_s r x
  end.

Lemma find_pt_find_s pts x :
  find_pt pts x = option_map (fun t => (gof t, vof t)) (find_s pts x).
Proof.
  induction pts as [|[[x0 g0] v0] pts IH]; cbn; [reflexivity|].
  unfold xof; cbn. destruct (dict_eqb Nat.eqb x0 x); [reflexivity|exact IH].
Qed.

Lemma find_s_Some pts x t : find_s pts x = Some t -> In t pts /\ dict_eqb Nat.eqb (xof t) x = true.
Proof.
  induction pts as [|t0 pts IH]; cbn; [discriminate|].
  destruct (dict_eqb Nat.eqb (xof t0) x) eqn:He.
  - intros [= <-]. split; [left; reflexivity|exact He].
  - intros H. destruct (IH H). split; [right|]; assumption.
Qed.

Definition firsts (s : state) (x : pdict) (i : nat) : sample :=
  match find_s (f_pts (getf s i)) x with Some t => t | None => ([], [], []) end.

Definition evald (s : state) (x : pdict) (i : nat) : bool :=
  match find_pt (f_pts (getf s i)) x with Some _ => true | None => false end.

Lemma evald_firsts s x i :
  evald s x i = true ->
  In (firsts s x i) (f_pts (getf s i)) /\ dict_eqb Nat.eqb (xof (firsts s x i)) x = true /\
  find_pt (f_pts (getf s i)) x = Some (gof (firsts s x i), vof (firsts s x i)).
Proof.
  unfold evald, firsts. rewrite find_pt_find_s.
  destruct (find_s (f_pts (getf s i)) x) as [t|] eqn:Hf; cbn; [|discriminate].
  intros _. destruct (find_s_Some _ _ _ Hf). auto.
Qed.

Lemma evald_true s x i : evald s x i = true <-> find_pt (f_pts (getf s i)) x <> None.
Proof. unfold evald. destruct (find_pt (f_pts (getf s i)) x); split; congruence. Qed.
Lemma evald_false s x i : evald s x i = false <-> find_pt (f_pts (getf s i)) x = None.
Proof. unfold evald. destruct (find_pt (f_pts (getf s i)) x); split; congruence. Qed.

(** ** classification *)
Definition p_n (s : state) (x : pdict) (iq : nat * Q) : bool := evald s x (fst iq) && f_reuse (getf s (fst iq)).
Definition p_go (s : state) (x : pdict) (iq : nat * Q) : bool := evald s x (fst iq) && negb (f_reuse (getf s (fst iq))).
Definition p_gv (s : state) (x : pdict) (iq : nat * Q) : bool := negb (evald s x (fst iq)).

Lemma classify_filter s W x :
  classify s W x = (filter (p_n s x) W, filter (p_go s x) W, filter (p_gv s x) W).
Proof.
  induction W as [|[i q] W IH]; cbn [classify filter]; [reflexivity|].
  rewrite IH. unfold p_n, p_go, p_gv, evald; cbn [fst].
  destruct (find_pt (f_pts (getf s i)) x); cbn; [|reflexivity].
  destruct (f_reuse (getf s i)); reflexivity.
Qed.

Lemma partition3_perm {A} (p1 p2 p3 : A -> bool) (l : list A) :
  (forall a, In a l -> (p1 a = true /\ p2 a = false /\ p3 a = false) \/
                       (p1 a = false /\ p2 a = true /\ p3 a = false) \/
                       (p1 a = false /\ p2 a = false /\ p3 a = true)) ->
  Permutation (filter p1 l ++ filter p2 l ++ filter p3 l) l.
Proof.
  induction l as [|a l IH]; intros H; cbn [filter]; [constructor|].
  assert (IH' := IH (fun b Hb => H b (or_intror Hb))).
  destruct (H a (or_introl eq_refl)) as [(-> & -> & ->)|[(-> & -> & ->)|(-> & -> & ->)]].
  - cbn. constructor. exact IH'.
  - eapply perm_trans; [apply Permutation_sym, Permutation_middle|]. constructor. exact IH'.
  - rewrite app_assoc. eapply perm_trans; [apply Permutation_sym, Permutation_middle|].
    rewrite <- app_assoc. constructor. exact IH'.
Qed.

Lemma classify_perm s W x :
  Permutation (filter (p_n s x) W ++ filter (p_go s x) W ++ filter (p_gv s x) W) W.
Proof.
  apply partition3_perm. intros [i q] _. unfold p_n, p_go, p_gv; cbn [fst].
  destruct (evald s x i), (f_reuse (getf s i)); cbn; tauto.
Qed.

Lemma filter_nil_all {A} (p : A -> bool) l : filter p l = [] -> forall a, In a l -> p a = false.
Proof.
  induction l as [|b l IH]; cbn; [tauto|]. destruct (p b) eqn:Hb; [discriminate|].
  intros H a [<-|Ha]; auto.
Qed.

Lemma classify_local s s' W x :
  (forall i q, In (i, q) W -> getf s' i = getf s i) -> classify s' W x = classify s W x.
Proof.
  induction W as [|[i q] W IH]; intros H; cbn [classify]; [reflexivity|].
  rewrite IH by (intros i' q' Hin; apply (H i' q'); right; exact Hin).
  rewrite (H i q) by (left; reflexivity). reflexivity.
Qed.

Lemma last_app_nonnil {A} (l1 l2 : list A) d : l2 <> [] -> last (l1 ++ l2) d = last l2 d.
Proof.
  intros H. induction l1 as [|a l1 IH]; [reflexivity|].
  cbn [app]. destruct (l1 ++ l2) eqn:He.
  - apply app_eq_nil in He as [_ ->]. congruence.
  - cbn [last] in *. exact IH.
Qed.

Lemma last_In {A} (l : list A) d : l <> [] -> In (last l d) l.
Proof.
  induction l as [|a l IH]; [congruence|]. intros _. destruct l as [|b l]; [left; reflexivity|].
  right. apply IH. discriminate.
Qed.

Lemma NoDupKeys_cons_inv (i : nat) (q : Q) (l : wdict) :
  pND ((i, q) :: l) -> ~ In i (keys l) /\ pND l.
Proof. unfold NoDupKeys; cbn. intros H. inversion H; subst. auto. Qed.

Lemma dsum_cons {K} (val : K -> R) k q d : dsum K val ((k, q) :: d) = Q2R q * val k + dsum K val d.
Proof. reflexivity. Qed.

(** ** the distribution loop of [add_point] *)
Lemma distribute_spec P : forall l s x G V b,
  inv_gen P s -> wfq s x -> pND G -> eND V ->
  pND l -> length l = S b ->
  (forall i q, In (i, q) l -> (i < nfun s)%nat /\ f_leaf (getf s i) = true /\ ~ (q == 0)%Q) ->
  (forall il ql, last l (O, 0%Q) = (il, ql) ->
     evald s x il = false \/
     (f_reuse (getf s il) = false /\
      (forall i q, In (i, q) l -> evald s x i = true) /\
      (forall (E : ips) (rho : nat -> E) (phi : nat -> R),
          evalE rho phi V = dsum nat (fun i => evalE rho phi (vof (firsts s x i))) l))) ->
  let s' := distribute s x G V b l in
  inv_gen P s' /\ ext (fun j => In j (keys l)) s s' /\
  exists ch, covers s' l x ch /\ sums l ch G V.
Proof.
  induction l as [|[i q] l IH]; intros s x G V b Hinv Hq NG NV Nl Hlen Hl Hlast; [discriminate|].
  pose proof (wfq_prune s x Hq) as Hpx.
  destruct (Hl i q (or_introl eq_refl)) as (Hi & Hleaf & Hqnz).
  destruct (NoDupKeys_cons_inv i q l Nl) as [Hni Nl'].
  destruct l as [|[i2 q2] l2].
  - (* the last term: remainder divided by its weight *)
    injection Hlen as <-. cbn [distribute].
    destruct Hq as (Nx & Hnz & Hk).
    specialize (Hlast i q eq_refl).
    assert (Hrec : inv_gen P (record s i (x, p_div G q, x_div V q))).
    { apply record_inv; auto.
      - apply pND_div, NG.
      - apply eND_div, NV.
      - intros t0 Ht0 He. rewrite Hpx in He.
        destruct Hlast as [Hev|(Hr & Hall & Hsum)].
        + apply evald_false in Hev. rewrite find_pt_None in Hev. rewrite (Hev t0 Ht0) in He. discriminate.
        + destruct (evald_firsts s x i (Hall i q (or_introl eq_refl))) as (Hin1 & He1 & _).
          pose proof (ig_samples P s Hinv i _ Hi Ht0) as (N0 & _).
          pose proof (ig_samples P s Hinv i _ Hi Hin1) as (N1 & _).
          eapply eeq_trans.
          * apply (ig_I1 P s Hinv i t0 (firsts s x i) Hi Ht0 Hin1).
            apply (peqb_trans _ x _); auto. apply peqb_sym; auto.
          * intros E rho phi. rewrite evalE_div by exact Hqnz. rewrite Hsum. cbn [dsum].
            field. apply Q2R_nonzero, Hqnz.
      - intros Hr. rewrite Hpx. destruct Hlast as [Hev|(Hr' & _)]; [apply evald_false, Hev|congruence].
      - rewrite Hleaf. discriminate. }
    split; [exact Hrec|]. split.
    { eapply ext_weaken; [|apply ext_record]. intros j <-. left. reflexivity. }
    exists (fun _ => (prune x, prune (p_div G q), prune (x_div V q))). split.
    + intros i' q' [[= <- <-]|[]]. split.
      * rewrite pts_record_eq by exact Hi. apply in_or_app. right. left. reflexivity.
      * unfold xof; cbn. rewrite Hpx. apply peqb_refl, Nx.
    + split.
      * intros E rho w. cbn [dsum]. unfold gof; cbn [fst snd].
        rewrite ip_prune, ip_div by exact Hqnz. field. apply Q2R_nonzero, Hqnz.
      * intros E rho phi. cbn [dsum]. unfold vof; cbn [snd].
        rewrite ev_prune, evalE_div by exact Hqnz. field. apply Q2R_nonzero, Hqnz.
  - (* a term that is not the last: [oracle], then subtract *)
    destruct b as [|b]; [discriminate|]. injection Hlen as Hlen.
    cbn [distribute].
    pose proof (leaf_oracle_spec s i x Hi Hq) as Hspec. cbv zeta in Hspec.
    pose proof (leaf_oracle_inv P s i x Hinv Hi Hleaf Hq) as Hinv1.
    destruct (leaf_oracle s i x) as [s1 [g v]] eqn:Hlo. cbn [fst snd] in Hspec, Hinv1.
    destruct Hspec as (Hext1 & (x0 & Hin0 & He0) & Hval & _).
    assert (Hi1 : (i < nfun s1)%nat) by (destruct Hext1 as (-> & _); exact Hi).
    pose proof (ig_samples P s1 Hinv1 i _ Hi1 Hin0) as (_ & Ng & Nv & _).
    unfold gof, vof in Ng, Nv; cbn in Ng, Nv.
    set (l' := (i2, q2) :: l2) in *.
    assert (Hother : forall j, In j (keys l') -> getf s1 j = getf s j).
    { intros j Hj. destruct Hext1 as (_ & _ & _ & _ & _ & Hfr). apply Hfr. intros ->. contradiction. }
    assert (Hq1 : wfq s1 x).
    { destruct Hq as (A & B & C). repeat split; auto. intros k Hk. specialize (C k Hk).
      destruct Hext1 as (_ & Hpt & _). lia. }
    assert (Hfirst : forall j, In j (keys l') -> firsts s1 x j = firsts s x j).
    { intros j Hj. unfold firsts. rewrite (Hother j Hj). reflexivity. }
    assert (Hev1 : forall j, In j (keys l') -> evald s1 x j = evald s x j).
    { intros j Hj. unfold evald. rewrite (Hother j Hj). reflexivity. }
    specialize (IH s1 x (p_sub G (p_scal q g)) (x_sub V (x_scal q v)) b Hinv1 Hq1).
    destruct IH as (Hinv' & Hext' & ch' & Hcov' & Hs1 & Hs2).
    + apply pND_sub; [exact NG|apply pND_scal, Ng].
    + apply eND_sub; [exact NV|apply eND_scal, Nv].
    + exact Nl'.
    + unfold l'. cbn [length]. f_equal. exact Hlen.
    + intros j qj Hj. destruct (Hl j qj (or_intror Hj)) as (A & B & C).
      assert (Hjk : In j (keys l')) by (apply (In_keys nat j qj), Hj).
      destruct Hext1 as (-> & _). rewrite (Hother j Hjk). auto.
    + intros il ql Hlst.
      assert (Hlil : In il (keys l')).
      { apply (In_keys nat il ql). rewrite <- Hlst. apply last_In. discriminate. }
      destruct (Hlast il ql Hlst) as [Hev|(Hr & Hall & Hsum)].
      * left. rewrite (Hev1 il Hlil). exact Hev.
      * right. rewrite (Hother il Hlil). split; [exact Hr|]. split.
        -- intros j qj Hj. rewrite (Hev1 j (In_keys nat j qj l' Hj)). apply (Hall j qj). right. exact Hj.
        -- intros E rho phi. rewrite evalE_sub, evalE_scal by (auto using eND_scal).
           rewrite Hsum, dsum_cons.
           destruct (evald_firsts s x i (Hall i q (or_introl eq_refl))) as (_ & _ & Hfp).
           rewrite (Hval _ _ Hfp E rho phi).
           rewrite (dsum_ext nat (fun j => evalE rho phi (vof (firsts s1 x j)))
                             (fun j => evalE rho phi (vof (firsts s x j))) l')
             by (intros j Hj; rewrite (Hfirst j Hj); reflexivity).
           lra.
    + split; [exact Hinv'|]. split.
      { eapply ext_trans.
        - eapply ext_weaken; [|exact Hext1]. intros j <-. left. reflexivity.
        - eapply ext_weaken; [|exact Hext']. intros j Hj. right. exact Hj. }
      pose (chn := fun j => if Nat.eqb j i then ((x0, g, v) : sample) else ch' j).
      assert (Hci : chn i = (x0, g, v)) by (unfold chn; rewrite Nat.eqb_refl; reflexivity).
      assert (Hcj : forall j, In j (keys l') -> chn j = ch' j).
      { intros j Hj. assert (Hne : j <> i) by (intros ->; contradiction).
        apply Nat.eqb_neq in Hne. unfold chn. rewrite Hne. reflexivity. }
      exists chn. split.
      * intros j qj [[= <- <-]|Hj].
        -- rewrite Hci. split; [|exact He0].
           destruct Hext' as (_ & _ & _ & _ & Hm & _). apply Hm. exact Hin0.
        -- rewrite (Hcj j (In_keys nat j qj l' Hj)). apply (Hcov' j qj Hj).
      * split.
        -- intros E rho w. rewrite dsum_cons, Hci.
           rewrite (dsum_ext nat (fun j => ip rho w (gof (chn j))) (fun j => ip rho w (gof (ch' j))) l')
             by (intros j Hj; rewrite (Hcj j Hj); reflexivity).
           rewrite <- Hs1.
           rewrite ip_sub, ip_scal by (auto using pND_scal). unfold gof; cbn [fst snd]. lra.
        -- intros E rho phi. rewrite dsum_cons, Hci.
           rewrite (dsum_ext nat (fun j => evalE rho phi (vof (chn j))) (fun j => evalE rho phi (vof (ch' j))) l')
             by (intros j Hj; rewrite (Hcj j Hj); reflexivity).
           rewrite <- Hs2.
           rewrite evalE_sub, evalE_scal by (auto using eND_scal). unfold vof; cbn [fst snd]. lra.
Qed.

(** ** [add_point] on a composite *)
Lemma inv_gen_weaken (P P' : nat -> sample -> Prop) s :
  (forall i t, P i t -> P' i t) -> inv_gen P s -> inv_gen P' s.
Proof.
  intros HP [H1 H2 H3 H4 H5 H6 H7 H8]. split; auto.
  intros i t Hi Hl Ht. destruct (H7 i t Hi Hl Ht); [left; apply HP|right]; assumption.
Qed.

Lemma inv_gen_close P s :
  inv_gen P s ->
  (forall i t, P i t -> (i < nfun s)%nat -> f_leaf (getf s i) = false -> In t (f_pts (getf s i)) ->
               I3_at s (f_w (getf s i)) t) ->
  inv s.
Proof.
  intros [H1 H2 H3 H4 H5 H6 H7 H8] HP. split; auto.
  intros i t Hi Hl Ht. right. destruct (H7 i t Hi Hl Ht) as [Hp|H]; [apply HP|]; assumption.
Qed.

Lemma setf_prune_id s F :
  allnz nat (f_w (getf s F)) = true ->
  setf s F (fun r => mkF (f_leaf r) (f_reuse r) (prune (f_w r)) (f_pts r) (f_stat r)) = s.
Proof.
  intros H. unfold setf. destruct s as [a b fs]. cbn [pt_ctr ex_ctr funs]. f_equal.
  apply upd_same with (d := dummy). change (nth F fs dummy) with (getf (mkS a b fs) F).
  rewrite (prune_id nat _ H). destruct (getf (mkS a b fs) F); reflexivity.
Qed.

Lemma In_filter_p {A} (p : A -> bool) l a : In a (filter p l) -> In a l /\ p a = true.
Proof. apply filter_In. Qed.

Lemma comp_add_point_inv s F x g v :
  inv s -> (F < nfun s)%nat -> f_leaf (getf s F) = false ->
  pND x -> pND g -> eND v -> (forall k, In k (keys x) -> (k < pt_ctr s)%nat) ->
  (find_pt (f_pts (getf s F)) (prune x) = None \/
   (f_reuse (getf s F) = false /\
    forall t0, In t0 (f_pts (getf s F)) -> dict_eqb Nat.eqb (xof t0) (prune x) = true -> eeq (vof t0) v)) ->
  ((forall i q, In (i, q) (f_w (getf s F)) -> evald s (prune x) i = true) ->
     (forall (E : ips) (rho : nat -> E) (phi : nat -> R),
         evalE rho phi v = dsum nat (fun i => evalE rho phi (vof (firsts s (prune x) i))) (f_w (getf s F))) /\
     ((forall i q, In (i, q) (f_w (getf s F)) -> f_reuse (getf s i) = true) ->
        forall (E : ips) (rho : nat -> E) (w : E),
          ip rho w g = dsum nat (fun i => ip rho w (gof (firsts s (prune x) i))) (f_w (getf s F)))) ->
  inv (comp_add_point s F (x, g, v)).
Proof.
  intros Hinv HF HlF Nx Ng Nv Hk Hown Hsum.
  set (x' := prune x). set (g' := prune g). set (v' := prune v).
  set (W := f_w (getf s F)) in *.
  destruct (ig_compw noP s Hinv F HF HlF) as (NW & Wne & Wnz & Wleaf). fold W in NW, Wne, Wnz, Wleaf.
  unfold comp_add_point. cbn [pruned_sample]. fold x' g' v'.
  set (s1 := record s F (x, g, v)).
  assert (HW1 : f_w (getf s1 F) = W) by (unfold s1; destruct (flags_record s F F (x, g, v)) as (_ & _ & ->); reflexivity).
  rewrite setf_prune_id by (rewrite HW1; exact Wnz). rewrite HW1.
  assert (Hloc : forall i q, In (i, q) W -> getf s1 i = getf s i).
  { intros i q Hin. unfold s1. apply getf_record_neq. intros <-. destruct (Wleaf F q Hin) as [_ Hc]. congruence. }
  rewrite (classify_local s s1 W x' Hloc), classify_filter.
  set (n := filter (p_n s x') W). set (go := filter (p_go s x') W). set (gv := filter (p_gv s x') W).
  pose (P := fun (i : nat) (t : sample) => i = F /\ t = (x', g', v')).
  assert (Hinv1 : inv_gen P s1).
  { unfold s1. apply record_inv; auto.
    - eapply inv_gen_weaken; [|exact Hinv]. intros i t [].
    - intros t0 Ht0 He. destruct Hown as [Hn|[_ Ho]]; [|apply Ho; assumption].
      rewrite find_pt_None in Hn. rewrite (Hn t0 Ht0) in He. discriminate.
    - intros Hr. destruct Hown as [Hn|[Hr' _]]; [exact Hn|congruence].
    - intros _. left. split; reflexivity. }
  assert (Hx' : wfq s1 x').
  { split; [apply pND_prune, Nx|]. split; [apply allnz_prune|].
    intros k Hin. apply Hk. apply (keys_prune_incl nat x k Hin). }
  assert (Hev1 : forall i q, In (i, q) W -> evald s1 x' i = evald s x' i)
    by (intros i q Hin; unfold evald; rewrite (Hloc i q Hin); reflexivity).
  assert (Hfs1 : forall i q, In (i, q) W -> firsts s1 x' i = firsts s x' i)
    by (intros i q Hin; unfold firsts; rewrite (Hloc i q Hin); reflexivity).
  assert (Hmono : forall j t, In t (f_pts (getf s j)) -> In t (f_pts (getf s1 j)))
    by (intros; apply pts_record_mono; assumption).
  assert (HnF1 : nfun s1 = nfun s) by apply nfun_record.
  pose proof (classify_perm s W x') as Hperm. fold n go gv in Hperm.
  destruct (is_nil (go ++ gv)) eqn:Hnil.
  - (* every term already has its gradient and value at the point *)
    assert (Hgg : go ++ gv = []) by (destruct (go ++ gv); [reflexivity|discriminate]).
    apply app_eq_nil in Hgg as [Hgo Hgv].
    assert (Hall : forall i q, In (i, q) W -> evald s x' i = true /\ f_reuse (getf s i) = true).
    { intros i q Hin.
      pose proof (filter_nil_all _ _ Hgv (i, q) Hin) as A. pose proof (filter_nil_all _ _ Hgo (i, q) Hin) as B.
      unfold p_gv, p_go in A, B; cbn [fst] in A, B.
      destruct (evald s x' i); [|discriminate]. destruct (f_reuse (getf s i)); [auto|discriminate]. }
    destruct Hsum as [HsV HsG]; [intros i q Hin; apply (Hall i q Hin)|].
    specialize (HsG (fun i q Hin => proj2 (Hall i q Hin))).
    eapply inv_gen_close; [exact Hinv1|].
    intros i t [-> ->] _ _ _. rewrite HW1. exists (firsts s x'). split.
    + intros i q Hin. destruct (evald_firsts s x' i (proj1 (Hall i q Hin))) as (A & B & _).
      split; [apply Hmono, A|exact B].
    + split.
      * intros E rho w. unfold gof; cbn [fst snd]. unfold g'. rewrite ip_prune. apply HsG.
      * intros E rho phi. unfold vof; cbn [snd]. unfold v'. rewrite ev_prune. apply HsV.
  - (* some term needs something: distribute *)
    assert (Hne : go ++ gv <> []) by (destruct (go ++ gv); [discriminate|congruence]).
    set (l := n ++ go ++ gv) in *.
    assert (Hlin : forall i q, In (i, q) l <-> In (i, q) W).
    { intros i q. split; intros H; [eapply Permutation_in; [exact Hperm|exact H]|].
      eapply Permutation_in; [apply Permutation_sym, Hperm|exact H]. }
    assert (Nl : pND l).
    { unfold NoDupKeys, keys. eapply Permutation_NoDup; [apply Permutation_map, Permutation_sym, Hperm|exact NW]. }
    assert (Hlen : length l = S (length W - 1)).
    { rewrite (Permutation_length Hperm). destruct W; [congruence|cbn; lia]. }
    destruct (distribute_spec P l s1 x' g' v' (length W - 1) Hinv1 Hx') as (Hinv' & Hext' & ch & Hcov & HsG & HsV).
    + apply pND_prune, Ng.
    + apply eND_prune, Nv.
    + exact Nl.
    + exact Hlen.
    + intros i q Hin. apply Hlin in Hin. destruct (Wleaf i q Hin) as [A B].
      rewrite HnF1, (Hloc i q Hin). repeat split; auto. apply (allnz_In nat W i q Wnz Hin).
    + intros il ql Hlast.
      assert (Hlast' : last (go ++ gv) (O, 0%Q) = (il, ql)).
      { rewrite <- Hlast. unfold l. symmetry. apply last_app_nonnil. exact Hne. }
      destruct gv as [|a gv'] eqn:Hgv.
      * (* last term is evaluated, not differentiable *)
        rewrite app_nil_r in Hlast', Hne.
        assert (Hin : In (il, ql) go) by (rewrite <- Hlast'; apply last_In; exact Hne).
        apply In_filter_p in Hin as [HinW Hp]. unfold p_go in Hp; cbn [fst] in Hp.
        apply andb_true_iff in Hp as [_ Hr]. apply negb_true_iff in Hr.
        assert (HallW : forall i q, In (i, q) W -> evald s x' i = true).
        { intros i q Hi. pose proof (filter_nil_all _ _ Hgv (i, q) Hi) as A. unfold p_gv in A; cbn [fst] in A.
          destruct (evald s x' i); [reflexivity|discriminate]. }
        right. rewrite (Hloc il ql HinW). split; [exact Hr|]. split.
        -- intros i q Hi. apply Hlin in Hi. rewrite (Hev1 i q Hi). apply (HallW i q Hi).
        -- intros E rho phi. unfold v'. rewrite ev_prune.
           destruct Hsum as [HsV0 _]; [exact HallW|]. rewrite HsV0.
           rewrite (dsum_perm nat _ _ _ (Permutation_sym Hperm)). fold l.
           apply dsum_ext. intros k Hkk. apply key_lookup with (keqb := Nat.eqb) in Hkk; [|exact nat_eqb_spec].
           destruct Hkk as [qk Hqk]. apply (lookup_Some_In nat Nat.eqb nat_eqb_spec) in Hqk.
           rewrite (Hfs1 k qk (proj1 (Hlin k qk) Hqk)). reflexivity.
      * (* last term has never been evaluated at the point *)
        assert (Hin : In (il, ql) (a :: gv')).
        { rewrite <- Hlast'. rewrite last_app_nonnil by discriminate. apply last_In. discriminate. }
        rewrite <- Hgv in Hin. apply In_filter_p in Hin as [HinW Hp]. unfold p_gv in Hp; cbn [fst] in Hp.
        apply negb_true_iff in Hp. left. rewrite (Hev1 il ql HinW). exact Hp.
    + eapply inv_gen_close; [exact Hinv'|].
      intros i t [-> ->] _ _ _.
      assert (HW' : f_w (getf (distribute s1 x' g' v' (length W - 1) l) F) = W).
      { destruct Hext' as (_ & _ & _ & Hfl & _). destruct (Hfl F) as (_ & _ & ->). exact HW1. }
      rewrite HW'. exists ch. split.
      * intros i q Hin. apply (Hcov i q). apply Hlin. exact Hin.
      * destruct (conj HsG HsV) as [A B]. split.
        -- intros E rho w. unfold gof; cbn [fst snd]. rewrite (A E rho w). apply dsum_perm. exact Hperm.
        -- intros E rho phi. unfold vof; cbn [fst snd]. rewrite (B E rho phi). apply dsum_perm. exact Hperm.
Qed.

(** ** [oracle] on a composite *)
Lemma sum_values_all s x : forall W acc,
  (forall i q, In (i, q) W -> evald s x i = true) ->
  eND acc -> (forall i q, In (i, q) W -> eND (vof (firsts s x i))) ->
  exists acc', sum_values s W x acc = (s, acc') /\ eND acc' /\
    forall (E : ips) (rho : nat -> E) (phi : nat -> R),
      evalE rho phi acc' = evalE rho phi acc + dsum nat (fun i => evalE rho phi (vof (firsts s x i))) W.
Proof.
  induction W as [|[i q] W IH]; intros acc Hev Na Nf; cbn [sum_values].
  - exists acc. split; [reflexivity|]. split; [exact Na|]. intros; cbn; lra.
  - destruct (evald_firsts s x i (Hev i q (or_introl eq_refl))) as (_ & _ & Hfp).
    unfold leaf_value. rewrite Hfp.
    pose proof (Nf i q (or_introl eq_refl)) as Nfi.
    destruct (IH (x_add acc (x_scal q (vof (firsts s x i))))) as (acc' & He & Na' & Hs).
    + intros j qj Hj. apply (Hev j qj). right. exact Hj.
    + apply eND_add; [exact Na|apply eND_scal, Nfi].
    + intros j qj Hj. apply (Nf j qj). right. exact Hj.
    + exists acc'. split; [exact He|]. split; [exact Na'|].
      intros E rho phi. rewrite Hs, evalE_add, evalE_scal by (auto using eND_scal). cbn [dsum]. lra.
Qed.

Lemma sum_grads_all s x : forall W acc,
  (forall i q, In (i, q) W -> evald s x i = true /\ f_reuse (getf s i) = true) ->
  pND acc -> (forall i q, In (i, q) W -> pND (gof (firsts s x i))) ->
  exists acc', sum_grads s W x acc = (s, acc') /\ pND acc' /\
    forall (E : ips) (rho : nat -> E) (w : E),
      ip rho w acc' = ip rho w acc + dsum nat (fun i => ip rho w (gof (firsts s x i))) W.
Proof.
  induction W as [|[i q] W IH]; intros acc Hev Na Nf; cbn [sum_grads].
  - exists acc. split; [reflexivity|]. split; [exact Na|]. intros; cbn; lra.
  - destruct (Hev i q (or_introl eq_refl)) as [Hevi Hri].
    destruct (evald_firsts s x i Hevi) as (_ & _ & Hfp).
    unfold leaf_oracle. rewrite Hfp, Hri.
    pose proof (Nf i q (or_introl eq_refl)) as Nfi.
    destruct (IH (p_add acc (p_scal q (gof (firsts s x i))))) as (acc' & He & Na' & Hs).
    + intros j qj Hj. apply (Hev j qj). right. exact Hj.
    + apply pND_add; [exact Na|apply pND_scal, Nfi].
    + intros j qj Hj. apply (Nf j qj). right. exact Hj.
    + exists acc'. split; [exact He|]. split; [exact Na'|].
      intros E rho w. rewrite Hs, ip_add, ip_scal by (auto using pND_scal). cbn [dsum]. lra.
Qed.

(** the value stored for a composite at a point is the weighted sum of the FIRST values stored for
    its terms at that point (by I3 for the stored sample and I1 for each term) *)
Lemma stored_value_is_sum s F x g0 v0 :
  inv s -> (F < nfun s)%nat -> f_leaf (getf s F) = false -> wfq s x ->
  find_pt (f_pts (getf s F)) x = Some (g0, v0) ->
  (forall i q, In (i, q) (f_w (getf s F)) -> evald s x i = true) ->
  forall (E : ips) (rho : nat -> E) (phi : nat -> R),
    evalE rho phi v0 = dsum nat (fun i => evalE rho phi (vof (firsts s x i))) (f_w (getf s F)).
Proof.
  intros Hinv HF HlF (Nx & _ & _) Hf Hev E rho phi.
  destruct (find_pt_Some _ _ _ _ Hf) as (x0 & Hin0 & He0).
  pose proof (ig_samples noP s Hinv F _ HF Hin0) as (N0 & _).
  destruct (ig_I3 noP s Hinv F _ HF HlF Hin0) as [[]|(ch & Hcov & _ & HsV)].
  unfold vof at 1 in HsV; cbn [snd] in HsV. rewrite HsV.
  destruct (ig_compw noP s Hinv F HF HlF) as (_ & _ & _ & Wleaf).
  apply dsum_ext. intros i Hi.
  apply key_lookup with (keqb := Nat.eqb) in Hi; [|exact nat_eqb_spec]. destruct Hi as [q Hq].
  apply (lookup_Some_In nat Nat.eqb nat_eqb_spec) in Hq.
  destruct (Hcov i q Hq) as [Hc1 Hc2]. unfold xof at 2 in Hc2; cbn [fst] in Hc2.
  destruct (evald_firsts s x i (Hev i q Hq)) as (Hf1 & Hf2 & _).
  destruct (Wleaf i q Hq) as [Hi _].
  pose proof (ig_samples noP s Hinv i _ Hi Hc1) as (Nc & _).
  pose proof (ig_samples noP s Hinv i _ Hi Hf1) as (Nf & _).
  apply (ig_I1 noP s Hinv i (ch i) (firsts s x i) Hi Hc1 Hf1).
  apply (peqb_trans _ x0 _); auto. apply (peqb_trans _ x _); auto. apply peqb_sym; auto.
Qed.

Definition co_body (s : state) (F : fid) (x : pdict) (assoc : option (pdict * edict)) : state * (pdict * edict) :=
  let w := f_w (getf s F) in
  let '(n, go, gvl) := classify s w x in
  let '(s1, v) :=
    match assoc with
    | Some (_, v0) => (s, v0)
    | None => if is_nil gvl then sum_values s w x []
              else let '(v', s') := fresh_ex s in (s', v')
    end in
  let '(s2, g) :=
    if is_nil gvl && is_nil go then sum_grads s1 w x []
    else let '(g', s') := fresh_pt s1 in (s', g') in
  (comp_add_point s2 F (x, g, v), (prune g, prune v)).

Lemma is_nil_true {A} (l : list A) : is_nil l = true <-> l = [].
Proof. destruct l; cbn; split; congruence. Qed.

Lemma filter_gv_nil s x (W : wdict) :
  (forall i q, In (i, q) W -> evald s x i = true) -> filter (p_gv s x) W = [].
Proof.
  induction W as [|[i q] W IHW]; intros H; cbn [filter]; [reflexivity|].
  unfold p_gv at 1; cbn [fst]. rewrite (H i q (or_introl eq_refl)). cbn [negb].
  apply IHW. intros j qj Hj. apply (H j qj). right. exact Hj.
Qed.

Lemma filter_go_nil s x (W : wdict) :
  (forall i q, In (i, q) W -> f_reuse (getf s i) = true) -> filter (p_go s x) W = [].
Proof.
  induction W as [|[i q] W IHW]; intros H; cbn [filter]; [reflexivity|].
  unfold p_go at 1; cbn [fst]. rewrite (H i q (or_introl eq_refl)). rewrite andb_false_r.
  apply IHW. intros j qj Hj. apply (H j qj). right. exact Hj.
Qed.

Lemma co_body_inv s F x assoc :
  inv s -> (F < nfun s)%nat -> f_leaf (getf s F) = false -> wfq s x ->
  assoc = find_pt (f_pts (getf s F)) x ->
  (assoc <> None -> f_reuse (getf s F) = false) ->
  inv (fst (co_body s F x assoc)).
Proof.
  intros Hinv HF HlF Hq Hassoc Hnr.
  pose proof (wfq_prune s x Hq) as Hpx. pose proof Hq as (Nx & Hnz & Hk).
  set (W := f_w (getf s F)).
  destruct (ig_compw noP s Hinv F HF HlF) as (NW & Wne & Wnz & Wleaf). fold W in NW, Wne, Wnz, Wleaf.
  unfold co_body. fold W. rewrite classify_filter.
  set (go := filter (p_go s x) W). set (gv := filter (p_gv s x) W).
  (* facts shared by all cases *)
  assert (Hgv_all : gv = [] -> forall i q, In (i, q) W -> evald s x i = true).
  { intros Hgv i q Hin. pose proof (filter_nil_all _ _ Hgv (i, q) Hin) as A. unfold p_gv in A; cbn [fst] in A.
    destruct (evald s x i); [reflexivity|discriminate]. }
  assert (Hgo_all : gv = [] -> go = [] -> forall i q, In (i, q) W -> evald s x i = true /\ f_reuse (getf s i) = true).
  { intros Hgv Hgo i q Hin. pose proof (Hgv_all Hgv i q Hin) as A. split; [exact A|].
    pose proof (filter_nil_all _ _ Hgo (i, q) Hin) as B. unfold p_go in B; cbn [fst] in B. rewrite A in B.
    destruct (f_reuse (getf s i)); [reflexivity|discriminate]. }
  assert (Hall_gv : (forall i q, In (i, q) W -> evald s x i = true) -> gv = [])
    by (apply filter_gv_nil).
  assert (Hall_go : (forall i q, In (i, q) W -> f_reuse (getf s i) = true) -> go = [])
    by (apply filter_go_nil).
  assert (Nfv : (forall i q, In (i, q) W -> evald s x i = true) ->
                forall i q, In (i, q) W -> pND (gof (firsts s x i)) /\ eND (vof (firsts s x i))).
  { intros Hev i q Hin. destruct (evald_firsts s x i (Hev i q Hin)) as (A & _).
    destruct (Wleaf i q Hin) as [Hi _]. pose proof (ig_samples noP s Hinv i _ Hi A) as (_ & B & C & _). auto. }
  (* F's own condition for the new sample *)
  assert (Hown : forall v, (forall g0 v0, assoc = Some (g0, v0) -> v = v0) ->
     find_pt (f_pts (getf s F)) (prune x) = None \/
     (f_reuse (getf s F) = false /\
      forall t0, In t0 (f_pts (getf s F)) -> dict_eqb Nat.eqb (xof t0) (prune x) = true -> eeq (vof t0) v)).
  { intros v Hv. rewrite Hpx. destruct assoc as [[g0 v0]|] eqn:Ha; [|left; symmetry; exact Hassoc].
    right. split; [apply Hnr; discriminate|]. rewrite (Hv g0 v0 eq_refl).
    symmetry in Hassoc. destruct (find_pt_Some _ _ _ _ Hassoc) as (x0 & Hin0 & He0).
    pose proof (ig_samples noP s Hinv F _ HF Hin0) as (N0 & _).
    intros t0 Ht0 He. pose proof (ig_samples noP s Hinv F _ HF Ht0) as (Nt & _).
    apply (ig_I1 noP s Hinv F t0 (x0, g0, v0) HF Ht0 Hin0).
    apply (peqb_trans _ x _); auto. apply peqb_sym; auto. }
  (* conclusion from the data of the new sample *)
  assert (Hfin : forall a b g v,
     (pt_ctr s <= a)%nat -> pND g -> eND v ->
     (forall g0 v0, assoc = Some (g0, v0) -> v = v0) ->
     ((forall i q, In (i, q) W -> evald s x i = true) ->
        (forall (E : ips) (rho : nat -> E) (phi : nat -> R),
            evalE rho phi v = dsum nat (fun i => evalE rho phi (vof (firsts s x i))) W) /\
        ((forall i q, In (i, q) W -> f_reuse (getf s i) = true) ->
           forall (E : ips) (rho : nat -> E) (w : E),
             ip rho w g = dsum nat (fun i => ip rho w (gof (firsts s x i))) W)) ->
     inv (comp_add_point (mkS a b (funs s)) F (x, g, v))).
  { intros a b g v Ha Ng Nv Hv Hs.
    apply (comp_add_point_inv (mkS a b (funs s)) F x g v (inv_bump noP s a b Hinv Ha) HF HlF Nx Ng Nv).
    - intros k Hkk. specialize (Hk k Hkk). cbn. lia.
    - apply (Hown v Hv).
    - rewrite Hpx. exact Hs. }
  destruct assoc as [[g0 v0]|] eqn:Ha.
  - (* evaluated, not differentiable: stored value, new gradient *)
    symmetry in Hassoc.
    destruct (find_pt_Some _ _ _ _ Hassoc) as (x0 & Hin0 & He0).
    pose proof (ig_samples noP s Hinv F _ HF Hin0) as (_ & _ & Nv0 & _). unfold vof in Nv0; cbn in Nv0.
    assert (HV : (forall i q, In (i, q) W -> evald s x i = true) ->
                 forall (E : ips) (rho : nat -> E) (phi : nat -> R),
                   evalE rho phi v0 = dsum nat (fun i => evalE rho phi (vof (firsts s x i))) W).
    { intros Hev. apply (stored_value_is_sum s F x g0 v0); auto. }
    destruct (is_nil gv && is_nil go) eqn:Hb.
    + apply andb_true_iff in Hb as [Hb1 Hb2]. apply is_nil_true in Hb1, Hb2.
      destruct (sum_grads_all s x W [] (Hgo_all Hb1 Hb2) pND_nil) as (gs & Hgs & Ngs & Hsg).
      { intros i q Hin. apply (Nfv (Hgv_all Hb1) i q Hin). }
      rewrite Hgs. cbn [fst].
      destruct s as [a b fs]. apply (Hfin a b gs v0); auto.
      * intros ? ? [= _ <-]. reflexivity.
      * intros Hev. split; [apply HV, Hev|]. intros _ E rho w. rewrite Hsg, ip_nil. lra.
    + cbn [fresh_pt fst]. apply (Hfin (S (pt_ctr s)) (ex_ctr s) [(pt_ctr s, 1%Q)] v0); auto.
      * apply pND_single.
      * intros ? ? [= _ <-]. reflexivity.
      * intros Hev. split; [apply HV, Hev|]. intros Hre. exfalso.
        rewrite (Hall_gv Hev), (Hall_go Hre) in Hb. discriminate.
  - (* never evaluated *)
    destruct (is_nil gv) eqn:Hb1.
    + apply is_nil_true in Hb1.
      destruct (sum_values_all s x W [] (Hgv_all Hb1) eND_nil) as (vs & Hvs & Nvs & Hsv).
      { intros i q Hin. apply (Nfv (Hgv_all Hb1) i q Hin). }
      rewrite Hvs. cbn [andb].
      destruct (is_nil go) eqn:Hb2.
      * apply is_nil_true in Hb2.
        destruct (sum_grads_all s x W [] (Hgo_all Hb1 Hb2) pND_nil) as (gs & Hgs & Ngs & Hsg).
        { intros i q Hin. apply (Nfv (Hgv_all Hb1) i q Hin). }
        rewrite Hgs. cbn [fst].
        destruct s as [a b fs]. apply (Hfin a b gs vs); auto; [discriminate|].
        intros Hev. split.
        -- intros E rho phi. rewrite Hsv. cbn [evalE]. lra.
        -- intros _ E rho w. rewrite Hsg, ip_nil. lra.
      * cbn [fresh_pt fst]. apply (Hfin (S (pt_ctr s)) (ex_ctr s) [(pt_ctr s, 1%Q)] vs); auto.
        -- apply pND_single.
        -- discriminate.
        -- intros Hev. split.
           ++ intros E rho phi. rewrite Hsv. cbn [evalE]. lra.
           ++ intros Hre. exfalso. rewrite (Hall_go Hre) in Hb2. discriminate.
    + cbn [fresh_ex fresh_pt andb fst].
      apply (Hfin (S (pt_ctr s)) (S (ex_ctr s)) [(pt_ctr s, 1%Q)] [(KF (ex_ctr s), 1%Q)]); auto.
      * apply pND_single.
      * apply eND_single.
      * discriminate.
      * intros Hev. exfalso. rewrite (Hall_gv Hev) in Hb1. discriminate.
Qed.

Lemma comp_oracle_inv s F x :
  inv s -> (F < nfun s)%nat -> f_leaf (getf s F) = false -> wfq s x ->
  inv (fst (comp_oracle s F x)).
Proof.
  intros Hinv HF HlF Hq.
  assert (Hun : comp_oracle s F x =
                match find_pt (f_pts (getf s F)) x, f_reuse (getf s F) with
                | Some gv, true => (s, gv)
                | a, _ => co_body s F x a
                end).
  { unfold comp_oracle, co_body. cbv zeta.
    destruct (find_pt (f_pts (getf s F)) x) as [[g0 v0]|]; destruct (f_reuse (getf s F)); reflexivity. }
  rewrite Hun.
  destruct (find_pt (f_pts (getf s F)) x) as [[g0 v0]|] eqn:Hf; destruct (f_reuse (getf s F)) eqn:Hr;
    try exact Hinv; apply co_body_inv; auto; try congruence.
Qed.
