(** C03 — class constraints never exclude a real member of the class: the 24 class theorems.

    Statement shape ([stmt_<Class> plan], proved for [plan := plan_<Class>] of Gen/Classes.v, the plan
    and formulas the translator reads from /repo on every run):
      for every real inner-product space E, every valuation (rho, phi) of the leaf points / leaf
      expressions, every real member of the class with parameters in the documented range, every
      generator state [st] whose parameter table agrees with the member's parameters, whose
      dictionaries have unique keys ([wf_state]) and whose recorded samples are all valued at genuine
      samples of the member:  [all_satisfied rho phi (run_plan plan st)], i.e. EVERY generated scalar
      constraint holds and EVERY generated LMI evaluates to a symmetric positive semidefinite matrix.
    Samples are arbitrary lists: any number, any order, repetitions, stationary points, fixed points.

    One pipeline for all classes: [plan_sound] (C03Core.v) reduces the claim to the items of the
    plan; [c03_plan] splits the plan into its items whatever their number; every item is closed by
    [pair_item feq mem] / [single_item feq mem] / [lmi_item feq ref mem]: the constraint object means
    its source formula ([compileC_holds]), the formula is the reference condition ([feq], FormulaEq.v:
    this is where a changed coefficient in the Python source breaks the build), and a genuine sample
    of a real member satisfies the reference condition ([mem], Members{A,B,C}.v). *)
From Coq Require Import List QArith Reals Qreals Lra Bool Arith Lia String.
From PV Require Import Base.IPS Model.Dict Model.Terms Model.ClassGen Spec.Sem Spec.Reference Spec.Classes.
From PV Require Import Proofs.DictLemmas Proofs.SemLemmas Proofs.ClassGenLemmas Proofs.FormulaEq Proofs.C04Lemmas.
From PV Require Import Proofs.MembersA Proofs.MembersB Proofs.MembersC Proofs.C03Core.
From PV Require Import Gen.Classes.
Import ListNotations.
Local Open Scope R_scope.

(** * the pipeline *)

(** formula variables -> values of the two samples *)
Ltac vars :=
  rewrite ?upR_0, ?upR_1, ?upR_2, ?upR_3, ?upR_4, ?upR_5, ?uxR_0, ?uxR_1, ?uxR_2,
          ?upB_0, ?upB_2, ?upB_3, ?upB_6, ?upB_7, ?parB_6.

(** parameter table -> the member's parameters *)
Ltac pars :=
  unfold parR, par_is in *;
  repeat match goal with
         | H : Q2R (f_par ?st ?p) = _ |- context [Q2R (f_par ?st ?p)] => rewrite H
         end.

(** a recorded sample is genuine *)
Ltac genuine :=
  match goal with
  | H : forall s, In s _ -> _, Hi : In ?si _ |- _ => exact (H si Hi)
  end.

Ltac side := first [eassumption | genuine | lra | (split; lra) | exact I].

(** the parameter guards of a [feq_*] lemma (no division by zero in the source formula) *)
Ltac feq_guard := pars; first [lra | (intros ?Hz; lra)].

(** after [eapply inst_holds_ref]: 4th goal = the formula is the reference, 5th = the reference holds *)
Ltac by_ref feq mem :=
  [> apply feq; feq_guard
   | unfold sat; cbn [fst snd]; vars; pars; eapply mem; side ].

Ltac pair_item Hwf feq mem :=
  let si := fresh "si" in let sj := fresh "sj" in let Hi := fresh "Hi" in let Hj := fresh "Hj" in
  cbn [get_list]; intros si sj Hi Hj;
  eapply inst_holds_ref;
  [ exact Hwf
  | first [exact (proj1 Hwf si Hi) | exact (proj1 (proj2 Hwf) si Hi)]
  | first [exact (proj1 Hwf sj Hj) | exact (proj1 (proj2 (proj2 Hwf)) sj Hj)]
  | .. ]; by_ref feq mem.

Ltac single_item Hwf feq mem :=
  let si := fresh "si" in let Hi := fresh "Hi" in
  cbn [get_list]; intros si Hi;
  eapply inst_holds_ref;
  [ exact Hwf | exact (proj1 Hwf si Hi) | exact (proj1 Hwf si Hi) | .. ]; by_ref feq mem.

(** [ref]: the reference entry as a function of (x_i, g_i, x_j, g_j); [mem]: the matrix over the
    genuine samples is PSD and symmetric *)
Ltac lmi_item Hwf feq ref mem :=
  let si := fresh "si" in let sj := fresh "sj" in let Hi := fresh "Hi" in let Hj := fresh "Hj" in
  let Hd := fresh "Hd" in let He := fresh "He" in
  (* an LMI statement guarded by `if N > 0` (Guarded (GNonEmpty l) (LMI l entry)): the guard is not needed *)
  try (intros _);
  eapply (lmi_ok_ref _ _ _ _ _ ref);
  [ exact Hwf
  | intros si sj Hi Hj;
    match goal with
    | |- xdef ?par _ /\ denoteX _ ?up ?ux _ = _ => destruct (feq par up ux) as [Hd He]
    end;
    split; [exact Hd | rewrite He; vars; pars; reflexivity]
  | cbn [get_list]; eapply mem; [eassumption | apply in_map_sval; assumption] ].

(** split a plan into its items, however many there are *)
Ltac c03_plan :=
  apply plan_sound; [vm_compute; reflexivity|];
  match goal with |- Forall _ ?plan => unfold plan end;
  cbn [start_state item_state];
  repeat (apply Forall_cons; [cbn [item_ok]|]); [..|apply Forall_nil].

(** plans that start with [AutoStationary]: the items are sound at [st' := start_state plan st] *)
Ltac c03_plan_auto st' :=
  apply plan_sound; [vm_compute; reflexivity|];
  fold st';
  match goal with |- Forall _ ?plan => unfold plan end;
  repeat (apply Forall_cons; [cbn [item_ok]|]); [exact I|..|apply Forall_nil].

Section C03.
  Context {E : ips}.
  Variable rho : nat -> E.
  Variable phi : nat -> R.

  Notation sval := (sval rho phi).
  Notation px := (px rho).
  Notation pg := (pg rho).
  Notation pf := (pf rho phi).
  Notation ok := (all_satisfied rho phi).

  (** ** function classes with subgradient oracles *)

  Definition stmt_ConvexFunction (plan : list plan_item) : Prop :=
    forall (F : fn) st, wf_state st ->
      (forall s, In s (f_points st) -> genuine_sub F (sval s)) ->
      ok (run_plan plan st).

  Lemma c03_ConvexFunction : stmt_ConvexFunction plan_ConvexFunction.
  Proof.
    intros F st Hwf Hpts. c03_plan.
    - pair_item Hwf (@feq_convex E) (mem_convex F).
  Qed.

  Definition stmt_StronglyConvexFunction (plan : list plan_item) : Prop :=
    forall (mu : R) (F : fn) st, 0 <= mu -> strongly_convex_member mu F ->
      par_is st 1 mu -> wf_state st ->
      (forall s, In s (f_points st) -> genuine_sub F (sval s)) ->
      ok (run_plan plan st).

  Lemma c03_StronglyConvexFunction : stmt_StronglyConvexFunction plan_StronglyConvexFunction.
  Proof.
    intros mu F st Hmu HF Hpmu Hwf Hpts. c03_plan.
    - pair_item Hwf (@feq_strongly_convex E) (mem_strongly_convex mu F).
  Qed.

  Definition stmt_ConvexLipschitzFunction (plan : list plan_item) : Prop :=
    forall (M : R) (F : fn) st, 0 <= M -> lipschitz_fn M F ->
      par_is st 2 M -> wf_state st ->
      (forall s, In s (f_points st) -> genuine_sub F (sval s)) ->
      ok (run_plan plan st).

  Lemma c03_ConvexLipschitzFunction : stmt_ConvexLipschitzFunction plan_ConvexLipschitzFunction.
  Proof.
    intros M F st HM HF HpM Hwf Hpts. c03_plan.
    - single_item Hwf (@feq_clip_bound E) (mem_lipschitz_bound M F).
    - pair_item Hwf (@feq_clip_convex E) (mem_convex F).
  Qed.

  (** ConvexIndicatorFunction(D): [D = None] is [D = np.inf] (the plan's guard then removes the
      diameter conditions) *)
  Definition stmt_ConvexIndicatorFunction (plan : list plan_item) : Prop :=
    forall (D : option R) (F : fn) st, indicator_member D F ->
      opt_par_is st 3 D -> wf_state st ->
      (forall s, In s (f_points st) -> genuine_sub F (sval s)) ->
      ok (run_plan plan st).

  Lemma c03_ConvexIndicatorFunction : stmt_ConvexIndicatorFunction plan_ConvexIndicatorFunction.
  Proof.
    intros D F st HF HpD Hwf Hpts. c03_plan.
    - single_item Hwf (@feq_ind_value E) (mem_ind_value D F).
    - pair_item Hwf (@feq_ind_normal E) (mem_ind_normal D F).
    - intros Hg. destruct (guard_finite_Some st 3 D HpD Hg) as (d & -> & Hd).
      pair_item Hwf (@feq_ind_diameter E) (mem_ind_diameter d F).
  Qed.

  (** ConvexSupportFunction(M): the support function sigma of a set C inside the ball of radius M
      ([M = None]: no bound); a sample is (x, g, sigma x) with g a maximiser of <., x> over C *)
  Definition stmt_ConvexSupportFunction (plan : list plan_item) : Prop :=
    forall (M : option R) (C : E -> Prop) (sigma : E -> R) st, support_member M C sigma ->
      opt_par_is st 2 M -> wf_state st ->
      (forall s, In s (f_points st) -> genuine_support C sigma (sval s)) ->
      ok (run_plan plan st).

  Lemma c03_ConvexSupportFunction : stmt_ConvexSupportFunction plan_ConvexSupportFunction.
  Proof.
    intros M C sigma st HF HpM Hwf Hpts. c03_plan.
    - single_item Hwf (@feq_sup_fenchel E) (mem_sup_fenchel M C sigma).
    - intros Hg. destruct (guard_finite_Some st 2 M HpM Hg) as (m & -> & Hm).
      single_item Hwf (@feq_sup_bound E) (mem_sup_bound m C sigma).
    - pair_item Hwf (@feq_sup_convex E) (mem_sup_convex M C sigma).
  Qed.

  (** ConvexQGFunction(L).  The plan starts with [AutoStationary]: when no stationary point was
      recorded PEPit declares one itself.  The hypotheses therefore speak about the state the
      generator really works on, [start_state plan st]: it is [st] when a stationary sample was
      recorded, and [st] plus [fresh_stationary st] (fresh leaf point, empty gradient, fresh leaf
      value) otherwise -- so in the automatic case the valuation of the two fresh leaves is
      quantified too, under the hypothesis that the fresh point is valued at a minimiser and the
      fresh expression at its value.  A stationary sample is a minimiser: 0 is a subgradient there. *)
  Definition stmt_ConvexQGFunction (plan : list plan_item) : Prop :=
    forall (L : R) (F : fn) st, 0 < L -> qg_member L F ->
      par_is st 0 L -> wf_state st ->
      (forall s, In s (f_points (start_state plan st)) -> genuine_sub F (sval s)) ->
      (forall s, In s (f_stat (start_state plan st)) -> genuine_sub F (px s, vzero, pf s)) ->
      ok (run_plan plan st).

  Lemma start_state_par plan st p v : par_is st p v -> par_is (start_state plan st) p v.
  Proof.
    unfold par_is. destruct plan as [|[] plan]; try (intros H; exact H).
    cbn [start_state item_state]. destruct (f_stat st); intros H; exact H.
  Qed.

  Lemma c03_ConvexQGFunction : stmt_ConvexQGFunction plan_ConvexQGFunction.
  Proof.
    intros L F st HL HF HpL0 Hwf0 Hpts Hstat.
    pose proof (wf_start_state plan_ConvexQGFunction st Hwf0) as Hwf.
    pose proof (start_state_par plan_ConvexQGFunction st 0 L HpL0) as HpL.
    set (st' := start_state plan_ConvexQGFunction st) in *.
    c03_plan_auto st'.
    - pair_item Hwf (@feq_qg_qg E) (mem_qg L F).
    - pair_item Hwf (@feq_qg_convex E) (mem_convex F).
  Qed.

  (** the two ways the state the generator works on comes about *)
  Lemma start_state_recorded plan st : f_stat st <> [] -> start_state plan st = st.
  Proof. intros H. destruct plan as [|[] plan]; try reflexivity. cbn. destruct (f_stat st); [contradiction|reflexivity]. Qed.

  Lemma start_state_auto plan st :
    f_stat st = [] -> start_state (AutoStationary :: plan) st = auto_stationary st.
  Proof. intros H. cbn. rewrite H. reflexivity. Qed.

  (** ... a stationary point was recorded (PEPit creates nothing): hypotheses about [st] itself *)
  Corollary c03_ConvexQGFunction_recorded (L : R) (F : fn) st :
    0 < L -> qg_member L F -> par_is st 0 L -> wf_state st -> f_stat st <> [] ->
    (forall s, In s (f_points st) -> genuine_sub F (sval s)) ->
    (forall s, In s (f_stat st) -> genuine_sub F (px s, vzero, pf s)) ->
    ok (run_plan plan_ConvexQGFunction st).
  Proof.
    intros HL HF HpL Hwf Hne Hpts Hstat. apply (c03_ConvexQGFunction L F st HL HF HpL Hwf);
      rewrite (start_state_recorded _ st Hne); assumption.
  Qed.

  (** ... none was recorded: PEPit declares [fresh_stationary st]; the fresh leaf point must be valued
      at a minimiser of F and the fresh leaf expression at its value *)
  Corollary c03_ConvexQGFunction_auto (L : R) (F : fn) st :
    0 < L -> qg_member L F -> par_is st 0 L -> wf_state st -> f_stat st = [] ->
    (forall s, In s (f_points st) -> genuine_sub F (sval s)) ->
    genuine_sub F (px (fresh_stationary st), vzero, pf (fresh_stationary st)) ->
    ok (run_plan plan_ConvexQGFunction st).
  Proof.
    intros HL HF HpL Hwf He Hpts Hfresh. apply (c03_ConvexQGFunction L F st HL HF HpL Hwf);
      unfold plan_ConvexQGFunction; rewrite (start_state_auto _ st He);
      destruct (auto_stationary_lists st) as (Ep & Es & _); rewrite ?Ep, ?Es, ?He; intros s Hs.
    - apply in_app_iff in Hs as [Hs|[<-|[]]]; [exact (Hpts s Hs)|exact Hfresh].
    - destruct Hs as [<-|[]]. exact Hfresh.
  Qed.

  (** ** differentiable function classes: a sample is (x, grad F x, F x) *)

  Definition stmt_SmoothConvexFunction (plan : list plan_item) : Prop :=
    forall (L : R) (F : dfn) st, 0 < L -> smooth_convex_member L F ->
      par_is st 0 L -> wf_state st ->
      (forall s, In s (f_points st) -> genuine_grad F (sval s)) ->
      ok (run_plan plan st).

  Lemma c03_SmoothConvexFunction : stmt_SmoothConvexFunction plan_SmoothConvexFunction.
  Proof.
    intros L F st HL HF HpL Hwf Hpts. c03_plan.
    - pair_item Hwf (@feq_smooth_convex E) (mem_smooth_convex L F).
  Qed.

  Definition stmt_SmoothFunction (plan : list plan_item) : Prop :=
    forall (L : R) (F : dfn) st, 0 < L -> smooth_member L F ->
      par_is st 0 L -> wf_state st ->
      (forall s, In s (f_points st) -> genuine_grad F (sval s)) ->
      ok (run_plan plan st).

  Lemma c03_SmoothFunction : stmt_SmoothFunction plan_SmoothFunction.
  Proof.
    intros L F st HL HF HpL Hwf Hpts. c03_plan.
    - pair_item Hwf (@feq_smooth E) (mem_smooth L F).
  Qed.

  Definition stmt_SmoothStronglyConvexFunction (plan : list plan_item) : Prop :=
    forall (mu L : R) (F : dfn) st, 0 <= mu < L -> smooth_strongly_convex_member mu L F ->
      par_is st 0 L -> par_is st 1 mu -> wf_state st ->
      (forall s, In s (f_points st) -> genuine_grad F (sval s)) ->
      ok (run_plan plan st).

  Lemma c03_SmoothStronglyConvexFunction : stmt_SmoothStronglyConvexFunction plan_SmoothStronglyConvexFunction.
  Proof.
    intros mu L F st HmuL HF HpL Hpmu Hwf Hpts. c03_plan.
    - pair_item Hwf (@feq_ssc E) (mem_smooth_strongly_convex mu L F).
  Qed.

  Definition stmt_SmoothConvexLipschitzFunction (plan : list plan_item) : Prop :=
    forall (L M : R) (F : dfn) st, 0 < L -> 0 <= M -> smooth_convex_lipschitz_member L M F ->
      par_is st 0 L -> par_is st 2 M -> wf_state st ->
      (forall s, In s (f_points st) -> genuine_grad F (sval s)) ->
      ok (run_plan plan st).

  Lemma c03_SmoothConvexLipschitzFunction : stmt_SmoothConvexLipschitzFunction plan_SmoothConvexLipschitzFunction.
  Proof.
    intros L M F st HL HM HF HpL HpM Hwf Hpts. c03_plan.
    - pair_item Hwf (@feq_scl_smooth_convex E) (mem_scl_smooth_convex L M F).
    - single_item Hwf (@feq_scl_bound E) (mem_scl_bound L M F).
  Qed.

  (** RsiEbFunction(mu, L).  [rsi_eb_member mu L F xs] is relative to ONE stationary point xs
      (restricted secant inequality and error bound around xs).  PEPit instantiates both conditions on
      every pair (stationary sample, sample), so the theorem is stated under the guard that F is a
      member relative to the value of EVERY recorded stationary sample -- in particular when all
      stationary samples are valued at the member's xs ([c03_RsiEbFunction_one_xs]).  (With two
      stationary samples valued at different minimisers of a function satisfying RSI/EB around only
      one of them the generated constraints do exclude the function; whether that use is admissible
      is not settled by the documentation, see DESIGN.md 5.3.)
      As for ConvexQGFunction the hypotheses speak about [start_state plan st] (automatic stationary
      point); no range restriction on mu, L is needed. *)
  Definition stmt_RsiEbFunction (plan : list plan_item) : Prop :=
    forall (mu L : R) (F : dfn) st,
      par_is st 0 L -> par_is st 1 mu -> wf_state st ->
      (forall s, In s (f_stat (start_state plan st)) -> rsi_eb_member mu L F (px s)) ->
      (forall s, In s (f_points (start_state plan st)) -> genuine_grad F (sval s)) ->
      (forall s, In s (f_stat (start_state plan st)) -> genuine_grad F (sval s)) ->
      ok (run_plan plan st).

  Ltac rsi_member Hmem :=
    match goal with Hi : In ?si (f_stat _) |- _ => exact (Hmem si Hi) end.

  Lemma c03_RsiEbFunction : stmt_RsiEbFunction plan_RsiEbFunction.
  Proof.
    intros mu L F st HpL0 Hpmu0 Hwf0 Hmem Hpts Hstat.
    pose proof (wf_start_state plan_RsiEbFunction st Hwf0) as Hwf.
    pose proof (start_state_par plan_RsiEbFunction st 0 L HpL0) as HpL.
    pose proof (start_state_par plan_RsiEbFunction st 1 mu Hpmu0) as Hpmu.
    set (st' := start_state plan_RsiEbFunction st) in *.
    c03_plan_auto st'.
    - pair_item Hwf (@feq_rsi E) (mem_rsi_strong_monotone mu L F); rsi_member Hmem.
    - pair_item Hwf (@feq_eb E) (mem_rsi_lipschitz mu L F); rsi_member Hmem.
  Qed.

  Corollary c03_RsiEbFunction_one_xs (mu L : R) (F : dfn) (xs : E) st :
    rsi_eb_member mu L F xs ->
    par_is st 0 L -> par_is st 1 mu -> wf_state st -> f_stat st <> [] ->
    (forall s, In s (f_stat st) -> px s = xs) ->
    (forall s, In s (f_points st) -> genuine_grad F (sval s)) ->
    (forall s, In s (f_stat st) -> genuine_grad F (sval s)) ->
    ok (run_plan plan_RsiEbFunction st).
  Proof.
    intros HF HpL Hpmu Hwf Hne Hxs Hpts Hstat. apply (c03_RsiEbFunction mu L F st HpL Hpmu Hwf);
      rewrite (start_state_recorded _ st Hne); try assumption.
    intros s Hs. rewrite (Hxs s Hs). exact HF.
  Qed.

  Corollary c03_RsiEbFunction_auto (mu L : R) (F : dfn) st :
    rsi_eb_member mu L F (px (fresh_stationary st)) ->
    par_is st 0 L -> par_is st 1 mu -> wf_state st -> f_stat st = [] ->
    (forall s, In s (f_points st) -> genuine_grad F (sval s)) ->
    genuine_grad F (sval (fresh_stationary st)) ->
    ok (run_plan plan_RsiEbFunction st).
  Proof.
    intros HF HpL Hpmu Hwf He Hpts Hfresh. apply (c03_RsiEbFunction mu L F st HpL Hpmu Hwf);
      unfold plan_RsiEbFunction; rewrite (start_state_auto _ st He);
      destruct (auto_stationary_lists st) as (Ep & Es & _); rewrite ?Ep, ?Es, ?He; intros s Hs.
    - destruct Hs as [<-|[]]. exact HF.
    - apply in_app_iff in Hs as [Hs|[<-|[]]]; [exact (Hpts s Hs)|exact Hfresh].
    - destruct Hs as [<-|[]]. exact Hfresh.
  Qed.

  (** SmoothStronglyConvexQuadraticFunction(mu, L): F x = fs + 1/2 <x - xs, Q (x - xs)> with Q linear
      self-adjoint, mu |u|^2 <= <Q u, u> <= L |u|^2; xs, fs are the values of the first stationary
      sample ([self.list_of_stationary_points[0]], created by the constructor), which the formulas
      refer to.  No range restriction on mu, L beyond the member's own. *)
  Definition stmt_SmoothStronglyConvexQuadraticFunction (plan : list plan_item) : Prop :=
    forall (mu L : R) (Q : E -> E) st, sa_bounded mu L Q ->
      par_is st 0 L -> par_is st 1 mu -> wf_state st ->
      (forall s, In s (f_points st) -> genuine_quad Q (stat_x rho st) (stat_f rho phi st) (sval s)) ->
      ok (run_plan plan st).

  Lemma c03_SmoothStronglyConvexQuadraticFunction :
    stmt_SmoothStronglyConvexQuadraticFunction plan_SmoothStronglyConvexQuadraticFunction.
  Proof.
    intros mu L Q st HQ HpL Hpmu Hwf Hpts. c03_plan.
    - single_item Hwf (@feq_quad_value E) (mem_quad_value mu L Q (stat_x rho st) (stat_f rho phi st)).
    - pair_item Hwf (@feq_quad_sym E) (mem_quad_sym mu L Q (stat_x rho st) (stat_f rho phi st)).
    - lmi_item Hwf (@feq_quad_lmi E) (fun xi gi xj gj : E => ref_quad_lmi mu L xi gi xj gj (stat_x rho st))
               (mem_quad_lmi mu L Q (stat_x rho st) (stat_f rho phi st)).
  Qed.

  (** ** operator classes: a sample is (x, g) with g in A(x) *)

  Definition stmt_MonotoneOperator (plan : list plan_item) : Prop :=
    forall (A : graph) st, monotone_op A -> wf_state st ->
      (forall s, In s (f_points st) -> genuine_op A (sval s)) ->
      ok (run_plan plan st).

  Lemma c03_MonotoneOperator : stmt_MonotoneOperator plan_MonotoneOperator.
  Proof.
    intros A st HA Hwf Hpts. c03_plan.
    - pair_item Hwf (@feq_monotone E) (mem_monotone A).
  Qed.

  Definition stmt_StronglyMonotoneOperator (plan : list plan_item) : Prop :=
    forall (mu : R) (A : graph) st, strongly_monotone_op mu A -> par_is st 1 mu -> wf_state st ->
      (forall s, In s (f_points st) -> genuine_op A (sval s)) ->
      ok (run_plan plan st).

  Lemma c03_StronglyMonotoneOperator : stmt_StronglyMonotoneOperator plan_StronglyMonotoneOperator.
  Proof.
    intros mu A st HA Hpmu Hwf Hpts. c03_plan.
    - pair_item Hwf (@feq_strongly_monotone E) (mem_strong_monotone mu A).
  Qed.

  Definition stmt_CocoerciveOperator (plan : list plan_item) : Prop :=
    forall (beta : R) (A : graph) st, cocoercive_op beta A -> par_is st 4 beta -> wf_state st ->
      (forall s, In s (f_points st) -> genuine_op A (sval s)) ->
      ok (run_plan plan st).

  Lemma c03_CocoerciveOperator : stmt_CocoerciveOperator plan_CocoerciveOperator.
  Proof.
    intros beta A st HA Hpb Hwf Hpts. c03_plan.
    - pair_item Hwf (@feq_cocoercive E) (mem_cocoercive beta A).
  Qed.

  Definition stmt_NegativelyComonotoneOperator (plan : list plan_item) : Prop :=
    forall (rh : R) (A : graph) st, neg_comonotone_op rh A -> par_is st 5 rh -> wf_state st ->
      (forall s, In s (f_points st) -> genuine_op A (sval s)) ->
      ok (run_plan plan st).

  Lemma c03_NegativelyComonotoneOperator : stmt_NegativelyComonotoneOperator plan_NegativelyComonotoneOperator.
  Proof.
    intros rh A st HA Hpr Hwf Hpts. c03_plan.
    - pair_item Hwf (@feq_neg_comonotone E) (mem_neg_comonotone rh A).
  Qed.

  Definition stmt_LipschitzOperator (plan : list plan_item) : Prop :=
    forall (L : R) (A : graph) st, lipschitz_op L A -> par_is st 0 L -> wf_state st ->
      (forall s, In s (f_points st) -> genuine_op A (sval s)) ->
      ok (run_plan plan st).

  Lemma c03_LipschitzOperator : stmt_LipschitzOperator plan_LipschitzOperator.
  Proof.
    intros L A st HA HpL Hwf Hpts. c03_plan.
    - pair_item Hwf (@feq_lipschitz E) (mem_lipschitz L A).
  Qed.

  Definition stmt_LipschitzStronglyMonotoneOperator (plan : list plan_item) : Prop :=
    forall (mu L : R) (A : graph) st, lipschitz_strongly_monotone_op mu L A ->
      par_is st 0 L -> par_is st 1 mu -> wf_state st ->
      (forall s, In s (f_points st) -> genuine_op A (sval s)) ->
      ok (run_plan plan st).

  Lemma c03_LipschitzStronglyMonotoneOperator :
    stmt_LipschitzStronglyMonotoneOperator plan_LipschitzStronglyMonotoneOperator.
  Proof.
    intros mu L A st HA HpL Hpmu Hwf Hpts. c03_plan.
    - pair_item Hwf (@feq_lsm_strong E) (mem_lsm_strong_monotone mu L A).
    - pair_item Hwf (@feq_lsm_lipschitz E) (mem_lsm_lipschitz mu L A).
  Qed.

  Definition stmt_CocoerciveStronglyMonotoneOperator (plan : list plan_item) : Prop :=
    forall (mu beta : R) (A : graph) st, cocoercive_strongly_monotone_op mu beta A ->
      par_is st 1 mu -> par_is st 4 beta -> wf_state st ->
      (forall s, In s (f_points st) -> genuine_op A (sval s)) ->
      ok (run_plan plan st).

  Lemma c03_CocoerciveStronglyMonotoneOperator :
    stmt_CocoerciveStronglyMonotoneOperator plan_CocoerciveStronglyMonotoneOperator.
  Proof.
    intros mu beta A st HA Hpmu Hpb Hwf Hpts. c03_plan.
    - pair_item Hwf (@feq_csm_cocoercive E) (mem_csm_cocoercive mu beta A).
    - pair_item Hwf (@feq_csm_strong E) (mem_csm_strong_monotone mu beta A).
  Qed.

  (** NonexpansiveOperator, with or without a declared infimal displacement vector: when
      [self.v] is set ([f_v st = Some d]) its value must be the infimal displacement vector of A *)
  Definition stmt_NonexpansiveOperator (plan : list plan_item) : Prop :=
    forall (A : graph) st, nonexpansive_op A ->
      (forall d, f_v st = Some d -> inf_displacement A (evalP rho d)) ->
      wf_state st ->
      (forall s, In s (f_points st) -> genuine_op A (sval s)) ->
      ok (run_plan plan st).

  Lemma c03_NonexpansiveOperator : stmt_NonexpansiveOperator plan_NonexpansiveOperator.
  Proof.
    intros A st HA Hv Hwf Hpts. c03_plan.
    - pair_item Hwf (@feq_nonexpansive E) (mem_nonexpansive A).
    - cbn [guard_true]. intros Hg.
      assert (HAv : nonexpansive_with_displacement A (v_val rho st)).
      { split; [exact HA|]. unfold v_val. destruct (f_v st) as [d|] eqn:Ev; [|discriminate]. exact (Hv d eq_refl). }
      single_item Hwf (@feq_inf_displacement E) (mem_inf_displacement A (v_val rho st)).
  Qed.

  (** ** linear operator classes (scalar conditions + LMI) *)

  (** LinearOperator(L): samples of M on the operator, samples of its transpose Mt on [self.T] *)
  Definition stmt_LinearOperator (plan : list plan_item) : Prop :=
    forall (L : R) (M Mt : E -> E) st, bounded_pair L M Mt -> par_is st 0 L -> wf_state st ->
      (forall s, In s (f_points st) -> genuine_lin M (sval s)) ->
      (forall s, In s (f_tpoints st) -> genuine_lin Mt (sval s)) ->
      ok (run_plan plan st).

  Lemma c03_LinearOperator : stmt_LinearOperator plan_LinearOperator.
  Proof.
    intros L M Mt st HB HpL Hwf Hpts Htpts. c03_plan.
    - pair_item Hwf (@feq_lin_adjoint E) (mem_lin_adjoint L M Mt).
    - lmi_item Hwf (@feq_lin_lmi1 E) (fun xi yi xj yj : E => ref_lin_lmi L xi yi xj yj) (mem_lin_lmi L M Mt).
    - lmi_item Hwf (@feq_lin_lmi2 E) (fun xi yi xj yj : E => ref_lin_lmi L xi yi xj yj) (mem_lin_lmi_t L M Mt).
  Qed.

  Definition stmt_SkewSymmetricLinearOperator (plan : list plan_item) : Prop :=
    forall (L : R) (A : E -> E) st, skew_bounded L A -> par_is st 0 L -> wf_state st ->
      (forall s, In s (f_points st) -> genuine_lin A (sval s)) ->
      ok (run_plan plan st).

  Lemma c03_SkewSymmetricLinearOperator : stmt_SkewSymmetricLinearOperator plan_SkewSymmetricLinearOperator.
  Proof.
    intros L A st HA HpL Hwf Hpts. c03_plan.
    - pair_item Hwf (@feq_skew E) (mem_skew L A).
    - lmi_item Hwf (@feq_skew_lmi E) (fun xi gi xj gj : E => ref_lin_lmi L xi gi xj gj) (mem_skew_lmi L A).
  Qed.

  Definition stmt_SymmetricLinearOperator (plan : list plan_item) : Prop :=
    forall (mu L : R) (Q : E -> E) st, sa_bounded mu L Q -> par_is st 0 L -> par_is st 1 mu -> wf_state st ->
      (forall s, In s (f_points st) -> genuine_lin Q (sval s)) ->
      ok (run_plan plan st).

  Lemma c03_SymmetricLinearOperator : stmt_SymmetricLinearOperator plan_SymmetricLinearOperator.
  Proof.
    intros mu L Q st HQ HpL Hpmu Hwf Hpts. c03_plan.
    - pair_item Hwf (@feq_sym E) (mem_sym mu L Q).
    - lmi_item Hwf (@feq_sym_lmi E) (fun xi gi xj gj : E => ref_sym_lmi mu L xi gi xj gj) (mem_sym_lmi mu L Q).
  Qed.

  (** ** BlockSmoothConvexFunction(partition, [L_0 .. L_{K-1}])
      K = [f_nblocks st] blocks; the partition is a family of block projections P_0 .. P_{K-1}
      ([block_projections], Spec/Classes.v: on R^d the coordinate-block projections); each recorded
      sample carries the K blocks of its gradient ([s_gblocks], what [partition.get_block(g, k)]
      returned) and block k is valued at [P k (value of g)]; [self.L[k]] ([f_Lk st k], variable
      [SPar 6] of the formula) is the smoothness constant L_k along block k.  The generator emits the
      formula once per ordered pair of samples and per block k: the theorem covers every block. *)
  Definition stmt_BlockSmoothConvexFunction (plan : list plan_item) : Prop :=
    forall (P : nat -> E -> E) (Ls : nat -> R) (F : dfn) st,
      block_smooth_convex_member (f_nblocks st) P Ls F ->
      (forall k, (k < f_nblocks st)%nat -> 0 < Ls k /\ Q2R (f_Lk st k) = Ls k) ->
      wf_state st -> wf_blocks st ->
      (forall s, In s (f_points st) -> genuine_grad F (sval s)) ->
      (forall s k, In s (f_points st) -> (k < f_nblocks st)%nat -> veq (pgk rho k s) (P k (pg s))) ->
      ok (run_plan plan st).

  Lemma c03_BlockSmoothConvexFunction : stmt_BlockSmoothConvexFunction plan_BlockSmoothConvexFunction.
  Proof.
    intros P Ls F st HF HLs Hwf Hblk Hpts Hproj. c03_plan.
    - intros si sj k Hi Hj Hk. destruct (HLs k Hk) as [HLpos HLeq].
      eapply instB_holds_ref;
        [ exact Hwf | exact (proj1 Hwf si Hi) | exact (proj1 Hwf sj Hj) | exact (Hblk si k Hi) | exact (Hblk sj k Hj)
        | apply (@feq_block_smooth E); vars; rewrite HLeq; lra
        | unfold sat; cbn [fst snd]; vars; rewrite HLeq;
          rewrite (ref_block_smooth_veq (Ls k) _ _ _ _ _ _ _ _ _ (Hproj si k Hi Hk) (Hproj sj k Hj Hk));
          eapply (mem_block_smooth (f_nblocks st) P Ls F k); side ].
  Qed.
End C03.

(** * the table of the 24 classes *)
Section Table.
  Context {E : ips}.
  Variable rho : nat -> E.
  Variable phi : nat -> R.

  Definition c03_table : list (string * (list plan_item -> Prop)) :=
    [("BlockSmoothConvexFunction", stmt_BlockSmoothConvexFunction rho phi);
     ("ConvexFunction", stmt_ConvexFunction rho phi);
     ("ConvexIndicatorFunction", stmt_ConvexIndicatorFunction rho phi);
     ("ConvexLipschitzFunction", stmt_ConvexLipschitzFunction rho phi);
     ("ConvexQGFunction", stmt_ConvexQGFunction rho phi);
     ("ConvexSupportFunction", stmt_ConvexSupportFunction rho phi);
     ("RsiEbFunction", stmt_RsiEbFunction rho phi);
     ("SmoothConvexFunction", stmt_SmoothConvexFunction rho phi);
     ("SmoothConvexLipschitzFunction", stmt_SmoothConvexLipschitzFunction rho phi);
     ("SmoothFunction", stmt_SmoothFunction rho phi);
     ("SmoothStronglyConvexFunction", stmt_SmoothStronglyConvexFunction rho phi);
     ("SmoothStronglyConvexQuadraticFunction", stmt_SmoothStronglyConvexQuadraticFunction rho phi);
     ("StronglyConvexFunction", stmt_StronglyConvexFunction rho phi);
     ("CocoerciveOperator", stmt_CocoerciveOperator rho phi);
     ("CocoerciveStronglyMonotoneOperator", stmt_CocoerciveStronglyMonotoneOperator rho phi);
     ("LinearOperator", stmt_LinearOperator rho phi);
     ("LipschitzOperator", stmt_LipschitzOperator rho phi);
     ("LipschitzStronglyMonotoneOperator", stmt_LipschitzStronglyMonotoneOperator rho phi);
     ("MonotoneOperator", stmt_MonotoneOperator rho phi);
     ("NegativelyComonotoneOperator", stmt_NegativelyComonotoneOperator rho phi);
     ("NonexpansiveOperator", stmt_NonexpansiveOperator rho phi);
     ("SkewSymmetricLinearOperator", stmt_SkewSymmetricLinearOperator rho phi);
     ("StronglyMonotoneOperator", stmt_StronglyMonotoneOperator rho phi);
     ("SymmetricLinearOperator", stmt_SymmetricLinearOperator rho phi)]%string.

  (** the statement proved for class [name]; [False] for a class without a theorem *)
  Fixpoint c03_lookup (name : string) (tbl : list (string * (list plan_item -> Prop))) : list plan_item -> Prop :=
    match tbl with
    | [] => fun _ => False
    | (n, stmt) :: tbl' => if String.eqb n name then stmt else c03_lookup name tbl'
    end.

  Definition c03_statement (name : string) (plan : list plan_item) : Prop := c03_lookup name c03_table plan.
End Table.

(** the classes covered are exactly the classes the translator found in /repo *)
Lemma c03_covered_classes {E : ips} (rho : nat -> E) phi :
  map fst (c03_table rho phi) = translated_classes /\ map fst all_plans = translated_classes.
Proof. split; vm_compute; reflexivity. Qed.

(** every translated class has its theorem, about the plan generated for it *)
Theorem c03_all_classes {E : ips} (rho : nat -> E) phi name plan :
  In (name, plan) all_plans -> c03_statement rho phi name plan.
Proof.
  intros Hin. unfold all_plans in Hin. cbn [In] in Hin.
  repeat (destruct Hin as [Hin|Hin]; [injection Hin as <- <-; unfold c03_statement, c03_table; cbn [c03_lookup String.eqb Ascii.eqb Bool.eqb]|]);
    [..|destruct Hin].
  - apply c03_BlockSmoothConvexFunction.
  - apply c03_ConvexFunction.
  - apply c03_ConvexIndicatorFunction.
  - apply c03_ConvexLipschitzFunction.
  - apply c03_ConvexQGFunction.
  - apply c03_ConvexSupportFunction.
  - apply c03_RsiEbFunction.
  - apply c03_SmoothConvexFunction.
  - apply c03_SmoothConvexLipschitzFunction.
  - apply c03_SmoothFunction.
  - apply c03_SmoothStronglyConvexFunction.
  - apply c03_SmoothStronglyConvexQuadraticFunction.
  - apply c03_StronglyConvexFunction.
  - apply c03_CocoerciveOperator.
  - apply c03_CocoerciveStronglyMonotoneOperator.
  - apply c03_LinearOperator.
  - apply c03_LipschitzOperator.
  - apply c03_LipschitzStronglyMonotoneOperator.
  - apply c03_MonotoneOperator.
  - apply c03_NegativelyComonotoneOperator.
  - apply c03_NonexpansiveOperator.
  - apply c03_SkewSymmetricLinearOperator.
  - apply c03_StronglyMonotoneOperator.
  - apply c03_SymmetricLinearOperator.
Qed.
