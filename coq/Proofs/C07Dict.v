(** C07, part 1: facts about dictionaries and sample lists used by the bookkeeping proofs.
    - Python's [dict ==] ([dict_eqb]) is an equivalence on dictionaries with unique keys
      ("two points with the same decomposition are the same point");
    - [find_pt] ([_is_already_evaluated_on_point]) returns the first sample whose point is [==];
    - pruning is idempotent, is the identity on dictionaries without zero entry, preserves meaning. *)
From Coq Require Import List QArith Reals Qreals Lra Bool Arith Lia Permutation.
From PV Require Import Base.IPS Model.Dict Model.Terms Model.Func Spec.Sem Proofs.DictLemmas Proofs.SemLemmas.
Import ListNotations.
Local Open Scope R_scope.

Section DictEq.
  Variable K : Type.
  Variable keqb : K -> K -> bool.
  Hypothesis keqb_spec : forall a b, reflect (a = b) (keqb a b).

  Notation ND := (NoDupKeys K).
  Notation lk := (lookup keqb).

  Definition oeq (a b : option Q) : Prop :=
    match a, b with
    | None, None => True
    | Some x, Some y => (x == y)%Q
    | _, _ => False
    end.

  Lemma oeq_refl a : oeq a a.
  Proof. destruct a; cbn; [reflexivity|exact I]. Qed.
  Lemma oeq_sym a b : oeq a b -> oeq b a.
  Proof. destruct a, b; cbn; auto. intros H; symmetry; exact H. Qed.
  Lemma oeq_trans a b c : oeq a b -> oeq b c -> oeq a c.
  Proof. destruct a, b, c; cbn; try tauto. intros H1 H2; rewrite H1; exact H2. Qed.

  Lemma In_keys k v (d : dict K) : In (k, v) d -> In k (keys d).
  Proof. intros H. unfold keys. apply in_map_iff. exists (k, v); auto. Qed.

  Lemma lookup_Some_key k v d : lk k d = Some v -> In k (keys d).
  Proof. intros H. apply (In_keys k v). apply (lookup_Some_In K keqb keqb_spec). exact H. Qed.

  Lemma key_lookup k d : In k (keys d) -> exists v, lk k d = Some v.
  Proof.
    intros H. destruct (lk k d) eqn:Hl; [eauto|].
    apply (lookup_None K keqb keqb_spec) in Hl. contradiction.
  Qed.

  Lemma sub_eqb_spec d1 d2 :
    sub_eqb keqb d1 d2 = true <->
    forall k v, In (k, v) d1 -> exists v2, lk k d2 = Some v2 /\ (v == v2)%Q.
  Proof.
    unfold sub_eqb. rewrite forallb_forall. split.
    - intros H k v Hin. specialize (H (k, v) Hin). cbn in H.
      destruct (lk k d2) as [v2|]; [|discriminate]. exists v2. split; [reflexivity|].
      apply Qeq_bool_iff. exact H.
    - intros H [k v] Hin. destruct (H k v Hin) as [v2 [Hl Hq]]. rewrite Hl. apply Qeq_bool_iff. exact Hq.
  Qed.

  Lemma dict_eqb_char d1 d2 :
    ND d1 -> ND d2 ->
    (dict_eqb keqb d1 d2 = true <-> forall k, oeq (lk k d1) (lk k d2)).
  Proof.
    intros N1 N2. unfold dict_eqb. rewrite andb_true_iff, Nat.eqb_eq, sub_eqb_spec. split.
    - intros [Hlen Hsub] k.
      assert (Hincl : incl (keys d1) (keys d2)).
      { intros a Ha. apply key_lookup in Ha as [v Hv].
        apply (lookup_Some_In K keqb keqb_spec) in Hv. destruct (Hsub a v Hv) as [v2 [Hl _]].
        eapply lookup_Some_key; eauto. }
      assert (Hincl' : incl (keys d2) (keys d1)).
      { apply NoDup_length_incl; [exact N1| |exact Hincl]. unfold keys. rewrite !map_length. lia. }
      destruct (lk k d1) as [v|] eqn:H1.
      + apply (lookup_Some_In K keqb keqb_spec) in H1. destruct (Hsub k v H1) as [v2 [Hl Hq]].
        rewrite Hl. exact Hq.
      + destruct (lk k d2) as [v2|] eqn:H2; [|exact I].
        apply lookup_Some_key in H2. apply Hincl' in H2.
        apply (lookup_None K keqb keqb_spec) in H1. contradiction.
    - intros H.
      assert (I12 : incl (keys d1) (keys d2)).
      { intros a Ha. apply key_lookup in Ha as [v Hv]. specialize (H a). rewrite Hv in H.
        destruct (lk a d2) eqn:H2; [|contradiction]. eapply lookup_Some_key; eauto. }
      assert (I21 : incl (keys d2) (keys d1)).
      { intros a Ha. apply key_lookup in Ha as [v Hv]. specialize (H a). rewrite Hv in H.
        destruct (lk a d1) eqn:H1; [|contradiction]. eapply lookup_Some_key; eauto. }
      split.
      + pose proof (NoDup_incl_length N1 I12) as L1. pose proof (NoDup_incl_length N2 I21) as L2.
        unfold keys in L1, L2. rewrite !map_length in L1, L2. lia.
      + intros k v Hin. apply (In_lookup K keqb keqb_spec k v d1 N1) in Hin.
        specialize (H k). rewrite Hin in H. destruct (lk k d2) as [v2|]; [|contradiction].
        exists v2. split; [reflexivity|exact H].
  Qed.

  Lemma dict_eqb_refl d : ND d -> dict_eqb keqb d d = true.
  Proof. intros N. apply dict_eqb_char; auto. intros k. apply oeq_refl. Qed.

  Lemma dict_eqb_sym d1 d2 : ND d1 -> ND d2 -> dict_eqb keqb d1 d2 = true -> dict_eqb keqb d2 d1 = true.
  Proof.
    intros N1 N2 H. apply dict_eqb_char; auto. intros k. apply oeq_sym.
    revert k. apply dict_eqb_char; auto.
  Qed.

  Lemma dict_eqb_trans d1 d2 d3 :
    ND d1 -> ND d2 -> ND d3 ->
    dict_eqb keqb d1 d2 = true -> dict_eqb keqb d2 d3 = true -> dict_eqb keqb d1 d3 = true.
  Proof.
    intros N1 N2 N3 H12 H23. apply dict_eqb_char; auto. intros k.
    eapply oeq_trans; [apply (proj1 (dict_eqb_char d1 d2 N1 N2) H12)|apply (proj1 (dict_eqb_char d2 d3 N2 N3) H23)].
  Qed.

  (** pruning *)
  Definition allnz (d : dict K) : bool := forallb (fun '(_, v) => nonzero v) d.

  Lemma allnz_prune (d : dict K) : allnz (prune d) = true.
  Proof.
    unfold allnz, prune. apply forallb_forall. intros [k v] H. apply filter_In in H. tauto.
  Qed.

  Lemma prune_id (d : dict K) : allnz d = true -> prune d = d.
  Proof.
    unfold allnz, prune. induction d as [|[k v] d IH]; cbn; [reflexivity|].
    intros H. apply andb_true_iff in H as [H1 H2]. rewrite H1. f_equal. auto.
  Qed.

  Lemma prune_idem (d : dict K) : prune (prune d) = prune d.
  Proof. apply prune_id, allnz_prune. Qed.

  Lemma allnz_In (d : dict K) k v : allnz d = true -> In (k, v) d -> ~ (v == 0)%Q.
  Proof.
    unfold allnz. rewrite forallb_forall. intros H Hin Hz. specialize (H (k, v) Hin). cbn in H.
    unfold nonzero in H. apply negb_true_iff in H. apply Qeq_bool_iff in Hz. congruence.
  Qed.

  Lemma keys_prune_incl (d : dict K) : incl (keys (prune d)) (keys d).
  Proof.
    intros k H. unfold keys in *. apply in_map_iff in H as [[k' v] [Hk H]]. apply filter_In in H as [H _].
    apply in_map_iff. exists (k', v); auto.
  Qed.

  (** permutation-invariance of weighted sums *)
  Lemma dsum_perm (val : K -> R) d1 d2 : Permutation d1 d2 -> dsum K val d1 = dsum K val d2.
  Proof.
    induction 1 as [|[k v] l l' _ IH|[k v] [k' v'] l|l l' l'' _ IH1 _ IH2]; cbn [dsum]; lra.
  Qed.

  Lemma dsum_ext (val val' : K -> R) d :
    (forall k, In k (keys d) -> val k = val' k) -> dsum K val d = dsum K val' d.
  Proof.
    induction d as [|[k v] d IH]; cbn [dsum]; intros H; [reflexivity|].
    rewrite (H k) by (left; reflexivity). rewrite IH; [reflexivity|].
    intros k' Hk'. apply H. right. exact Hk'.
  Qed.
End DictEq.

Arguments oeq a b : simpl never.

(** ** Point / expression instances *)
Notation pND := (NoDupKeys nat).
Notation eND := (NoDupKeys ekey).

Lemma peqb_refl d : pND d -> dict_eqb Nat.eqb d d = true.
Proof. apply (dict_eqb_refl nat Nat.eqb nat_eqb_spec). Qed.
Lemma peqb_sym a b : pND a -> pND b -> dict_eqb Nat.eqb a b = true -> dict_eqb Nat.eqb b a = true.
Proof. apply (dict_eqb_sym nat Nat.eqb nat_eqb_spec). Qed.
Lemma peqb_trans a b c :
  pND a -> pND b -> pND c ->
  dict_eqb Nat.eqb a b = true -> dict_eqb Nat.eqb b c = true -> dict_eqb Nat.eqb a c = true.
Proof. apply (dict_eqb_trans nat Nat.eqb nat_eqb_spec). Qed.

(** a dictionary over leaves older than [n] is not [==] the fresh leaf [n] *)
Lemma fresh_no_match (d : pdict) n q :
  (forall k, In k (keys d) -> (k < n)%nat) -> dict_eqb Nat.eqb d [(n, q)] = false.
Proof.
  intros H. unfold dict_eqb. destruct d as [|[k v] [|]]; cbn; try reflexivity.
  destruct (Nat.eqb_spec k n) as [->|Hne]; cbn; [|reflexivity].
  specialize (H n (or_introl eq_refl)). lia.
Qed.

(** ** Meaning-level equalities *)
Definition peq (a b : pdict) : Prop :=
  forall (E : ips) (rho : nat -> E) (w : E), inner (evalP rho a) w = inner (evalP rho b) w.
Definition eeq (a b : edict) : Prop :=
  forall (E : ips) (rho : nat -> E) (phi : nat -> R), evalE rho phi a = evalE rho phi b.

Lemma peq_refl a : peq a a. Proof. intros E rho w; reflexivity. Qed.
Lemma peq_sym a b : peq a b -> peq b a. Proof. intros H E rho w; symmetry; apply H. Qed.
Lemma peq_trans a b c : peq a b -> peq b c -> peq a c.
Proof. intros H1 H2 E rho w. rewrite H1. apply H2. Qed.
Lemma eeq_refl a : eeq a a. Proof. intros E rho phi; reflexivity. Qed.
Lemma eeq_sym a b : eeq a b -> eeq b a. Proof. intros H E rho phi; symmetry; apply H. Qed.
Lemma eeq_trans a b c : eeq a b -> eeq b c -> eeq a c.
Proof. intros H1 H2 E rho phi. rewrite H1. apply H2. Qed.

Lemma peq_veq a b : peq a b <-> forall (E : ips) (rho : nat -> E), veq (evalP rho a) (evalP rho b).
Proof. split; intros H E rho; [intros w|intros w]; apply H. Qed.

Section Obs.
  Context {E : ips}.
  Variable rho : nat -> E.
  Variable phi : nat -> R.
  Variable w : E.

  Definition ip (d : pdict) : R := inner (evalP rho d) w.

  Lemma ip_prune d : ip (prune d) = ip d.
  Proof. unfold ip. rewrite !inner_evalP. apply dsum_prune. Qed.
  Lemma ip_nil : ip [] = 0.
  Proof. unfold ip. cbn. apply inner_zero_l. Qed.
  Lemma ip_single k q : ip [(k, q)] = Q2R q * inner (rho k) w.
  Proof. unfold ip. cbn. rewrite inner_add_l, inner_scal_l, inner_zero_l. lra. Qed.
  Lemma ip_add a b : pND a -> pND b -> ip (p_add a b) = ip a + ip b.
  Proof. intros Ha Hb. unfold ip. rewrite (evalP_add rho a b Ha Hb w), inner_add_l. reflexivity. Qed.
  Lemma ip_scal c a : ip (p_scal c a) = Q2R c * ip a.
  Proof. unfold ip. rewrite (evalP_scal rho c a w), inner_scal_l. reflexivity. Qed.
  Lemma ip_sub a b : pND a -> pND b -> ip (p_sub a b) = ip a - ip b.
  Proof. intros Ha Hb. unfold ip. rewrite (evalP_sub rho a b Ha Hb w), inner_sub_l. reflexivity. Qed.
  Lemma ip_div a c : ~ (c == 0)%Q -> ip (p_div a c) = ip a / Q2R c.
  Proof. intros H. unfold ip. rewrite (evalP_div rho a c H w), inner_scal_l. lra. Qed.

  Lemma ev_prune d : evalE rho phi (prune d) = evalE rho phi d.
  Proof. rewrite !evalE_dsum. apply dsum_prune. Qed.
End Obs.

Lemma peq_prune d : peq (prune d) d.
Proof. intros E rho w. apply (ip_prune rho w). Qed.
Lemma eeq_prune d : eeq (prune d) d.
Proof. intros E rho phi. apply ev_prune. Qed.

Lemma Q2R_nonzero q : ~ (q == 0)%Q -> Q2R q <> 0.
Proof.
  intros H Hz. apply H. apply eqR_Qeq. rewrite Hz. symmetry. apply RMicromega.Q2R_0.
Qed.

Lemma pND_prune (d : pdict) : pND d -> pND (prune d).
Proof. apply NoDupKeys_prune. Qed.
Lemma eND_prune (d : edict) : eND d -> eND (prune d).
Proof. apply NoDupKeys_prune. Qed.
Lemma pND_single k q : pND [(k, q)].
Proof. unfold NoDupKeys; cbn. constructor; [tauto|constructor]. Qed.
Lemma eND_single k q : eND [(k, q)].
Proof. unfold NoDupKeys; cbn. constructor; [tauto|constructor]. Qed.
Lemma pND_nil : pND []. Proof. constructor. Qed.
Lemma eND_nil : eND []. Proof. constructor. Qed.

(** ** Samples and lookup *)
Definition xof (t : sample) : pdict := fst (fst t).
Definition gof (t : sample) : pdict := snd (fst t).
Definition vof (t : sample) : edict := snd t.

Lemma find_pt_Some pts x g v :
  find_pt pts x = Some (g, v) ->
  exists x0, In (x0, g, v) pts /\ dict_eqb Nat.eqb x0 x = true.
Proof.
  induction pts as [|[[x0 g0] v0] pts IH]; cbn; [discriminate|].
  destruct (dict_eqb Nat.eqb x0 x) eqn:He.
  - intros [= <- <-]. exists x0. split; [left; reflexivity|exact He].
  - intros H. destruct (IH H) as [x1 [H1 H2]]. exists x1. split; [right; exact H1|exact H2].
Qed.

Lemma find_pt_None pts x :
  find_pt pts x = None <-> forall t, In t pts -> dict_eqb Nat.eqb (xof t) x = false.
Proof.
  induction pts as [|[[x0 g0] v0] pts IH]; cbn.
  - split; [intros _ t []|reflexivity].
  - destruct (dict_eqb Nat.eqb x0 x) eqn:He.
    + split; [discriminate|]. intros H. specialize (H (x0, g0, v0) (or_introl eq_refl)). cbn in H. congruence.
    + rewrite IH. split.
      * intros H t [<-|Ht]; [exact He|apply H; exact Ht].
      * intros H t Ht. apply H. right. exact Ht.
Qed.

Lemma find_pt_app_Some pts l x r : find_pt pts x = Some r -> find_pt (pts ++ l) x = Some r.
Proof.
  induction pts as [|[[x0 g0] v0] pts IH]; cbn; [discriminate|].
  destruct (dict_eqb Nat.eqb x0 x); auto.
Qed.

Lemma find_pt_app_None pts l x : find_pt pts x = None -> find_pt (pts ++ l) x = find_pt l x.
Proof.
  induction pts as [|[[x0 g0] v0] pts IH]; cbn; [reflexivity|].
  destruct (dict_eqb Nat.eqb x0 x); [discriminate|auto].
Qed.

(** lookup does not distinguish equal decompositions (I5) *)
Lemma find_pt_congr pts x x' :
  (forall t, In t pts -> pND (xof t)) -> pND x -> pND x' ->
  dict_eqb Nat.eqb x x' = true -> find_pt pts x = find_pt pts x'.
Proof.
  intros Hnd Hx Hx' He. induction pts as [|[[x0 g0] v0] pts IH]; cbn; [reflexivity|].
  assert (N0 : pND x0) by (apply (Hnd (x0, g0, v0)); left; reflexivity).
  assert (Heq : dict_eqb Nat.eqb x0 x = dict_eqb Nat.eqb x0 x').
  { destruct (dict_eqb Nat.eqb x0 x) eqn:H1, (dict_eqb Nat.eqb x0 x') eqn:H2; try reflexivity.
    - rewrite (peqb_trans x0 x x' N0 Hx Hx' H1 He) in H2. discriminate.
    - rewrite (peqb_trans x0 x' x N0 Hx' Hx H2 (peqb_sym x x' Hx Hx' He)) in H1. discriminate. }
  rewrite Heq. destruct (dict_eqb Nat.eqb x0 x'); [reflexivity|].
  apply IH. intros t Ht. apply Hnd. right. exact Ht.
Qed.

(** ** list update *)
Lemma upd_length {A} i (f : A -> A) l : length (upd i f l) = length l.
Proof. revert i. induction l as [|a l IH]; intros [|i]; cbn; auto. Qed.

Lemma nth_upd_eq {A} i (f : A -> A) l d : (i < length l)%nat -> nth i (upd i f l) d = f (nth i l d).
Proof. revert i. induction l as [|a l IH]; intros [|i] H; cbn in *; try lia; auto. apply IH. lia. Qed.

Lemma nth_upd_neq {A} i j (f : A -> A) l d : i <> j -> nth j (upd i f l) d = nth j l d.
Proof.
  revert i j. induction l as [|a l IH]; intros [|i] [|j] H; cbn; try reflexivity; try congruence.
  apply IH. congruence.
Qed.

Lemma upd_out {A} i (f : A -> A) l : (length l <= i)%nat -> upd i f l = l.
Proof. revert i. induction l as [|a l IH]; intros [|i] H; cbn in *; try reflexivity; try lia. f_equal. apply IH. lia. Qed.

Lemma upd_same {A} i (f : A -> A) l d : f (nth i l d) = nth i l d -> upd i f l = l.
Proof.
  revert i. induction l as [|a l IH]; intros [|i] H; cbn in *; try reflexivity.
  - f_equal. exact H.
  - f_equal. apply IH. exact H.
Qed.
