(** C07, part 6: the executable form [inv_b] of the invariant, and its soundness
    [inv_b s = true -> inv s].  Semantic equalities are decided on dictionaries: [a] and [b] mean the
    same when [a - b] prunes to the empty dictionary (sound; complete on dictionaries over leaf
    expressions / leaf points, which is all the bookkeeping produces). *)
From Coq Require Import List QArith Reals Qreals Lra Bool Arith Lia ZArith.
From PV Require Import Base.IPS Model.Dict Model.Terms Model.Func Spec.Sem
  Proofs.DictLemmas Proofs.SemLemmas Proofs.C07Dict Proofs.C07Inv Proofs.C07Ops Proofs.C07Main.
Import ListNotations.
Local Open Scope R_scope.

(** ** executable checks *)
Definition q_leib_eqb (a b : Q) : bool := Z.eqb (Qnum a) (Qnum b) && Pos.eqb (Qden a) (Qden b).

Fixpoint list_eqb {A} (eqb : A -> A -> bool) (l1 l2 : list A) : bool :=
  match l1, l2 with
  | [], [] => true
  | a :: r1, b :: r2 => eqb a b && list_eqb eqb r1 r2
  | _, _ => false
  end.

Definition ekey_leib_eqb := ekey_eqb.
Definition pdict_leib_eqb : pdict -> pdict -> bool :=
  list_eqb (fun a b => Nat.eqb (fst a) (fst b) && q_leib_eqb (snd a) (snd b)).
Definition edict_leib_eqb : edict -> edict -> bool :=
  list_eqb (fun a b => ekey_eqb (fst a) (fst b) && q_leib_eqb (snd a) (snd b)).
Definition sample_eqb (t u : sample) : bool :=
  pdict_leib_eqb (xof t) (xof u) && pdict_leib_eqb (gof t) (gof u) && edict_leib_eqb (vof t) (vof u).

Definition peq_b (a b : pdict) : bool := is_nil (p_sub a b).
Definition eeq_b (a b : edict) : bool := is_nil (x_sub a b).

Definition wf_sample_b (s : state) (t : sample) : bool :=
  pwf_b s (xof t) && nodup_by Nat.eqb (keys (gof t)) && nodup_by ekey_eqb (keys (vof t)) && allnz_b (xof t).

(** weighted sums of a list of chosen samples aligned with the weights *)
Fixpoint gsum (W : wdict) (cs : list sample) : pdict :=
  match W, cs with
  | (_, q) :: W', c :: cs' => p_add (p_scal q (gof c)) (gsum W' cs')
  | _, _ => []
  end.
Fixpoint vsum (W : wdict) (cs : list sample) : edict :=
  match W, cs with
  | (_, q) :: W', c :: cs' => x_add (x_scal q (vof c)) (vsum W' cs')
  | _, _ => []
  end.

(** every way of choosing, for each term, a sample recorded for it at the point [x] *)
Fixpoint combos (s : state) (W : wdict) (x : pdict) : list (list sample) :=
  match W with
  | [] => [[]]
  | (i, _) :: W' =>
      flat_map (fun c => map (cons c) (combos s W' x))
               (filter (fun c => dict_eqb Nat.eqb (xof c) x) (f_pts (getf s i)))
  end.

Definition I3_b (s : state) (W : wdict) (t : sample) : bool :=
  existsb (fun cs => peq_b (gof t) (gsum W cs) && eeq_b (vof t) (vsum W cs)) (combos s W (xof t)).

Definition frec_b (s : state) (i : nat) (r : frec) : bool :=
  let n := length (funs s) in
  (if f_leaf r then
     match f_w r with
     | [(k, q)] => Nat.eqb k i && q_leib_eqb q 1%Q
     | _ => false
     end
   else
     nodup_by Nat.eqb (keys (f_w r)) && negb (is_nil (f_w r)) && allnz_b (f_w r) &&
     forallb (fun '(k, _) => Nat.ltb k n && f_leaf (getf s k)) (f_w r) &&
     implb (f_reuse r) (forallb (fun '(k, _) => f_reuse (getf s k)) (f_w r)) &&
     forallb (I3_b s (f_w r)) (f_pts r)) &&
  forallb (wf_sample_b s) (f_pts r) &&
  forallb (fun t => existsb (sample_eqb t) (f_pts r) && is_nil (gof t)) (f_stat r) &&
  forallb (fun t1 => forallb (fun t2 =>
     implb (dict_eqb Nat.eqb (xof t1) (xof t2))
           (eeq_b (vof t1) (vof t2) && implb (f_reuse r) (peq_b (gof t1) (gof t2)))) (f_pts r)) (f_pts r).

Fixpoint forallb_i {A} (p : nat -> A -> bool) (i : nat) (l : list A) : bool :=
  match l with
  | [] => true
  | a :: r => p i a && forallb_i p (S i) r
  end.

Definition inv_b (s : state) : bool := forallb_i (frec_b s) 0 (funs s).

(** ** soundness *)
Lemma q_leib_eqb_eq a b : q_leib_eqb a b = true -> a = b.
Proof.
  destruct a as [an ad], b as [bn bd]. unfold q_leib_eqb; cbn. intros H.
  apply andb_true_iff in H as [H1 H2]. apply Z.eqb_eq in H1. apply Pos.eqb_eq in H2. congruence.
Qed.

Lemma list_eqb_eq {A} (eqb : A -> A -> bool) (Heq : forall a b, eqb a b = true -> a = b) l1 l2 :
  list_eqb eqb l1 l2 = true -> l1 = l2.
Proof.
  revert l2. induction l1 as [|a l1 IH]; intros [|b l2]; cbn; try discriminate; [reflexivity|].
  intros H. apply andb_true_iff in H as [H1 H2]. f_equal; auto.
Qed.

Lemma pdict_leib_eqb_eq a b : pdict_leib_eqb a b = true -> a = b.
Proof.
  apply list_eqb_eq. intros [k q] [k' q']; cbn. intros H. apply andb_true_iff in H as [H1 H2].
  apply Nat.eqb_eq in H1. apply q_leib_eqb_eq in H2. congruence.
Qed.

Lemma edict_leib_eqb_eq a b : edict_leib_eqb a b = true -> a = b.
Proof.
  apply list_eqb_eq. intros [k q] [k' q']; cbn. intros H. apply andb_true_iff in H as [H1 H2].
  destruct (ekey_eqb_spec k k'); [|discriminate]. apply q_leib_eqb_eq in H2. congruence.
Qed.

Lemma sample_eqb_eq t u : sample_eqb t u = true -> t = u.
Proof.
  destruct t as [[x g] v], u as [[x' g'] v']. unfold sample_eqb, xof, gof, vof; cbn. intros H.
  apply andb_true_iff in H as [H H3]. apply andb_true_iff in H as [H1 H2].
  apply pdict_leib_eqb_eq in H1, H2. apply edict_leib_eqb_eq in H3. congruence.
Qed.

Lemma is_nil_eq {A} (l : list A) : is_nil l = true -> l = [].
Proof. destruct l; [reflexivity|discriminate]. Qed.

Lemma peq_b_sound a b : pND a -> pND b -> peq_b a b = true -> peq a b.
Proof.
  intros Na Nb H E rho w. apply is_nil_eq in H.
  pose proof (ip_sub rho w a b Na Nb) as Hs. rewrite H, ip_nil in Hs. unfold ip in Hs. lra.
Qed.

Lemma eeq_b_sound a b : eND a -> eND b -> eeq_b a b = true -> eeq a b.
Proof.
  intros Na Nb H E rho phi. apply is_nil_eq in H.
  pose proof (evalE_sub rho phi a b Na Nb) as Hs. rewrite H in Hs. cbn in Hs. lra.
Qed.

Lemma wf_sample_b_sound s t : wf_sample_b s t = true -> wf_sample s t.
Proof.
  unfold wf_sample_b. intros H.
  apply andb_true_iff in H as [H H4]. apply andb_true_iff in H as [H H3]. apply andb_true_iff in H as [H1 H2].
  destruct (pwf_b_spec s _ H1) as [A B]. repeat split; auto.
  - apply (nodup_by_spec Nat.eqb nat_eqb_spec). assumption.
  - apply (nodup_by_spec ekey_eqb ekey_eqb_spec). assumption.
Qed.

Lemma combos_spec s x : forall W cs, In cs (combos s W x) ->
  Forall2 (fun iq c => In c (f_pts (getf s (fst iq))) /\ dict_eqb Nat.eqb (xof c) x = true) W cs.
Proof.
  induction W as [|[i q] W IH]; intros cs H; cbn [combos] in H.
  - destruct H as [<-|[]]. constructor.
  - apply in_flat_map in H as (c & Hc & H). apply in_map_iff in H as (cs' & <- & Hcs').
    apply filter_In in Hc as [Hc1 Hc2]. constructor; [split; assumption|apply IH, Hcs'].
Qed.

(** choice function of an aligned list *)
Fixpoint pick (W : wdict) (cs : list sample) (i : nat) : sample :=
  match W, cs with
  | (k, _) :: W', c :: cs' => if Nat.eqb i k then c else pick W' cs' i
  | _, _ => ([], [], [])
  end.

Lemma sums_of_aligned s x : forall W cs,
  pND W ->
  Forall2 (fun iq c => In c (f_pts (getf s (fst iq))) /\ dict_eqb Nat.eqb (xof c) x = true) W cs ->
  (forall c, In c cs -> pND (gof c) /\ eND (vof c)) ->
  covers s W x (pick W cs) /\ pND (gsum W cs) /\ eND (vsum W cs) /\
  (forall (E : ips) (rho : nat -> E) (w : E),
      ip rho w (gsum W cs) = dsum nat (fun i => ip rho w (gof (pick W cs i))) W) /\
  (forall (E : ips) (rho : nat -> E) (phi : nat -> R),
      evalE rho phi (vsum W cs) = dsum nat (fun i => evalE rho phi (vof (pick W cs i))) W).
Proof.
  induction W as [|[k q] W IH]; intros cs NW HF Hwf; inversion HF as [|? c ? cs' [Hin He] HF']; subst.
  - split; [intros i q []|]. split; [apply pND_nil|]. split; [apply eND_nil|]. split; intros; cbn; [apply ip_nil|reflexivity].
  - destruct (NoDupKeys_cons_inv k q W NW) as [Hnk NW'].
    destruct (IH cs' NW' HF' (fun c' Hc' => Hwf c' (or_intror Hc'))) as (Hcov & Ng & Nv & HG & HV).
    destruct (Hwf c (or_introl eq_refl)) as [Ngc Nvc].
    assert (Hagree : forall j, In j (keys W) -> pick ((k, q) :: W) (c :: cs') j = pick W cs' j).
    { intros j Hj. cbn [pick]. destruct (Nat.eqb_spec j k) as [->|]; [contradiction|reflexivity]. }
    assert (Hhead : pick ((k, q) :: W) (c :: cs') k = c) by (cbn [pick]; rewrite Nat.eqb_refl; reflexivity).
    split; [|split; [|split; [|split]]].
    + intros i qi [[= <- <-]|Hi].
      * rewrite Hhead. cbn [fst] in Hin. auto.
      * rewrite (Hagree i (In_keys nat i qi W Hi)). apply (Hcov i qi Hi).
    + cbn [gsum]. apply pND_add; [apply pND_scal, Ngc|exact Ng].
    + cbn [vsum]. apply eND_add; [apply eND_scal, Nvc|exact Nv].
    + intros E rho w. cbn [gsum]. rewrite dsum_cons, Hhead.
      rewrite ip_add, ip_scal by (auto using pND_scal). rewrite HG. f_equal.
      apply dsum_ext. intros j Hj. rewrite (Hagree j Hj). reflexivity.
    + intros E rho phi. cbn [vsum]. rewrite dsum_cons, Hhead.
      rewrite evalE_add, evalE_scal by (auto using eND_scal). rewrite HV. f_equal.
      apply dsum_ext. intros j Hj. rewrite (Hagree j Hj). reflexivity.
Qed.

Lemma forallb_i_spec {A} (p : nat -> A -> bool) (d : A) : forall l k,
  forallb_i p k l = true -> forall i, (i < length l)%nat -> p (k + i)%nat (nth i l d) = true.
Proof.
  induction l as [|a l IH]; intros k H i Hi; cbn in Hi; [lia|].
  cbn [forallb_i] in H. apply andb_true_iff in H as [H1 H2]. destruct i as [|i]; cbn [nth].
  - rewrite Nat.add_0_r. exact H1.
  - replace (k + S i)%nat with (S k + i)%nat by lia. apply IH; [exact H2|lia].
Qed.

Theorem inv_b_sound s : inv_b s = true -> inv s.
Proof.
  intros H.
  assert (Hf : forall i, (i < nfun s)%nat -> frec_b s i (getf s i) = true).
  { intros i Hi. apply (forallb_i_spec (frec_b s) dummy (funs s) 0 H i Hi). }
  clear H.
  (* unpack the per-function check once *)
  assert (Hwf : forall i t, (i < nfun s)%nat -> In t (f_pts (getf s i)) -> wf_sample s t).
  { intros i t Hi Ht. specialize (Hf i Hi). unfold frec_b in Hf.
    repeat (apply andb_true_iff in Hf as [Hf ?]).
    apply wf_sample_b_sound. rewrite forallb_forall in H1. apply H1, Ht. }
  assert (Hpair : forall i t1 t2, (i < nfun s)%nat -> In t1 (f_pts (getf s i)) -> In t2 (f_pts (getf s i)) ->
            dict_eqb Nat.eqb (xof t1) (xof t2) = true ->
            eeq (vof t1) (vof t2) /\ (f_reuse (getf s i) = true -> peq (gof t1) (gof t2))).
  { intros i t1 t2 Hi H1 H2 He. pose proof (Hf i Hi) as Hc. unfold frec_b in Hc.
    repeat (apply andb_true_iff in Hc as [Hc ?]).
    rewrite forallb_forall in H. specialize (H t1 H1). rewrite forallb_forall in H. specialize (H t2 H2).
    rewrite He in H. cbn [implb] in H. apply andb_true_iff in H as [Hv Hg].
    destruct (Hwf i t1 Hi H1) as (_ & Ng1 & Nv1 & _). destruct (Hwf i t2 Hi H2) as (_ & Ng2 & Nv2 & _).
    split; [apply eeq_b_sound; assumption|]. intros Hr. rewrite Hr in Hg. cbn [implb] in Hg.
    apply peq_b_sound; assumption. }
  assert (Hcomp : forall i, (i < nfun s)%nat -> f_leaf (getf s i) = false ->
            nodup_by Nat.eqb (keys (f_w (getf s i))) = true /\ is_nil (f_w (getf s i)) = false /\
            allnz_b (f_w (getf s i)) = true /\
            forallb (fun '(k, _) => Nat.ltb k (length (funs s)) && f_leaf (getf s k)) (f_w (getf s i)) = true /\
            implb (f_reuse (getf s i)) (forallb (fun '(k, _) => f_reuse (getf s k)) (f_w (getf s i))) = true /\
            forallb (I3_b s (f_w (getf s i))) (f_pts (getf s i)) = true).
  { intros i Hi Hl. pose proof (Hf i Hi) as Hc. unfold frec_b in Hc. rewrite Hl in Hc.
    repeat (apply andb_true_iff in Hc as [Hc ?]). apply negb_true_iff in H6. repeat split; assumption. }
  split.
  - intros i Hi Hl. pose proof (Hf i Hi) as Hc. unfold frec_b in Hc. rewrite Hl in Hc.
    repeat (apply andb_true_iff in Hc as [Hc ?]).
    destruct (f_w (getf s i)) as [|[k q] [|]]; try discriminate.
    apply andb_true_iff in Hc as [Hk Hq]. apply Nat.eqb_eq in Hk. apply q_leib_eqb_eq in Hq. congruence.
  - intros i Hi Hl. destruct (Hcomp i Hi Hl) as (A & B & C & D & _).
    split; [apply (nodup_by_spec Nat.eqb nat_eqb_spec), A|]. split; [intros Hn; rewrite Hn in B; discriminate|].
    split; [exact C|]. intros k q Hin. rewrite forallb_forall in D. specialize (D (k, q) Hin). cbn in D.
    apply andb_true_iff in D as [D1 D2]. apply Nat.ltb_lt in D1. auto.
  - exact Hwf.
  - intros i t Hi Ht. pose proof (Hf i Hi) as Hc. unfold frec_b in Hc.
    repeat (apply andb_true_iff in Hc as [Hc ?]).
    rewrite forallb_forall in H0. specialize (H0 t Ht). apply andb_true_iff in H0 as [Hex Hn].
    apply existsb_exists in Hex as (u & Hu & He). apply sample_eqb_eq in He. subst u.
    split; [exact Hu|apply is_nil_eq, Hn].
  - intros i t1 t2 Hi H1 H2 He. apply (Hpair i t1 t2 Hi H1 H2 He).
  - intros i t1 t2 Hi Hr H1 H2 He. apply (Hpair i t1 t2 Hi H1 H2 He). exact Hr.
  - intros i t Hi Hl Ht. right. destruct (Hcomp i Hi Hl) as (A & _ & _ & D & _ & F).
    rewrite forallb_forall in F. specialize (F t Ht). unfold I3_b in F.
    apply existsb_exists in F as (cs & Hcs & Hchk). apply andb_true_iff in Hchk as [HG HV].
    pose proof (combos_spec s (xof t) _ cs Hcs) as HF2.
    assert (Hwfc : forall c, In c cs -> pND (gof c) /\ eND (vof c)).
    { intros c Hc. clear -HF2 Hc Hwf D. revert Hc. induction HF2 as [|[k q] c0 W cs0 [Hin _] _ IH]; intros Hc; [destruct Hc|].
      cbn [forallb] in D. apply andb_true_iff in D as [D1 D2]. apply andb_true_iff in D1 as [D1 _].
      apply Nat.ltb_lt in D1. destruct Hc as [<-|Hc]; [|apply IH; assumption].
      destruct (Hwf k c0 D1 Hin) as (_ & a & b & _). auto. }
    destruct (sums_of_aligned s (xof t) _ cs (nodup_by_spec Nat.eqb nat_eqb_spec _ A) HF2 Hwfc)
      as (Hcov & Ng & Nv & HsG & HsV).
    destruct (Hwf i t Hi Ht) as (_ & Ngt & Nvt & _).
    exists (pick (f_w (getf s i)) cs). split; [exact Hcov|]. split.
    + intros E rho w. rewrite <- HsG. apply (peq_b_sound _ _ Ngt Ng HG).
    + intros E rho phi. rewrite <- HsV. apply (eeq_b_sound _ _ Nvt Nv HV).
  - intros i Hi Hl Hr. destruct (Hcomp i Hi Hl) as (_ & _ & _ & _ & E & _). rewrite Hr in E. exact E.
Qed.
