(** C13, part 3: the store invariant of every run, and the assembled statement "after solve k every
    guarded object evaluates to solution k". *)
From Coq Require Import List QArith Bool Arith Lia.
From PV Require Import Model.Dict Model.Terms Model.Dump Model.Sent Model.Eval Model.Resolve
  Proofs.C02Cache Proofs.C13Sent Proofs.C13Main.
Import ListNotations.
Local Open Scope nat_scope.

(** ** [store_ok] is an invariant of every run *)
Lemma mk_cons_store_ok st c st' r : mk_cons st c = (st', r) -> store_ok st -> store_ok st'.
Proof.
  unfold mk_cons, next_ref. intros [= <- <-] S.
  apply store_ok_new_obj; [apply store_ok_new_obj; [exact S|intros e []]|].
  intros e [<-|[]]. cbn [eh_ok]. rewrite get_obj_new_obj_last. do 2 eexists. split; reflexivity.
Qed.
Lemma mk_conss_store_ok : forall cs st st' rs, mk_conss st cs = (st', rs) -> store_ok st -> store_ok st'.
Proof.
  induction cs as [|c cs IH]; intros st st' rs; cbn [mk_conss]; [intros [= <- <-]; auto|].
  destruct (mk_cons st c) as [st1 r] eqn:H1. destruct (mk_conss st1 cs) as [st2 rs'] eqn:H2.
  intros [= <- <-] S. eapply IH; [exact H2|]. eapply mk_cons_store_ok; eassumption.
Qed.
Lemma mk_entries_store_ok : forall row st st' es, mk_entries st row = (st', es) -> store_ok st -> store_ok st'.
Proof.
  induction row as [|d row IH]; intros st st' es; cbn [mk_entries]; [intros [= <- <-]; auto|].
  destruct (mk_entries (new_obj st (KExpr d)) row) as [st1 es'] eqn:H1. intros [= <- <-] S.
  eapply IH; [exact H1|]. apply store_ok_new_obj; [exact S|intros e []].
Qed.
Lemma mk_matrix_store_ok : forall m st st' ess, mk_matrix st m = (st', ess) -> store_ok st -> store_ok st'.
Proof.
  induction m as [|row m IH]; intros st st' ess; cbn [mk_matrix]; [intros [= <- <-]; auto|].
  destruct (mk_entries st row) as [st1 es] eqn:H1. destruct (mk_matrix st1 m) as [st2 ess'] eqn:H2.
  intros [= <- <-] S. eapply IH; [exact H2|]. eapply mk_entries_store_ok; eassumption.
Qed.
Lemma mk_lmi_store_ok st m st' r : mk_lmi st m = (st', r) -> store_ok st -> store_ok st'.
Proof.
  unfold mk_lmi. destruct (mk_matrix st m) as [st1 ess] eqn:H1. intros [= <- <-] S.
  pose proof (mk_matrix_spec _ _ _ _ H1) as (_ & _ & _ & O).
  apply store_ok_new_obj; [eapply mk_matrix_store_ok; eassumption|].
  cbn [refs_of]. intros e He. apply in_concat in He as (row & Hr & He). eapply O; eassumption.
Qed.
Lemma mk_lmis_store_ok : forall ms st st' rs, mk_lmis st ms = (st', rs) -> store_ok st -> store_ok st'.
Proof.
  induction ms as [|m ms IH]; intros st st' rs; cbn [mk_lmis]; [intros [= <- <-]; auto|].
  destruct (mk_lmi st m) as [st1 r] eqn:H1. destruct (mk_lmis st1 ms) as [st2 rs'] eqn:H2.
  intros [= <- <-] S. eapply IH; [exact H2|]. eapply mk_lmi_store_ok; eassumption.
Qed.
Lemma gen_functions_store_ok : forall ts st st' fs, gen_functions st ts = (st', fs) -> store_ok st -> store_ok st'.
Proof.
  induction ts as [|t ts IH]; intros st st' fs; cbn [gen_functions]; [intros [= <- <-]; auto|].
  unfold gen_function. destruct (mk_conss st (t_cons t)) as [sa cs] eqn:H1.
  destruct (mk_lmis sa (t_lmis t)) as [sb ls] eqn:H2. destruct (gen_functions sb ts) as [sc fs'] eqn:H3.
  intros [= <- <-] S. eapply IH; [exact H3|]. eapply mk_lmis_store_ok; [exact H2|].
  eapply mk_conss_store_ok; eassumption.
Qed.
Lemma gen_partitions_store_ok : forall ps st st' css, gen_partitions st ps = (st', css) -> store_ok st -> store_ok st'.
Proof.
  induction ps as [|p ps IH]; intros st st' css; cbn [gen_partitions]; [intros [= <- <-]; auto|].
  destruct (mk_conss st _) as [sa cs] eqn:H1. destruct (gen_partitions sa ps) as [sb css'] eqn:H2.
  intros [= <- <-] S. eapply IH; [exact H2|]. eapply mk_conss_store_ok; eassumption.
Qed.

Lemma prepare_store_ok s : store_ok (es s) -> store_ok (es (prepare s)).
Proof.
  intro S. unfold prepare.
  destruct (gen_functions (new_leafE (es s)) (ftem s)) as [st1 fs] eqn:H1.
  destruct (gen_partitions st1 (ptem s)) as [st2 ps] eqn:H2.
  destruct (mk_conss st2 _) as [st3 ms] eqn:H3. cbn [es].
  eapply mk_conss_store_ok; [exact H3|]. eapply gen_partitions_store_ok; [exact H2|].
  eapply gen_functions_store_ok; [exact H1|].
  eapply store_ok_le; [exact S| |apply le_st_new_leafE]. eauto.
Qed.

Lemma assign_duals_back rs ds st : forall r o', get_obj (assign_duals st rs ds) r = Some o' ->
  exists o, get_obj st r = Some o /\ okind_of o = okind_of o'.
Proof. intros r o' H. apply get_obj_assign_duals in H as (o0 & H0 & K0 & _). eauto. Qed.

Lemma finish_store_ok s sol : store_ok (es s) -> store_ok (es (finish s sol)).
Proof.
  intro S. unfold finish. cbn [es with_es].
  set (st1 := assign_duals (es s) (wsent s) (sDual sol)).
  assert (S1 : store_ok st1) by (eapply store_ok_le; [exact S|apply assign_duals_back|apply assign_duals_le]).
  set (st2 := assign_solution st1 (sP sol) (sF sol)).
  assert (S2 : store_ok st2) by (eapply store_ok_le; [exact S1| |apply le_st_assign_solution]; eauto).
  assert (K : forall rs st, store_ok st -> store_ok (eval_all st rs)).
  { intros rs st0 S0. pose proof (eval_all_frame rs st0) as F.
    eapply store_ok_le; [exact S0|apply frame_back, F|apply le_st_frame, F]. }
  apply K, K, K, S2.
Qed.

Lemma solve_store_ok s a : store_ok (es s) -> store_ok (es (solve s a)).
Proof.
  intro S. unfold solve. destruct a; [apply finish_store_ok|]; apply prepare_store_ok, S.
Qed.

Lemma step_store_ok s o : store_ok (es s) -> store_ok (es (fst (step s o))).
Proof.
  intro S. unfold step. destruct (valid_op s o) eqn:V; [|exact S].
  destruct o; cbn [step_valid fst es with_es]; try exact S.
  - eapply store_ok_le; [exact S| |apply le_st_new_leafE]. eauto.
  - apply store_ok_new_obj; [exact S|intros e []].
  - apply store_ok_new_obj; [exact S|intros e0 []].
  - cbn in V. apply store_ok_new_obj; [exact S|]. intros e0 [<-|[]]. apply valid_ehb_ok, V.
  - cbn in V. apply store_ok_new_obj; [exact S|]. cbn [refs_of]. apply valid_rows_ok, V.
  - apply solve_store_ok, S.
  - apply solve_store_ok, S.
  - destruct (eval_obj (es s) r) as [st1 x] eqn:H. cbn [fst es with_es].
    pose proof (eval_obj_frame _ _ _ _ H) as F.
    eapply store_ok_le; [exact S|apply frame_back, F|apply le_st_frame, F].
Qed.

Lemma run_store_ok : forall ops s, store_ok (es s) -> store_ok (es (fst (run s ops))).
Proof.
  induction ops as [|o ops IH]; intros s S; cbn [run]; [exact S|].
  destruct (step s o) as [s1 d] eqn:H1. destruct (run s1 ops) as [s2 ds] eqn:H2. cbn [fst].
  change s2 with (fst (s2, ds)). rewrite <- H2. apply IH. change s1 with (fst (s1, d)). rewrite <- H1.
  apply step_store_ok, S.
Qed.

Theorem final_store_ok ops : store_ok (es (final ops)).
Proof. apply run_store_ok. intros r o e H. destruct r; discriminate. Qed.

(** ** leaf tables after a finite solve and quiet ops *)
Lemma solve_leaves s sol : closed s ->
  lpv (es (solve s (Some sol))) = map (fun i => Some (column (sP sol) i)) (seq 0 (length (lpv (es s))))
  /\ lev (es (solve s (Some sol))) = map (fun i => Some (nth i (sF sol) 0%Q)) (seq 0 (S (length (lev (es s))))).
Proof.
  intro C. pose proof (prepare_spec s C) as (_ & P1 & P2 & _).
  unfold solve, finish. cbn [es with_es].
  set (st1 := assign_duals (es (prepare s)) (wsent (prepare s)) (sDual sol)).
  set (st2 := assign_solution st1 (sP sol) (sF sol)).
  assert (F3 := eval_all_frame (filter (is_lmi st2) (wsent (prepare s))) st2). set (st3 := eval_all st2 _) in *.
  assert (F4 := eval_all_frame (filter (is_ineq st3) (wsent (prepare s))) st3). set (st4 := eval_all st3 _) in *.
  assert (F5 := eval_all_frame (filter (is_eq st4) (wsent (prepare s))) st4).
  destruct F3 as (A3 & B3 & _), F4 as (A4 & B4 & _), F5 as (A5 & B5 & _).
  rewrite A5, A4, A3, B5, B4, B3. unfold st2, assign_solution. cbn [lpv lev].
  destruct (assign_duals_leaves (wsent (prepare s)) (sDual sol) (es (prepare s))) as [D1 D2].
  fold st1 in D1, D2. rewrite D1, D2, P1, P2, app_length. cbn [length]. rewrite Nat.add_1_r. split; reflexivity.
Qed.

Definition tail_none {A} (l l' : list (option A)) : Prop := exists j, l' = l ++ repeat None j.
Lemma tail_none_refl {A} (l : list (option A)) : tail_none l l.
Proof. exists 0. cbn. rewrite app_nil_r. reflexivity. Qed.
Lemma tail_none_trans {A} (a b c : list (option A)) : tail_none a b -> tail_none b c -> tail_none a c.
Proof. intros [j ->] [k ->]. exists (j + k). rewrite <- app_assoc, repeat_app. reflexivity. Qed.

Lemma step_quiet_leaves s o : quiet o = true ->
  tail_none (lpv (es s)) (lpv (es (fst (step s o)))) /\ tail_none (lev (es s)) (lev (es (fst (step s o)))).
Proof.
  intro Q. unfold step. destruct (valid_op s o); [|split; apply tail_none_refl].
  destruct o; try discriminate; cbn [step_valid fst es with_es]; try (split; apply tail_none_refl).
  - split; [exists 1; reflexivity|apply tail_none_refl].
  - split; [apply tail_none_refl|exists 1; reflexivity].
  - destruct (eval_obj (es s) r) as [st1 x] eqn:H. cbn [fst es with_es].
    destruct (eval_obj_frame _ _ _ _ H) as (A & B & _). rewrite A, B. split; apply tail_none_refl.
Qed.

Lemma run_quiet_leaves : forall ops s, forallb quiet ops = true ->
  tail_none (lpv (es s)) (lpv (es (fst (run s ops)))) /\ tail_none (lev (es s)) (lev (es (fst (run s ops)))).
Proof.
  induction ops as [|o ops IH]; intros s Q; cbn [run]; [split; apply tail_none_refl|].
  cbn [forallb] in Q. apply andb_true_iff in Q as [Q1 Q2].
  destruct (step s o) as [s1 d] eqn:H1. destruct (run s1 ops) as [s2 ds] eqn:H2. cbn [fst].
  destruct (step_quiet_leaves s o Q1) as (A & B). rewrite H1 in A, B. cbn [fst] in A, B.
  destruct (IH s1 Q2) as (A2 & B2). rewrite H2 in A2, B2. cbn [fst] in A2, B2.
  split; eapply tail_none_trans; eassumption.
Qed.

Lemma run_le : forall ops s, inv s -> le_st (es s) (es (fst (run s ops))).
Proof.
  induction ops as [|o ops IH]; intros s I; cbn [run]; [apply le_st_refl|].
  destruct (step s o) as [s1 d] eqn:H1. destruct (run s1 ops) as [s2 ds] eqn:H2. cbn [fst].
  pose proof (step_le s o (proj1 I)) as L1. pose proof (step_inv s o I) as I1. rewrite H1 in L1, I1. cbn [fst] in L1, I1.
  eapply le_st_trans; [exact L1|]. change s2 with (fst (s2, ds)). rewrite <- H2. apply IH, I1.
Qed.

(** *** C13_fresh_partial.  [ops0]: any history.  Solve k = [Solve (Some sol)] in the state it
    produced.  Guard on the object [x]: no cache on it or on the expressions it refers to when the
    solver is called.  After the solve and ANY further ops that do not solve (leaf points may be
    created: repair e997f00): [eval] returns the cache-free value of [x] over the leaf tables, and
    these are solution k (column i of [sP] for leaf point i, entry i of [sF] for leaf expression i,
    nothing for leaves created since).  Only the empty combination is excluded (F-C02b: its null vector
    has as many coordinates as there are leaf points at the time of its first evaluation). *)
Theorem fresh_partial ops0 sol ops x o :
  let s := final ops0 in
  let n := length (lpv (es s)) in
  let s2 := fst (run (solve s (Some sol)) ops) in
  clean (es (prepare s)) x -> x < length (objs (es (solve s (Some sol)))) ->
  forallb quiet ops = true ->
  get_obj (es s2) x = Some o -> okind_of o <> KPoint [] ->
  snd (eval_obj (es s2) x) = pure_obj n (es s2) (okind_of o)
  /\ tail_none (map (fun i => Some (column (sP sol) i)) (seq 0 n)) (lpv (es s2))
  /\ tail_none (map (fun i => Some (nth i (sF sol) 0%Q)) (seq 0 (S (length (lev (es s)))))) (lev (es s2)).
Proof.
  cbv zeta. intros C Hx Q Ho Hne.
  pose proof (final_inv ops0) as I0. pose proof I0 as [Cl _].
  pose proof (solve_leaves (final ops0) sol Cl) as [L1 L2].
  pose proof (fresh_after_solve (final ops0) sol x C) as G.
  assert (S1 : store_ok (es (solve (final ops0) (Some sol)))) by apply solve_store_ok, final_store_ok.
  assert (I1 : inv (solve (final ops0) (Some sol))).
  { pose proof (step_inv (final ops0) (Solve (Some sol)) I0) as H. exact H. }
  pose proof (run_le ops _ I1) as Lr.
  assert (N1 : nonempty (es (solve (final ops0) (Some sol))) x).
  { intros o1 Ho1. destruct Lr as (Lr & _). destruct (Lr x o1 Ho1) as (o' & Ho' & Hk').
    rewrite Ho in Ho'. injection Ho' as <-. rewrite <- Hk'. exact Hne. }
  destruct (run_good (length (lpv (es (final ops0)))) ops _ x Q S1 N1 Hx G) as [G2 N2].
  destruct (run_quiet_leaves ops (solve (final ops0) (Some sol)) Q) as (A & B).
  rewrite L1 in A. rewrite L2 in B.
  split; [|split; assumption].
  destruct (eval_obj (es (fst (run (solve (final ops0) (Some sol)) ops))) x) as [st' v] eqn:E. cbn [snd].
  eapply eval_obj_value; [exact E|exact Ho|exact G2|]. intros Hk. exfalso. apply Hne, Hk.
Qed.

(** objects built AFTER the solve (by the operators: a new derived point / expression has no cache and
    refers to nothing) are covered too *)
Theorem fresh_new_object m s k ops o :
  (forall e, In e (refs_of k) -> False) -> k <> KPoint [] -> store_ok (es s) ->
  let x := length (objs (es s)) in
  let s2 := fst (run (with_es s (new_obj (es s) k)) ops) in
  forallb quiet ops = true -> get_obj (es s2) x = Some o ->
  snd (eval_obj (es s2) x) = pure_obj m (es s2) (okind_of o).
Proof.
  intros Hk Hne S. cbv zeta. intros Q Ho.
  assert (G : good m (new_obj (es s) k) (length (objs (es s)))).
  { apply clean_good. intros o0 H0. rewrite get_obj_new_obj_last in H0. injection H0 as <-. cbn.
    split; [reflexivity|]. intros r' Hin. exfalso. eapply Hk, Hin. }
  assert (S1 : store_ok (new_obj (es s) k)) by (apply store_ok_new_obj; [exact S|intros e He; exfalso; eapply Hk, He]).
  assert (N1 : nonempty (new_obj (es s) k) (length (objs (es s)))).
  { intros oy Hoy. rewrite get_obj_new_obj_last in Hoy. injection Hoy as <-. exact Hne. }
  destruct (run_good m ops (with_es s (new_obj (es s) k)) (length (objs (es s))) Q S1 N1) as [G2 N2].
  - cbn [es with_es]. rewrite length_new_obj. lia.
  - exact G.
  - destruct (eval_obj _ _) as [st' v] eqn:E. cbn [snd].
    eapply eval_obj_value; [exact E|exact Ho|exact G2|]. intros Hk0. exfalso. apply (N2 o Ho Hk0).
Qed.

(** ** own constraints / LMIs of the functions: the filter "has an own constraint OR an own LMI" drops nothing *)
Theorem own_refs_all s : own_refs s = flat_map (fun f => fst f ++ snd f) (fown s).
Proof.
  unfold own_refs. induction (fown s) as [|[cs ls] l IH]; cbn [filter flat_map]; [reflexivity|].
  destruct cs as [|c cs], ls as [|m ls]; cbn [has_own fst snd negb orb flat_map]; rewrite IH; reflexivity.
Qed.

(** ** a solve with a dimension-reduction heuristic: the certificate is the FIRST answer's, the primal
    instance is the LAST answer's *)
Theorem heuristic_solve s first rest :
  closed s ->
  let s1 := fst (step s (SolveH first rest)) in
  let lastS := last rest first in
  (forall k r d, NoDup (wsent s1) -> nth_error (wsent s1) k = Some r -> nth_error (sDual first) k = Some d ->
                 eval_dual (es s1) r = Ok d)
  /\ lpv (es s1) = map (fun i => Some (column (sP lastS) i)) (seq 0 (length (lpv (es s))))
  /\ lev (es s1) = map (fun i => Some (nth i (sF lastS) 0%Q)) (seq 0 (S (length (lev (es s))))).
Proof.
  intro C. cbv zeta. unfold step. cbn [valid_op step_valid fst].
  split; [|exact (solve_leaves s (answer_of first rest) C)].
  intros k r d N Hr Hd. exact (duals_latest s (answer_of first rest) k r d C N Hr Hd).
Qed.

(** ** the CVXPY problem of a dimension-reduction heuristic: the original rows plus ONE, at every solve index *)
Definition size_of (it : item) : nat := match it with SC _ _ => 0 | LMI m => length m end.
Definition cvx_rows (l : sent) : nat := cvx_rows_sizes (map size_of l).
Definition cvx_heuristic_rows (l : sent) : nat := cvx_heuristic_rows_sizes (map size_of l).
Definition cvx_vars (l : sent) : nat := cvx_vars_sizes (map size_of l).

Lemma sizes_indep d o o' : map size_of (sent_of d o) = map size_of (sent_of d o').
Proof. unfold sent_of. rewrite !map_app, !map_map. reflexivity. Qed.

Theorem heuristic_rows s a : closed s ->
  let l := sent_at (solve s a) in
  cvx_heuristic_rows l = S (cvx_rows l)
  /\ cvx_rows l = cvx_rows (sent_of (decl_of s) 0) /\ cvx_vars l = cvx_vars (sent_of (decl_of s) 0).
Proof.
  intro C. cbv zeta. unfold sent_at. destruct (sent_fresh s a C) as [-> _].
  split; [reflexivity|]. unfold cvx_rows, cvx_vars. rewrite (sizes_indep _ _ 0). split; reflexivity.
Qed.

Theorem heuristic_rows_no_growth s ops a a' :
  inv s -> forallb (fun o => negb (editing o)) ops = true ->
  let k := sent_at (solve (fst (run s ops)) a') in let k1 := sent_at (solve s a) in
  cvx_heuristic_rows k = cvx_heuristic_rows k1 /\ cvx_rows k = cvx_rows k1 /\ cvx_vars k = cvx_vars k1.
Proof.
  intros I E. cbv zeta.
  destruct (heuristic_rows s a (proj1 I)) as (_ & R1 & V1).
  destruct (heuristic_rows _ a' (proj1 (run_inv ops s I))) as (_ & R2 & V2).
  rewrite (run_decl ops s I E) in R2, V2.
  split; [|split; congruence].
  change (S (cvx_rows (sent_at (solve (fst (run s ops)) a'))) = S (cvx_rows (sent_at (solve s a)))). congruence.
Qed.
