(** C01, layout: the order-preserving mapping solver duals -> constraints.
    For EVERY tracked list (any interleaving of scalar constraints and LMIs of any sizes; induction
    on the list) and every dual vector indexed like [emit]. *)
From Coq Require Import List QArith Arith Lia Bool.
From PV Require Import Model.Dict Model.Terms Model.Sent Model.Cvxpy.
Import ListNotations.
Local Open Scope nat_scope.

(** number of solver rows an item occupies *)
Definition width (it : item) : nat :=
  match it with SC _ _ => 1 | LMI m => 1 + nrows m * ncols m end.

(** position, in the solver's constraint list, of the main row of item [k] *)
Fixpoint pos_from (c : nat) (l : sent) (k : nat) : nat :=
  match l, k with
  | it :: r, S k' => pos_from (c + width it) r k'
  | _, _ => c
  end.
Definition main_pos (l : sent) (k : nat) : nat := pos_from 1 l k.

(** index (among the LMIs) of item [k] *)
Definition lmi_index (l : sent) (k : nat) : nat := length (lmis (firstn k l)).

Definition main_row (kk : nat) (it : item) : solver_row :=
  match it with SC e s => scalar_row e s | LMI m => RPsd kk (nrows m) (ncols m) end.

(** the main duals, consumed from a list aligned with [emit_from _ l] *)
Fixpoint mains (l : sent) (ds : list dval) : list dval :=
  match l with
  | [] => []
  | it :: r => hd dnone ds :: mains r (skipn (width it) ds)
  end.

(** the entry multipliers of each LMI, consumed from the same aligned list *)
Fixpoint ents (l : sent) (ds : list dval) : list (option (list (list Q))) :=
  match l with
  | [] => []
  | SC e s :: r => None :: ents r (skipn (width (SC e s)) ds)
  | LMI m :: r =>
      Some (reshape (ncols m) (map scalar_of (firstn (nrows m * ncols m) (tl ds))) (nrows m))
      :: ents r (skipn (width (LMI m)) ds)
  end.

Lemma length_entry_rows k m : length (entry_rows k m) = nrows m * ncols m.
Proof.
  unfold entry_rows.
  assert (H : forall l, length (flat_map (fun i => map (fun j => REnt k i j (entry m i j)) (seq 0 (ncols m))) l)
                        = length l * ncols m).
  { induction l as [|a l IH]; cbn [flat_map length]; [reflexivity|].
    rewrite app_length, map_length, seq_length, IH. cbn. lia. }
  rewrite H, seq_length. reflexivity.
Qed.

Lemma length_lmi_rows k m : length (lmi_rows k m) = width (LMI m).
Proof. unfold lmi_rows. cbn [length width]. rewrite length_entry_rows. reflexivity. Qed.

Fixpoint total_width (l : sent) : nat :=
  match l with [] => 0 | it :: r => width it + total_width r end.

Lemma length_emit_from k l : length (emit_from k l) = total_width l.
Proof.
  revert k. induction l as [|[e s|m] l IH]; intro k; cbn [emit_from total_width].
  - reflexivity.
  - cbn [length]. rewrite IH. reflexivity.
  - rewrite app_length, length_lmi_rows, IH. reflexivity.
Qed.

Lemma length_emit l : length (emit l) = 1 + total_width l.
Proof. unfold emit. cbn [length]. rewrite length_emit_from. reflexivity. Qed.

Lemma nth_app_pre {A} (pre ds : list A) d : nth (length pre) (pre ++ ds) d = hd d ds.
Proof.
  rewrite app_nth2 by lia. rewrite Nat.sub_diag. destruct ds; reflexivity.
Qed.

Lemma width_pos it : 1 <= width it.
Proof. destruct it; cbn; lia. Qed.

Lemma skipn_app_pre {A} (pre ds : list A) n : skipn (length pre + n) (pre ++ ds) = skipn n ds.
Proof.
  rewrite skipn_app. replace (length pre + n - length pre) with n by lia.
  rewrite skipn_all2 by lia. reflexivity.
Qed.

(** the loop of _recover_dual_values, started at any position of the dual vector *)
Lemma recover_loop_spec l : forall pre ds c2,
  total_width l <= length ds ->
  recover_loop l (pre ++ ds) (length pre) c2 = (mains l ds, ents l ds, c2 + length l).
Proof.
  induction l as [|it l IH]; intros pre ds c2 Hlen; cbn [recover_loop mains ents length].
  - f_equal. lia.
  - cbn [total_width] in Hlen.
    assert (Hsplit : pre ++ ds = (pre ++ firstn (width it) ds) ++ skipn (width it) ds)
      by (rewrite <- app_assoc, firstn_skipn; reflexivity).
    assert (Hl : length (pre ++ firstn (width it) ds) = length pre + width it)
      by (rewrite app_length, firstn_length; lia).
    assert (Hrest : total_width l <= length (skipn (width it) ds)) by (rewrite skipn_length; lia).
    pose proof (IH (pre ++ firstn (width it) ds) (skipn (width it) ds) (c2 + 1) Hrest) as H.
    rewrite <- Hsplit, Hl in H.
    destruct it as [e s|m]; rewrite nth_app_pre; cbn [width] in *.
    + rewrite H. f_equal. lia.
    + replace (length pre + 1 + nrows m * ncols m) with (length pre + (1 + nrows m * ncols m)) by lia.
      rewrite H. unfold entries_at. rewrite skipn_app_pre.
      replace (skipn 1 ds) with (tl ds) by (destruct ds; reflexivity). f_equal. lia.
Qed.

Lemma length_mains l ds : length (mains l ds) = length l.
Proof. revert ds. induction l as [|it l IH]; intro ds; cbn; [reflexivity|rewrite IH; reflexivity]. Qed.

(** [mains] picks the dual at [pos_from] *)
Lemma mains_nth l : forall pre ds,
  mains l ds = map (fun k => nth (pos_from (length pre) l k) (pre ++ ds) dnone) (seq 0 (length l)).
Proof.
  induction l as [|it l IH]; intros pre ds; cbn [mains length seq map]; [reflexivity|].
  f_equal.
  - cbn [pos_from]. rewrite nth_app_pre. reflexivity.
  - rewrite <- seq_shift, map_map. cbn [pos_from].
    destruct (le_lt_dec (width it) (length ds)) as [Hle|Hlt].
    + assert (Hl : length (pre ++ firstn (width it) ds) = length pre + width it)
        by (rewrite app_length, firstn_length; lia).
      rewrite (IH (pre ++ firstn (width it) ds) (skipn (width it) ds)).
      apply map_ext. intro k. rewrite Hl, <- app_assoc, firstn_skipn. reflexivity.
    + (* dual vector too short: everything further reads the default *)
      assert (Hs : skipn (width it) ds = []) by (apply skipn_all2; lia).
      rewrite Hs.
      assert (Hdef : forall l' : sent, mains l' (@nil dval) = map (fun k => dnone) (seq 0 (length l'))).
      { clear. induction l' as [|it' l' IH']; cbn [mains length seq map]; [reflexivity|].
        f_equal. rewrite skipn_nil, <- seq_shift, map_map. exact IH'. }
      rewrite (Hdef l). apply map_ext_in. intros k _.
      symmetry. apply nth_overflow. rewrite app_length.
      assert (Hmono : forall l' c k', c <= pos_from c l' k').
      { clear. induction l' as [|a l' IH']; intros c k'; destruct k'; cbn [pos_from]; try lia.
        specialize (IH' (c + width a) k'). lia. }
      specialize (Hmono l (length pre + width it) k). lia.
Qed.

Lemma pos_from_total c l : pos_from c l (length l) = c + total_width l.
Proof.
  revert c. induction l as [|it l IH]; intro c; cbn [pos_from length total_width]; [lia|].
  rewrite IH. lia.
Qed.

Lemma length_ents l ds : length (ents l ds) = length l.
Proof. revert ds. induction l as [|[e s|m] l IH]; intro ds; cbn [ents length]; [reflexivity| |]; rewrite IH; reflexivity. Qed.

(** [ents] reads the duals right after the main position *)
Definition entries_of_item (temp : list dval) (p : nat) (it : item) : option (list (list Q)) :=
  match it with SC _ _ => None | LMI m => Some (entries_at temp (p + 1) m) end.

Lemma ents_nth l : forall pre ds,
  total_width l <= length ds ->
  ents l ds = map (fun k => entries_of_item (pre ++ ds) (pos_from (length pre) l k) (nth k l (SC [] Ineq)))
                  (seq 0 (length l)).
Proof.
  induction l as [|it l IH]; intros pre ds Hlen; cbn [ents length seq map]; [reflexivity|].
  cbn [total_width] in Hlen.
  assert (Hl : length (pre ++ firstn (width it) ds) = length pre + width it)
    by (rewrite app_length, firstn_length; lia).
  assert (Hrest : total_width l <= length (skipn (width it) ds)) by (rewrite skipn_length; lia).
  assert (Htail : ents l (skipn (width it) ds)
                  = map (fun k => entries_of_item (pre ++ ds) (pos_from (length pre) (it :: l) (S k))
                                                  (nth (S k) (it :: l) (SC [] Ineq))) (seq 0 (length l))).
  { rewrite (IH (pre ++ firstn (width it) ds) (skipn (width it) ds) Hrest).
    apply map_ext. intro k. cbn [pos_from nth]. rewrite Hl, <- app_assoc, firstn_skipn. reflexivity. }
  rewrite <- seq_shift, map_map.
  destruct it as [e s|m]; cbn [pos_from nth entries_of_item] in *; f_equal; try exact Htail.
  f_equal. unfold entries_at. rewrite skipn_app_pre.
  replace (skipn 1 ds) with (tl ds) by (destruct ds; reflexivity). reflexivity.
Qed.

Lemma pos_from_step c l k it :
  nth_error l k = Some it -> pos_from c l (S k) = pos_from c l k + width it.
Proof.
  revert c k. induction l as [|a l IH]; intros c k H; [destruct k; discriminate|].
  destruct k as [|k]; cbn [nth_error] in H.
  - injection H as ->. cbn [pos_from]. destruct l; reflexivity.
  - cbn [pos_from]. apply IH. exact H.
Qed.

(** what the solver's row at the main position of item k is, and where its entry rows are *)
Lemma emit_from_rows l : forall kk c (pre : list solver_row) k it,
  length pre = c ->
  nth_error l k = Some it ->
  nth (pos_from c l k) (pre ++ emit_from kk l) RGram = main_row (kk + lmi_index l k) it
  /\ (forall m, it = LMI m -> forall i j, i < nrows m -> j < ncols m ->
        nth (pos_from c l k + 1 + i * ncols m + j) (pre ++ emit_from kk l) RGram
        = REnt (kk + lmi_index l k) i j (entry m i j)).
Proof.
  induction l as [|a l IH]; intros kk c pre k it Hpre Hk; [destruct k; discriminate|].
  destruct k as [|k]; cbn [nth_error] in Hk.
  - injection Hk as ->. cbn [pos_from]. unfold lmi_index. cbn [firstn lmis flat_map length].
    rewrite Nat.add_0_r. subst c. split.
    + rewrite nth_app_pre. destruct it as [e s|m]; reflexivity.
    + intros m -> i j Hi Hj. cbn [emit_from]. unfold lmi_rows.
      rewrite app_nth2 by lia.
      replace (length pre + 1 + i * ncols m + j - length pre) with (S (i * ncols m + j)) by lia.
      cbn [app nth]. rewrite app_nth1 by (rewrite length_entry_rows; nia).
      unfold entry_rows.
      assert (G : forall n0 base i0, i0 < n0 ->
                 nth (i0 * ncols m + j)
                   (flat_map (fun i => map (fun j => REnt kk i j (entry m i j)) (seq 0 (ncols m))) (seq base n0)) RGram
                 = REnt kk (base + i0) j (entry m (base + i0) j)).
      { clear -Hj. induction n0 as [|n0 IHn]; intros base i0 Hi0; [lia|].
        cbn [seq flat_map]. destruct i0 as [|i0].
        - cbn [Nat.mul Nat.add]. rewrite app_nth1 by (rewrite map_length, seq_length; exact Hj).
          rewrite Nat.add_0_r.
          rewrite (nth_indep _ RGram (REnt kk base 0 (entry m base 0))) by (rewrite map_length, seq_length; exact Hj).
          rewrite (map_nth (fun j => REnt kk base j (entry m base j))).
          rewrite seq_nth by exact Hj. reflexivity.
        - rewrite app_nth2 by (rewrite map_length, seq_length, Nat.mul_succ_l; lia).
          rewrite map_length, seq_length.
          replace (S i0 * ncols m + j - ncols m) with (i0 * ncols m + j) by (rewrite Nat.mul_succ_l; lia).
          rewrite IHn by lia. replace (S base + i0) with (base + S i0) by lia. reflexivity. }
      apply (G (nrows m) 0 i Hi).
  - cbn [pos_from].
    assert (Hli : lmi_index (a :: l) (S k) = length (lmis [a]) + lmi_index l k).
    { unfold lmi_index. cbn [firstn]. unfold lmis. cbn [flat_map]. rewrite app_length, app_nil_r. reflexivity. }
    destruct a as [e s|m0]; cbn [emit_from width].
    + replace (pre ++ scalar_row e s :: emit_from kk l) with ((pre ++ [scalar_row e s]) ++ emit_from kk l)
        by (rewrite <- app_assoc; reflexivity).
      rewrite Hli. cbn [lmis flat_map length app]. rewrite Nat.add_0_l.
      apply IH; [rewrite app_length; cbn; lia|exact Hk].
    + replace (pre ++ lmi_rows kk m0 ++ emit_from (S kk) l) with ((pre ++ lmi_rows kk m0) ++ emit_from (S kk) l)
        by (rewrite <- app_assoc; reflexivity).
      rewrite Hli. cbn [lmis flat_map length app].
      replace (kk + (1 + lmi_index l k)) with (S kk + lmi_index l k) by lia.
      apply IH; [rewrite app_length, length_lmi_rows; cbn [width]; lia|exact Hk].
Qed.

(** * The layout theorem *)
Theorem layout :
  forall (tracked : sent) (temp : list dval),
    length temp = length (emit tracked) ->
    let exposed_duals := map (fun k => nth (main_pos tracked k) temp dnone) (seq 0 (length tracked)) in
    (* entries_dual_variable_value of each LMI: the n*m duals that follow its main row, reshaped; nothing for a scalar *)
    let exposed_entries :=
      map (fun k => entries_of_item temp (main_pos tracked k) (nth k tracked (SC [] Ineq))) (seq 0 (length tracked)) in
    (* what _recover_dual_values returns, and its final assertion *)
    recover tracked temp = (nth 0 temp dnone :: exposed_duals, nth 0 temp dnone, S (length tracked), exposed_entries)
    /\ length (nth 0 temp dnone :: exposed_duals) = S (length tracked)
    (* assign_dual_values gives item k the dual found at the position of ITS main row *)
    /\ assign tracked (nth 0 temp dnone :: exposed_duals) = combine tracked exposed_duals
    /\ nth 0 (emit tracked) (RLe []) = RGram
    /\ (forall k it, nth_error tracked k = Some it ->
          nth (main_pos tracked k) (emit tracked) RGram = main_row (lmi_index tracked k) it
          (* the rows between two main rows are exactly the n*m entry equalities of the LMI, row-major *)
          /\ main_pos tracked (S k) = main_pos tracked k + width it
          /\ (forall m, it = LMI m -> forall i j, i < nrows m -> j < ncols m ->
                nth (main_pos tracked k + 1 + i * ncols m + j) (emit tracked) RGram
                = REnt (lmi_index tracked k) i j (entry m i j)))
    (* nothing is left at the end of the vector *)
    /\ main_pos tracked (length tracked) = length (emit tracked).
Proof.
  intros tracked temp Hlen exposed_duals exposed_entries.
  rewrite length_emit in Hlen.
  destruct temp as [|d0 ds]; [cbn in Hlen; lia|]. cbn [length] in Hlen.
  assert (Hds : total_width tracked <= length ds) by lia.
  assert (Hmains : mains tracked ds = exposed_duals).
  { unfold exposed_duals, main_pos. rewrite (mains_nth tracked [d0] ds). reflexivity. }
  assert (Hents : ents tracked ds = exposed_entries).
  { unfold exposed_entries, main_pos. rewrite (ents_nth tracked [d0] ds Hds). reflexivity. }
  split; [|split; [|split; [|split; [|split]]]].
  - unfold recover. cbn [nth].
    pose proof (recover_loop_spec tracked [d0] ds 1 Hds) as H. cbn [length app] in H.
    rewrite H, Hmains, Hents. repeat f_equal; lia.
  - cbn [length]. unfold exposed_duals. rewrite map_length, seq_length. reflexivity.
  - reflexivity.
  - reflexivity.
  - intros k it Hk. unfold main_pos, emit.
    pose proof (emit_from_rows tracked 0 1 [RGram] k it eq_refl Hk) as [H1 H2].
    cbn [app Nat.add] in H1, H2. split; [exact H1|]. split; [apply pos_from_step; exact Hk|exact H2].
  - unfold main_pos. rewrite pos_from_total, length_emit. reflexivity.
Qed.

(** ** Object identity: when every object is sent once, each position shows its own values *)
Lemma last_pos_absent ids : forall x i found, ~ In x ids -> last_pos_from ids x i found = found.
Proof.
  induction ids as [|y ids IH]; intros x i found H; cbn [last_pos_from]; [reflexivity|].
  destruct (Nat.eqb_spec y x) as [->|_]; [exfalso; apply H; left; reflexivity|].
  apply IH. intro; apply H; right; assumption.
Qed.

Lemma last_pos_nodup ids : forall x i found j,
  NoDup ids -> nth_error ids j = Some x -> last_pos_from ids x i found = i + j.
Proof.
  induction ids as [|y ids IH]; intros x i found j Hnd Hj; [destruct j; discriminate|].
  inversion Hnd as [|? ? Hn Hnd']; subst. cbn [last_pos_from]. destruct j as [|j]; cbn [nth_error] in Hj.
  - injection Hj as ->. rewrite Nat.eqb_refl. rewrite last_pos_absent by exact Hn. lia.
  - destruct (Nat.eqb_spec y x) as [->|_].
    + exfalso. apply Hn. eapply nth_error_In. exact Hj.
    + rewrite (IH x (S i) found j Hnd' Hj). lia.
Qed.

Lemma map_nth_seq {A} (l : list A) d : map (fun k => nth k l d) (seq 0 (length l)) = l.
Proof.
  induction l as [|a l IH]; cbn [length seq map nth]; [reflexivity|].
  f_equal. rewrite <- seq_shift, map_map. exact IH.
Qed.

Theorem by_object_nodup {A} (ids : list nat) (vals : list A) d :
  NoDup ids -> length ids = length vals -> by_object ids vals d = vals.
Proof.
  intros Hnd Hlen. unfold by_object. rewrite <- (map_nth_seq vals d) at 2.
  apply map_ext_in. intros k Hk. apply in_seq in Hk. f_equal.
  assert (Hk' : k < length ids) by lia.
  rewrite (last_pos_nodup ids (nth k ids 0) 0 k k Hnd); [reflexivity|].
  apply nth_error_nth'. exact Hk'.
Qed.
