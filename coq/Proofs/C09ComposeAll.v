(** C09, composition with C03 for the remaining classes (continuation of Proofs/C09Compose.v).

    For ANY run (free points, stationary points, evaluations at arbitrary combinations of earlier
    points; any length) of ANY method on a real member of the class, in the world made of that member:
    every class constraint and LMI PEPit generates from what it recorded ([run_plan plan_<Class>] on
    the state [fstate_of] builds from the recorded triples; plans and formulas regenerated from the
    sources) is satisfied at the values of the run.

    Worlds:
    - [dfn_world] (C09Compose.v): a differentiable function observed through inner products, with a
      stationary point -- SmoothConvex, Smooth, SmoothConvexLipschitz, RsiEb;
    - [fn_world] (C09Compose.v): a finite-valued convex function with a total subgradient selection
      and a minimiser -- ConvexLipschitz, ConvexQG;
    - [pfn_world] (here): an EXTENDED-valued function with a subgradient selection on its domain; a
      sample is genuine provided its point is in the domain, and the theorems assume that every
      recorded evaluation point is, at the values of the run, in the domain (points outside the domain
      are never evaluated) -- StronglyConvex, ConvexIndicator;
    - [support_world]: a support function with an argmax selection -- ConvexSupport;
    - [graph_world]: a single-valued selection T of a graph A that respects [veq], with a zero xs --
      the eight operator classes;
    - [lin_world] / [lin2_world]: a linear map (and its transpose, as a second function of the run) --
      SymmetricLinear, SkewSymmetricLinear, LinearOperator.
    ConvexQG / RsiEb (plans starting with "declare a stationary point if none was recorded") are stated
    for programs that contain [MStat 0], i.e. a stationary point IS recorded.
    Not composed here: SmoothStronglyConvexQuadraticFunction, BlockSmoothConvexFunction. *)
From Coq Require Import List QArith Reals Qreals Lra Arith Bool String Lia.
From PV Require Import Base.IPS Model.Dict Model.Terms Model.Method Model.MethodDump Model.ClassGen
  Spec.Sem Spec.World Spec.Classes Proofs.DictLemmas Proofs.MethodLemmas Proofs.ClassGenLemmas Proofs.C04Lemmas
  Proofs.C03Core Proofs.C03Assembly Proofs.C09Compose.
From PV Require Import Gen.Classes.
Import ListNotations.
Local Open Scope R_scope.

(** parameter tables *)
Definition par_at (p : nat) (q : Q) : nat -> Q := fun k => if Nat.eqb k p then q else 0%Q.
Definition par_at2 (p1 : nat) (q1 : Q) (p2 : nat) (q2 : Q) : nat -> Q :=
  fun k => if Nat.eqb k p1 then q1 else if Nat.eqb k p2 then q2 else 0%Q.

(** [fstate_of] never sets an [np.inf] flag; [set_inf] does (ConvexIndicator's D, ConvexSupport's M) *)
Definition set_inf (inf : nat -> bool) (st : fstate) : fstate :=
  mkF (f_id st) (f_par st) inf (f_points st) (f_stat st) (f_tpoints st) (f_v st)
      (f_next_point st) (f_next_expr st) (f_next_uid st) (f_nblocks st) (f_Lk st).
Definition inf_flag (p : nat) (o : option R) : nat -> bool :=
  fun k => match o with None => Nat.eqb k p | Some _ => false end.

(** * what a run records: stationary samples *)
Lemma samples_mono ops : forall s e, In e (m_samples s) -> In e (m_samples (mrun ops s)).
Proof.
  induction ops as [|o ops IH]; intros s e H; cbn [mrun fold_left]; [exact H|].
  apply (IH (mstep s o)). destruct o as [| | | | | | | | | |? ? ? []]; cbn [mstep m_samples];
    [exact H|apply in_or_app; left; exact H..].
Qed.

Lemma mstat_recorded ops f : forall s,
  In (MStat f) ops -> exists x fx, In (f, (x, [], fx)) (m_samples (mrun ops s)).
Proof.
  induction ops as [|o ops IH]; intros s Hin; [destruct Hin|]. destruct Hin as [Heq|Hin]; cbn [mrun fold_left].
  - subst o. exists [(m_np s, 1%Q)], [(KF (m_ne s), 1%Q)]. apply (samples_mono ops (mstep s (MStat f))).
    cbn [mstep m_samples]. apply in_or_app. right. left. reflexivity.
  - exact (IH (mstep s o) Hin).
Qed.

Lemma In_samples_of_conv f s t : In (f, t) (m_samples s) -> In t (samples_of f s).
Proof.
  intros H. unfold samples_of. apply in_flat_map. exists (f, t). split; [exact H|].
  rewrite Nat.eqb_refl. left. reflexivity.
Qed.

Lemma to_samples_In uid l x g fx :
  In (x, g, fx) l -> exists sm, In sm (to_samples uid l) /\ s_x sm = x /\ s_g sm = g /\ s_f sm = fx.
Proof.
  revert uid. induction l as [|[[x' g'] fx'] l IH]; intros uid; cbn [In to_samples]; [tauto|].
  intros [Heq|H].
  - injection Heq as -> -> ->. eexists. split; [left; reflexivity|]. cbn. auto.
  - destruct (IH (S uid) H) as (sm & Hs & Hr). exists sm. split; [right; exact Hs|exact Hr].
Qed.

(** a program that declares a stationary point of function f records a stationary sample *)
Lemma mstat_f_stat par ops f : In (MStat f) ops -> f_stat (fstate_of par (mrun ops minit) f) <> [].
Proof.
  intros Hin. destruct (mstat_recorded ops f minit Hin) as (x & fx & Hs).
  apply In_samples_of_conv in Hs.
  destruct (to_samples_In 0 _ x [] fx Hs) as (sm & Hsm & _ & Hg & _).
  cbn [fstate_of f_stat]. intros He.
  assert (H : In sm (filter is_stationary (to_samples 0 (samples_of f (mrun ops minit))))).
  { apply filter_In. split; [exact Hsm|]. unfold is_stationary. rewrite Hg. reflexivity. }
  rewrite He in H. destruct H.
Qed.

Lemma mem_fresh n k (d : pdict) : keys_below n d = true -> (n <= k)%nat -> mem Nat.eqb k d = false.
Proof.
  intros Hk Hle. unfold mem. destruct (lookup Nat.eqb k d) eqn:Hl; [|reflexivity]. exfalso.
  assert (Hin : In k (keys d)).
  { clear - Hl. induction d as [|[k' v] d IH]; cbn [lookup] in Hl; [discriminate|].
    destruct (Nat.eqb_spec k k') as [->|]; [left; reflexivity|right; exact (IH Hl)]. }
  pose proof (proj1 (keys_below_iff n d) Hk k Hin). lia.
Qed.

(** the (sub)gradient (x0 - x) / gamma recorded by an inexact proximal step 'PD_gapIII' mentions the fresh leaf x *)
Lemma ip3_grad_nonempty n (x0 : pdict) gamma :
  keys_below n x0 = true -> qpos gamma = true -> ip3_grad n x0 gamma <> [].
Proof.
  intros Hk Hpos He. pose proof (qpos_pos gamma Hpos) as Hg.
  pose proof (mem_fresh n n x0 Hk (Nat.le_refl n)) as Hmem.
  assert (Hin0 : exists c0, In (n, c0) (p_sub x0 [(n, 1%Q)]) /\ Q2R c0 = -1).
  { eexists. split.
    - unfold p_sub, p_add, prune. apply filter_In. split.
      + unfold pmerge, merge. apply in_or_app. right. cbn [p_neg p_scal scale map filter]. rewrite Hmem. left. reflexivity.
      + reflexivity.
    - unfold Q2R. cbn. lra. }
  destruct Hin0 as (c0 & Hin0 & Hc0).
  assert (Hin : In (n, (c0 * (1 / gamma))%Q) (ip3_grad n x0 gamma)).
  { unfold ip3_grad, prune. apply filter_In. split.
    - unfold p_div, p_scal, scale. apply in_map_iff. exists (n, c0). split; [reflexivity|exact Hin0].
    - unfold nonzero. apply negb_true_iff. destruct (Qeq_bool (c0 * (1 / gamma)) 0) eqn:Hc; [|reflexivity]. exfalso.
      apply Qeq_bool_eq in Hc. apply Qeq_eqR in Hc. rewrite Q2R_mult, RMicromega.Q2R_0, Hc0 in Hc.
      rewrite (SemLemmas.Q2R_one_div gamma (qpos_nz gamma Hg)) in Hc.
      assert (0 < 1 / Q2R gamma) by (apply Rdiv_lt_0_compat; lra). lra. }
  rewrite He in Hin. destruct Hin.
Qed.

(** the dual point recorded by a Bregman proximal step of non-zero step size mentions the fresh leaf gx *)
Lemma breg_dual_fresh_nonempty n k (sx0 : pdict) gamma :
  keys_below n sx0 = true -> (n <= k)%nat -> Qeq_bool gamma 0 = false -> breg_dual sx0 [(k, 1%Q)] gamma <> [].
Proof.
  intros Hk Hle Hg He.
  set (c := (1 * gamma * -1)%Q).
  assert (Hc : nonzero c = true).
  { unfold nonzero. apply negb_true_iff. destruct (Qeq_bool c 0) eqn:Hc; [|reflexivity]. exfalso.
    apply Qeq_bool_eq in Hc. assert (Hz : (gamma == 0)%Q).
    { setoid_replace gamma with (- c)%Q by (unfold c; ring). rewrite Hc. reflexivity. }
    apply Qeq_eq_bool in Hz. congruence. }
  pose proof (mem_fresh n k sx0 Hk Hle) as Hmem.
  assert (Hin : In (k, c) (breg_dual sx0 [(k, 1%Q)] gamma)).
  { unfold breg_dual, p_sub, p_add, prune. apply filter_In. split; [|exact Hc]. apply filter_In. split; [|exact Hc].
    unfold pmerge, merge. apply in_or_app. right. cbn [p_neg p_scal scale map filter]. fold c.
    rewrite Hmem. left. reflexivity. }
  rewrite He in Hin. destruct Hin.
Qed.

Section StatInv.
  Context {E : ips}.
  Variable W : @world E.

  (** the point of every stationary sample (empty gradient dictionary) is valued at the world's
      stationary point of its function *)
  Definition SInv (s : mstate) (vs : (nat -> E) * (nat -> R)) : Prop :=
    forall f x fx, In (f, (x, [], fx)) (m_samples s) ->
      keys_below (m_np s) x = true /\ veq (evalP (fst vs) x) (fst (stat W f)).

  Lemma SInv_step s vs o :
    SInv s vs -> op_wf s o = true -> linopt_dir_nonzero o = true -> SInv (mstep s o) (wstep W vs s o).
  Proof.
    intros HI Hwf Hnz f x fx Hin.
    destruct (wstep_agree W vs s o) as [Hr _]. destruct (mstep_counters s o) as [Hc _].
    assert (Hold : In (f, (x, [], fx)) (m_samples s) ->
              keys_below (m_np (mstep s o)) x = true /\ veq (evalP (fst (wstep W vs s o)) x) (fst (stat W f))).
    { intros H. destruct (HI f x fx H) as [Hk Hv]. split; [exact (keys_below_mono _ _ x Hc Hk)|].
      rewrite (evalP_agree (fst vs) _ (m_np s) x Hk Hr). exact Hv. }
    destruct o as [|g p|g|g p gamma|g dir|g p rel eps|g x0 dirs|g p|h gx0 sx0 gamma|h g sx0 gamma|g x0 gamma opt];
      cbn [mstep m_samples] in Hin.
    - apply Hold, Hin.
    - apply in_app_or in Hin as [Hin|[Heq|[]]]; [apply Hold, Hin|discriminate Heq].
    - apply in_app_or in Hin as [Hin|[Heq|[]]]; [apply Hold, Hin|]. injection Heq as <- <- <-. split.
      + cbn [mstep m_np keys_below forallb]. rewrite andb_true_r. apply Nat.ltb_lt. lia.
      + cbn [wstep fst evalP]. rewrite upd_same, Q2R_one. intros w.
        rewrite inner_add_l, inner_scal_l, inner_zero_l. lra.
    - apply in_app_or in Hin as [Hin|[Heq|[]]]; [apply Hold, Hin|discriminate Heq].
    - apply in_app_or in Hin as [Hin|[Heq|[]]]; [apply Hold, Hin|].
      cbn [linopt_dir_nonzero] in Hnz. injection Heq as _ _ Hg _. rewrite Hg in Hnz. discriminate Hnz.
    - apply in_app_or in Hin as [Hin|[Heq|[]]]; [apply Hold, Hin|discriminate Heq].
    - apply in_app_or in Hin as [Hin|[Heq|[]]]; [apply Hold, Hin|discriminate Heq].
    - apply in_app_or in Hin as [Hin|[Heq|[Heq|[]]]]; [apply Hold, Hin|discriminate Heq|discriminate Heq].
    - apply in_app_or in Hin as [Hin|[Heq|[]]]; [apply Hold, Hin|].
      cbn [linopt_dir_nonzero] in Hnz. injection Heq as _ _ Hg _. rewrite Hg in Hnz. discriminate Hnz.
    - apply in_app_or in Hin as [Hin|[Heq|[Heq|[]]]]; [apply Hold, Hin|discriminate Heq|].
      cbn [linopt_dir_nonzero op_wf] in Hnz, Hwf. apply andb_prop in Hwf as [Hwf _]. apply andb_prop in Hwf as [Hk _].
      injection Heq as _ _ Hg _. exfalso.
      apply (breg_dual_fresh_nonempty (m_np s) (S (m_np s)) sx0 gamma Hk (Nat.le_succ_diag_r _)); [|exact Hg].
      apply negb_true_iff. exact Hnz.
    - cbn [op_wf] in Hwf. apply andb_prop in Hwf as [Hwf Hpos]. apply andb_prop in Hwf as [Hk _].
      destruct opt; cbn [mstep m_samples] in Hin.
      + apply in_app_or in Hin as [Hin|[Heq|[Heq|[]]]]; [apply Hold, Hin|discriminate Heq|discriminate Heq].
      + apply in_app_or in Hin as [Hin|[Heq|[]]]; [apply Hold, Hin|discriminate Heq].
      + apply in_app_or in Hin as [Hin|[Heq|[Heq|[]]]]; [apply Hold, Hin|discriminate Heq|].
        injection Heq as _ _ Hgr _. exfalso. exact (ip3_grad_nonempty (m_np s) x0 gamma Hk Hpos Hgr).
  Qed.

  (** (a linear-optimization step along the zero direction would record a sample with an empty gradient
      dictionary at a point that need not be the stationary point: excluded) *)
  Theorem stationary_samples_at_stat ops : forall s vs,
    mwf ops s = true -> forallb linopt_dir_nonzero ops = true -> SInv s vs -> SInv (mrun ops s) (wrun W ops s vs).
  Proof.
    induction ops as [|o ops IH]; intros s vs Hwf Hnz HI; cbn [mrun fold_left wrun]; [exact HI|].
    cbn [forallb] in Hnz. apply andb_prop in Hnz as [Ho Hnz].
    cbn [mwf] in Hwf. apply andb_prop in Hwf as [Hwo Hwf].
    apply (IH (mstep s o) _ Hwf Hnz). apply SInv_step; assumption.
  Qed.

  (** worlds without a linear minimisation oracle, mirror maps and Bregman proximal operators: no such step at all *)
  Lemma no_lmo_nonzero ops :
    (forall f, has_lmo W f = false) -> (forall h, has_mirror W h = false) -> (forall h f, has_bprox W h f = false) ->
    steps_ok W ops = true -> forallb linopt_dir_nonzero ops = true.
  Proof.
    intros Hno Hnm Hnb. unfold steps_ok. induction ops as [|o ops IH]; cbn [forallb]; [reflexivity|].
    intros H. apply andb_prop in H as [Ho H]. rewrite (IH H), andb_true_r.
    destruct o as [|g p|g|g p gamma|g dir|g p rel eps|g x0 dirs|g p|h gx0 sx0 gamma|h g sx0 gamma|g x0 gamma opt]; try reflexivity;
      cbn [step_ok] in Ho; rewrite ?Hno, ?Hnm, ?Hnb in Ho; discriminate Ho.
  Qed.

  (** ... as the class generator sees them *)
  Lemma f_stat_at_stat par ops vs f sm :
    mwf ops minit = true ->
    forallb linopt_dir_nonzero ops = true ->
    In sm (f_stat (fstate_of par (mrun ops minit) f)) ->
    In sm (f_points (fstate_of par (mrun ops minit) f)) /\ s_g sm = [] /\
    veq (px (fst (wrun W ops minit vs)) sm) (fst (stat W f)).
  Proof.
    cbn [fstate_of f_stat f_points]. intros Hwf0 Hnz Hin. apply filter_In in Hin as [Hin Hst].
    assert (Hg : s_g sm = []) by (unfold is_stationary in Hst; destruct (s_g sm); [reflexivity|discriminate]).
    split; [exact Hin|]. split; [exact Hg|].
    apply In_to_samples in Hin as (t & Ht & Ex & Eg & Ef). apply In_samples_of in Ht.
    destruct t as [[x g] fx]. cbn [fst snd] in *. rewrite Hg in Eg. subst g.
    assert (H0 : SInv minit vs) by (intros ? ? ? []).
    destruct (stationary_samples_at_stat ops minit vs Hwf0 Hnz H0 f x fx Ht) as [_ Hv].
    unfold px. rewrite Ex. exact Hv.
  Qed.
End StatInv.

(** what it means for [lm] to be a linear minimisation oracle of the member a world is made of: the point
    [lm d] with the vector -d (and the value there) is a genuine sample; [hl = false]: none is claimed *)
Definition lmo_spec {E : ips} (G : E * E * R -> Prop) (valf : E -> R) (hl : bool) (lm : E -> E) : Prop :=
  hl = true -> forall d, G (lm d, vneg d, valf (lm d)).

Section All.
  Context {E : ips}.

  (** ** (1) the other differentiable classes, in [dfn_world] *)
  Section Dfn.
    Variable F : @dfn E.
    Variable xs : E.
    Hypothesis Hxs : veq (dgrad F xs) vzero.
    Hypothesis Hext : respects_veq F.
    Variable hp : bool.
    Variable res : R -> E -> E.
    Hypothesis Hres : prox_spec (genuine_grad F) (dval F) hp res.
    Variable ie : bool -> R -> E -> E.
    Hypothesis Hie : inexact_spec (dgrad F) ie.
    Variable hs : bool.
    Variable ls : E -> list E -> E.
    Hypothesis Hls : ls_spec (dgrad F) hs ls.
    Variable ops : list mop.
    Variable vs : (nat -> E) * (nat -> R).
    Hypothesis Hwf : mwf ops minit = true.
    Hypothesis Hnd : Forall op_nodup ops.
    Let W := dfn_world F xs Hxs Hext hp res Hres ie Hie hs ls Hls.
    Hypothesis Hpx : steps_ok W ops = true.
    Let rho := fst (wrun W ops minit vs).
    Let phi := snd (wrun W ops minit vs).

    Theorem run_satisfies_smooth_convex (L : R) (qL : Q) :
      0 < L -> smooth_convex_member L F -> Q2R qL = L ->
      all_satisfied rho phi (run_plan plan_SmoothConvexFunction (fstate_of (par_at 0 qL) (mrun ops minit) 0)).
    Proof.
      intros HL HF HqL. destruct (run_state_genuine W (par_at 0 qL) ops vs 0 Hwf Hpx Hnd) as [Hst Hgen].
      apply (c03_SmoothConvexFunction _ _ L F); assumption.
    Qed.

    Theorem run_satisfies_smooth (L : R) (qL : Q) :
      0 < L -> smooth_member L F -> Q2R qL = L ->
      all_satisfied rho phi (run_plan plan_SmoothFunction (fstate_of (par_at 0 qL) (mrun ops minit) 0)).
    Proof.
      intros HL HF HqL. destruct (run_state_genuine W (par_at 0 qL) ops vs 0 Hwf Hpx Hnd) as [Hst Hgen].
      apply (c03_SmoothFunction _ _ L F); assumption.
    Qed.

    Theorem run_satisfies_smooth_convex_lipschitz (L M : R) (qL qM : Q) :
      0 < L -> 0 <= M -> smooth_convex_lipschitz_member L M F -> Q2R qL = L -> Q2R qM = M ->
      all_satisfied rho phi
        (run_plan plan_SmoothConvexLipschitzFunction (fstate_of (par_at2 0 qL 2 qM) (mrun ops minit) 0)).
    Proof.
      intros HL HM HF HqL HqM.
      destruct (run_state_genuine W (par_at2 0 qL 2 qM) ops vs 0 Hwf Hpx Hnd) as [Hst Hgen].
      apply (c03_SmoothConvexLipschitzFunction _ _ L M F); assumption.
    Qed.

    (** RSI / EB around xs is a statement about F as seen through inner products *)
    Lemma rsi_eb_member_veq mu L (x' : E) : rsi_eb_member mu L F xs -> veq x' xs -> rsi_eb_member mu L F x'.
    Proof.
      intros [H0 H] Hv. split.
      - eapply veq_trans; [exact (proj1 (Hext x' xs Hv))|exact H0].
      - intros x. destruct (H x) as [H1 H2].
        assert (Hd : veq (vsub x x') (vsub x xs)) by (apply veq_sub; [apply veq_refl|exact Hv]).
        assert (Hn : nrm2 (vsub x x') = nrm2 (vsub x xs)) by (unfold nrm2; apply veq_inner; exact Hd).
        rewrite Hn, (veq_inner_r _ _ (dgrad F x) Hd). split; assumption.
    Qed.

    (** RsiEbFunction(mu, L): the world's stationary point is the xs of [rsi_eb_member]; stated for
        programs that declare a stationary point of the function ([MStat 0] occurs), so PEPit does not
        create one itself.  Every recorded stationary sample is then valued at xs (up to [veq]). *)
    Theorem run_satisfies_rsi_eb (mu L : R) (qmu qL : Q) :
      rsi_eb_member mu L F xs -> Q2R qL = L -> Q2R qmu = mu -> In (MStat 0) ops ->
      all_satisfied rho phi (run_plan plan_RsiEbFunction (fstate_of (par_at2 0 qL 1 qmu) (mrun ops minit) 0)).
    Proof.
      intros HF HqL Hqmu Hin. set (par := par_at2 0 qL 1 qmu).
      destruct (run_state_genuine W par ops vs 0 Hwf Hpx Hnd) as [Hst Hgen].
      pose proof (mstat_f_stat par ops 0 Hin) as Hne.
      apply (c03_RsiEbFunction _ _ mu L F); try assumption;
        rewrite (start_state_recorded _ _ Hne); try assumption.
      - intros sm Hsm. destruct (f_stat_at_stat W par ops vs 0 sm Hwf (no_lmo_nonzero W ops (fun _ => eq_refl) (fun _ => eq_refl) (fun _ _ => eq_refl) Hpx) Hsm) as (_ & _ & Hv).
        apply rsi_eb_member_veq; [exact HF|exact Hv].
      - intros sm Hsm. destruct (f_stat_at_stat W par ops vs 0 sm Hwf (no_lmo_nonzero W ops (fun _ => eq_refl) (fun _ => eq_refl) (fun _ _ => eq_refl) Hpx) Hsm) as (Hp & _ & _). exact (Hgen sm Hp).
    Qed.
  End Dfn.

  (** ** (2) finite-valued convex classes, in [fn_world] *)
  Section Fn.
    Variable F : @fn E.
    Variable sel : E -> E.
    Hypothesis Hsel : forall x, subgrad F x (sel x).
    Variable xs : E.
    Hypothesis Hxs : subgrad F xs vzero.
    Hypothesis Hext : fn_respects_veq F.
    Variable hp : bool.
    Variable res : R -> E -> E.
    Hypothesis Hres : prox_spec (genuine_sub F) (val F) hp res.
    Variable ops : list mop.
    Variable vs : (nat -> E) * (nat -> R).
    Hypothesis Hwf : mwf ops minit = true.
    Hypothesis Hnd : Forall op_nodup ops.
    Let W := fn_world F sel Hsel xs Hxs Hext hp res Hres.
    Hypothesis Hpx : steps_ok W ops = true.
    Let rho := fst (wrun W ops minit vs).
    Let phi := snd (wrun W ops minit vs).

    Theorem run_satisfies_convex_lipschitz (M : R) (qM : Q) :
      0 <= M -> lipschitz_fn M F -> Q2R qM = M ->
      all_satisfied rho phi (run_plan plan_ConvexLipschitzFunction (fstate_of (par_at 2 qM) (mrun ops minit) 0)).
    Proof.
      intros HM HF HqM. destruct (run_state_genuine W (par_at 2 qM) ops vs 0 Hwf Hpx Hnd) as [Hst Hgen].
      apply (c03_ConvexLipschitzFunction _ _ M F); assumption.
    Qed.

    (** ConvexQGFunction(L): the world's stationary point is a minimiser; stated for programs that
        declare a stationary point ([MStat 0] occurs) *)
    Theorem run_satisfies_convex_qg (L : R) (qL : Q) :
      0 < L -> qg_member L F -> Q2R qL = L -> In (MStat 0) ops ->
      all_satisfied rho phi (run_plan plan_ConvexQGFunction (fstate_of (par_at 0 qL) (mrun ops minit) 0)).
    Proof.
      intros HL HF HqL Hin. set (par := par_at 0 qL).
      destruct (run_state_genuine W par ops vs 0 Hwf Hpx Hnd) as [Hst Hgen].
      pose proof (mstat_f_stat par ops 0 Hin) as Hne.
      apply (c03_ConvexQGFunction_recorded _ _ L F); try assumption.
      intros sm Hsm. destruct (f_stat_at_stat W par ops vs 0 sm Hwf (no_lmo_nonzero W ops (fun _ => eq_refl) (fun _ => eq_refl) (fun _ _ => eq_refl) Hpx) Hsm) as (Hp & Hg & _).
      pose proof (Hgen sm Hp) as G. unfold sval, pg in G. rewrite Hg in G. exact G.
    Qed.
  End Fn.

  (** ** extended-valued functions: a subgradient selection on the domain only *)
  Section PartialFn.
    Variable F : @fn E.
    Variable sel : E -> E.
    Hypothesis Hsel : forall x, dom F x -> subgrad F x (sel x).
    Variable xs : E.
    Hypothesis Hxs : subgrad F xs vzero.
    Hypothesis Hext : fn_respects_veq F.
    Variable hp : bool.
    Variable res : R -> E -> E.
    Hypothesis Hres : prox_spec (genuine_sub F) (val F) hp res.
    (* optionally: a linear minimisation oracle, lm d a minimiser of <d, .> over dom F (F an indicator) *)
    Variable hl : bool.
    Variable lm : E -> E.
    Hypothesis Hlm : lmo_spec (genuine_sub F) (val F) hl lm.

    (** genuine provided the point is in the domain *)
    Definition pgen (t : E * E * R) : Prop := dom F (fst (fst t)) -> genuine_sub F t.

    Lemma pfn_orc_genuine (f : nat) (x : E) : pgen (x, sel x, val F x).
    Proof. intros Hd. split; [apply Hsel, Hd|reflexivity]. Qed.
    Lemma pfn_stat_genuine (f : nat) : pgen (xs, vzero, val F xs).
    Proof. intros _. split; [exact Hxs|reflexivity]. Qed.
    Lemma pfn_gen_veq (f : nat) (x g g' : E) (v : R) : pgen (x, g, v) -> veq g g' -> pgen (x, g', v).
    Proof. intros H Hq Hd. exact (fn_gen_veq F f x g g' v (H Hd) Hq). Qed.
    Lemma pfn_gen_xveq (f : nat) (x x' g : E) (v : R) : pgen (x, g, v) -> veq x x' -> pgen (x', g, v).
    Proof.
      intros H Hq Hd. cbn [fst] in *.
      assert (Hdx : dom F x) by exact (proj1 (Hext x' x (veq_sym _ _ Hq)) Hd).
      exact (fn_gen_xveq F Hext f x x' g v (H Hdx) Hq).
    Qed.

    Definition pfn_world : @world E :=
      mkW (fun _ x => (sel x, val F x)) (fun _ t => pgen t) (fun _ => (xs, val F xs))
          pfn_orc_genuine pfn_stat_genuine pfn_gen_veq pfn_gen_xveq
          (fun _ => hp) (fun _ => res) (fun _ gamma x0 => val F (res gamma x0))
          (fun _ gamma x0 H Hg _ => Hres H gamma x0 Hg)
          (fun _ => hl) (fun _ d => (lm d, val F (lm d))) (fun _ d H _ => Hlm H d)
          (fun f _ _ x => sel x) (exact_inexact_bound (fun _ x => (sel x, val F x)))
          (fun _ => false) (fun _ x0 _ => x0) (no_ls _ _)
          (exact_epssub (fun _ x => (sel x, val F x))) (exact_epssub_spec (fun _ x => (sel x, val F x)) (fun _ t => pgen t) pfn_orc_genuine)
          (fun _ => false) (fun _ sd => (sd, 0)) (no_mirror _ _)
          (fun _ _ => false) (fun _ _ _ sd => ((sd, sd), (0, 0))) (no_bprox _ _)
          (exact_iprox (fun _ x => (sel x, val F x))) (exact_iprox_spec (fun _ x => (sel x, val F x)) (fun _ t => pgen t) pfn_orc_genuine pfn_gen_veq).

    Variable ops : list mop.
    Variable vs : (nat -> E) * (nat -> R).
    Hypothesis Hwf : mwf ops minit = true.
    Hypothesis Hnd : Forall op_nodup ops.
    Hypothesis Hpx : steps_ok pfn_world ops = true.
    Let rho := fst (wrun pfn_world ops minit vs).
    Let phi := snd (wrun pfn_world ops minit vs).

    (** the run only evaluates points of the domain *)
    Definition evaluated_in_dom (par : nat -> Q) : Prop :=
      forall sm, In sm (f_points (fstate_of par (mrun ops minit) 0)) -> dom F (px rho sm).

    Lemma pfn_genuine par :
      evaluated_in_dom par ->
      forall sm, In sm (f_points (fstate_of par (mrun ops minit) 0)) -> genuine_sub F (sval rho phi sm).
    Proof.
      intros Hdom sm Hsm. destruct (run_state_genuine pfn_world par ops vs 0 Hwf Hpx Hnd) as [_ Hgen].
      exact (Hgen sm Hsm (Hdom sm Hsm)).
    Qed.

    Theorem run_satisfies_strongly_convex (mu : R) (qmu : Q) :
      0 <= mu -> strongly_convex_member mu F -> Q2R qmu = mu -> evaluated_in_dom (par_at 1 qmu) ->
      all_satisfied rho phi (run_plan plan_StronglyConvexFunction (fstate_of (par_at 1 qmu) (mrun ops minit) 0)).
    Proof.
      intros Hmu HF Hq Hdom. destruct (run_state_genuine pfn_world (par_at 1 qmu) ops vs 0 Hwf Hpx Hnd) as [Hst _].
      apply (c03_StronglyConvexFunction _ _ mu F); try assumption. apply pfn_genuine, Hdom.
    Qed.

    (** ConvexIndicatorFunction(D): F the indicator of its domain, the oracle a selection of the normal
        cone on the set.  [D = None] is [D = np.inf]: the flag is set in the generator's state. *)
    Theorem run_satisfies_convex_indicator (D : option R) (qD : Q) :
      indicator_member D F -> (forall d, D = Some d -> Q2R qD = d) -> evaluated_in_dom (par_at 3 qD) ->
      all_satisfied rho phi
        (run_plan plan_ConvexIndicatorFunction (set_inf (inf_flag 3 D) (fstate_of (par_at 3 qD) (mrun ops minit) 0))).
    Proof.
      intros HF Hq Hdom. destruct (run_state_genuine pfn_world (par_at 3 qD) ops vs 0 Hwf Hpx Hnd) as [Hst _].
      apply (c03_ConvexIndicatorFunction _ _ D F); try assumption.
      - destruct D as [d|]; cbn; [split; [reflexivity|exact (Hq d eq_refl)]|reflexivity].
      - apply pfn_genuine, Hdom.
    Qed.
  End PartialFn.

  (** ** ConvexSupportFunction(M): sigma the support function of C, the oracle an argmax selection *)
  Section Support.
    Variable C : E -> Prop.
    Variable sigma : E -> R.
    Variable sel : E -> E.
    Hypothesis Hsel : forall x, C (sel x) /\ inner (sel x) x = sigma x.
    (* a minimiser xs of sigma: 0 is a subgradient there, i.e. 0 is in C and sigma xs = 0 (only used by MStat) *)
    Variable xs : E.
    Hypothesis Hzero : C vzero.
    Hypothesis Hxs : sigma xs = 0.
    Hypothesis HCext : forall g g' : E, veq g g' -> C g -> C g'.
    Hypothesis Hsext : forall x x' : E, veq x x' -> sigma x = sigma x'.
    Variable hp : bool.
    Variable res : R -> E -> E.
    Hypothesis Hres : prox_spec (genuine_support C sigma) sigma hp res.

    Lemma sup_orc_genuine (f : nat) (x : E) : genuine_support C sigma (x, sel x, sigma x).
    Proof. destruct (Hsel x). repeat split; assumption. Qed.
    Lemma sup_stat_genuine (f : nat) : genuine_support C sigma (xs, vzero, sigma xs).
    Proof. split; [exact Hzero|]. split; [rewrite inner_zero_l, Hxs; reflexivity|reflexivity]. Qed.
    Lemma sup_gen_veq (f : nat) (x g g' : E) (v : R) :
      genuine_support C sigma (x, g, v) -> veq g g' -> genuine_support C sigma (x, g', v).
    Proof. intros (H1 & H2 & H3) Hq. split; [exact (HCext g g' Hq H1)|]. split; [rewrite <- (Hq x); exact H2|exact H3]. Qed.
    Lemma sup_gen_xveq (f : nat) (x x' g : E) (v : R) :
      genuine_support C sigma (x, g, v) -> veq x x' -> genuine_support C sigma (x', g, v).
    Proof.
      intros (H1 & H2 & H3) Hq. split; [exact H1|]. rewrite <- (Hsext x x' Hq).
      split; [rewrite <- (veq_inner_r _ _ g Hq); exact H2|exact H3].
    Qed.

    Definition support_world : @world E :=
      mkW (fun _ x => (sel x, sigma x)) (fun _ t => genuine_support C sigma t) (fun _ => (xs, sigma xs))
          sup_orc_genuine sup_stat_genuine sup_gen_veq sup_gen_xveq
          (fun _ => hp) (fun _ => res) (fun _ gamma x0 => sigma (res gamma x0))
          (fun _ gamma x0 H Hg => Hres H gamma x0 Hg)
          (fun _ => false) (fun _ d => (d, 0)) (no_lmo _ _)
          (fun f _ _ x => fst ((fun _ x => (sel x, sigma x)) f x)) (exact_inexact_bound (fun _ x => (sel x, sigma x)))
          (fun _ => false) (fun _ x0 _ => x0) (no_ls _ _)
          (exact_epssub (fun _ x => (sel x, sigma x))) (exact_epssub_spec (fun _ x => (sel x, sigma x)) (fun _ t => genuine_support C sigma t) sup_orc_genuine)
          (fun _ => false) (fun _ sd => (sd, 0)) (no_mirror _ _)
          (fun _ _ => false) (fun _ _ _ sd => ((sd, sd), (0, 0))) (no_bprox _ _)
          (exact_iprox (fun _ x => (sel x, sigma x))) (exact_iprox_spec (fun _ x => (sel x, sigma x)) (fun _ t => genuine_support C sigma t) sup_orc_genuine sup_gen_veq).

    Theorem run_satisfies_convex_support (M : option R) (qM : Q) ops vs :
      support_member M C sigma -> (forall m, M = Some m -> Q2R qM = m) ->
      mwf ops minit = true -> Forall op_nodup ops -> steps_ok support_world ops = true ->
      all_satisfied (fst (wrun support_world ops minit vs)) (snd (wrun support_world ops minit vs))
        (run_plan plan_ConvexSupportFunction (set_inf (inf_flag 2 M) (fstate_of (par_at 2 qM) (mrun ops minit) 0))).
    Proof.
      intros HF Hq Hwf Hnd Hpx. destruct (run_state_genuine support_world (par_at 2 qM) ops vs 0 Hwf Hpx Hnd) as [Hst Hgen].
      apply (c03_ConvexSupportFunction _ _ M C sigma); try assumption.
      destruct M as [m|]; cbn; [split; [reflexivity|exact (Hq m eq_refl)]|reflexivity].
    Qed.
  End Support.

  (** ** (3) operator classes: a single-valued selection of a graph *)
  Definition graph_respects_veq (A : @graph E) : Prop :=
    forall x x' g g' : E, veq x x' -> veq g g' -> A x g -> A x' g'.

  Section Graph.
    Variable A : @graph E.
    Variable T : E -> E.
    Hypothesis HT : forall x, A x (T x).
    Variable xs : E.
    Hypothesis Hxs : A xs vzero.
    Hypothesis Hext : graph_respects_veq A.
    (* optionally: the resolvent of A, A (res gamma x0) ((x0 - res gamma x0) / gamma) *)
    Variable hp : bool.
    Variable res : R -> E -> E.
    Hypothesis Hres : prox_spec (genuine_op A) (fun _ => 0) hp res.

    Lemma graph_orc_genuine (f : nat) (x : E) : genuine_op A (x, T x, 0).
    Proof. apply HT. Qed.
    Lemma graph_stat_genuine (f : nat) : genuine_op A (xs, vzero, 0).
    Proof. exact Hxs. Qed.
    Lemma graph_gen_veq (f : nat) (x g g' : E) (v : R) : genuine_op A (x, g, v) -> veq g g' -> genuine_op A (x, g', v).
    Proof. intros H Hq. exact (Hext x x g g' (veq_refl x) Hq H). Qed.
    Lemma graph_gen_xveq (f : nat) (x x' g : E) (v : R) : genuine_op A (x, g, v) -> veq x x' -> genuine_op A (x', g, v).
    Proof. intros H Hq. exact (Hext x x' g g Hq (veq_refl g) H). Qed.

    Definition graph_world : @world E :=
      mkW (fun _ x => (T x, 0)) (fun _ t => genuine_op A t) (fun _ => (xs, 0))
          graph_orc_genuine graph_stat_genuine graph_gen_veq graph_gen_xveq
          (fun _ => hp) (fun _ => res) (fun _ _ _ => 0)
          (fun _ gamma x0 H Hg => Hres H gamma x0 Hg)
          (fun _ => false) (fun _ d => (d, 0)) (no_lmo _ _)
          (fun f _ _ x => fst ((fun _ x => (T x, 0)) f x)) (exact_inexact_bound (fun _ x => (T x, 0)))
          (fun _ => false) (fun _ x0 _ => x0) (no_ls _ _)
          (exact_epssub (fun _ x => (T x, 0))) (exact_epssub_spec (fun _ x => (T x, 0)) (fun _ t => genuine_op A t) graph_orc_genuine)
          (fun _ => false) (fun _ sd => (sd, 0)) (no_mirror _ _)
          (fun _ _ => false) (fun _ _ _ sd => ((sd, sd), (0, 0))) (no_bprox _ _)
          (exact_iprox (fun _ x => (T x, 0))) (exact_iprox_spec (fun _ x => (T x, 0)) (fun _ t => genuine_op A t) graph_orc_genuine graph_gen_veq).

    Variable ops : list mop.
    Variable vs : (nat -> E) * (nat -> R).
    Hypothesis Hwf : mwf ops minit = true.
    Hypothesis Hnd : Forall op_nodup ops.
    Hypothesis Hpx : steps_ok graph_world ops = true.
    Let rho := fst (wrun graph_world ops minit vs).
    Let phi := snd (wrun graph_world ops minit vs).

    Ltac compose par thm :=
      destruct (run_state_genuine graph_world par ops vs 0 Hwf Hpx Hnd) as [Hst Hgen];
      eapply thm; try eassumption.

    Theorem run_satisfies_monotone :
      monotone_op A ->
      all_satisfied rho phi (run_plan plan_MonotoneOperator (fstate_of (fun _ => 0%Q) (mrun ops minit) 0)).
    Proof. intros HA. compose (fun _ : nat => 0%Q) (c03_MonotoneOperator rho phi A). Qed.

    Theorem run_satisfies_strongly_monotone (mu : R) (qmu : Q) :
      strongly_monotone_op mu A -> Q2R qmu = mu ->
      all_satisfied rho phi (run_plan plan_StronglyMonotoneOperator (fstate_of (par_at 1 qmu) (mrun ops minit) 0)).
    Proof. intros HA Hq. compose (par_at 1 qmu) (c03_StronglyMonotoneOperator rho phi mu A). Qed.

    Theorem run_satisfies_cocoercive (beta : R) (qbeta : Q) :
      cocoercive_op beta A -> Q2R qbeta = beta ->
      all_satisfied rho phi (run_plan plan_CocoerciveOperator (fstate_of (par_at 4 qbeta) (mrun ops minit) 0)).
    Proof. intros HA Hq. compose (par_at 4 qbeta) (c03_CocoerciveOperator rho phi beta A). Qed.

    Theorem run_satisfies_negatively_comonotone (rh : R) (qrho : Q) :
      neg_comonotone_op rh A -> Q2R qrho = rh ->
      all_satisfied rho phi (run_plan plan_NegativelyComonotoneOperator (fstate_of (par_at 5 qrho) (mrun ops minit) 0)).
    Proof. intros HA Hq. compose (par_at 5 qrho) (c03_NegativelyComonotoneOperator rho phi rh A). Qed.

    Theorem run_satisfies_lipschitz (L : R) (qL : Q) :
      lipschitz_op L A -> Q2R qL = L ->
      all_satisfied rho phi (run_plan plan_LipschitzOperator (fstate_of (par_at 0 qL) (mrun ops minit) 0)).
    Proof. intros HA Hq. compose (par_at 0 qL) (c03_LipschitzOperator rho phi L A). Qed.

    (** no infimal displacement vector declared ([self.v is None]) *)
    Theorem run_satisfies_nonexpansive :
      nonexpansive_op A ->
      all_satisfied rho phi (run_plan plan_NonexpansiveOperator (fstate_of (fun _ => 0%Q) (mrun ops minit) 0)).
    Proof.
      intros HA. compose (fun _ : nat => 0%Q) (c03_NonexpansiveOperator rho phi A).
      intros d Hd. discriminate Hd.
    Qed.

    Theorem run_satisfies_lipschitz_strongly_monotone (mu L : R) (qmu qL : Q) :
      lipschitz_strongly_monotone_op mu L A -> Q2R qL = L -> Q2R qmu = mu ->
      all_satisfied rho phi
        (run_plan plan_LipschitzStronglyMonotoneOperator (fstate_of (par_at2 0 qL 1 qmu) (mrun ops minit) 0)).
    Proof. intros HA HqL Hqmu. compose (par_at2 0 qL 1 qmu) (c03_LipschitzStronglyMonotoneOperator rho phi mu L A). Qed.

    Theorem run_satisfies_cocoercive_strongly_monotone (mu beta : R) (qmu qbeta : Q) :
      cocoercive_strongly_monotone_op mu beta A -> Q2R qmu = mu -> Q2R qbeta = beta ->
      all_satisfied rho phi
        (run_plan plan_CocoerciveStronglyMonotoneOperator (fstate_of (par_at2 1 qmu 4 qbeta) (mrun ops minit) 0)).
    Proof. intros HA Hqmu Hqb. compose (par_at2 1 qmu 4 qbeta) (c03_CocoerciveStronglyMonotoneOperator rho phi mu beta A). Qed.
  End Graph.

  (** ** (4) linear operators: g = M x; the zero vector is the stationary point *)
  Section Lin.
    Variable M : E -> E.
    Hypothesis HM : linear M.
    (* optionally: the resolvent (I + gamma M)^-1 *)
    Variable hp : bool.
    Variable res : R -> E -> E.
    Hypothesis Hres : prox_spec (genuine_lin M) (fun _ => 0) hp res.

    Lemma lin_orc_genuine (f : nat) (x : E) : genuine_lin M (x, M x, 0).
    Proof. apply veq_refl. Qed.
    Lemma lin_stat_genuine (f : nat) : genuine_lin M (vzero, vzero, 0).
    Proof. apply veq_sym. apply (lin_zero M HM). Qed.
    Lemma lin_gen_veq (f : nat) (x g g' : E) (v : R) : genuine_lin M (x, g, v) -> veq g g' -> genuine_lin M (x, g', v).
    Proof. intros H Hq. eapply veq_trans; [apply veq_sym; exact Hq|exact H]. Qed.
    Lemma lin_gen_xveq (f : nat) (x x' g : E) (v : R) : genuine_lin M (x, g, v) -> veq x x' -> genuine_lin M (x', g, v).
    Proof. intros H Hq. eapply veq_trans; [exact H|apply (lin_ext M HM), Hq]. Qed.

    Definition lin_world : @world E :=
      mkW (fun _ x => (M x, 0)) (fun _ t => genuine_lin M t) (fun _ => (vzero, 0))
          lin_orc_genuine lin_stat_genuine lin_gen_veq lin_gen_xveq
          (fun _ => hp) (fun _ => res) (fun _ _ _ => 0)
          (fun _ gamma x0 H Hg => Hres H gamma x0 Hg)
          (fun _ => false) (fun _ d => (d, 0)) (no_lmo _ _)
          (fun f _ _ x => fst ((fun _ x => (M x, 0)) f x)) (exact_inexact_bound (fun _ x => (M x, 0)))
          (fun _ => false) (fun _ x0 _ => x0) (no_ls _ _)
          (exact_epssub (fun _ x => (M x, 0))) (exact_epssub_spec (fun _ x => (M x, 0)) (fun _ t => genuine_lin M t) lin_orc_genuine)
          (fun _ => false) (fun _ sd => (sd, 0)) (no_mirror _ _)
          (fun _ _ => false) (fun _ _ _ sd => ((sd, sd), (0, 0))) (no_bprox _ _)
          (exact_iprox (fun _ x => (M x, 0))) (exact_iprox_spec (fun _ x => (M x, 0)) (fun _ t => genuine_lin M t) lin_orc_genuine lin_gen_veq).

    Variable ops : list mop.
    Variable vs : (nat -> E) * (nat -> R).
    Hypothesis Hwf : mwf ops minit = true.
    Hypothesis Hnd : Forall op_nodup ops.
    Hypothesis Hpx : steps_ok lin_world ops = true.
    Let rho := fst (wrun lin_world ops minit vs).
    Let phi := snd (wrun lin_world ops minit vs).

    Theorem run_satisfies_symmetric_linear (mu L : R) (qmu qL : Q) :
      sa_bounded mu L M -> Q2R qL = L -> Q2R qmu = mu ->
      all_satisfied rho phi (run_plan plan_SymmetricLinearOperator (fstate_of (par_at2 0 qL 1 qmu) (mrun ops minit) 0)).
    Proof.
      intros HQ HqL Hqmu. destruct (run_state_genuine lin_world (par_at2 0 qL 1 qmu) ops vs 0 Hwf Hpx Hnd) as [Hst Hgen].
      apply (c03_SymmetricLinearOperator _ _ mu L M); assumption.
    Qed.

    Theorem run_satisfies_skew_symmetric_linear (L : R) (qL : Q) :
      skew_bounded L M -> Q2R qL = L ->
      all_satisfied rho phi (run_plan plan_SkewSymmetricLinearOperator (fstate_of (par_at 0 qL) (mrun ops minit) 0)).
    Proof.
      intros HA HqL. destruct (run_state_genuine lin_world (par_at 0 qL) ops vs 0 Hwf Hpx Hnd) as [Hst Hgen].
      apply (c03_SkewSymmetricLinearOperator _ _ L M); assumption.
    Qed.
  End Lin.

  (** LinearOperator(L): the operator is function 0 of the run, its transpose function 1
      ([self.T] is a different Function object): two lists of recorded samples *)
  Definition fstate_of2 (par : nat -> Q) (s : mstate) (f fT : nat) : fstate :=
    let pts := to_samples 0 (samples_of f s) in
    let tpts := to_samples (List.length pts) (samples_of fT s) in
    mkF "f" par (fun _ => false) pts (filter is_stationary pts) tpts None (m_np s) (m_ne s)
        (List.length pts + List.length tpts) 0 (fun _ => 0%Q).

  Section Lin2.
    Variable M Mt : E -> E.
    Hypothesis HM : linear M.
    Hypothesis HMt : linear Mt.

    Definition pick (f : nat) : E -> E := if Nat.eqb f 0 then M else Mt.
    Lemma pick_linear f : linear (pick f).
    Proof. unfold pick. destruct (Nat.eqb f 0); assumption. Qed.

    (* no proximal operator in this world: programs contain no proximal step ([steps_ok]) *)
    Lemma lin2_prox_genuine (f : nat) (gamma : R) (x0 : E) :
      false = true -> 0 < gamma -> genuine_lin (pick f) (x0, vscal (1 / gamma) (vsub x0 x0), 0).
    Proof. discriminate. Qed.

    Definition lin2_world : @world E :=
      mkW (fun f x => (pick f x, 0)) (fun f t => genuine_lin (pick f) t) (fun _ => (vzero, 0))
          (fun f => lin_orc_genuine (pick f) f) (fun f => lin_stat_genuine (pick f) (pick_linear f) f)
          (fun f => lin_gen_veq (pick f) f) (fun f => lin_gen_xveq (pick f) (pick_linear f) f)
          (fun _ => false) (fun _ _ x0 => x0) (fun _ _ _ => 0) lin2_prox_genuine
          (fun _ => false) (fun _ d => (d, 0)) (no_lmo _ _)
          (fun f _ _ x => fst ((fun f x => (pick f x, 0)) f x)) (exact_inexact_bound (fun f x => (pick f x, 0)))
          (fun _ => false) (fun _ x0 _ => x0) (no_ls _ _)
          (exact_epssub (fun f x => (pick f x, 0))) (exact_epssub_spec (fun f x => (pick f x, 0)) (fun f t => genuine_lin (pick f) t) (fun f => lin_orc_genuine (pick f) f))
          (fun _ => false) (fun _ sd => (sd, 0)) (no_mirror _ _)
          (fun _ _ => false) (fun _ _ _ sd => ((sd, sd), (0, 0))) (no_bprox _ _)
          (exact_iprox (fun f x => (pick f x, 0))) (exact_iprox_spec (fun f x => (pick f x, 0)) (fun f t => genuine_lin (pick f) t) (fun f => lin_orc_genuine (pick f) f) (fun f => lin_gen_veq (pick f) f)).

    Theorem run_satisfies_linear (L : R) (qL : Q) ops vs :
      bounded_pair L M Mt -> Q2R qL = L ->
      mwf ops minit = true -> Forall op_nodup ops -> steps_ok lin2_world ops = true ->
      all_satisfied (fst (wrun lin2_world ops minit vs)) (snd (wrun lin2_world ops minit vs))
        (run_plan plan_LinearOperator (fstate_of2 (par_at 0 qL) (mrun ops minit) 0 1)).
    Proof.
      intros HB HqL Hwf Hnd Hpx.
      set (rho := fst (wrun lin2_world ops minit vs)). set (phi := snd (wrun lin2_world ops minit vs)).
      assert (Hs : forall f uid sm, In sm (to_samples uid (samples_of f (mrun ops minit))) ->
                wf_sample sm /\ genuine_lin (pick f) (sval rho phi sm)).
      { intros f uid sm Hin. apply In_to_samples in Hin as (t & Ht & Ex & Eg & Ef). apply In_samples_of in Ht.
        destruct (recorded_nodup ops minit Hnd (fun _ _ (H : In _ []) => match H with end) f t Ht) as (N1 & N2 & N3).
        split.
        - unfold wf_sample. rewrite Ex, Eg, Ef. auto.
        - pose proof (proj2 (world_samples_genuine_init lin2_world ops vs Hwf Hpx f t Ht)) as G.
          destruct t as [[x g] fx]. cbn [fst snd] in *. unfold sval, px, pg, pf. rewrite Ex, Eg, Ef. exact G. }
      apply (c03_LinearOperator rho phi L M Mt); try assumption.
      - unfold wf_state. cbn [fstate_of2 f_points f_stat f_tpoints f_v]. split; [|split; [|split]].
        + intros sm Hin. apply (Hs 0%nat _ sm Hin).
        + intros sm Hin. apply filter_In in Hin as [Hin _]. apply (Hs 0%nat _ sm Hin).
        + intros sm Hin. apply (Hs 1%nat _ sm Hin).
        + exact I.
      - intros sm Hin. exact (proj2 (Hs 0%nat _ sm Hin)).
      - intros sm Hin. exact (proj2 (Hs 1%nat _ sm Hin)).
    Qed.
  End Lin2.
End All.
