(** C04 — class constraints are complete and independent of the declaration order.
    (a) which pairs get a constraint: Proofs/ClassGenLemmas.v ([gen_pairs_flat], [sel_pairs_In],
        [sel_pairs_NoDup], [pair_selected_same_list]);
    (b) every formula used with symmetry=True is symmetric in (i,j);
    (c) the conjunction of the generated conditions is the conjunction over ALL required pairs of
        recorded samples, hence invariant under any permutation of the recorded samples; LMIs:
        a permutation of the samples is a congruence, PSD-ness is preserved;
    (d) the 41 formula = reference equalities are in Proofs/FormulaEq.v. *)
From Coq Require Import List QArith Reals Qreals Lra Bool Arith Lia String Permutation FunctionalExtensionality.
From PV Require Import Base.IPS Model.Dict Model.Terms Model.ClassGen Spec.Sem Spec.Reference.
From PV Require Import Proofs.DictLemmas Proofs.SemLemmas Proofs.ClassGenLemmas Proofs.FormulaEq.
From PV Require Import Gen.Classes.
Import ListNotations.
Local Open Scope R_scope.

(** * (b) symmetric formulas *)
Definition sat (p : R * sense) : Prop :=
  match snd p with Ineq => fst p <= 0 | Equ => fst p = 0 end.

Lemma denoteC_sat {E : ips} par (up : nat -> E) ux t : denoteC par up ux t <-> sat (lhs_minus_rhs par up ux t).
Proof. unfold sat. destruct t; cbn [lhs_minus_rhs denoteC fst snd]; lra. Qed.

(** exchange the roles of sample i and sample j in a valuation of the formula variables *)
Definition swapP {E : ips} (up : nat -> E) : nat -> E :=
  fun v => match v with 0 => up 2 | 1 => up 3 | 2 => up 0 | 3 => up 1 | _ => up v end%nat.
Definition swapX (ux : nat -> R) : nat -> R :=
  fun v => match v with 0 => ux 1 | 1 => ux 0 | _ => ux v end%nat.

Definition formula_symmetric (f : cterm) : Prop :=
  forall (E : ips) (par : nat -> R) (up : nat -> E) (ux : nat -> R),
    denoteC par up ux f <-> denoteC par (swapP up) (swapX ux) f.

Ltac sym_from feq :=
  intros E par up ux; rewrite !denoteC_sat;
  rewrite (proj2 (feq E par up ux)), (proj2 (feq E par (swapP up) (swapX ux)));
  unfold sat; cbn [fst snd swapP swapX]; autounfold with refdb; norm_inner; orient_inner; lra.

Lemma sym_cocoercive : formula_symmetric f_CocoerciveOperator_cocoercivity_constraint_i_j.
Proof. sym_from @feq_cocoercive. Qed.
Lemma sym_csm_cocoercive : formula_symmetric f_CocoerciveStronglyMonotoneOperator_cocoercivity_constraint_i_j.
Proof. sym_from @feq_csm_cocoercive. Qed.
Lemma sym_csm_strong : formula_symmetric f_CocoerciveStronglyMonotoneOperator_strong_monotonicity_constraint_i_j.
Proof. sym_from @feq_csm_strong. Qed.
Lemma sym_lipschitz : formula_symmetric f_LipschitzOperator_lipschitz_continuity_constraint_i_j.
Proof. sym_from @feq_lipschitz. Qed.
Lemma sym_lsm_strong : formula_symmetric f_LipschitzStronglyMonotoneOperator_strong_monotonicity_constraint_i_j.
Proof. sym_from @feq_lsm_strong. Qed.
Lemma sym_lsm_lipschitz : formula_symmetric f_LipschitzStronglyMonotoneOperator_lipschitz_continuity_constraint_i_j.
Proof. sym_from @feq_lsm_lipschitz. Qed.
Lemma sym_monotone : formula_symmetric f_MonotoneOperator_monotonicity_constraint_i_j.
Proof. sym_from @feq_monotone. Qed.
Lemma sym_neg_comonotone : formula_symmetric f_NegativelyComonotoneOperator_negative_comonotonicity_constraint_i_j.
Proof. sym_from @feq_neg_comonotone. Qed.
Lemma sym_nonexpansive : formula_symmetric f_NonexpansiveOperator_nonexpansiveness_constraint_i_j.
Proof. sym_from @feq_nonexpansive. Qed.
Lemma sym_skew : formula_symmetric f_SkewSymmetricLinearOperator_antisymmetric_linear_constraint_i_j.
Proof. sym_from @feq_skew. Qed.
Lemma sym_strongly_monotone : formula_symmetric f_StronglyMonotoneOperator_strong_monotonicity_constraint_i_j.
Proof. sym_from @feq_strongly_monotone. Qed.
Lemma sym_sym : formula_symmetric f_SymmetricLinearOperator_symmetric_linear_constraint_i_j.
Proof. sym_from @feq_sym. Qed.
Lemma sym_quad_sym : formula_symmetric f_SmoothStronglyConvexQuadraticFunction_symmetry_constraint_i_j.
Proof. sym_from @feq_quad_sym. Qed.

Create HintDb symdb.
#[global] Hint Resolve sym_cocoercive sym_csm_cocoercive sym_csm_strong sym_lipschitz sym_lsm_strong
  sym_lsm_lipschitz sym_monotone sym_neg_comonotone sym_nonexpansive sym_skew sym_strongly_monotone sym_sym
  sym_quad_sym : symdb.

(** the formulas a plan passes to the pair generator with symmetry=True *)
Fixpoint sym_formulas_item (it : plan_item) : list cterm :=
  match it with
  | Pairs _ _ _ f true => [f]
  | Guarded _ it' => sym_formulas_item it'
  | _ => []
  end.
Definition sym_formulas (plan : list plan_item) : list cterm := flat_map sym_formulas_item plan.

(** Every formula that any shipped class uses with symmetry=True is symmetric in (i, j): keeping
    only the pairs i < j loses nothing. *)
Theorem symmetric_flag_sound name plan f :
  In (name, plan) all_plans -> In f (sym_formulas plan) -> formula_symmetric f.
Proof.
  intros Hin Hf. unfold all_plans in Hin. cbn [In] in Hin.
  repeat (destruct Hin as [Hin|Hin];
          [injection Hin as <- <-; cbn in Hf; repeat (destruct Hf as [<-|Hf]; [solve [auto with symdb]|]);
           contradiction|]).
  contradiction.
Qed.

Ltac def_from feq := intros par; exact (proj1 (feq R1 par (fun _ => 0) (fun _ => 0))).
Definition formula_defined (f : cterm) : Prop := forall par : nat -> R, cdef par f.

Lemma def_cocoercive : formula_defined f_CocoerciveOperator_cocoercivity_constraint_i_j.
Proof. def_from @feq_cocoercive. Qed.
Lemma def_csm_cocoercive : formula_defined f_CocoerciveStronglyMonotoneOperator_cocoercivity_constraint_i_j.
Proof. def_from @feq_csm_cocoercive. Qed.
Lemma def_csm_strong : formula_defined f_CocoerciveStronglyMonotoneOperator_strong_monotonicity_constraint_i_j.
Proof. def_from @feq_csm_strong. Qed.
Lemma def_lipschitz : formula_defined f_LipschitzOperator_lipschitz_continuity_constraint_i_j.
Proof. def_from @feq_lipschitz. Qed.
Lemma def_lsm_strong : formula_defined f_LipschitzStronglyMonotoneOperator_strong_monotonicity_constraint_i_j.
Proof. def_from @feq_lsm_strong. Qed.
Lemma def_lsm_lipschitz : formula_defined f_LipschitzStronglyMonotoneOperator_lipschitz_continuity_constraint_i_j.
Proof. def_from @feq_lsm_lipschitz. Qed.
Lemma def_monotone : formula_defined f_MonotoneOperator_monotonicity_constraint_i_j.
Proof. def_from @feq_monotone. Qed.
Lemma def_neg_comonotone : formula_defined f_NegativelyComonotoneOperator_negative_comonotonicity_constraint_i_j.
Proof. def_from @feq_neg_comonotone. Qed.
Lemma def_nonexpansive : formula_defined f_NonexpansiveOperator_nonexpansiveness_constraint_i_j.
Proof. def_from @feq_nonexpansive. Qed.
Lemma def_skew : formula_defined f_SkewSymmetricLinearOperator_antisymmetric_linear_constraint_i_j.
Proof. def_from @feq_skew. Qed.
Lemma def_strongly_monotone : formula_defined f_StronglyMonotoneOperator_strong_monotonicity_constraint_i_j.
Proof. def_from @feq_strongly_monotone. Qed.
Lemma def_sym : formula_defined f_SymmetricLinearOperator_symmetric_linear_constraint_i_j.
Proof. def_from @feq_sym. Qed.
Lemma def_quad_sym : formula_defined f_SmoothStronglyConvexQuadraticFunction_symmetry_constraint_i_j.
Proof. def_from @feq_quad_sym. Qed.

#[global] Hint Resolve def_cocoercive def_csm_cocoercive def_csm_strong def_lipschitz def_lsm_strong
  def_lsm_lipschitz def_monotone def_neg_comonotone def_nonexpansive def_skew def_strongly_monotone def_sym
  def_quad_sym : symdb.

Theorem symmetric_flag_defined name plan f :
  In (name, plan) all_plans -> In f (sym_formulas plan) -> formula_defined f.
Proof.
  intros Hin Hf. unfold all_plans in Hin. cbn [In] in Hin.
  repeat (destruct Hin as [Hin|Hin];
          [injection Hin as <- <-; cbn in Hf; repeat (destruct Hf as [<-|Hf]; [solve [auto with symdb]|]);
           contradiction|]).
  contradiction.
Qed.

(** * (c) the generated conditions are the conditions over all required pairs *)
Section Order.
  Context {E : ips}.
  Variable rho : nat -> E.
  Variable phi : nat -> R.

  Definition all_hold (cs : list citem) : Prop := forall c, In c cs -> holds rho phi (c_obj c).

  (** without the symmetry flag: one condition for every ordered pair of distinct recorded samples
      (this is also the statement for two different lists, e.g. stationary points x all points) *)
  Theorem pairs_nosym_complete st l1 l2 cname f :
    all_hold (flatten_opts (gen_pairs st l1 l2 cname f false)) <->
    forall si sj, In si l1 -> In sj l2 -> s_uid si <> s_uid sj -> holds rho phi (inst st f si sj).
  Proof.
    unfold all_hold. split.
    - intros H si sj Hi Hj Hu. apply In_nth_error in Hi as [i Hi]. apply In_nth_error in Hj as [j Hj].
      apply (H (mkC (Some (pair_name st cname si sj i j)) (inst st f si sj))).
      apply gen_pairs_spec. exists i, j, si, sj. repeat split; try assumption. discriminate.
    - intros H c Hc. apply gen_pairs_spec in Hc as (i & j & si & sj & Hi & Hj & [Hu _] & ->). cbn [c_obj].
      apply H; [eapply nth_error_In; exact Hi|eapply nth_error_In; exact Hj|exact Hu].
  Qed.

  (** with the symmetry flag, on one list, for a formula that is symmetric on these samples: still
      every ordered pair of distinct samples *)
  Theorem pairs_sym_complete st l cname f :
    (forall si sj, In si l -> In sj l ->
                   (holds rho phi (inst st f si sj) <-> holds rho phi (inst st f sj si))) ->
    (all_hold (flatten_opts (gen_pairs st l l cname f true)) <->
     forall si sj, In si l -> In sj l -> s_uid si <> s_uid sj -> holds rho phi (inst st f si sj)).
  Proof.
    intros Hsym. unfold all_hold. split.
    - intros H si sj Hi Hj Hu. pose proof Hi as Hi'. pose proof Hj as Hj'.
      apply In_nth_error in Hi' as [i Hni]. apply In_nth_error in Hj' as [j Hnj].
      destruct (le_lt_dec i j) as [Hle|Hlt].
      + apply (H (mkC (Some (pair_name st cname si sj i j)) (inst st f si sj))).
        apply gen_pairs_spec. exists i, j, si, sj. repeat split; try assumption. intros _. exact Hle.
      + apply (Hsym si sj Hi Hj).
        apply (H (mkC (Some (pair_name st cname sj si j i)) (inst st f sj si))).
        apply gen_pairs_spec. exists j, i, sj, si. repeat split; try assumption; [congruence|intros _; lia].
    - intros H c Hc. apply gen_pairs_spec in Hc as (i & j & si & sj & Hi & Hj & [Hu _] & ->). cbn [c_obj].
      apply H; [eapply nth_error_In; exact Hi|eapply nth_error_In; exact Hj|exact Hu].
  Qed.

  (** halving loses nothing *)
  Theorem symmetry_halving_lossless st l cname f :
    (forall si sj, In si l -> In sj l ->
                   (holds rho phi (inst st f si sj) <-> holds rho phi (inst st f sj si))) ->
    (all_hold (flatten_opts (gen_pairs st l l cname f true)) <->
     all_hold (flatten_opts (gen_pairs st l l cname f false))).
  Proof. intros Hsym. rewrite pairs_sym_complete by exact Hsym. rewrite pairs_nosym_complete. tauto. Qed.

  (** the conditions an item stands for: over ALL required pairs / points of the recorded lists *)
  Fixpoint item_full (st : fstate) (it : plan_item) : Prop :=
    match it with
    | Pairs l1 l2 _ f _ =>
        forall si sj, In si (get_list st l1) -> In sj (get_list st l2) -> s_uid si <> s_uid sj ->
                      holds rho phi (inst st f si sj)
    | Singles l _ f => forall si, In si (get_list st l) -> holds rho phi (inst st f si si)
    | Guarded g it' => guard_true st g = true -> item_full st it'
    | AutoStationary => True
    | LMI _ _ => True
    | BlockPairs _ f =>
        forall si sj, In si (f_points st) -> In sj (f_points st) -> same_tuple si sj = false ->
                      forall k, (k < f_nblocks st)%nat -> holds rho phi (instB st f k si sj)
    end.

  (** side condition for items that use symmetry=True: both lists are the same list and the
      formula is symmetric on its samples *)
  Fixpoint sym_ok (st : fstate) (it : plan_item) : Prop :=
    match it with
    | Pairs l1 l2 _ f true =>
        l1 = l2 /\ forall si sj, In si (get_list st l1) -> In sj (get_list st l1) ->
                                 (holds rho phi (inst st f si sj) <-> holds rho phi (inst st f sj si))
    | Guarded _ it' => sym_ok st it'
    | _ => True
    end.

  Theorem item_full_iff st it : sym_ok st it -> (all_hold (item_cons st it) <-> item_full st it).
  Proof.
    induction it as [l1 l2 cname f sym|l cname f|g it IH| |l entry|cprefix f];
      cbn [sym_ok item_cons item_full]; intros Hok.
    - destruct sym.
      + destruct Hok as [<- Hsym]. apply pairs_sym_complete. exact Hsym.
      + apply pairs_nosym_complete.
    - unfold all_hold. split.
      + intros H si Hi. apply In_nth_error in Hi as [i Hi].
        apply (H (mkC (Some (single_name st cname si i)) (inst st f si si))).
        apply gen_singles_spec. exists i, si. auto.
      + intros H c Hc. apply gen_singles_spec in Hc as (i & si & Hi & ->). cbn [c_obj]. apply H.
        eapply nth_error_In. exact Hi.
    - destruct (guard_true st g).
      + rewrite (IH Hok). tauto.
      + split; [discriminate|]. intros _ c [].
    - split; [auto|]. intros _ c [].
    - split; [auto|]. intros _ c [].
    - unfold all_hold. split.
      + intros H si sj Hi Hj Hs k Hk. apply In_nth_error in Hi as [i Hi]. apply In_nth_error in Hj as [j Hj].
        apply (H (mkC (Some (block_name st cprefix k si sj i j)) (instB st f k si sj))).
        apply gen_block_spec. exists i, j, k, si, sj. auto.
      + intros H c Hc. apply gen_block_spec in Hc as (i & j & k & si & sj & Hi & Hj & Hs & Hk & ->). cbn [c_obj].
        apply H; try assumption; eapply nth_error_In; eassumption.
  Qed.

  (** ** states that differ by the order in which the samples were recorded *)
  Definition perm_equiv (st st' : fstate) : Prop :=
    f_id st = f_id st' /\ f_par st = f_par st' /\ f_inf st = f_inf st' /\ f_v st = f_v st' /\
    f_nblocks st = f_nblocks st' /\ f_Lk st = f_Lk st' /\
    f_next_point st = f_next_point st' /\ f_next_expr st = f_next_expr st' /\ f_next_uid st = f_next_uid st' /\
    Permutation (f_points st) (f_points st') /\ Permutation (f_stat st) (f_stat st') /\
    Permutation (f_tpoints st) (f_tpoints st') /\
    (* the quadratic class refers to "the" stationary sample, list_of_stationary_points[0] *)
    hd_error (f_stat st) = hd_error (f_stat st').

  Lemma perm_equiv_sym st st' : perm_equiv st st' -> perm_equiv st' st.
  Proof.
    unfold perm_equiv. intros (H1 & H2 & H3 & H4 & H5 & H6 & H7 & H8 & H9 & P1 & P2 & P3 & Hh).
    repeat split; try (symmetry; assumption); apply Permutation_sym; assumption.
  Qed.

  Lemma get_list_perm st st' l : perm_equiv st st' -> Permutation (get_list st l) (get_list st' l).
  Proof. intros (_ & _ & _ & _ & _ & _ & _ & _ & _ & P1 & P2 & P3 & _). destruct l; assumption. Qed.

  Lemma env_perm st st' si sj :
    perm_equiv st st' -> env_p st si sj = env_p st' si sj /\ env_x st si sj = env_x st' si sj.
  Proof.
    intros (_ & _ & _ & Hv & _ & _ & _ & _ & _ & _ & _ & _ & Hh). unfold env_p, env_x. rewrite Hv.
    destruct (f_stat st) as [|s l], (f_stat st') as [|s' l']; cbn in Hh; try discriminate; [split; reflexivity|].
    injection Hh as ->. split; reflexivity.
  Qed.

  Lemma inst_perm st st' f si sj : perm_equiv st st' -> inst st f si sj = inst st' f si sj.
  Proof.
    intros H. destruct (env_perm st st' si sj H) as [Hp Hx]. unfold inst. rewrite Hp, Hx.
    destruct H as (_ & -> & _). reflexivity.
  Qed.

  Lemma instB_perm st st' f k si sj : perm_equiv st st' -> instB st f k si sj = instB st' f k si sj.
  Proof.
    intros H. destruct (env_perm st st' si sj H) as [Hp Hx]. unfold instB, env_pb, par_b. rewrite Hp, Hx.
    destruct H as (_ & -> & _ & _ & _ & -> & _). reflexivity.
  Qed.

  Lemma guard_perm st st' g : perm_equiv st st' -> guard_true st g = guard_true st' g.
  Proof.
    intros Hpe. pose proof Hpe as (_ & _ & Hi & Hv & _). destruct g as [p| |l]; cbn; [rewrite Hi|rewrite Hv|]; try reflexivity.
    pose proof (get_list_perm st st' l Hpe) as Hp.
    destruct (get_list st l) as [|a la], (get_list st' l) as [|b lb]; try reflexivity.
    - apply Permutation_nil in Hp. discriminate.
    - apply Permutation_sym, Permutation_nil in Hp. discriminate.
  Qed.

  Lemma item_full_perm st st' it : perm_equiv st st' -> item_full st it -> item_full st' it.
  Proof.
    intros Hpe. pose proof (fun l => Permutation_sym (get_list_perm st st' l Hpe)) as Hl.
    induction it as [l1 l2 cname f sym|l cname f|g it IH| |l entry|cprefix f]; cbn [item_full]; intros H.
    - intros si sj Hi Hj Hu. rewrite <- (inst_perm st st') by exact Hpe.
      apply H; [exact (Permutation_in _ (Hl l1) Hi)|exact (Permutation_in _ (Hl l2) Hj)|exact Hu].
    - intros si Hi. rewrite <- (inst_perm st st') by exact Hpe. apply H. exact (Permutation_in _ (Hl l) Hi).
    - rewrite <- (guard_perm st st' g Hpe). intros Hg. apply IH. apply H. exact Hg.
    - exact I.
    - exact I.
    - intros si sj Hi Hj Hs k Hk. rewrite <- (instB_perm st st') by exact Hpe.
      destruct Hpe as (_ & _ & _ & _ & Hnb & _). rewrite <- Hnb in Hk.
      apply H; [exact (Permutation_in _ (Hl LPoints) Hi)|exact (Permutation_in _ (Hl LPoints) Hj)|exact Hs|exact Hk].
  Qed.

  Lemma start_state_perm plan st st' : perm_equiv st st' -> perm_equiv (start_state plan st) (start_state plan st').
  Proof.
    intros Hpe. destruct plan as [|it plan]; [exact Hpe|]. destruct it; try exact Hpe. cbn [start_state item_state].
    pose proof Hpe as (H1 & H2 & H3 & H4 & H5 & H6 & H7 & H8 & H9 & P1 & P2 & P3 & Hh).
    destruct (f_stat st) as [|s l] eqn:Es, (f_stat st') as [|s' l'] eqn:Es'; cbn in Hh; try discriminate.
    - unfold auto_stationary. rewrite Es, Es', H1, H2, H3, H4, H5, H6, H7, H8, H9.
      unfold perm_equiv. cbn. repeat split; try reflexivity; try assumption.
      apply Permutation_app_tail. exact P1.
    - exact Hpe.
  Qed.

  (** the conjunction of everything a plan generates = the conjunction, over its items, of the
      conditions over all required pairs *)
  Theorem plan_full plan st :
    auto_head_only plan = true ->
    (forall it, In it plan -> sym_ok (start_state plan st) it) ->
    (all_hold (g_cons (run_plan plan st)) <-> forall it, In it plan -> item_full (start_state plan st) it).
  Proof.
    intros Hh Hok. split.
    - intros H it Hin. apply (item_full_iff _ it (Hok it Hin)). intros c Hc. apply H.
      apply (run_plan_items_spec_simple plan st c Hh). exists it. split; [exact Hin|].
      apply item_cons_spec. exact Hc.
    - intros H c Hc. apply (run_plan_items_spec_simple plan st c Hh) in Hc as (it & Hin & Hsrc).
      apply (proj2 (item_full_iff _ it (Hok it Hin)) (H it Hin)). apply item_cons_spec. exact Hsrc.
  Qed.

  (** Order independence: recording the same samples in another order gives the same conjunction
      of conditions. *)
  Theorem plan_order_independent plan st st' :
    auto_head_only plan = true -> perm_equiv st st' ->
    (forall it, In it plan -> sym_ok (start_state plan st) it) ->
    (forall it, In it plan -> sym_ok (start_state plan st') it) ->
    (all_hold (g_cons (run_plan plan st)) <-> all_hold (g_cons (run_plan plan st'))).
  Proof.
    intros Hh Hpe Hok Hok'. rewrite (plan_full plan st Hh Hok), (plan_full plan st' Hh Hok').
    pose proof (start_state_perm plan st st' Hpe) as Hpe0. split; intros H it Hin.
    - apply (item_full_perm _ _ it Hpe0). apply H. exact Hin.
    - apply (item_full_perm _ _ it (perm_equiv_sym _ _ Hpe0)). apply H. exact Hin.
  Qed.
End Order.

(** * the shipped plans *)
Definition wf_sample (s : sample) : Prop :=
  NoDupKeys nat (s_x s) /\ NoDupKeys nat (s_g s) /\ NoDupKeys ekey (s_f s).

(** the recorded dictionaries have unique keys (every Python dict has) *)
Definition wf_state (st : fstate) : Prop :=
  (forall s, In s (f_points st) -> wf_sample s) /\ (forall s, In s (f_stat st) -> wf_sample s) /\
  (forall s, In s (f_tpoints st) -> wf_sample s) /\
  match f_v st with Some d => NoDupKeys nat d | None => True end.

Lemma NoDupKeys_nil K : NoDupKeys K [].
Proof. constructor. Qed.

Lemma NoDupKeys_single K (k : K) q : NoDupKeys K [(k, q)].
Proof. unfold NoDupKeys, keys. cbn. constructor; [intros []|constructor]. Qed.

Lemma wf_get_list st l s : wf_state st -> In s (get_list st l) -> wf_sample s.
Proof. intros (H1 & H2 & H3 & _). destruct l; cbn; auto. Qed.

Lemma wf_start_state plan st : wf_state st -> wf_state (start_state plan st).
Proof.
  intros Hwf. destruct plan as [|it plan]; [exact Hwf|]. destruct it; try exact Hwf. cbn [start_state item_state].
  destruct (f_stat st) as [|s0 l0] eqn:Es; [|exact Hwf]. destruct Hwf as (H1 & H2 & H3 & H4).
  assert (Hs : wf_sample (mkSample [(f_next_point st, 1%Q)] [] [(KF (f_next_expr st), 1%Q)] None (f_next_uid st)
                                   (S (f_next_uid st)) (S (S (f_next_uid st))) [])).
  { repeat split; cbn; [apply NoDupKeys_single|apply NoDupKeys_nil|apply NoDupKeys_single]. }
  unfold auto_stationary, wf_state. cbn. rewrite Es. split; [|split; [|split; [exact H3|exact H4]]].
  - intros s Hin. apply in_app_iff in Hin as [Hin|[<-|[]]]; [auto|exact Hs].
  - intros s [<-|[]]. exact Hs.
Qed.

Lemma env_p_wf st si sj : wf_state st -> wf_sample si -> wf_sample sj -> forall v, NoDupKeys nat (env_p st si sj v).
Proof.
  intros (_ & H2 & _ & H4) (Hx & Hg & _) (Hx' & Hg' & _) v. unfold env_p.
  destruct v as [|[|[|[|[|[|v]]]]]]; try assumption; try apply NoDupKeys_nil.
  - destruct (f_stat st) as [|s l]; [apply NoDupKeys_nil|]. apply (H2 s). left. reflexivity.
  - destruct (f_v st); [exact H4|apply NoDupKeys_nil].
Qed.

Lemma env_x_wf st si sj : wf_state st -> wf_sample si -> wf_sample sj -> forall v, NoDupKeys ekey (env_x st si sj v).
Proof.
  intros (_ & H2 & _ & _) (_ & _ & Hf) (_ & _ & Hf') v. unfold env_x.
  destruct v as [|[|[|v]]]; try assumption; try apply NoDupKeys_nil.
  destruct (f_stat st) as [|s l]; [apply NoDupKeys_nil|]. apply (H2 s). left. reflexivity.
Qed.

Section Shipped.
  Context {E : ips}.
  Variable rho : nat -> E.
  Variable phi : nat -> R.

  Definition parR (st : fstate) : nat -> R := fun p => Q2R (f_par st p).
  Definition upR (st : fstate) (si sj : sample) : nat -> E := fun v => evalP rho (env_p st si sj v).
  Definition uxR (st : fstate) (si sj : sample) : nat -> R := fun v => evalE rho phi (env_x st si sj v).

  (** a generated pair constraint holds iff the formula written in the source holds of the two
      samples -- composing with the 41 equalities of FormulaEq.v: iff the reference condition holds *)
  Theorem inst_holds_denote st f si sj :
    wf_state st -> wf_sample si -> wf_sample sj -> cdef (parR st) f ->
    (holds rho phi (inst st f si sj) <-> denoteC (parR st) (upR st si sj) (uxR st si sj) f).
  Proof.
    intros Hst Hi Hj Hdef. unfold inst.
    exact (compileC_holds rho phi (f_par st) (env_p st si sj) (env_x st si sj)
                          (env_p_wf st si sj Hst Hi Hj) (env_x_wf st si sj Hst Hi Hj) f Hdef).
  Qed.

  Lemma swap_upR st si sj : upR st sj si = swapP (upR st si sj).
  Proof.
    apply functional_extensionality. intros v. unfold upR, swapP, env_p.
    do 6 (destruct v as [|v]; [reflexivity|]). reflexivity.
  Qed.

  Lemma swap_uxR st si sj : uxR st sj si = swapX (uxR st si sj).
  Proof.
    apply functional_extensionality. intros v. unfold uxR, swapX, env_x.
    do 3 (destruct v as [|v]; [reflexivity|]). reflexivity.
  Qed.

  Lemma symmetric_inst st f si sj :
    formula_symmetric f -> formula_defined f -> wf_state st -> wf_sample si -> wf_sample sj ->
    (holds rho phi (inst st f si sj) <-> holds rho phi (inst st f sj si)).
  Proof.
    intros Hs Hd Hst Hi Hj.
    rewrite (inst_holds_denote st f si sj Hst Hi Hj (Hd _)), (inst_holds_denote st f sj si Hst Hj Hi (Hd _)).
    rewrite (swap_upR st si sj), (swap_uxR st si sj). apply Hs.
  Qed.

  Definition lst_eqb (a b : lst) : bool :=
    match a, b with LPoints, LPoints | LStationary, LStationary | LTPoints, LTPoints => true | _, _ => false end.
  Lemma lst_eqb_eq a b : lst_eqb a b = true -> a = b.
  Proof. destruct a, b; cbn; congruence. Qed.

  Fixpoint sym_same_list (it : plan_item) : bool :=
    match it with
    | Pairs l1 l2 _ _ true => lst_eqb l1 l2
    | Guarded _ it' => sym_same_list it'
    | _ => true
    end.

  Lemma sym_ok_item st it :
    sym_same_list it = true ->
    (forall f, In f (sym_formulas_item it) -> formula_symmetric f /\ formula_defined f) ->
    wf_state st -> sym_ok rho phi st it.
  Proof.
    intros Hl Hf Hst. induction it as [l1 l2 cname f sym|l cname f|g it IH| |l entry|cprefix f];
      cbn [sym_ok sym_same_list sym_formulas_item] in *; try exact I.
    - destruct sym; [|exact I]. split; [apply lst_eqb_eq; exact Hl|].
      destruct (Hf f (or_introl eq_refl)) as [Hs Hd]. intros si sj Hi Hj.
      apply symmetric_inst; try assumption; eapply wf_get_list; eassumption.
    - apply IH; assumption.
  Qed.
End Shipped.

Lemma all_plans_shape :
  forallb (fun np => auto_head_only (snd np) && forallb sym_same_list (snd np)) all_plans = true.
Proof. vm_compute. reflexivity. Qed.

Lemma shipped_auto_head name plan : In (name, plan) all_plans -> auto_head_only plan = true.
Proof.
  intros Hin. pose proof all_plans_shape as H. rewrite forallb_forall in H. specialize (H _ Hin).
  apply andb_true_iff in H. tauto.
Qed.

Lemma shipped_sym_ok {E : ips} (rho : nat -> E) phi name plan st :
  In (name, plan) all_plans -> wf_state st -> forall it, In it plan -> sym_ok rho phi st it.
Proof.
  intros Hin Hst it Hit. pose proof all_plans_shape as H. rewrite forallb_forall in H. specialize (H _ Hin).
  apply andb_true_iff in H as [_ H]. cbn [snd] in H. rewrite forallb_forall in H.
  apply sym_ok_item; [exact (H it Hit)| |exact Hst].
  intros f Hf. assert (Hf' : In f (sym_formulas plan)) by (apply in_flat_map; exists it; auto).
  split; [exact (symmetric_flag_sound name plan f Hin Hf')|exact (symmetric_flag_defined name plan f Hin Hf')].
Qed.

(** For every shipped class: the conjunction of the generated scalar class constraints is the
    conjunction, over the statements of add_class_constraints, of the condition on ALL ordered pairs
    of distinct recorded samples (all recorded samples for one-point conditions) ... *)
Theorem shipped_complete {E : ips} (rho : nat -> E) phi name plan st :
  In (name, plan) all_plans -> wf_state st ->
  (all_hold rho phi (g_cons (run_plan plan st)) <->
   forall it, In it plan -> item_full rho phi (start_state plan st) it).
Proof.
  intros Hin Hst. apply plan_full; [exact (shipped_auto_head name plan Hin)|].
  apply (shipped_sym_ok rho phi name plan _ Hin). apply wf_start_state. exact Hst.
Qed.

(** ... hence recording the same samples in any other order describes the same set. *)
Theorem shipped_order_independent {E : ips} (rho : nat -> E) phi name plan st st' :
  In (name, plan) all_plans -> perm_equiv st st' -> wf_state st -> wf_state st' ->
  (all_hold rho phi (g_cons (run_plan plan st)) <-> all_hold rho phi (g_cons (run_plan plan st'))).
Proof.
  intros Hin Hpe Hst Hst'. apply plan_order_independent; [exact (shipped_auto_head name plan Hin)|exact Hpe| |].
  - apply (shipped_sym_ok rho phi name plan _ Hin). apply wf_start_state. exact Hst.
  - apply (shipped_sym_ok rho phi name plan _ Hin). apply wf_start_state. exact Hst'.
Qed.

(** * LMIs: permuting the samples is a congruence of the matrix; PSD-ness is preserved *)
Fixpoint sumR (l : list R) : R := match l with [] => 0 | x :: l' => x + sumR l' end.

Lemma sumR_perm l l' : Permutation l l' -> sumR l = sumR l'.
Proof. induction 1; cbn; lra. Qed.

Lemma sumR_map_ext {A} (f g : A -> R) l : (forall a, In a l -> f a = g a) -> sumR (map f l) = sumR (map g l).
Proof.
  induction l as [|a l IH]; cbn; [reflexivity|]. intros H. rewrite (H a (or_introl eq_refl)), IH; [reflexivity|].
  intros b Hb. apply H. right. exact Hb.
Qed.

Section PSD.
  Context {A : Type}.
  Variable e : A -> A -> R.

  (** c^T M c for M[i][j] = e (l_i) (l_j), the coefficient c_i travelling with its sample *)
  Definition qform (cl : list (R * A)) : R :=
    sumR (map (fun p => sumR (map (fun q => fst p * fst q * e (snd p) (snd q)) cl)) cl).

  (** the matrix (e a b)_{a,b in l} is symmetric and positive semi-definite *)
  Definition psd_on (l : list A) : Prop :=
    (forall a b, In a l -> In b l -> e a b = e b a) /\
    forall c : list R, List.length c = List.length l -> 0 <= qform (combine c l).

  Lemma qform_perm cl cl' : Permutation cl cl' -> qform cl = qform cl'.
  Proof.
    intros H. unfold qform.
    rewrite (sumR_perm _ _ (Permutation_map (fun p => sumR (map (fun q => fst p * fst q * e (snd p) (snd q)) cl)) H)).
    apply sumR_map_ext. intros p _. apply sumR_perm. apply Permutation_map. exact H.
  Qed.

  Lemma combine_perm (l l' : list A) :
    Permutation l l' -> forall c : list R, List.length c = List.length l ->
    exists c' : list R, List.length c' = List.length l' /\ Permutation (combine c l) (combine c' l').
  Proof.
    induction 1 as [|x l l' Hp IH|x y l|l l' l'' Hp1 IH1 Hp2 IH2].
    - intros c Hc. exists []. destruct c; [|discriminate]. split; [reflexivity|constructor].
    - intros [|a c] Hc; [discriminate|]. cbn in Hc. destruct (IH c) as [c' [Hl Hpc]]; [lia|].
      exists (a :: c'). cbn. split; [lia|constructor; exact Hpc].
    - intros [|a [|b c]] Hc; try discriminate. exists (b :: a :: c). split; [cbn in *; lia|]. cbn. apply perm_swap.
    - intros c Hc. destruct (IH1 c Hc) as [c1 [H1 P1]]. destruct (IH2 c1 H1) as [c2 [H2 P2]].
      exists c2. split; [exact H2|eapply perm_trans; eassumption].
  Qed.

  Theorem psd_perm l l' : Permutation l l' -> psd_on l -> psd_on l'.
  Proof.
    intros Hp [Hsym Hq]. split.
    - intros a b Ha Hb. apply Hsym; eapply Permutation_in; try eassumption; apply Permutation_sym; exact Hp.
    - intros c' Hc'. destruct (combine_perm l' l (Permutation_sym Hp) c' Hc') as [c [Hl Hpc]].
      rewrite (qform_perm _ _ Hpc). apply Hq. exact Hl.
  Qed.
End PSD.

(** the quadratic form of the generated matrix, row by row / column by column *)
Definition mat_qform (m : list (list R)) (c : list R) : R :=
  sumR (map (fun p => sumR (map (fun q => fst p * fst q * snd q) (combine c (snd p)))) (combine c m)).

Lemma combine_map_r {A B C} (g : B -> C) (c : list A) (l : list B) :
  combine c (map g l) = map (fun p => (fst p, g (snd p))) (combine c l).
Proof. revert c. induction l as [|b l IH]; intros [|a c]; cbn; try reflexivity. rewrite IH. reflexivity. Qed.

Lemma qform_matrix {A} (e : A -> A -> R) (l : list A) c :
  mat_qform (map (fun a => map (e a) l) l) c = qform e (combine c l).
Proof.
  unfold mat_qform, qform. rewrite combine_map_r, map_map. f_equal. apply map_ext. intros p. cbn [fst snd].
  rewrite combine_map_r, map_map. reflexivity.
Qed.

Section LMI.
  Context {E : ips}.
  Variable rho : nat -> E.
  Variable phi : nat -> R.

  Definition evalM (m : list (list edict)) : list (list R) := map (map (evalE rho phi)) m.
  Definition lmi_entry (st : fstate) (entry : xterm) (si sj : sample) : R := evalE rho phi (instX st entry si sj).

  (** the numeric matrix behind the LMI item is (lmi_entry si sj)_{si, sj in the list} *)
  Lemma lmi_matrix st l entry :
    evalM (map (fun si => map (fun sj => instX st entry si sj) (get_list st l)) (get_list st l))
    = map (fun si => map (lmi_entry st entry si) (get_list st l)) (get_list st l).
  Proof. unfold evalM. rewrite map_map. apply map_ext. intros si. rewrite map_map. reflexivity. Qed.

  Theorem lmi_qform st l entry c :
    mat_qform (evalM (map (fun si => map (fun sj => instX st entry si sj) (get_list st l)) (get_list st l))) c
    = qform (lmi_entry st entry) (combine c (get_list st l)).
  Proof. rewrite lmi_matrix. apply qform_matrix. Qed.

  Lemma instX_perm st st' entry si sj : perm_equiv st st' -> instX st entry si sj = instX st' entry si sj.
  Proof.
    intros H. destruct (env_perm st st' si sj H) as [Hp Hx]. unfold instX. rewrite Hp, Hx.
    destruct H as (_ & -> & _). reflexivity.
  Qed.

  (** recording the samples in another order: the LMI is PSD (and symmetric) for one order iff it is
      for the other *)
  Theorem lmi_order_independent st st' l entry :
    perm_equiv st st' ->
    (psd_on (lmi_entry st entry) (get_list st l) <-> psd_on (lmi_entry st' entry) (get_list st' l)).
  Proof.
    intros Hpe.
    assert (He : lmi_entry st entry = lmi_entry st' entry).
    { apply functional_extensionality. intros si. apply functional_extensionality. intros sj.
      unfold lmi_entry. rewrite (instX_perm st st' entry si sj Hpe). reflexivity. }
    rewrite He. pose proof (get_list_perm st st' l Hpe) as Hp. split; apply psd_perm; [exact Hp|].
    apply Permutation_sym. exact Hp.
  Qed.
End LMI.

(** * F-C04b: SkewSymmetricLinearOperator never generates the diagonal conditions <x_i, A x_i> = 0 *)
Definition skew_sample : sample := mkSample [(0%nat, 1%Q)] [(1%nat, 1%Q)] [(KF 0, 1%Q)] None 0 1 2 [].
Definition skew_witness : fstate :=
  mkF "Function_0" (fun _ => 1%Q) (fun _ => false) [skew_sample] [] [] None 2 1 3 0 (fun _ => 0%Q).

(** One recorded sample (x, Ax): no scalar constraint at all is generated, the LMI (|Ax|^2 <= L^2 |x|^2,
    L = 1) is satisfied by x = Ax = 1 on the real line, but antisymmetry <x, Ax> = 0 fails. *)
Theorem skew_diagonal_refuted :
  exists st si, f_points st = [si] /\
    g_cons (run_plan plan_SkewSymmetricLinearOperator st) = [] /\
    exists (rho : nat -> R1) (phi : nat -> R),
      psd_on (lmi_entry rho phi st lmi_SkewSymmetricLinearOperator_1) (f_points st) /\
      ref_skew (evalP rho (s_x si)) (evalP rho (s_g si)) (evalP rho (s_x si)) (evalP rho (s_g si)) <> 0.
Proof.
  exists skew_witness, skew_sample. split; [reflexivity|]. split; [vm_compute; reflexivity|].
  exists (fun _ => 1), (fun _ => 0).
  assert (He : lmi_entry (fun _ : nat => (1 : R1)) (fun _ => 0) skew_witness lmi_SkewSymmetricLinearOperator_1
                         skew_sample skew_sample = 0).
  { unfold lmi_entry.
    assert (Hd : exists d, instX skew_witness lmi_SkewSymmetricLinearOperator_1 skew_sample skew_sample = d /\
                           evalE (fun _ : nat => (1 : R1)) (fun _ => 0) d = 0).
    { eexists. split; [vm_compute; reflexivity|]. cbn [evalE evalK]. unfold Q2R. cbn. lra. }
    destruct Hd as [d [-> Hd]]. exact Hd. }
  split.
  - split.
    + change (f_points skew_witness) with [skew_sample]. intros a b [<-|[]] [<-|[]]. reflexivity.
    + change (f_points skew_witness) with [skew_sample].
      intros [|c0 [|c1 c]] Hc; try discriminate. unfold qform. cbn [combine map sumR fst snd]. rewrite He. lra.
  - unfold ref_skew, skew_sample. cbn [s_x s_g evalP]. cbn. unfold Q2R. cbn. lra.
Qed.

Section SkewPartial.
  Context {E : ips}.
  Variable rho : nat -> E.
  Variable phi : nat -> R.

  (** what IS generated: the antisymmetry condition for every pair of DISTINCT recorded samples *)
  Theorem skew_offdiagonal_partial st :
    wf_state st ->
    (all_hold rho phi (g_cons (run_plan plan_SkewSymmetricLinearOperator st)) <->
     forall si sj, In si (f_points st) -> In sj (f_points st) -> s_uid si <> s_uid sj ->
                   ref_skew (evalP rho (s_x si)) (evalP rho (s_g si)) (evalP rho (s_x sj)) (evalP rho (s_g sj)) = 0).
  Proof.
    intros Hst.
    assert (Hin : In ("SkewSymmetricLinearOperator"%string, plan_SkewSymmetricLinearOperator) all_plans).
    { unfold all_plans. cbn. tauto. }
    rewrite (shipped_complete rho phi _ _ st Hin Hst). cbn [start_state plan_SkewSymmetricLinearOperator].
    assert (Hcond : forall si sj, In si (f_points st) -> In sj (f_points st) ->
             (holds rho phi (inst st f_SkewSymmetricLinearOperator_antisymmetric_linear_constraint_i_j si sj) <->
              ref_skew (evalP rho (s_x si)) (evalP rho (s_g si)) (evalP rho (s_x sj)) (evalP rho (s_g sj)) = 0)).
    { intros si sj Hi Hj. destruct Hst as (H1 & H2 & H3 & H4).
      rewrite (inst_holds_denote rho phi st _ si sj (conj H1 (conj H2 (conj H3 H4))) (H1 si Hi) (H1 sj Hj)
                                 (def_skew _)).
      rewrite denoteC_sat, (proj2 (feq_skew _ _ _)). unfold sat. cbn [fst snd]. reflexivity. }
    split.
    - intros H si sj Hi Hj Hu. apply (Hcond si sj Hi Hj).
      exact (H _ (or_introl eq_refl) si sj Hi Hj Hu).
    - intros H it [<-|[<-|[]]]; cbn [item_full]; [|intros _; exact I].
      intros si sj Hi Hj Hu. apply (Hcond si sj Hi Hj). apply H; assumption.
  Qed.
End SkewPartial.

(** * LinearOperator: the adjoint equalities, over two DIFFERENT lists *)
Section LinearAdjoint.
  Context {E : ips}.
  Variable rho : nat -> E.
  Variable phi : nat -> R.

  (** the scalar class constraints of a LinearOperator hold iff <x_i, v_j> = <y_i, u_j> for every sample
      (x_i, y_i) of the operator and every sample (u_j, v_j) of its transpose (distinct triplet objects) *)
  Theorem linear_adjoint_complete st :
    wf_state st ->
    (all_hold rho phi (g_cons (run_plan plan_LinearOperator st)) <->
     forall si sj, In si (f_points st) -> In sj (f_tpoints st) -> s_uid si <> s_uid sj ->
                   ref_lin_adjoint (evalP rho (s_x si)) (evalP rho (s_g si))
                                   (evalP rho (s_x sj)) (evalP rho (s_g sj)) = 0).
  Proof.
    intros Hst.
    assert (Hin : In ("LinearOperator"%string, plan_LinearOperator) all_plans).
    { unfold all_plans. cbn. tauto. }
    rewrite (shipped_complete rho phi _ _ st Hin Hst). cbn [start_state plan_LinearOperator].
    assert (Hcond : forall si sj, In si (f_points st) -> In sj (f_tpoints st) ->
             (holds rho phi (inst st f_LinearOperator_adjoint_constraint_i_j si sj) <->
              ref_lin_adjoint (evalP rho (s_x si)) (evalP rho (s_g si))
                              (evalP rho (s_x sj)) (evalP rho (s_g sj)) = 0)).
    { intros si sj Hi Hj. destruct Hst as (H1 & H2 & H3 & H4).
      assert (Hd : cdef (parR st) f_LinearOperator_adjoint_constraint_i_j)
        by exact (proj1 (feq_lin_adjoint (parR st) (fun _ : nat => (0 : R1)) (fun _ => 0))).
      rewrite (inst_holds_denote rho phi st _ si sj (conj H1 (conj H2 (conj H3 H4))) (H1 si Hi) (H3 sj Hj) Hd).
      rewrite denoteC_sat, (proj2 (feq_lin_adjoint _ _ _)). unfold sat. cbn [fst snd]. reflexivity. }
    split.
    - intros H si sj Hi Hj Hu. apply (Hcond si sj Hi Hj).
      exact (H _ (or_introl eq_refl) si sj Hi Hj Hu).
    - intros H it [<-|[<-|[<-|[]]]]; cbn [item_full]; try (intros _; exact I).
      intros si sj Hi Hj Hu. apply (Hcond si sj Hi Hj). apply H; assumption.
  Qed.
End LinearAdjoint.

(** * regression for the repaired F-C04c (BlockSmoothConvexFunction compared the triplets with [==]) *)
Definition block_s (uid fe : nat) : sample :=
  mkSample [(0%nat, 1%Q)] [(1%nat, 1%Q)] [(KF fe, 1%Q)] None uid 10 11 [[(1%nat, 1%Q)]].
Definition block_witness : fstate :=
  mkF "Function_0" (fun _ => 0%Q) (fun _ => false) [block_s 0 0; block_s 1 1] [] [] None 2 2 12 1 (fun _ => 1%Q).

(** two distinct recorded samples (x, g, f1), (x, g, f2) holding the same Point objects x and g: with the
    identity test both ordered pairs get their condition (under the old tuple equality none did) *)
Lemma block_same_xg_regression :
  map c_name (g_cons (run_plan plan_BlockSmoothConvexFunction block_witness))
  = [Some "IC_Function_0_smoothness_convexity_block_0(Point_0, Point_1)"%string;
     Some "IC_Function_0_smoothness_convexity_block_0(Point_1, Point_0)"%string].
Proof. vm_compute. reflexivity. Qed.

(** * "stationary sample" is a property of the recorded data *)
(** a sample is stationary when its gradient has the empty (pruned) decomposition, however it was recorded
    ([stationary_point()], [add_point] with a zero gradient, [stationary_point()] of a composite).  The
    list the implementation keeps is an input of the model; the correspondence harness checks on every case
    that it IS the list of zero-gradient samples ([stat_consistent]). *)
Definition zero_grad (s : sample) : bool := match prune (s_g s) with [] => true | _ => false end.
Definition stat_consistent (st : fstate) : Prop := f_stat st = filter zero_grad (f_points st).

Lemma stat_consistent_start plan st : stat_consistent st -> stat_consistent (start_state plan st).
Proof.
  intros H. destruct plan as [|it plan]; [exact H|]. destruct it; try exact H. cbn [start_state item_state].
  destruct (f_stat st) as [|s0 l0] eqn:Es; [|exact H]. unfold stat_consistent in *. unfold auto_stationary. cbn.
  rewrite filter_app, <- H, Es. reflexivity.
Qed.

Section StationaryData.
  Context {E : ips}.
  Variable rho : nat -> E.
  Variable phi : nat -> R.

  (** the "stationary samples x all samples" statements of ConvexQGFunction / RsiEbFunction, read on the data:
      one condition for every recorded sample with zero gradient paired with every other recorded sample *)
  Theorem stationary_pairs_complete st cname f sym :
    stat_consistent st ->
    (item_full rho phi st (Pairs LStationary LPoints cname f sym) <->
     forall si sj, In si (f_points st) -> zero_grad si = true -> In sj (f_points st) -> s_uid si <> s_uid sj ->
                   holds rho phi (inst st f si sj)).
  Proof.
    intros Hc. cbn [item_full get_list]. rewrite Hc. split.
    - intros H si sj Hi Hz Hj Hu. apply H; [apply filter_In; split; assumption|exact Hj|exact Hu].
    - intros H si sj Hi Hj Hu. apply filter_In in Hi as [Hi Hz]. apply H; assumption.
  Qed.
End StationaryData.

(** * no empty LMI (the linear operator classes guard their LMI by [if N > 0], /repo 818e4b8) *)
(** every LMI statement of the item is guarded by the non-emptiness of the very list it ranges over *)
Fixpoint lmi_guarded (it : plan_item) : bool :=
  match it with
  | LMI _ _ => false
  | Guarded (GNonEmpty l) (LMI l' _) => lst_eqb l l'
  | Guarded _ it' => lmi_guarded it'
  | _ => true
  end.

(** the guarded LMI statement: the matrix over the samples is generated iff there is at least one sample *)
Theorem guarded_lmi_iff st l entry m :
  In m (item_lmis st (Guarded (GNonEmpty l) (LMI l entry))) <->
  get_list st l <> [] /\ m = map (fun si => map (fun sj => instX st entry si sj) (get_list st l)) (get_list st l).
Proof.
  cbn [item_lmis guard_true]. destruct (get_list st l) as [|a la] eqn:E.
  - split; [intros []|intros [H _]; congruence].
  - cbn [In]. split.
    + intros [<-|[]]. split; [discriminate|reflexivity].
    + intros [_ ->]. left. reflexivity.
Qed.

Lemma lmi_guarded_src st it m : lmi_guarded it = true -> item_lmi_src st it m -> m <> [].
Proof.
  induction it as [l1 l2 cname f sym|l cname f|g it IH| |l entry|cprefix f]; cbn [item_lmi_src];
    try solve [intros _ []].
  - intros Hg [Hgt Hsrc].
    destruct g as [p| |l]; cbn [lmi_guarded] in Hg; try (apply IH; assumption).
    destruct it as [| | | |l' entry|]; try (apply IH; assumption).
    apply lst_eqb_eq in Hg. subst l'. cbn [item_lmi_src] in Hsrc. cbn [guard_true] in Hgt. subst m.
    destruct (get_list st l); [discriminate|]. cbn. discriminate.
  - cbn [lmi_guarded]. discriminate.
Qed.

(** a plan all of whose LMI statements are guarded never generates a 0 x 0 LMI *)
Theorem no_empty_lmi plan st m :
  auto_head_only plan = true -> forallb lmi_guarded plan = true ->
  In m (g_lmis (run_plan plan st)) -> m <> [].
Proof.
  intros Hh Hg Hm. apply (run_plan_lmis_spec_simple plan st m Hh) in Hm as (it & Hin & Hsrc).
  rewrite forallb_forall in Hg. exact (lmi_guarded_src _ it m (Hg it Hin) Hsrc).
Qed.

Lemma linear_classes_lmis_guarded :
  forallb lmi_guarded plan_LinearOperator = true /\
  forallb lmi_guarded plan_SymmetricLinearOperator = true /\
  forallb lmi_guarded plan_SkewSymmetricLinearOperator = true.
Proof. repeat split; vm_compute; reflexivity. Qed.

(** LinearOperator / SymmetricLinearOperator / SkewSymmetricLinearOperator: whatever was recorded (nothing at
    all, samples of the operator only, of its transpose only), no generated LMI is empty *)
Theorem linear_classes_no_empty_lmi st m :
  (In m (g_lmis (run_plan plan_LinearOperator st)) -> m <> []) /\
  (In m (g_lmis (run_plan plan_SymmetricLinearOperator st)) -> m <> []) /\
  (In m (g_lmis (run_plan plan_SkewSymmetricLinearOperator st)) -> m <> []).
Proof.
  destruct linear_classes_lmis_guarded as (H1 & H2 & H3).
  repeat split; apply no_empty_lmi; try assumption; vm_compute; reflexivity.
Qed.
