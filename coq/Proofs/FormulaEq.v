(** Every class formula found in the sources (Gen/Classes.v, regenerated on every run) denotes exactly
    the reference condition of Spec/Reference.v: same left-minus-right as a function of the samples
    and parameters, same sense, and it is defined (no division by zero) under the stated parameter
    guard.  A changed coefficient, sign, parameter, operand or relation in PEPit's sources changes the
    generated term and breaks the corresponding lemma here.  Proofs are by normalisation
    (bilinearity, orientation of symmetric atoms) followed by [field]/[lra], so re-bracketings and
    reorderings of the source formula leave them valid. *)
From Coq Require Import List QArith Reals Qreals Lra Field.
From PV Require Import Base.IPS Model.Dict Model.Terms Model.ClassGen Spec.Sem Spec.Reference Proofs.SemLemmas.
From PV Require Import Gen.Classes.
Local Open Scope R_scope.

Lemma Q2R_lit n d : Q2R (n # d) = IZR n / IZR (Zpos d).
Proof. unfold Q2R; cbn. reflexivity. Qed.

Lemma pair_eq1 {A B} (a b : A) (s : B) : a = b -> (a, s) = (b, s).
Proof. intros ->; reflexivity. Qed.

Ltac norm_inner :=
  unfold nrm2, vsub, vneg;
  repeat first [rewrite inner_add_l | rewrite inner_add_r | rewrite inner_scal_l | rewrite inner_scal_r].

Ltac orient_inner :=
  repeat match goal with
  | |- context [@inner ?E (?up ?a) (?up ?b)] =>
      let lt := eval vm_compute in (Nat.ltb b a) in
      match lt with true => rewrite (inner_sym E (up a) (up b)) end
  end.

Create HintDb refdb.
#[global] Hint Unfold ref_convex ref_ind_value ref_ind_normal ref_diameter ref_bounded_g ref_qg ref_sup_fenchel
  ref_sup_convex ref_strong_monotone ref_lipschitz ref_smooth_convex ref_smooth ref_smooth_strongly_convex
  ref_strongly_convex ref_quad_value ref_quad_sym ref_quad_lmi ref_cocoercive ref_monotone ref_neg_comonotone
  ref_nonexpansive ref_inf_displacement ref_lin_adjoint ref_lin_lmi ref_skew ref_sym ref_sym_lmi
  ref_block_smooth : refdb.

Lemma div_eq_one a b : b <> 0 -> a / b = 1 -> a = b.
Proof. intros Hb H. apply (f_equal (fun t => t * b)) in H. unfold Rdiv in H.
  rewrite Rmult_assoc, Rinv_l, Rmult_1_r, Rmult_1_l in H by exact Hb. exact H. Qed.

Ltac div_one Hz :=
  match goal with
  | Hne : ?a <> ?b, HL : ?b <> 0 |- False => apply Hne; apply (div_eq_one a b HL); lra
  end.

Ltac side_def :=
  cbn [cdef xdef pdef sdef sdenote]; rewrite ?Q2R_lit; repeat split; try exact I; try assumption;
  try (intros Hz; first [lra | nra | div_one Hz]).

Ltac feq_core :=
  autounfold with refdb; rewrite ?Q2R_lit; norm_inner; orient_inner; first [reflexivity | lra | field; repeat split; try assumption; try lra].

Section FormulaEq.
  Context {E : ips}.
  Variable par : nat -> R.
  Variable up : nat -> E.
  Variable ux : nat -> R.
  Notation xi := (up 0%nat). Notation gi := (up 1%nat). Notation xj := (up 2%nat). Notation gj := (up 3%nat).
  Notation xs := (up 4%nat). Notation vv := (up 5%nat). Notation gik := (up 6%nat). Notation gjk := (up 7%nat).
  Notation fi := (ux 0%nat). Notation fj := (ux 1%nat). Notation fs := (ux 2%nat).
  Notation pL := (par 0%nat). Notation pmu := (par 1%nat). Notation pM := (par 2%nat). Notation pD := (par 3%nat).
  Notation pbeta := (par 4%nat). Notation prho := (par 5%nat). Notation pLk := (par 6%nat).

  Lemma feq_convex : cdef par f_ConvexFunction_convexity_constraint_i_j /\ lhs_minus_rhs par up ux f_ConvexFunction_convexity_constraint_i_j = (ref_convex xi xj gj fi fj, Ineq).
  Proof.
    unfold f_ConvexFunction_convexity_constraint_i_j. intros. split; [side_def|].
    cbn [lhs_minus_rhs denoteX denoteP sdenote]. apply pair_eq1. feq_core.
  Qed.

  Lemma feq_ind_value : cdef par f_ConvexIndicatorFunction_value_constraint_i /\ lhs_minus_rhs par up ux f_ConvexIndicatorFunction_value_constraint_i = (ref_ind_value fi, Equ).
  Proof.
    unfold f_ConvexIndicatorFunction_value_constraint_i. intros. split; [side_def|].
    cbn [lhs_minus_rhs denoteX denoteP sdenote]. apply pair_eq1. feq_core.
  Qed.

  Lemma feq_ind_normal : cdef par f_ConvexIndicatorFunction_convexity_constraint_i_j /\ lhs_minus_rhs par up ux f_ConvexIndicatorFunction_convexity_constraint_i_j = (ref_ind_normal xi xj gj, Ineq).
  Proof.
    unfold f_ConvexIndicatorFunction_convexity_constraint_i_j. intros. split; [side_def|].
    cbn [lhs_minus_rhs denoteX denoteP sdenote]. apply pair_eq1. feq_core.
  Qed.

  Lemma feq_ind_diameter : cdef par f_ConvexIndicatorFunction_diameter_constraint_i_j /\ lhs_minus_rhs par up ux f_ConvexIndicatorFunction_diameter_constraint_i_j = (ref_diameter pD xi xj, Ineq).
  Proof.
    unfold f_ConvexIndicatorFunction_diameter_constraint_i_j. intros. split; [side_def|].
    cbn [lhs_minus_rhs denoteX denoteP sdenote]. apply pair_eq1. feq_core.
  Qed.

  Lemma feq_clip_bound : cdef par f_ConvexLipschitzFunction_lipschitz_continuity_constraint_i /\ lhs_minus_rhs par up ux f_ConvexLipschitzFunction_lipschitz_continuity_constraint_i = (ref_bounded_g pM gi, Ineq).
  Proof.
    unfold f_ConvexLipschitzFunction_lipschitz_continuity_constraint_i. intros. split; [side_def|].
    cbn [lhs_minus_rhs denoteX denoteP sdenote]. apply pair_eq1. feq_core.
  Qed.

  Lemma feq_clip_convex : cdef par f_ConvexLipschitzFunction_convexity_constraint_i_j /\ lhs_minus_rhs par up ux f_ConvexLipschitzFunction_convexity_constraint_i_j = (ref_convex xi xj gj fi fj, Ineq).
  Proof.
    unfold f_ConvexLipschitzFunction_convexity_constraint_i_j. intros. split; [side_def|].
    cbn [lhs_minus_rhs denoteX denoteP sdenote]. apply pair_eq1. feq_core.
  Qed.

  Lemma feq_qg_convex : cdef par f_ConvexQGFunction_convexity_constraint_i_j /\ lhs_minus_rhs par up ux f_ConvexQGFunction_convexity_constraint_i_j = (ref_convex xi xj gj fi fj, Ineq).
  Proof.
    unfold f_ConvexQGFunction_convexity_constraint_i_j. intros. split; [side_def|].
    cbn [lhs_minus_rhs denoteX denoteP sdenote]. apply pair_eq1. feq_core.
  Qed.

  Lemma feq_qg_qg : pL <> 0 -> cdef par f_ConvexQGFunction_qg_convexity_constraint_i_j /\ lhs_minus_rhs par up ux f_ConvexQGFunction_qg_convexity_constraint_i_j = (ref_qg pL xi xj gj fi fj, Ineq).
  Proof.
    unfold f_ConvexQGFunction_qg_convexity_constraint_i_j. intros. split; [side_def|].
    cbn [lhs_minus_rhs denoteX denoteP sdenote]. apply pair_eq1. feq_core.
  Qed.

  Lemma feq_sup_fenchel : cdef par f_ConvexSupportFunction_fenchel_value_constraint_i /\ lhs_minus_rhs par up ux f_ConvexSupportFunction_fenchel_value_constraint_i = (ref_sup_fenchel xi gi fi, Equ).
  Proof.
    unfold f_ConvexSupportFunction_fenchel_value_constraint_i. intros. split; [side_def|].
    cbn [lhs_minus_rhs denoteX denoteP sdenote]. apply pair_eq1. feq_core.
  Qed.

  Lemma feq_sup_bound : cdef par f_ConvexSupportFunction_lipschitz_continuity_constraint_i /\ lhs_minus_rhs par up ux f_ConvexSupportFunction_lipschitz_continuity_constraint_i = (ref_bounded_g pM gi, Ineq).
  Proof.
    unfold f_ConvexSupportFunction_lipschitz_continuity_constraint_i. intros. split; [side_def|].
    cbn [lhs_minus_rhs denoteX denoteP sdenote]. apply pair_eq1. feq_core.
  Qed.

  Lemma feq_sup_convex : cdef par f_ConvexSupportFunction_convexity_constraint_i_j /\ lhs_minus_rhs par up ux f_ConvexSupportFunction_convexity_constraint_i_j = (ref_sup_convex xj gi gj, Ineq).
  Proof.
    unfold f_ConvexSupportFunction_convexity_constraint_i_j. intros. split; [side_def|].
    cbn [lhs_minus_rhs denoteX denoteP sdenote]. apply pair_eq1. feq_core.
  Qed.

  Lemma feq_rsi : cdef par f_RsiEbFunction_rsi_constraints_i_j /\ lhs_minus_rhs par up ux f_RsiEbFunction_rsi_constraints_i_j = (ref_strong_monotone pmu xi gi xj gj, Ineq).
  Proof.
    unfold f_RsiEbFunction_rsi_constraints_i_j. intros. split; [side_def|].
    cbn [lhs_minus_rhs denoteX denoteP sdenote]. apply pair_eq1. feq_core.
  Qed.

  Lemma feq_eb : cdef par f_RsiEbFunction_eb_constraints_i_j /\ lhs_minus_rhs par up ux f_RsiEbFunction_eb_constraints_i_j = (ref_lipschitz pL xi gi xj gj, Ineq).
  Proof.
    unfold f_RsiEbFunction_eb_constraints_i_j. intros. split; [side_def|].
    cbn [lhs_minus_rhs denoteX denoteP sdenote]. apply pair_eq1. feq_core.
  Qed.

  Lemma feq_smooth_convex : pL <> 0 -> cdef par f_SmoothConvexFunction_smoothness_convexity_constraint_i_j /\ lhs_minus_rhs par up ux f_SmoothConvexFunction_smoothness_convexity_constraint_i_j = (ref_smooth_convex pL xi gi xj gj fi fj, Ineq).
  Proof.
    unfold f_SmoothConvexFunction_smoothness_convexity_constraint_i_j. intros. split; [side_def|].
    cbn [lhs_minus_rhs denoteX denoteP sdenote]. apply pair_eq1. feq_core.
  Qed.

  Lemma feq_scl_smooth_convex : pL <> 0 -> cdef par f_SmoothConvexLipschitzFunction_smoothness_convexity_constraint_i_j /\ lhs_minus_rhs par up ux f_SmoothConvexLipschitzFunction_smoothness_convexity_constraint_i_j = (ref_smooth_convex pL xi gi xj gj fi fj, Ineq).
  Proof.
    unfold f_SmoothConvexLipschitzFunction_smoothness_convexity_constraint_i_j. intros. split; [side_def|].
    cbn [lhs_minus_rhs denoteX denoteP sdenote]. apply pair_eq1. feq_core.
  Qed.

  Lemma feq_scl_bound : cdef par f_SmoothConvexLipschitzFunction_lipschitz_continuity_constraint_i /\ lhs_minus_rhs par up ux f_SmoothConvexLipschitzFunction_lipschitz_continuity_constraint_i = (ref_bounded_g pM gi, Ineq).
  Proof.
    unfold f_SmoothConvexLipschitzFunction_lipschitz_continuity_constraint_i. intros. split; [side_def|].
    cbn [lhs_minus_rhs denoteX denoteP sdenote]. apply pair_eq1. feq_core.
  Qed.

  Lemma feq_smooth : pL <> 0 -> cdef par f_SmoothFunction_smoothness_i_j /\ lhs_minus_rhs par up ux f_SmoothFunction_smoothness_i_j = (ref_smooth pL xi gi xj gj fi fj, Ineq).
  Proof.
    unfold f_SmoothFunction_smoothness_i_j. intros. split; [side_def|].
    cbn [lhs_minus_rhs denoteX denoteP sdenote]. apply pair_eq1. feq_core.
  Qed.

  Lemma feq_ssc : pL <> 0 -> pmu <> pL -> cdef par f_SmoothStronglyConvexFunction_smoothness_strong_convexity_constraint_i_j /\ lhs_minus_rhs par up ux f_SmoothStronglyConvexFunction_smoothness_strong_convexity_constraint_i_j = (ref_smooth_strongly_convex pmu pL xi gi xj gj fi fj, Ineq).
  Proof.
    unfold f_SmoothStronglyConvexFunction_smoothness_strong_convexity_constraint_i_j. intros. split; [side_def|].
    cbn [lhs_minus_rhs denoteX denoteP sdenote]. apply pair_eq1. feq_core.
  Qed.

  Lemma feq_quad_value : cdef par f_SmoothStronglyConvexQuadraticFunction_value_constraint_i /\ lhs_minus_rhs par up ux f_SmoothStronglyConvexQuadraticFunction_value_constraint_i = (ref_quad_value xi gi xs fi fs, Equ).
  Proof.
    unfold f_SmoothStronglyConvexQuadraticFunction_value_constraint_i. intros. split; [side_def|].
    cbn [lhs_minus_rhs denoteX denoteP sdenote]. apply pair_eq1. feq_core.
  Qed.

  Lemma feq_quad_sym : cdef par f_SmoothStronglyConvexQuadraticFunction_symmetry_constraint_i_j /\ lhs_minus_rhs par up ux f_SmoothStronglyConvexQuadraticFunction_symmetry_constraint_i_j = (ref_quad_sym xi gi xj gj xs, Equ).
  Proof.
    unfold f_SmoothStronglyConvexQuadraticFunction_symmetry_constraint_i_j. intros. split; [side_def|].
    cbn [lhs_minus_rhs denoteX denoteP sdenote]. apply pair_eq1. feq_core.
  Qed.

  Lemma feq_quad_lmi : xdef par lmi_SmoothStronglyConvexQuadraticFunction_1 /\ denoteX par up ux lmi_SmoothStronglyConvexQuadraticFunction_1 = ref_quad_lmi pmu pL xi gi xj gj xs.
  Proof.
    unfold lmi_SmoothStronglyConvexQuadraticFunction_1. intros. split; [side_def|].
    cbn [denoteX denoteP sdenote]. feq_core.
  Qed.

  Lemma feq_strongly_convex : cdef par f_StronglyConvexFunction_strong_convexity_constraint_i_j /\ lhs_minus_rhs par up ux f_StronglyConvexFunction_strong_convexity_constraint_i_j = (ref_strongly_convex pmu xi xj gj fi fj, Ineq).
  Proof.
    unfold f_StronglyConvexFunction_strong_convexity_constraint_i_j. intros. split; [side_def|].
    cbn [lhs_minus_rhs denoteX denoteP sdenote]. apply pair_eq1. feq_core.
  Qed.

  Lemma feq_cocoercive : cdef par f_CocoerciveOperator_cocoercivity_constraint_i_j /\ lhs_minus_rhs par up ux f_CocoerciveOperator_cocoercivity_constraint_i_j = (ref_cocoercive pbeta xi gi xj gj, Ineq).
  Proof.
    unfold f_CocoerciveOperator_cocoercivity_constraint_i_j. intros. split; [side_def|].
    cbn [lhs_minus_rhs denoteX denoteP sdenote]. apply pair_eq1. feq_core.
  Qed.

  Lemma feq_csm_cocoercive : cdef par f_CocoerciveStronglyMonotoneOperator_cocoercivity_constraint_i_j /\ lhs_minus_rhs par up ux f_CocoerciveStronglyMonotoneOperator_cocoercivity_constraint_i_j = (ref_cocoercive pbeta xi gi xj gj, Ineq).
  Proof.
    unfold f_CocoerciveStronglyMonotoneOperator_cocoercivity_constraint_i_j. intros. split; [side_def|].
    cbn [lhs_minus_rhs denoteX denoteP sdenote]. apply pair_eq1. feq_core.
  Qed.

  Lemma feq_csm_strong : cdef par f_CocoerciveStronglyMonotoneOperator_strong_monotonicity_constraint_i_j /\ lhs_minus_rhs par up ux f_CocoerciveStronglyMonotoneOperator_strong_monotonicity_constraint_i_j = (ref_strong_monotone pmu xi gi xj gj, Ineq).
  Proof.
    unfold f_CocoerciveStronglyMonotoneOperator_strong_monotonicity_constraint_i_j. intros. split; [side_def|].
    cbn [lhs_minus_rhs denoteX denoteP sdenote]. apply pair_eq1. feq_core.
  Qed.

  (** LinearOperator: (xi, yi) a sample of the operator, (uj, vj) = (xj, gj) a sample of its transpose *)
  Lemma feq_lin_adjoint : cdef par f_LinearOperator_adjoint_constraint_i_j /\ lhs_minus_rhs par up ux f_LinearOperator_adjoint_constraint_i_j = (ref_lin_adjoint xi gi xj gj, Equ).
  Proof.
    unfold f_LinearOperator_adjoint_constraint_i_j. intros. split; [side_def|].
    cbn [lhs_minus_rhs denoteX denoteP sdenote]. apply pair_eq1. feq_core.
  Qed.

  Lemma feq_lin_lmi1 : xdef par lmi_LinearOperator_1 /\ denoteX par up ux lmi_LinearOperator_1 = ref_lin_lmi pL xi gi xj gj.
  Proof.
    unfold lmi_LinearOperator_1. intros. split; [side_def|].
    cbn [denoteX denoteP sdenote]. feq_core.
  Qed.

  Lemma feq_lin_lmi2 : xdef par lmi_LinearOperator_2 /\ denoteX par up ux lmi_LinearOperator_2 = ref_lin_lmi pL xi gi xj gj.
  Proof.
    unfold lmi_LinearOperator_2. intros. split; [side_def|].
    cbn [denoteX denoteP sdenote]. feq_core.
  Qed.

  Lemma feq_lipschitz : cdef par f_LipschitzOperator_lipschitz_continuity_constraint_i_j /\ lhs_minus_rhs par up ux f_LipschitzOperator_lipschitz_continuity_constraint_i_j = (ref_lipschitz pL xi gi xj gj, Ineq).
  Proof.
    unfold f_LipschitzOperator_lipschitz_continuity_constraint_i_j. intros. split; [side_def|].
    cbn [lhs_minus_rhs denoteX denoteP sdenote]. apply pair_eq1. feq_core.
  Qed.

  Lemma feq_lsm_strong : cdef par f_LipschitzStronglyMonotoneOperator_strong_monotonicity_constraint_i_j /\ lhs_minus_rhs par up ux f_LipschitzStronglyMonotoneOperator_strong_monotonicity_constraint_i_j = (ref_strong_monotone pmu xi gi xj gj, Ineq).
  Proof.
    unfold f_LipschitzStronglyMonotoneOperator_strong_monotonicity_constraint_i_j. intros. split; [side_def|].
    cbn [lhs_minus_rhs denoteX denoteP sdenote]. apply pair_eq1. feq_core.
  Qed.

  Lemma feq_lsm_lipschitz : cdef par f_LipschitzStronglyMonotoneOperator_lipschitz_continuity_constraint_i_j /\ lhs_minus_rhs par up ux f_LipschitzStronglyMonotoneOperator_lipschitz_continuity_constraint_i_j = (ref_lipschitz pL xi gi xj gj, Ineq).
  Proof.
    unfold f_LipschitzStronglyMonotoneOperator_lipschitz_continuity_constraint_i_j. intros. split; [side_def|].
    cbn [lhs_minus_rhs denoteX denoteP sdenote]. apply pair_eq1. feq_core.
  Qed.

  Lemma feq_monotone : cdef par f_MonotoneOperator_monotonicity_constraint_i_j /\ lhs_minus_rhs par up ux f_MonotoneOperator_monotonicity_constraint_i_j = (ref_monotone xi gi xj gj, Ineq).
  Proof.
    unfold f_MonotoneOperator_monotonicity_constraint_i_j. intros. split; [side_def|].
    cbn [lhs_minus_rhs denoteX denoteP sdenote]. apply pair_eq1. feq_core.
  Qed.

  Lemma feq_neg_comonotone : cdef par f_NegativelyComonotoneOperator_negative_comonotonicity_constraint_i_j /\ lhs_minus_rhs par up ux f_NegativelyComonotoneOperator_negative_comonotonicity_constraint_i_j = (ref_neg_comonotone prho xi gi xj gj, Ineq).
  Proof.
    unfold f_NegativelyComonotoneOperator_negative_comonotonicity_constraint_i_j. intros. split; [side_def|].
    cbn [lhs_minus_rhs denoteX denoteP sdenote]. apply pair_eq1. feq_core.
  Qed.

  Lemma feq_nonexpansive : cdef par f_NonexpansiveOperator_nonexpansiveness_constraint_i_j /\ lhs_minus_rhs par up ux f_NonexpansiveOperator_nonexpansiveness_constraint_i_j = (ref_nonexpansive xi gi xj gj, Ineq).
  Proof.
    unfold f_NonexpansiveOperator_nonexpansiveness_constraint_i_j. intros. split; [side_def|].
    cbn [lhs_minus_rhs denoteX denoteP sdenote]. apply pair_eq1. feq_core.
  Qed.

  Lemma feq_inf_displacement : cdef par f_NonexpansiveOperator_infimal_displacement_vector_constraint_i /\ lhs_minus_rhs par up ux f_NonexpansiveOperator_infimal_displacement_vector_constraint_i = (ref_inf_displacement vv xi gi, Ineq).
  Proof.
    unfold f_NonexpansiveOperator_infimal_displacement_vector_constraint_i. intros. split; [side_def|].
    cbn [lhs_minus_rhs denoteX denoteP sdenote]. apply pair_eq1. feq_core.
  Qed.

  Lemma feq_skew : cdef par f_SkewSymmetricLinearOperator_antisymmetric_linear_constraint_i_j /\ lhs_minus_rhs par up ux f_SkewSymmetricLinearOperator_antisymmetric_linear_constraint_i_j = (ref_skew xi gi xj gj, Equ).
  Proof.
    unfold f_SkewSymmetricLinearOperator_antisymmetric_linear_constraint_i_j. intros. split; [side_def|].
    cbn [lhs_minus_rhs denoteX denoteP sdenote]. apply pair_eq1. feq_core.
  Qed.

  Lemma feq_skew_lmi : xdef par lmi_SkewSymmetricLinearOperator_1 /\ denoteX par up ux lmi_SkewSymmetricLinearOperator_1 = ref_lin_lmi pL xi gi xj gj.
  Proof.
    unfold lmi_SkewSymmetricLinearOperator_1. intros. split; [side_def|].
    cbn [denoteX denoteP sdenote]. feq_core.
  Qed.

  Lemma feq_strongly_monotone : cdef par f_StronglyMonotoneOperator_strong_monotonicity_constraint_i_j /\ lhs_minus_rhs par up ux f_StronglyMonotoneOperator_strong_monotonicity_constraint_i_j = (ref_strong_monotone pmu xi gi xj gj, Ineq).
  Proof.
    unfold f_StronglyMonotoneOperator_strong_monotonicity_constraint_i_j. intros. split; [side_def|].
    cbn [lhs_minus_rhs denoteX denoteP sdenote]. apply pair_eq1. feq_core.
  Qed.

  Lemma feq_sym : cdef par f_SymmetricLinearOperator_symmetric_linear_constraint_i_j /\ lhs_minus_rhs par up ux f_SymmetricLinearOperator_symmetric_linear_constraint_i_j = (ref_sym xi gi xj gj, Equ).
  Proof.
    unfold f_SymmetricLinearOperator_symmetric_linear_constraint_i_j. intros. split; [side_def|].
    cbn [lhs_minus_rhs denoteX denoteP sdenote]. apply pair_eq1. feq_core.
  Qed.

  Lemma feq_sym_lmi : xdef par lmi_SymmetricLinearOperator_1 /\ denoteX par up ux lmi_SymmetricLinearOperator_1 = ref_sym_lmi pmu pL xi gi xj gj.
  Proof.
    unfold lmi_SymmetricLinearOperator_1. intros. split; [side_def|].
    cbn [denoteX denoteP sdenote]. feq_core.
  Qed.

  Lemma feq_block_smooth : pLk <> 0 -> cdef par f_BlockSmoothConvexFunction_smoothness_convexity_block /\ lhs_minus_rhs par up ux f_BlockSmoothConvexFunction_smoothness_convexity_block = (ref_block_smooth pLk xi xj gj gik gjk fi fj, Ineq).
  Proof.
    unfold f_BlockSmoothConvexFunction_smoothness_convexity_block. intros. split; [side_def|].
    cbn [lhs_minus_rhs denoteX denoteP sdenote]. apply pair_eq1. feq_core.
  Qed.

End FormulaEq.
