(** C17 — tables of constraints / dual tables: shape, cell contents, positions of the objects, names. *)
From Coq Require Import List QArith Bool Arith Lia String Ascii.
From Coq Require Import Numbers.DecimalString Numbers.DecimalNat.
From PV Require Import Model.Dict Model.Terms Model.ClassGen Proofs.ClassGenLemmas.
From PV Require Import Gen.Classes.
Import ListNotations.
Local Open Scope nat_scope.

(** * cells *)
Definition cell {A} (rows : list (list A)) (i j : nat) : option A :=
  match nth_error rows i with Some row => nth_error row j | None => None end.

Definition table_cell (t : table) (i j : nat) : option (option (nat * citem)) := cell (t_rows t) i j.

(** every object held by a cell is the object at the recorded position of [flat] *)
Definition cells_ok {A} (flat : list A) (nrows : list (list (option (nat * A)))) : Prop :=
  forall i j p a, cell nrows i j = Some (Some (p, a)) -> nth_error flat p = Some a.

Definition table_ok (cons : list citem) (t : table) : Prop := cells_ok cons (t_rows t).

Lemma cells_ok_app {A} (flat extra : list A) nrows : cells_ok flat nrows -> cells_ok (flat ++ extra) nrows.
Proof.
  intros H i j p a Hc. specialize (H i j p a Hc). rewrite nth_error_app1; [exact H|].
  apply nth_error_Some. rewrite H. discriminate.
Qed.

Lemma number_rows_ok {A} (rows : list (list (option A))) (base : list A) :
  cells_ok (base ++ flatten_opts rows) (number_rows (List.length base) rows).
Proof.
  intros i j p a. unfold cell.
  destruct (nth_error (number_rows (List.length base) rows) i) as [nrow|] eqn:Hn; [|discriminate].
  intros Hc.
  assert (Hi : i < List.length rows).
  { rewrite <- (number_rows_length rows (List.length base)). apply nth_error_Some. rewrite Hn. discriminate. }
  destruct (nth_error rows i) as [row|] eqn:Hr; [|apply nth_error_None in Hr; lia].
  destruct (number_rows_cell rows (List.length base) i row Hr) as (nrow' & Hn' & _ & Hcells).
  rewrite Hn in Hn'. injection Hn' as <-. specialize (Hcells j).
  destruct (nth_error row j) as [[b|]|].
  - destruct Hcells as (p' & Hp' & Hle & Hnth). rewrite Hc in Hp'. injection Hp' as -> ->.
    rewrite nth_error_app2 by lia. exact Hnth.
  - rewrite Hc in Hcells. discriminate.
  - rewrite Hc in Hcells. discriminate.
Qed.

(** * the block tables *)
Lemma nth_error_seq a n k : k < n -> nth_error (seq a n) k = Some (a + k).
Proof.
  revert a k. induction n as [|n IH]; intros a k Hk; [lia|]. destruct k as [|k]; cbn.
  - f_equal. lia.
  - rewrite IH by lia. f_equal. lia.
Qed.

Lemma nth_error_flat_map_const {A B} (g : A -> nat -> B) nb (qs : list A) r k q :
  nth_error qs r = Some q -> k < nb ->
  nth_error (flat_map (fun q => map (g q) (seq 0 nb)) qs) (nb * r + k) = Some (g q k).
Proof.
  revert r. induction qs as [|q0 qs IH]; intros r Hr Hk; [destruct r; discriminate|].
  cbn [flat_map]. destruct r as [|r]; cbn [nth_error] in Hr.
  - injection Hr as ->. replace (nb * 0 + k) with k by lia.
    rewrite nth_error_app1 by (rewrite map_length, seq_length; exact Hk).
    rewrite nth_error_map, nth_error_seq by exact Hk. reflexivity.
  - rewrite nth_error_app2 by (rewrite map_length, seq_length; lia).
    rewrite map_length, seq_length. replace (nb * S r + k - nb) with (nb * r + k) by lia.
    apply IH; assumption.
Qed.

Lemma cell_map_map {A B} (F : A -> B) (rows : list (list A)) i j :
  cell (map (map F) rows) i j = option_map F (cell rows i j).
Proof.
  unfold cell. rewrite nth_error_map. destruct (nth_error rows i) as [row|]; [|reflexivity].
  cbn. apply nth_error_map.
Qed.

Lemma block_table_ok st cprefix f l base k :
  k < f_nblocks st ->
  table_ok (base ++ gen_block_flat st cprefix f l) (block_table st cprefix f l (List.length base) k).
Proof.
  intros Hk i j p c. unfold table_cell, block_table. cbn [t_rows]. rewrite cell_map_map.
  destruct (cell (number_rows 0 (block_grid l)) i j) as [[[r q]|]|] eqn:Hc; cbn; try discriminate.
  intros H. injection H as <- <-.
  pose proof (number_rows_ok (block_grid l) [] i j r q Hc) as Hq. cbn [app List.length] in Hq.
  rewrite nth_error_app2 by lia.
  replace (List.length base + f_nblocks st * r + k - List.length base) with (f_nblocks st * r + k) by lia.
  unfold gen_block_flat.
  exact (nth_error_flat_map_const (fun q k => block_citem st cprefix f k q) (f_nblocks st) _ r k q Hq Hk).
Qed.

(** * every table written by a plan item points into list_of_class_constraints *)
Theorem item_tables_ok st it base t :
  In t (item_tables st (List.length base) it) -> table_ok (base ++ item_cons st it) t.
Proof.
  induction it as [l1 l2 cname f sym|l cname f|g it IH| |l entry|cprefix f]; cbn [item_tables item_cons].
  - destruct (get_list st l1) as [|s0 l0]; [intros []|]. intros [<-|[]]. unfold table_ok. cbn [t_rows].
    apply number_rows_ok.
  - intros [<-|[]]. unfold table_ok. cbn [t_rows].
    pose proof (number_rows_ok [map Some (gen_singles st (get_list st l) cname f)] base) as H.
    rewrite flatten_opts_single in H. exact H.
  - destruct (guard_true st g); [exact IH|intros []].
  - intros [].
  - intros [].
  - destruct (f_points st) as [|s0 l0] eqn:E; [intros []|]. intros Hin. apply in_map_iff in Hin as [k [<- Hk]].
    apply in_seq in Hk. apply block_table_ok. lia.
Qed.

(** After set_class_constraints(): every cell of every table that holds a Constraint object holds
    the object sitting at the recorded position of list_of_class_constraints. *)
Theorem run_plan_tables_ok plan st t :
  In t (g_tables (run_plan plan st)) -> table_ok (g_cons (run_plan plan st)) t.
Proof.
  rewrite run_plan_run_items. intros Hin. apply run_items_tables in Hin as [[]|(pre & it & post & -> & Hin)].
  rewrite run_items_app. change (run_items (it :: post) ?o) with (run_items post (run_item it o)).
  set (o1 := run_items pre (mkG [] [] [] st)) in *.
  destruct (run_items_cons_prefix post (run_item it o1)) as [cs Hcs]. rewrite Hcs.
  rewrite run_item_eq. cbn [g_cons]. apply cells_ok_app. apply item_tables_ok. exact Hin.
Qed.

(** * contents of the table of a pair condition *)
Theorem pairs_table_exists st off l1 l2 cname f sym :
  get_list st l1 <> [] -> exists t, item_tables st off (Pairs l1 l2 cname f sym) = [t].
Proof. cbn [item_tables]. destruct (get_list st l1); [congruence|]. intros _. eexists. reflexivity. Qed.

Theorem pairs_table_cells st off l1 l2 cname f sym t :
  In t (item_tables st off (Pairs l1 l2 cname f sym)) ->
  t_name t = cname /\ t_index t = labels (get_list st l1) /\ t_columns t = labels (get_list st l2) /\
  List.length (t_rows t) = List.length (get_list st l1) /\
  (forall i row, nth_error (t_rows t) i = Some row -> List.length row = List.length (get_list st l2)) /\
  forall i j si sj, nth_error (get_list st l1) i = Some si -> nth_error (get_list st l2) j = Some sj ->
    if skip_pair sym i j si sj then table_cell t i j = Some None
    else exists p, table_cell t i j
                   = Some (Some (p, mkC (Some (pair_name st cname si sj i j)) (inst st f si sj))) /\ off <= p.
Proof.
  cbn [item_tables]. destruct (get_list st l1) as [|s0 l0] eqn:E; [intros []|]. rewrite <- E. clear E s0 l0.
  intros [<-|[]]. cbn [t_name t_index t_columns t_rows]. repeat split.
  - rewrite number_rows_length. apply gen_pairs_shape.
  - intros i nrow Hn.
    assert (Hi : i < List.length (gen_pairs st (get_list st l1) (get_list st l2) cname f sym)).
    { rewrite <- (number_rows_length _ off). apply nth_error_Some. rewrite Hn. discriminate. }
    destruct (nth_error (gen_pairs st (get_list st l1) (get_list st l2) cname f sym) i) as [row|] eqn:Hr;
      [|apply nth_error_None in Hr; lia].
    destruct (number_rows_cell _ off i row Hr) as (nrow' & Hn' & Hlen & _). rewrite Hn in Hn'. injection Hn' as <-.
    rewrite Hlen. apply (proj2 (gen_pairs_shape st (get_list st l1) (get_list st l2) cname f sym)).
    eapply nth_error_In. exact Hr.
  - intros i j si sj Hi Hj.
    destruct (gen_pairs_table st _ _ cname f sym i j si sj Hi Hj) as (row & Hr & Hcell).
    destruct (number_rows_cell _ off i row Hr) as (nrow & Hn & _ & Hcells). specialize (Hcells j).
    rewrite Hcell in Hcells. unfold table_cell, cell. cbn [t_rows]. rewrite Hn.
    destruct (skip_pair sym i j si sj); [exact Hcells|].
    destruct Hcells as (p & Hp & Hle & _). exists p. split; [exact Hp|exact Hle].
Qed.

Theorem singles_table_cells st off l cname f t :
  In t (item_tables st off (Singles l cname f)) ->
  t_name t = cname /\ t_columns t = labels (get_list st l) /\ List.length (t_rows t) = 1 /\
  (forall row, nth_error (t_rows t) 0 = Some row -> List.length row = List.length (get_list st l)) /\
  forall i si, nth_error (get_list st l) i = Some si ->
    exists p, table_cell t 0 i = Some (Some (p, mkC (Some (single_name st cname si i)) (inst st f si si))) /\
              off <= p.
Proof.
  cbn [item_tables]. intros [<-|[]]. cbn [t_name t_columns t_rows].
  set (cs := gen_singles st (get_list st l) cname f).
  destruct (number_rows_cell [map Some cs] off 0 (map Some cs) eq_refl) as (nrow & Hn & Hlen & Hcells).
  repeat split.
  - rewrite number_rows_length. reflexivity.
  - intros row Hr. rewrite Hn in Hr. injection Hr as <-. rewrite Hlen, map_length. apply gen_singles_length.
  - intros i si Hi. specialize (Hcells i). rewrite nth_error_map in Hcells.
    unfold cs in Hcells at 1. rewrite (gen_singles_nth st _ cname f i si Hi) in Hcells. cbn in Hcells.
    destruct Hcells as (p & Hp & Hle & _). exists p. unfold table_cell, cell. cbn [t_rows]. rewrite Hn. auto.
Qed.

Lemma block_grid_cell (l : list sample) i j si sj :
  nth_error l i = Some si -> nth_error l j = Some sj ->
  cell (block_grid l) i j = Some (if same_tuple si sj then None else Some (i, si, j, sj)).
Proof.
  intros Hi Hj. unfold cell, block_grid. rewrite nth_error_map, enumerate_nth_error, Hi. cbn.
  rewrite nth_error_map, enumerate_nth_error, Hj. reflexivity.
Qed.

Lemma block_grid_numbered_cell (l : list sample) i j si sj :
  nth_error l i = Some si -> nth_error l j = Some sj ->
  if same_tuple si sj then cell (number_rows 0 (block_grid l)) i j = Some None
  else exists r, cell (number_rows 0 (block_grid l)) i j = Some (Some (r, (i, si, j, sj))).
Proof.
  intros Hi Hj. pose proof (block_grid_cell l i j si sj Hi Hj) as Hg. unfold cell in Hg.
  destruct (nth_error (block_grid l) i) as [row|] eqn:Hr; [|discriminate].
  destruct (number_rows_cell (block_grid l) 0 i row Hr) as (nrow & Hn & _ & Hcells). specialize (Hcells j).
  rewrite Hg in Hcells. unfold cell. rewrite Hn.
  destruct (same_tuple si sj); cbv beta iota in Hcells; [exact Hcells|].
  destruct Hcells as (r & Hp & _ & _). exists r. exact Hp.
Qed.

Theorem block_table_cells st cprefix f off k (l : list sample) :
  let t := block_table st cprefix f l off k in
  t_name t = (cprefix ++ nat_to_string k)%string /\ t_index t = labels l /\ t_columns t = labels l /\
  List.length (t_rows t) = List.length l /\
  forall i j si sj, nth_error l i = Some si -> nth_error l j = Some sj ->
    if same_tuple si sj then table_cell t i j = Some None
    else exists p, table_cell t i j
                   = Some (Some (p, mkC (Some (block_name st cprefix k si sj i j)) (instB st f k si sj))) /\ off <= p.
Proof.
  cbn zeta. unfold block_table. cbn [t_name t_index t_columns t_rows]. repeat split.
  - rewrite map_length, number_rows_length. unfold block_grid. rewrite map_length. apply enumerate_length.
  - intros i j si sj Hi Hj. unfold table_cell. cbn [t_rows]. rewrite cell_map_map.
    pose proof (block_grid_numbered_cell l i j si sj Hi Hj) as Hc.
    destruct (same_tuple si sj).
    + rewrite Hc. reflexivity.
    + destruct Hc as [r Hc]. rewrite Hc. cbn. eexists. split; [reflexivity|lia].
Qed.

(** * dual tables *)
Theorem duals_table_cell dual t i j :
  cell (duals_table dual t) i j
  = option_map (fun o => match o with Some (p, _) => dual p | None => 0%Q end) (table_cell t i j).
Proof. unfold duals_table, table_cell. apply cell_map_map. Qed.

Theorem duals_table_shape dual t :
  List.length (duals_table dual t) = List.length (t_rows t) /\
  forall i, option_map (@List.length Q) (nth_error (duals_table dual t) i)
            = option_map (@List.length _) (nth_error (t_rows t) i).
Proof.
  unfold duals_table. split; [apply map_length|]. intros i. rewrite nth_error_map.
  destruct (nth_error (t_rows t) i); cbn; [rewrite map_length|]; reflexivity.
Qed.

(** * Python dict semantics of tables_of_constraints *)
Lemma table_set_fresh t ts : ~ In (t_name t) (map t_name ts) -> table_set t ts = ts ++ [t].
Proof.
  induction ts as [|t' ts IH]; cbn; [reflexivity|]. intros H.
  destruct (String.eqb_spec (t_name t') (t_name t)) as [E|E]; [exfalso; apply H; left; exact E|].
  rewrite IH; [reflexivity|]. intros Hin. apply H. right. exact Hin.
Qed.

Lemma tables_dict_from acc ts :
  NoDup (map t_name (acc ++ ts)) -> fold_left (fun acc t => table_set t acc) ts acc = acc ++ ts.
Proof.
  revert acc. induction ts as [|t ts IH]; intros acc H; cbn; [rewrite app_nil_r; reflexivity|].
  rewrite table_set_fresh.
  - rewrite IH; rewrite <- app_assoc; [reflexivity|exact H].
  - rewrite map_app in H. apply NoDup_remove_2 in H. rewrite in_app_iff in H. tauto.
Qed.

Theorem tables_dict_nodup ts : NoDup (map t_name ts) -> tables_dict ts = ts.
Proof. intros H. unfold tables_dict. apply (tables_dict_from [] ts). exact H. Qed.

Theorem table_get_in ts t : NoDup (map t_name ts) -> In t ts -> table_get (t_name t) ts = Some t.
Proof.
  induction ts as [|t' ts IH]; cbn; [intros _ []|]. intros Hnd Hin. inversion Hnd as [|? ? Hn Hnd']; subst.
  destruct (String.eqb_spec (t_name t') (t_name t)) as [E|E].
  - destruct Hin as [->|Hin]; [reflexivity|]. exfalso. apply Hn. rewrite E. apply in_map. exact Hin.
  - destruct Hin as [->|Hin]; [congruence|]. apply IH; assumption.
Qed.

(** * names *)
Lemma nat_to_string_inj n m : nat_to_string n = nat_to_string m -> n = m.
Proof.
  unfold nat_to_string. intros H. apply (f_equal NilEmpty.uint_of_string) in H. rewrite !NilEmpty.usu in H.
  injection H as H. apply Unsigned.to_uint_inj. exact H.
Qed.

Definition is_digit (c : ascii) : bool := (48 <=? nat_of_ascii c) && (nat_of_ascii c <=? 57).
Fixpoint all_digits (s : string) : bool :=
  match s with EmptyString => true | String c s' => is_digit c && all_digits s' end.

Lemma string_of_uint_digits d : all_digits (NilEmpty.string_of_uint d) = true.
Proof. induction d; cbn; try reflexivity; exact IHd. Qed.

Lemma nat_to_string_digits n : all_digits (nat_to_string n) = true.
Proof. apply string_of_uint_digits. Qed.

Lemma append_inj_l (a b c : string) : (a ++ b = a ++ c)%string -> b = c.
Proof. induction a as [|x a IH]; cbn; [auto|]. intros H. injection H as H. auto. Qed.

Lemma append_assoc (a b c : string) : ((a ++ b) ++ c = a ++ (b ++ c))%string.
Proof. induction a as [|x a IH]; cbn; [reflexivity|]. rewrite IH. reflexivity. Qed.

(** a run of digits followed by a non-digit separator splits uniquely *)
Lemma digits_split (a a' : string) (c : ascii) (r r' : string) :
  all_digits a = true -> all_digits a' = true -> is_digit c = false ->
  (a ++ String c r = a' ++ String c r')%string -> a = a' /\ r = r'.
Proof.
  revert a'. induction a as [|x a IH]; intros a' Ha Ha' Hc H; destruct a' as [|x' a']; cbn in *.
  - injection H as H. auto.
  - injection H as Hx _. subst x'. apply andb_true_iff in Ha' as [Hd _]. congruence.
  - injection H as Hx _. subst x. apply andb_true_iff in Ha as [Hd _]. congruence.
  - injection H as -> H. apply andb_true_iff in Ha as [_ Ha]. apply andb_true_iff in Ha' as [_ Ha'].
    destruct (IH a' Ha Ha' Hc H) as [-> ->]. auto.
Qed.

Lemma point_id_unnamed s i : s_name s = None -> point_id s i = ("Point_" ++ nat_to_string i)%string.
Proof. unfold point_id. intros ->. reflexivity. Qed.

(** "IC_<function id>_<condition>(Point_i, Point_j)": for unnamed points the name determines (i, j) *)
Theorem pair_name_inj st cname si sj i j si' sj' i' j' :
  s_name si = None -> s_name sj = None -> s_name si' = None -> s_name sj' = None ->
  pair_name st cname si sj i j = pair_name st cname si' sj' i' j' -> i = i' /\ j = j'.
Proof.
  intros H1 H2 H3 H4. unfold pair_name. rewrite !point_id_unnamed by assumption. intros H.
  do 5 apply append_inj_l in H. rewrite !append_assoc in H. apply append_inj_l in H.
  change (", " ++ ?x)%string with (String "," (String " " x)) in H.
  apply digits_split in H as [Hi H]; [|apply nat_to_string_digits|apply nat_to_string_digits|reflexivity].
  injection H as H.
  change (")"%string) with (String ")" EmptyString) in H.
  apply digits_split in H as [Hj _]; [|apply nat_to_string_digits|apply nat_to_string_digits|reflexivity].
  split; apply nat_to_string_inj; assumption.
Qed.

Theorem single_name_inj st cname si i si' i' :
  s_name si = None -> s_name si' = None -> single_name st cname si i = single_name st cname si' i' -> i = i'.
Proof.
  intros H1 H2. unfold single_name. rewrite !point_id_unnamed by assumption. intros H.
  do 5 apply append_inj_l in H. rewrite !append_assoc in H. apply append_inj_l in H.
  change (")"%string) with (String ")" EmptyString) in H.
  apply digits_split in H as [Hi _]; [|apply nat_to_string_digits|apply nat_to_string_digits|reflexivity].
  apply nat_to_string_inj. exact Hi.
Qed.

Theorem block_name_inj st cprefix k si sj i j si' sj' i' j' :
  s_name si = None -> s_name sj = None -> s_name si' = None -> s_name sj' = None ->
  block_name st cprefix k si sj i j = block_name st cprefix k si' sj' i' j' -> i = i' /\ j = j'.
Proof.
  intros H1 H2 H3 H4. unfold block_name. rewrite !point_id_unnamed by assumption. intros H.
  do 4 apply append_inj_l in H. rewrite !append_assoc in H. do 3 apply append_inj_l in H.
  change (", " ++ ?x)%string with (String "," (String " " x)) in H.
  apply digits_split in H as [Hi H]; [|apply nat_to_string_digits|apply nat_to_string_digits|reflexivity].
  injection H as H.
  change (")"%string) with (String ")" EmptyString) in H.
  apply digits_split in H as [Hj _]; [|apply nat_to_string_digits|apply nat_to_string_digits|reflexivity].
  split; apply nat_to_string_inj; assumption.
Qed.

(** the name carries the function id and the condition name *)
Theorem pair_name_prefix st cname si sj i j :
  exists rest, pair_name st cname si sj i j = ("IC_" ++ f_id st ++ "_" ++ cname ++ "(" ++ rest)%string.
Proof. eexists. reflexivity. Qed.
Theorem single_name_prefix st cname si i :
  exists rest, single_name st cname si i = ("IC_" ++ f_id st ++ "_" ++ cname ++ "(" ++ rest)%string.
Proof. eexists. reflexivity. Qed.
Theorem block_name_prefix st cprefix k si sj i j :
  exists rest, block_name st cprefix k si sj i j
               = ("IC_" ++ f_id st ++ "_" ++ (cprefix ++ nat_to_string k) ++ "(" ++ rest)%string.
Proof. eexists. unfold block_name. rewrite append_assoc. reflexivity. Qed.

(** * plan level *)
(** the item that actually runs once the guards around it have been evaluated *)
Fixpoint item_core (st : fstate) (it : plan_item) : option plan_item :=
  match it with
  | Guarded g it' => if guard_true st g then item_core st it' else None
  | _ => Some it
  end.

Lemma item_core_eq st off it it' :
  item_core st it = Some it' ->
  item_tables st off it = item_tables st off it' /\ item_cons st it = item_cons st it'.
Proof.
  induction it; cbn [item_core]; try (intros H; injection H as <-; split; reflexivity).
  cbn [item_tables item_cons]. destruct (guard_true st g); [exact IHit|discriminate].
Qed.

(** a table written by the item at position |pre| of the plan is in tables_of_constraints at the
    end, and its cells point into the final list_of_class_constraints *)
Theorem plan_item_tables plan st pre it post t :
  plan = pre ++ it :: post ->
  In t (item_tables (g_state (run_plan pre st)) (List.length (g_cons (run_plan pre st))) it) ->
  In t (g_tables (run_plan plan st)) /\ table_ok (g_cons (run_plan plan st)) t.
Proof.
  intros -> Hin.
  assert (H : In t (g_tables (run_plan (pre ++ it :: post) st))).
  { rewrite run_plan_run_items. apply run_items_tables. right. exists pre, it, post. split; [reflexivity|exact Hin]. }
  split; [exact H|apply run_plan_tables_ok; exact H].
Qed.

(** C17 for a pair condition: shape |list1| x |list2|, labels, cell (i,j) = the constraint generated
    for that ordered pair (the object at position p of list_of_class_constraints) exactly when the
    pair is selected, the scalar 0 otherwise; the dual table reports that constraint's multiplier *)
Theorem plan_pairs_table plan st pre it post l1 l2 cname f sym :
  plan = pre ++ it :: post ->
  let s1 := g_state (run_plan pre st) in
  item_core s1 it = Some (Pairs l1 l2 cname f sym) ->
  get_list s1 l1 <> [] ->
  exists t, In t (g_tables (run_plan plan st)) /\ t_name t = cname /\
    t_index t = labels (get_list s1 l1) /\ t_columns t = labels (get_list s1 l2) /\
    List.length (t_rows t) = List.length (get_list s1 l1) /\
    (forall i row, nth_error (t_rows t) i = Some row -> List.length row = List.length (get_list s1 l2)) /\
    forall i j si sj, nth_error (get_list s1 l1) i = Some si -> nth_error (get_list s1 l2) j = Some sj ->
      forall dual,
      if skip_pair sym i j si sj
      then table_cell t i j = Some None /\ cell (duals_table dual t) i j = Some 0%Q
      else exists p, let c := mkC (Some (pair_name s1 cname si sj i j)) (inst s1 f si sj) in
             table_cell t i j = Some (Some (p, c)) /\ nth_error (g_cons (run_plan plan st)) p = Some c /\
             cell (duals_table dual t) i j = Some (dual p).
Proof.
  intros Hplan s1 Hcore Hne.
  set (off := List.length (g_cons (run_plan pre st))).
  destruct (pairs_table_exists s1 off l1 l2 cname f sym Hne) as [t Ht].
  destruct (item_core_eq s1 off it _ Hcore) as [Htab _].
  assert (Hin : In t (item_tables s1 off it)) by (rewrite Htab, Ht; left; reflexivity).
  destruct (plan_item_tables plan st pre it post t Hplan Hin) as [Hg Hok].
  assert (Hin' : In t (item_tables s1 off (Pairs l1 l2 cname f sym))) by (rewrite Ht; left; reflexivity).
  destruct (pairs_table_cells s1 off l1 l2 cname f sym t Hin') as (Hn & Hix & Hcol & Hlen & Hrow & Hcells).
  exists t. repeat split; try assumption.
  intros i j si sj Hi Hj dual. specialize (Hcells i j si sj Hi Hj).
  destruct (skip_pair sym i j si sj).
  - split; [exact Hcells|]. rewrite duals_table_cell, Hcells. reflexivity.
  - destruct Hcells as (p & Hp & _). exists p. cbn zeta. split; [exact Hp|]. split.
    + exact (Hok i j p _ Hp).
    + rewrite duals_table_cell, Hp. reflexivity.
Qed.

Theorem plan_singles_table plan st pre it post l cname f :
  plan = pre ++ it :: post ->
  let s1 := g_state (run_plan pre st) in
  item_core s1 it = Some (Singles l cname f) ->
  exists t, In t (g_tables (run_plan plan st)) /\ t_name t = cname /\
    t_columns t = labels (get_list s1 l) /\ List.length (t_rows t) = 1 /\
    (forall row, nth_error (t_rows t) 0 = Some row -> List.length row = List.length (get_list s1 l)) /\
    forall i si, nth_error (get_list s1 l) i = Some si -> forall dual,
      exists p, let c := mkC (Some (single_name s1 cname si i)) (inst s1 f si si) in
        table_cell t 0 i = Some (Some (p, c)) /\ nth_error (g_cons (run_plan plan st)) p = Some c /\
        cell (duals_table dual t) 0 i = Some (dual p).
Proof.
  intros Hplan s1 Hcore.
  set (off := List.length (g_cons (run_plan pre st))).
  destruct (item_core_eq s1 off it _ Hcore) as [Htab _].
  assert (Ht : exists t, item_tables s1 off (Singles l cname f) = [t]) by (eexists; reflexivity).
  destruct Ht as [t Ht].
  assert (Hin : In t (item_tables s1 off it)) by (rewrite Htab, Ht; left; reflexivity).
  destruct (plan_item_tables plan st pre it post t Hplan Hin) as [Hg Hok].
  assert (Hin' : In t (item_tables s1 off (Singles l cname f))) by (rewrite Ht; left; reflexivity).
  destruct (singles_table_cells s1 off l cname f t Hin') as (Hn & Hcol & Hlen & Hrow & Hcells).
  exists t. repeat split; try assumption.
  intros i si Hi dual. destruct (Hcells i si Hi) as (p & Hp & _). exists p. cbn zeta.
  split; [exact Hp|]. split; [exact (Hok 0 i p _ Hp)|]. rewrite duals_table_cell, Hp. reflexivity.
Qed.

Lemma block_item_tables_in st off cprefix f k :
  f_points st <> [] -> k < f_nblocks st ->
  In (block_table st cprefix f (f_points st) off k) (item_tables st off (BlockPairs cprefix f)).
Proof.
  intros Hne Hk. cbn [item_tables]. destruct (f_points st) eqn:E; [congruence|]. apply in_map. apply in_seq. lia.
Qed.

Theorem plan_block_tables plan st pre it post cprefix f k :
  plan = pre ++ it :: post ->
  let s1 := g_state (run_plan pre st) in
  item_core s1 it = Some (BlockPairs cprefix f) ->
  f_points s1 <> [] -> k < f_nblocks s1 ->
  exists t, In t (g_tables (run_plan plan st)) /\ t_name t = (cprefix ++ nat_to_string k)%string /\
    t_index t = labels (f_points s1) /\ t_columns t = labels (f_points s1) /\
    List.length (t_rows t) = List.length (f_points s1) /\
    forall i j si sj, nth_error (f_points s1) i = Some si -> nth_error (f_points s1) j = Some sj ->
      forall dual,
      if same_tuple si sj
      then table_cell t i j = Some None /\ cell (duals_table dual t) i j = Some 0%Q
      else exists p, let c := mkC (Some (block_name s1 cprefix k si sj i j)) (instB s1 f k si sj) in
             table_cell t i j = Some (Some (p, c)) /\ nth_error (g_cons (run_plan plan st)) p = Some c /\
             cell (duals_table dual t) i j = Some (dual p).
Proof.
  intros Hplan s1 Hcore Hne Hk.
  set (off := List.length (g_cons (run_plan pre st))).
  destruct (item_core_eq s1 off it _ Hcore) as [Htab _].
  set (t := block_table s1 cprefix f (f_points s1) off k).
  assert (Hin : In t (item_tables s1 off it)).
  { rewrite Htab. apply block_item_tables_in; assumption. }
  destruct (plan_item_tables plan st pre it post t Hplan Hin) as [Hg Hok].
  destruct (block_table_cells s1 cprefix f off k (f_points s1)) as (Hn & Hix & Hcol & Hlen & Hcells).
  exists t. repeat split; try assumption.
  intros i j si sj Hi Hj dual. specialize (Hcells i j si sj Hi Hj). fold t in Hcells.
  destruct (same_tuple si sj).
  - split; [exact Hcells|]. rewrite duals_table_cell, Hcells. reflexivity.
  - destruct Hcells as (p & Hp & _). exists p. cbn zeta. split; [exact Hp|]. split.
    + exact (Hok i j p _ Hp).
    + rewrite duals_table_cell, Hp. reflexivity.
Qed.

(** * one table per condition name (the dictionary keeps every table that was written) *)
Fixpoint static_names (it : plan_item) : list string :=
  match it with
  | Pairs _ _ c _ _ => [c]
  | Singles _ c _ => [c]
  | Guarded _ it' => static_names it'
  | _ => []
  end.

Fixpoint block_free (it : plan_item) : bool :=
  match it with BlockPairs _ _ => false | Guarded _ it' => block_free it' | _ => true end.

Lemma item_tables_names st off it :
  block_free it = true ->
  map t_name (item_tables st off it) = [] \/ map t_name (item_tables st off it) = static_names it.
Proof.
  induction it; cbn [block_free item_tables static_names]; intros Hb; try (left; reflexivity); try discriminate.
  - destruct (get_list st l1); [left|right]; reflexivity.
  - right. reflexivity.
  - destruct (guard_true st g); [auto|left; reflexivity].
Qed.

Lemma NoDup_app_drop_mid {A} (a b c : list A) : NoDup (a ++ b ++ c) -> NoDup (a ++ c).
Proof.
  induction b as [|x b IH]; cbn; [auto|]. intros H. apply IH. eapply NoDup_remove_1. exact H.
Qed.

Lemma run_items_names_nodup plan o :
  forallb block_free plan = true ->
  NoDup (map t_name (g_tables o) ++ flat_map static_names plan) ->
  NoDup (map t_name (g_tables (run_items plan o))).
Proof.
  revert o. induction plan as [|it plan IH]; intros o Hb Hnd.
  - cbn in *. rewrite app_nil_r in Hnd. exact Hnd.
  - cbn in Hb. apply andb_true_iff in Hb as [Hb1 Hb2].
    change (run_items (it :: plan) o) with (run_items plan (run_item it o)). apply IH; [exact Hb2|].
    rewrite run_item_eq. cbn [g_tables flat_map] in *. rewrite map_app, <- app_assoc.
    destruct (item_tables_names (g_state o) (List.length (g_cons o)) it Hb1) as [E|E]; rewrite E.
    + cbn. eapply NoDup_app_drop_mid. exact Hnd.
    + exact Hnd.
Qed.

Fixpoint nodupb (l : list string) : bool :=
  match l with [] => true | x :: l' => negb (existsb (String.eqb x) l') && nodupb l' end.

Lemma nodupb_NoDup l : nodupb l = true -> NoDup l.
Proof.
  induction l as [|x l IH]; cbn; [constructor|]. intros H. apply andb_true_iff in H as [H1 H2].
  constructor; [|auto]. intros Hin. apply negb_true_iff in H1.
  assert (existsb (String.eqb x) l = true); [|congruence].
  apply existsb_exists. exists x. split; [exact Hin|apply String.eqb_refl].
Qed.

Definition plan_names_ok (plan : list plan_item) : bool :=
  (forallb block_free plan && nodupb (flat_map static_names plan))
  || match plan with [BlockPairs _ _] => true | _ => false end.

Lemma NoDup_map_inj_local {A B} (f : A -> B) l : (forall x y, f x = f y -> x = y) -> NoDup l -> NoDup (map f l).
Proof.
  intros Hinj H. induction H as [|a l Hn H IH]; cbn; constructor; [|exact IH].
  intros Hin. apply in_map_iff in Hin as [y [Hy Hin]]. apply Hinj in Hy. subst y. contradiction.
Qed.

Theorem plan_names_nodup plan st :
  plan_names_ok plan = true -> NoDup (map t_name (g_tables (run_plan plan st))).
Proof.
  unfold plan_names_ok. intros H. apply orb_true_iff in H as [H|H].
  - apply andb_true_iff in H as [H1 H2]. rewrite run_plan_run_items. apply run_items_names_nodup; [exact H1|].
    cbn. apply nodupb_NoDup. exact H2.
  - destruct plan as [|[| | | | |cprefix f] [|]]; try discriminate.
    unfold run_plan. cbn [fold_left]. rewrite run_item_eq. cbn [g_tables g_state g_cons app item_tables].
    destruct (f_points st); [constructor|]. rewrite map_map. cbn [t_name block_table].
    apply NoDup_map_inj_local; [|apply seq_NoDup].
    intros x y Hxy. apply append_inj_l in Hxy. apply nat_to_string_inj. exact Hxy.
Qed.

Lemma all_plans_names_ok : forallb (fun np => plan_names_ok (snd np)) all_plans = true.
Proof. vm_compute. reflexivity. Qed.

(** For every shipped class: after set_class_constraints(), looking a table up by its condition
    name returns the table that was written for that condition. *)
Theorem shipped_table_lookup name plan st t :
  In (name, plan) all_plans -> In t (g_tables (run_plan plan st)) ->
  tables_dict (g_tables (run_plan plan st)) = g_tables (run_plan plan st) /\
  table_get (t_name t) (tables_dict (g_tables (run_plan plan st))) = Some t.
Proof.
  intros Hin Ht.
  assert (Hok : plan_names_ok plan = true).
  { pose proof all_plans_names_ok as H. rewrite forallb_forall in H. exact (H _ Hin). }
  pose proof (plan_names_nodup plan st Hok) as Hnd.
  rewrite (tables_dict_nodup _ Hnd). split; [reflexivity|]. apply table_get_in; assumption.
Qed.

(** * every class constraint is named and tabulated *)
(** every constraint contributed by a plan item carries a name and sits in a table written by that item
    (before /repo 763e32e LinearOperator's adjoint equalities were the exception: F-C17b) *)
Theorem item_src_tabulated st off it c :
  item_src st it c ->
  (exists nm, c_name c = Some nm) /\
  exists t i j p, In t (item_tables st off it) /\ table_cell t i j = Some (Some (p, c)).
Proof.
  induction it as [l1 l2 cname f sym|l cname f|g it IH| |l entry|cprefix f]; cbn [item_src];
    intros Hsrc; try contradiction.
  - destruct Hsrc as (i & j & si & sj & Hi & Hj & Hsel & ->). split; [eexists; reflexivity|].
    assert (Hne : get_list st l1 <> []) by (intros E; rewrite E in Hi; destruct i; discriminate).
    destruct (pairs_table_exists st off l1 l2 cname f sym Hne) as [t Ht].
    assert (Hin : In t (item_tables st off (Pairs l1 l2 cname f sym))) by (rewrite Ht; left; reflexivity).
    destruct (pairs_table_cells st off l1 l2 cname f sym t Hin) as (_ & _ & _ & _ & _ & Hcells).
    specialize (Hcells i j si sj Hi Hj). apply skip_pair_false in Hsel. rewrite Hsel in Hcells.
    destruct Hcells as (p & Hp & _). exists t, i, j, p. split; [exact Hin|exact Hp].
  - destruct Hsrc as (i & si & Hi & ->). split; [eexists; reflexivity|].
    assert (Ht : exists t, item_tables st off (Singles l cname f) = [t]) by (eexists; reflexivity).
    destruct Ht as [t Ht].
    assert (Hin : In t (item_tables st off (Singles l cname f))) by (rewrite Ht; left; reflexivity).
    destruct (singles_table_cells st off l cname f t Hin) as (_ & _ & _ & _ & Hcells).
    destruct (Hcells i si Hi) as (p & Hp & _). exists t, 0, i, p. split; [exact Hin|exact Hp].
  - destruct Hsrc as [Hg Hsrc]. cbn [item_tables]. rewrite Hg. apply IH; assumption.
  - destruct Hsrc as (i & j & k & si & sj & Hi & Hj & Hs & Hk & ->). split; [eexists; reflexivity|].
    exists (block_table st cprefix f (f_points st) off k), i, j.
    destruct (block_table_cells st cprefix f off k (f_points st)) as (_ & _ & _ & _ & Hcells).
    specialize (Hcells i j si sj Hi Hj). rewrite Hs in Hcells. destruct Hcells as (p & Hp & _). exists p.
    split; [|exact Hp]. apply block_item_tables_in; [|exact Hk].
    intros E. rewrite E in Hi. destruct i; discriminate.
Qed.

(** After set_class_constraints(), for every plan: every class constraint has a name and is the object
    held by some cell of some table of tables_of_constraints. *)
Theorem run_plan_named_tabulated plan st c :
  In c (g_cons (run_plan plan st)) ->
  (exists nm, c_name c = Some nm) /\
  exists t i j p, In t (g_tables (run_plan plan st)) /\ table_cell t i j = Some (Some (p, c)) /\
                  nth_error (g_cons (run_plan plan st)) p = Some c.
Proof.
  intros Hc. apply run_plan_items_spec in Hc as (pre & it & post & Heq & Hsrc).
  destruct (item_src_tabulated _ (List.length (g_cons (run_plan pre st))) it c Hsrc)
    as [Hnm (t & i & j & p & Hin & Hcell)].
  split; [exact Hnm|]. destruct (plan_item_tables plan st pre it post t Heq Hin) as [Hg Hok].
  exists t, i, j, p. split; [exact Hg|]. split; [exact Hcell|]. exact (Hok i j p c Hcell).
Qed.

(** regression for the repaired F-C17b: one sample of a LinearOperator, one of its transpose: the adjoint
    equality is named and sits in the 1 x 1 table "adjoint" *)
Definition lin_witness : fstate :=
  mkF "Function_0" (fun _ => 1%Q) (fun _ => false)
      [mkSample [(0, 1%Q)] [(1, 1%Q)] [(KF 0, 1%Q)] None 0 1 2 []] []
      [mkSample [(2, 1%Q)] [(3, 1%Q)] [(KF 1, 1%Q)] None 3 4 5 []] None 4 2 6 0 (fun _ => 0%Q).

Lemma linear_adjoint_regression :
  map c_name (g_cons (run_plan plan_LinearOperator lin_witness)) = [Some "IC_Function_0_adjoint(Point_0, Point_0)"%string] /\
  map t_name (g_tables (run_plan plan_LinearOperator lin_witness)) = ["adjoint"%string] /\
  map (duals_table (fun p => inject_Z (Z.of_nat p + 7))) (g_tables (run_plan plan_LinearOperator lin_witness))
  = [[[7%Q]]].
Proof. repeat split; vm_compute; reflexivity. Qed.
