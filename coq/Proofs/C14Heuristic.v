(** C14, the cvxpy side of the dimension-reduction heuristic (Model.Cvxpy.prepare_heuristic /
    heuristic): the heuristic problem has the constraint list of the original problem plus the single row
    [objective >= wc - tol]; its feasible set is the original feasible set intersected with that
    half-space; every point of it satisfies every constraint of the declared model; for tol >= 0 the first
    optimum is feasible for it, so a minimiser of <W,G> over it does not exceed the first solution's <W,G>. *)
From Coq Require Import List QArith Reals Qreals Lra Lia Arith Bool.
From PV Require Import Model.Dict Model.Terms Model.Sent Model.Cvxpy Model.Cert
     Spec.GramSem Spec.KKT Proofs.C01Layout.
Import ListNotations.
Local Open Scope R_scope.

(** the problem object after prepare_heuristic + heuristic *)
Theorem heuristic_problem obj l wc tol W :
  let w := heuristic (prepare_heuristic (generate_problem obj l) wc tol) W in
  p_obj (w_prob w) = OMinW W
  /\ p_rows (w_prob w) = emit l ++ [RObjGe obj (wc - tol)]
  /\ length (p_rows (w_prob w)) = S (length (p_rows (w_prob (generate_problem obj l)))).
Proof.
  cbn. split; [reflexivity|]. split; [reflexivity|]. rewrite app_length. cbn. lia.
Qed.

(** further calls of heuristic (logdet iterations) only replace the objective *)
Theorem heuristic_again w W W' :
  p_rows (w_prob (heuristic (heuristic w W) W')) = p_rows (w_prob (heuristic w W))
  /\ w_rows (heuristic w W) = w_rows w.
Proof. split; reflexivity. Qed.

(** feasible set of the heuristic problem = feasible set of the original one, cut by objective >= wc - tol *)
Theorem feasible_subset np obj l wc tol W G F M :
  rows_feasible np (p_rows (w_prob (heuristic (prepare_heuristic (generate_problem obj l) wc tol) W))) G F M
  <-> (rows_feasible np (emit l) G F M /\ Q2R wc - Q2R tol <= evalGF G F obj).
Proof.
  cbn [heuristic prepare_heuristic generate_problem w_prob p_rows w_rows w_objective].
  unfold rows_feasible. rewrite Forall_app. split.
  - intros [Hs [H1 H2]]. inversion H2 as [|? ? Hr _]; subst. cbn [row_holds] in Hr.
    unfold Qminus in Hr. rewrite Q2R_plus, Q2R_opp in Hr. split; [split; assumption|lra].
  - intros [[Hs H1] H2]. split; [exact Hs|]. split; [exact H1|]. constructor; [|constructor].
    cbn [row_holds]. unfold Qminus. rewrite Q2R_plus, Q2R_opp. lra.
Qed.

(** a feasible point of the emitted problem satisfies every constraint of the declared model *)
Lemma Forall_app_inv {A} (P : A -> Prop) l1 l2 : Forall P (l1 ++ l2) -> Forall P l1 /\ Forall P l2.
Proof. apply Forall_app. Qed.

Lemma entry_rows_hold np G F M kk m :
  Forall (row_holds np G F M) (entry_rows kk m) ->
  forall i j, (i < nrows m)%nat -> (j < ncols m)%nat -> M kk i j = evalGF G F (entry m i j).
Proof.
  intros H i j Hi Hj. rewrite Forall_forall in H.
  apply (H (REnt kk i j (entry m i j))). unfold entry_rows.
  apply in_flat_map. exists i. split; [apply in_seq; lia|]. apply in_map_iff. exists j. split; [reflexivity|apply in_seq; lia].
Qed.

Lemma emitted_feasible_items np G F M l : forall kk,
  Forall square_item l ->
  Forall (row_holds np G F M) (emit_from kk l) -> Forall (item_holds G F) l.
Proof.
  induction l as [|[e s|m] l IH]; intros kk Hsq H; cbn [emit_from] in H; [constructor| |].
  - inversion H as [|? ? Hr H']; subst. inversion Hsq; subst. constructor; [|apply (IH kk); assumption].
    destruct s; cbn [scalar_row row_holds item_holds holdsGF fst snd] in *; exact Hr.
  - unfold lmi_rows in H. inversion H as [|? ? Hr H']; subst. apply Forall_app_inv in H' as [He Hrest].
    inversion Hsq as [|? ? Hm Hsq']; subst. cbn [square_item] in Hm.
    constructor; [|apply (IH (S kk)); assumption].
    cbn [item_holds row_holds] in *. destruct Hr as [Hsym Hqf].
    pose proof (entry_rows_hold np G F M kk m He) as Hent. split.
    + intros i j Hi Hj. unfold lmi_value. rewrite <- !Hent by lia. apply Hsym; assumption.
    + intro c. specialize (Hqf c).
      assert (Hsum : forall n0 (f g : nat -> R), (forall i, (i < n0)%nat -> f i = g i) -> sumn n0 f = sumn n0 g).
      { induction n0 as [|n0 IHn]; intros f g Hfg; cbn [sumn]; [reflexivity|].
        rewrite (IHn f g), Hfg by (intros; try apply Hfg; lia). reflexivity. }
      rewrite (Hsum _ _ (fun i => sumn (nrows m) (fun j => c i * M kk i j * c j))); [exact Hqf|].
      intros i Hi. apply Hsum. intros j Hj. unfold lmi_value. rewrite <- Hent by lia. reflexivity.
Qed.

Theorem emitted_feasible_is_feasible np l G F M :
  Forall square_item l -> rows_feasible np (emit l) G F M -> feasible np l G F.
Proof.
  intros Hsq [Hs H]. unfold emit in H. inversion H as [|? ? Hg H']; subst.
  split; [exact Hs|]. split; [exact Hg|]. apply (emitted_feasible_items np G F M l 0%nat Hsq H').
Qed.

(** * C14_feasible_subset *)
Theorem heuristic_instance_ok np obj l wc tol W G F M :
  Forall square_item l ->
  rows_feasible np (p_rows (w_prob (heuristic (prepare_heuristic (generate_problem obj l) wc tol) W))) G F M ->
  feasible np l G F /\ Q2R wc - Q2R tol <= evalGF G F obj.
Proof.
  intros Hsq H. apply feasible_subset in H as [H1 H2]. split; [|exact H2].
  apply (emitted_feasible_is_feasible np l G F M Hsq H1).
Qed.

(** * C14_trace (conditional on solver optimality of the second solve: explicit hypothesis) *)
Definition hvalue (W : list (list Q)) (G : nat -> nat -> R) : R := mdot W G.

Theorem trace_not_increased np obj l wc tol W G1 F1 M1 G2 F2 M2 :
  (0 <= tol)%Q ->
  (* the first solve returned a feasible point with objective value wc *)
  rows_feasible np (emit l) G1 F1 M1 -> evalGF G1 F1 obj = Q2R wc ->
  (* the second solve returned a feasible minimiser of <W,G> over the heuristic problem *)
  (let rows2 := p_rows (w_prob (heuristic (prepare_heuristic (generate_problem obj l) wc tol) W)) in
   rows_feasible np rows2 G2 F2 M2
   /\ forall G F M, rows_feasible np rows2 G F M -> hvalue W G2 <= hvalue W G) ->
  hvalue W G2 <= hvalue W G1.
Proof.
  intros Htol H1 Hobj [_ Hopt]. apply (Hopt G1 F1 M1). apply feasible_subset. split; [exact H1|].
  rewrite Hobj. apply Qle_Rle in Htol. rewrite RMicromega.Q2R_0 in Htol. lra.
Qed.

(** <I, G> is the trace *)
Definition idmat (n : nat) : list (list Q) :=
  map (fun i => map (fun j => if Nat.eqb i j then 1%Q else 0%Q) (seq 0 n)) (seq 0 n).

Example trace_identity_3 G : hvalue (idmat 3) G = G 0%nat 0%nat + G 1%nat 1%nat + G 2%nat 2%nat.
Proof.
  unfold hvalue, idmat, mdot. cbn [seq map Nat.eqb mdot_from rdot].
  unfold Q2R. cbn [Qnum Qden]. rewrite Rinv_1. lra.
Qed.
