(** C09, the remaining primitive steps: epsilon_subgradient_step, bregman_gradient_step, bregman_proximal_step.

    Model/Method.v records what the three steps allocate and add ([MEpsSub], [MBregGrad], [MBregProx]);
    Spec/World.v SPECIFIES the real operations ([epssub_spec], [mirror_genuine], [bprox_genuine]);
    Proofs/MethodLemmas.v proves for every program that the recorded samples are genuine and the recorded
    constraints hold at the values of the run.  Here:
    - [with_steps]: any world can be given an epsilon-subgradient oracle, mirror maps and Bregman proximal
      operators that meet the specifications (everything else is kept), so the composition with C03 is available
      for programs with the new steps ([run_satisfies_convex_any], [run_satisfies_smooth_strongly_convex_any]:
      any world, any function index whose genuine samples are those of a real member);
    - where the specifications come from (C08's theorems about the real steps, Proofs/C08Real.v):
      [epssub_step_real] (the recorded values make g0 an eps-subgradient at x0, first principles),
      [is_epssub_spec], [is_mirror_spec], [is_bprox_spec];
    - what the recorded objects mean ([epssub_constraint_meaning], [breg_dual_meaning]);
    - a worked example on f = h = x^2. *)
From Coq Require Import List QArith Reals Qreals Lra Arith Bool String Lia.
From PV Require Import Base.IPS Model.Dict Model.Terms Model.Method Model.MethodDump Model.ClassGen
  Spec.Sem Spec.World Spec.Classes Proofs.DictLemmas Proofs.SemLemmas Proofs.MethodLemmas Proofs.C04Lemmas
  Proofs.C03Core Proofs.C03Assembly Proofs.C09Compose Proofs.C09ComposeAll Proofs.C09Prox.
From PV Require Spec.StepsSpec Proofs.C08Lemmas Proofs.C08Records Proofs.C08Real.
From PV Require Import Gen.Classes.
Import ListNotations.
Local Open Scope R_scope.

Section Steps.
  Context {E : ips}.
  Variable W : @world E.

  (** the three specifications of Spec/World.v, as predicates on candidate operations of the world W *)
  Definition epssub_ok (es : nat -> E -> (E * R) * (E * R)) : Prop :=
    forall f x0,
      Gen W f (fst (snd (es f x0)), fst (fst (es f x0)), snd (snd (es f x0))) /\
      snd (orc W f x0) + (inner (fst (fst (es f x0))) (fst (snd (es f x0))) - snd (snd (es f x0)))
        - inner (fst (fst (es f x0))) x0 <= snd (fst (es f x0)).
  Definition mirror_ok (hm : nat -> bool) (mir : nat -> E -> E * R) : Prop :=
    forall h s, hm h = true -> Gen W h (fst (mir h s), s, snd (mir h s)).
  Definition bprox_ok (hb : nat -> nat -> bool) (bp : nat -> nat -> R -> E -> (E * E) * (R * R)) : Prop :=
    forall h f gamma s0, hb h f = true -> 0 < gamma ->
      Gen W f (fst (fst (bp h f gamma s0)), snd (fst (bp h f gamma s0)), fst (snd (bp h f gamma s0))) /\
      Gen W h (fst (fst (bp h f gamma s0)), vsub s0 (vscal gamma (snd (fst (bp h f gamma s0)))), snd (snd (bp h f gamma s0))).

  (** the world W with these operations (oracles, genuineness, stationary points, proximal operators, linear
      minimisation oracles, inexact oracles, line searches: unchanged) *)
  Definition iprox_ok (ip : nat -> ipopt -> R -> E -> ((E * E * R) * (E * E * R)) * R) : Prop :=
    forall f opt gamma x0, 0 < gamma ->
      let r := ip f opt gamma x0 in
      let w := fst (fst (fst (fst r))) in let v := snd (fst (fst (fst r))) in let fw := snd (fst (fst r)) in
      let x := fst (fst (snd (fst r))) in let gx := snd (fst (snd (fst r))) in let fx := snd (snd (fst r)) in
      Gen W f (x, gx, fx) /\
      match opt with
      | PDgapI => Gen W f (w, v, fw) /\
                  nrm2 (vadd (vsub x x0) (vscal gamma v)) / 2 + gamma * (fx - fw - inner v (vsub x w)) <= snd r
      | PDgapII => nrm2 (vadd (vsub x x0) (vscal gamma gx)) / 2 <= snd r
      | PDgapIII => Gen W f (w, vscal (1 / gamma) (vsub x0 x), fw) /\
                    gamma * (fx - fw - inner (vscal (1 / gamma) (vsub x0 x)) (vsub x w)) <= snd r
      end.

  Definition with_steps es (Hes : epssub_ok es) hm mir (Hm : mirror_ok hm mir) hb bp (Hb : bprox_ok hb bp)
      ip (Hip : iprox_ok ip) : @world E :=
    mkW (orc W) (Gen W) (stat W) (orc_genuine W) (stat_genuine W) (Gen_veq W) (Gen_xveq W)
        (has_prox W) (prox W) (proxval W) (prox_genuine W) (has_lmo W) (lmo W) (lmo_genuine W)
        (inexact W) (inexact_bound W) (has_ls W) (linesearch W) (ls_orth W)
        es Hes hm mir Hm hb bp Hb ip Hip.

  (** the operations of W itself meet the specifications (they are record fields of W) *)
  Lemma world_epssub_ok : epssub_ok (epssub W).
  Proof. intros f x0. exact (epssub_spec W f x0). Qed.
  Lemma world_mirror_ok : mirror_ok (has_mirror W) (mirror W).
  Proof. intros h s. exact (mirror_genuine W h s). Qed.
  Lemma world_bprox_ok : bprox_ok (has_bprox W) (bprox W).
  Proof. intros h f gamma s0. exact (bprox_genuine W h f gamma s0). Qed.
  Lemma world_iprox_ok : iprox_ok (iprox W).
  Proof. intros f opt gamma x0. exact (iprox_spec W f opt gamma x0). Qed.

  (** ** composition with C03 for ANY world: a function index whose genuine samples are those of a real convex
      function / a real mu-strongly convex L-smooth function *)
  Theorem run_satisfies_convex_any (F : @fn E) (f : nat) ops vs :
    (forall t, Gen W f t -> genuine_sub F t) ->
    mwf ops minit = true -> Forall op_nodup ops -> steps_ok W ops = true ->
    all_satisfied (fst (wrun W ops minit vs)) (snd (wrun W ops minit vs))
      (run_plan plan_ConvexFunction (fstate_of (fun _ => 0%Q) (mrun ops minit) f)).
  Proof.
    intros HG Hwf Hnd Hpx.
    destruct (run_state_genuine W (fun _ => 0%Q) ops vs f Hwf Hpx Hnd) as [Hst Hgen].
    apply (c03_ConvexFunction _ _ F); [exact Hst|]. intros sm Hsm. apply HG. exact (Hgen sm Hsm).
  Qed.

  Theorem run_satisfies_smooth_strongly_convex_any (mu L : R) (qmu qL : Q) (F : @dfn E) (f : nat) ops vs :
    (forall t, Gen W f t -> genuine_grad F t) ->
    0 <= mu < L -> smooth_strongly_convex_member mu L F -> Q2R qL = L -> Q2R qmu = mu ->
    mwf ops minit = true -> Forall op_nodup ops -> steps_ok W ops = true ->
    let par := fun p => match p with 0%nat => qL | 1%nat => qmu | _ => 0%Q end in
    all_satisfied (fst (wrun W ops minit vs)) (snd (wrun W ops minit vs))
      (run_plan plan_SmoothStronglyConvexFunction (fstate_of par (mrun ops minit) f)).
  Proof.
    intros HG Hr HF HL Hmu Hwf Hnd Hpx par.
    destruct (run_state_genuine W par ops vs f Hwf Hpx Hnd) as [Hst Hgen].
    apply (c03_SmoothStronglyConvexFunction _ _ mu L F); try assumption.
    intros sm Hsm. apply HG. exact (Hgen sm Hsm).
  Qed.

  (** ** epsilon_subgradient_step: the values the run gives the leaves make g0 an eps-subgradient at x0, in the
      first-principles sense of Spec/StepsSpec.v (for all z: F z >= F x0 + <g0, z - x0> - eps), whenever the genuine
      samples of the function are subgradient samples of F (C08's theorem eps_subgrad_from_record) *)
  Theorem epssub_step_real (F : @fn E) (f : nat) (p : pdict) (s : mstate) (vs : (nat -> E) * (nat -> R)) :
    (forall t, Gen W f t -> genuine_sub F t) -> dom F (evalP (fst vs) p) ->
    let vs' := wstep W vs s (MEpsSub f p) in
    StepsSpec.eps_subgrad F (snd vs' (S (m_ne s))) (evalP (fst vs) p) (fst vs' (m_np s)).
  Proof.
    intros HG Hd. cbn [wstep fst snd]. set (x0 := evalP (fst vs) p).
    rewrite !(upd_other _ (S (S (m_np s)))) by lia. rewrite !(upd_other _ (S (m_np s)) _ (m_np s)) by lia.
    rewrite !(upd_other _ (S (S (m_ne s)))) by lia. rewrite !upd_same.
    destruct (epssub_spec W f x0) as [Hy Hc].
    apply HG in Hy. destruct Hy as [Hsub Hfy].
    pose proof (HG _ (orc_genuine W f x0)) as [_ Hf0].
    apply (C08Real.eps_subgrad_from_record F _ x0 (fst (snd (epssub W f x0)))); [exact Hd|exact Hsub|].
    rewrite <- Hfy, <- Hf0. exact Hc.
  Qed.

  (** ** inexact_proximal_step: the criterion the world's approximate proximal operator is specified to meet is the
      primal-dual gap of the proximal problem of Spec/StepsSpec.v ([pd_gap], as in the step's docstring) with the dual
      point of the option: (v, w, fw) for 'PD_gapI', (gx, x, fx) for 'PD_gapII', ((x0 - x) / gamma, w, fw) for
      'PD_gapIII' (C08's identity pd_gap_identity) *)
  Theorem iprox_spec_is_pd_gap (f : nat) (opt : ipopt) (gamma : R) (x0 : E) :
    0 < gamma ->
    let r := iprox W f opt gamma x0 in
    let w := fst (fst (fst (fst r))) in let v := snd (fst (fst (fst r))) in let fw := snd (fst (fst r)) in
    let x := fst (fst (snd (fst r))) in let gx := snd (fst (snd (fst r))) in let fx := snd (snd (fst r)) in
    match opt with
    | PDgapI => StepsSpec.pd_gap gamma x0 x fx v w fw
    | PDgapII => StepsSpec.pd_gap gamma x0 x fx gx x fx
    | PDgapIII => StepsSpec.pd_gap gamma x0 x fx (vscal (1 / gamma) (vsub x0 x)) w fw
    end <= snd r.
  Proof.
    intros Hg. pose proof (iprox_spec W f opt gamma x0 Hg) as Hsp. cbn zeta in *.
    destruct opt; rewrite C08Records.pd_gap_identity; destruct Hsp as [_ Hsp].
    - destruct Hsp as [_ Hc]. lra.
    - rewrite inner_sub_r. lra.
    - destruct Hsp as [_ Hc].
      set (x := fst (fst (snd (fst (iprox W f PDgapIII gamma x0))))) in *.
      assert (Hz : nrm2 (vadd (vsub x x0) (vscal gamma (vscal (1 / gamma) (vsub x0 x)))) = 0).
      { C08Lemmas.bilin. C08Lemmas.orient [x0; x]. field. lra. }
      rewrite Hz. lra.
  Qed.
End Steps.

(** ** where the specifications come from, for a world made of a convex function F (selection [sel]) *)
Section FromC08.
  Context {E : ips}.

  (** an epsilon-subgradient oracle of F: [g x0] is an eps-subgradient at x0 for eps = [ep x0], and the conjugate
      of F at it is attained at [y x0] (C08's theorem eps_subgrad_to_record) *)
  Theorem is_epssub_spec (F : @fn E) (sel : E -> E) (g : E -> E) (ep : E -> R) (y : E -> E) :
    (forall x0, StepsSpec.eps_subgrad F (ep x0) x0 (g x0)) -> (forall x0, subgrad F (y x0) (g x0)) ->
    forall x0 : E,
      genuine_sub F (y x0, g x0, val F (y x0)) /\
      snd (sel x0, val F x0) + (inner (g x0) (y x0) - val F (y x0)) - inner (g x0) x0 <= ep x0.
  Proof.
    intros He Hs x0. split; [split; [apply Hs|reflexivity]|]. cbn [snd].
    exact (C08Real.eps_subgrad_to_record F (ep x0) x0 (y x0) (g x0) (He x0) (Hs x0)).
  Qed.

  (** the two ways of writing the Bregman gradient step: minimising gamma <g0, .> + h - <s0, .> is minimising
      h - <s0 - gamma g0, .> *)
  Lemma bregman_gradient_dual (H : @dfn E) gamma (g0 s0 x : E) :
    StepsSpec.is_bregman_gradient H gamma g0 s0 x <->
    StepsSpec.is_bregman_gradient H 1 vzero (vsub s0 (vscal gamma g0)) x.
  Proof.
    unfold StepsSpec.is_bregman_gradient.
    split; intros Hm y; specialize (Hm y);
      rewrite ?inner_sub_l, ?inner_scal_l, ?inner_zero_l in *; lra.
  Qed.

  (** a mirror map inverse: [mir s] minimises h - <s, .> (the Bregman gradient step with dual point s); for a
      Gateaux-differentiable h the gradient there is s (C08's theorem bregman_gradient_optimality) *)
  Theorem is_mirror_spec (H : @dfn E) (mir : E -> E) :
    StepsSpec.gateaux H -> (forall s, StepsSpec.is_bregman_gradient H 1 vzero s (mir s)) ->
    forall s, genuine_grad H (mir s, s, dval H (mir s)).
  Proof.
    intros HG Hm s. split; [|reflexivity].
    pose proof (C08Real.bregman_gradient_optimality H 1 vzero s (mir s) HG (Hm s)) as Hv.
    intros w. rewrite (Hv w). rewrite inner_sub_l, inner_scal_l, inner_zero_l. lra.
  Qed.

  (** a Bregman proximal operator: [bp gamma s0] minimises gamma F + h - <s0, .>; for convex F and Gateaux-
      differentiable h, gx = (s0 - grad h(x)) / gamma is a subgradient of F there (C08's theorem
      bregman_prox_optimality), and s0 - gamma gx is the gradient of h there *)
  Theorem is_bprox_spec (F : @fn E) (H : @dfn E) (bp : R -> E -> E) :
    StepsSpec.convex_fn F -> StepsSpec.gateaux H ->
    (forall gamma s0, 0 < gamma -> StepsSpec.is_bregman_prox F H gamma s0 (bp gamma s0)) ->
    forall gamma s0, 0 < gamma ->
      let x := bp gamma s0 in let gx := vscal (1 / gamma) (vsub s0 (dgrad H x)) in
      genuine_sub F (x, gx, val F x) /\ genuine_grad H (x, vsub s0 (vscal gamma gx), dval H x).
  Proof.
    intros Hc HG Hb gamma s0 Hg x gx. split.
    - split; [|reflexivity]. exact (C08Real.bregman_prox_optimality F H gamma s0 x Hc HG Hg (Hb gamma s0 Hg)).
    - split; [|reflexivity]. intros w. unfold gx.
      rewrite !inner_sub_l, !inner_scal_l, !inner_sub_l. field. lra.
  Qed.
End FromC08.

(** ** what the recorded objects mean under any valuation *)
Theorem epssub_constraint_meaning {E : ips} (rho : nat -> E) (phi : nat -> R) n e (p : pdict) :
  NoDupKeys nat p ->
  (holds rho phi (epssub_cons n e p) <->
   phi e + (inner (rho n) (rho (S (S n))) - phi (S (S e))) - inner (rho n) (evalP rho p) <= phi (S e)).
Proof. exact (epssub_cons_holds rho phi n e p). Qed.

Theorem breg_dual_meaning {E : ips} (rho : nat -> E) (sx0 g : pdict) gamma :
  NoDupKeys nat sx0 -> NoDupKeys nat g ->
  veq (evalP rho (breg_dual sx0 g gamma)) (vsub (evalP rho sx0) (vscal (Q2R gamma) (evalP rho g))).
Proof. exact (breg_dual_value rho sx0 g gamma). Qed.

Theorem iprox_constraint_meaning {E : ips} opt (rho : nat -> E) (phi : nat -> R) n e (x0 : pdict) gamma :
  NoDupKeys nat x0 -> 0 < Q2R gamma ->
  (holds rho phi (ip_cons opt n e x0 gamma) <-> ip_meaning opt rho phi n e x0 gamma).
Proof. exact (ip_cons_holds opt rho phi n e x0 gamma). Qed.

Theorem iprox_constraint_meaning_cases {E : ips} opt (rho : nat -> E) (phi : nat -> R) n e (x0 : pdict) gamma :
  NoDupKeys nat x0 -> 0 < Q2R gamma ->
  (holds rho phi (ip_cons opt n e x0 gamma) <->
   match opt with
   | PDgapI =>
       nrm2 (vadd (vsub (rho (S (S n))) (evalP rho x0)) (vscal (Q2R gamma) (rho n))) / 2
       + Q2R gamma * (phi (S e) - phi e - inner (rho n) (vsub (rho (S (S n))) (rho (S n)))) <= phi (S (S e))
   | PDgapII => nrm2 (rho n) / 2 <= phi (S e)
   | PDgapIII =>
       Q2R gamma * (phi (S e) - phi e
                    - inner (vscal (1 / Q2R gamma) (vsub (evalP rho x0) (rho n))) (vsub (rho n) (rho (S (S n)))))
       <= phi (S (S e))
   end).
Proof. destruct opt; exact (ip_cons_holds _ rho phi n e x0 gamma). Qed.

(** what the steps record, for every state: counters, samples, constraints *)
Theorem inexact_prox_records (s : mstate) f x0 gamma :
  mstep s (MInexactProx f x0 gamma PDgapI) =
    mkM (4 + m_np s) (3 + m_ne s)
        (m_samples s ++ [(f, ([(S (m_np s), 1%Q)], [(m_np s, 1%Q)], [(KF (m_ne s), 1%Q)]));
                         (f, ([(S (S (m_np s)), 1%Q)], [(S (S (S (m_np s))), 1%Q)], [(KF (S (m_ne s)), 1%Q)]))])
        (m_cons s ++ [(f, ip_cons PDgapI (m_np s) (m_ne s) x0 gamma)]) /\
  mstep s (MInexactProx f x0 gamma PDgapII) =
    mkM (2 + m_np s) (2 + m_ne s)
        (m_samples s ++ [(f, (ip2_point (m_np s) x0 gamma, [(S (m_np s), 1%Q)], [(KF (m_ne s), 1%Q)]))])
        (m_cons s ++ [(f, ip_cons PDgapII (m_np s) (m_ne s) x0 gamma)]) /\
  mstep s (MInexactProx f x0 gamma PDgapIII) =
    mkM (3 + m_np s) (3 + m_ne s)
        (m_samples s ++ [(f, ([(m_np s, 1%Q)], [(S (m_np s), 1%Q)], [(KF (S (m_ne s)), 1%Q)]));
                         (f, ([(S (S (m_np s)), 1%Q)], ip3_grad (m_np s) x0 gamma, [(KF (m_ne s), 1%Q)]))])
        (m_cons s ++ [(f, ip_cons PDgapIII (m_np s) (m_ne s) x0 gamma)]).
Proof. repeat split. Qed.

Theorem new_steps_record (s : mstate) :
  (forall f p, mstep s (MEpsSub f p) =
     mkM (3 + m_np s) (3 + m_ne s)
         (m_samples s ++ [(f, (p, [(S (m_np s), 1%Q)], [(KF (m_ne s), 1%Q)]));
                          (f, ([(S (S (m_np s)), 1%Q)], [(m_np s, 1%Q)], [(KF (S (S (m_ne s))), 1%Q)]))])
         (m_cons s ++ [(f, epssub_cons (m_np s) (m_ne s) p)])) /\
  (forall h gx0 sx0 gamma, mstep s (MBregGrad h gx0 sx0 gamma) =
     mkM (1 + m_np s) (1 + m_ne s)
         (m_samples s ++ [(h, ([(m_np s, 1%Q)], breg_dual sx0 gx0 gamma, [(KF (m_ne s), 1%Q)]))]) (m_cons s)) /\
  (forall h f sx0 gamma, mstep s (MBregProx h f sx0 gamma) =
     mkM (2 + m_np s) (2 + m_ne s)
         (m_samples s ++ [(f, ([(m_np s, 1%Q)], [(S (m_np s), 1%Q)], [(KF (m_ne s), 1%Q)]));
                          (h, ([(m_np s, 1%Q)], breg_dual sx0 [(S (m_np s), 1%Q)] gamma, [(KF (S (m_ne s)), 1%Q)]))])
         (m_cons s)).
Proof. repeat split. Qed.

(** ** Example: f = h = x^2 on the real line.
    - epsilon-subgradient oracle: g0 = 2 x0 + 1, attained at y = x0 + 1/2, eps = (y - x0)^2 = 1/4;
    - mirror map inverse: grad h(x) = s at x = s / 2;
    - Bregman proximal operator: 2 x = s0 - gamma 2 x, i.e. x = s0 / (2 (1 + gamma)), gx = 2 x. *)
Definition sq_es : nat -> R1 -> (R1 * R) * (R1 * R) :=
  fun _ (x0 : R) => ((2 * x0 + 1, 1 / 4), (x0 + 1 / 2, (x0 + 1 / 2) * (x0 + 1 / 2))).
Definition sq_mir : nat -> R1 -> R1 * R := fun _ (s : R) => (s / 2, (s / 2) * (s / 2)).
Definition sq_bp : nat -> nat -> R -> R1 -> (R1 * R1) * (R * R) :=
  fun _ _ gamma (s0 : R) =>
    let x := s0 / (2 * (1 + gamma)) in ((x, 2 * x), (x * x, x * x)).

Lemma sq_genuine (x g : R1) (v : R) : g = 2 * x -> v = x * x -> genuine_sub sq_F (x, g, v).
Proof. intros -> ->. split; [exact (sq_subgrad x)|reflexivity]. Qed.

Lemma sq_es_ok : epssub_ok sq_world sq_es.
Proof.
  intros f x0. change R in x0. split.
  - apply sq_genuine; cbn; lra.
  - cbn. unfold sq_F. cbn. nra.
Qed.
Lemma sq_mir_ok : mirror_ok sq_world (fun _ => true) sq_mir.
Proof. intros h s _. change R in s. apply sq_genuine; cbn; lra. Qed.
Lemma sq_bp_ok : bprox_ok sq_world (fun _ _ => true) sq_bp.
Proof.
  intros h f gamma s0 _ Hg. change R in s0. split; apply sq_genuine; cbn; unfold vsub, vneg; cbn; try lra.
  field. lra.
Qed.

(** approximate proximal operator: the exact one, x = x0 / (1 + 2 gamma), with v = gx = 2 x, w = x and accuracy 0 *)
Definition sq_ip : nat -> ipopt -> R -> R1 -> ((R1 * R1 * R) * (R1 * R1 * R)) * R :=
  fun _ _ gamma (x0 : R) => let x := x0 / (1 + 2 * gamma) in (((x, 2 * x, x * x), (x, 2 * x, x * x)), 0).
Lemma sq_ip_ok : iprox_ok sq_world sq_ip.
Proof.
  intros f opt gamma x0 Hg. change R in x0. cbn zeta. cbn [sq_ip fst snd].
  split; [apply sq_genuine; reflexivity|]. destruct opt.
  - split; [apply sq_genuine; reflexivity|]. apply Req_le. unfold nrm2, vadd, vsub, vneg. cbn. field. lra.
  - apply Req_le. unfold nrm2, vadd, vsub, vneg. cbn. field. lra.
  - split; [apply sq_genuine; [|reflexivity]|apply Req_le]; unfold nrm2, vadd, vsub, vneg; cbn; field; lra.
Qed.

Definition sq_steps_world : @world R1 :=
  with_steps sq_world sq_es sq_es_ok (fun _ => true) sq_mir sq_mir_ok (fun _ _ => true) sq_bp sq_bp_ok sq_ip sq_ip_ok.

(** x0 = Point(); s0 = Point(); epsilon_subgradient_step(x0, f, gamma);                    leaves 2, 3, 4
    x1, s1, h1 = bregman_gradient_step(g0, s0, f, 1/2)  (g0 = leaf 2, the eps-subgradient);   leaf 5
    x2, s2, h2, g2, f2 = bregman_proximal_step(s1, f, f, 1)  (s1 = s0 - 1/2 g0);             leaves 6, 7 *)
Definition steps_program : list mop :=
  [MFresh; MFresh; MEpsSub 0 [(0%nat, 1%Q)];
   MBregGrad 0 [(2%nat, 1%Q)] [(1%nat, 1%Q)] (1 # 2)%Q;
   MBregProx 0 0 [(1%nat, 1%Q); (2%nat, (-1 # 2)%Q)] 1%Q].

Example new_steps_example (vs : (nat -> R1) * (nat -> R)) :
  mwf steps_program minit = true /\ steps_ok sq_steps_world steps_program = true /\
  Forall op_nodup steps_program /\ forallb linopt_dir_nonzero steps_program = true /\
  m_np (mrun steps_program minit) = 8%nat /\ m_ne (mrun steps_program minit) = 6%nat /\
  List.length (m_samples (mrun steps_program minit)) = 5%nat /\
  (* the eps-subgradient leaf, the accuracy leaf, the mirror point and the Bregman proximal point, in terms of the
     starting point x0 = fst vs 0 and the dual point s0 = fst vs 1 *)
  fst (wrun sq_steps_world steps_program minit vs) 2%nat = 2 * (Q2R 1 * fst vs 0%nat + 0) + 1 /\
  snd (wrun sq_steps_world steps_program minit vs) 1%nat = 1 / 4 /\
  (* one constraint was added to the function, and it holds at the values of the run *)
  (exists c, m_cons (mrun steps_program minit) = [(0%nat, c)] /\
             holds (fst (wrun sq_steps_world steps_program minit vs)) (snd (wrun sq_steps_world steps_program minit vs)) c) /\
  (* every interpolation constraint of the convex class on the five recorded samples holds at the values of the run *)
  List.length (g_cons (run_plan plan_ConvexFunction (fstate_of (fun _ => 0%Q) (mrun steps_program minit) 0))) = 20%nat /\
  all_satisfied (fst (wrun sq_steps_world steps_program minit vs)) (snd (wrun sq_steps_world steps_program minit vs))
    (run_plan plan_ConvexFunction (fstate_of (fun _ => 0%Q) (mrun steps_program minit) 0)).
Proof.
  assert (Hwf : mwf steps_program minit = true) by (vm_compute; reflexivity).
  assert (Hpx : steps_ok sq_steps_world steps_program = true) by reflexivity.
  assert (Hnd : Forall op_nodup steps_program).
  { repeat constructor; cbn; try tauto; intros [H|[]]; discriminate. }
  split; [exact Hwf|]. split; [exact Hpx|]. split; [exact Hnd|]. split; [vm_compute; reflexivity|].
  split; [vm_compute; reflexivity|]. split; [vm_compute; reflexivity|]. split; [vm_compute; reflexivity|].
  split; [reflexivity|]. split; [reflexivity|]. split.
  - eexists. split; [reflexivity|].
    apply (world_constraints_hold sq_steps_world steps_program vs 0%nat); [exact Hwf|exact Hpx|left; reflexivity].
  - split; [vm_compute; reflexivity|].
    apply (run_satisfies_convex_any sq_steps_world sq_F 0 steps_program vs); [|exact Hwf|exact Hnd|exact Hpx].
    intros t Ht. exact Ht.
Qed.

(** x0 = Point(); inexact_proximal_step(x0, f, 1/2, 'PD_gapI'); inexact_proximal_step(x0, f, 1, 'PD_gapII');
    inexact_proximal_step(x0, f, 2, 'PD_gapIII') *)
Definition inexact_prox_program : list mop :=
  [MFresh; MInexactProx 0 [(0%nat, 1%Q)] (1 # 2)%Q PDgapI; MInexactProx 0 [(0%nat, 1%Q)] 1%Q PDgapII;
   MInexactProx 0 [(0%nat, 1%Q)] 2%Q PDgapIII].

Example inexact_prox_example (vs : (nat -> R1) * (nat -> R)) :
  mwf inexact_prox_program minit = true /\ steps_ok sq_steps_world inexact_prox_program = true /\
  Forall op_nodup inexact_prox_program /\ forallb linopt_dir_nonzero inexact_prox_program = true /\
  m_np (mrun inexact_prox_program minit) = 10%nat /\ m_ne (mrun inexact_prox_program minit) = 8%nat /\
  List.length (m_samples (mrun inexact_prox_program minit)) = 5%nat /\
  List.length (m_cons (mrun inexact_prox_program minit)) = 3%nat /\
  (* the approximate proximal point of the first step (leaf 3) and its accuracy (value leaf 2) *)
  fst (wrun sq_steps_world inexact_prox_program minit vs) 3%nat = (Q2R 1 * fst vs 0%nat + 0) / (1 + 2 * Q2R (1 # 2)) /\
  snd (wrun sq_steps_world inexact_prox_program minit vs) 2%nat = 0 /\
  (forall f c, In (f, c) (m_cons (mrun inexact_prox_program minit)) ->
     holds (fst (wrun sq_steps_world inexact_prox_program minit vs)) (snd (wrun sq_steps_world inexact_prox_program minit vs)) c) /\
  all_satisfied (fst (wrun sq_steps_world inexact_prox_program minit vs)) (snd (wrun sq_steps_world inexact_prox_program minit vs))
    (run_plan plan_ConvexFunction (fstate_of (fun _ => 0%Q) (mrun inexact_prox_program minit) 0)).
Proof.
  assert (Hwf : mwf inexact_prox_program minit = true) by (vm_compute; reflexivity).
  assert (Hpx : steps_ok sq_steps_world inexact_prox_program = true) by reflexivity.
  assert (Hnd : Forall op_nodup inexact_prox_program).
  { repeat constructor; cbn; try tauto; intros [H|[]]; discriminate. }
  split; [exact Hwf|]. split; [exact Hpx|]. split; [exact Hnd|]. split; [vm_compute; reflexivity|].
  split; [vm_compute; reflexivity|]. split; [vm_compute; reflexivity|]. split; [vm_compute; reflexivity|].
  split; [vm_compute; reflexivity|]. split; [reflexivity|]. split; [reflexivity|]. split.
  - intros f c Hin. exact (world_constraints_hold sq_steps_world inexact_prox_program vs f c Hwf Hpx Hin).
  - apply (run_satisfies_convex_any sq_steps_world sq_F 0 inexact_prox_program vs); [|exact Hwf|exact Hnd|exact Hpx].
    intros t Ht. exact Ht.
Qed.
