(** C15 — the property theorems in their final form (Props/C15.v only restates them). *)
From Coq Require Import List QArith Reals Qreals Lra Bool Arith Lia.
From PV Require Import Base.IPS Model.Dict Model.Terms Model.Blocks Spec.Sem
                       Proofs.DictLemmas Proofs.SemLemmas Proofs.C15Model Proofs.C15Sem Proofs.C15Real.
Import ListNotations.
Local Open Scope R_scope.

(** ** Sum-back, per call: holds in EVERY state (no invariant needed), and the blocks stay for ever. *)
Theorem sum_back_call (E : ips) (rho : nat -> E) st obj pd k :
  (1 <= bp_d st)%nat -> pND pd -> find_blocks obj (bp_blocks st) = None ->
  exists bl,
    find_blocks obj (bp_blocks (snd (get_block st obj pd k))) = Some bl
    /\ length bl = bp_d st
    /\ fst (get_block st obj pd k) = nth k bl []
    /\ veq (sumP rho bl) (evalP rho pd)
    /\ forall ops, find_blocks obj (bp_blocks (run (snd (get_block st obj pd k)) ops)) = Some bl.
Proof.
  intros Hd Hnd Hf. exists (dblocks (bp_d st) (bp_next st) pd).
  rewrite (get_block_new _ _ _ _ Hf). cbn [fst snd bp_blocks].
  assert (H : find_blocks obj (bp_blocks st ++ [(obj, dblocks (bp_d st) (bp_next st) pd)])
              = Some (dblocks (bp_d st) (bp_next st) pd)).
  { rewrite find_blocks_app_None by exact Hf. cbn. rewrite Nat.eqb_refl. reflexivity. }
  split; [exact H|]. split; [apply length_dblocks, Hd|]. split; [reflexivity|].
  split; [apply sum_back_dblocks, Hnd|]. intros ops. apply run_stable. exact H.
Qed.

(** ** Sum-back, per history: after every admissible history, the state is exactly the list of the
    recorded decompositions and each of them sums back to the dictionary the object had. *)
Theorem sum_back_history (E : ips) (rho : nat -> E) d n0 ops :
  (1 <= d)%nat -> ok (init_partition d n0) ops ->
  let st := fst (trace (init_partition d n0) [] ops) in
  let g := snd (trace (init_partition d n0) [] ops) in
  st = run (init_partition d n0) ops
  /\ bp_blocks st = map (fun e => (e_obj e, blocks_of d e)) g
  /\ forall e, In e g ->
       find_blocks (e_obj e) (bp_blocks st) = Some (blocks_of d e)
       /\ length (blocks_of d e) = d
       /\ veq (sumP rho (blocks_of d e)) (evalP rho (e_pd e)).
Proof.
  intros Hd Hok st g. pose proof (trace_Inv d n0 ops Hok) as I. fold st g in I.
  split; [apply trace_run|]. split; [apply (inv_blocks _ _ _ I)|]. intros e He.
  split; [apply (Inv_find _ _ _ _ I He)|]. split; [apply length_dblocks, Hd|].
  apply sum_back_dblocks, (inv_pd _ _ _ I e He).
Qed.

(** ** Freshness invariant *)
Lemma NoDup_map_inj {A B} (f : A -> B) l a b :
  NoDup (map f l) -> In a l -> In b l -> f a = f b -> a = b.
Proof.
  induction l as [|x l IH]; cbn; [tauto|]. intros H Ha Hb Hab. inversion H as [|? ? Hn H']; subst.
  destruct Ha as [<-|Ha], Hb as [<-|Hb]; auto.
  - exfalso. apply Hn. rewrite Hab. apply in_map, Hb.
  - exfalso. apply Hn. rewrite <- Hab. apply in_map, Ha.
Qed.

Theorem fresh_history d n0 ops :
  ok (init_partition d n0) ops ->
  let st := fst (trace (init_partition d n0) [] ops) in
  let g := snd (trace (init_partition d n0) [] ops) in
  (forall e, In e g ->
     blocks_of d e = map leaf_dict (leaves_of d e) ++ [p_sub (e_pd e) (acc_of (e_n e) (d - 1))]
     /\ (forall x, In x (leaves_of d e) -> ~ In x (keys (e_pd e)) /\ (x < bp_next st)%nat)
     /\ (forall b x, In b (blocks_of d e) -> In x (keys b) -> (x < bp_next st)%nat))
  /\ (forall e1 e2 x, In e1 g -> In e2 g -> In x (leaves_of d e1) -> In x (leaves_of d e2) -> e1 = e2)
  /\ (forall e1 e2, In e1 g -> In e2 g -> e_obj e1 = e_obj e2 -> e1 = e2).
Proof.
  intros Hok st g. pose proof (trace_Inv d n0 ops Hok) as I. fold st g in I. split; [|split].
  - intros e He. split; [reflexivity|]. split.
    + intros x Hx. split; [apply (Inv_fresh _ _ _ _ _ I He Hx)|].
      destruct (inv_pd _ _ _ I e He) as (_ & _ & C). apply in_seq in Hx. lia.
    + intros b x Hb Hx. apply (Inv_keys_lt _ _ _ _ _ _ I He Hb Hx).
  - intros e1 e2 x. apply (Inv_disjoint _ _ _ _ _ _ I).
  - intros e1 e2 H1 H2. apply (NoDup_map_inj e_obj g); auto. apply (inv_nodup _ _ _ I).
Qed.

(** ** One block *)
Theorem one_block_identity (E : ips) (rho : nat -> E) st obj pd :
  bp_d st = 1%nat -> find_blocks obj (bp_blocks st) = None ->
  let b := fst (get_block st obj pd 0) in
  let st' := snd (get_block st obj pd 0) in
  b = prune pd /\ prune b = prune pd /\ veq (evalP rho b) (evalP rho pd)
  /\ bp_next st' = bp_next st
  /\ find_blocks obj (bp_blocks st') = Some [b]
  /\ partition_constraints st' = []
  /\ forall ops, partition_constraints (run st' ops) = [].
Proof.
  intros Hd Hf. cbv zeta. rewrite (one_block _ _ _ _ Hd Hf). cbn [fst snd nth bp_next bp_blocks].
  split; [reflexivity|]. split; [apply prune_idem|]. split; [apply evalP_prune|]. split; [reflexivity|].
  split; [rewrite find_blocks_app_None by exact Hf; cbn; rewrite Nat.eqb_refl; reflexivity|].
  split; [apply constraints_one; reflexivity|]. intros ops. apply constraints_one.
  assert (G : forall ops st0, bp_d (fold_left step ops st0) = bp_d st0).
  { induction ops0 as [|o ops0 IH]; intros st0; cbn [fold_left]; [reflexivity|]. rewrite IH. apply step_d. }
  unfold run. rewrite G. reflexivity.
Qed.

(** ** The constraint list: exact content and order (every state) *)
Theorem constraints_exact_list st :
  let m := length (bp_blocks st) in
  let d := bp_d st in
  partition_constraints st = map (cons_at st) (idx4 m d)
  /\ NoDup (idx4 m d)
  /\ (forall i j k l, In ((i, j), (k, l)) (idx4 m d) <-> (i < m /\ j < m /\ k < d /\ l < k)%nat)
  /\ (2 * length (partition_constraints st) = m * m * (d * (d - 1)))%nat
  /\ (forall a b, block_constraint a b = (prune (multiply a b), Equ)).
Proof.
  cbv zeta. split; [apply constraints_by_index|]. split; [apply NoDup_idx4|]. split; [apply In_idx4|].
  split; [rewrite constraints_by_index, map_length; apply length_idx4|apply block_constraint_shape].
Qed.

(** ** The constraint list: meaning (every history) *)
Theorem constraints_exact_meaning (E : ips) (rho : nat -> E) (phi : nat -> R) d n0 ops :
  ok (init_partition d n0) ops ->
  let st := fst (trace (init_partition d n0) [] ops) in
  let g := snd (trace (init_partition d n0) [] ops) in
  (* each constraint is one orthogonality relation between a block k and a block l < k *)
  (forall c, In c (partition_constraints st) <->
     exists e1 e2 k l, In e1 g /\ In e2 g /\ (k < d)%nat /\ (l < k)%nat
       /\ c = block_constraint (nth k (blocks_of d e1) []) (nth l (blocks_of d e2) []))
  /\ (forall e1 e2 k l, In e1 g -> In e2 g ->
        (holds rho phi (block_constraint (nth k (blocks_of d e1) []) (nth l (blocks_of d e2) []))
         <-> inner (evalP rho (nth k (blocks_of d e1) [])) (evalP rho (nth l (blocks_of d e2) [])) = 0))
  (* together they say exactly: all pairs of DIFFERENT blocks of decomposed points are orthogonal *)
  /\ ((forall c, In c (partition_constraints st) -> holds rho phi c) <-> all_orthogonal rho d g)
  (* and they mention nothing but leaves occurring in blocks of decomposed objects *)
  /\ (forall c key, In c (partition_constraints st) -> In key (keys (fst c)) ->
        exists x y e1 e2, key = KG x y /\ In e1 g /\ In e2 g
          /\ (In x (keys (e_pd e1)) \/ In x (leaves_of d e1))
          /\ (In y (keys (e_pd e2)) \/ In y (leaves_of d e2))).
Proof.
  intros Hok st g. pose proof (trace_Inv d n0 ops Hok) as I. fold st g in I.
  pose proof (Inv_vals _ _ _ I) as Hv. pose proof (inv_d _ _ _ I) as Hd.
  split; [|split; [|split]].
  - intros c. rewrite In_constraints, Hv, Hd. split.
    + intros (xi & xj & k & l & Hi & Hj & Hk & Hl & ->).
      apply in_map_iff in Hi as [e1 [<- He1]]. apply in_map_iff in Hj as [e2 [<- He2]].
      exists e1, e2, k, l. auto.
    + intros (e1 & e2 & k & l & He1 & He2 & Hk & Hl & ->).
      exists (blocks_of d e1), (blocks_of d e2), k, l. auto using in_map.
  - intros e1 e2 k l He1 He2. apply block_constraint_holds; apply pND_nth_blocks.
    + apply (inv_pd _ _ _ I e1 He1).
    + apply (inv_pd _ _ _ I e2 He2).
  - apply constraints_iff, I.
  - intros c key. apply (constraints_mention d st g c key I).
Qed.

(** ** Two distinct objects *)
Theorem two_objects_history (E : ips) (rho : nat -> E) (phi : nat -> R) d n0 ops :
  (1 <= d)%nat -> ok (init_partition d n0) ops ->
  let st := fst (trace (init_partition d n0) [] ops) in
  let g := snd (trace (init_partition d n0) [] ops) in
  forall e1 e2, In e1 g -> In e2 g -> e1 <> e2 ->
    (* different objects, different leaves *)
    e_obj e1 <> e_obj e2
    /\ (forall x, In x (leaves_of d e1) -> ~ In x (leaves_of d e2))
    (* but every valuation satisfying the generated constraints under which the two objects have the
       same value (e.g. equal dictionaries) gives them equal blocks *)
    /\ ((forall c, In c (partition_constraints st) -> holds rho phi c) ->
        veq (evalP rho (e_pd e1)) (evalP rho (e_pd e2)) ->
        forall k, (k < d)%nat ->
          veq (evalP rho (nth k (blocks_of d e1) [])) (evalP rho (nth k (blocks_of d e2) []))).
Proof.
  intros Hd Hok st g e1 e2 He1 He2 Hne. pose proof (trace_Inv d n0 ops Hok) as I. fold st g in I.
  split; [|split].
  - intros H. apply Hne. apply (NoDup_map_inj e_obj g); auto. apply (inv_nodup _ _ _ I).
  - intros x H1 H2. apply Hne. apply (Inv_disjoint _ _ _ _ _ _ I He1 He2 H1 H2).
  - intros Hc Hv. apply (two_objects rho phi d st g e1 e2 Hd I He1 He2 Hc Hv).
Qed.

Corollary two_objects_equal_dicts (E : ips) (rho : nat -> E) (phi : nat -> R) d n0 ops :
  (1 <= d)%nat -> ok (init_partition d n0) ops ->
  let st := fst (trace (init_partition d n0) [] ops) in
  let g := snd (trace (init_partition d n0) [] ops) in
  forall e1 e2, In e1 g -> In e2 g -> e_pd e1 = e_pd e2 ->
    (forall c, In c (partition_constraints st) -> holds rho phi c) ->
    forall k, (k < d)%nat ->
      veq (evalP rho (nth k (blocks_of d e1) [])) (evalP rho (nth k (blocks_of d e2) [])).
Proof.
  intros Hd Hok st g e1 e2 He1 He2 Heq Hc. pose proof (trace_Inv d n0 ops Hok) as I. fold st g in I.
  apply (two_objects rho phi d st g e1 e2 Hd I He1 He2 Hc). rewrite Heq. apply veq_refl.
Qed.

(** ** Solve time with several partitions: what reaches the wrapper *)

Lemma constraints_unused st : bp_blocks st = [] -> partition_constraints st = [].
Proof. intros H. unfold partition_constraints. rewrite H. reflexivity. Qed.

Fixpoint nsum (l : list nat) : nat := match l with [] => 0 | x :: l' => x + nsum l' end.

(** The sent list is the concatenation over ALL registered partitions, in registry order: a
    constraint is sent iff it is a cross-block relation of some partition; no partition is skipped
    whatever the other partitions look like; one-block and never-used partitions are neutral. *)
Theorem solve_sent_exact parts :
  (forall c, In c (sent_partition_constraints parts)
             <-> exists st, In st parts /\ In c (partition_constraints st))
  /\ (forall l1 st l2, sent_partition_constraints (l1 ++ st :: l2)
        = sent_partition_constraints l1 ++ partition_constraints st ++ sent_partition_constraints l2)
  /\ (forall l1 st l2, bp_d st = 1%nat \/ bp_blocks st = [] ->
        sent_partition_constraints (l1 ++ st :: l2) = sent_partition_constraints (l1 ++ l2))
  /\ (2 * length (sent_partition_constraints parts)
      = nsum (map (fun st => length (bp_blocks st) * length (bp_blocks st) * (bp_d st * (bp_d st - 1))) parts))%nat.
Proof.
  unfold sent_partition_constraints. split; [|split; [|split]].
  - intros c. apply in_flat_map.
  - intros l1 st l2. rewrite flat_map_app. reflexivity.
  - intros l1 st l2 H. rewrite !flat_map_app. cbn [flat_map].
    destruct H as [H|H]; [rewrite (constraints_one _ H)|rewrite (constraints_unused _ H)]; reflexivity.
  - induction parts as [|st parts IH]; [reflexivity|]. cbn [flat_map map nsum]. rewrite app_length.
    pose proof (constraints_exact_list st) as (_ & _ & _ & L & _). cbv zeta in L. lia.
Qed.

(** one partition of a PEP: its number of blocks, Point.counter when it was created, its history *)
Definition hist : Type := (nat * nat * list op)%type.
Definition h_d (h : hist) : nat := fst (fst h).
Definition h_ok (h : hist) : Prop := ok (init_partition (h_d h) (snd (fst h))) (snd h).
Definition h_state (h : hist) : pstate := fst (trace (init_partition (h_d h) (snd (fst h))) [] (snd h)).
Definition h_ghost (h : hist) : list entry := snd (trace (init_partition (h_d h) (snd (fst h))) [] (snd h)).

(** Meaning: the constraints received by the wrapper hold under a valuation iff, in EVERY partition
    of the PEP, all pairs of different blocks of all points it decomposed are orthogonal. *)
Theorem solve_sent_meaning (E : ips) (rho : nat -> E) (phi : nat -> R) (hs : list hist) :
  (forall h, In h hs -> h_ok h) ->
  ((forall c, In c (sent_partition_constraints (map h_state hs)) -> holds rho phi c)
   <-> forall h, In h hs -> all_orthogonal rho (h_d h) (h_ghost h)).
Proof.
  intros Hok. split.
  - intros H h Hh. destruct h as [[d n0] ops].
    apply (constraints_iff rho phi d (h_state (d, n0, ops)) (h_ghost (d, n0, ops))).
    + apply trace_Inv, (Hok _ Hh).
    + intros c Hc. apply H. apply in_flat_map. exists (h_state (d, n0, ops)). split; [apply in_map, Hh|exact Hc].
  - intros H c Hc. apply in_flat_map in Hc as [st [Hst Hc]]. apply in_map_iff in Hst as [h [<- Hh]].
    destruct h as [[d n0] ops].
    apply (constraints_iff rho phi d (h_state (d, n0, ops)) (h_ghost (d, n0, ops))); [|apply (H _ Hh)|exact Hc].
    apply trace_Inv, (Hok _ Hh).
Qed.
