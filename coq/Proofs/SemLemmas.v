(** The algebra is faithful: every operator overload, as modelled by [compile], denotes the
    corresponding vector-space / inner-product operation under every valuation of the leaves. *)
From Coq Require Import List QArith Reals Qreals Lra Bool Arith Lia.
From PV Require Import Base.IPS Model.Dict Model.Terms Spec.Sem Proofs.DictLemmas.
Import ListNotations.
Local Open Scope R_scope.

Lemma nat_eqb_spec a b : reflect (a = b) (Nat.eqb a b).
Proof. apply Nat.eqb_spec. Qed.

Lemma ekey_eqb_spec a b : reflect (a = b) (ekey_eqb a b).
Proof.
  destruct a as [x|i j|], b as [y|i' j'|]; cbn; try (constructor; congruence).
  - destruct (Nat.eqb_spec x y); constructor; congruence.
  - destruct (Nat.eqb_spec i i'), (Nat.eqb_spec j j'); cbn; constructor; congruence.
Qed.

Notation pND := (NoDupKeys nat).
Notation eND := (NoDupKeys ekey).

Lemma Q2R_1 : Q2R 1 = 1. Proof. unfold Q2R; cbn; lra. Qed.
Lemma Q2R_m1 : Q2R (-1) = -1. Proof. unfold Q2R; cbn; lra. Qed.
Lemma Q2R_2 : Q2R 2 = 2. Proof. unfold Q2R; cbn; lra. Qed.

Section Ops.
  Context {E : ips}.
  Variable rho : nat -> E.
  Variable phi : nat -> R.

  Notation evalP := (evalP rho).
  Notation evalE := (evalE rho phi).
  Notation evalK := (evalK rho phi).

  Lemma inner_evalP d w : inner (evalP d) w = dsum nat (fun k => inner (rho k) w) d.
  Proof.
    induction d as [|[k q] d IH]; cbn [Sem.evalP dsum].
    - apply inner_zero_l.
    - rewrite inner_add_l, inner_scal_l, IH. reflexivity.
  Qed.

  Lemma evalE_dsum d : evalE d = dsum ekey evalK d.
  Proof. induction d as [|[k q] d IH]; cbn [Sem.evalE dsum]; [reflexivity|rewrite IH; reflexivity]. Qed.

  (** ** Points *)
  Lemma evalP_add a b : pND a -> pND b -> veq (evalP (p_add a b)) (vadd (evalP a) (evalP b)).
  Proof.
    intros Ha Hb w. unfold p_add, pmerge. rewrite inner_add_l, !inner_evalP, dsum_prune.
    apply (dsum_merge nat Nat.eqb nat_eqb_spec); assumption.
  Qed.

  Lemma evalP_scal c a : veq (evalP (p_scal c a)) (vscal (Q2R c) (evalP a)).
  Proof. intros w. unfold p_scal. rewrite inner_scal_l, !inner_evalP, dsum_scale. reflexivity. Qed.

  Lemma evalP_neg a : veq (evalP (p_neg a)) (vneg (evalP a)).
  Proof. intros w. unfold p_neg. rewrite evalP_scal, Q2R_m1. reflexivity. Qed.

  Lemma pND_scal c a : pND a -> pND (p_scal c a).
  Proof. apply NoDupKeys_scale. Qed.
  Lemma pND_neg a : pND a -> pND (p_neg a).
  Proof. apply pND_scal. Qed.
  Lemma pND_add a b : pND a -> pND b -> pND (p_add a b).
  Proof.
    intros Ha Hb. unfold p_add, pmerge. apply NoDupKeys_prune.
    apply (NoDupKeys_merge nat Nat.eqb nat_eqb_spec); assumption.
  Qed.
  Lemma pND_sub a b : pND a -> pND b -> pND (p_sub a b).
  Proof. intros; apply pND_add; [|apply pND_neg]; assumption. Qed.
  Lemma pND_div a c : pND a -> pND (p_div a c).
  Proof. apply pND_scal. Qed.

  Lemma evalP_sub a b : pND a -> pND b -> veq (evalP (p_sub a b)) (vsub (evalP a) (evalP b)).
  Proof.
    intros Ha Hb. unfold p_sub. eapply veq_trans; [apply evalP_add; [assumption|apply pND_neg; assumption]|].
    apply veq_add; [apply veq_refl|apply evalP_neg].
  Qed.

  Lemma Q2R_one_div c : ~ (c == 0)%Q -> Q2R (1 / c) = 1 / Q2R c.
  Proof. intros H. unfold Qdiv. rewrite Q2R_mult, Q2R_inv, Q2R_1 by exact H. reflexivity. Qed.

  Lemma evalP_div a c : ~ (c == 0)%Q -> veq (evalP (p_div a c)) (vscal (1 / Q2R c) (evalP a)).
  Proof. intros H w. unfold p_div. rewrite evalP_scal, Q2R_one_div by exact H. reflexivity. Qed.

  (** ** Inner products *)
  Lemma evalE_multiply a b : evalE (multiply a b) = inner (evalP a) (evalP b).
  Proof.
    unfold multiply. induction a as [|[k1 v1] a IH]; cbn [flat_map Sem.evalP].
    - rewrite inner_zero_l. reflexivity.
    - rewrite evalE_dsum, dsum_app, <- !evalE_dsum, IH, inner_add_l, inner_scal_l. f_equal.
      clear IH. induction b as [|[k2 v2] b IHb]; cbn [map Sem.evalE Sem.evalP].
      + rewrite inner_zero_r. lra.
      + rewrite IHb, inner_add_r, inner_scal_r, Q2R_mult. cbn [Sem.evalK]. lra.
  Qed.

  Lemma keys_multiply_NoDup a b : pND a -> pND b -> eND (multiply a b).
  Proof.
    unfold NoDupKeys, keys, multiply. revert b. induction a as [|[k1 v1] a IH]; intros b Ha Hb; cbn [flat_map].
    - constructor.
    - inversion Ha as [|? ? Hn Ha']; subst. rewrite map_app.
      apply NoDup_app_iff_local.
      + rewrite map_map. clear -Hb. induction b as [|[k2 v2] b IHb]; cbn; [constructor|].
        inversion Hb as [|? ? Hn Hb']; subst. constructor; [|auto].
        intros Hin. apply in_map_iff in Hin as [[k v] [Hk Hin]]. cbn in Hk. injection Hk as ->.
        apply Hn. change (In k2 (map fst b)). apply in_map_iff. exists (k2, v); auto.
      + apply IH; assumption.
      + intros x H1 H2. apply in_map_iff in H1 as [[kk vv] [Hk H1]]. cbn in Hk; subst kk.
        apply in_map_iff in H1 as [[k2 v2] [Hk H1]]. injection Hk as <- _.
        apply in_map_iff in H2 as [[kk vv'] [Hk H2]]. cbn in Hk; subst kk.
        apply in_flat_map in H2 as [[k1' v1'] [Hin1 H2]].
        apply in_map_iff in H2 as [[k2' v2'] [Hk _]]. injection Hk as Hk1 _ _.
        apply Hn. apply in_map_iff. exists (k1', v1'). split; [exact Hk1|exact Hin1].
  Qed.

  (** ** Expressions *)
  Lemma evalE_add a b : eND a -> eND b -> evalE (x_add a b) = evalE a + evalE b.
  Proof.
    intros Ha Hb. unfold x_add, emerge. rewrite !evalE_dsum, dsum_prune.
    apply (dsum_merge ekey ekey_eqb ekey_eqb_spec); assumption.
  Qed.
  Lemma eND_const c : eND [(K1, c)].
  Proof. unfold NoDupKeys; cbn. constructor; [tauto|constructor]. Qed.
  Lemma evalE_adds a c : eND a -> evalE (x_adds a c) = evalE a + Q2R c.
  Proof.
    intros Ha. unfold x_adds, emerge. rewrite !evalE_dsum, dsum_prune.
    rewrite (dsum_merge ekey ekey_eqb ekey_eqb_spec) by (assumption || apply eND_const).
    cbn. lra.
  Qed.
  Lemma evalE_scal c a : evalE (x_scal c a) = Q2R c * evalE a.
  Proof. unfold x_scal. rewrite !evalE_dsum, dsum_scale. reflexivity. Qed.
  Lemma evalE_neg a : evalE (x_neg a) = - evalE a.
  Proof. unfold x_neg. rewrite evalE_scal, Q2R_m1. lra. Qed.

  Lemma eND_scal c a : eND a -> eND (x_scal c a).
  Proof. apply NoDupKeys_scale. Qed.
  Lemma eND_neg a : eND a -> eND (x_neg a).
  Proof. apply eND_scal. Qed.
  Lemma eND_add a b : eND a -> eND b -> eND (x_add a b).
  Proof.
    intros Ha Hb. unfold x_add, emerge. apply NoDupKeys_prune.
    apply (NoDupKeys_merge ekey ekey_eqb ekey_eqb_spec); assumption.
  Qed.
  Lemma eND_adds a c : eND a -> eND (x_adds a c).
  Proof.
    intros Ha. unfold x_adds, emerge. apply NoDupKeys_prune.
    apply (NoDupKeys_merge ekey ekey_eqb ekey_eqb_spec); [exact Ha|apply eND_const].
  Qed.
  Lemma eND_sub a b : eND a -> eND b -> eND (x_sub a b).
  Proof. intros; apply eND_add; [|apply eND_neg]; assumption. Qed.
  Lemma eND_subs a c : eND a -> eND (x_subs a c).
  Proof. apply eND_adds. Qed.
  Lemma eND_ssub c a : eND a -> eND (x_ssub c a).
  Proof. intros; apply eND_neg, eND_subs; assumption. Qed.
  Lemma eND_div a c : eND a -> eND (x_div a c).
  Proof. apply eND_scal. Qed.

  Lemma evalE_sub a b : eND a -> eND b -> evalE (x_sub a b) = evalE a - evalE b.
  Proof. intros Ha Hb. unfold x_sub. rewrite evalE_add, evalE_neg by (assumption || apply eND_neg; assumption). lra. Qed.
  Lemma evalE_subs a c : eND a -> evalE (x_subs a c) = evalE a - Q2R c.
  Proof. intros Ha. unfold x_subs. rewrite evalE_adds, Q2R_opp by assumption. lra. Qed.
  Lemma evalE_ssub c a : eND a -> evalE (x_ssub c a) = Q2R c - evalE a.
  Proof. intros Ha. unfold x_ssub. rewrite evalE_neg, evalE_subs by assumption. lra. Qed.
  Lemma evalE_div a c : ~ (c == 0)%Q -> evalE (x_div a c) = evalE a / Q2R c.
  Proof. intros H. unfold x_div. rewrite evalE_scal, Q2R_one_div by exact H. lra. Qed.

  (** ** Comparisons: the expression is left-minus-right (resp. right-minus-left for >=). *)
  Lemma evalE_c_le a b : eND a -> eND b -> evalE (fst (c_le a b)) = evalE a - evalE b.
  Proof. apply evalE_sub. Qed.
  Lemma evalE_c_ge a b : eND a -> eND b -> evalE (fst (c_ge a b)) = evalE b - evalE a.
  Proof.
    intros Ha Hb. unfold c_ge, c_le; cbn [fst].
    rewrite evalE_sub, !evalE_neg by (apply eND_neg; assumption). lra.
  Qed.
  Lemma evalE_c_eq a b : eND a -> eND b -> evalE (fst (c_eq a b)) = evalE a - evalE b.
  Proof. apply evalE_sub. Qed.
  Lemma evalE_c_les a c : eND a -> evalE (fst (c_les a c)) = evalE a - Q2R c.
  Proof. apply evalE_subs. Qed.
  Lemma evalE_c_ges a c : eND a -> evalE (fst (c_ges a c)) = Q2R c - evalE a.
  Proof.
    intros Ha. unfold c_ges, c_les; cbn [fst].
    rewrite evalE_subs, evalE_neg, Q2R_opp by (apply eND_neg; assumption). lra.
  Qed.
  Lemma evalE_c_eqs a c : eND a -> evalE (fst (c_eqs a c)) = evalE a - Q2R c.
  Proof. apply evalE_subs. Qed.
End Ops.

(** ** Trees: [compile] then [eval]  =  [denote]. *)
Section Trees.
  Context {E : ips}.
  Variable rho : nat -> E.
  Variable phi : nat -> R.
  Variable penv : nat -> Q.
  Variable vp : nat -> pdict.
  Variable vx : nat -> edict.
  Hypothesis vp_wf : forall v, pND (vp v).
  Hypothesis vx_wf : forall v, eND (vx v).

  Let penvR := fun p => Q2R (penv p).
  Let up := fun v => evalP rho (vp v).
  Let ux := fun v => evalE rho phi (vx v).

  Notation sden := (sdenote penvR).
  Notation sdf := (sdef penvR).

  Lemma Q2R_qpow q n : Q2R (qpow q n) = Q2R q ^ n.
  Proof. induction n as [|n IH]; cbn [qpow pow]; [apply Q2R_1|rewrite Q2R_mult, IH; reflexivity]. Qed.

  Lemma Q2R_nz q : Q2R q <> 0 -> ~ (q == 0)%Q.
  Proof. intros H Hz. apply H. apply Qeq_eqR in Hz. rewrite Hz. apply RMicromega.Q2R_0. Qed.

  Lemma seval_denote s : sdf s -> Q2R (seval penv s) = sden s.
  Proof.
    induction s as [q|p|a IHa b IHb|a IHa b IHb|a IHa b IHb|a IHa b IHb|a IHa|a IHa n];
      cbn [seval sdenote sdef]; intros H.
    - reflexivity.
    - reflexivity.
    - destruct H. rewrite Q2R_plus, IHa, IHb by assumption. reflexivity.
    - destruct H. rewrite Q2R_minus, IHa, IHb by assumption. reflexivity.
    - destruct H. rewrite Q2R_mult, IHa, IHb by assumption. reflexivity.
    - destruct H as (Ha & Hb & Hnz). rewrite Q2R_div, IHa, IHb; try assumption.
      + reflexivity.
      + apply Q2R_nz. rewrite IHb by assumption. exact Hnz.
    - rewrite Q2R_opp, IHa by assumption. reflexivity.
    - rewrite Q2R_qpow, IHa by assumption. reflexivity.
  Qed.

  Lemma compileP_wf t : pND (compileP penv vp t).
  Proof.
    induction t as [v|a IHa b IHb|a IHa b IHb|a IHa|s a IHa|a IHa s]; cbn [compileP].
    - apply vp_wf.
    - apply pND_add; assumption.
    - apply pND_sub; assumption.
    - apply pND_neg; assumption.
    - apply pND_scal; assumption.
    - apply pND_div; assumption.
  Qed.

  Lemma compileP_denote t :
    pdef penvR t -> veq (evalP rho (compileP penv vp t)) (denoteP penvR up t).
  Proof.
    induction t as [v|a IHa b IHb|a IHa b IHb|a IHa|s a IHa|a IHa s];
      cbn [compileP denoteP pdef]; intros H.
    - apply veq_refl.
    - destruct H. eapply veq_trans; [apply evalP_add; apply compileP_wf|]. apply veq_add; auto.
    - destruct H. eapply veq_trans; [apply evalP_sub; apply compileP_wf|]. apply veq_sub; auto.
    - eapply veq_trans; [apply evalP_neg|]. apply veq_neg; auto.
    - destruct H as [Hs Ha]. eapply veq_trans; [apply evalP_scal|].
      rewrite seval_denote by assumption. apply veq_scal; auto.
    - destruct H as (Ha & Hs & Hnz). eapply veq_trans; [apply evalP_div|].
      + apply Q2R_nz. rewrite seval_denote by assumption. exact Hnz.
      + rewrite seval_denote by assumption. apply veq_scal; auto.
  Qed.

  Lemma compileX_wf t : eND (compileX penv vp vx t).
  Proof.
    induction t; cbn [compileX];
      auto using eND_add, eND_adds, eND_sub, eND_subs, eND_ssub, eND_neg, eND_scal, eND_div,
                 keys_multiply_NoDup, compileP_wf.
  Qed.

  Lemma compileX_denote t :
    xdef penvR t -> evalE rho phi (compileX penv vp vx t) = denoteX penvR up ux t.
  Proof.
    induction t as [v|a b|a|a IHa b IHb|a IHa s|a IHa b IHb|a IHa s|s a IHa|a IHa|s a IHa|a IHa s];
      cbn [compileX denoteX xdef]; intros H.
    - reflexivity.
    - destruct H. rewrite evalE_multiply. apply veq_inner; apply compileP_denote; assumption.
    - rewrite evalE_multiply. apply veq_inner; apply compileP_denote; assumption.
    - destruct H. rewrite evalE_add, IHa, IHb by (assumption || apply compileX_wf). reflexivity.
    - destruct H. rewrite evalE_adds, IHa, seval_denote by (assumption || apply compileX_wf). reflexivity.
    - destruct H. rewrite evalE_sub, IHa, IHb by (assumption || apply compileX_wf). reflexivity.
    - destruct H. rewrite evalE_subs, IHa, seval_denote by (assumption || apply compileX_wf). reflexivity.
    - destruct H. rewrite evalE_ssub, IHa, seval_denote by (assumption || apply compileX_wf). reflexivity.
    - rewrite evalE_neg, IHa by assumption. reflexivity.
    - destruct H. rewrite evalE_scal, IHa, seval_denote by assumption. reflexivity.
    - destruct H as (Ha & Hs & Hnz). rewrite evalE_div, IHa, seval_denote; try assumption.
      + reflexivity.
      + apply Q2R_nz. rewrite seval_denote by assumption. exact Hnz.
  Qed.

  (** The constraint object built by a comparison: its expression is left-minus-right (right-minus-
      left for >=) and its sense is the one written. *)
  Lemma compileC_denote t :
    cdef penvR t ->
    (evalE rho phi (fst (compileC penv vp vx t)), snd (compileC penv vp vx t))
    = lhs_minus_rhs penvR up ux t.
  Proof.
    destruct t; cbn [compileC lhs_minus_rhs cdef]; intros [H1 H2];
      rewrite ?evalE_c_le, ?evalE_c_ge, ?evalE_c_eq, ?evalE_c_les, ?evalE_c_ges, ?evalE_c_eqs
        by apply compileX_wf;
      rewrite ?compileX_denote, ?seval_denote by assumption; reflexivity.
  Qed.

  Lemma compileC_wf t : eND (fst (compileC penv vp vx t)).
  Proof.
    destruct t; cbn [compileC c_le c_ge c_eq c_les c_ges c_eqs fst];
      auto using eND_sub, eND_subs, eND_neg, compileX_wf.
  Qed.

  (** A compiled constraint holds at a valuation iff the comparison written in the source holds. *)
  Theorem compileC_holds t :
    cdef penvR t -> (holds rho phi (compileC penv vp vx t) <-> denoteC penvR up ux t).
  Proof.
    intros H. pose proof (compileC_denote t H) as D.
    pose proof (f_equal fst D) as D1. pose proof (f_equal snd D) as D2. cbn [fst snd] in D1, D2.
    unfold holds. rewrite D1, D2.
    destruct t; cbn [lhs_minus_rhs denoteC fst snd]; lra.
  Qed.
End Trees.
