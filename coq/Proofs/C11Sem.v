(** C11 -- what the declared SDP [sdp_of] means (rows as Gram-reading functionals, the LMI coupling) and
    the certificate identity under MOSEK's dual convention.  Lemmas for coq/Props/C11.v (part 2, over R).

    Reading of API data (assumption A1 of the stand-in): a stored symmetric matrix given by lower
    triangular triples pairs with a matrix Z as [tri_read Z] = sum of  v * Z i i  (diagonal triple) and
    v * (Z i j + Z j i)  (off-diagonal triple): C05Spec.tri_val. *)
From Coq Require Import List QArith Reals Qreals Lra Bool Arith Lia.
From PV Require Import Model.Dict Model.Terms Model.Sent Model.Matrices Model.Mosek Spec.GramSem
     Proofs.DictLemmas Proofs.C05Spec Proofs.C05Lemmas.
Import ListNotations.
Local Open Scope R_scope.

Notation eND := (NoDupKeys ekey).

(* ------------------------------------------------------------------ the meaning of an sdp *)
Definition tri_read (Z : nat -> nat -> R) (tr : list triple) : R := lsum (tri_val Z) tr.
Definition wmat_read (Z : nat -> nat -> R) (wm : wmat) : R :=
  lsum (fun qt => Q2R (fst qt) * tri_read Z (snd qt)) wm.

(** [x] : values of the scalar variables, [X j] : value of bar variable j *)
Definition lin_val (x : nat -> R) (r : row) : R := lsum (fun cv => Q2R (snd cv) * x (fst cv)) (r_lin r).
Definition bars_val (X : nat -> nat -> nat -> R) (r : row) : R :=
  lsum (fun jw => wmat_read (X (fst jw)) (snd jw)) (r_bar r).
Definition row_val x X (r : row) : R := lin_val x r + bars_val X r.

Definition bound_value (b : bkey * Q * Q) : Q :=
  match fst (fst b) with BUp => snd b | _ => snd (fst b) end.
Definition bound_holds (b : bkey * Q * Q) (v : R) : Prop :=
  match fst (fst b) with
  | BFr => True
  | BUp => v <= Q2R (snd b)
  | BFx => v = Q2R (snd (fst b))
  | BLo => Q2R (snd (fst b)) <= v
  end.
Definition row_holds x X (r : row) : Prop := bound_holds (r_bnd r) (row_val x X r).

(* ------------------------------------------------------------------ small facts *)
Lemma Q2R_one : Q2R 1 = 1. Proof. unfold Q2R; cbn; lra. Qed.
Lemma Q2R_m1 : Q2R (- (1)) = -1. Proof. unfold Q2R; cbn; lra. Qed.
Lemma Q2R_mhalf : Q2R (- (1 # 2)) = - (1 / 2). Proof. unfold Q2R; cbn; lra. Qed.

(** the +-1/2 / -1 weights: <coupling_ij, M> = - M[i][j] for every SYMMETRIC M *)
Lemma coupling_read M i j : symG M -> tri_read M [coupling_triple i j] = - M i j.
Proof.
  intros Hs. unfold tri_read, coupling_triple, coupling_weight. cbn [lsum]. unfold tri_val. cbn [fst snd].
  destruct (Nat.eqb_spec i j) as [->|Hne].
  - rewrite Nat.max_id, Nat.min_id, Nat.eqb_refl, Q2R_m1. lra.
  - destruct (Nat.eqb_spec (Nat.max i j) (Nat.min i j)) as [He|_]; [lia|]. rewrite Q2R_mhalf.
    destruct (Nat.le_ge_cases i j) as [Hij|Hij].
    + rewrite (Nat.max_r i j Hij), (Nat.min_l i j Hij), (Hs j i). lra.
    + rewrite (Nat.max_l i j Hij), (Nat.min_r i j Hij), (Hs j i). lra.
Qed.

Lemma set_assoc_fresh {A} k (v : A) l : ~ In k (map fst l) -> set_assoc k v l = l ++ [(k, v)].
Proof.
  induction l as [|[k' v'] l IH]; cbn [set_assoc map fst In app]; intros H; [reflexivity|].
  destruct (Nat.eqb_spec k k') as [->|_]; [exfalso; apply H; left; reflexivity|].
  rewrite IH by tauto. reflexivity.
Qed.

Lemma lin_of_fold : forall (l acc : list (nat * Q)), NoDup (map fst (acc ++ l)) ->
  fold_left (fun a cv => set_assoc (fst cv) (snd cv) a) l acc = acc ++ l.
Proof.
  induction l as [|[c v] l IH]; intros acc H; cbn [fold_left fst snd]; [rewrite app_nil_r; reflexivity|].
  rewrite set_assoc_fresh.
  - rewrite IH; rewrite <- app_assoc; [reflexivity|exact H].
  - rewrite map_app in H. cbn [map fst] in H. apply NoDup_remove_2 in H. intros Hin. apply H.
    apply in_or_app. left. exact Hin.
Qed.

Lemma lin_of_nodup l : NoDup (map fst l) -> lin_of l = l.
Proof. intros H. unfold lin_of. rewrite lin_of_fold; [reflexivity|exact H]. Qed.

(** the F part of the sparse data: the leaf-expression keys, in dictionary order *)
Definition fpart (l : edict) : list (nat * Q) :=
  flat_map (fun kw => match fst kw with KF v => [(v, snd kw)] | _ => [] end) l.

Lemma sF_fold d : forall l acc, sF (fold_left (sparse_step d) l acc) = sF acc ++ fpart l.
Proof.
  induction l as [|[k w] l IH]; intros acc; cbn [fold_left fpart flat_map]; [rewrite app_nil_r; reflexivity|].
  rewrite IH. unfold sparse_step. cbn [fst snd]. destruct k as [v|i j|].
  - cbn [sF]. rewrite <- app_assoc. reflexivity.
  - destruct (lookup ekey_eqb (KG j i) d); [destruct (Nat.leb j i)|]; reflexivity.
  - reflexivity.
Qed.

Lemma fpart_in v l : In v (map fst (fpart l)) -> In (KF v) (keys l).
Proof.
  induction l as [|[k w] l IH]; cbn [fpart flat_map map keys fst In]; [tauto|].
  rewrite map_app, in_app_iff. intros [H|H].
  - destruct k; cbn in H; try tauto. destruct H as [<-|[]]. left. reflexivity.
  - right. apply IH. exact H.
Qed.

Lemma sF_nodup e : eND e -> NoDup (map fst (sF (sp e))).
Proof.
  intros Hnd. unfold sp, sparse_loop. rewrite sF_fold. cbn [sF sparse0 app].
  unfold NoDupKeys in Hnd. induction e as [|[k w] e IH]; cbn [fpart flat_map map]; [constructor|].
  inversion Hnd as [|? ? Hni Hnd']; subst. rewrite map_app. destruct k as [v|i j|]; cbn [fst snd map app].
  - constructor; [|apply IH; exact Hnd']. intros Hin. apply Hni. apply fpart_in. exact Hin.
  - apply IH; exact Hnd'.
  - apply IH; exact Hnd'.
Qed.

(* ------------------------------------------------------------------ rows as Gram-reading functionals *)
Section Rows.
  Variable x : nat -> R.
  Variable X : nat -> nat -> nat -> R.
  Hypothesis Xsym : forall j, symG (X j).

  Lemma sparse_reading e : eND e ->
    tri_read (X 0%nat) (sG (sp e)) + lsum (fun cv => Q2R (snd cv) * x (fst cv)) (sF (sp e)) + Q2R (sC (sp e))
    = evalGF (X 0%nat) x e.
  Proof. intros Hnd. exact (sparse_correct (X 0%nat) x (EComp e) (Xsym 0%nat) Hnd). Qed.

  Lemma sc_row_val e s : eND e ->
    row_val x X (sc_row e s) = evalGF (X 0%nat) x e - Q2R (sC (sp e)).
  Proof.
    intros Hnd. unfold row_val, lin_val, bars_val, sc_row. cbn [r_lin r_bar lsum fst snd].
    rewrite (lin_of_nodup _ (sF_nodup e Hnd)). unfold wmat_read. cbn [lsum fst snd].
    rewrite Q2R_one, <- (sparse_reading e Hnd). lra.
  Qed.

  Lemma sc_bound_value e s : Q2R (bound_value (sc_bound e s)) = - Q2R (sC (sp e)).
  Proof. destruct s; unfold bound_value, sc_bound; cbn [fst snd]; apply Q2R_opp. Qed.

  (** a scalar constraint's row holds exactly when the constraint does, read on (G, F) = (X 0, x) *)
  Lemma sc_row_holds e s : eND e -> (row_holds x X (sc_row e s) <-> holdsGF (X 0%nat) x (e, s)).
  Proof.
    intros Hnd. unfold row_holds. rewrite (sc_row_val e s Hnd).
    unfold holdsGF, bound_holds, sc_row, sc_bound. cbn [r_bnd fst snd].
    destruct s; cbn [fst snd]; rewrite Q2R_opp; split; intros H; lra.
  Qed.

  Lemma lmi_row_val kb i j e : eND e ->
    row_val x X (lmi_row kb i j e) = evalGF (X 0%nat) x e - Q2R (sC (sp e)) - X kb i j.
  Proof.
    intros Hnd. unfold row_val, lin_val, bars_val, lmi_row. cbn [r_lin r_bar lsum fst snd].
    rewrite (lin_of_nodup _ (sF_nodup e Hnd)). unfold wmat_read. cbn [lsum fst snd].
    rewrite (coupling_read (X kb) i j (Xsym kb)), Q2R_one, <- (sparse_reading e Hnd). lra.
  Qed.

  (** a coupling row holds exactly when entry (i,j) of the LMI's matrix variable equals the expression *)
  Lemma lmi_row_holds kb i j e : eND e ->
    (row_holds x X (lmi_row kb i j e) <-> X kb i j = evalGF (X 0%nat) x e).
  Proof.
    intros Hnd. unfold row_holds. rewrite (lmi_row_val kb i j e Hnd).
    unfold bound_holds, lmi_row. cbn [r_bnd fst snd]. rewrite Q2R_opp. split; intros H; lra.
  Qed.

  Definition wfR_item (it : item) : Prop :=
    match it with
    | SC e _ => eND e
    | LMI m => forall ije, In ije (entries m) -> eND (snd ije)
    end.
  Definition wfR (l : sent) : Prop := Forall wfR_item l.

  (** the declared model, read on (G, F, M_1, M_2, ...) = (X 0, x, X 1, X 2, ...) *)
  Fixpoint sat_items (kb : nat) (l : sent) : Prop :=
    match l with
    | [] => True
    | SC e s :: rest => holdsGF (X 0%nat) x (e, s) /\ sat_items kb rest
    | LMI m :: rest =>
        (forall ije, In ije (entries m) -> X kb (fst (fst ije)) (snd (fst ije)) = evalGF (X 0%nat) x (snd ije))
        /\ sat_items (S kb) rest
    end.

  Theorem rows_meaning : forall l kb, wfR l ->
    (Forall (row_holds x X) (rows_of kb l) <-> sat_items kb l).
  Proof.
    induction l as [|[e s|m] l IH]; intros kb Hwf; cbn [rows_of sat_items].
    - split; [tauto|constructor].
    - inversion Hwf as [|? ? He Hwf']; subst. cbn [wfR_item] in He.
      rewrite <- (IH kb Hwf'), <- (sc_row_holds e s He). split.
      + intros H. inversion H; subst. tauto.
      + intros [H1 H2]. constructor; assumption.
    - inversion Hwf as [|? ? Hm Hwf']; subst. cbn [wfR_item] in Hm.
      rewrite Forall_app, (IH (S kb) Hwf'). rewrite Forall_map, Forall_forall.
      split; intros [H1 H2]; (split; [|exact H2]); intros ije Hin; specialize (H1 ije Hin);
        apply (lmi_row_holds kb (fst (fst ije)) (snd (fst ije)) (snd ije) (Hm ije Hin)); exact H1.
  Qed.
End Rows.

(* ------------------------------------------------------------------ duals *)
(** sum_i y_i * f(row_i), rows numbered from i0 *)
Fixpoint ysum (y : nat -> R) (f : row -> R) (rows : list row) (i0 : nat) : R :=
  match rows with
  | [] => 0
  | r :: rs => y i0 * f r + ysum y f rs (S i0)
  end.

Lemma ysum_app y f a : forall b i0, ysum y f (a ++ b) i0 = ysum y f a i0 + ysum y f b (i0 + length a)%nat.
Proof.
  induction a as [|r a IH]; intros b i0; cbn [app ysum length].
  - rewrite Nat.add_0_r. lra.
  - rewrite IH. replace (i0 + S (length a))%nat with (S i0 + length a)%nat by lia. lra.
Qed.

Lemma ysum_plus y f g : forall rows i0, ysum y (fun r => f r + g r) rows i0 = ysum y f rows i0 + ysum y g rows i0.
Proof. induction rows as [|r rows IH]; intros i0; cbn [ysum]; [lra|rewrite IH; lra]. Qed.

Lemma ysum_ext y f g : forall rows i0, Forall (fun r => f r = g r) rows -> ysum y f rows i0 = ysum y g rows i0.
Proof.
  induction rows as [|r rows IH]; intros i0 H; cbn [ysum]; [reflexivity|].
  inversion H; subst. rewrite IH by assumption. congruence.
Qed.

Lemma ysum_sumn y n (g : nat -> row -> R) : forall rows i0,
  ysum y (fun r => sumn n (fun j => g j r)) rows i0 = sumn n (fun j => ysum y (g j) rows i0).
Proof.
  induction rows as [|r rows IH]; intros i0; cbn [ysum].
  - rewrite sumn_zero. reflexivity.
  - rewrite IH, <- sumn_scal, <- sumn_plus. reflexivity.
Qed.

(** the part of a row that multiplies bar variable j *)
Definition bar_val (j : nat) (Z : nat -> nat -> R) (r : row) : R :=
  lsum (fun jw => if Nat.eqb j (fst jw) then wmat_read Z (snd jw) else 0) (r_bar r).

Lemma bars_val_sumn n X r : Forall (fun jw => (fst jw < n)%nat) (r_bar r) ->
  bars_val X r = sumn n (fun j => bar_val j (X j) r).
Proof.
  unfold bars_val, bar_val. induction (r_bar r) as [|[a wm] l IH]; intros H; cbn [lsum fst snd].
  - rewrite sumn_zero. reflexivity.
  - inversion H as [|? ? Ha H']; subst. cbn [fst] in Ha. rewrite sumn_plus, <- (IH H').
    rewrite (sumn_ext n _ (fun j => if Nat.eqb j a then wmat_read (X a) wm else 0)).
    + rewrite sumn_delta. apply Nat.ltb_lt in Ha. rewrite Ha. reflexivity.
    + intros j _. destruct (Nat.eqb_spec j a) as [->|_]; reflexivity.
Qed.

Section Duals.
  Variable d : sdp.
  Variable y : nat -> R.          (* gety: one multiplier per row *)

  Definition c_val (x : nat -> R) : R := lsum (fun cv => Q2R (snd cv) * x (fst cv)) (d_c d).
  Definition cbar_val (j : nat) (Z : nat -> nat -> R) : R :=
    lsum (fun jw => if Nat.eqb j (fst jw) then wmat_read Z (snd jw) else 0) (d_barc d).
  Definition obj_val (x : nat -> R) (X : nat -> nat -> nat -> R) : R :=
    c_val x + sumn (length (d_bars d)) (fun j => cbar_val j (X j)).

  (** MOSEK's dual equations (assumption A2), for either objective sense:
        A^T y = c   on the scalar variables (as linear functionals of x)
        Sbar_j = Cbar_j - sum_i y_i Abar_ij   -- [Sbar_pair j Z] is <Sbar_j, Z>                      *)
  Definition dual_eq : Prop := forall x, ysum y (lin_val x) (d_rows d) 0 = c_val x.
  Definition Sbar_pair (j : nat) (Z : nat -> nat -> R) : R :=
    cbar_val j Z - ysum y (bar_val j Z) (d_rows d) 0.

  Definition bars_in_range : Prop :=
    Forall (fun r => Forall (fun jw => (fst jw < length (d_bars d))%nat) (r_bar r)) (d_rows d).

  (** the Lagrangian identity: objective = sum_i y_i * row_i + sum_j <Sbar_j, Xbar_j>, identically *)
  Theorem lagrangian_identity : bars_in_range -> dual_eq ->
    forall x X, obj_val x X
                = ysum y (row_val x X) (d_rows d) 0 + sumn (length (d_bars d)) (fun j => Sbar_pair j (X j)).
  Proof.
    intros Hr Hd x X. unfold obj_val, Sbar_pair.
    rewrite (ysum_ext y (row_val x X)
               (fun r => lin_val x r + sumn (length (d_bars d)) (fun j => bar_val j (X j) r)) (d_rows d) 0).
    - rewrite ysum_plus, ysum_sumn, (Hd x).
      rewrite (sumn_ext _ (fun j => cbar_val j (X j) - ysum y (bar_val j (X j)) (d_rows d) 0)
                 (fun j => cbar_val j (X j) + -1 * ysum y (bar_val j (X j)) (d_rows d) 0))
        by (intros; lra).
      rewrite sumn_plus, sumn_scal.
      rewrite (sumn_ext _ (fun j => ysum y (fun r => bar_val j (X j) r) (d_rows d) 0)
                 (fun j => ysum y (bar_val j (X j)) (d_rows d) 0)) by reflexivity.
      lra.
    - eapply Forall_impl; [|exact Hr]. intros r H. unfold row_val. rewrite (bars_val_sumn _ X r H). reflexivity.
  Qed.
End Duals.

(* ------------------------------------------------------------------ ... for the declared problem *)
Lemma sumn_shift n f : sumn (S n) f = f 0%nat + sumn n (fun k => f (S k)).
Proof. induction n as [|n IH]; cbn [sumn] in *; [lra|]. rewrite IH. cbn [sumn]. lra. Qed.

Lemma rows_of_bars_in_range : forall l kb, (1 <= kb)%nat ->
  Forall (fun r => Forall (fun jw => (fst jw < kb + length (lmis l))%nat) (r_bar r)) (rows_of kb l).
Proof.
  induction l as [|[e s|m] l IH]; intros kb Hkb; cbn [rows_of]; [constructor| |].
  - constructor; [|apply IH; exact Hkb]. unfold sc_row; cbn [r_bar]. constructor; [cbn; lia|constructor].
  - apply Forall_app. split.
    + apply Forall_map, Forall_forall. intros ije _. unfold lmi_row; cbn [r_bar].
      change (lmis (LMI m :: l)) with (m :: lmis l). cbn [length].
      constructor; [cbn; lia|]. constructor; [cbn; lia|constructor].
    + change (lmis (LMI m :: l)) with (m :: lmis l). cbn [length].
      eapply Forall_impl; [|apply (IH (S kb)); lia]. intros r H. eapply Forall_impl; [|exact H].
      intros jw Hj. cbn beta in *. lia.
Qed.

Section Certificate.
  Variable y : nat -> R.
  Variable x : nat -> R.                    (* F *)
  Variable X : nat -> nat -> nat -> R.      (* X 0 = G, X (k+1) = the matrix of the k-th LMI *)
  Hypothesis Xsym : forall j, symG (X j).

  (** sum over the scalar constraints of  y[row of c] * e_c(G,F) : [nb] mirrors _constraint_index_in_mosek *)
  Fixpoint cert_scalars (nb : nat) (l : sent) : R :=
    match l with
    | [] => 0
    | SC e _ :: rest => y nb * evalGF (X 0%nat) x e + cert_scalars (S nb) rest
    | LMI m :: rest => cert_scalars (nb + length (entries m))%nat rest
    end.

  (** M_k := E_k(G,F): the matrix variable of every LMI takes the value of its matrix of expressions *)
  Fixpoint couplings_hold (kb : nat) (l : sent) : Prop :=
    match l with
    | [] => True
    | SC _ _ :: rest => couplings_hold kb rest
    | LMI m :: rest =>
        (forall ije, In ije (entries m) -> X kb (fst (fst ije)) (snd (fst ije)) = evalGF (X 0%nat) x (snd ije))
        /\ couplings_hold (S kb) rest
    end.

  (** MOSEK's dual objective of a maximisation problem with these rows: sum_i y_i * bound_i *)
  Definition dual_obj (rows : list row) (i0 : nat) : R :=
    ysum y (fun r => Q2R (bound_value (r_bnd r))) rows i0.

  Lemma ysum_rows_of : forall l kb nb, wfR l -> couplings_hold kb l ->
    ysum y (row_val x X) (rows_of kb l) nb = cert_scalars nb l + dual_obj (rows_of kb l) nb.
  Proof.
    unfold dual_obj.
    induction l as [|[e s|m] l IH]; intros kb nb Hwf Hc; cbn [rows_of ysum cert_scalars couplings_hold] in *; [lra| |].
    - inversion Hwf as [|? ? He Hwf']; subst. cbn [wfR_item] in He.
      rewrite (IH kb (S nb) Hwf' Hc), (sc_row_val x X Xsym e s He).
      unfold sc_row. cbn [r_bnd]. rewrite sc_bound_value. lra.
    - inversion Hwf as [|? ? Hm Hwf']; subst. cbn [wfR_item] in Hm. destruct Hc as [Hc1 Hc2].
      rewrite !ysum_app, map_length, (IH (S kb) _ Hwf' Hc2).
      rewrite (ysum_ext y (row_val x X) (fun r => Q2R (bound_value (r_bnd r)))
                 (map (fun ije => lmi_row kb (fst (fst ije)) (snd (fst ije)) (snd ije)) (entries m)) nb); [lra|].
      apply Forall_map, Forall_forall. intros ije Hin.
      rewrite (lmi_row_val x X Xsym kb _ _ _ (Hm ije Hin)), (Hc1 ije Hin).
      unfold lmi_row, bound_value. cbn [r_bnd fst snd]. rewrite Q2R_opp. lra.
  Qed.

  (** what _recover_dual_values exposes, paired with a matrix Z:  <-getbarsj(j), Z>  (Cbar_j = 0) *)
  Definition exposed (l : sent) (j : nat) (Z : nat -> nat -> R) : R := ysum y (bar_val j Z) (rows_of 1 l) 0.

  Theorem duals_identity l pc ec obj :
    wfR l -> couplings_hold 1 l -> dual_eq (sdp_of l pc ec obj) y ->
    x obj - dual_obj (rows_of 1 l) 0
    = cert_scalars 0 l - exposed l 0 (X 0%nat)
      - sumn (length (lmis l)) (fun k => exposed l (S k) (X (S k))).
  Proof.
    intros Hwf Hc Hd.
    assert (Hr : bars_in_range (sdp_of l pc ec obj)).
    { unfold bars_in_range, sdp_of. cbn [d_rows d_bars length]. rewrite map_length.
      exact (rows_of_bars_in_range l 1 (le_n 1)). }
    pose proof (lagrangian_identity (sdp_of l pc ec obj) y Hr Hd x X) as H.
    unfold obj_val, c_val, cbar_val, Sbar_pair, cbar_val in H.
    unfold sdp_of in H. cbn [d_c d_barc d_bars d_rows lsum fst snd length] in H.
    rewrite map_length, sumn_zero, Q2R_one in H.
    rewrite (ysum_rows_of l 1 0 Hwf Hc) in H.
    rewrite sumn_shift in H. unfold exposed.
    rewrite (sumn_ext _ (fun k => 0 - ysum y (bar_val (S k) (X (S k))) (rows_of 1 l) 0)
               (fun k => -1 * ysum y (bar_val (S k) (X (S k))) (rows_of 1 l) 0)) in H by (intros; lra).
    rewrite sumn_scal in H. lra.
  Qed.
End Certificate.

(* ------------------------------------------------------------------ non-vacuity of the hypotheses of duals_identity *)
Lemma duals_example :
  let l := [SC [(KF 0, 1%Q); (KG 0 0, (- (1))%Q)] Ineq; SC [(KG 0 0, 1%Q); (K1, (- (1))%Q)] Ineq] in
  wfR l /\ dual_eq (sdp_of l 1 1 0) (fun _ => 1) /\ guard l 1 1 0 = true.
Proof.
  cbv zeta. split; [|split].
  - repeat constructor; cbn; intros H; repeat (destruct H as [H|H]; [discriminate|]); exact H.
  - intros x. unfold c_val. cbn [sdp_of d_rows d_c lsum fst snd].
    set (rs := rows_of 1 _). vm_compute in rs. subst rs.
    cbn [ysum lin_val r_lin lsum fst snd]. lra.
  - vm_compute. reflexivity.
Qed.

(* ------------------------------------------------------------------ entry duals (after bd99691) *)
(** [_recover_dual_values] now also exposes, per LMI, U[i][j] = - y[first + i*n + j]: minus the multiplier of the
    row coupling entry (i,j).  Facts proved here, for EVERY LMI, symmetric as written or not:
    (1) the reported dual matrix -Sbar_k pairs with every symmetric Z as  sum_ij U[i][j] * Z[i][j]
        (i.e. reported dual = sym(entries_dual)), by MOSEK's dual equation Sbar_k = - sum_i y_i Abar_ik;
    (2) the certificate identity holds with the entry duals combined with the entries' expressions, with no
        symmetry requirement on the matrix of expressions;
    (3) in cvxpy's convention (rows M[i][j] - e_ij == 0 with multiplier u_ij, Lagrangian constant in symmetric M) the
        reported dual pairs with symmetric Z as  sum_ij u_ij * Z[i][j]  as well: one convention. *)
Section EntryDuals.
  Variable y : nat -> R.

  (** sum over the entries of one LMI, rows numbered from nb:  (- y row) * f i j e *)
  Fixpoint esum (f : nat -> nat -> edict -> R) (nb : nat) (es : list (nat * nat * edict)) : R :=
    match es with
    | [] => 0
    | ije :: rest => (- y nb) * f (fst (fst ije)) (snd (fst ije)) (snd ije) + esum f (S nb) rest
    end.

  (** ... of the LMI that owns bar variable j *)
  Fixpoint entries_pair (f : nat -> nat -> edict -> R) (j kb nb : nat) (l : sent) : R :=
    match l with
    | [] => 0
    | SC _ _ :: rest => entries_pair f j kb (S nb) rest
    | LMI m :: rest =>
        (if Nat.eqb j kb then esum f nb (entries m) else 0)
        + entries_pair f j (S kb) (nb + length (entries m))%nat rest
    end.

  Lemma ysum_entry_rows j kb Z : symG Z -> (1 <= j)%nat -> forall es nb,
    ysum y (bar_val j Z) (map (fun ije => lmi_row kb (fst (fst ije)) (snd (fst ije)) (snd ije)) es) nb
    = if Nat.eqb j kb then esum (fun i jj _ => Z i jj) nb es else 0.
  Proof.
    intros Hs Hj. induction es as [|[[i jj] e] es IH]; intros nb; cbn [map ysum esum fst snd].
    - destruct (Nat.eqb j kb); reflexivity.
    - rewrite IH. unfold bar_val, lmi_row. cbn [r_bar lsum fst snd].
      destruct (Nat.eqb_spec j 0) as [->|_]; [lia|].
      destruct (Nat.eqb j kb).
      + unfold wmat_read. cbn [lsum fst snd]. rewrite (coupling_read Z i jj Hs), Q2R_one. lra.
      + lra.
  Qed.

  (** (1) the pairing of the reported dual of the LMI owning bar variable j with a symmetric Z *)
  Theorem exposed_is_sym_entries Z j : symG Z -> (1 <= j)%nat -> forall l kb nb, (1 <= kb)%nat ->
    ysum y (bar_val j Z) (rows_of kb l) nb = entries_pair (fun i jj _ => Z i jj) j kb nb l.
  Proof.
    intros Hs Hj. induction l as [|[e s|m] l IH]; intros kb nb Hkb; cbn [rows_of ysum entries_pair]; [reflexivity| |].
    - rewrite (IH kb (S nb) Hkb). unfold bar_val at 1, sc_row. cbn [r_bar lsum fst snd].
      destruct (Nat.eqb_spec j 0) as [->|_]; [lia|]. lra.
    - rewrite ysum_app, map_length, (ysum_entry_rows j kb Z Hs Hj), (IH (S kb)) by lia. reflexivity.
  Qed.

  Variable x : nat -> R.
  Variable G : nat -> nat -> R.
  Hypothesis Gsym : symG G.

  Definition zeroM : nat -> nat -> R := fun _ _ => 0.
  Definition XG : nat -> nat -> nat -> R := fun j => if Nat.eqb j 0 then G else zeroM.

  Lemma XG_sym j : symG (XG j).
  Proof. unfold XG. destruct (Nat.eqb j 0); [exact Gsym|intros a b; reflexivity]. Qed.

  Lemma wmat_read_zero wm : wmat_read zeroM wm = 0.
  Proof.
    unfold wmat_read. induction wm as [|[q tr] wm IH]; cbn [lsum fst snd]; [reflexivity|]. rewrite IH.
    assert (H : tri_read zeroM tr = 0).
    { unfold tri_read. induction tr as [|t tr IHt]; cbn [lsum]; [reflexivity|]. rewrite IHt.
      unfold tri_val, zeroM. destruct (Nat.eqb (fst (fst t)) (snd (fst t))); lra. }
    rewrite H. lra.
  Qed.

  Lemma bar_val_zero j r : bar_val j zeroM r = 0.
  Proof.
    unfold bar_val. induction (r_bar r) as [|[a wm] rb IH]; cbn [lsum fst snd]; [reflexivity|].
    rewrite IH. destruct (Nat.eqb j a); [rewrite wmat_read_zero|]; lra.
  Qed.

  Lemma ysum_zero f rows : (forall r, f r = 0) -> forall i0, ysum y f rows i0 = 0.
  Proof. intros H. induction rows as [|r rows IH]; intros i0; cbn [ysum]; [reflexivity|]. rewrite IH, H. lra. Qed.

  (** sum over ALL LMI entries of  U_kij * e_kij(G,F),  U_kij = - y[row of the entry] *)
  Fixpoint cert_entries (nb : nat) (l : sent) : R :=
    match l with
    | [] => 0
    | SC _ _ :: rest => cert_entries (S nb) rest
    | LMI m :: rest => esum (fun _ _ e => evalGF G x e) nb (entries m)
                       + cert_entries (nb + length (entries m))%nat rest
    end.

  Lemma ysum_entry_rows_val kb : (1 <= kb)%nat -> forall es nb,
    (forall ije, In ije es -> eND (snd ije)) ->
    ysum y (row_val x XG) (map (fun ije => lmi_row kb (fst (fst ije)) (snd (fst ije)) (snd ije)) es) nb
    = - esum (fun _ _ e => evalGF G x e) nb es
      + ysum y (fun r => Q2R (bound_value (r_bnd r)))
          (map (fun ije => lmi_row kb (fst (fst ije)) (snd (fst ije)) (snd ije)) es) nb.
  Proof.
    intros Hkb. induction es as [|[[i jj] e] es IH]; intros nb Hnd; cbn [map ysum esum fst snd]; [lra|].
    rewrite IH by (intros ije H; apply Hnd; right; exact H).
    rewrite (lmi_row_val x XG XG_sym kb i jj e (Hnd (i, jj, e) (or_introl eq_refl))).
    unfold lmi_row, bound_value. cbn [r_bnd fst snd]. rewrite Q2R_opp.
    unfold XG. destruct (Nat.eqb_spec kb 0) as [->|_]; [lia|]. cbn [Nat.eqb]. unfold zeroM. lra.
  Qed.

  Lemma ysum_rows_of_entries : forall l kb nb, (1 <= kb)%nat -> wfR l ->
    ysum y (row_val x XG) (rows_of kb l) nb
    = cert_scalars y x XG nb l - cert_entries nb l + dual_obj y (rows_of kb l) nb.
  Proof.
    unfold dual_obj.
    induction l as [|[e s|m] l IH]; intros kb nb Hkb Hwf; cbn [rows_of ysum cert_scalars cert_entries]; [lra| |].
    - inversion Hwf as [|? ? He Hwf']; subst. cbn [wfR_item] in He.
      rewrite (IH kb (S nb) Hkb Hwf'), (sc_row_val x XG XG_sym e s He).
      unfold sc_row. cbn [r_bnd]. rewrite sc_bound_value. lra.
    - inversion Hwf as [|? ? Hm Hwf']; subst. cbn [wfR_item] in Hm.
      rewrite !ysum_app, map_length, (IH (S kb) _ ltac:(lia) Hwf'), (ysum_entry_rows_val kb Hkb _ nb Hm). lra.
  Qed.

  (** (2) the certificate identity with the entry duals, for LMIs symmetric as written or not *)
  Theorem duals_identity_entries l pc ec obj :
    wfR l -> dual_eq (sdp_of l pc ec obj) y ->
    x obj - dual_obj y (rows_of 1 l) 0
    = cert_scalars y x XG 0 l - exposed y l 0 G - cert_entries 0 l.
  Proof.
    intros Hwf Hd.
    assert (Hr : bars_in_range (sdp_of l pc ec obj)).
    { unfold bars_in_range, sdp_of. cbn [d_rows d_bars length]. rewrite map_length.
      exact (rows_of_bars_in_range l 1 (le_n 1)). }
    pose proof (lagrangian_identity (sdp_of l pc ec obj) y Hr Hd x XG) as H.
    unfold obj_val, c_val, cbar_val, Sbar_pair, cbar_val in H.
    unfold sdp_of in H. cbn [d_c d_barc d_bars d_rows lsum fst snd length] in H.
    rewrite map_length, sumn_zero, Q2R_one in H.
    rewrite (ysum_rows_of_entries l 1 0 (le_n 1) Hwf) in H.
    rewrite sumn_shift in H. unfold exposed.
    rewrite (sumn_ext _ (fun k => 0 - ysum y (bar_val (S k) (XG (S k))) (rows_of 1 l) 0) (fun _ => 0)) in H
      by (intros k _; unfold XG; cbn [Nat.eqb]; rewrite (ysum_zero _ _ (bar_val_zero (S k))); lra).
    rewrite sumn_zero in H. unfold XG at 2 in H. cbn [Nat.eqb] in H. lra.
  Qed.
End EntryDuals.

Lemma exposed_entries (y : nat -> R) (Z : nat -> nat -> R) (j : nat) : symG Z -> (1 <= j)%nat ->
  forall l, exposed y l j Z = entries_pair y (fun a b _ => Z a b) j 1 0 l.
Proof. intros Hs Hj l. exact (exposed_is_sym_entries y Z j Hs Hj l 1 0 (le_n 1)). Qed.

(** (3) cvxpy's convention for one n x n LMI: rows  M[i][j] - e_ij == 0  with multipliers u, the matrix variable's
    dual S; the part of the Lagrangian that depends on M is  <S,M> - sum_ij u_ij (M_ij - E_ij).  Constant in
    symmetric M  ==>  <S,Z> = sum_ij u_ij Z_ij  for every symmetric Z: reported dual = sym(entries_dual), as in (1). *)
Definition msum (n : nat) (f : nat -> nat -> R) : R := sumn n (fun i => sumn n (fun j => f i j)).

Lemma msum_ext n f g : (forall i j, f i j = g i j) -> msum n f = msum n g.
Proof. intros H. unfold msum. apply sumn_ext. intros i _. apply sumn_ext. intros j _. apply H. Qed.

Lemma msum_minus n f g : msum n (fun i j => f i j - g i j) = msum n f - msum n g.
Proof.
  unfold msum.
  rewrite (sumn_ext n (fun i => sumn n (fun j => f i j - g i j))
             (fun i => sumn n (fun j => f i j) + -1 * sumn n (fun j => g i j))).
  - rewrite sumn_plus, sumn_scal. lra.
  - intros i _. rewrite <- sumn_scal, <- sumn_plus. apply sumn_ext. intros j _. lra.
Qed.

Lemma msum_zero n : msum n (fun _ _ => 0) = 0.
Proof. unfold msum. rewrite (sumn_ext n _ (fun _ => 0)) by (intros; apply sumn_zero). apply sumn_zero. Qed.

Definition cvx_lag (n : nat) (S u E M : nat -> nat -> R) : R :=
  msum n (fun i j => S i j * M i j) - msum n (fun i j => u i j * (M i j - E i j)).

Theorem cvxpy_entry_convention n S u E :
  (forall M, symG M -> cvx_lag n S u E M = cvx_lag n S u E (fun _ _ => 0)) ->
  forall Z, symG Z -> msum n (fun i j => S i j * Z i j) = msum n (fun i j => u i j * Z i j).
Proof.
  intros H Z HZ. specialize (H Z HZ). unfold cvx_lag in H.
  rewrite (msum_ext n (fun i j => u i j * (Z i j - E i j)) (fun i j => u i j * Z i j - u i j * E i j)) in H
    by (intros; lra).
  rewrite (msum_ext n (fun i j => u i j * (0 - E i j)) (fun i j => 0 - u i j * E i j)) in H by (intros; lra).
  rewrite (msum_ext n (fun i j => S i j * 0) (fun _ _ => 0)) in H by (intros; lra).
  rewrite !msum_minus, !msum_zero in H. lra.
Qed.

(** both back-ends: if they report the same dual matrix for the LMI owning bar variable j (same functional on
    symmetric matrices), their entry duals have the same symmetric part *)
Theorem entry_duals_agree (y : nat -> R) l j n S u E :
  (1 <= j)%nat ->
  (forall M, symG M -> cvx_lag n S u E M = cvx_lag n S u E (fun _ _ => 0)) ->
  (forall Z, symG Z -> exposed y l j Z = msum n (fun a b => S a b * Z a b)) ->
  forall Z, symG Z -> entries_pair y (fun a b _ => Z a b) j 1 0 l = msum n (fun a b => u a b * Z a b).
Proof.
  intros Hj Hc Hsame Z HZ.
  rewrite <- (exposed_is_sym_entries y Z j HZ Hj l 1 0 (le_n 1)).
  fold (exposed y l j Z). rewrite (Hsame Z HZ). exact (cvxpy_entry_convention n S u E Hc Z HZ).
Qed.
