(** C05 — lemmas about the translation of an expression to solver data (Model/Matrices.v). *)
From Coq Require Import List QArith Reals Qreals Lra Bool Arith Lia FinFun.
From PV Require Import Model.Dict Model.Terms Model.Matrices Spec.GramSem
     Proofs.DictLemmas Proofs.SemLemmas Proofs.C05Spec.
Import ListNotations.
Local Open Scope R_scope.

(* ------------------------------------------------------------------ finite sums *)
Lemma sumn_ext n f g : (forall i, (i < n)%nat -> f i = g i) -> sumn n f = sumn n g.
Proof.
  induction n as [|n IH]; cbn; intros H; [reflexivity|].
  rewrite IH by (intros i Hi; apply H; lia). rewrite (H n) by lia. reflexivity.
Qed.

Lemma sumn_plus n f g : sumn n (fun i => f i + g i) = sumn n f + sumn n g.
Proof. induction n as [|n IH]; cbn; [lra|rewrite IH; lra]. Qed.

Lemma sumn_scal n c f : sumn n (fun i => c * f i) = c * sumn n f.
Proof. induction n as [|n IH]; cbn; [lra|rewrite IH; lra]. Qed.

Lemma sumn_zero n : sumn n (fun _ => 0) = 0.
Proof. induction n as [|n IH]; cbn; [lra|rewrite IH; lra]. Qed.

Lemma sumn_delta n a x :
  sumn n (fun i => if Nat.eqb i a then x else 0) = if Nat.ltb a n then x else 0.
Proof.
  induction n as [|n IH]; cbn [sumn]; [reflexivity|]. rewrite IH.
  destruct (Nat.eqb_spec n a) as [->|Hne].
  - rewrite Nat.ltb_irrefl. replace (a <? S a)%nat with true by (symmetry; apply Nat.ltb_lt; lia). lra.
  - destruct (Nat.ltb_spec a n), (Nat.ltb_spec a (S n)); try lia; lra.
Qed.

Lemma sumn_swap n m (a : nat -> nat -> R) :
  sumn n (fun i => sumn m (fun j => a i j)) = sumn m (fun j => sumn n (fun i => a i j)).
Proof.
  induction n as [|n IH]; cbn [sumn].
  - rewrite sumn_zero. reflexivity.
  - rewrite IH, <- sumn_plus. reflexivity.
Qed.

Lemma sumn2_delta n a b x :
  (a < n)%nat -> (b < n)%nat ->
  sumn n (fun i => sumn n (fun j => if Nat.eqb i a && Nat.eqb j b then x else 0)) = x.
Proof.
  intros Ha Hb.
  rewrite (sumn_ext n _ (fun i => if Nat.eqb i a then x else 0)).
  - rewrite sumn_delta. apply Nat.ltb_lt in Ha. rewrite Ha. reflexivity.
  - intros i _. destruct (Nat.eqb i a); cbn [andb].
    + rewrite sumn_delta. apply Nat.ltb_lt in Hb. rewrite Hb. reflexivity.
    + apply sumn_zero.
Qed.

Lemma lsum_app {A} (f : A -> R) l1 l2 : lsum f (l1 ++ l2) = lsum f l1 + lsum f l2.
Proof. induction l1 as [|x l1 IH]; cbn; [lra|rewrite IH; lra]. Qed.

Lemma lsum_ext_in {A} (f g : A -> R) l : (forall x, In x l -> f x = g x) -> lsum f l = lsum g l.
Proof.
  induction l as [|x l IH]; cbn; intros H; [reflexivity|].
  rewrite (H x) by (left; reflexivity). rewrite IH by (intros y Hy; apply H; right; exact Hy). reflexivity.
Qed.

Lemma lsum_plus {A} (f g : A -> R) l : lsum (fun x => f x + g x) l = lsum f l + lsum g l.
Proof. induction l as [|x l IH]; cbn; [lra|rewrite IH; lra]. Qed.

Lemma lsum_plus_minus {A} (f g h : A -> R) l :
  lsum (fun x => f x + g x - h x) l = lsum f l + lsum g l - lsum h l.
Proof. induction l as [|x l IH]; cbn; [lra|rewrite IH; lra]. Qed.

(* ------------------------------------------------------------------ rationals *)
Lemma Q2R_0' : Q2R 0 = 0. Proof. exact RMicromega.Q2R_0. Qed.

Lemma Q2R_half_sum a b : Q2R ((a + b) / 2) = (Q2R a + Q2R b) / 2.
Proof.
  unfold Qdiv. rewrite Q2R_mult, Q2R_plus, Q2R_inv by (intros H; discriminate H).
  rewrite Q2R_2. lra.
Qed.

(* ------------------------------------------------------------------ evalGF as a dictionary sum *)
Section GF.
  Variable G : nat -> nat -> R.
  Variable F : nat -> R.

  Notation eND := (NoDupKeys ekey).

  Lemma evalGF_dsum d : evalGF G F d = dsum ekey (evalKGF G F) d.
  Proof. induction d as [|[k q] d IH]; cbn; [reflexivity|rewrite IH; reflexivity]. Qed.

  Lemma evalGF_lsum d : evalGF G F d = lsum (fun kw => Q2R (snd kw) * evalKGF G F (fst kw)) d.
  Proof. induction d as [|[k q] d IH]; cbn; [reflexivity|rewrite IH; reflexivity]. Qed.

  Lemma dsum_lsum (val : ekey -> R) d : dsum ekey val d = lsum (fun kw => Q2R (snd kw) * val (fst kw)) d.
  Proof. induction d as [|[k q] d IH]; cbn; [reflexivity|rewrite IH; reflexivity]. Qed.

  (** the algebra of Model/Terms.v under the Gram reading (same proofs as for [evalE]) *)
  Lemma evalGF_add a b : eND a -> eND b -> evalGF G F (x_add a b) = evalGF G F a + evalGF G F b.
  Proof.
    intros Ha Hb. unfold x_add, emerge. rewrite !evalGF_dsum, dsum_prune.
    apply (dsum_merge ekey ekey_eqb ekey_eqb_spec); assumption.
  Qed.
  Lemma evalGF_scal c a : evalGF G F (x_scal c a) = Q2R c * evalGF G F a.
  Proof. unfold x_scal. rewrite !evalGF_dsum. apply dsum_scale. Qed.
  Lemma evalGF_sub a b : eND a -> eND b -> evalGF G F (x_sub a b) = evalGF G F a - evalGF G F b.
  Proof.
    intros Ha Hb. unfold x_sub, x_neg. rewrite evalGF_add; [|exact Ha|apply NoDupKeys_scale; exact Hb].
    rewrite evalGF_scal, Q2R_m1. lra.
  Qed.

  (* ---------------------------------------------------------------- dense *)
  Definition cell (r : dense) (k : ekey) : Q :=
    match k with KF e => dF r e | KG i j => dG r i j | K1 => dC r end.

  Lemma dense_step_val n m acc k w :
    key_in_bounds n m k = true ->
    dense_val G F n m (dense_step acc (k, w))
    = dense_val G F n m acc + (Q2R w - Q2R (cell acc k)) * evalKGF G F k.
  Proof.
    intros Hb. unfold dense_val, dense_step. destruct k as [e|a b|]; cbn [fst snd dG dF dC cell evalKGF key_in_bounds] in *.
    - apply Nat.ltb_lt in Hb.
      rewrite (sumn_ext m (fun k => Q2R (fset (dF acc) e w k) * F k)
                 (fun k => Q2R (dF acc k) * F k + (if Nat.eqb k e then (Q2R w - Q2R (dF acc e)) * F e else 0))).
      + rewrite sumn_plus, sumn_delta. apply Nat.ltb_lt in Hb. rewrite Hb. lra.
      + intros k _. unfold fset. destruct (Nat.eqb_spec k e) as [->|]; lra.
    - apply andb_true_iff in Hb as [Ha Hb]. apply Nat.ltb_lt in Ha, Hb.
      rewrite (sumn_ext n (fun i => sumn n (fun j => Q2R (gset (dG acc) a b w i j) * G i j))
                 (fun i => sumn n (fun j => Q2R (dG acc i j) * G i j)
                           + sumn n (fun j => if Nat.eqb i a && Nat.eqb j b
                                              then (Q2R w - Q2R (dG acc a b)) * G a b else 0))).
      + rewrite sumn_plus, sumn2_delta by assumption. lra.
      + intros i _. rewrite <- sumn_plus. apply sumn_ext. intros j _. unfold gset.
        destruct (Nat.eqb_spec i a) as [->|]; destruct (Nat.eqb_spec j b) as [->|]; cbn [andb]; lra.
    - lra.
  Qed.

  Lemma cell_step_other acc k w k' : k' <> k -> cell (dense_step acc (k, w)) k' = cell acc k'.
  Proof.
    intros Hne. unfold dense_step.
    destruct k as [e|a b|]; destruct k' as [e'|a' b'|]; cbn [fst snd cell dG dF dC]; try reflexivity.
    - unfold fset. destruct (Nat.eqb_spec e' e); [congruence|reflexivity].
    - unfold gset. destruct (Nat.eqb_spec a' a); destruct (Nat.eqb_spec b' b); cbn [andb]; try reflexivity.
      congruence.
    - congruence.
  Qed.

  Lemma fold_dense n m : forall l acc,
      eND l ->
      (forall kw, In kw l -> key_in_bounds n m (fst kw) = true) ->
      (forall k, In k (keys l) -> Q2R (cell acc k) = 0) ->
      dense_val G F n m (fold_left dense_step l acc) = dense_val G F n m acc + evalGF G F l.
  Proof.
    induction l as [|[k w] l IH]; intros acc Hnd Hb Hz; cbn [fold_left evalGF]; [lra|].
    inversion Hnd as [|? ? Hni Hnd']; subst.
    rewrite IH.
    - rewrite (dense_step_val n m) by (apply (Hb (k, w)); left; reflexivity).
      rewrite (Hz k) by (left; reflexivity). lra.
    - exact Hnd'.
    - intros kw Hin. apply Hb. right. exact Hin.
    - intros k' Hin. rewrite cell_step_other.
      + apply Hz. right. exact Hin.
      + intros ->. apply Hni. exact Hin.
  Qed.

  Lemma symmetrize_val n g :
    symG G ->
    sumn n (fun i => sumn n (fun j => Q2R (symmetrize_G g i j) * G i j))
    = sumn n (fun i => sumn n (fun j => Q2R (g i j) * G i j)).
  Proof.
    intros Hs. set (a := fun i j => Q2R (g i j) * G i j).
    rewrite (sumn_ext n _ (fun i => sumn n (fun j => / 2 * a i j) + sumn n (fun j => / 2 * a j i))).
    - rewrite sumn_plus. rewrite (sumn_swap n n (fun i j => / 2 * a j i)).
      rewrite <- sumn_plus. apply sumn_ext. intros i _. rewrite <- sumn_plus. apply sumn_ext. intros j _. unfold a. lra.
    - intros i _. rewrite <- sumn_plus. apply sumn_ext. intros j _. unfold symmetrize_G, a.
      rewrite Q2R_half_sum, (Hs j i). lra.
  Qed.

  Lemma in_bounds_spec n m x :
    in_bounds n m x = true -> forall kw, In kw (dict_of x) -> key_in_bounds n m (fst kw) = true.
  Proof. unfold in_bounds. intros H kw Hin. rewrite forallb_forall in H. apply H. exact Hin. Qed.

  Theorem dense_correct n m x :
    symG G -> eND (dict_of x) -> in_bounds n m x = true ->
    dense_val G F n m (expression_to_matrices x) = evalGF G F (dict_of x).
  Proof.
    intros Hs Hnd Hb. unfold expression_to_matrices.
    assert (H0 : dense_val G F n m dense0 = 0).
    { unfold dense_val, dense0. cbn [dG dF dC]. rewrite Q2R_0'.
      rewrite (sumn_ext n _ (fun _ => 0)), sumn_zero.
      - rewrite (sumn_ext m _ (fun _ => 0)), sumn_zero; [lra|]. intros; cbv beta; lra.
      - intros i _. rewrite (sumn_ext n _ (fun _ => 0)), sumn_zero; [reflexivity|]. intros; cbv beta; lra. }
    assert (Hraw : forall r, dense_val G F n m (mkDense (symmetrize_G (dG r)) (dF r) (dC r)) = dense_val G F n m r).
    { intros r. unfold dense_val. cbn [dG dF dC]. rewrite symmetrize_val by exact Hs. reflexivity. }
    rewrite Hraw. destruct x as [c|d].
    - (* leaf: Fweights[c] += 1 is the step (KF c, 0 + 1) from zeros *)
      change (dense_leaf c) with (dense_step dense0 (KF c, (dF dense0 c + 1)%Q)).
      rewrite (dense_step_val n m) by (apply (in_bounds_spec n m (ELeaf c) Hb (KF c, 1%Q)); left; reflexivity).
      rewrite H0. cbn [cell dense0 dF dict_of evalGF evalKGF]. rewrite Q2R_0'.
      replace (Q2R (0 + 1)) with 1 by (unfold Q2R; cbn; lra). rewrite Q2R_1. lra.
    - cbn [dict_of] in *. unfold dense_loop. rewrite (fold_dense n m d dense0 Hnd).
      + rewrite H0. lra.
      + apply (in_bounds_spec n m (EComp d) Hb).
      + intros k _. destruct k; cbn; apply Q2R_0'.
  Qed.

  (* ---------------------------------------------------------------- sparse *)
  Definition sp_contrib (d : edict) (kw : ekey * Q) : R :=
    match fst kw with
    | KF e => Q2R (snd kw) * F e
    | KG i j =>
        match lookup ekey_eqb (KG j i) d with
        | Some ws => if Nat.leb j i then tri_val G (i, j, ((snd kw + ws) / 2)%Q) else 0
        | None => tri_val G (Nat.max i j, Nat.min i j, ((snd kw + 0) / 2)%Q)
        end
    | K1 => Q2R (snd kw)
    end.

  Lemma fold_sparse d : forall l acc,
      eND l ->
      (In K1 (keys l) -> Q2R (sC acc) = 0) ->
      sparse_val G F (fold_left (sparse_step d) l acc) = sparse_val G F acc + lsum (sp_contrib d) l.
  Proof.
    induction l as [|[k w] l IH]; intros acc Hnd Hc; cbn [fold_left lsum]; [lra|].
    inversion Hnd as [|? ? Hni Hnd']; subst.
    rewrite IH; [|exact Hnd'|].
    - unfold sparse_step, sp_contrib, sparse_val. cbn [fst snd].
      destruct k as [e|i j|].
      + cbn [sG sF sC]. rewrite lsum_app. cbn [lsum fst snd]. lra.
      + destruct (lookup ekey_eqb (KG j i) d) as [ws|].
        * destruct (Nat.leb j i); cbn [sG sF sC]; [rewrite lsum_app; cbn [lsum]|]; lra.
        * cbn [sG sF sC]. rewrite lsum_app. cbn [lsum]. lra.
      + cbn [sG sF sC]. rewrite Hc by (left; reflexivity). lra.
    - intros Hin. unfold sparse_step. cbn [fst snd]. destruct k as [e|i j|].
      + cbn [sC]. apply Hc. right. exact Hin.
      + destruct (lookup ekey_eqb (KG j i) d); [destruct (Nat.leb j i)|]; cbn [sC]; apply Hc; right; exact Hin.
      + exfalso. apply Hni. exact Hin.
  Qed.

  (** upper-triangle part of the Gram valuation: the device that pairs a key with its mirror *)
  Definition up (k : ekey) : R :=
    match k with KG a b => if Nat.ltb a b then G a b else 0 | _ => 0 end.

  Definition sw (d : edict) : edict := map (fun kv => (swap_key (fst kv), snd kv)) d.

  Lemma swap_key_invol k : swap_key (swap_key k) = k.
  Proof. destruct k; reflexivity. Qed.

  Lemma keys_sw d : keys (sw d) = map swap_key (keys d).
  Proof. unfold keys, sw. rewrite !map_map. reflexivity. Qed.

  Lemma eND_sw d : eND d -> eND (sw d).
  Proof.
    unfold NoDupKeys. rewrite keys_sw. apply Injective_map_NoDup.
    intros a b H. rewrite <- (swap_key_invol a), <- (swap_key_invol b), H. reflexivity.
  Qed.

  Lemma mem_sw k d : mem ekey_eqb k (sw d) = mem ekey_eqb (swap_key k) d.
  Proof.
    destruct (mem ekey_eqb (swap_key k) d) eqn:H.
    - apply (mem_true ekey ekey_eqb ekey_eqb_spec) in H. apply (mem_true ekey ekey_eqb ekey_eqb_spec).
      rewrite keys_sw. apply in_map_iff. exists (swap_key k). split; [apply swap_key_invol|exact H].
    - apply (mem_false ekey ekey_eqb ekey_eqb_spec) in H. apply (mem_false ekey ekey_eqb ekey_eqb_spec).
      rewrite keys_sw. intros Hin. apply in_map_iff in Hin as [k' [Hk' Hin]]. subst k.
      rewrite swap_key_invol in H. contradiction.
  Qed.

  Definition pairX (d : edict) (kw : ekey * Q) : R :=
    get ekey ekey_eqb (swap_key (fst kw)) d * up (swap_key (fst kw)).
  Definition pairY (d : edict) (kw : ekey * Q) : R :=
    if mem ekey_eqb (swap_key (fst kw)) d then Q2R (snd kw) * up (fst kw) else 0.

  Lemma pairing d : eND d -> lsum (pairX d) d = lsum (pairY d) d.
  Proof.
    intros Hnd.
    pose proof (dsum_split ekey ekey_eqb ekey_eqb_spec up (sw d) d (eND_sw d Hnd) Hnd) as H.
    assert (H1 : forall l, fold_right (fun '(k, _) acc => get ekey ekey_eqb k d * up k + acc) 0 (sw l)
                           = lsum (pairX d) l).
    { unfold sw, pairX. induction l as [|[k w] l IH]; cbn; [reflexivity|]. rewrite IH. reflexivity. }
    assert (H2 : forall l, dsum ekey up (filter (fun '(k, _) => negb (mem ekey_eqb k (sw d))) l)
                 = lsum (fun kw => if mem ekey_eqb (swap_key (fst kw)) d then 0 else Q2R (snd kw) * up (fst kw)) l).
    { induction l as [|[k w] l IH]; cbn [filter lsum fst snd]; [reflexivity|].
      rewrite mem_sw. destruct (mem ekey_eqb (swap_key k) d); cbn [negb dsum]; rewrite IH; lra. }
    rewrite H1, H2 in H. rewrite dsum_lsum in H.
    assert (H3 : lsum (fun kw => Q2R (snd kw) * up (fst kw)) d
                 = lsum (pairY d) d
                   + lsum (fun kw => if mem ekey_eqb (swap_key (fst kw)) d then 0 else Q2R (snd kw) * up (fst kw)) d).
    { rewrite <- lsum_plus. apply lsum_ext_in. intros kw _. unfold pairY.
      destruct (mem ekey_eqb (swap_key (fst kw)) d); lra. }
    lra.
  Qed.

  Lemma sp_contrib_pointwise d kw :
    symG G -> eND d -> In kw d ->
    sp_contrib d kw = Q2R (snd kw) * evalKGF G F (fst kw) + pairX d kw - pairY d kw.
  Proof.
    intros Hs Hnd Hin. destruct kw as [k w]. unfold sp_contrib, pairX, pairY. cbn [fst snd].
    destruct k as [e|a b|]; cbn [swap_key up evalKGF].
    - destruct (mem ekey_eqb (KF e) d); lra.
    - unfold get, mem. destruct (lookup ekey_eqb (KG b a) d) as [ws|] eqn:Hl.
      + destruct (Nat.leb_spec b a) as [Hle|Hlt].
        * unfold tri_val. cbn [fst snd]. destruct (Nat.eqb_spec a b) as [->|Hne].
          -- (* diagonal key: its mirror is itself *)
             rewrite (In_lookup ekey ekey_eqb ekey_eqb_spec (KG b b) w d Hnd Hin) in Hl. injection Hl as <-.
             rewrite Nat.ltb_irrefl, Q2R_half_sum. lra.
          -- replace (b <? a)%nat with true by (symmetry; apply Nat.ltb_lt; lia).
             replace (a <? b)%nat with false by (symmetry; apply Nat.ltb_ge; lia).
             rewrite Q2R_half_sum, (Hs b a). lra.
        * replace (b <? a)%nat with false by (symmetry; apply Nat.ltb_ge; lia).
          replace (a <? b)%nat with true by (symmetry; apply Nat.ltb_lt; lia). lra.
      + assert (Hne : a <> b).
        { intros ->. rewrite (In_lookup ekey ekey_eqb ekey_eqb_spec (KG b b) w d Hnd Hin) in Hl. discriminate. }
        unfold tri_val. cbn [fst snd].
        destruct (Nat.eqb_spec (Nat.max a b) (Nat.min a b)) as [He|_]; [lia|].
        rewrite Q2R_half_sum, Q2R_0'.
        destruct (Nat.le_ge_cases a b) as [Hab|Hab].
        * rewrite (Nat.max_r a b Hab), (Nat.min_l a b Hab), (Hs b a). lra.
        * rewrite (Nat.max_l a b Hab), (Nat.min_r a b Hab), (Hs b a). lra.
    - destruct (mem ekey_eqb K1 d); lra.
  Qed.

  Theorem sparse_correct x :
    symG G -> eND (dict_of x) ->
    sparse_val G F (expression_to_sparse_matrices x) = evalGF G F (dict_of x).
  Proof.
    intros Hs Hnd. destruct x as [c|d]; cbn [expression_to_sparse_matrices dict_of] in *.
    - unfold sparse_val, sparse_leaf. cbn. rewrite Q2R_0'. lra.
    - unfold sparse_loop. rewrite fold_sparse; [|exact Hnd|intros _; apply Q2R_0'].
      unfold sparse_val at 1. cbn [sparse0 sG sF sC lsum]. rewrite Q2R_0'.
      rewrite (lsum_ext_in (sp_contrib d)
                 (fun kw => Q2R (snd kw) * evalKGF G F (fst kw) + pairX d kw - pairY d kw) d)
        by (intros kw Hin; apply sp_contrib_pointwise; assumption).
      rewrite evalGF_lsum, lsum_plus_minus, (pairing d Hnd). lra.
  Qed.

  Corollary dense_sparse_agree n m x :
    symG G -> eND (dict_of x) -> in_bounds n m x = true ->
    dense_val G F n m (expression_to_matrices x) = sparse_val G F (expression_to_sparse_matrices x).
  Proof. intros Hs Hnd Hb. rewrite dense_correct, sparse_correct by assumption. reflexivity. Qed.

  (** the row sent for a performance metric: objective - metric <= 0 *)
  Lemma metric_row_holds tau e :
    eND e -> (holdsGF G F (c_le [(KF tau, 1%Q)] e) <-> F tau - evalGF G F e <= 0).
  Proof.
    intros He. unfold holdsGF, c_le. cbn [fst snd]. rewrite evalGF_sub; [|repeat constructor; intros []|exact He].
    cbn [evalGF evalKGF]. rewrite Q2R_1. split; intros; lra.
  Qed.

  (** every triple is lower-triangular, whatever the dictionary *)
  Lemma sparse_lower x : lower_triangular (expression_to_sparse_matrices x).
  Proof.
    unfold lower_triangular. destruct x as [c|d]; cbn [expression_to_sparse_matrices]; [constructor|].
    unfold sparse_loop.
    assert (H : forall l acc, Forall (fun t => (snd (fst t) <= fst (fst t))%nat) (sG acc) ->
                              Forall (fun t => (snd (fst t) <= fst (fst t))%nat) (sG (fold_left (sparse_step d) l acc))).
    { induction l as [|[k w] l IH]; intros acc Hacc; cbn [fold_left]; [exact Hacc|]. apply IH.
      unfold sparse_step. cbn [fst snd]. destruct k as [e|i j|]; cbn [sG]; try exact Hacc.
      destruct (lookup ekey_eqb (KG j i) d).
      - destruct (Nat.leb_spec j i); [|exact Hacc]. cbn [sG]. apply Forall_app. split; [exact Hacc|].
        constructor; [cbn; assumption|constructor].
      - cbn [sG]. apply Forall_app. split; [exact Hacc|]. constructor; [cbn; lia|constructor]. }
    apply H. constructor.
  Qed.
End GF.

(* ------------------------------------------------------------------ objective: max of tau under tau - m_k <= 0 *)
Lemma min_list_le m0 ms : min_list m0 ms <= m0 /\ Forall (fun m => min_list m0 ms <= m) ms.
Proof.
  unfold min_list. revert m0. induction ms as [|m ms IH]; intros m0; cbn [fold_left].
  - split; [lra|constructor].
  - destruct (IH (Rmin m0 m)) as [H1 H2]. split.
    + pose proof (Rmin_l m0 m). lra.
    + constructor; [pose proof (Rmin_r m0 m); lra|exact H2].
Qed.

Lemma min_list_glb m0 ms t : t <= m0 -> Forall (fun m => t <= m) ms -> t <= min_list m0 ms.
Proof.
  unfold min_list. revert m0. induction ms as [|m ms IH]; intros m0 H0 H; cbn [fold_left]; [exact H0|].
  inversion H; subst. apply IH; [|assumption]. apply Rmin_glb; assumption.
Qed.

Theorem max_min m0 ms :
  Forall (fun m => min_list m0 ms - m <= 0) (m0 :: ms)
  /\ (forall tau, Forall (fun m => tau - m <= 0) (m0 :: ms) -> tau <= min_list m0 ms).
Proof.
  split.
  - destruct (min_list_le m0 ms) as [H1 H2]. constructor; [lra|].
    eapply Forall_impl; [|exact H2]. cbn. intros; lra.
  - intros tau H. inversion H as [|? ? H0 H']; subst. apply min_list_glb; [lra|].
    eapply Forall_impl; [|exact H']. cbn. intros; lra.
Qed.
