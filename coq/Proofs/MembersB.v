(** Members of the smooth function classes and of the operator classes satisfy the reference
    conditions.

    Function classes over [dfn] (value + gradient map): SmoothConvexFunction, SmoothFunction,
    SmoothStronglyConvexFunction, SmoothConvexLipschitzFunction, RsiEbFunction,
    BlockSmoothConvexFunction.  Operator classes over [graph]: Monotone, StronglyMonotone,
    Cocoercive, NegativelyComonotone, Lipschitz, Nonexpansive (+ infimal displacement vector),
    LipschitzStronglyMonotone, CocoerciveStronglyMonotone.

    The three smooth classes share one lemma ([interp_gen]): a lower quadratic bound with modulus
    [m] (any real: 0 convex, mu strongly convex, -L lower curvature bound) and an upper quadratic
    bound [L], with (L - m) t = 1 given as an EQUATION, imply
      F y - F x + <grad F y, x - y> + m/2 |x - y|^2 + t/2 |m (x - y) - (grad F x - grad F y)|^2 <= 0
    (instantiate both bounds at z = x + t (m (x - y) - (grad F x - grad F y))).  Each class
    reference is this expression up to a rational identity closed by [field]. *)
From Coq Require Import Reals Lra Lia Psatz List.
From PV Require Import Base.IPS Spec.Reference Spec.Classes.
Import ListNotations.
Local Open Scope R_scope.

Section MembersB.
  Context {E : ips}.
  Implicit Types xi gi xj gj xs gs v : E.
  Implicit Types fi fj fs : R.

  Ltac bilin :=
    repeat (rewrite ?inner_add_l, ?inner_add_r, ?inner_scal_l, ?inner_scal_r,
                    ?inner_zero_l, ?inner_zero_r).
  Ltac bilin_in H :=
    repeat (rewrite ?inner_add_l, ?inner_add_r, ?inner_scal_l, ?inner_scal_r,
                    ?inner_zero_l, ?inner_zero_r in H).
  (** close [b <= 0] from [P : a <= 0] when [a = b] is a rational identity *)
  Ltac close_by P tac :=
    match type of P with
    | ?a <= 0 => match goal with |- ?b <= 0 => replace b with a; [exact P | tac] end
    end.

  Lemma nrm2_veq (a b : E) : veq a b -> nrm2 a = nrm2 b.
  Proof. intro H. unfold nrm2. apply veq_inner; exact H. Qed.

  Lemma nrm2_sub_swap (a b : E) : nrm2 (vsub a b) = nrm2 (vsub b a).
  Proof. unfold nrm2, vsub, vneg. bilin. rewrite (inner_sym E b a). ring. Qed.

  (** ** The generic interpolation lemma *)
  Definition lower_mod (m : R) (F : @dfn E) : Prop :=
    forall x y : E, dval F y >= dval F x + inner (dgrad F x) (vsub y x) + m / 2 * nrm2 (vsub y x).

  Lemma interp_alg m L t (F : dfn) (x y w : E) :
    (L - m) * t = 1 -> lower_mod m F -> quad_upper L F ->
    inner w w = m * inner (vsub x y) w - inner (dgrad F x) w + inner (dgrad F y) w ->
    dval F y - dval F x + inner (dgrad F y) (vsub x y) + m / 2 * nrm2 (vsub x y)
      + t / 2 * nrm2 w <= 0.
  Proof.
    intros Ht Hlo Hup Hw.
    pose proof (Hlo y (vadd x (vscal t w))) as A.
    pose proof (Hup x (vadd x (vscal t w))) as B.
    set (Gi := dgrad F x) in *. set (Gj := dgrad F y) in *.
    set (fz := dval F (vadd x (vscal t w))) in *.
    clearbody Gi Gj fz.
    unfold nrm2, vsub, vneg in *.
    bilin_in A. bilin_in B. bilin_in Hw. bilin.
    rewrite ?(inner_sym E y x), ?(inner_sym E w x), ?(inner_sym E w y) in *.
    set (ww := inner w w) in *. set (xw := inner x w) in *. set (yw := inner y w) in *.
    set (xx := inner x x) in *. set (xy := inner x y) in *. set (yy := inner y y) in *.
    set (giw := inner Gi w) in *. set (gjw := inner Gj w) in *.
    set (gjx := inner Gj x) in *. set (gjy := inner Gj y) in *.
    set (gix := inner Gi x) in *.
    pose proof (f_equal (Rmult t) Hw) as P1. cbv beta in P1.
    pose proof (f_equal (fun r => r * (t * ww)) Ht) as P2. cbv beta in P2.
    lra.
  Qed.

  Lemma w_self m (e a b w : E) :
    inner (vsub (vscal m e) (vsub a b)) w = m * inner e w - inner a w + inner b w.
  Proof. rewrite inner_sub_l, inner_scal_l, inner_sub_l. lra. Qed.

  Lemma interp_gen m L t (F : dfn) (x y : E) :
    (L - m) * t = 1 -> lower_mod m F -> quad_upper L F ->
    dval F y - dval F x + inner (dgrad F y) (vsub x y) + m / 2 * nrm2 (vsub x y)
      + t / 2 * nrm2 (vsub (vscal m (vsub x y)) (vsub (dgrad F x) (dgrad F y))) <= 0.
  Proof.
    intros Ht Hlo Hup. apply (interp_alg m L t F x y _ Ht Hlo Hup).
    unfold nrm2. apply w_self.
  Qed.

  (** expand every compound vector down to the opaque atoms [e], [Gi], [Gj] and orient them *)
  Ltac normalise_atoms P e Gi Gj :=
    unfold nrm2, vsub, vneg in P |- *; bilin_in P; bilin;
    rewrite ?(inner_sym E e Gi), ?(inner_sym E e Gj), ?(inner_sym E Gj Gi) in P;
    rewrite ?(inner_sym E e Gi), ?(inner_sym E e Gj), ?(inner_sym E Gj Gi).

  (** ** SmoothConvexFunction(L) *)
  Lemma mem_smooth_convex L (F : dfn) xi gi fi xj gj fj :
    0 < L -> smooth_convex_member L F ->
    genuine_grad F (xi, gi, fi) -> genuine_grad F (xj, gj, fj) ->
    ref_smooth_convex L xi gi xj gj fi fj <= 0.
  Proof.
    intros HL [Hcv Hup] [Hgi Hfi] [Hgj Hfj]. subst fi fj. unfold ref_smooth_convex.
    rewrite (veq_inner_l _ _ _ Hgj), (nrm2_veq _ _ (veq_sub _ _ _ _ Hgi Hgj)).
    set (t := 1 / L). assert (Ht : (L - 0) * t = 1) by (unfold t; field; lra).
    assert (Hlo : lower_mod 0 F) by (intros x y; pose proof (Hcv x y); lra).
    pose proof (interp_gen 0 L t F xi xj Ht Hlo Hup) as P.
    set (e := vsub xi xj) in *. set (Gi := dgrad F xi) in *. set (Gj := dgrad F xj) in *.
    clearbody e Gi Gj.
    normalise_atoms P e Gi Gj.
    close_by P ltac:(unfold t; field; lra).
  Qed.

  (** ** SmoothFunction(L) *)
  Lemma mem_smooth L (F : dfn) xi gi fi xj gj fj :
    0 < L -> smooth_member L F ->
    genuine_grad F (xi, gi, fi) -> genuine_grad F (xj, gj, fj) ->
    ref_smooth L xi gi xj gj fi fj <= 0.
  Proof.
    intros HL [Hup Hlow] [Hgi Hfi] [Hgj Hfj]. subst fi fj. unfold ref_smooth.
    rewrite (veq_inner_l _ _ (vsub xi xj) (veq_add _ _ _ _ Hgi Hgj)),
            (nrm2_veq _ _ (veq_sub _ _ _ _ Hgi Hgj)).
    set (t := 1 / (2 * L)). assert (Ht : (L - - L) * t = 1) by (unfold t; field; lra).
    assert (Hlo : lower_mod (- L) F) by (intros x y; pose proof (Hlow x y); lra).
    pose proof (interp_gen (- L) L t F xi xj Ht Hlo Hup) as P.
    set (e := vsub xi xj) in *. set (Gi := dgrad F xi) in *. set (Gj := dgrad F xj) in *.
    clearbody e Gi Gj.
    normalise_atoms P e Gi Gj.
    close_by P ltac:(unfold t; field; lra).
  Qed.

  (** ** SmoothStronglyConvexFunction(mu, L) *)
  Lemma mem_smooth_strongly_convex mu L (F : dfn) xi gi fi xj gj fj :
    0 <= mu < L -> smooth_strongly_convex_member mu L F ->
    genuine_grad F (xi, gi, fi) -> genuine_grad F (xj, gj, fj) ->
    ref_smooth_strongly_convex mu L xi gi xj gj fi fj <= 0.
  Proof.
    intros [Hmu HL] [Hsc Hup] [Hgi Hfi] [Hgj Hfj]. subst fi fj.
    unfold ref_smooth_strongly_convex.
    pose proof (veq_sub _ _ _ _ Hgi Hgj) as Hd.
    rewrite (veq_inner_l _ _ _ Hgj), (nrm2_veq _ _ Hd),
            (nrm2_veq _ _ (veq_sub _ _ _ _ (veq_refl (vsub xi xj)) (veq_scal (1 / L) _ _ Hd))).
    set (t := 1 / (L - mu)). assert (Ht : (L - mu) * t = 1) by (unfold t; field; lra).
    assert (Hlo : lower_mod mu F) by (intros x y; pose proof (Hsc x y); lra).
    pose proof (interp_gen mu L t F xi xj Ht Hlo Hup) as P.
    set (e := vsub xi xj) in *. set (Gi := dgrad F xi) in *. set (Gj := dgrad F xj) in *.
    clearbody e Gi Gj.
    normalise_atoms P e Gi Gj.
    close_by P ltac:(unfold t; field; lra).
  Qed.

  (** ** SmoothConvexLipschitzFunction(L, M): the smooth-convex condition and |g_i|^2 <= M^2 *)
  Lemma mem_scl_smooth_convex L M (F : dfn) xi gi fi xj gj fj :
    0 < L -> smooth_convex_lipschitz_member L M F ->
    genuine_grad F (xi, gi, fi) -> genuine_grad F (xj, gj, fj) ->
    ref_smooth_convex L xi gi xj gj fi fj <= 0.
  Proof. intros HL [HF _]. apply mem_smooth_convex; assumption. Qed.

  Lemma mem_scl_bound L M (F : dfn) xi gi fi :
    0 <= M -> smooth_convex_lipschitz_member L M F -> genuine_grad F (xi, gi, fi) ->
    ref_bounded_g M gi <= 0.
  Proof.
    intros HM [[Hcv _] Hlip] [Hgi _].
    unfold ref_bounded_g. rewrite (nrm2_veq _ _ Hgi).
    set (G := dgrad F xi) in *.
    set (y := vadd xi G).
    pose proof (Hcv xi y) as Hs. fold G in Hs.
    pose proof (Hlip y xi) as Hl.
    assert (E1 : inner G (vsub y xi) = nrm2 G).
    { unfold y, vsub, vneg, nrm2. bilin. ring. }
    assert (E2 : nrm2 (vsub y xi) = nrm2 G).
    { unfold y, vsub, vneg, nrm2. bilin. rewrite (inner_sym E G xi). ring. }
    rewrite E1 in Hs. rewrite E2 in Hl.
    set (n := nrm2 G) in *.
    set (D := dval F y - dval F xi) in *.
    assert (Hn : 0 <= n) by (unfold n, nrm2; apply inner_pos).
    assert (HnD : n <= D) by (unfold D; lra).
    assert (Hsq : n * n <= D * D) by (apply Rmult_le_compat; lra).
    assert (Hl' : D * D <= M ^ 2 * n) by (replace (D * D) with (D ^ 2) by ring; exact Hl).
    destruct (Rle_lt_dec n 0) as [Hz|Hpos].
    - pose proof (pow2_ge_0 M). lra.
    - assert (Hfin : n * n <= n * M ^ 2) by lra.
      apply Rmult_le_reg_l in Hfin; [lra|exact Hpos].
  Qed.

  (** ** RsiEbFunction(mu, L): conditions between the stationary sample (first) and any sample *)
  Lemma mem_rsi_strong_monotone mu L (F : dfn) xs gs fs xj gj fj :
    rsi_eb_member mu L F xs ->
    genuine_grad F (xs, gs, fs) -> genuine_grad F (xj, gj, fj) ->
    ref_strong_monotone mu xs gs xj gj <= 0.
  Proof.
    intros [Hst H] [Hgs _] [Hgj _]. unfold ref_strong_monotone.
    pose proof (veq_trans _ _ _ Hgs Hst) as Hz.
    destruct (H xj) as [Hrsi _].
    rewrite (veq_inner_l _ _ _ (veq_sub _ _ _ _ Hz Hgj)), (nrm2_sub_swap xs xj).
    set (G := dgrad F xj) in *. set (n := nrm2 (vsub xj xs)) in *.
    assert (E1 : inner (vsub vzero G) (vsub xs xj) = inner G (vsub xj xs)).
    { unfold vsub, vneg. bilin. ring. }
    rewrite E1. lra.
  Qed.

  Lemma mem_rsi_lipschitz mu L (F : dfn) xs gs fs xj gj fj :
    rsi_eb_member mu L F xs ->
    genuine_grad F (xs, gs, fs) -> genuine_grad F (xj, gj, fj) ->
    ref_lipschitz L xs gs xj gj <= 0.
  Proof.
    intros [Hst H] [Hgs _] [Hgj _]. unfold ref_lipschitz.
    pose proof (veq_trans _ _ _ Hgs Hst) as Hz.
    destruct (H xj) as [_ Heb].
    rewrite (nrm2_veq _ _ (veq_sub _ _ _ _ Hz Hgj)), (nrm2_sub_swap xs xj).
    set (G := dgrad F xj) in *. set (n := nrm2 (vsub xj xs)) in *.
    assert (E1 : nrm2 (vsub vzero G) = nrm2 G).
    { unfold nrm2, vsub, vneg. bilin. ring. }
    rewrite E1. lra.
  Qed.

  (** ** BlockSmoothConvexFunction *)
  Lemma linear_sub (M : E -> E) (a b : E) :
    linear M -> veq (M (vsub a b)) (vsub (M a) (M b)).
  Proof.
    intros [Hadd Hscal _ _]. unfold vsub, vneg.
    eapply veq_trans; [apply Hadd|]. apply veq_add; [apply veq_refl|apply Hscal].
  Qed.

  Lemma mem_block_smooth K (P : nat -> E -> E) (Ls : nat -> R) (F : dfn) k xi gi fi xj gj fj :
    (k < K)%nat -> 0 < Ls k -> block_smooth_convex_member K P Ls F ->
    genuine_grad F (xi, gi, fi) -> genuine_grad F (xj, gj, fj) ->
    ref_block_smooth (Ls k) xi xj gj (P k gi) (P k gj) fi fj <= 0.
  Proof.
    intros Hk HL [Hbp [Hcv Hbu]] [Hgi Hfi] [Hgj Hfj]. subst fi fj.
    pose proof (blk_lin _ _ Hbp k Hk) as Hlin.
    pose proof (Hbu k Hk) as Hup.
    set (Lk := Ls k) in *. set (Pk := P k) in *.
    unfold ref_block_smooth.
    set (Gi := dgrad F xi) in *. set (Gj := dgrad F xj) in *.
    set (d := vsub Gi Gj). set (q := Pk d).
    (* the block difference of the recorded gradients is P_k (Gi - Gj) *)
    assert (Hq : veq (vsub (Pk gi) (Pk gj)) q).
    { eapply veq_trans; [|apply veq_sym, linear_sub, Hlin].
      apply veq_sub; apply (lin_ext _ Hlin); assumption. }
    rewrite (veq_inner_l _ _ _ Hgj), (nrm2_veq _ _ Hq).
    (* <Gi - Gj, q> = |q|^2 : self-adjoint and idempotent *)
    assert (Hdq : inner Gi q - inner Gj q = nrm2 q).
    { rewrite <- inner_sub_l. fold d. unfold nrm2, q.
      pose proof (blk_sa _ _ Hbp k d (Pk d) Hk) as S. fold Pk in S. rewrite S.
      symmetry. apply veq_inner_r. apply (blk_idem _ _ Hbp k d Hk). }
    set (t := 1 / Lk). assert (Ht : Lk * t = 1) by (unfold t; field; lra).
    set (pd := Pk (vscal (- t) d)).
    assert (Hpd : veq pd (vscal (- t) q)) by (apply (lin_scal _ Hlin)).
    pose proof (Hup xi (vscal (- t) d)) as U. fold Gi pd in U.
    pose proof (Hcv xj (vadd xi pd)) as C. fold Gj in C.
    rewrite (veq_inner_r _ _ Gi Hpd), (nrm2_veq _ _ Hpd) in U.
    assert (E1 : inner Gj (vsub (vadd xi pd) xj) = inner Gj (vsub xi xj) + inner Gj pd).
    { unfold vsub, vneg. bilin. ring. }
    rewrite E1, (veq_inner_r _ _ Gj Hpd) in C.
    unfold nrm2 at 1 in U. bilin_in U. bilin_in C. fold (nrm2 q) in U.
    set (qq := nrm2 q) in *. set (giq := inner Gi q) in *. set (gjq := inner Gj q) in *.
    set (p := inner Gj (vsub xi xj)) in *.
    set (fz := dval F (vadd xi pd)) in *.
    pose proof (f_equal (Rmult t) Hdq) as P1. cbv beta in P1.
    pose proof (f_equal (fun r => r * (t * qq)) Ht) as P2. cbv beta in P2.
    replace (1 / (2 * Lk)) with (t / 2) by (unfold t; field; lra).
    lra.
  Qed.

  (** ** Operator classes: the reference is the defining inequality on the pair of graph points *)
  Lemma mem_monotone (A : graph) xi gi fi xj gj fj :
    monotone_op A -> genuine_op A (xi, gi, fi) -> genuine_op A (xj, gj, fj) ->
    ref_monotone xi gi xj gj <= 0.
  Proof.
    intros H Hi Hj. unfold ref_monotone. pose proof (H xi gi xj gj Hi Hj). lra.
  Qed.

  Lemma mem_strong_monotone mu (A : graph) xi gi fi xj gj fj :
    strongly_monotone_op mu A -> genuine_op A (xi, gi, fi) -> genuine_op A (xj, gj, fj) ->
    ref_strong_monotone mu xi gi xj gj <= 0.
  Proof.
    intros H Hi Hj. unfold ref_strong_monotone. pose proof (H xi gi xj gj Hi Hj). lra.
  Qed.

  Lemma mem_cocoercive beta (A : graph) xi gi fi xj gj fj :
    cocoercive_op beta A -> genuine_op A (xi, gi, fi) -> genuine_op A (xj, gj, fj) ->
    ref_cocoercive beta xi gi xj gj <= 0.
  Proof.
    intros H Hi Hj. unfold ref_cocoercive. pose proof (H xi gi xj gj Hi Hj). lra.
  Qed.

  Lemma mem_neg_comonotone rho (A : graph) xi gi fi xj gj fj :
    neg_comonotone_op rho A -> genuine_op A (xi, gi, fi) -> genuine_op A (xj, gj, fj) ->
    ref_neg_comonotone rho xi gi xj gj <= 0.
  Proof.
    intros H Hi Hj. unfold ref_neg_comonotone. pose proof (H xi gi xj gj Hi Hj). lra.
  Qed.

  Lemma mem_lipschitz L (A : graph) xi gi fi xj gj fj :
    lipschitz_op L A -> genuine_op A (xi, gi, fi) -> genuine_op A (xj, gj, fj) ->
    ref_lipschitz L xi gi xj gj <= 0.
  Proof.
    intros H Hi Hj. unfold ref_lipschitz. pose proof (H xi gi xj gj Hi Hj). lra.
  Qed.

  Lemma mem_nonexpansive (A : graph) xi gi fi xj gj fj :
    nonexpansive_op A -> genuine_op A (xi, gi, fi) -> genuine_op A (xj, gj, fj) ->
    ref_nonexpansive xi gi xj gj <= 0.
  Proof.
    intros H Hi Hj. unfold ref_nonexpansive. pose proof (H xi gi xj gj Hi Hj) as P.
    replace (1 ^ 2) with 1 in P by ring. lra.
  Qed.

  Lemma mem_inf_displacement (A : graph) v xi gi fi :
    nonexpansive_with_displacement A v -> genuine_op A (xi, gi, fi) ->
    ref_inf_displacement v xi gi <= 0.
  Proof.
    intros [_ H] Hi. unfold ref_inf_displacement, nrm2. pose proof (H xi gi Hi) as P.
    rewrite inner_sub_r in P. rewrite (inner_sym E (vsub xi gi) v). lra.
  Qed.

  Lemma mem_nonexpansive_v (A : graph) v xi gi fi xj gj fj :
    nonexpansive_with_displacement A v -> genuine_op A (xi, gi, fi) -> genuine_op A (xj, gj, fj) ->
    ref_nonexpansive xi gi xj gj <= 0.
  Proof. intros [H _]. apply mem_nonexpansive, H. Qed.

  (** LipschitzStronglyMonotoneOperator(mu, L) *)
  Lemma mem_lsm_strong_monotone mu L (A : graph) xi gi fi xj gj fj :
    lipschitz_strongly_monotone_op mu L A ->
    genuine_op A (xi, gi, fi) -> genuine_op A (xj, gj, fj) ->
    ref_strong_monotone mu xi gi xj gj <= 0.
  Proof. intros [H _]. apply mem_strong_monotone, H. Qed.

  Lemma mem_lsm_lipschitz mu L (A : graph) xi gi fi xj gj fj :
    lipschitz_strongly_monotone_op mu L A ->
    genuine_op A (xi, gi, fi) -> genuine_op A (xj, gj, fj) ->
    ref_lipschitz L xi gi xj gj <= 0.
  Proof. intros [_ H]. apply mem_lipschitz, H. Qed.

  (** CocoerciveStronglyMonotoneOperator(mu, beta) *)
  Lemma mem_csm_strong_monotone mu beta (A : graph) xi gi fi xj gj fj :
    cocoercive_strongly_monotone_op mu beta A ->
    genuine_op A (xi, gi, fi) -> genuine_op A (xj, gj, fj) ->
    ref_strong_monotone mu xi gi xj gj <= 0.
  Proof. intros [H _]. apply mem_strong_monotone, H. Qed.

  Lemma mem_csm_cocoercive mu beta (A : graph) xi gi fi xj gj fj :
    cocoercive_strongly_monotone_op mu beta A ->
    genuine_op A (xi, gi, fi) -> genuine_op A (xj, gj, fj) ->
    ref_cocoercive beta xi gi xj gj <= 0.
  Proof. intros [_ H]. apply mem_cocoercive, H. Qed.
End MembersB.

(** * Non-vacuity: concrete members with genuine samples *)

Ltac sq2 x y :=
  let H := fresh "Hsq" in
  pose proof (Rle_0_sqr (y - x)) as H; unfold Rsqr in H; nra.
Ltac op_case A :=
  let x := fresh "x" in let y := fresh "y" in let u := fresh "u" in let v := fresh "v" in
  let Hu := fresh "Hu" in let Hv := fresh "Hv" in
  intros x u y v Hu Hv; unfold A in Hu, Hv; subst u v;
  unfold vsub, vneg, nrm2; cbn; change R in x, y; sq2 x y.


(** x |-> x^2 on the real line: 2-smooth convex, 2-smooth, 1-strongly convex and 2-smooth. *)
Example smooth_classes_nonvacuous :
  let F := @mkD R1 (fun x : R => x * x) (fun x : R => 2 * x) in
  smooth_convex_member 2 F /\ smooth_member 2 F /\ smooth_strongly_convex_member 1 2 F /\
  genuine_grad F (1, 2, 1) /\ genuine_grad F (0, 0, 0) /\
  ref_smooth_convex 2 (1 : R1) (2 : R1) (0 : R1) (0 : R1) 1 0 <= 0.
Proof.
  intro F.
  assert (Hcv : grad_convex F).
  { intros x y. unfold F, vsub, vneg. cbn. change R in x, y. sq2 x y. }
  assert (Hup : quad_upper 2 F).
  { intros x y. unfold F, vsub, vneg, nrm2. cbn. change R in x, y. sq2 x y. }
  assert (Hlo : quad_lower 2 F).
  { intros x y. unfold F, vsub, vneg, nrm2. cbn. change R in x, y. sq2 x y. }
  assert (Hsc : grad_strongly_convex 1 F).
  { intros x y. unfold F, vsub, vneg, nrm2. cbn. change R in x, y. sq2 x y. }
  assert (G1 : genuine_grad F (1, 2, 1)).
  { split; [intro w; cbn; lra | cbn; lra]. }
  assert (G0 : genuine_grad F (0, 0, 0)).
  { split; [intro w; cbn; lra | cbn; lra]. }
  split; [split; assumption|]. split; [split; assumption|]. split; [split; assumption|].
  split; [exact G1|]. split; [exact G0|].
  apply (mem_smooth_convex 2 F 1 2 1 0 0 0); [lra | split; assumption | exact G1 | exact G0].
Qed.

(** x |-> 3 x : convex, L-smooth for every L, 3-Lipschitz. *)
Example smooth_convex_lipschitz_nonvacuous :
  let F := @mkD R1 (fun x : R => 3 * x) (fun _ : R => 3) in
  smooth_convex_lipschitz_member 1 3 F /\ genuine_grad F (0, 3, 0).
Proof.
  intro F. split; [split; [split|]|].
  - intros x y. unfold F, vsub, vneg. cbn. change R in x, y. sq2 x y.
  - intros x y. unfold F, vsub, vneg, nrm2. cbn. change R in x, y. sq2 x y.
  - intros x y. unfold F, vsub, vneg, nrm2. cbn. change R in x, y. sq2 x y.
  - split; [intro w; cbn; lra | cbn; lra].
Qed.

(** x |-> x^2 satisfies RSI(2) and EB(2) around its unique stationary point 0. *)
Example rsi_eb_nonvacuous :
  let F := @mkD R1 (fun x : R => x * x) (fun x : R => 2 * x) in
  rsi_eb_member 2 2 F 0 /\ genuine_grad F (0, 0, 0) /\ genuine_grad F (1, 2, 1).
Proof.
  intro F. split; [split|split].
  - intro w. cbn. lra.
  - intro x. unfold F, vsub, vneg, nrm2. cbn. change R in x. split; sq2 x 0.
  - split; [intro w; cbn; lra | cbn; lra].
  - split; [intro w; cbn; lra | cbn; lra].
Qed.

(** The operator x |-> 2 x on the real line. *)
Example operator_classes_nonvacuous :
  let A : @graph R1 := fun x g : R => g = 2 * x in
  monotone_op A /\ strongly_monotone_op 2 A /\ cocoercive_op (1 / 2) A /\ lipschitz_op 2 A /\
  lipschitz_strongly_monotone_op 1 3 A /\ cocoercive_strongly_monotone_op 1 (1 / 4) A /\
  genuine_op A (1, 2, 0) /\ genuine_op A (0, 0, 0).
Proof.
  intro A.
  assert (Hmo : monotone_op A) by op_case A.
  assert (Hsm2 : strongly_monotone_op 2 A) by op_case A.
  assert (Hco : cocoercive_op (1 / 2) A) by op_case A.
  assert (Hli : lipschitz_op 2 A) by op_case A.
  assert (Hsm1 : strongly_monotone_op 1 A) by op_case A.
  assert (Hli3 : lipschitz_op 3 A) by op_case A.
  assert (Hco4 : cocoercive_op (1 / 4) A) by op_case A.
  split; [exact Hmo|]. split; [exact Hsm2|]. split; [exact Hco|]. split; [exact Hli|].
  split; [split; assumption|]. split; [split; assumption|].
  split; unfold A; cbn; lra.
Qed.

(** x |-> - x is 1-negatively comonotone (and not monotone). *)
Example neg_comonotone_nonvacuous :
  let A : @graph R1 := fun x g : R => g = - x in
  neg_comonotone_op 1 A /\ genuine_op A (1, -1, 0) /\ ~ monotone_op A.
Proof.
  intro A. split; [|split].
  - intros x u y v Hu Hv. unfold A in Hu, Hv. subst u v.
    unfold vsub, vneg, nrm2. cbn. change R in x, y. sq2 x y.
  - unfold A. cbn. lra.
  - intro H. pose proof (H 1 (-1) 0 0) as P. unfold A, vsub, vneg in P. cbn in P.
    assert (Q : -1 = - 1) by lra. assert (Q0 : 0 = - 0) by lra.
    specialize (P Q Q0). lra.
Qed.

(** The translation x |-> x - 1 is nonexpansive, has no fixed point, and its infimal displacement
    vector is 1. *)
Example nonexpansive_nonvacuous :
  let A : @graph R1 := fun x g : R => g = x - 1 in
  nonexpansive_with_displacement A (1 : R1) /\ genuine_op A (0, -1, 0) /\
  ref_inf_displacement (1 : R1) (0 : R1) (-1 : R1) <= 0.
Proof.
  intro A.
  assert (M : nonexpansive_with_displacement A (1 : R1)).
  { split.
    - intros x u y v Hu Hv. unfold A in Hu, Hv. subst u v.
      unfold vsub, vneg, nrm2. cbn. change R in x, y. sq2 x y.
    - intros x g Hg. unfold A in Hg. subst g. unfold vsub, vneg. cbn. change R in x. lra. }
  assert (G : genuine_op A (0, -1, 0)) by (unfold A; cbn; lra).
  split; [exact M|split; [exact G|]].
  apply (mem_inf_displacement A 1 0 (-1) 0 M G).
Qed.

(** R^2 with its two coordinate blocks: F x = x0^2 + x0 x1 + x1^2 is convex and 2-smooth along each
    coordinate (the blocks are coupled through the cross term). *)
Definition coordP (k : nat) (u : Rn 2) : Rn 2 := fun i => if Nat.eqb i k then u i else 0.

Lemma veq_R2 (a b : Rn 2) : veq a b <-> (a 0%nat = b 0%nat /\ a 1%nat = b 1%nat).
Proof.
  split.
  - intro H. split.
    + pose proof (H (fun i => if Nat.eqb i 0 then 1 else 0)) as P. cbn in P. lra.
    + pose proof (H (fun i => if Nat.eqb i 1 then 1 else 0)) as P. cbn in P. lra.
  - intros [H0 H1] w. cbn. rewrite H0, H1. reflexivity.
Qed.

Lemma coordP_projections : block_projections 2 coordP.
Proof.
  constructor.
  - intros k Hk. destruct k as [|[|k]]; [| |exfalso; lia].
    + constructor.
      * intros a b. apply veq_R2. unfold coordP. cbn. split; lra.
      * intros c a. apply veq_R2. unfold coordP. cbn. split; lra.
      * apply veq_R2. unfold coordP. cbn. split; lra.
      * intros a b H. apply veq_R2 in H. destruct H as [H0 H1].
        apply veq_R2. unfold coordP. cbn. split; lra.
    + constructor.
      * intros a b. apply veq_R2. unfold coordP. cbn. split; lra.
      * intros c a. apply veq_R2. unfold coordP. cbn. split; lra.
      * apply veq_R2. unfold coordP. cbn. split; lra.
      * intros a b H. apply veq_R2 in H. destruct H as [H0 H1].
        apply veq_R2. unfold coordP. cbn. split; lra.
  - intros k a b Hk. destruct k as [|[|k]]; [| |exfalso; lia]; unfold coordP; cbn; ring.
  - intros k a Hk. destruct k as [|[|k]]; [| |exfalso; lia];
      apply veq_R2; unfold coordP; cbn; split; lra.
  - intros k k' a b Hk Hk' Hne.
    destruct k as [|[|k]]; [| |exfalso; lia]; destruct k' as [|[|k']];
      try (exfalso; lia); try (exfalso; apply Hne; reflexivity); unfold coordP; cbn; ring.
  - intro a. apply veq_R2. unfold coordP. cbn. split; lra.
Qed.

Example block_smooth_nonvacuous :
  let F := @mkD (Rn 2)
             (fun x => x 0%nat * x 0%nat + x 0%nat * x 1%nat + x 1%nat * x 1%nat)
             (fun x i => match i with
                         | O => 2 * x 0%nat + x 1%nat
                         | S O => x 0%nat + 2 * x 1%nat
                         | _ => 0
                         end) in
  block_smooth_convex_member 2 coordP (fun _ => 2) F /\
  genuine_grad F ((fun i => match i with O => 1 | _ => 0 end) : Rn 2,
                  (fun i => match i with O => 2 | S O => 1 | _ => 0 end) : Rn 2, 1).
Proof.
  intro F. split; [split; [exact coordP_projections|split]|].
  - intros x y. unfold F, vsub, vneg. cbn.
    pose proof (Rle_0_sqr ((y 0%nat - x 0%nat) + (y 1%nat - x 1%nat))) as S01.
    pose proof (Rle_0_sqr (y 0%nat - x 0%nat)) as S0.
    pose proof (Rle_0_sqr (y 1%nat - x 1%nat)) as S1.
    unfold Rsqr in S01, S0, S1. lra.
  - intros k Hk. destruct k as [|[|k]]; [| |exfalso; lia];
      intros x d; unfold F, coordP, nrm2; cbn; lra.
  - split; [apply veq_R2; cbn; split; lra | cbn; lra].
Qed.
