(** C01, regression for the repaired finding F-C01a (PEPit commit bd99691).  BEFORE the repair check_feasibility
    combined the expressions of an LMI with eval_dual(), the dual matrix S of [M >> 0], and the multipliers
    u_kij of the entry equalities M_k[i][j] == e_kij were discarded; for an LMI that is NOT symmetric as written
    that combination does not certify the bound.  [Model.Cert.old_combination] keeps that formula; the theorems
    below show it refuted on the model of the original trigger, and show that the CURRENT formula (entry
    multipliers, [Model.Cert.combination]) returns the true dual value on the same instance - which therefore
    also serves as the asymmetric non-vacuity example of the strengthened identity theorem.

    Witness: leaf point p, leaf expressions t, s, objective o;   o <= t,   <p,p> <= 81/100,
    [[<p,p>, t], [s + 1, 1]] >> 0.  The emitted problem forces t = M01 = M10 = s + 1 and <p,p> * 1 >= t^2, so its
    optimal value is 9/10.  The duals below satisfy stationarity and are dual feasible.  Old formula: 281/400
    (and 2/5 for the optimal dual, the number observed on the real code before the repair), below the feasible
    objective value 9/10.  Current formula: 481/400, resp. 9/10 (observed after the repair). *)
From Coq Require Import List QArith Reals Qreals Lra Lia Arith Bool Psatz.
From PV Require Import Model.Dict Model.Terms Model.Sent Model.Cvxpy Model.Cert
     Spec.GramSem Spec.KKT.
Import ListNotations.
Local Open Scope R_scope.

Definition w_obj : edict := [(KF 2, 1%Q)].
Definition w_lmi : list (list edict) :=
  [ [ [(KG 0 0, 1%Q)] ; [(KF 0, 1%Q)] ];
    [ [(KF 1, 1%Q); (K1, 1%Q)] ; [(K1, 1%Q)] ] ].
Definition w_sent : sent :=
  [ SC [(KF 2, 1%Q); (KF 0, (-1)%Q)] Ineq;                 (* o - t <= 0 *)
    SC [(KG 0 0, 1%Q); (K1, (-81 # 100)%Q)] Ineq;          (* <p,p> - 81/100 <= 0 *)
    LMI w_lmi ].

(** duals in the order of [emit w_sent]:
    G >> 0 | o<=t | <p,p><=.81 | M >> 0 | M00==<p,p> | M01==t | M10==s+1 | M11==1 *)
Definition w_duals (a u11 : Q) : list dval :=
  [ VM [[0%Q]]; VS 1%Q; VS a; VM [[a; (-1 # 2)%Q]; [(-1 # 2)%Q; u11]];
    VS a; VS (-1)%Q; VS 0%Q; VS u11 ].

(** a feasible point of the declared model with objective value 9/10 *)
Definition w_G : nat -> nat -> R := fun _ _ => 81 / 100.
Definition w_F : nat -> R := fun k => match k with 1%nat => - (1 / 10) | _ => 9 / 10 end.

Ltac q2r := unfold Q2R; cbn [Qnum Qden]; rewrite ?Rinv_1, ?Rmult_1_r.

Lemma w_emit : emit w_sent =
  [ RGram; RLe [(KF 2, 1%Q); (KF 0, (-1)%Q)]; RLe [(KG 0 0, 1%Q); (K1, (-81 # 100)%Q)];
    RPsd 0 2 2; REnt 0 0 0 [(KG 0 0, 1%Q)]; REnt 0 0 1 [(KF 0, 1%Q)];
    REnt 0 1 0 [(KF 1, 1%Q); (K1, 1%Q)]; REnt 0 1 1 [(K1, 1%Q)] ].
Proof. reflexivity. Qed.

Lemma w_fits a u11 : Forall2 dual_fits (emit w_sent) (w_duals a u11).
Proof.
  rewrite w_emit. unfold w_duals.
  repeat (constructor; try exact I); cbn; repeat constructor.
Qed.

(** stationarity: the Lagrangian is the constant a * 81/100 + u11, for every a and u11 *)
Lemma w_stationary a u11 :
  stationary w_obj (emit w_sent) (w_duals a u11) (Q2R a * (81 / 100) + Q2R u11).
Proof.
  intros G F M HG HM. rewrite w_emit. unfold w_duals, lagrangian, w_obj.
  cbn [rows_term row_term evalGF evalKGF mdot mdot_from rdot].
  pose proof (HM 0%nat 0%nat 1%nat) as Hs.
  q2r. lra.
Qed.

Theorem w_kkt a u11 : kkt_dual w_obj (emit w_sent) (w_duals a u11) (Q2R a * (81 / 100) + Q2R u11).
Proof. split; [apply w_fits|apply w_stationary]. Qed.

Lemma w_not_symmetric : all_lmis_symmetric w_sent = false.
Proof. vm_compute. reflexivity. Qed.

Ltac nodup := unfold wf_edict, keys; cbn [map fst];
  repeat (apply NoDup_cons; [cbn [In]; intuition discriminate|]); apply NoDup_nil.

Lemma w_wf : wf_edict w_obj /\ wf_sent w_sent.
Proof.
  split; [nodup|].
  unfold w_sent, wf_sent, w_lmi.
  apply Forall_cons; [cbn [wf_item]; nodup|].
  apply Forall_cons; [cbn [wf_item]; nodup|].
  apply Forall_cons; [|apply Forall_nil].
  cbn [wf_item]. unfold ncols. cbn [hd length].
  repeat (apply Forall_cons || apply Forall_nil || split || reflexivity || nodup).
Qed.

Lemma w_feasible : feasible 1 w_sent w_G w_F /\ evalGF w_G w_F w_obj = 9 / 10.
Proof.
  split.
  - split; [intros i j; reflexivity|]. split.
    + split; [reflexivity|]. intro c. cbn [sumn]. unfold w_G. nra.
    + unfold w_sent. apply Forall_cons; [|apply Forall_cons; [|apply Forall_cons; [|apply Forall_nil]]].
      * cbn [item_holds holdsGF fst snd evalGF evalKGF]. unfold w_F. q2r. lra.
      * cbn [item_holds holdsGF fst snd evalGF evalKGF]. unfold w_G. q2r. lra.
      * cbn [item_holds]. split.
        -- intros i j Hi Hj. unfold lmi_value, entry, w_lmi, nrows in *. cbn [length] in *.
           destruct i as [|[|i]], j as [|[|j]]; try lia; cbn [nth evalGF evalKGF]; try reflexivity.
           all: unfold w_F; q2r; lra.
        -- intro c. unfold lmi_value, entry, w_lmi, nrows. cbn [length sumn nth evalGF evalKGF].
           unfold w_G, w_F. q2r.
           pose proof (Rle_0_sqr (9 / 10 * c 0%nat + c 1%nat)) as Hsq. unfold Rsqr in Hsq. nra.
  - cbn [w_obj evalGF evalKGF]. unfold w_F. q2r. lra.
Qed.

Definition w_ids : list nat := [0; 1; 2]%nat.

Lemma w_ids_ok : NoDup w_ids /\ length w_ids = length w_sent.
Proof. split; [|reflexivity]. unfold w_ids. repeat (apply NoDup_cons; [cbn; intuition lia|]). apply NoDup_nil. Qed.

(** dual feasibility of what the objects show for a = 1/4, u11 = 1:  S = v v^T with v = (1/2, -1), and S is the
    symmetric part of u = [[1/4, -1], [0, 1]] *)
Lemma w_dual_feasible :
  let '(a, res) := exposed w_sent w_ids (w_duals (1 # 4) 1) in
  dual_feasible a /\ rank1sum (res_matrix res) 1.
Proof.
  cbn. split; [split; [q2r; lra|split; [q2r; lra|split; [|split; [|split; [|exact I]]]]]|].
  - split; [split; [reflexivity|repeat constructor]|].
    exists [fun k => match k with 0%nat => 1 / 2 | _ => -1 end].
    intros i j Hi Hj. unfold matR, matq, nrows, w_lmi in *. cbn [length] in *.
    destruct i as [|[|i]], j as [|[|j]]; try lia; cbn [nth rank1_at]; q2r; lra.
  - split; [reflexivity|repeat constructor].
  - intros i j Hi Hj. unfold matR, matq, nrows, w_lmi in *. cbn [length] in *.
    destruct i as [|[|i]], j as [|[|j]]; try lia; cbn [nth]; q2r; lra.
  - split; [split; [reflexivity|repeat constructor]|].
    exists []. intros i j Hi Hj. destruct i, j; try lia. unfold matR, matq. cbn. q2r. lra.
Qed.

Definition old_value (temp : list dval) : Q :=
  let '(a, res) := exposed w_sent w_ids temp in old_reconstruct w_obj (res_matrix res) a.
Definition new_value (temp : list dval) : Q := snd (certificate w_obj w_sent w_ids temp).

(** what PEPit returned before the repair, and what it returns now *)
Lemma w_old_feasible_dual : old_value (w_duals (1 # 4) 1) == 281 # 400.
Proof. vm_compute. reflexivity. Qed.
Lemma w_old_optimal_dual : old_value (w_duals (5 # 9) (9 # 20)) == 2 # 5.
Proof. vm_compute. reflexivity. Qed.
Lemma w_new_feasible_dual : new_value (w_duals (1 # 4) 1) == 481 # 400.
Proof. vm_compute. reflexivity. Qed.
Lemma w_new_optimal_dual : new_value (w_duals (5 # 9) (9 # 20)) == 9 # 10.
Proof. vm_compute. reflexivity. Qed.

(** * C01_old_formula_refuted (regression: the pre-fix S-based combination) *)
Theorem old_formula_refuted :
  exists (np : nat) (obj : edict) (tracked : sent) (ids : list nat) (temp : list dval) (tau : R)
         (G : nat -> nat -> R) (F : nat -> R),
    wf_edict obj /\ wf_sent tracked /\ NoDup ids /\ length ids = length tracked
    /\ all_lmis_symmetric tracked = false
    /\ kkt_dual obj (emit tracked) temp tau
    /\ (let '(a, res) := exposed tracked ids temp in dual_feasible a /\ rank1sum (res_matrix res) np)
    /\ feasible np tracked G F
    /\ (let '(a, res) := exposed tracked ids temp in
        Q2R (old_reconstruct obj (res_matrix res) a) < evalGF G F obj
        /\ Q2R (reconstruct obj (res_matrix res) a) = tau).
Proof.
  exists 1%nat, w_obj, w_sent, w_ids, (w_duals (1 # 4) 1), (Q2R (1 # 4) * (81 / 100) + Q2R 1), w_G, w_F.
  split; [apply w_wf|]. split; [apply w_wf|]. split; [apply w_ids_ok|]. split; [apply w_ids_ok|].
  split; [apply w_not_symmetric|].
  split; [apply w_kkt|]. split; [apply w_dual_feasible|]. split; [apply w_feasible|].
  pose proof w_old_feasible_dual as Ho. pose proof w_new_feasible_dual as Hn.
  unfold old_value, new_value, certificate in Ho, Hn.
  destruct (exposed w_sent w_ids (w_duals (1 # 4) 1)) as [a res]. cbn [snd] in Hn.
  rewrite (proj2 w_feasible), (Qeq_eqR _ _ Ho), (Qeq_eqR _ _ Hn). split; q2r; lra.
Qed.

(** the numbers observed on the real code: with the optimal dual the old formula returned 2/5; the current one
    returns 9/10, the constant of the Lagrangian and the primal optimum *)
Theorem asym_observed_value :
  kkt_dual w_obj (emit w_sent) (w_duals (5 # 9) (9 # 20)) (9 / 10)
  /\ Q2R (old_value (w_duals (5 # 9) (9 # 20))) = 2 / 5
  /\ Q2R (new_value (w_duals (5 # 9) (9 # 20))) = 9 / 10.
Proof.
  split; [|split].
  - replace (9 / 10) with (Q2R (5 # 9) * (81 / 100) + Q2R (9 # 20)) by (q2r; lra). apply w_kkt.
  - rewrite (Qeq_eqR _ _ w_old_optimal_dual). q2r. lra.
  - rewrite (Qeq_eqR _ _ w_new_optimal_dual). q2r. lra.
Qed.
