(** C13, part 1: what a solve hands to the wrapper is a function of the DECLARED model (metric
    dictionaries, conditions, LMIs, what the classes / partitions generate) and of the index of the fresh
    objective leaf -- not of caches, values, duals, tracking lists or earlier solves. *)
From Coq Require Import List QArith Bool Arith Lia.
From PV Require Import Model.Dict Model.Terms Model.Dump Model.Sent Model.Eval Model.Resolve
  Proofs.C02Cache.
Import ListNotations.
Local Open Scope nat_scope.

(** ** stores only grow, kinds never change *)
Definition le_st (st st' : est) : Prop :=
  (forall r o, get_obj st r = Some o -> exists o', get_obj st' r = Some o' /\ okind_of o' = okind_of o)
  /\ length (lpv st) <= length (lpv st') /\ length (lev st) <= length (lev st').

Lemma le_st_refl st : le_st st st.
Proof. split; [eauto|split; lia]. Qed.
Lemma le_st_trans a b c : le_st a b -> le_st b c -> le_st a c.
Proof.
  intros (A & A1 & A2) (B & B1 & B2). split; [|split; lia].
  intros r o Ho. destruct (A r o Ho) as (o1 & H1 & K1). destruct (B r o1 H1) as (o2 & H2 & K2).
  exists o2. split; [exact H2|congruence].
Qed.

Lemma get_obj_new_obj_old st k r : r < length (objs st) -> get_obj (new_obj st k) r = get_obj st r.
Proof. intro H. unfold get_obj, new_obj; cbn [objs]. apply nth_error_app1. exact H. Qed.
Lemma get_obj_new_obj_last st k : get_obj (new_obj st k) (length (objs st)) = Some (mkObj k None None).
Proof. unfold get_obj, new_obj; cbn [objs]. rewrite nth_error_app2, Nat.sub_diag by lia. reflexivity. Qed.
Lemma length_new_obj st k : length (objs (new_obj st k)) = S (length (objs st)).
Proof. unfold new_obj; cbn [objs]. rewrite app_length. cbn. lia. Qed.
Lemma get_obj_lt st r o : get_obj st r = Some o -> r < length (objs st).
Proof. unfold get_obj. intro H. apply nth_error_Some. congruence. Qed.

Lemma le_st_new_obj st k : le_st st (new_obj st k).
Proof.
  split; [|cbn; split; lia]. intros r o Ho. exists o.
  rewrite get_obj_new_obj_old by (eapply get_obj_lt; eassumption). auto.
Qed.
Lemma le_st_new_leafE st : le_st st (new_leafE st).
Proof. split; [eauto|cbn [new_leafE lpv lev]; rewrite app_length; cbn; split; lia]. Qed.
Lemma le_st_new_leafP st : le_st st (new_leafP st).
Proof. split; [eauto|cbn [new_leafP lpv lev]; rewrite app_length; cbn; split; lia]. Qed.
Lemma le_st_frame st st' : frame st st' -> le_st st st'.
Proof.
  intros (H1 & H2 & H). split; [|rewrite H1, H2; split; lia]. intros r o Ho. specialize (H r). rewrite Ho in H.
  destruct (get_obj st' r) as [o'|]; [|contradiction]. exists o'. split; [reflexivity|tauto].
Qed.
Lemma le_st_set_dual st r v : le_st st (set_dual st r v).
Proof.
  split; [|cbn; split; lia]. intros r' o Ho. rewrite get_obj_set_dual.
  destruct (Nat.eqb_spec r' r) as [->|]; [|eauto]. rewrite Ho. cbn. eauto.
Qed.
Lemma le_st_assign_solution st P F : le_st st (assign_solution st P F).
Proof.
  split; [eauto|]. unfold assign_solution; cbn [lpv lev]. rewrite !map_length, !seq_length. split; lia.
Qed.

(** ** Expression handles and sent items that refer to existing objects *)
Definition eh_ok (st : est) (e : eh) : Prop :=
  match e with
  | ELeaf id => id < length (lev st)
  | ERef r => exists o d, get_obj st r = Some o /\ okind_of o = KExpr d
  end.
Definition item_ok (st : est) (r : nat) : Prop :=
  exists o, get_obj st r = Some o /\
    match okind_of o with
    | KCons e _ => eh_ok st e
    | KLmi m => forall row, In row m -> forall e, In e row -> eh_ok st e
    | _ => False
    end.

Lemma eh_ok_mono st st' e : le_st st st' -> eh_ok st e -> eh_ok st' e.
Proof.
  intros (L & _ & L2). destruct e as [id|r]; cbn [eh_ok]; [lia|].
  intros (o & d & Ho & Hk). destruct (L r o Ho) as (o' & Ho' & Hk'). exists o', d. split; [exact Ho'|congruence].
Qed.
Lemma dict_of_eh_mono st st' e : le_st st st' -> eh_ok st e -> dict_of_eh st' e = dict_of_eh st e.
Proof.
  intros (L & _). destruct e as [id|r]; cbn [eh_ok dict_of_eh]; [reflexivity|].
  intros (o & d & Ho & Hk). destruct (L r o Ho) as (o' & Ho' & Hk'). rewrite Ho, Ho', Hk'. reflexivity.
Qed.
Lemma item_ok_mono st st' r : le_st st st' -> item_ok st r -> item_ok st' r.
Proof.
  intros L (o & Ho & H). pose proof L as (L1 & _). destruct (L1 r o Ho) as (o' & Ho' & Hk').
  exists o'. split; [exact Ho'|]. rewrite Hk'. destruct (okind_of o); try contradiction.
  - eapply eh_ok_mono; eassumption.
  - intros row Hr e0 He. eapply eh_ok_mono; [exact L|]. eapply H; eassumption.
Qed.

Definition item_of (st : est) (r : nat) : item :=
  match get_obj st r with
  | Some o => match okind_of o with
              | KCons e s => SC (dict_of_eh st e) s
              | KLmi m => LMI (map (map (dict_of_eh st)) m)
              | _ => LMI []
              end
  | None => LMI []
  end.
Definition dump_item (it : item) : D :=
  match it with
  | SC e s => DL [DZ 0; dump_edict e; dump_sense s]
  | LMI m => DL [DZ 1; DL (map (fun row => DL (map dump_edict row)) m)]
  end.

(** the dump the correspondence stream compares IS the dump of [item_of] *)
Lemma dump_sent_item_item_of st r : item_ok st r -> dump_sent_item st r = dump_item (item_of st r).
Proof.
  intros (o & Ho & H). unfold dump_sent_item, item_of. rewrite Ho.
  destruct (okind_of o); try contradiction; cbn [dump_item]; [reflexivity|].
  rewrite map_map. do 4 f_equal. apply map_ext. intro row. rewrite map_map. reflexivity.
Qed.

Lemma item_of_mono st st' r : le_st st st' -> item_ok st r -> item_of st' r = item_of st r.
Proof.
  intros L (o & Ho & H). pose proof L as (L1 & _). destruct (L1 r o Ho) as (o' & Ho' & Hk').
  unfold item_of. rewrite Ho, Ho', Hk'. destruct (okind_of o); try contradiction.
  - rewrite (dict_of_eh_mono st st') by assumption. reflexivity.
  - f_equal. apply map_ext_in. intros row Hr. apply map_ext_in. intros e0 He.
    apply dict_of_eh_mono; [exact L|]. eapply H; eassumption.
Qed.

Definition same_leaves (st st' : est) : Prop := lpv st' = lpv st /\ lev st' = lev st.

(** ** the creators *)
Lemma mk_cons_spec st c st' r : mk_cons st c = (st', r) ->
  le_st st st' /\ same_leaves st st' /\ item_of st' r = SC (fst c) (snd c) /\ item_ok st' r.
Proof.
  unfold mk_cons, next_ref. intros [= <- <-].
  set (st1 := new_obj st (KExpr (fst c))). set (st2 := new_obj st1 (KCons (ERef (length (objs st))) (snd c))).
  assert (L1 : le_st st st1) by apply le_st_new_obj. assert (L2 : le_st st1 st2) by apply le_st_new_obj.
  assert (H1 : get_obj st1 (length (objs st)) = Some (mkObj (KExpr (fst c)) None None)) by apply get_obj_new_obj_last.
  assert (H2 : get_obj st2 (S (length (objs st))) = Some (mkObj (KCons (ERef (length (objs st))) (snd c)) None None)).
  { unfold st2. rewrite <- (length_new_obj st (KExpr (fst c))). apply get_obj_new_obj_last. }
  assert (H3 : exists o', get_obj st2 (length (objs st)) = Some o' /\ okind_of o' = KExpr (fst c)).
  { destruct L2 as (L2 & _). destruct (L2 _ _ H1) as (o' & Ho' & Hk'). eauto. }
  destruct H3 as (o' & Ho' & Hk').
  split; [eapply le_st_trans; eassumption|]. split; [split; reflexivity|]. split.
  - unfold item_of. rewrite H2. cbn [okind_of dict_of_eh]. rewrite Ho', Hk'. reflexivity.
  - eexists. split; [exact H2|]. cbn [okind_of eh_ok]. eauto.
Qed.

Lemma same_leaves_trans a b c : same_leaves a b -> same_leaves b c -> same_leaves a c.
Proof. intros [A1 A2] [B1 B2]. split; congruence. Qed.
Lemma same_leaves_refl a : same_leaves a a.
Proof. split; reflexivity. Qed.

Lemma mk_conss_spec : forall cs st st' rs, mk_conss st cs = (st', rs) ->
  le_st st st' /\ same_leaves st st' /\ map (item_of st') rs = map (fun c => SC (fst c) (snd c)) cs
  /\ Forall (item_ok st') rs.
Proof.
  induction cs as [|c cs IH]; intros st st' rs; cbn [mk_conss].
  - intros [= <- <-]. split; [apply le_st_refl|]. split; [apply same_leaves_refl|]. split; [reflexivity|constructor].
  - destruct (mk_cons st c) as [st1 r] eqn:H1. destruct (mk_conss st1 cs) as [st2 rs'] eqn:H2.
    intros [= <- <-]. apply mk_cons_spec in H1 as (L1 & S1 & I1 & O1). apply IH in H2 as (L2 & S2 & I2 & O2).
    split; [eapply le_st_trans; eassumption|]. split; [eapply same_leaves_trans; eassumption|]. split.
    + cbn [map]. rewrite I2, (item_of_mono st1 st2) by assumption. rewrite I1. reflexivity.
    + constructor; [eapply item_ok_mono; eassumption|exact O2].
Qed.

Lemma mk_entries_spec : forall row st st' es, mk_entries st row = (st', es) ->
  le_st st st' /\ same_leaves st st' /\ map (dict_of_eh st') es = row /\ Forall (eh_ok st') es.
Proof.
  induction row as [|d row IH]; intros st st' es; cbn [mk_entries].
  - intros [= <- <-]. split; [apply le_st_refl|]. split; [apply same_leaves_refl|]. split; [reflexivity|constructor].
  - destruct (mk_entries (new_obj st (KExpr d)) row) as [st1 es'] eqn:H1. intros [= <- <-].
    apply IH in H1 as (L1 & S1 & I1 & O1).
    assert (L0 : le_st st (new_obj st (KExpr d))) by apply le_st_new_obj.
    assert (E0 : eh_ok (new_obj st (KExpr d)) (ERef (next_ref st))).
    { cbn [eh_ok]. unfold next_ref. rewrite get_obj_new_obj_last. do 2 eexists. split; reflexivity. }
    split; [eapply le_st_trans; eassumption|].
    split; [eapply same_leaves_trans; [|exact S1]; split; reflexivity|]. split.
    + cbn [map]. rewrite I1. f_equal. rewrite (dict_of_eh_mono (new_obj st (KExpr d)) st1 _ L1 E0).
      cbn [dict_of_eh]. unfold next_ref. rewrite get_obj_new_obj_last. reflexivity.
    + constructor; [eapply eh_ok_mono; eassumption|exact O1].
Qed.

Lemma mk_matrix_spec : forall m st st' ess, mk_matrix st m = (st', ess) ->
  le_st st st' /\ same_leaves st st' /\ map (map (dict_of_eh st')) ess = m
  /\ (forall row, In row ess -> forall e, In e row -> eh_ok st' e).
Proof.
  induction m as [|row m IH]; intros st st' ess; cbn [mk_matrix].
  - intros [= <- <-]. split; [apply le_st_refl|]. split; [apply same_leaves_refl|]. split; [reflexivity|intros _ []].
  - destruct (mk_entries st row) as [st1 es] eqn:H1. destruct (mk_matrix st1 m) as [st2 ess'] eqn:H2.
    intros [= <- <-]. apply mk_entries_spec in H1 as (L1 & S1 & I1 & O1). apply IH in H2 as (L2 & S2 & I2 & O2).
    split; [eapply le_st_trans; eassumption|]. split; [eapply same_leaves_trans; eassumption|]. split.
    + cbn [map]. rewrite I2. f_equal. rewrite <- I1. apply map_ext_in. intros e He.
      apply dict_of_eh_mono; [exact L2|]. rewrite Forall_forall in O1. apply O1, He.
    + intros r [<-|Hr] e He.
      * eapply eh_ok_mono; [exact L2|]. rewrite Forall_forall in O1. apply O1, He.
      * eapply O2; eassumption.
Qed.

Lemma mk_lmi_spec st m st' r : mk_lmi st m = (st', r) ->
  le_st st st' /\ same_leaves st st' /\ item_of st' r = LMI m /\ item_ok st' r.
Proof.
  unfold mk_lmi. destruct (mk_matrix st m) as [st1 ess] eqn:H1. intros [= <- <-].
  apply mk_matrix_spec in H1 as (L1 & S1 & I1 & O1).
  assert (L2 : le_st st1 (new_obj st1 (KLmi ess))) by apply le_st_new_obj.
  split; [eapply le_st_trans; eassumption|]. split; [exact S1|]. unfold next_ref. split.
  - unfold item_of. rewrite get_obj_new_obj_last. cbn [okind_of]. f_equal. rewrite <- I1.
    apply map_ext_in. intros row Hr. apply map_ext_in. intros e He. apply dict_of_eh_mono; [exact L2|]. eapply O1; eassumption.
  - eexists. split; [apply get_obj_new_obj_last|]. cbn [okind_of]. intros row Hr e He.
    eapply eh_ok_mono; [exact L2|]. eapply O1; eassumption.
Qed.

Lemma mk_lmis_spec : forall ms st st' rs, mk_lmis st ms = (st', rs) ->
  le_st st st' /\ same_leaves st st' /\ map (item_of st') rs = map LMI ms /\ Forall (item_ok st') rs.
Proof.
  induction ms as [|m ms IH]; intros st st' rs; cbn [mk_lmis].
  - intros [= <- <-]. split; [apply le_st_refl|]. split; [apply same_leaves_refl|]. split; [reflexivity|constructor].
  - destruct (mk_lmi st m) as [st1 r] eqn:H1. destruct (mk_lmis st1 ms) as [st2 rs'] eqn:H2.
    intros [= <- <-]. apply mk_lmi_spec in H1 as (L1 & S1 & I1 & O1). apply IH in H2 as (L2 & S2 & I2 & O2).
    split; [eapply le_st_trans; eassumption|]. split; [eapply same_leaves_trans; eassumption|]. split.
    + cbn [map]. rewrite I2, (item_of_mono st1 st2) by assumption. rewrite I1. reflexivity.
    + constructor; [eapply item_ok_mono; eassumption|exact O2].
Qed.

Definition items_of_ftempl (t : ftempl) : sent :=
  map (fun c => SC (fst c) (snd c)) (t_cons t) ++ map LMI (t_lmis t).

Lemma Forall_mono_item st st' l : le_st st st' -> Forall (item_ok st) l -> Forall (item_ok st') l.
Proof. intros L H. eapply Forall_impl; [|exact H]. intros r. apply item_ok_mono, L. Qed.
Lemma map_item_of_mono st st' l : le_st st st' -> Forall (item_ok st) l -> map (item_of st') l = map (item_of st) l.
Proof.
  intros L H. apply map_ext_in. intros r Hr. apply item_of_mono; [exact L|]. rewrite Forall_forall in H. apply H, Hr.
Qed.

Lemma gen_function_spec st t st' f : gen_function st t = (st', f) ->
  le_st st st' /\ same_leaves st st' /\
  map (item_of st') (f_class_cons f ++ f_class_psd f) = items_of_ftempl t /\
  Forall (item_ok st') (f_class_cons f ++ f_class_psd f).
Proof.
  unfold gen_function. destruct (mk_conss st (t_cons t)) as [st1 cs] eqn:H1.
  destruct (mk_lmis st1 (t_lmis t)) as [st2 ls] eqn:H2. intros [= <- <-]. cbn [f_class_cons f_class_psd].
  apply mk_conss_spec in H1 as (L1 & S1 & I1 & O1). apply mk_lmis_spec in H2 as (L2 & S2 & I2 & O2).
  split; [eapply le_st_trans; eassumption|]. split; [eapply same_leaves_trans; eassumption|]. split.
  - rewrite map_app, I2, (map_item_of_mono st1 st2) by assumption. rewrite I1. reflexivity.
  - apply Forall_app. split; [eapply Forall_mono_item; eassumption|exact O2].
Qed.

Lemma gen_functions_spec : forall ts st st' fs, gen_functions st ts = (st', fs) ->
  le_st st st' /\ same_leaves st st' /\
  map (item_of st') (flat_map (fun f => f_class_cons f ++ f_class_psd f) fs) = flat_map items_of_ftempl ts /\
  Forall (item_ok st') (flat_map (fun f => f_class_cons f ++ f_class_psd f) fs).
Proof.
  induction ts as [|t ts IH]; intros st st' fs; cbn [gen_functions].
  - intros [= <- <-]. split; [apply le_st_refl|]. split; [apply same_leaves_refl|]. split; [reflexivity|constructor].
  - destruct (gen_function st t) as [st1 f] eqn:H1. destruct (gen_functions st1 ts) as [st2 fs'] eqn:H2.
    intros [= <- <-]. apply gen_function_spec in H1 as (L1 & S1 & I1 & O1). apply IH in H2 as (L2 & S2 & I2 & O2).
    split; [eapply le_st_trans; eassumption|]. split; [eapply same_leaves_trans; eassumption|].
    cbn [flat_map]. split.
    + rewrite map_app, I2, (map_item_of_mono st1 st2) by assumption. rewrite I1. reflexivity.
    + apply Forall_app. split; [eapply Forall_mono_item; eassumption|exact O2].
Qed.

Definition items_of_ptempl (p : list edict) : sent := map (fun d => SC d Equ) p.

Lemma gen_partitions_spec : forall ps st st' css, gen_partitions st ps = (st', css) ->
  le_st st st' /\ same_leaves st st' /\
  map (item_of st') (concat css) = flat_map items_of_ptempl ps /\ Forall (item_ok st') (concat css).
Proof.
  induction ps as [|p ps IH]; intros st st' css; cbn [gen_partitions].
  - intros [= <- <-]. split; [apply le_st_refl|]. split; [apply same_leaves_refl|]. split; [reflexivity|constructor].
  - destruct (mk_conss st (map (fun d => (d, Equ)) p)) as [st1 cs] eqn:H1.
    destruct (gen_partitions st1 ps) as [st2 css'] eqn:H2.
    intros [= <- <-]. apply mk_conss_spec in H1 as (L1 & S1 & I1 & O1). apply IH in H2 as (L2 & S2 & I2 & O2).
    split; [eapply le_st_trans; eassumption|]. split; [eapply same_leaves_trans; eassumption|].
    cbn [concat flat_map]. split.
    + rewrite map_app, I2, (map_item_of_mono st1 st2) by assumption. rewrite I1.
      unfold items_of_ptempl. rewrite map_map. reflexivity.
    + apply Forall_app. split; [eapply Forall_mono_item; eassumption|exact O2].
Qed.

(** ** the declared model and what it sends *)
Record decl : Type := mkDecl {
  d_metrics : list edict;
  d_conds : sent;
  d_psds : sent;
  d_ftem : list ftempl;
  d_own : sent;                               (* own constraints / LMIs of the functions, in sending order *)
  d_ptem : list (list edict)
}.
Definition decl_of (s : pst) : decl :=
  mkDecl (map (dict_of_eh (es s)) (metrics s)) (map (item_of (es s)) (conds s))
         (map (item_of (es s)) (psds s)) (ftem s) (map (item_of (es s)) (own_refs s)) (ptem s).
Definition sent_of (d : decl) (o : nat) : sent :=
  map (fun m => SC (fst (c_le [(KF o, 1%Q)] m)) Ineq) (d_metrics d)
  ++ d_conds d ++ d_psds d ++ flat_map items_of_ftempl (d_ftem d) ++ d_own d
  ++ flat_map items_of_ptempl (d_ptem d).

(** the references held by the PEP point to existing objects (invariant of every run, below) *)
Definition closed (s : pst) : Prop :=
  Forall (eh_ok (es s)) (metrics s) /\ Forall (item_ok (es s)) (conds s) /\ Forall (item_ok (es s)) (psds s)
  /\ Forall (item_ok (es s)) (own_refs s).

Lemma prepare_spec s : closed s ->
  let s1 := prepare s in
  le_st (es s) (es s1)
  /\ lpv (es s1) = lpv (es s) /\ lev (es s1) = lev (es s) ++ [None]
  /\ map (item_of (es s1)) (wsent s1) = sent_of (decl_of s) (length (lev (es s)))
  /\ Forall (item_ok (es s1)) (wsent s1)
  /\ metrics s1 = metrics s /\ conds s1 = conds s /\ psds s1 = psds s /\ ftem s1 = ftem s /\ ptem s1 = ptem s
  /\ fown s1 = fown s.
Proof.
  intros (Cm & Cc & Cp & Co). cbv zeta. unfold prepare.
  set (o := length (lev (es s))). set (st0 := new_leafE (es s)).
  destruct (gen_functions st0 (ftem s)) as [st1 fs] eqn:H1.
  destruct (gen_partitions st1 (ptem s)) as [st2 ps] eqn:H2.
  destruct (mk_conss st2 (map (metric_row st2 o) (metrics s))) as [st3 ms] eqn:H3.
  cbn [es wsent metrics conds psds ftem ptem fown].
  apply gen_functions_spec in H1 as (L1 & S1 & I1 & O1).
  apply gen_partitions_spec in H2 as (L2 & S2 & I2 & O2).
  apply mk_conss_spec in H3 as (L3 & S3 & I3 & O3).
  assert (L0 : le_st (es s) st0) by apply le_st_new_leafE.
  assert (L02 : le_st (es s) st2) by (eapply le_st_trans; [exact L0|eapply le_st_trans; eassumption]).
  assert (L03 : le_st (es s) st3) by (eapply le_st_trans; eassumption).
  assert (L13 : le_st st1 st3) by (eapply le_st_trans; eassumption).
  destruct S1 as [S1a S1b], S2 as [S2a S2b], S3 as [S3a S3b].
  split; [exact L03|]. split; [rewrite S3a, S2a, S1a; reflexivity|].
  split; [rewrite S3b, S2b, S1b; reflexivity|]. split; [|split; [|repeat split]].
  - unfold sent_of, decl_of. cbn [d_metrics d_conds d_psds d_ftem d_ptem d_own].
    rewrite !map_app. f_equal; [|f_equal; [|f_equal; [|f_equal; [|f_equal]]]].
    + rewrite I3, !map_map. apply map_ext_in. intros m Hm. unfold metric_row. cbn [snd c_le].
      rewrite (dict_of_eh_mono (es s) st2) by (try exact L02; rewrite Forall_forall in Cm; apply Cm, Hm).
      reflexivity.
    + exact (map_item_of_mono _ _ _ L03 Cc).
    + exact (map_item_of_mono _ _ _ L03 Cp).
    + rewrite (map_item_of_mono st1 st3 _ L13 O1). exact I1.
    + exact (map_item_of_mono _ _ _ L03 Co).
    + rewrite (map_item_of_mono st2 st3 _ L3 O2). exact I2.
  - repeat (apply Forall_app; split).
    + exact O3.
    + exact (Forall_mono_item _ _ _ L03 Cc).
    + exact (Forall_mono_item _ _ _ L03 Cp).
    + exact (Forall_mono_item _ _ _ L13 O1).
    + exact (Forall_mono_item _ _ _ L03 Co).
    + exact (Forall_mono_item _ _ _ L3 O2).
Qed.

(** [finish] only writes caches, duals and leaf values *)
Lemma eval_all_frame : forall rs st, frame st (eval_all st rs).
Proof.
  induction rs as [|r rs IH]; intro st; cbn [eval_all]; [apply frame_refl|].
  destruct (eval_obj st r) as [st1 x] eqn:H. cbn [fst]. eapply frame_trans; [eapply eval_obj_frame; eassumption|apply IH].
Qed.
Lemma assign_duals_le : forall rs ds st, le_st st (assign_duals st rs ds).
Proof.
  induction rs as [|r rs IH]; intros [|d ds] st; cbn [assign_duals]; try apply le_st_refl.
  eapply le_st_trans; [apply le_st_set_dual|apply IH].
Qed.
Lemma assign_duals_leaves : forall rs ds st, same_leaves st (assign_duals st rs ds).
Proof.
  induction rs as [|r rs IH]; intros [|d ds] st; cbn [assign_duals]; try apply same_leaves_refl.
  eapply same_leaves_trans; [|apply IH]. split; reflexivity.
Qed.

Lemma finish_le s sol : le_st (es s) (es (finish s sol)).
Proof.
  unfold finish. cbn [with_es es].
  eapply le_st_trans; [apply assign_duals_le|]. eapply le_st_trans; [apply le_st_assign_solution|].
  eapply le_st_trans; [apply le_st_frame, eval_all_frame|].
  eapply le_st_trans; [apply le_st_frame, eval_all_frame|]. apply le_st_frame, eval_all_frame.
Qed.

Lemma solve_le s a : closed s -> le_st (es s) (es (solve s a)).
Proof.
  intro C. pose proof (prepare_spec s C) as (L & _). unfold solve. destruct a as [sol|]; [|exact L].
  eapply le_st_trans; [exact L|apply finish_le].
Qed.

(** *** C13_sent_fresh *)
Theorem sent_fresh s a : closed s ->
  map (item_of (es (solve s a))) (wsent (solve s a)) = sent_of (decl_of s) (length (lev (es s)))
  /\ Forall (item_ok (es (solve s a))) (wsent (solve s a)).
Proof.
  intro C. pose proof (prepare_spec s C) as (L & _ & _ & I & O & _). unfold solve.
  destruct a as [sol|]; [|split; assumption].
  assert (W : wsent (finish (prepare s) sol) = wsent (prepare s)) by reflexivity. rewrite W.
  pose proof (finish_le (prepare s) sol) as Lf. split.
  - rewrite (map_item_of_mono _ _ _ Lf O). exact I.
  - eapply Forall_mono_item; eassumption.
Qed.

(** ** no growth: the counts of what is sent do not depend on the objective index *)
Definition nnz_item (it : item) : nat :=
  match it with SC e _ => length e | LMI m => list_sum (map (fun row => list_sum (map (@length _) row)) m) end.
Definition shape (it : item) : bool * nat := (match it with SC _ _ => true | LMI _ => false end, nnz_item it).
Definition n_scalars (l : sent) : nat := length (filter (fun x => fst x) (map shape l)).
Definition n_lmis (l : sent) : nat := length (filter (fun x => negb (fst x)) (map shape l)).
Definition nnz (l : sent) : nat := list_sum (map snd (map shape l)).

Lemma n_scalars_scalars l : n_scalars l = length (scalars l).
Proof.
  unfold n_scalars, scalars. induction l as [|[e s|m] l IH]; cbn [map filter shape fst flat_map app length];
    [reflexivity|f_equal; exact IH|exact IH].
Qed.
Lemma n_lmis_lmis l : n_lmis l = length (lmis l).
Proof.
  unfold n_lmis, lmis. induction l as [|[e s|m] l IH]; cbn [map filter shape fst negb flat_map app length];
    [reflexivity|exact IH|f_equal; exact IH].
Qed.

Definition nokey (o : nat) (d : edict) : Prop := ~ In (KF o) (keys d).
