(** Running a recorded method in a world makes every recorded sample genuine (C09, first half):
    the values given to the fresh gradient / value leaves are the real oracle's outputs at the value
    of the evaluated point, and later steps never change the value of an earlier leaf. *)
From Coq Require Import List QArith Reals Qreals Lra Arith Bool Lia.
From PV Require Import Base.IPS Model.Dict Model.Terms Model.Method Spec.Sem Spec.World Proofs.DictLemmas Proofs.SemLemmas.
Import ListNotations.
Local Open Scope R_scope.

Lemma Q2R_one : Q2R 1 = 1. Proof. unfold Q2R; cbn; lra. Qed.

(** ** the checks of [op_wf] for a proximal step *)
Lemma qpos_pos q : qpos q = true -> 0 < Q2R q.
Proof.
  unfold qpos. intros H. apply Z.ltb_lt in H.
  assert (HQ : (0 < q)%Q) by (unfold Qlt; cbn; lia).
  apply Qlt_Rlt in HQ. rewrite RMicromega.Q2R_0 in HQ. exact HQ.
Qed.

Lemma nodupb_NoDup l : nodupb l = true -> NoDup l.
Proof.
  induction l as [|k l IH]; cbn [nodupb]; intros H; [constructor|].
  apply andb_prop in H as [H1 H2]. constructor; [|exact (IH H2)].
  intros Hin. apply negb_true_iff in H1. assert (Hex : existsb (Nat.eqb k) l = true).
  { apply existsb_exists. exists k. split; [exact Hin|apply Nat.eqb_refl]. }
  congruence.
Qed.

Lemma keys_below_iff n (p : pdict) : keys_below n p = true <-> forall k, In k (keys p) -> (k < n)%nat.
Proof.
  unfold keys_below, keys. rewrite forallb_forall. split.
  - intros H k Hk. apply in_map_iff in Hk as [[k' q] [<- Hin]]. specialize (H _ Hin). cbn in H.
    apply Nat.ltb_lt. exact H.
  - intros H [k q] Hin. apply Nat.ltb_lt. apply H. apply in_map_iff. exists (k, q). split; [reflexivity|exact Hin].
Qed.

Lemma keys_prune_incl (d : pdict) k : In k (keys (prune d)) -> In k (keys d).
Proof.
  unfold keys, prune. intros H. apply in_map_iff in H as [[k' q] [<- Hin]]. apply filter_In in Hin as [Hin _].
  apply in_map_iff. exists (k', q). split; [reflexivity|exact Hin].
Qed.

Lemma keys_pmerge_incl (a b : pdict) k : In k (keys (pmerge a b)) -> In k (keys a) \/ In k (keys b).
Proof.
  unfold keys, pmerge, merge. rewrite map_app, in_app_iff. intros [H|H].
  - left. rewrite map_map in H. apply in_map_iff in H as [[k' q] [<- Hin]].
    apply in_map_iff. exists (k', q). split; [|exact Hin]. destruct (lookup Nat.eqb k' b); reflexivity.
  - right. apply in_map_iff in H as [[k' q] [<- Hin]]. apply filter_In in Hin as [Hin _].
    apply in_map_iff. exists (k', q). split; [reflexivity|exact Hin].
Qed.

(** the point recorded by a proximal step only mentions the leaves of p and the fresh subgradient leaf *)
Lemma keys_below_prox n (p : pdict) gamma :
  keys_below n p = true -> keys_below (S n) (prune (p_sub p (p_scal gamma [(n, 1%Q)]))) = true.
Proof.
  intros Hp. apply keys_below_iff. intros k Hk. apply keys_prune_incl in Hk. unfold p_sub, p_add in Hk.
  apply keys_prune_incl in Hk. apply keys_pmerge_incl in Hk as [Hk|Hk].
  - apply (proj1 (keys_below_iff n p) Hp) in Hk. lia.
  - unfold p_neg, p_scal in Hk. rewrite !keys_scale in Hk. cbn in Hk. destruct Hk as [<-|[]]. lia.
Qed.

(** the dual point recorded by a Bregman step only mentions the leaves of its two operands *)
Lemma keys_below_breg n (sx0 g : pdict) gamma :
  keys_below n sx0 = true -> keys_below n g = true -> keys_below n (breg_dual sx0 g gamma) = true.
Proof.
  intros Hs Hg. apply keys_below_iff. intros k Hk. unfold breg_dual in Hk. apply keys_prune_incl in Hk.
  unfold p_sub, p_add in Hk. apply keys_prune_incl in Hk. apply keys_pmerge_incl in Hk as [Hk|Hk].
  - exact (proj1 (keys_below_iff n sx0) Hs k Hk).
  - unfold p_neg, p_scal in Hk. rewrite !keys_scale in Hk. exact (proj1 (keys_below_iff n g) Hg k Hk).
Qed.

(** the point recorded by an inexact proximal step 'PD_gapII' (e is leaf n, gx leaf S n), the (sub)gradient recorded by
    'PD_gapIII' (x is leaf n) *)
Lemma keys_below_ip2 n (x0 : pdict) gamma :
  keys_below n x0 = true -> keys_below (S (S n)) (ip2_point n x0 gamma) = true.
Proof.
  intros Hx. apply keys_below_iff. intros k Hk. unfold ip2_point in Hk. apply keys_prune_incl in Hk.
  unfold p_add in Hk. apply keys_prune_incl in Hk. apply keys_pmerge_incl in Hk as [Hk|Hk].
  - unfold p_sub, p_add in Hk. apply keys_prune_incl in Hk. apply keys_pmerge_incl in Hk as [Hk|Hk].
    + apply (proj1 (keys_below_iff n x0) Hx) in Hk. lia.
    + unfold p_neg, p_scal in Hk. rewrite !keys_scale in Hk. cbn in Hk. destruct Hk as [<-|[]]. lia.
  - cbn in Hk. destruct Hk as [<-|[]]. lia.
Qed.
Lemma keys_below_ip3 n (x0 : pdict) gamma :
  keys_below n x0 = true -> keys_below (S n) (ip3_grad n x0 gamma) = true.
Proof.
  intros Hx. apply keys_below_iff. intros k Hk. unfold ip3_grad in Hk. apply keys_prune_incl in Hk.
  unfold p_div, p_scal in Hk. rewrite keys_scale in Hk.
  unfold p_sub, p_add in Hk. apply keys_prune_incl in Hk. apply keys_pmerge_incl in Hk as [Hk|Hk].
  - apply (proj1 (keys_below_iff n x0) Hx) in Hk. lia.
  - unfold p_neg, p_scal in Hk. rewrite !keys_scale in Hk. cbn in Hk. destruct Hk as [<-|[]]. lia.
Qed.

Lemma ltb_true a b : (a < b)%nat -> Nat.ltb a b = true.
Proof. intros H. apply Nat.ltb_lt. exact H. Qed.

Section Method.
  Context {E : ips}.
  Variable W : @world E.

  (** ** valuations that agree on the leaves an object mentions give it the same value *)
  Lemma evalP_agree (rho rho' : nat -> E) n p :
    keys_below n p = true -> (forall i, (i < n)%nat -> rho' i = rho i) -> evalP rho' p = evalP rho p.
  Proof.
    intros Hk Hag. induction p as [|[k q] p IH]; cbn [evalP]; [reflexivity|].
    cbn [keys_below forallb] in Hk. apply andb_prop in Hk as [Hk1 Hk2].
    apply Nat.ltb_lt in Hk1. rewrite (Hag k Hk1), (IH Hk2). reflexivity.
  Qed.

  Definition ekey_below (np ne : nat) (k : ekey) : bool :=
    match k with
    | KF e => Nat.ltb e ne
    | KG i j => Nat.ltb i np && Nat.ltb j np
    | K1 => true
    end.
  Definition ekeys_below (np ne : nat) (d : edict) : bool := forallb (fun '(k, _) => ekey_below np ne k) d.

  Lemma evalE_agree (rho rho' : nat -> E) (phi phi' : nat -> R) np ne d :
    ekeys_below np ne d = true ->
    (forall i, (i < np)%nat -> rho' i = rho i) -> (forall i, (i < ne)%nat -> phi' i = phi i) ->
    evalE rho' phi' d = evalE rho phi d.
  Proof.
    intros Hk Hr Hp. induction d as [|[k q] d IH]; cbn [evalE]; [reflexivity|].
    cbn [ekeys_below forallb] in Hk. apply andb_prop in Hk as [Hk1 Hk2].
    rewrite (IH Hk2). f_equal. f_equal. destruct k as [e|i j|]; cbn [evalK ekey_below] in *.
    - apply Nat.ltb_lt in Hk1. apply Hp, Hk1.
    - apply andb_prop in Hk1 as [Hi Hj]. apply Nat.ltb_lt in Hi. apply Nat.ltb_lt in Hj.
      rewrite (Hr i Hi), (Hr j Hj). reflexivity.
    - reflexivity.
  Qed.

  Lemma keys_below_mono n m p : (n <= m)%nat -> keys_below n p = true -> keys_below m p = true.
  Proof.
    intros Hle. unfold keys_below. rewrite !forallb_forall. intros H [k q] Hin.
    specialize (H (k, q) Hin). cbn in *. apply Nat.ltb_lt in H. apply Nat.ltb_lt. lia.
  Qed.

  Lemma ekeys_below_mono np ne np' ne' d :
    (np <= np')%nat -> (ne <= ne')%nat -> ekeys_below np ne d = true -> ekeys_below np' ne' d = true.
  Proof.
    intros H1 H2. unfold ekeys_below. rewrite !forallb_forall. intros H [k q] Hin.
    specialize (H (k, q) Hin). cbn in *. destruct k as [e|i j|]; cbn [ekey_below] in *.
    - apply Nat.ltb_lt in H. apply Nat.ltb_lt. lia.
    - apply andb_prop in H as [Hi Hj]. apply Nat.ltb_lt in Hi. apply Nat.ltb_lt in Hj.
      apply andb_true_intro. split; apply Nat.ltb_lt; lia.
    - reflexivity.
  Qed.

  (** ** the invariant of a run *)
  Definition sample_below (np ne : nat) (t : msample) : bool :=
    let '(x, g, fx) := t in keys_below np x && keys_below np g && ekeys_below np ne fx.

  Definition Inv (s : mstate) (vs : (nat -> E) * (nat -> R)) : Prop :=
    forall f t, In (f, t) (m_samples s) ->
      sample_below (m_np s) (m_ne s) t = true /\ Gen W f (sample_at (E:=E) (fst vs) (snd vs) t).

  Lemma sample_at_agree (rho rho' : nat -> E) (phi phi' : nat -> R) np ne t :
    sample_below np ne t = true ->
    (forall i, (i < np)%nat -> rho' i = rho i) -> (forall i, (i < ne)%nat -> phi' i = phi i) ->
    sample_at rho' phi' t = sample_at rho phi t.
  Proof.
    destruct t as [[x g] fx]. cbn [sample_below sample_at]. intros Hb Hr Hp.
    apply andb_prop in Hb as [Hb Hf]. apply andb_prop in Hb as [Hx Hg].
    rewrite (evalP_agree rho rho' np x Hx Hr), (evalP_agree rho rho' np g Hg Hr),
      (evalE_agree rho rho' phi phi' np ne fx Hf Hr Hp). reflexivity.
  Qed.

  Lemma upd_other {A} (h : nat -> A) k a i : i <> k -> upd h k a i = h i.
  Proof. intros H. unfold upd. destruct (Nat.eqb_spec i k); [contradiction|reflexivity]. Qed.
  Lemma upd_same {A} (h : nat -> A) k a : upd h k a k = a.
  Proof. unfold upd. rewrite Nat.eqb_refl. reflexivity. Qed.

  Lemma wstep_agree vs s o :
    (forall i, (i < m_np s)%nat -> fst (wstep W vs s o) i = fst vs i) /\
    (forall i, (i < m_ne s)%nat -> snd (wstep W vs s o) i = snd vs i).
  Proof.
    destruct o as [|f p|f|f p gamma|f dir|f p rel eps|f x0 dirs|f p|h gx0 sx0 gamma|h f sx0 gamma|f x0 gamma [| |]];
      cbn [wstep fst snd]; split; intros i Hi; try reflexivity;
      repeat (rewrite upd_other by lia); reflexivity.
  Qed.

  Lemma sample_below_mono np ne np' ne' t :
    (np <= np')%nat -> (ne <= ne')%nat -> sample_below np ne t = true -> sample_below np' ne' t = true.
  Proof.
    destruct t as [[x g] fx]. cbn [sample_below]. intros H1 H2 Hb.
    apply andb_prop in Hb as [Hb Hf]. apply andb_prop in Hb as [Hx Hg].
    rewrite (keys_below_mono _ _ _ H1 Hx), (keys_below_mono _ _ _ H1 Hg),
      (ekeys_below_mono _ _ _ _ _ H1 H2 Hf). reflexivity.
  Qed.

  Lemma mstep_counters s o : (m_np s <= m_np (mstep s o))%nat /\ (m_ne s <= m_ne (mstep s o))%nat.
  Proof. destruct o as [| | | | | | | | | |? ? ? []]; cbn; lia. Qed.

  Lemma keys_below_neg n (dir : pdict) :
    keys_below n dir = true -> keys_below (S n) (prune (p_neg dir)) = true.
  Proof.
    intros Hd. apply keys_below_iff. intros k Hk. apply keys_prune_incl in Hk.
    unfold p_neg, p_scal in Hk. rewrite keys_scale in Hk. apply (proj1 (keys_below_iff n dir) Hd) in Hk. lia.
  Qed.

  (** the value of the point recorded by a proximal step is the proximal point *)
  Lemma prox_point_value (rho : nat -> E) n (p : pdict) gamma (xr : E) :
    keys_below n p = true -> NoDupKeys nat p -> 0 < Q2R gamma ->
    let x0 := evalP rho p in
    let rho' := upd rho n (vscal (1 / Q2R gamma) (vsub x0 xr)) in
    veq xr (evalP rho' (prune (p_sub p (p_scal gamma [(n, 1%Q)])))).
  Proof.
    intros Hk Hnd Hg x0 rho' w.
    assert (Hp : evalP rho' p = x0).
    { apply (evalP_agree rho rho' n p Hk). intros i Hi. apply upd_other. lia. }
    assert (Hpr : forall d : pdict, inner (evalP rho' (prune d)) w = inner (evalP rho' d) w).
    { intros d. rewrite !inner_evalP, dsum_prune. reflexivity. }
    rewrite Hpr.
    rewrite (evalP_sub rho' p (p_scal gamma [(n, 1%Q)]) Hnd) by (apply pND_scal; unfold NoDupKeys, keys; cbn; repeat constructor; tauto).
    rewrite inner_sub_l, Hp, (evalP_scal rho' gamma [(n, 1%Q)] w), inner_scal_l.
    cbn [evalP]. unfold rho' at 1. rewrite upd_same, Q2R_one.
    rewrite inner_add_l, !inner_scal_l, inner_zero_l, inner_sub_l. field. lra.
  Qed.

  (** the value of the dual point recorded by a Bregman step *)
  Lemma breg_dual_value (rho : nat -> E) (sx0 g : pdict) gamma :
    NoDupKeys nat sx0 -> NoDupKeys nat g ->
    veq (evalP rho (breg_dual sx0 g gamma)) (vsub (evalP rho sx0) (vscal (Q2R gamma) (evalP rho g))).
  Proof.
    intros Hs Hg w. unfold breg_dual. rewrite inner_evalP, dsum_prune, <- inner_evalP.
    rewrite (evalP_sub rho sx0 (p_scal gamma g) Hs) by (apply pND_scal; exact Hg).
    rewrite !inner_sub_l. rewrite (evalP_scal rho gamma g w). reflexivity.
  Qed.

  Lemma ip2_point_value (rho : nat -> E) n (x0 : pdict) gamma :
    NoDupKeys nat x0 ->
    veq (evalP rho (ip2_point n x0 gamma)) (vadd (vsub (evalP rho x0) (vscal (Q2R gamma) (rho (S n)))) (rho n)).
  Proof.
    intros Hnd w. unfold ip2_point. rewrite inner_evalP, dsum_prune, <- inner_evalP.
    assert (Hs : forall k, NoDupKeys nat [(k, 1%Q)]) by (intros k; unfold NoDupKeys, keys; cbn; repeat constructor; tauto).
    rewrite (evalP_add rho (p_sub x0 (p_scal gamma [(S n, 1%Q)])) [(n, 1%Q)]
               (pND_sub _ _ Hnd (pND_scal gamma _ (Hs (S n)))) (Hs n) w).
    rewrite inner_add_l. rewrite (evalP_sub rho x0 (p_scal gamma [(S n, 1%Q)]) Hnd (pND_scal gamma _ (Hs (S n))) w).
    rewrite inner_sub_l. rewrite (evalP_scal rho gamma [(S n, 1%Q)] w). rewrite inner_scal_l.
    cbn [evalP]. repeat first [rewrite inner_add_l | rewrite inner_sub_l | rewrite inner_scal_l | rewrite inner_zero_l]; rewrite ?Q2R_one; lra.
  Qed.

  Lemma qpos_nz gamma : 0 < Q2R gamma -> ~ (gamma == 0)%Q.
  Proof. intros Hg Hz. apply Qeq_eqR in Hz. rewrite RMicromega.Q2R_0 in Hz. lra. Qed.

  Lemma ip3_grad_value (rho : nat -> E) n (x0 : pdict) gamma :
    NoDupKeys nat x0 -> 0 < Q2R gamma ->
    veq (evalP rho (ip3_grad n x0 gamma)) (vscal (1 / Q2R gamma) (vsub (evalP rho x0) (rho n))).
  Proof.
    intros Hnd Hg w. unfold ip3_grad. rewrite inner_evalP, dsum_prune, <- inner_evalP.
    assert (Hs : NoDupKeys nat [(n, 1%Q)]) by (unfold NoDupKeys, keys; cbn; repeat constructor; tauto).
    rewrite (evalP_div rho (p_sub x0 [(n, 1%Q)]) gamma (qpos_nz gamma Hg) w). rewrite !inner_scal_l.
    rewrite (evalP_sub rho x0 [(n, 1%Q)] Hnd Hs w). rewrite !inner_sub_l.
    cbn [evalP]. repeat first [rewrite inner_add_l | rewrite inner_sub_l | rewrite inner_scal_l | rewrite inner_zero_l]; rewrite ?Q2R_one; lra.
  Qed.

  Ltac upd_simpl := repeat first [rewrite upd_same | rewrite upd_other by lia].

  Lemma leaf_veq (rho : nat -> E) k : veq (evalP rho [(k, 1%Q)]) (rho k).
  Proof. intros w. cbn [evalP]. rewrite inner_add_l, inner_scal_l, inner_zero_l, Q2R_one. lra. Qed.
  Lemma leaf_val (rho : nat -> E) (phi : nat -> R) k : evalE rho phi [(KF k, 1%Q)] = phi k.
  Proof. cbn [evalE evalK]. rewrite Q2R_one. lra. Qed.

  Lemma Inv_step s vs o :
    Inv s vs -> op_wf s o = true -> step_ok W o = true ->
    Inv (mstep s o) (wstep W vs s o).
  Proof.
    intros HI Hwf Hpx f t Hin.
    destruct (wstep_agree vs s o) as [Hr Hp].
    destruct (mstep_counters s o) as [Hc1 Hc2].
    assert (Hold : forall f t, In (f, t) (m_samples s) ->
              sample_below (m_np (mstep s o)) (m_ne (mstep s o)) t = true /\
              Gen W f (sample_at (E:=E) (fst (wstep W vs s o)) (snd (wstep W vs s o)) t)).
    { intros f0 t0 Hin0. destruct (HI f0 t0 Hin0) as [Hb Hg]. split.
      - exact (sample_below_mono _ _ _ _ t0 Hc1 Hc2 Hb).
      - rewrite (sample_at_agree (fst vs) _ (snd vs) _ _ _ t0 Hb Hr Hp). exact Hg. }
    destruct o as [|g p|g|g p gamma|g dir|g p rel eps|g x0 dirs|g p|h gx0 sx0 gamma|h g sx0 gamma|g x0 gamma opt];
      cbn [mstep m_samples op_wf step_ok] in Hin, Hwf, Hpx.
    - apply Hold, Hin.
    - apply in_app_or in Hin as [Hin|[Heq|[]]]; [apply Hold, Hin|].
      injection Heq as <- <-. split.
      + assert (H1 : Nat.ltb (m_np s) (S (m_np s)) = true) by (apply Nat.ltb_lt; lia).
        assert (H2 : Nat.ltb (m_ne s) (S (m_ne s)) = true) by (apply Nat.ltb_lt; lia).
        unfold sample_below. cbn [mstep m_np m_ne].
        rewrite (keys_below_mono (m_np s) (S (m_np s)) p (Nat.le_succ_diag_r _) Hwf).
        unfold keys_below, ekeys_below. cbn [forallb ekey_below]. rewrite H1, H2. reflexivity.
      + cbn [sample_at wstep fst snd evalP evalE evalK].
        rewrite (evalP_agree (fst vs) (upd (fst vs) (m_np s) _) (m_np s) p Hwf)
          by (intros i Hi; apply upd_other; lia).
        rewrite !upd_same, Q2R_one.
        set (x := evalP (fst vs) p).
        replace (1 * snd (orc W g x) + 0) with (snd (orc W g x)) by lra.
        apply (Gen_veq W g x (fst (orc W g x))); [apply orc_genuine|].
        intros w. rewrite inner_add_l, inner_scal_l, inner_zero_l. lra.
    - apply in_app_or in Hin as [Hin|[Heq|[]]]; [apply Hold, Hin|].
      injection Heq as <- <-. split.
      + assert (H1 : Nat.ltb (m_np s) (S (m_np s)) = true) by (apply Nat.ltb_lt; lia).
        assert (H2 : Nat.ltb (m_ne s) (S (m_ne s)) = true) by (apply Nat.ltb_lt; lia).
        unfold sample_below. cbn [mstep m_np m_ne].
        unfold keys_below, ekeys_below. cbn [forallb ekey_below]. rewrite H1, H2. reflexivity.
      + cbn [sample_at wstep fst snd evalP evalE evalK].
        rewrite !upd_same, Q2R_one.
        replace (1 * snd (stat W g) + 0) with (snd (stat W g)) by lra.
        apply (Gen_xveq W g (fst (stat W g))); [apply stat_genuine|].
        intros w. rewrite inner_add_l, inner_scal_l, inner_zero_l. lra.
    - apply in_app_or in Hin as [Hin|[Heq|[]]]; [apply Hold, Hin|].
      injection Heq as <- <-.
      apply andb_prop in Hwf as [Hwf Hpos]. apply andb_prop in Hwf as [Hk Hndb].
      pose proof (qpos_pos gamma Hpos) as Hg.
      assert (Hnd : NoDupKeys nat p) by (apply nodupb_NoDup; exact Hndb).
      split.
      + assert (H1 : Nat.ltb (m_np s) (S (m_np s)) = true) by (apply Nat.ltb_lt; lia).
        assert (H2 : Nat.ltb (m_ne s) (S (m_ne s)) = true) by (apply Nat.ltb_lt; lia).
        unfold sample_below. cbn [mstep m_np m_ne].
        change [(m_np s, (1 * gamma)%Q)] with (p_scal gamma [(m_np s, 1%Q)]). rewrite (keys_below_prox (m_np s) p gamma Hk).
        unfold keys_below, ekeys_below. cbn [forallb ekey_below]. rewrite H1, H2. reflexivity.
      + cbn [sample_at wstep fst snd].
        set (x0 := evalP (fst vs) p). set (xr := prox W g (Q2R gamma) x0).
        set (G := vscal (1 / Q2R gamma) (vsub x0 xr)).
        cbn [evalP evalE evalK]. rewrite !upd_same, Q2R_one.
        replace (1 * proxval W g (Q2R gamma) x0 + 0) with (proxval W g (Q2R gamma) x0) by lra.
        apply (Gen_xveq W g xr); [|exact (prox_point_value (fst vs) (m_np s) p gamma xr Hk Hnd Hg)].
        apply (Gen_veq W g xr G); [apply prox_genuine; assumption|].
        intros w. rewrite inner_add_l, inner_scal_l, inner_zero_l. lra.
    - apply in_app_or in Hin as [Hin|[Heq|[]]]; [apply Hold, Hin|].
      injection Heq as <- <-. split.
      + assert (H1 : Nat.ltb (m_np s) (S (m_np s)) = true) by (apply Nat.ltb_lt; lia).
        assert (H2 : Nat.ltb (m_ne s) (S (m_ne s)) = true) by (apply Nat.ltb_lt; lia).
        unfold sample_below. cbn [mstep m_np m_ne]. rewrite (keys_below_neg (m_np s) dir Hwf).
        unfold keys_below, ekeys_below. cbn [forallb ekey_below]. rewrite H1, H2. reflexivity.
      + cbn [sample_at wstep fst snd].
        set (d := evalP (fst vs) dir).
        cbn [evalP evalE evalK]. rewrite !upd_same, Q2R_one.
        replace (1 * snd (lmo W g d) + 0) with (snd (lmo W g d)) by lra.
        apply (Gen_xveq W g (fst (lmo W g d))).
        * apply (Gen_veq W g (fst (lmo W g d)) (vneg d)); [apply lmo_genuine; exact Hpx|].
          intros w. rewrite inner_evalP, dsum_prune, <- inner_evalP.
          rewrite (evalP_neg _ dir w).
          rewrite (evalP_agree (fst vs) (upd (fst vs) (m_np s) (fst (lmo W g d))) (m_np s) dir Hwf)
            by (intros i Hi; apply upd_other; lia).
          reflexivity.
        * intros w. rewrite inner_add_l, inner_scal_l, inner_zero_l. lra.
    - apply in_app_or in Hin as [Hin|[Heq|[]]]; [apply Hold, Hin|].
      injection Heq as <- <-. split.
      + assert (H1 : Nat.ltb (m_np s) (S (S (m_np s))) = true) by (apply Nat.ltb_lt; lia).
        assert (H2 : Nat.ltb (m_ne s) (S (m_ne s)) = true) by (apply Nat.ltb_lt; lia).
        unfold sample_below. cbn [mstep m_np m_ne].
        rewrite (keys_below_mono (m_np s) (S (S (m_np s))) p) by (try lia; exact Hwf).
        unfold keys_below, ekeys_below. cbn [forallb ekey_below]. rewrite H1, H2. reflexivity.
      + cbn [sample_at wstep fst snd evalP evalE evalK].
        rewrite (evalP_agree (fst vs) (upd (upd (fst vs) (m_np s) _) (S (m_np s)) _) (m_np s) p Hwf)
          by (intros i Hi; rewrite upd_other by lia; apply upd_other; lia).
        rewrite (upd_other _ (S (m_np s)) _ (m_np s)) by lia. rewrite !upd_same, Q2R_one.
        set (x := evalP (fst vs) p).
        replace (1 * snd (orc W g x) + 0) with (snd (orc W g x)) by lra.
        apply (Gen_veq W g x (fst (orc W g x))); [apply orc_genuine|].
        intros w. rewrite inner_add_l, inner_scal_l, inner_zero_l. lra.
    - apply in_app_or in Hin as [Hin|[Heq|[]]]; [apply Hold, Hin|].
      injection Heq as <- <-. split.
      + assert (H0 : Nat.ltb (m_np s) (S (S (m_np s))) = true) by (apply Nat.ltb_lt; lia).
        assert (H1 : Nat.ltb (S (m_np s)) (S (S (m_np s))) = true) by (apply Nat.ltb_lt; lia).
        assert (H2 : Nat.ltb (m_ne s) (S (m_ne s)) = true) by (apply Nat.ltb_lt; lia).
        unfold sample_below. cbn [mstep m_np m_ne].
        unfold keys_below, ekeys_below. cbn [forallb ekey_below]. rewrite H0, H1, H2. reflexivity.
      + cbn [sample_at wstep fst snd evalP evalE evalK].
        rewrite (upd_other _ (S (m_np s)) _ (m_np s)) by lia. rewrite !upd_same, Q2R_one.
        set (x := linesearch W g (evalP (fst vs) x0) (map (evalP (fst vs)) dirs)).
        replace (1 * snd (orc W g x) + 0) with (snd (orc W g x)) by lra.
        apply (Gen_xveq W g x).
        * apply (Gen_veq W g x (fst (orc W g x))); [apply orc_genuine|].
          intros w. rewrite inner_add_l, inner_scal_l, inner_zero_l. lra.
        * intros w. rewrite inner_add_l, inner_scal_l, inner_zero_l. lra.
    - (* MEpsSub *)
      apply andb_prop in Hwf as [Hk Hndb].
      set (x := evalP (fst vs) p).
      destruct (epssub_spec W g x) as [Hgen _].
      assert (Hpv : evalP (fst (wstep W vs s (MEpsSub g p))) p = x).
      { apply (evalP_agree (fst vs) _ (m_np s) p Hk). exact Hr. }
      apply in_app_or in Hin as [Hin|[Heq|[Heq|[]]]]; [apply Hold, Hin| |]; injection Heq as <- <-; split.
      + unfold sample_below. cbn [mstep m_np m_ne].
        rewrite (keys_below_mono (m_np s) (S (S (S (m_np s)))) p) by (try lia; exact Hk).
        unfold keys_below, ekeys_below. cbn [forallb ekey_below]. rewrite !ltb_true by lia. reflexivity.
      + unfold sample_at. rewrite Hpv, leaf_val. cbn [wstep fst snd]. fold x. upd_simpl.
        apply (Gen_veq W g x (fst (orc W g x))); [apply orc_genuine|].
        apply veq_sym. eapply veq_trans; [apply leaf_veq|]. upd_simpl. apply veq_refl.
      + unfold sample_below. cbn [mstep m_np m_ne].
        unfold keys_below, ekeys_below. cbn [forallb ekey_below]. rewrite !ltb_true by lia. reflexivity.
      + unfold sample_at. rewrite leaf_val. cbn [wstep fst snd]. fold x. upd_simpl.
        apply (Gen_xveq W g (fst (snd (epssub W g x)))).
        * apply (Gen_veq W g _ (fst (fst (epssub W g x)))); [exact Hgen|].
          apply veq_sym. eapply veq_trans; [apply leaf_veq|]. upd_simpl. apply veq_refl.
        * apply veq_sym. eapply veq_trans; [apply leaf_veq|]. upd_simpl. apply veq_refl.
    - (* MBregGrad *)
      apply andb_prop in Hwf as [Hwf Hnds]. apply andb_prop in Hwf as [Hwf Hks]. apply andb_prop in Hwf as [Hkg Hndg].
      apply in_app_or in Hin as [Hin|[Heq|[]]]; [apply Hold, Hin|]. injection Heq as <- <-. split.
      + unfold sample_below. cbn [mstep m_np m_ne].
        rewrite (keys_below_mono (m_np s) (S (m_np s)) _ (Nat.le_succ_diag_r _) (keys_below_breg (m_np s) sx0 gx0 gamma Hks Hkg)).
        unfold keys_below, ekeys_below. cbn [forallb ekey_below]. rewrite !ltb_true by lia. reflexivity.
      + unfold sample_at. rewrite leaf_val. cbn [wstep fst snd].
        set (sd := vsub (evalP (fst vs) sx0) (vscal (Q2R gamma) (evalP (fst vs) gx0))). upd_simpl.
        apply (Gen_xveq W h (fst (mirror W h sd))).
        * apply (Gen_veq W h _ sd); [apply mirror_genuine; exact Hpx|].
          apply veq_sym. eapply veq_trans;
            [apply breg_dual_value; apply nodupb_NoDup; assumption|].
          rewrite (evalP_agree (fst vs) (upd (fst vs) (m_np s) _) (m_np s) sx0 Hks) by (intros i Hi; apply upd_other; lia).
          rewrite (evalP_agree (fst vs) (upd (fst vs) (m_np s) _) (m_np s) gx0 Hkg) by (intros i Hi; apply upd_other; lia).
          apply veq_refl.
        * apply veq_sym. eapply veq_trans; [apply leaf_veq|]. upd_simpl. apply veq_refl.
    - (* MBregProx *)
      apply andb_prop in Hwf as [Hwf Hpos]. apply andb_prop in Hwf as [Hks Hnds].
      pose proof (qpos_pos gamma Hpos) as Hg.
      set (s0 := evalP (fst vs) sx0).
      destruct (bprox_genuine W h g (Q2R gamma) s0 Hpx Hg) as [Hgf Hgh].
      apply in_app_or in Hin as [Hin|[Heq|[Heq|[]]]]; [apply Hold, Hin| |]; injection Heq as <- <-; split.
      + unfold sample_below. cbn [mstep m_np m_ne].
        unfold keys_below, ekeys_below. cbn [forallb ekey_below]. rewrite !ltb_true by lia. reflexivity.
      + unfold sample_at. rewrite leaf_val. cbn [wstep fst snd]. fold s0. upd_simpl.
        apply (Gen_xveq W g (fst (fst (bprox W h g (Q2R gamma) s0)))).
        * apply (Gen_veq W g _ (snd (fst (bprox W h g (Q2R gamma) s0)))); [exact Hgf|].
          apply veq_sym. eapply veq_trans; [apply leaf_veq|]. upd_simpl. apply veq_refl.
        * apply veq_sym. eapply veq_trans; [apply leaf_veq|]. upd_simpl. apply veq_refl.
      + unfold sample_below. cbn [mstep m_np m_ne].
        assert (Hkl : keys_below (S (S (m_np s))) [(S (m_np s), 1%Q)] = true).
        { unfold keys_below. cbn [forallb]. rewrite ltb_true by lia. reflexivity. }
        rewrite (keys_below_breg (S (S (m_np s))) sx0 [(S (m_np s), 1%Q)] gamma
                   (keys_below_mono (m_np s) (S (S (m_np s))) sx0 (Nat.le_trans _ _ _ (Nat.le_succ_diag_r _) (Nat.le_succ_diag_r _)) Hks) Hkl).
        unfold keys_below, ekeys_below. cbn [forallb ekey_below]. rewrite !ltb_true by lia. reflexivity.
      + unfold sample_at. rewrite leaf_val. cbn [wstep fst snd]. fold s0. upd_simpl.
        apply (Gen_xveq W h (fst (fst (bprox W h g (Q2R gamma) s0)))).
        * apply (Gen_veq W h _ _ _ _ Hgh).
          apply veq_sym. eapply veq_trans;
            [apply breg_dual_value; [apply nodupb_NoDup; exact Hnds|unfold NoDupKeys, keys; cbn; repeat constructor; tauto]|].
          apply veq_sub.
          -- rewrite (evalP_agree (fst vs) _ (m_np s) sx0 Hks)
               by (intros i Hi; rewrite upd_other by lia; apply upd_other; lia). apply veq_refl.
          -- apply veq_scal. eapply veq_trans; [apply leaf_veq|]. upd_simpl. apply veq_refl.
        * apply veq_sym. eapply veq_trans; [apply leaf_veq|]. upd_simpl. apply veq_refl.
    - (* MInexactProx *)
      apply andb_prop in Hwf as [Hwf Hpos]. apply andb_prop in Hwf as [Hk Hndb].
      pose proof (qpos_pos gamma Hpos) as Hg.
      assert (Hnd : NoDupKeys nat x0) by (apply nodupb_NoDup; exact Hndb).
      set (x0v := evalP (fst vs) x0).
      pose proof (iprox_spec W g opt (Q2R gamma) x0v Hg) as Hsp. cbn zeta in Hsp.
      destruct opt; destruct Hsp as [Hgx Hsp]; cbn [mstep m_samples] in Hin.
      + destruct Hsp as [Hgw _].
        apply in_app_or in Hin as [Hin|[Heq|[Heq|[]]]]; [apply Hold, Hin| |]; injection Heq as <- <-; split.
        * unfold sample_below. cbn [mstep m_np m_ne].
          unfold keys_below, ekeys_below. cbn [forallb ekey_below]. rewrite !ltb_true by lia. reflexivity.
        * unfold sample_at. rewrite leaf_val. cbn [wstep fst snd]. fold x0v. upd_simpl.
          eapply Gen_xveq; [eapply Gen_veq; [exact Hgw|]|];
            (apply veq_sym; eapply veq_trans; [apply leaf_veq|]; upd_simpl; apply veq_refl).
        * unfold sample_below. cbn [mstep m_np m_ne].
          unfold keys_below, ekeys_below. cbn [forallb ekey_below]. rewrite !ltb_true by lia. reflexivity.
        * unfold sample_at. rewrite leaf_val. cbn [wstep fst snd]. fold x0v. upd_simpl.
          eapply Gen_xveq; [eapply Gen_veq; [exact Hgx|]|];
            (apply veq_sym; eapply veq_trans; [apply leaf_veq|]; upd_simpl; apply veq_refl).
      + apply in_app_or in Hin as [Hin|[Heq|[]]]; [apply Hold, Hin|]. injection Heq as <- <-. split.
        * unfold sample_below. cbn [mstep m_np m_ne]. rewrite (keys_below_ip2 (m_np s) x0 gamma Hk).
          unfold keys_below, ekeys_below. cbn [forallb ekey_below]. rewrite !ltb_true by lia. reflexivity.
        * unfold sample_at. rewrite leaf_val. cbn [wstep fst snd]. fold x0v. upd_simpl.
          eapply Gen_xveq; [eapply Gen_veq; [exact Hgx|]|].
          -- apply veq_sym. eapply veq_trans; [apply leaf_veq|]. upd_simpl. apply veq_refl.
          -- apply veq_sym. eapply veq_trans; [apply (ip2_point_value _ (m_np s) x0 gamma Hnd)|].
             rewrite (evalP_agree (fst vs) _ (m_np s) x0 Hk)
               by (intros i Hi; rewrite upd_other by lia; apply upd_other; lia).
             fold x0v. upd_simpl. intros w.
             repeat first [rewrite inner_add_l | rewrite inner_sub_l | rewrite inner_scal_l | rewrite inner_zero_l]; rewrite ?Q2R_one; lra.
      + destruct Hsp as [Hgw _].
        apply in_app_or in Hin as [Hin|[Heq|[Heq|[]]]]; [apply Hold, Hin| |]; injection Heq as <- <-; split.
        * unfold sample_below. cbn [mstep m_np m_ne].
          unfold keys_below, ekeys_below. cbn [forallb ekey_below]. rewrite !ltb_true by lia. reflexivity.
        * unfold sample_at. rewrite leaf_val. cbn [wstep fst snd]. fold x0v. upd_simpl.
          eapply Gen_xveq; [eapply Gen_veq; [exact Hgx|]|];
            (apply veq_sym; eapply veq_trans; [apply leaf_veq|]; upd_simpl; apply veq_refl).
        * unfold sample_below. cbn [mstep m_np m_ne].
          rewrite (keys_below_mono (S (m_np s)) (S (S (S (m_np s)))) _ ltac:(lia) (keys_below_ip3 (m_np s) x0 gamma Hk)).
          unfold keys_below, ekeys_below. cbn [forallb ekey_below]. rewrite !ltb_true by lia. reflexivity.
        * unfold sample_at. rewrite leaf_val. cbn [wstep fst snd]. fold x0v. upd_simpl.
          eapply Gen_xveq; [eapply Gen_veq; [exact Hgw|]|].
          -- apply veq_sym. eapply veq_trans; [apply (ip3_grad_value _ (m_np s) x0 gamma Hnd Hg)|].
             rewrite (evalP_agree (fst vs) _ (m_np s) x0 Hk)
               by (intros i Hi; rewrite !upd_other by lia; reflexivity).
             fold x0v. upd_simpl. apply veq_refl.
          -- apply veq_sym. eapply veq_trans; [apply leaf_veq|]. upd_simpl. apply veq_refl.
  Qed.

  (** Every recorded sample of a well-formed program is a genuine sample of its function in the
      world, at the values the real run gives to the leaves — for every program length. *)
  Theorem world_samples_genuine ops : forall s vs,
    mwf ops s = true -> steps_ok W ops = true -> Inv s vs -> Inv (mrun ops s) (wrun W ops s vs).
  Proof.
    induction ops as [|o ops IH]; intros s vs Hwf Hpx HI; cbn [mrun fold_left wrun]; [exact HI|].
    cbn [mwf] in Hwf. apply andb_prop in Hwf as [Ho Hwf].
    unfold steps_ok in Hpx. cbn [forallb] in Hpx. apply andb_prop in Hpx as [Hpo Hpx].
    apply (IH (mstep s o) (wstep W vs s o) Hwf Hpx). apply Inv_step; assumption.
  Qed.

  Corollary world_samples_genuine_init ops vs :
    mwf ops minit = true -> steps_ok W ops = true -> Inv (mrun ops minit) (wrun W ops minit vs).
  Proof. intros Hwf Hpx. apply world_samples_genuine; [exact Hwf|exact Hpx|]. intros f t []. Qed.

  (** ** the constraints the steps add to the functions hold at the values of the run *)

  (** what the accuracy constraint of an inexact gradient step means, whatever the valuation: the recorded
      object holds iff the direction (leaf S n) is within the accuracy of the gradient (leaf n) *)
  Lemma inexact_cons_holds (rho : nat -> E) (phi : nat -> R) n rel eps :
    holds rho phi (inexact_cons n rel eps) <->
    nrm2 (vsub (rho n) (rho (S n))) <= Q2R eps ^ 2 * (if rel then nrm2 (rho n) else 1).
  Proof.
    unfold inexact_cons.
    assert (Hvp : forall v, NoDupKeys nat (inexact_vp n v)).
    { intros v. unfold inexact_vp, NoDupKeys, keys. destruct v; cbn; repeat constructor; tauto. }
    assert (Hvx : forall v : nat, NoDupKeys ekey ((fun _ : nat => @nil (ekey * Q)) v)) by (intros v; constructor).
    assert (Hleaf : forall k (w : E), inner (evalP rho [(k, 1%Q)]) w = inner (rho k) w).
    { intros k w. cbn [evalP]. rewrite inner_add_l, inner_scal_l, inner_zero_l, Q2R_one. lra. }
    assert (Hn2 : forall a b a' b' : E, veq a a' -> veq b b' -> nrm2 (vsub a b) = nrm2 (vsub a' b')).
    { intros a b a' b' Ha Hb. unfold nrm2. apply veq_inner; apply veq_sub; assumption. }
    assert (Hn1 : forall a a' : E, veq a a' -> nrm2 a = nrm2 a') by (intros a a' Ha; unfold nrm2; apply veq_inner; exact Ha).
    destruct rel; cbn [inexact_formula].
    - rewrite (compileC_holds rho phi (fun _ => eps) (inexact_vp n) (fun _ => []) Hvp Hvx) by (cbn; tauto).
      cbn [denoteC denoteX denoteP sdenote inexact_vp]. fold (nrm2 (vsub (evalP rho [(n, 1%Q)]) (evalP rho [(S n, 1%Q)]))).
      fold (nrm2 (evalP rho [(n, 1%Q)])).
      rewrite (Hn2 (evalP rho [(n, 1%Q)]) (evalP rho [(S n, 1%Q)]) (rho n) (rho (S n))) by (intro w; apply Hleaf).
      rewrite (Hn1 (evalP rho [(n, 1%Q)]) (rho n)) by (intro w; apply Hleaf).
      rewrite RMicromega.Q2R_0. lra.
    - rewrite (compileC_holds rho phi (fun _ => eps) (inexact_vp n) (fun _ => []) Hvp Hvx) by (cbn; tauto).
      cbn [denoteC denoteX denoteP sdenote inexact_vp]. fold (nrm2 (vsub (evalP rho [(n, 1%Q)]) (evalP rho [(S n, 1%Q)]))).
      rewrite (Hn2 (evalP rho [(n, 1%Q)]) (evalP rho [(S n, 1%Q)]) (rho n) (rho (S n))) by (intro w; apply Hleaf).
      rewrite RMicromega.Q2R_0. lra.
  Qed.

  (** the orthogonality constraints of a line search, whatever the valuation: x is leaf n, gx leaf S n *)
  Lemma leaf_value (rho : nat -> E) k (w : E) : inner (evalP rho [(k, 1%Q)]) w = inner (rho k) w.
  Proof. cbn [evalP]. rewrite inner_add_l, inner_scal_l, inner_zero_l, Q2R_one. lra. Qed.

  Lemma ls_cons0_holds (rho : nat -> E) (phi : nat -> R) n (x0 : pdict) :
    NoDupKeys nat x0 ->
    (holds rho phi (ls_cons0 n x0) <-> inner (vsub (rho n) (evalP rho x0)) (rho (S n)) = 0).
  Proof.
    intros Hnd. unfold ls_cons0.
    assert (Hvp : forall v, NoDupKeys nat (ls_vp0 n x0 v)).
    { intros v. unfold ls_vp0. destruct v as [|[|v]]; [|exact Hnd|]; unfold NoDupKeys, keys; cbn; repeat constructor; tauto. }
    assert (Hvx : forall v : nat, NoDupKeys ekey ((fun _ : nat => @nil (ekey * Q)) v)) by (intros v; constructor).
    rewrite (compileC_holds rho phi (fun _ => 0%Q) (ls_vp0 n x0) (fun _ => []) Hvp Hvx) by (cbn; tauto).
    cbn [denoteC denoteX denoteP sdenote ls_vp0].
    assert (He : inner (vsub (evalP rho [(n, 1%Q)]) (evalP rho x0)) (evalP rho [(S n, 1%Q)])
                 = inner (vsub (rho n) (evalP rho x0)) (rho (S n))).
    { apply veq_inner; [apply veq_sub; [intro w; apply leaf_value|apply veq_refl]|intro w; apply leaf_value]. }
    rewrite He, RMicromega.Q2R_0. tauto.
  Qed.

  Lemma ls_cons_holds (rho : nat -> E) (phi : nat -> R) n (d : pdict) :
    NoDupKeys nat d ->
    (holds rho phi (ls_cons n d) <-> inner (evalP rho d) (rho (S n)) = 0).
  Proof.
    intros Hnd. unfold ls_cons.
    assert (Hvp : forall v, NoDupKeys nat (ls_vp n d v)).
    { intros v. unfold ls_vp. destruct v as [|v]; [exact Hnd|]; unfold NoDupKeys, keys; cbn; repeat constructor; tauto. }
    assert (Hvx : forall v : nat, NoDupKeys ekey ((fun _ : nat => @nil (ekey * Q)) v)) by (intros v; constructor).
    rewrite (compileC_holds rho phi (fun _ => 0%Q) (ls_vp n d) (fun _ => []) Hvp Hvx) by (cbn; tauto).
    cbn [denoteC denoteX denoteP sdenote ls_vp].
    assert (He : inner (evalP rho d) (evalP rho [(S n, 1%Q)]) = inner (evalP rho d) (rho (S n))).
    { apply veq_inner; [apply veq_refl|intro w; apply leaf_value]. }
    rewrite He, RMicromega.Q2R_0. tauto.
  Qed.

  (** the epsilon-subgradient constraint, whatever the valuation: g0 is leaf n, y leaf S (S n); f0, epsilon, fy are
      the value leaves e, S e, S (S e) *)
  Lemma epssub_cons_holds (rho : nat -> E) (phi : nat -> R) n e (p : pdict) :
    NoDupKeys nat p ->
    (holds rho phi (epssub_cons n e p) <->
     phi e + (inner (rho n) (rho (S (S n))) - phi (S (S e))) - inner (rho n) (evalP rho p) <= phi (S e)).
  Proof.
    intros Hnd. unfold epssub_cons.
    assert (Hvp : forall v, NoDupKeys nat (epssub_vp n p v)).
    { intros v. unfold epssub_vp. destruct v as [|[|v]]; [exact Hnd| |]; unfold NoDupKeys, keys; cbn; repeat constructor; tauto. }
    assert (Hvx : forall v, NoDupKeys ekey (epssub_vx e v)).
    { intros v. unfold epssub_vx. destruct v as [|[|v]]; unfold NoDupKeys, keys; cbn; repeat constructor; tauto. }
    rewrite (compileC_holds rho phi (fun _ => 0%Q) (epssub_vp n p) (epssub_vx e) Hvp Hvx) by (cbn; tauto).
    cbn [denoteC denoteX denoteP sdenote epssub_formula epssub_vp epssub_vx].
    rewrite !leaf_val.
    rewrite (veq_inner _ _ _ _ (leaf_veq rho n) (leaf_veq rho (S (S n)))).
    rewrite (veq_inner _ _ _ _ (leaf_veq rho n) (veq_refl (evalP rho p))).
    tauto.
  Qed.

  (** the accuracy constraints of an inexact proximal step, whatever the valuation.  'PD_gapI': v, w, x are the leaves
      n, S n, S (S n); fw, fx, eps_var the value leaves e, S e, S (S e).  'PD_gapII': the error e is leaf n, eps_var the
      value leaf S e.  'PD_gapIII': x, w are the leaves n, S (S n), v is (x0 - x) / gamma; value leaves as in I. *)
  Definition ip_meaning (opt : ipopt) (rho : nat -> E) (phi : nat -> R) (n e : nat) (x0 : pdict) (gamma : Q) : Prop :=
    match opt with
    | PDgapI =>
        nrm2 (vadd (vsub (rho (S (S n))) (evalP rho x0)) (vscal (Q2R gamma) (rho n))) / 2
        + Q2R gamma * (phi (S e) - phi e - inner (rho n) (vsub (rho (S (S n))) (rho (S n)))) <= phi (S (S e))
    | PDgapII => nrm2 (rho n) / 2 <= phi (S e)
    | PDgapIII =>
        Q2R gamma * (phi (S e) - phi e
                     - inner (vscal (1 / Q2R gamma) (vsub (evalP rho x0) (rho n))) (vsub (rho n) (rho (S (S n)))))
        <= phi (S (S e))
    end.

  Lemma Q2R_two : Q2R 2 = 2. Proof. unfold Q2R; cbn; lra. Qed.

  Lemma ip_cons_holds opt (rho : nat -> E) (phi : nat -> R) n e (x0 : pdict) gamma :
    NoDupKeys nat x0 -> 0 < Q2R gamma ->
    (holds rho phi (ip_cons opt n e x0 gamma) <-> ip_meaning opt rho phi n e x0 gamma).
  Proof.
    intros Hnd Hg. unfold ip_cons.
    assert (Hs : forall k, NoDupKeys nat [(k, 1%Q)]) by (intros k; unfold NoDupKeys, keys; cbn; repeat constructor; tauto).
    assert (Hsx : forall k, NoDupKeys ekey [(KF k, 1%Q)]) by (intros k; unfold NoDupKeys, keys; cbn; repeat constructor; tauto).
    assert (Hvp : forall v, NoDupKeys nat (ip_vp opt n x0 gamma v)).
    { intros v. destruct opt; cbn [ip_vp].
      - destruct v as [|[|[|[|v]]]]; [exact Hnd|apply Hs..].
      - apply Hs.
      - destruct v as [|[|[|v]]]; [exact Hnd| |apply Hs..].
        unfold ip3_grad. apply NoDupKeys_prune. apply pND_div. apply pND_sub; [exact Hnd|apply Hs]. }
    assert (Hvx : forall v, NoDupKeys ekey (ip_vx opt e v)).
    { intros v. destruct opt; cbn [ip_vx]; [destruct v as [|[|v]]| |destruct v as [|[|v]]]; apply Hsx. }
    assert (H2 : Q2R 2 <> 0) by (rewrite Q2R_two; lra).
    assert (Hn1 : forall a a' : E, veq a a' -> inner a a = nrm2 a') by (intros a a' Ha; unfold nrm2; apply veq_inner; exact Ha).
    destruct opt; cbn [ip_formula ip_meaning].
    - rewrite (compileC_holds rho phi (fun _ => gamma) (ip_vp PDgapI n x0 gamma) (ip_vx PDgapI e) Hvp Hvx)
        by (cbn; tauto).
      cbn [denoteC denoteX denoteP sdenote ip_eps_sub ip_vp ip_vx]. rewrite !leaf_val, Q2R_two.
      rewrite (Hn1 _ (vadd (vsub (rho (S (S n))) (evalP rho x0)) (vscal (Q2R gamma) (rho n))))
        by (apply veq_add; [apply veq_sub; [apply leaf_veq|apply veq_refl]|apply veq_scal, leaf_veq]).
      rewrite (veq_inner _ _ _ _ (leaf_veq rho n) (veq_sub _ _ _ _ (leaf_veq rho (S (S n))) (leaf_veq rho (S n)))).
      tauto.
    - rewrite (compileC_holds rho phi (fun _ => gamma) (ip_vp PDgapII n x0 gamma) (ip_vx PDgapII e) Hvp Hvx)
        by (cbn; tauto).
      cbn [denoteC denoteX denoteP sdenote ip_vp ip_vx]. rewrite !leaf_val, Q2R_two.
      rewrite (Hn1 _ (rho n)) by apply leaf_veq.
      tauto.
    - rewrite (compileC_holds rho phi (fun _ => gamma) (ip_vp PDgapIII n x0 gamma) (ip_vx PDgapIII e) Hvp Hvx)
        by (cbn; tauto).
      cbn [denoteC denoteX denoteP sdenote ip_eps_sub ip_vp ip_vx]. rewrite !leaf_val.
      rewrite (veq_inner _ _ _ _ (ip3_grad_value rho n x0 gamma Hnd Hg)
                 (veq_sub _ _ _ _ (leaf_veq rho n) (leaf_veq rho (S (S n))))).
      tauto.
  Qed.

  Definition ip_np (opt : ipopt) : nat := match opt with PDgapI => 4 | PDgapII => 2 | PDgapIII => 3 end.
  Definition ip_ne (opt : ipopt) : nat := match opt with PDgapII => 2 | _ => 3 end.

  (** where a recorded constraint comes from, and why it holds: the accuracy constraint of an inexact step
      between two existing leaves whose values are within the accuracy, or an orthogonality constraint of a line
      search whose leaves and (earlier) points satisfy it *)
  Definition cons_src (np ne : nat) (rho : nat -> E) (phi : nat -> R) (c : edict * sense) : Prop :=
    (exists n rel eps, (S n < np)%nat /\ c = inexact_cons n rel eps /\
       nrm2 (vsub (rho n) (rho (S n))) <= Q2R eps ^ 2 * (if rel then nrm2 (rho n) else 1))
    \/ (exists n x0, (S n < np)%nat /\ c = ls_cons0 n x0 /\ keys_below n x0 = true /\ NoDupKeys nat x0 /\
           inner (vsub (rho n) (evalP rho x0)) (rho (S n)) = 0)
    \/ (exists n d, (S n < np)%nat /\ c = ls_cons n d /\ keys_below n d = true /\ NoDupKeys nat d /\
           inner (evalP rho d) (rho (S n)) = 0)
    \/ (exists n e p, (S (S n) < np)%nat /\ (S (S e) < ne)%nat /\ c = epssub_cons n e p /\ keys_below n p = true /\
           NoDupKeys nat p /\
           phi e + (inner (rho n) (rho (S (S n))) - phi (S (S e))) - inner (rho n) (evalP rho p) <= phi (S e))
    \/ (exists opt n e x0 gamma, (n + ip_np opt <= np)%nat /\ (e + ip_ne opt <= ne)%nat /\ c = ip_cons opt n e x0 gamma /\
           keys_below n x0 = true /\ NoDupKeys nat x0 /\ 0 < Q2R gamma /\ ip_meaning opt rho phi n e x0 gamma).

  Lemma cons_src_holds np ne rho phi c : cons_src np ne rho phi c -> holds rho phi c.
  Proof.
    intros [(n & rel & eps & _ & -> & Hb)|[(n & x0 & _ & -> & _ & Hnd & H)|[(n & d & _ & -> & _ & Hnd & H)
           |[(n & e & p & _ & _ & -> & _ & Hnd & H)|(opt & n & e & x0 & gamma & _ & _ & -> & _ & Hnd & Hg & H)]]]].
    - apply inexact_cons_holds. exact Hb.
    - apply (ls_cons0_holds rho phi n x0 Hnd). exact H.
    - apply (ls_cons_holds rho phi n d Hnd). exact H.
    - apply (epssub_cons_holds rho phi n e p Hnd). exact H.
    - apply (ip_cons_holds opt rho phi n e x0 gamma Hnd Hg). exact H.
  Qed.

  Lemma cons_src_agree np np' ne ne' rho rho' phi phi' c :
    (np <= np')%nat -> (ne <= ne')%nat -> (forall i, (i < np)%nat -> rho' i = rho i) ->
    (forall i, (i < ne)%nat -> phi' i = phi i) -> cons_src np ne rho phi c -> cons_src np' ne' rho' phi' c.
  Proof.
    intros Hle Hle' Hag Hagp [(n & rel & eps & Hn & Hc & Hb)|[(n & x0 & Hn & Hc & Hk & Hnd & H)|[(n & d & Hn & Hc & Hk & Hnd & H)
           |[(n & e & p & Hn & He & Hc & Hk & Hnd & H)
            |(opt & n & e & x0 & gamma & Hn & He & Hc & Hk & Hnd & Hg & H)]]]].
    - left. exists n, rel, eps. split; [lia|]. split; [exact Hc|]. rewrite !Hag by lia. exact Hb.
    - right. left. exists n, x0. split; [lia|]. split; [exact Hc|]. split; [exact Hk|]. split; [exact Hnd|].
      rewrite !Hag by lia. rewrite (evalP_agree rho rho' n x0 Hk) by (intros i Hi; apply Hag; lia). exact H.
    - right. right. left. exists n, d. split; [lia|]. split; [exact Hc|]. split; [exact Hk|]. split; [exact Hnd|].
      rewrite !Hag by lia. rewrite (evalP_agree rho rho' n d Hk) by (intros i Hi; apply Hag; lia). exact H.
    - right. right. right. left. exists n, e, p. split; [lia|]. split; [lia|]. split; [exact Hc|]. split; [exact Hk|].
      split; [exact Hnd|].
      rewrite !Hag by lia. rewrite !Hagp by lia. rewrite (evalP_agree rho rho' n p Hk) by (intros i Hi; apply Hag; lia).
      exact H.
    - right. right. right. right. exists opt, n, e, x0, gamma. split; [lia|]. split; [lia|]. split; [exact Hc|].
      split; [exact Hk|]. split; [exact Hnd|]. split; [exact Hg|].
      destruct opt; cbn [ip_np ip_ne ip_meaning] in *;
        rewrite ?(evalP_agree rho rho' n x0 Hk) by (intros i Hi; apply Hag; lia);
        rewrite !Hag by lia; rewrite !Hagp by lia; exact H.
  Qed.

  Definition CInv (s : mstate) (vs : (nat -> E) * (nat -> R)) : Prop :=
    forall f c, In (f, c) (m_cons s) -> cons_src (m_np s) (m_ne s) (fst vs) (snd vs) c.

  Lemma CInv_step s vs o :
    CInv s vs -> op_wf s o = true -> step_ok W o = true -> CInv (mstep s o) (wstep W vs s o).
  Proof.
    intros HI Hwf Hpx f c Hin.
    destruct (wstep_agree vs s o) as [Hr Hrp]. destruct (mstep_counters s o) as [Hc Hce].
    assert (Hold : In (f, c) (m_cons s) ->
              cons_src (m_np (mstep s o)) (m_ne (mstep s o)) (fst (wstep W vs s o)) (snd (wstep W vs s o)) c).
    { intros H. exact (cons_src_agree _ _ _ _ _ _ _ _ c Hc Hce Hr Hrp (HI f c H)). }
    destruct o as [|g p|g|g p gamma|g dir|g p rel eps|g x0 dirs|g p|h gx0 sx0 gamma|h g sx0 gamma|g x0 gamma opt];
      cbn [mstep m_cons] in Hin; try (apply Hold, Hin).
    - apply in_app_or in Hin as [Hin|[Heq|[]]]; [apply Hold, Hin|]. injection Heq as <- <-.
      left. exists (m_np s), rel, eps. cbn [mstep m_np]. split; [lia|]. split; [reflexivity|].
      cbn [wstep fst]. rewrite (upd_other _ (S (m_np s)) _ (m_np s)) by lia. rewrite !upd_same.
      apply inexact_bound.
    - cbn [op_wf step_ok] in Hwf, Hpx. apply andb_prop in Hwf as [Hwf Hdirs]. apply andb_prop in Hwf as [Hk0 Hnd0].
      rewrite forallb_forall in Hdirs.
      set (x := linesearch W g (evalP (fst vs) x0) (map (evalP (fst vs)) dirs)).
      destruct (ls_orth W g (evalP (fst vs) x0) (map (evalP (fst vs)) dirs) Hpx) as [Ho0 Hod]. fold x in Ho0, Hod.
      assert (Hag : forall q : pdict, keys_below (m_np s) q = true ->
                evalP (fst (wstep W vs s (MLineSearch g x0 dirs))) q = evalP (fst vs) q).
      { intros q Hq. apply (evalP_agree (fst vs) _ (m_np s) q Hq). exact Hr. }
      apply in_app_or in Hin as [Hin|[Heq|Hin]]; [apply Hold, Hin| |].
      + injection Heq as <- <-. right. left. exists (m_np s), x0. cbn [mstep m_np].
        split; [lia|]. split; [reflexivity|]. split; [exact Hk0|]. split; [apply nodupb_NoDup; exact Hnd0|].
        rewrite (Hag x0 Hk0). cbn [wstep fst]. rewrite (upd_other _ (S (m_np s)) _ (m_np s)) by lia.
        rewrite !upd_same. exact Ho0.
      + apply in_map_iff in Hin as [d [Heq Hd]]. injection Heq as <- <-.
        specialize (Hdirs d Hd). apply andb_prop in Hdirs as [Hkd Hndd].
        right. right. left. exists (m_np s), d. cbn [mstep m_np].
        split; [lia|]. split; [reflexivity|]. split; [exact Hkd|]. split; [apply nodupb_NoDup; exact Hndd|].
        rewrite (Hag d Hkd). cbn [wstep fst]. rewrite upd_same. apply Hod. apply in_map. exact Hd.
    - (* MEpsSub *)
      cbn [op_wf] in Hwf. apply andb_prop in Hwf as [Hk Hndb].
      apply in_app_or in Hin as [Hin|[Heq|[]]]; [apply Hold, Hin|]. injection Heq as <- <-.
      right. right. right. left. exists (m_np s), (m_ne s), p. cbn [mstep m_np m_ne].
      split; [lia|]. split; [lia|]. split; [reflexivity|]. split; [exact Hk|]. split; [apply nodupb_NoDup; exact Hndb|].
      rewrite (evalP_agree (fst vs) _ (m_np s) p Hk Hr).
      cbn [wstep fst snd]. set (x := evalP (fst vs) p). upd_simpl.
      exact (proj2 (epssub_spec W g x)).
    - (* MInexactProx *)
      cbn [op_wf] in Hwf. apply andb_prop in Hwf as [Hwf Hpos]. apply andb_prop in Hwf as [Hk Hndb].
      pose proof (qpos_pos gamma Hpos) as Hg.
      set (x0v := evalP (fst vs) x0).
      pose proof (iprox_spec W g opt (Q2R gamma) x0v Hg) as Hsp. cbn zeta in Hsp.
      assert (Hx0 : evalP (fst (wstep W vs s (MInexactProx g x0 gamma opt))) x0 = x0v).
      { apply (evalP_agree (fst vs) _ (m_np s) x0 Hk). exact Hr. }
      assert (Hin' : In (f, c) (m_cons s) \/ (f, c) = (g, ip_cons opt (m_np s) (m_ne s) x0 gamma)).
      { destruct opt; cbn [mstep m_cons] in Hin; apply in_app_or in Hin as [Hin|[Heq|[]]]; auto. }
      destruct Hin' as [Hin'|Heq]; [apply Hold, Hin'|]. injection Heq as -> ->.
      right. right. right. right. exists opt, (m_np s), (m_ne s), x0, gamma.
      split; [destruct opt; cbn; lia|]. split; [destruct opt; cbn; lia|]. split; [reflexivity|]. split; [exact Hk|].
      split; [apply nodupb_NoDup; exact Hndb|]. split; [exact Hg|].
      destruct opt; cbn [ip_meaning]; rewrite ?Hx0; cbn [wstep fst snd]; fold x0v; upd_simpl.
      + exact (proj2 (proj2 Hsp)).
      + exact (proj2 Hsp).
      + exact (proj2 (proj2 Hsp)).
  Qed.

  Theorem world_constraints_inv ops : forall s vs,
    mwf ops s = true -> steps_ok W ops = true -> CInv s vs -> CInv (mrun ops s) (wrun W ops s vs).
  Proof.
    induction ops as [|o ops IH]; intros s vs Hwf Hpx HI; cbn [mrun fold_left wrun]; [exact HI|].
    cbn [mwf] in Hwf. apply andb_prop in Hwf as [Ho Hwf].
    unfold steps_ok in Hpx. cbn [forallb] in Hpx. apply andb_prop in Hpx as [Hpo Hpx].
    apply (IH (mstep s o) _ Hwf Hpx). apply CInv_step; assumption.
  Qed.

  (** Every constraint a step added to a function holds at the values the real run gives to the leaves -- for
      every program. *)
  Theorem world_constraints_hold ops vs f c :
    mwf ops minit = true -> steps_ok W ops = true ->
    In (f, c) (m_cons (mrun ops minit)) -> holds (fst (wrun W ops minit vs)) (snd (wrun W ops minit vs)) c.
  Proof.
    intros Hwf Hpx Hin. assert (H0 : CInv minit vs) by (intros ? ? []).
    exact (cons_src_holds _ _ _ _ c (world_constraints_inv ops minit vs Hwf Hpx H0 f c Hin)).
  Qed.

  (** Leaves that exist before the run (and free leaves in general) keep the value the initial
      valuation gives them: the starting point and the optimum are whatever the user's initial
      condition allows. *)
  Theorem wrun_keeps ops : forall s vs,
    (forall i, (i < m_np s)%nat -> fst (wrun W ops s vs) i = fst vs i) /\
    (forall i, (i < m_ne s)%nat -> snd (wrun W ops s vs) i = snd vs i).
  Proof.
    induction ops as [|o ops IH]; intros s vs; cbn [wrun]; [split; reflexivity|].
    destruct (IH (mstep s o) (wstep W vs s o)) as [H1 H2].
    destruct (wstep_agree vs s o) as [Hr Hp]. destruct (mstep_counters s o) as [Hc1 Hc2].
    split; intros i Hi.
    - rewrite H1 by lia. apply Hr, Hi.
    - rewrite H2 by lia. apply Hp, Hi.
  Qed.

  (** a free leaf allocated during the run keeps its initial value too *)
  Theorem wrun_free_leaf ops1 ops2 s vs :
    let s1 := mrun ops1 s in
    fst (wrun W (ops1 ++ MFresh :: ops2) s vs) (m_np s1) = fst (wrun W ops1 s vs) (m_np s1).
  Proof.
    cbn zeta. revert s vs. induction ops1 as [|o ops1 IH]; intros s vs.
    - cbn [app wrun mrun fold_left]. destruct (wrun_keeps ops2 (mstep s MFresh) (wstep W vs s MFresh)) as [H _].
      rewrite H by (cbn; lia). reflexivity.
    - cbn [app wrun mrun fold_left]. apply IH.
  Qed.
End Method.
