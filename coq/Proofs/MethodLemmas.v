(** Running a recorded method in a world makes every recorded sample genuine (C09, first half):
    the values given to the fresh gradient / value leaves are the real oracle's outputs at the value
    of the evaluated point, and later steps never change the value of an earlier leaf. *)
From Coq Require Import List QArith Reals Qreals Lra Arith Bool Lia.
From PV Require Import Base.IPS Model.Dict Model.Terms Model.Method Spec.Sem Spec.World.
Import ListNotations.
Local Open Scope R_scope.

Lemma Q2R_one : Q2R 1 = 1. Proof. unfold Q2R; cbn; lra. Qed.

Section Method.
  Context {E : ips}.
  Variable W : @world E.

  (** ** valuations that agree on the leaves an object mentions give it the same value *)
  Lemma evalP_agree (rho rho' : nat -> E) n p :
    keys_below n p = true -> (forall i, (i < n)%nat -> rho' i = rho i) -> evalP rho' p = evalP rho p.
  Proof.
    intros Hk Hag. induction p as [|[k q] p IH]; cbn [evalP]; [reflexivity|].
    cbn [keys_below forallb] in Hk. apply andb_prop in Hk as [Hk1 Hk2].
    apply Nat.ltb_lt in Hk1. rewrite (Hag k Hk1), (IH Hk2). reflexivity.
  Qed.

  Definition ekey_below (np ne : nat) (k : ekey) : bool :=
    match k with
    | KF e => Nat.ltb e ne
    | KG i j => Nat.ltb i np && Nat.ltb j np
    | K1 => true
    end.
  Definition ekeys_below (np ne : nat) (d : edict) : bool := forallb (fun '(k, _) => ekey_below np ne k) d.

  Lemma evalE_agree (rho rho' : nat -> E) (phi phi' : nat -> R) np ne d :
    ekeys_below np ne d = true ->
    (forall i, (i < np)%nat -> rho' i = rho i) -> (forall i, (i < ne)%nat -> phi' i = phi i) ->
    evalE rho' phi' d = evalE rho phi d.
  Proof.
    intros Hk Hr Hp. induction d as [|[k q] d IH]; cbn [evalE]; [reflexivity|].
    cbn [ekeys_below forallb] in Hk. apply andb_prop in Hk as [Hk1 Hk2].
    rewrite (IH Hk2). f_equal. f_equal. destruct k as [e|i j|]; cbn [evalK ekey_below] in *.
    - apply Nat.ltb_lt in Hk1. apply Hp, Hk1.
    - apply andb_prop in Hk1 as [Hi Hj]. apply Nat.ltb_lt in Hi. apply Nat.ltb_lt in Hj.
      rewrite (Hr i Hi), (Hr j Hj). reflexivity.
    - reflexivity.
  Qed.

  Lemma keys_below_mono n m p : (n <= m)%nat -> keys_below n p = true -> keys_below m p = true.
  Proof.
    intros Hle. unfold keys_below. rewrite !forallb_forall. intros H [k q] Hin.
    specialize (H (k, q) Hin). cbn in *. apply Nat.ltb_lt in H. apply Nat.ltb_lt. lia.
  Qed.

  Lemma ekeys_below_mono np ne np' ne' d :
    (np <= np')%nat -> (ne <= ne')%nat -> ekeys_below np ne d = true -> ekeys_below np' ne' d = true.
  Proof.
    intros H1 H2. unfold ekeys_below. rewrite !forallb_forall. intros H [k q] Hin.
    specialize (H (k, q) Hin). cbn in *. destruct k as [e|i j|]; cbn [ekey_below] in *.
    - apply Nat.ltb_lt in H. apply Nat.ltb_lt. lia.
    - apply andb_prop in H as [Hi Hj]. apply Nat.ltb_lt in Hi. apply Nat.ltb_lt in Hj.
      apply andb_true_intro. split; apply Nat.ltb_lt; lia.
    - reflexivity.
  Qed.

  (** ** the invariant of a run *)
  Definition sample_below (np ne : nat) (t : msample) : bool :=
    let '(x, g, fx) := t in keys_below np x && keys_below np g && ekeys_below np ne fx.

  Definition Inv (s : mstate) (vs : (nat -> E) * (nat -> R)) : Prop :=
    forall f t, In (f, t) (m_samples s) ->
      sample_below (m_np s) (m_ne s) t = true /\ Gen W f (sample_at (E:=E) (fst vs) (snd vs) t).

  Lemma sample_at_agree (rho rho' : nat -> E) (phi phi' : nat -> R) np ne t :
    sample_below np ne t = true ->
    (forall i, (i < np)%nat -> rho' i = rho i) -> (forall i, (i < ne)%nat -> phi' i = phi i) ->
    sample_at rho' phi' t = sample_at rho phi t.
  Proof.
    destruct t as [[x g] fx]. cbn [sample_below sample_at]. intros Hb Hr Hp.
    apply andb_prop in Hb as [Hb Hf]. apply andb_prop in Hb as [Hx Hg].
    rewrite (evalP_agree rho rho' np x Hx Hr), (evalP_agree rho rho' np g Hg Hr),
      (evalE_agree rho rho' phi phi' np ne fx Hf Hr Hp). reflexivity.
  Qed.

  Lemma upd_other {A} (h : nat -> A) k a i : i <> k -> upd h k a i = h i.
  Proof. intros H. unfold upd. destruct (Nat.eqb_spec i k); [contradiction|reflexivity]. Qed.
  Lemma upd_same {A} (h : nat -> A) k a : upd h k a k = a.
  Proof. unfold upd. rewrite Nat.eqb_refl. reflexivity. Qed.

  Lemma wstep_agree vs s o :
    (forall i, (i < m_np s)%nat -> fst (wstep W vs s o) i = fst vs i) /\
    (forall i, (i < m_ne s)%nat -> snd (wstep W vs s o) i = snd vs i).
  Proof.
    destruct o as [|f p|f]; cbn [wstep fst snd]; split; intros i Hi; try reflexivity;
      apply upd_other; lia.
  Qed.

  Lemma sample_below_mono np ne np' ne' t :
    (np <= np')%nat -> (ne <= ne')%nat -> sample_below np ne t = true -> sample_below np' ne' t = true.
  Proof.
    destruct t as [[x g] fx]. cbn [sample_below]. intros H1 H2 Hb.
    apply andb_prop in Hb as [Hb Hf]. apply andb_prop in Hb as [Hx Hg].
    rewrite (keys_below_mono _ _ _ H1 Hx), (keys_below_mono _ _ _ H1 Hg),
      (ekeys_below_mono _ _ _ _ _ H1 H2 Hf). reflexivity.
  Qed.

  Lemma mstep_counters s o : (m_np s <= m_np (mstep s o))%nat /\ (m_ne s <= m_ne (mstep s o))%nat.
  Proof. destruct o; cbn; lia. Qed.

  Lemma Inv_step s vs o :
    Inv s vs -> (match o with MEval _ p => keys_below (m_np s) p | _ => true end) = true ->
    Inv (mstep s o) (wstep W vs s o).
  Proof.
    intros HI Hwf f t Hin.
    destruct (wstep_agree vs s o) as [Hr Hp].
    destruct (mstep_counters s o) as [Hc1 Hc2].
    assert (Hold : forall f t, In (f, t) (m_samples s) ->
              sample_below (m_np (mstep s o)) (m_ne (mstep s o)) t = true /\
              Gen W f (sample_at (E:=E) (fst (wstep W vs s o)) (snd (wstep W vs s o)) t)).
    { intros f0 t0 Hin0. destruct (HI f0 t0 Hin0) as [Hb Hg]. split.
      - exact (sample_below_mono _ _ _ _ t0 Hc1 Hc2 Hb).
      - rewrite (sample_at_agree (fst vs) _ (snd vs) _ _ _ t0 Hb Hr Hp). exact Hg. }
    destruct o as [|g p|g]; cbn [mstep m_samples] in Hin.
    - apply Hold, Hin.
    - apply in_app_or in Hin as [Hin|[Heq|[]]]; [apply Hold, Hin|].
      injection Heq as <- <-. split.
      + assert (H1 : Nat.ltb (m_np s) (S (m_np s)) = true) by (apply Nat.ltb_lt; lia).
        assert (H2 : Nat.ltb (m_ne s) (S (m_ne s)) = true) by (apply Nat.ltb_lt; lia).
        unfold sample_below. cbn [mstep m_np m_ne].
        rewrite (keys_below_mono (m_np s) (S (m_np s)) p (Nat.le_succ_diag_r _) Hwf).
        unfold keys_below, ekeys_below. cbn [forallb ekey_below]. rewrite H1, H2. reflexivity.
      + cbn [sample_at wstep fst snd evalP evalE evalK].
        rewrite (evalP_agree (fst vs) (upd (fst vs) (m_np s) _) (m_np s) p Hwf)
          by (intros i Hi; apply upd_other; lia).
        rewrite !upd_same, Q2R_one.
        set (x := evalP (fst vs) p).
        replace (1 * snd (orc W g x) + 0) with (snd (orc W g x)) by lra.
        apply (Gen_veq W g x (fst (orc W g x))); [apply orc_genuine|].
        intros w. rewrite inner_add_l, inner_scal_l, inner_zero_l. lra.
    - apply in_app_or in Hin as [Hin|[Heq|[]]]; [apply Hold, Hin|].
      injection Heq as <- <-. split.
      + assert (H1 : Nat.ltb (m_np s) (S (m_np s)) = true) by (apply Nat.ltb_lt; lia).
        assert (H2 : Nat.ltb (m_ne s) (S (m_ne s)) = true) by (apply Nat.ltb_lt; lia).
        unfold sample_below. cbn [mstep m_np m_ne].
        unfold keys_below, ekeys_below. cbn [forallb ekey_below]. rewrite H1, H2. reflexivity.
      + cbn [sample_at wstep fst snd evalP evalE evalK].
        rewrite !upd_same, Q2R_one.
        replace (1 * snd (stat W g) + 0) with (snd (stat W g)) by lra.
        apply (Gen_xveq W g (fst (stat W g))); [apply stat_genuine|].
        intros w. rewrite inner_add_l, inner_scal_l, inner_zero_l. lra.
  Qed.

  (** Every recorded sample of a well-formed program is a genuine sample of its function in the
      world, at the values the real run gives to the leaves — for every program length. *)
  Theorem world_samples_genuine ops : forall s vs,
    mwf ops s = true -> Inv s vs -> Inv (mrun ops s) (wrun W ops s vs).
  Proof.
    induction ops as [|o ops IH]; intros s vs Hwf HI; cbn [mrun fold_left wrun]; [exact HI|].
    cbn [mwf] in Hwf. apply andb_prop in Hwf as [Ho Hwf].
    apply (IH (mstep s o) (wstep W vs s o) Hwf). apply Inv_step; assumption.
  Qed.

  Corollary world_samples_genuine_init ops vs :
    mwf ops minit = true -> Inv (mrun ops minit) (wrun W ops minit vs).
  Proof. intros Hwf. apply world_samples_genuine; [exact Hwf|]. intros f t []. Qed.

  (** Leaves that exist before the run (and free leaves in general) keep the value the initial
      valuation gives them: the starting point and the optimum are whatever the user's initial
      condition allows. *)
  Theorem wrun_keeps ops : forall s vs,
    (forall i, (i < m_np s)%nat -> fst (wrun W ops s vs) i = fst vs i) /\
    (forall i, (i < m_ne s)%nat -> snd (wrun W ops s vs) i = snd vs i).
  Proof.
    induction ops as [|o ops IH]; intros s vs; cbn [wrun]; [split; reflexivity|].
    destruct (IH (mstep s o) (wstep W vs s o)) as [H1 H2].
    destruct (wstep_agree vs s o) as [Hr Hp]. destruct (mstep_counters s o) as [Hc1 Hc2].
    split; intros i Hi.
    - rewrite H1 by lia. apply Hr, Hi.
    - rewrite H2 by lia. apply Hp, Hi.
  Qed.

  (** a free leaf allocated during the run keeps its initial value too *)
  Theorem wrun_free_leaf ops1 ops2 s vs :
    let s1 := mrun ops1 s in
    fst (wrun W (ops1 ++ MFresh :: ops2) s vs) (m_np s1) = fst (wrun W ops1 s vs) (m_np s1).
  Proof.
    cbn zeta. revert s vs. induction ops1 as [|o ops1 IH]; intros s vs.
    - cbn [app wrun mrun fold_left]. destruct (wrun_keeps ops2 (mstep s MFresh) (wstep W vs s MFresh)) as [H _].
      rewrite H by (cbn; lia). reflexivity.
    - cbn [app wrun mrun fold_left]. apply IH.
  Qed.
End Method.
