(** Running a recorded method in a world makes every recorded sample genuine (C09, first half):
    the values given to the fresh gradient / value leaves are the real oracle's outputs at the value
    of the evaluated point, and later steps never change the value of an earlier leaf. *)
From Coq Require Import List QArith Reals Qreals Lra Arith Bool Lia.
From PV Require Import Base.IPS Model.Dict Model.Terms Model.Method Spec.Sem Spec.World Proofs.DictLemmas Proofs.SemLemmas.
Import ListNotations.
Local Open Scope R_scope.

Lemma Q2R_one : Q2R 1 = 1. Proof. unfold Q2R; cbn; lra. Qed.

(** ** the checks of [op_wf] for a proximal step *)
Lemma qpos_pos q : qpos q = true -> 0 < Q2R q.
Proof.
  unfold qpos. intros H. apply Z.ltb_lt in H.
  assert (HQ : (0 < q)%Q) by (unfold Qlt; cbn; lia).
  apply Qlt_Rlt in HQ. rewrite RMicromega.Q2R_0 in HQ. exact HQ.
Qed.

Lemma nodupb_NoDup l : nodupb l = true -> NoDup l.
Proof.
  induction l as [|k l IH]; cbn [nodupb]; intros H; [constructor|].
  apply andb_prop in H as [H1 H2]. constructor; [|exact (IH H2)].
  intros Hin. apply negb_true_iff in H1. assert (Hex : existsb (Nat.eqb k) l = true).
  { apply existsb_exists. exists k. split; [exact Hin|apply Nat.eqb_refl]. }
  congruence.
Qed.

Lemma keys_below_iff n (p : pdict) : keys_below n p = true <-> forall k, In k (keys p) -> (k < n)%nat.
Proof.
  unfold keys_below, keys. rewrite forallb_forall. split.
  - intros H k Hk. apply in_map_iff in Hk as [[k' q] [<- Hin]]. specialize (H _ Hin). cbn in H.
    apply Nat.ltb_lt. exact H.
  - intros H [k q] Hin. apply Nat.ltb_lt. apply H. apply in_map_iff. exists (k, q). split; [reflexivity|exact Hin].
Qed.

Lemma keys_prune_incl (d : pdict) k : In k (keys (prune d)) -> In k (keys d).
Proof.
  unfold keys, prune. intros H. apply in_map_iff in H as [[k' q] [<- Hin]]. apply filter_In in Hin as [Hin _].
  apply in_map_iff. exists (k', q). split; [reflexivity|exact Hin].
Qed.

Lemma keys_pmerge_incl (a b : pdict) k : In k (keys (pmerge a b)) -> In k (keys a) \/ In k (keys b).
Proof.
  unfold keys, pmerge, merge. rewrite map_app, in_app_iff. intros [H|H].
  - left. rewrite map_map in H. apply in_map_iff in H as [[k' q] [<- Hin]].
    apply in_map_iff. exists (k', q). split; [|exact Hin]. destruct (lookup Nat.eqb k' b); reflexivity.
  - right. apply in_map_iff in H as [[k' q] [<- Hin]]. apply filter_In in Hin as [Hin _].
    apply in_map_iff. exists (k', q). split; [reflexivity|exact Hin].
Qed.

(** the point recorded by a proximal step only mentions the leaves of p and the fresh subgradient leaf *)
Lemma keys_below_prox n (p : pdict) gamma :
  keys_below n p = true -> keys_below (S n) (prune (p_sub p (p_scal gamma [(n, 1%Q)]))) = true.
Proof.
  intros Hp. apply keys_below_iff. intros k Hk. apply keys_prune_incl in Hk. unfold p_sub, p_add in Hk.
  apply keys_prune_incl in Hk. apply keys_pmerge_incl in Hk as [Hk|Hk].
  - apply (proj1 (keys_below_iff n p) Hp) in Hk. lia.
  - unfold p_neg, p_scal in Hk. rewrite !keys_scale in Hk. cbn in Hk. destruct Hk as [<-|[]]. lia.
Qed.

Section Method.
  Context {E : ips}.
  Variable W : @world E.

  (** ** valuations that agree on the leaves an object mentions give it the same value *)
  Lemma evalP_agree (rho rho' : nat -> E) n p :
    keys_below n p = true -> (forall i, (i < n)%nat -> rho' i = rho i) -> evalP rho' p = evalP rho p.
  Proof.
    intros Hk Hag. induction p as [|[k q] p IH]; cbn [evalP]; [reflexivity|].
    cbn [keys_below forallb] in Hk. apply andb_prop in Hk as [Hk1 Hk2].
    apply Nat.ltb_lt in Hk1. rewrite (Hag k Hk1), (IH Hk2). reflexivity.
  Qed.

  Definition ekey_below (np ne : nat) (k : ekey) : bool :=
    match k with
    | KF e => Nat.ltb e ne
    | KG i j => Nat.ltb i np && Nat.ltb j np
    | K1 => true
    end.
  Definition ekeys_below (np ne : nat) (d : edict) : bool := forallb (fun '(k, _) => ekey_below np ne k) d.

  Lemma evalE_agree (rho rho' : nat -> E) (phi phi' : nat -> R) np ne d :
    ekeys_below np ne d = true ->
    (forall i, (i < np)%nat -> rho' i = rho i) -> (forall i, (i < ne)%nat -> phi' i = phi i) ->
    evalE rho' phi' d = evalE rho phi d.
  Proof.
    intros Hk Hr Hp. induction d as [|[k q] d IH]; cbn [evalE]; [reflexivity|].
    cbn [ekeys_below forallb] in Hk. apply andb_prop in Hk as [Hk1 Hk2].
    rewrite (IH Hk2). f_equal. f_equal. destruct k as [e|i j|]; cbn [evalK ekey_below] in *.
    - apply Nat.ltb_lt in Hk1. apply Hp, Hk1.
    - apply andb_prop in Hk1 as [Hi Hj]. apply Nat.ltb_lt in Hi. apply Nat.ltb_lt in Hj.
      rewrite (Hr i Hi), (Hr j Hj). reflexivity.
    - reflexivity.
  Qed.

  Lemma keys_below_mono n m p : (n <= m)%nat -> keys_below n p = true -> keys_below m p = true.
  Proof.
    intros Hle. unfold keys_below. rewrite !forallb_forall. intros H [k q] Hin.
    specialize (H (k, q) Hin). cbn in *. apply Nat.ltb_lt in H. apply Nat.ltb_lt. lia.
  Qed.

  Lemma ekeys_below_mono np ne np' ne' d :
    (np <= np')%nat -> (ne <= ne')%nat -> ekeys_below np ne d = true -> ekeys_below np' ne' d = true.
  Proof.
    intros H1 H2. unfold ekeys_below. rewrite !forallb_forall. intros H [k q] Hin.
    specialize (H (k, q) Hin). cbn in *. destruct k as [e|i j|]; cbn [ekey_below] in *.
    - apply Nat.ltb_lt in H. apply Nat.ltb_lt. lia.
    - apply andb_prop in H as [Hi Hj]. apply Nat.ltb_lt in Hi. apply Nat.ltb_lt in Hj.
      apply andb_true_intro. split; apply Nat.ltb_lt; lia.
    - reflexivity.
  Qed.

  (** ** the invariant of a run *)
  Definition sample_below (np ne : nat) (t : msample) : bool :=
    let '(x, g, fx) := t in keys_below np x && keys_below np g && ekeys_below np ne fx.

  Definition Inv (s : mstate) (vs : (nat -> E) * (nat -> R)) : Prop :=
    forall f t, In (f, t) (m_samples s) ->
      sample_below (m_np s) (m_ne s) t = true /\ Gen W f (sample_at (E:=E) (fst vs) (snd vs) t).

  Lemma sample_at_agree (rho rho' : nat -> E) (phi phi' : nat -> R) np ne t :
    sample_below np ne t = true ->
    (forall i, (i < np)%nat -> rho' i = rho i) -> (forall i, (i < ne)%nat -> phi' i = phi i) ->
    sample_at rho' phi' t = sample_at rho phi t.
  Proof.
    destruct t as [[x g] fx]. cbn [sample_below sample_at]. intros Hb Hr Hp.
    apply andb_prop in Hb as [Hb Hf]. apply andb_prop in Hb as [Hx Hg].
    rewrite (evalP_agree rho rho' np x Hx Hr), (evalP_agree rho rho' np g Hg Hr),
      (evalE_agree rho rho' phi phi' np ne fx Hf Hr Hp). reflexivity.
  Qed.

  Lemma upd_other {A} (h : nat -> A) k a i : i <> k -> upd h k a i = h i.
  Proof. intros H. unfold upd. destruct (Nat.eqb_spec i k); [contradiction|reflexivity]. Qed.
  Lemma upd_same {A} (h : nat -> A) k a : upd h k a k = a.
  Proof. unfold upd. rewrite Nat.eqb_refl. reflexivity. Qed.

  Lemma wstep_agree vs s o :
    (forall i, (i < m_np s)%nat -> fst (wstep W vs s o) i = fst vs i) /\
    (forall i, (i < m_ne s)%nat -> snd (wstep W vs s o) i = snd vs i).
  Proof.
    destruct o as [|f p|f|f p gamma]; cbn [wstep fst snd]; split; intros i Hi; try reflexivity;
      apply upd_other; lia.
  Qed.

  Lemma sample_below_mono np ne np' ne' t :
    (np <= np')%nat -> (ne <= ne')%nat -> sample_below np ne t = true -> sample_below np' ne' t = true.
  Proof.
    destruct t as [[x g] fx]. cbn [sample_below]. intros H1 H2 Hb.
    apply andb_prop in Hb as [Hb Hf]. apply andb_prop in Hb as [Hx Hg].
    rewrite (keys_below_mono _ _ _ H1 Hx), (keys_below_mono _ _ _ H1 Hg),
      (ekeys_below_mono _ _ _ _ _ H1 H2 Hf). reflexivity.
  Qed.

  Lemma mstep_counters s o : (m_np s <= m_np (mstep s o))%nat /\ (m_ne s <= m_ne (mstep s o))%nat.
  Proof. destruct o; cbn; lia. Qed.

  (** the value of the point recorded by a proximal step is the proximal point *)
  Lemma prox_point_value (rho : nat -> E) n (p : pdict) gamma (xr : E) :
    keys_below n p = true -> NoDupKeys nat p -> 0 < Q2R gamma ->
    let x0 := evalP rho p in
    let rho' := upd rho n (vscal (1 / Q2R gamma) (vsub x0 xr)) in
    veq xr (evalP rho' (prune (p_sub p (p_scal gamma [(n, 1%Q)])))).
  Proof.
    intros Hk Hnd Hg x0 rho' w.
    assert (Hp : evalP rho' p = x0).
    { apply (evalP_agree rho rho' n p Hk). intros i Hi. apply upd_other. lia. }
    assert (Hpr : forall d : pdict, inner (evalP rho' (prune d)) w = inner (evalP rho' d) w).
    { intros d. rewrite !inner_evalP, dsum_prune. reflexivity. }
    rewrite Hpr.
    rewrite (evalP_sub rho' p (p_scal gamma [(n, 1%Q)]) Hnd) by (apply pND_scal; unfold NoDupKeys, keys; cbn; repeat constructor; tauto).
    rewrite inner_sub_l, Hp, (evalP_scal rho' gamma [(n, 1%Q)] w), inner_scal_l.
    cbn [evalP]. unfold rho' at 1. rewrite upd_same, Q2R_one.
    rewrite inner_add_l, !inner_scal_l, inner_zero_l, inner_sub_l. field. lra.
  Qed.

  Lemma Inv_step s vs o :
    Inv s vs -> op_wf s o = true -> (match o with MProx f _ _ => has_prox W f | _ => true end) = true ->
    Inv (mstep s o) (wstep W vs s o).
  Proof.
    intros HI Hwf Hpx f t Hin.
    destruct (wstep_agree vs s o) as [Hr Hp].
    destruct (mstep_counters s o) as [Hc1 Hc2].
    assert (Hold : forall f t, In (f, t) (m_samples s) ->
              sample_below (m_np (mstep s o)) (m_ne (mstep s o)) t = true /\
              Gen W f (sample_at (E:=E) (fst (wstep W vs s o)) (snd (wstep W vs s o)) t)).
    { intros f0 t0 Hin0. destruct (HI f0 t0 Hin0) as [Hb Hg]. split.
      - exact (sample_below_mono _ _ _ _ t0 Hc1 Hc2 Hb).
      - rewrite (sample_at_agree (fst vs) _ (snd vs) _ _ _ t0 Hb Hr Hp). exact Hg. }
    destruct o as [|g p|g|g p gamma]; cbn [mstep m_samples op_wf] in Hin, Hwf.
    - apply Hold, Hin.
    - apply in_app_or in Hin as [Hin|[Heq|[]]]; [apply Hold, Hin|].
      injection Heq as <- <-. split.
      + assert (H1 : Nat.ltb (m_np s) (S (m_np s)) = true) by (apply Nat.ltb_lt; lia).
        assert (H2 : Nat.ltb (m_ne s) (S (m_ne s)) = true) by (apply Nat.ltb_lt; lia).
        unfold sample_below. cbn [mstep m_np m_ne].
        rewrite (keys_below_mono (m_np s) (S (m_np s)) p (Nat.le_succ_diag_r _) Hwf).
        unfold keys_below, ekeys_below. cbn [forallb ekey_below]. rewrite H1, H2. reflexivity.
      + cbn [sample_at wstep fst snd evalP evalE evalK].
        rewrite (evalP_agree (fst vs) (upd (fst vs) (m_np s) _) (m_np s) p Hwf)
          by (intros i Hi; apply upd_other; lia).
        rewrite !upd_same, Q2R_one.
        set (x := evalP (fst vs) p).
        replace (1 * snd (orc W g x) + 0) with (snd (orc W g x)) by lra.
        apply (Gen_veq W g x (fst (orc W g x))); [apply orc_genuine|].
        intros w. rewrite inner_add_l, inner_scal_l, inner_zero_l. lra.
    - apply in_app_or in Hin as [Hin|[Heq|[]]]; [apply Hold, Hin|].
      injection Heq as <- <-. split.
      + assert (H1 : Nat.ltb (m_np s) (S (m_np s)) = true) by (apply Nat.ltb_lt; lia).
        assert (H2 : Nat.ltb (m_ne s) (S (m_ne s)) = true) by (apply Nat.ltb_lt; lia).
        unfold sample_below. cbn [mstep m_np m_ne].
        unfold keys_below, ekeys_below. cbn [forallb ekey_below]. rewrite H1, H2. reflexivity.
      + cbn [sample_at wstep fst snd evalP evalE evalK].
        rewrite !upd_same, Q2R_one.
        replace (1 * snd (stat W g) + 0) with (snd (stat W g)) by lra.
        apply (Gen_xveq W g (fst (stat W g))); [apply stat_genuine|].
        intros w. rewrite inner_add_l, inner_scal_l, inner_zero_l. lra.
    - apply in_app_or in Hin as [Hin|[Heq|[]]]; [apply Hold, Hin|].
      injection Heq as <- <-.
      apply andb_prop in Hwf as [Hwf Hpos]. apply andb_prop in Hwf as [Hk Hndb].
      pose proof (qpos_pos gamma Hpos) as Hg.
      assert (Hnd : NoDupKeys nat p) by (apply nodupb_NoDup; exact Hndb).
      split.
      + assert (H1 : Nat.ltb (m_np s) (S (m_np s)) = true) by (apply Nat.ltb_lt; lia).
        assert (H2 : Nat.ltb (m_ne s) (S (m_ne s)) = true) by (apply Nat.ltb_lt; lia).
        unfold sample_below. cbn [mstep m_np m_ne].
        change [(m_np s, (1 * gamma)%Q)] with (p_scal gamma [(m_np s, 1%Q)]). rewrite (keys_below_prox (m_np s) p gamma Hk).
        unfold keys_below, ekeys_below. cbn [forallb ekey_below]. rewrite H1, H2. reflexivity.
      + cbn [sample_at wstep fst snd].
        set (x0 := evalP (fst vs) p). set (xr := prox W g (Q2R gamma) x0).
        set (G := vscal (1 / Q2R gamma) (vsub x0 xr)).
        cbn [evalP evalE evalK]. rewrite !upd_same, Q2R_one.
        replace (1 * proxval W g (Q2R gamma) x0 + 0) with (proxval W g (Q2R gamma) x0) by lra.
        apply (Gen_xveq W g xr); [|exact (prox_point_value (fst vs) (m_np s) p gamma xr Hk Hnd Hg)].
        apply (Gen_veq W g xr G); [apply prox_genuine; assumption|].
        intros w. rewrite inner_add_l, inner_scal_l, inner_zero_l. lra.
  Qed.

  (** Every recorded sample of a well-formed program is a genuine sample of its function in the
      world, at the values the real run gives to the leaves — for every program length. *)
  Theorem world_samples_genuine ops : forall s vs,
    mwf ops s = true -> prox_ok W ops = true -> Inv s vs -> Inv (mrun ops s) (wrun W ops s vs).
  Proof.
    induction ops as [|o ops IH]; intros s vs Hwf Hpx HI; cbn [mrun fold_left wrun]; [exact HI|].
    cbn [mwf] in Hwf. apply andb_prop in Hwf as [Ho Hwf].
    unfold prox_ok in Hpx. cbn [forallb] in Hpx. apply andb_prop in Hpx as [Hpo Hpx].
    apply (IH (mstep s o) (wstep W vs s o) Hwf Hpx). apply Inv_step; assumption.
  Qed.

  Corollary world_samples_genuine_init ops vs :
    mwf ops minit = true -> prox_ok W ops = true -> Inv (mrun ops minit) (wrun W ops minit vs).
  Proof. intros Hwf Hpx. apply world_samples_genuine; [exact Hwf|exact Hpx|]. intros f t []. Qed.

  (** Leaves that exist before the run (and free leaves in general) keep the value the initial
      valuation gives them: the starting point and the optimum are whatever the user's initial
      condition allows. *)
  Theorem wrun_keeps ops : forall s vs,
    (forall i, (i < m_np s)%nat -> fst (wrun W ops s vs) i = fst vs i) /\
    (forall i, (i < m_ne s)%nat -> snd (wrun W ops s vs) i = snd vs i).
  Proof.
    induction ops as [|o ops IH]; intros s vs; cbn [wrun]; [split; reflexivity|].
    destruct (IH (mstep s o) (wstep W vs s o)) as [H1 H2].
    destruct (wstep_agree vs s o) as [Hr Hp]. destruct (mstep_counters s o) as [Hc1 Hc2].
    split; intros i Hi.
    - rewrite H1 by lia. apply Hr, Hi.
    - rewrite H2 by lia. apply Hp, Hi.
  Qed.

  (** a free leaf allocated during the run keeps its initial value too *)
  Theorem wrun_free_leaf ops1 ops2 s vs :
    let s1 := mrun ops1 s in
    fst (wrun W (ops1 ++ MFresh :: ops2) s vs) (m_np s1) = fst (wrun W ops1 s vs) (m_np s1).
  Proof.
    cbn zeta. revert s vs. induction ops1 as [|o ops1 IH]; intros s vs.
    - cbn [app wrun mrun fold_left]. destruct (wrun_keeps ops2 (mstep s MFresh) (wstep W vs s MFresh)) as [H _].
      rewrite H by (cbn; lia). reflexivity.
    - cbn [app wrun mrun fold_left]. apply IH.
  Qed.
End Method.
