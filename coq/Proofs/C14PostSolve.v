(** C14, over the GENERATED program [Gen.PostSolve.post_solve] (PEP._solve_with_wrapper from the first
    wrapper.solve to the last return), with the interpreter and the syntactic check of Proofs/C14Run.v:
    a soundness theorem of the check for ALL configurations (every heuristic
    string, every number of logdet iterations, every return mode, every solver answer), and the option
    dispatch.  The generated program passes the check by computation, so any change of the order of the
    calls in pep.py changes the term and breaks these proofs. *)
From Coq Require Import List String ZArith Bool Arith Lia.
From PV Require Import Model.Dict Model.Terms Model.Dump Gen.PostSolve Proofs.C14Run.
Import ListNotations.
Open Scope string_scope.
Open Scope list_scope.

(** ** Soundness of the check *)
Definition is_assign (e : event) : bool := match e with EvAssign _ => true | _ => false end.
Definition is_heur (e : event) : bool := match e with EvPrepare _ | EvHeuristic _ => true | _ => false end.
(** no assign_dual_values, prepare_heuristic or heuristic event *)
Definition clean (t : list event) : Prop := forallb (fun e => negb (is_assign e || is_heur e)) t = true.
Definition noassign (t : list event) : Prop := forallb (fun e => negb (is_assign e)) t = true.

(** exactly one assign_dual_values, reading the FIRST solve, before every prepare_heuristic / heuristic *)
Definition assigned_once_first (t : list event) : Prop :=
  exists t1 t2, t = t1 ++ EvAssign 1 :: t2 /\ clean t1 /\ noassign t2.

Definition trace_ok (t : list event) : Prop := clean t \/ assigned_once_first t.

Definition ret_ok (c : cfg) (s : st) : Prop :=
  forall v, out s = Returned v ->
    v = VNone \/ (assigned_once_first (trace s) /\ (c_mode c = "dual" -> v = VDualObjective (Some (Some 1)))).

Definition phase_inv (x : abs) (s : st) : Prop :=
  match fst x with
  | PInit => n_solves s = 0 /\ duals_of s = None /\ clean (trace s)
  | PSolved => n_solves s = 1 /\ duals_of s = None /\ clean (trace s)
  | PAssigned => duals_of s = Some 1 /\ assigned_once_first (trace s)
  end /\ (snd x = true -> dualobj s = Some (Some 1)).

Definition inv (c : cfg) (x : abs) (s : st) : Prop :=
  (out s = Running -> phase_inv x s) /\ trace_ok (trace s) /\ ret_ok c s.

Lemma clean_app t e : clean t -> negb (is_assign e || is_heur e) = true -> clean (t ++ [e]).
Proof. unfold clean. intros H1 H2. rewrite forallb_app, H1. cbn. rewrite H2. reflexivity. Qed.

Lemma noassign_app t e : noassign t -> is_assign e = false -> noassign (t ++ [e]).
Proof. unfold noassign. intros H1 H2. rewrite forallb_app, H1. cbn. rewrite H2. reflexivity. Qed.

Lemma aof_app t e : assigned_once_first t -> is_assign e = false -> assigned_once_first (t ++ [e]).
Proof.
  intros [t1 [t2 [-> [H1 H2]]]] He. exists t1, (t2 ++ [e]). split; [|split; [exact H1|apply noassign_app; assumption]].
  rewrite <- app_assoc. reflexivity.
Qed.

Lemma abs_eqb_eq a b : abs_eqb a b = true -> a = b.
Proof.
  destruct a as [p1 b1], b as [p2 b2]. unfold abs_eqb. cbn. intro H. apply andb_prop in H as [H1 H2].
  apply eqb_prop in H2. subst. destruct p1, p2; try discriminate; reflexivity.
Qed.

Lemma keeps_eq o x : keeps o x = true -> o = Some x.
Proof. destruct o as [x'|]; cbn; [|discriminate]. intro H. apply abs_eqb_eq in H. subst. reflexivity. Qed.

(** a frozen state satisfies every abstract state *)
Lemma inv_frozen c x x' s : out s <> Running -> inv c x s -> inv c x' s.
Proof. intros Hn [_ [H2 H3]]. split; [intro; contradiction|split; assumption]. Qed.

Lemma string_eqb_dual m : String.eqb m "dual" = true -> m = "dual".
Proof. apply String.eqb_eq. Qed.

Lemma lookup_case_dual m cases :
  m = "dual" -> retval_is (lookup_case "dual" cases) RetDualObjective = true ->
  lookup_case m cases = Some RetDualObjective.
Proof.
  intros -> H. destruct (lookup_case "dual" cases) as [[|]|]; cbn in H; try discriminate. reflexivity.
Qed.

Lemma step_sound c a x x' s :
  abs_atom a x = Some x' -> inv c x s -> inv c x' (exec_atom c a s).
Proof.
  intros Ha Hinv. unfold exec_atom. destruct (out s) eqn:Ho.
  2,3: apply (inv_frozen c x); [rewrite Ho; discriminate|exact Hinv].
  destruct Hinv as [Hph [Htr Hret]]. specialize (Hph Ho).
  destruct x as [ph chk]. destruct Hph as [Hph Hchk]. cbn [fst snd] in *.
  assert (Hret0 : forall s', out s' = Running -> ret_ok c s') by (intros s' H v Hv; rewrite H in Hv; discriminate).
  destruct a; cbn [abs_atom step] in *; unfold emit_ev, finish.
  - (* ASolve *)
    destruct ph; try discriminate; injection Ha as <-; (split; [|split]); cbn [out trace]; try (apply Hret0; exact Ho).
    + intros _. split; [|exact Hchk]. cbn [fst n_solves duals_of trace]. destruct Hph as [H1 [H2 H3]].
      rewrite H1. repeat split; try assumption. apply clean_app; [exact H3|reflexivity].
    + left. apply clean_app; [apply Hph|reflexivity].
    + intros _. split; [|exact Hchk]. cbn [fst duals_of trace]. destruct Hph as [H1 H2].
      split; [exact H1|apply aof_app; [exact H2|reflexivity]].
    + right. apply aof_app; [apply Hph|reflexivity].
  - (* AReturnIfNone *)
    injection Ha as <-. destruct (c_none c (n_solves s)).
    + split; [intro H; discriminate H|]. split; [exact Htr|]. intros v Hv. cbn in Hv. injection Hv as <-. left. reflexivity.
    + split; [intros _; split; assumption|split; [exact Htr|exact Hret]].
  - (* AAssignDuals *)
    destruct ph; try discriminate; injection Ha as <-. destruct Hph as [H1 [H2 H3]].
    assert (Haof : assigned_once_first (trace s ++ [EvAssign (n_solves s)])).
    { rewrite H1. exists (trace s), []. repeat split; [exact H3]. }
    split; [|split]; cbn [out trace]; [|right; exact Haof|apply Hret0; exact Ho].
    intros _. split; [|exact Hchk]. cbn [fst duals_of trace]. rewrite H1 at 1. split; [reflexivity|exact Haof].
  - (* AGetPrimal *)
    injection Ha as <-.
    assert (Hc : forall t, clean t -> clean (t ++ [EvGetPrimal (n_solves s)])) by (intros; apply clean_app; auto).
    assert (Hf : forall t, assigned_once_first t -> assigned_once_first (t ++ [EvGetPrimal (n_solves s)]))
      by (intros; apply aof_app; auto).
    split; [|split]; cbn [out trace]; [|destruct Htr; [left|right]; auto|apply Hret0; exact Ho].
    intros _. split; [|exact Hchk]. cbn [fst n_solves duals_of trace].
    destruct ph; cbn [fst] in Hph; intuition.
  - (* AEig *)
    injection Ha as <-.
    assert (Hc : forall t, clean t -> clean (t ++ [EvEig])) by (intros; apply clean_app; auto).
    assert (Hf : forall t, assigned_once_first t -> assigned_once_first (t ++ [EvEig])) by (intros; apply aof_app; auto).
    split; [|split]; cbn [emit_ev out trace]; [|destruct Htr; [left|right]; auto|apply Hret0; exact Ho].
    intros _. split; [|exact Hchk]. cbn [fst n_solves duals_of trace]. destruct ph; cbn [fst] in Hph; intuition.
  - (* APrepare *)
    destruct ph; try discriminate; injection Ha as <-. destruct Hph as [H1 H2].
    assert (Hf : assigned_once_first (trace s ++ [EvPrepare (n_solves s)])) by (apply aof_app; auto).
    split; [|split]; cbn [emit_ev out trace]; [|right; exact Hf|apply Hret0; exact Ho].
    intros _. split; [|exact Hchk]. cbn [fst duals_of trace emit_ev]. split; assumption.
  - (* AHeuristic *)
    destruct ph; try discriminate; injection Ha as <-. destruct Hph as [H1 H2].
    assert (Hf : assigned_once_first (trace s ++ [EvHeuristic w])) by (apply aof_app; auto).
    split; [|split]; cbn [emit_ev out trace]; [|right; exact Hf|apply Hret0; exact Ho].
    intros _. split; [|exact Hchk]. cbn [fst duals_of trace emit_ev]. split; assumption.
  - (* AComputeW *)
    injection Ha as <-.
    assert (Hc : forall t, clean t -> clean (t ++ [EvComputeW])) by (intros; apply clean_app; auto).
    assert (Hf : forall t, assigned_once_first t -> assigned_once_first (t ++ [EvComputeW])) by (intros; apply aof_app; auto).
    split; [|split]; cbn [emit_ev out trace]; [|destruct Htr; [left|right]; auto|apply Hret0; exact Ho].
    intros _. split; [|exact Hchk]. cbn [fst n_solves duals_of trace]. destruct ph; cbn [fst] in Hph; intuition.
  - (* AStoreGF *)
    injection Ha as <-.
    assert (Hc : forall t, clean t -> clean (t ++ [EvStore])) by (intros; apply clean_app; auto).
    assert (Hf : forall t, assigned_once_first t -> assigned_once_first (t ++ [EvStore])) by (intros; apply aof_app; auto).
    split; [|split]; cbn [emit_ev out trace]; [|destruct Htr; [left|right]; auto|apply Hret0; exact Ho].
    intros _. split; [|exact Hchk]. cbn [fst n_solves duals_of trace]. destruct ph; cbn [fst] in Hph; intuition.
  - (* AEvalPoints *)
    injection Ha as <-.
    assert (Hc : forall t, clean t -> clean (t ++ [EvEval (primal_of s)])) by (intros; apply clean_app; auto).
    assert (Hf : forall t, assigned_once_first t -> assigned_once_first (t ++ [EvEval (primal_of s)]))
      by (intros; apply aof_app; auto).
    split; [|split]; cbn [emit_ev out trace]; [|destruct Htr; [left|right]; auto|apply Hret0; exact Ho].
    intros _. split; [|exact Hchk]. cbn [fst n_solves duals_of trace]. destruct ph; cbn [fst] in Hph; intuition.
  - (* ACheckFeasibility *)
    destruct ph; try discriminate; injection Ha as <-. destruct Hph as [H1 H2].
    assert (Hf : assigned_once_first (trace s ++ [EvCheck (duals_of s) (n_solves s)])) by (apply aof_app; auto).
    split; [|split]; cbn [out trace]; [|right; exact Hf|apply Hret0; exact Ho].
    intros _. split; cbn [fst snd duals_of trace dualobj]; [split; assumption|]. intros _. rewrite H1. reflexivity.
  - (* ARaiseValueError *)
    injection Ha as <-. split; [intro H; discriminate H|]. split; [exact Htr|]. intros v Hv. discriminate Hv.
  - (* AReturnSwitch *)
    destruct ph; try discriminate. destruct chk; cbn [andb] in Ha; [|discriminate].
    destruct (retval_is (lookup_case "dual" cases) RetDualObjective) eqn:Hd; [|discriminate]. injection Ha as <-.
    destruct Hph as [H1 H2]. specialize (Hchk eq_refl).
    destruct (lookup_case (c_mode c) cases) as [[|]|] eqn:Hl; (split; [intro H; discriminate H|]); (split; [exact Htr|]);
      intros v Hv; cbn in Hv; try discriminate Hv; injection Hv as <-; right; (split; [exact H2|]); intro Hm.
    + rewrite Hchk. reflexivity.
    + rewrite (lookup_case_dual _ _ Hm Hd) in Hl. discriminate Hl.
Qed.

Lemma atoms_sound c l : forall x x' s, abs_atoms l x = Some x' -> inv c x s -> inv c x' (exec_atoms c l s).
Proof.
  induction l as [|a l IH]; intros x x' s Ha Hinv; cbn [abs_atoms exec_atoms fold_left] in *.
  - injection Ha as <-. exact Hinv.
  - destruct (abs_atom a x) as [x1|] eqn:H1; [|discriminate].
    apply (IH x1 x' _ Ha). apply (step_sound c a x x1 s H1 Hinv).
Qed.

Lemma l1_sound c y x x' s : abs_l1 y x = Some x' -> inv c x s -> inv c x' (exec_l1 c y s).
Proof.
  destruct y as [a|skip body]; cbn [abs_l1 exec_l1]; [apply step_sound|].
  intros Ha Hinv. destruct (keeps (abs_atoms body x) x) eqn:Hk; [|discriminate]. injection Ha as <-.
  apply keeps_eq in Hk.
  destruct (out s) eqn:Ho; [|exact Hinv|exact Hinv].
  destruct (c_int c _) as [z|].
  - induction (Z.to_nat z) as [|n IHn]; cbn [Nat.iter]; [exact Hinv|]. apply (atoms_sound c body x x _ Hk IHn).
  - destruct Hinv as [_ [H2 H3]]. split; [intro H; discriminate H|]. split; [exact H2|]. intros v Hv. discriminate Hv.
Qed.

Lemma l1s_sound c l : forall x x' s, abs_l1s l x = Some x' -> inv c x s -> inv c x' (exec_l1s c l s).
Proof.
  induction l as [|a l IH]; intros x x' s Ha Hinv; cbn [abs_l1s exec_l1s fold_left] in *.
  - injection Ha as <-. exact Hinv.
  - destruct (abs_l1 a x) as [x1|] eqn:H1; [|discriminate].
    apply (IH x1 x' _ Ha). apply (l1_sound c a x x1 s H1 Hinv).
Qed.

Lemma select_keeps branches orelse x h :
  forallb (fun '(_, body) => keeps (abs_l1s body x) x) branches = true -> keeps (abs_l1s orelse x) x = true ->
  abs_l1s (select branches orelse h) x = Some x.
Proof.
  induction branches as [|[t body] rest IH]; cbn [select forallb]; intros H1 H2.
  - apply keeps_eq. exact H2.
  - apply andb_prop in H1 as [Hb Hr]. destruct (test_holds t h); [apply keeps_eq; exact Hb|apply IH; assumption].
Qed.

Lemma l2_sound c y x x' s : abs_l2 y x = Some x' -> inv c x s -> inv c x' (exec_l2 c y s).
Proof.
  destruct y as [a|branches orelse]; cbn [abs_l2 exec_l2]; [apply step_sound|].
  intros Ha Hinv.
  destruct (forallb _ branches && keeps (abs_l1s orelse x) x) eqn:Hk; [|discriminate]. injection Ha as <-.
  apply andb_prop in Hk as [H1 H2].
  apply (l1s_sound c _ x x s (select_keeps branches orelse x _ H1 H2) Hinv).
Qed.

Lemma l2s_sound c l : forall x x' s, abs_l2s l x = Some x' -> inv c x s -> inv c x' (exec_l2s c l s).
Proof.
  induction l as [|a l IH]; intros x x' s Ha Hinv; cbn [abs_l2s exec_l2s fold_left] in *.
  - injection Ha as <-. exact Hinv.
  - destruct (abs_l2 a x) as [x1|] eqn:H1; [|discriminate].
    apply (IH x1 x' _ Ha). apply (l2_sound c a x x1 s H1 Hinv).
Qed.

Lemma top_sound c y x x' s : abs_top y x = Some x' -> inv c x s -> inv c x' (exec_top c y s).
Proof.
  destruct y as [a|body]; cbn [abs_top exec_top]; [apply step_sound|].
  intros Ha Hinv. destruct (keeps (abs_l2s body x) x) eqn:Hk; [|discriminate]. injection Ha as <-.
  apply keeps_eq in Hk. destruct (truthy c); [apply (l2s_sound c body x x s Hk Hinv)|exact Hinv].
Qed.

Lemma prog_sound c l : forall x x' s, abs_prog l x = Some x' -> inv c x s -> inv c x' (exec c l s).
Proof.
  induction l as [|a l IH]; intros x x' s Ha Hinv; cbn [abs_prog exec fold_left] in *.
  - injection Ha as <-. exact Hinv.
  - destruct (abs_top a x) as [x1|] eqn:H1; [|discriminate].
    apply (IH x1 x' _ Ha). apply (top_sound c a x x1 s H1 Hinv).
Qed.

Lemma inv_init c : inv c (PInit, false) init.
Proof.
  split; [|split].
  - intros _. split; cbn; [repeat split|discriminate].
  - left. reflexivity.
  - intros v Hv. discriminate Hv.
Qed.

(** every well-ordered program, under EVERY configuration *)
Theorem well_ordered_sound (p : list top) :
  well_ordered p = true ->
  forall c : cfg,
    let s := exec c p init in
    trace_ok (trace s)
    /\ forall v, out s = Returned v ->
         v = VNone \/ (assigned_once_first (trace s) /\ (c_mode c = "dual" -> v = VDualObjective (Some (Some 1)))).
Proof.
  unfold well_ordered. destruct (abs_prog p (PInit, false)) as [x'|] eqn:Ha; [|discriminate].
  intros _ c. destruct (prog_sound c p _ _ _ Ha (inv_init c)) as [_ [H2 H3]]. split; [exact H2|exact H3].
Qed.

(** * C14_cert_unchanged, for the generated program *)
Theorem cert_unchanged :
  forall c : cfg,
    let s := exec c post_solve init in
    (* either nothing touched the duals (early return of an unbounded first solve), or assign_dual_values was
       called exactly once, on the output of the FIRST solve, before every prepare_heuristic / heuristic event *)
    trace_ok (trace s)
    (* and a returned value is either that early None, or comes with such a trace and, in dual mode, is
       check_feasibility's reconstruction from the duals of solve 1 *)
    /\ forall v, out s = Returned v ->
         v = VNone \/ (assigned_once_first (trace s) /\ (c_mode c = "dual" -> v = VDualObjective (Some (Some 1)))).
Proof. apply well_ordered_sound. vm_compute. reflexivity. Qed.

(** ** The option dispatch *)
Definition dispatch_of (p : list top) : option (list (test * list lvl1) * list lvl1) :=
  let l2 := flat_map (fun x => match x with TIfHeuristic b => b | _ => [] end) p in
  match flat_map (fun y => match y with L2Dispatch b o => [(b, o)] | _ => [] end) l2 with
  | [d] => Some d
  | _ => None
  end.

Lemma substring_all s : substring 0 (String.length s) s = s.
Proof. induction s as [|a s IH]; cbn; [reflexivity|rewrite IH; reflexivity]. Qed.


(** "trace" runs the trace branch (one heuristic(identity), one more solve); "logdet"++digits runs the loop
    int(digits) times; any other non-empty string reaches the ValueError of the dispatch; None / "" skip the
    whole block. *)
Theorem options :
  exists branches orelse,
    dispatch_of post_solve = Some (branches, orelse)
    /\ select branches orelse "trace"
       = [L1 (AHeuristic WIdentity); L1 ASolve; L1 AGetPrimal; L1 AEig]
    /\ (forall ds, select branches orelse ("logdet" ++ ds)%string
                   = [L1Loop 6 [AComputeW; AHeuristic WVar; ASolve; AGetPrimal; AEig]])
    /\ (forall ds, substring 6 (String.length ("logdet" ++ ds)%string - 6) ("logdet" ++ ds)%string = ds)
    /\ (forall s, String.eqb s "trace" = false -> prefix "logdet" s = false ->
                  select branches orelse s = [L1 ARaiseValueError]).
Proof.
  eexists. eexists. split; [vm_compute; reflexivity|]. split; [reflexivity|]. split; [intro ds; cbn; destruct ds; reflexivity|]. split.
  - intro ds. cbn. rewrite Nat.sub_0_r. apply substring_all.
  - intros s H1 H2. cbn [select test_holds]. rewrite H1, H2. reflexivity.
Qed.

(** full runs, any return mode, any int(), first solve bounded *)
Definition cfg_of (h : option string) (mode : string) (int : string -> option Z) : cfg :=
  {| c_h := h; c_mode := mode; c_int := int; c_none := fun _ => false |}.

Theorem options_else_raises :
  forall s mode int, s <> "" -> String.eqb s "trace" = false -> prefix "logdet" s = false ->
    out (exec (cfg_of (Some s) mode int) post_solve init) = RaisedValueError.
Proof.
  intros s mode int Hne H1 H2.
  assert (Ht : truthy (cfg_of (Some s) mode int) = true).
  { unfold truthy, cfg_of. cbn. destruct (String.eqb_spec s ""); [contradiction|reflexivity]. }
  unfold post_solve, exec. cbn [fold_left exec_top]. rewrite Ht. unfold cfg_of.
  cbn -[String.eqb prefix]. rewrite H1, H2. cbn. reflexivity.
Qed.

Theorem options_none_skips :
  forall h mode int, (h = None \/ h = Some "") ->
    let s := exec (cfg_of h mode int) post_solve init in
    n_solves s = 1 /\ forallb (fun e => negb (is_heur e)) (trace s) = true.
Proof.
  intros h mode int [->| ->]; cbn;
    destruct (String.eqb mode "dual"); try destruct (String.eqb mode "primal"); cbn; split; reflexivity.
Qed.
