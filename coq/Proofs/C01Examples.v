(** Non-vacuity of the C01 theorems: a declared model with a SYMMETRIC 2x2 LMI, a rational dual that
    satisfies the solver assumption and is dual feasible, and a feasible primal point. *)
From Coq Require Import List QArith Reals Qreals Lra Lia Arith Bool Psatz.
From PV Require Import Model.Dict Model.Terms Model.Sent Model.Cvxpy Model.Cert
     Spec.GramSem Spec.KKT Proofs.C01Refuted.
Import ListNotations.
Local Open Scope R_scope.

(** o <= t,  <p,p> <= 81/100,  [[<p,p>, t], [t, 1]] >> 0 *)
Definition s_lmi : list (list edict) :=
  [ [ [(KG 0 0, 1%Q)] ; [(KF 0, 1%Q)] ];
    [ [(KF 0, 1%Q)] ; [(K1, 1%Q)] ] ].
Definition s_sent : sent :=
  [ SC [(KF 2, 1%Q); (KF 0, (-1)%Q)] Ineq;
    SC [(KG 0 0, 1%Q); (K1, (-81 # 100)%Q)] Ineq;
    LMI s_lmi ].
Definition s_duals : list dval :=
  [ VM [[0%Q]]; VS 1%Q; VS (1 # 4)%Q; VM [[(1 # 4)%Q; (-1 # 2)%Q]; [(-1 # 2)%Q; 1%Q]];
    VS (1 # 4)%Q; VS (-1 # 2)%Q; VS (-1 # 2)%Q; VS 1%Q ].

Lemma s_emit : emit s_sent =
  [ RGram; RLe [(KF 2, 1%Q); (KF 0, (-1)%Q)]; RLe [(KG 0 0, 1%Q); (K1, (-81 # 100)%Q)];
    RPsd 0 2 2; REnt 0 0 0 [(KG 0 0, 1%Q)]; REnt 0 0 1 [(KF 0, 1%Q)];
    REnt 0 1 0 [(KF 0, 1%Q)]; REnt 0 1 1 [(K1, 1%Q)] ].
Proof. reflexivity. Qed.

Lemma s_kkt : kkt_dual w_obj (emit s_sent) s_duals (481 / 400).
Proof.
  split.
  - rewrite s_emit. unfold s_duals. repeat (constructor; try exact I); cbn; repeat constructor.
  - intros G F M HG HM. rewrite s_emit. unfold s_duals, lagrangian, w_obj.
    cbn [rows_term row_term evalGF evalKGF mdot mdot_from rdot].
    pose proof (HM 0%nat 0%nat 1%nat) as Hs. q2r. lra.
Qed.

Lemma s_symmetric : all_lmis_symmetric s_sent = true.
Proof. vm_compute. reflexivity. Qed.

Lemma s_wf : wf_edict w_obj /\ wf_sent s_sent.
Proof.
  split; [nodup|].
  unfold s_sent, wf_sent, s_lmi.
  apply Forall_cons; [cbn [wf_item]; nodup|].
  apply Forall_cons; [cbn [wf_item]; nodup|].
  apply Forall_cons; [|apply Forall_nil].
  cbn [wf_item]. unfold ncols. cbn [hd length].
  repeat (apply Forall_cons || apply Forall_nil || split || reflexivity || nodup).
Qed.

Lemma s_reconstruct : snd (certificate w_obj s_sent w_ids s_duals) == 481 # 400.
Proof. vm_compute. reflexivity. Qed.

Lemma s_dual_feasible :
  let '(a, res) := exposed s_sent w_ids s_duals in dual_feasible a /\ rank1sum (res_matrix res) 1.
Proof.
  cbn. split; [split; [q2r; lra|split; [q2r; lra|split; [|split; [|split; [|exact I]]]]]|].
  - split; [split; [reflexivity|repeat constructor]|].
    exists [fun k => match k with 0%nat => 1 / 2 | _ => -1 end].
    intros i j Hi Hj. unfold matR, matq, nrows, s_lmi in *. cbn [length] in *.
    destruct i as [|[|i]], j as [|[|j]]; try lia; cbn [nth rank1_at]; q2r; lra.
  - split; [reflexivity|repeat constructor].
  - intros i j Hi Hj. unfold matR, matq, nrows, s_lmi in *. cbn [length] in *.
    destruct i as [|[|i]], j as [|[|j]]; try lia; cbn [nth]; q2r; lra.
  - split; [split; [reflexivity|repeat constructor]|].
    exists []. intros i j Hi Hj. destruct i, j; try lia. unfold matR, matq. cbn. q2r. lra.
Qed.

(** the same constraint object sent twice (ids 0, 1, 1): both occurrences show the dual of the LAST one *)
Lemma duplicate_shows_last :
  map (fun p => snd (fst p)) (fst (exposed [SC [] Ineq; SC [(K1, 1%Q)] Ineq; SC [(K1, 1%Q)] Ineq] [0; 1; 1]%nat
                                         [VM []; VS 5%Q; VS 1%Q; VS 2%Q]))
  = [VS 5%Q; VS 2%Q; VS 2%Q].
Proof. vm_compute. reflexivity. Qed.

Definition s_F : nat -> R := fun _ => 9 / 10.

Lemma s_feasible : feasible 1 s_sent w_G s_F /\ evalGF w_G s_F w_obj = 9 / 10.
Proof.
  split.
  - split; [intros i j; reflexivity|]. split.
    + split; [reflexivity|]. intro c. cbn [sumn]. unfold w_G. nra.
    + unfold s_sent. apply Forall_cons; [|apply Forall_cons; [|apply Forall_cons; [|apply Forall_nil]]].
      * cbn [item_holds holdsGF fst snd evalGF evalKGF]. unfold s_F. q2r. lra.
      * cbn [item_holds holdsGF fst snd evalGF evalKGF]. unfold w_G. q2r. lra.
      * cbn [item_holds]. split.
        -- intros i j Hi Hj. unfold lmi_value, entry, s_lmi, nrows in *. cbn [length] in *.
           destruct i as [|[|i]], j as [|[|j]]; try lia; cbn [nth evalGF evalKGF]; try reflexivity.
           all: unfold s_F; q2r; lra.
        -- intro c. unfold lmi_value, entry, s_lmi, nrows. cbn [length sumn nth evalGF evalKGF].
           unfold w_G, s_F. q2r.
           pose proof (Rle_0_sqr (9 / 10 * c 0%nat + c 1%nat)) as Hsq. unfold Rsqr in Hsq. nra.
  - cbn [w_obj evalGF evalKGF]. unfold s_F. q2r. lra.
Qed.
