(** C11 -- the guard is needed: for each defect-excluding conjunct a concrete model on which the faithful model of
    mosek_wrapper.py does NOT denote the declared SDP.  The same inputs are replayed on the real wrapper code
    running on the stand-in (harness/p_c11.py, known_findings.d/C11.json). *)
From Coq Require Import List QArith ZArith Bool Arith Lia.
From PV Require Import Model.Dict Model.Terms Model.Sent Model.Matrices Model.Mosek.
Import ListNotations.
Local Open Scope nat_scope.

(** tau <= t ; LMI [[ <p0,p0>, t ], [ t, 1 ]]  -- leaf expressions: 0 = t, 1 = objective; one leaf point *)
Definition w_lmi : list (list edict) :=
  [[ [(KG 0 0, 1%Q)]; [(KF 0, 1%Q)] ]; [ [(KF 0, 1%Q)]; [(K1, 1%Q)] ]].
Definition w_sent : sent := [SC [(KF 1, 1%Q); (KF 0, (- (1))%Q)] Ineq; LMI w_lmi].

(** F-C11a: the only LMI sent has PSDMatrix counter 1 (an unused PSDMatrix was created before it, or the model is
    solved a second time and the class LMI was re-created, or a function-level LMI was created first): the coupling
    rows address bar variable 2, which does not exist -- everything else in the guard holds. *)
Lemma barvar_index_refuted :
  exists l pc ec obj ctrs,
    wf_sent pc ec l = true /\ Nat.ltb obj ec = true /\ rows_fit_int8 l = true /\ objective_is_last_leaf ec obj = true
    /\ counters_in_send_order ctrs l = false
    /\ task_denote (emit l pc ec obj ctrs) = None.
Proof. exists w_sent, 1, 2, 1, [1]. vm_compute. repeat split; reflexivity. Qed.

(** with the counter in send order the same model is fine (non-vacuity of the guard) *)
Lemma barvar_index_ok : guard w_sent 1 2 1 [0] = true /\ task_denote (emit w_sent 1 2 1 [0]) = Some (sdp_of w_sent 1 2 1).
Proof. vm_compute. split; reflexivity. Qed.

(** F-C11c: 129 scalar constraints: the row-index vector of row 128 is [128 + np.zeros(.., int8)] *)
Definition w_many : sent := repeat (SC [(KF 0, 1%Q); (K1, (- (1))%Q)] Ineq) 129.
Lemma int8_refuted :
  exists l pc ec obj ctrs,
    wf_sent pc ec l = true /\ Nat.ltb obj ec = true /\ counters_in_send_order ctrs l = true
    /\ objective_is_last_leaf ec obj = true /\ rows_fit_int8 l = false
    /\ task_denote (emit l pc ec obj ctrs) = None
    /\ last (run_prefix (emit l pc ec obj ctrs) t0) TOptimize = TPyOverflow.
Proof. exists w_many, 1, 1, 0, []. vm_compute. repeat split; reflexivity. Qed.

(** with 128 rows (indices 0..127) nothing overflows *)
Lemma int8_boundary_ok :
  let l := repeat (SC [(KF 0, 1%Q); (K1, (- (1))%Q)] Ineq) 128 in
  guard l 1 1 0 [] = true /\ task_denote (emit l 1 1 0 []) = Some (sdp_of l 1 1 0).
Proof. vm_compute. split; reflexivity. Qed.

(** F-C11b: leaf expressions 0 = f0 (user), 1 = objective, 2 = created by class-constraint generation AFTER the
    objective (ConvexQG / RsiEb auto stationary point).  The base problem is still the declared one, but solve()
    reads xx[-2] = variable 2, and prepare_heuristic zeroes the cost of variable 2 instead of the objective's:
    the heuristic problem keeps tau in its objective. *)
Definition w_leaf : sent := [SC [(KF 1, 1%Q); (KF 0, (- (1))%Q)] Ineq; SC [(KF 0, 1%Q); (KF 2, (- (1))%Q)] Ineq].
Lemma objective_last_leaf_refuted :
  exists l pc ec obj ctrs v W,
    guard l pc ec obj ctrs = true /\ Nat.ltb (total_rows l) 128 = true /\ valid_triples pc W = true
    /\ objective_is_last_leaf ec obj = false
    /\ task_denote (emit l pc ec obj ctrs) = Some (sdp_of l pc ec obj)
    /\ readout_index (S ec) <> obj
    /\ task_denote (emit l pc ec obj ctrs ++ solve_reads ++ recover_reads l
                    ++ emit_prepare pc ec obj (total_rows l) (total_syms l) v
                    ++ emit_heuristic pc (S (total_syms l)) W)
       <> Some (sdp_heur l pc ec obj v W)
    /\ (exists d, task_denote (emit l pc ec obj ctrs ++ solve_reads ++ recover_reads l
                               ++ emit_prepare pc ec obj (total_rows l) (total_syms l) v
                               ++ emit_heuristic pc (S (total_syms l)) W) = Some d
                  /\ d_c d = [(obj, 1%Q); (ec - 1, 0%Q)]).
Proof.
  exists w_leaf, 1, 3, 1, [], (1 # 2)%Q, (identity_triples 1).
  vm_compute. repeat split; try reflexivity; try discriminate.
  eexists. split; reflexivity.
Qed.

(** F-C11d: solve() returns a number whatever the problem status; the cvxpy path returns None *)
Lemma status_refuted :
  exists xx st v, st <> PrimAndDualFeas /\ mosek_solve_value xx st <> None /\ cvxpy_solve_value v st = None.
Proof. exists [0%Q; 0%Q], PrimInfeas, 0%Q. repeat split; cbn; discriminate. Qed.
