(** C08 x C07, closed forms of the guard [StepsFunc.ok_prog] for generated steps: explicit conditions on the
    ARGUMENTS of the call under which the guard holds in every state that satisfies C07's invariant, hence
    (Proofs/C08Composite.v) the step preserves the invariant on any function, leaf or composite.
      inexact_gradient_step (absolute / relative / invalid option): the function exists, x0 has unique keys over
        existing leaves and no explicit zero coefficient -- this IS the guard;
      linear_optimization_step: the function exists, [dir] has unique keys (the recorded point is a fresh leaf);
      proximal_step: the function exists, x0 has unique keys over existing leaves, gamma <> 0 (then
        x = x0 - gamma gx contains the fresh leaf gx, so it is new for the function and all its terms). *)
From Coq Require Import List QArith Reals Qreals Lra Bool Arith Lia String.
From PV Require Import Base.IPS Model.Dict Model.Terms Model.StepsRT Model.Func Model.StepsFunc Gen.Steps Spec.Sem
  Proofs.DictLemmas Proofs.SemLemmas Proofs.C07Dict Proofs.C07Inv Proofs.C07Ops Proofs.C07Main Proofs.C07Thm
  Proofs.C08Composite.
Import ListNotations.
Local Open Scope R_scope.

Lemma nodup_by_complete {A} (eqb : A -> A -> bool) (Heq : forall a b, reflect (a = b) (eqb a b)) l :
  NoDup l -> nodup_by eqb l = true.
Proof.
  induction 1 as [|a l Hn Hd IH]; cbn [nodup_by]; [reflexivity|].
  rewrite IH, andb_true_r. apply negb_true_iff.
  destruct (existsb (eqb a) l) eqn:He; [|reflexivity]. exfalso. apply Hn.
  apply existsb_exists in He as [b [Hb Hab]]. destruct (Heq a b); [subst; exact Hb|discriminate].
Qed.

(** a point that involves a leaf created after every recorded sample is recorded nowhere *)
Lemma no_match_key s j X n :
  inv s -> (j < nfun s)%nat -> pND X -> In n (keys X) -> (pt_ctr s <= n)%nat ->
  find_pt (f_pts (getf s j)) X = None.
Proof.
  intros Hinv Hj NX Hn Hle. apply find_pt_None. intros t Ht.
  destruct (ig_samples noP s Hinv j t Hj Ht) as (Nt & _ & _ & _ & Hk).
  destruct (dict_eqb Nat.eqb (xof t) X) eqn:E; [|reflexivity]. exfalso.
  pose proof (proj1 (dict_eqb_char nat Nat.eqb nat_eqb_spec (xof t) X Nt NX) E n) as E'. clear E. rename E' into E.
  assert (H1 : lookup Nat.eqb n (xof t) = None).
  { apply (lookup_None nat Nat.eqb nat_eqb_spec). intros Hc. specialize (Hk n Hc). lia. }
  destruct (key_lookup nat Nat.eqb nat_eqb_spec n X Hn) as [v H2].
  rewrite H1, H2 in E. exact E.
Qed.

Lemma fresh_for_key s F X n a b :
  inv s -> (F < nfun s)%nat -> pND X -> In n (keys X) -> (pt_ctr s <= n)%nat ->
  fresh_for (mkS a b (funs s)) F X = true.
Proof.
  intros Hinv HF NX Hn Hle. unfold fresh_for. change (getf (mkS a b (funs s))) with (getf s).
  rewrite (no_match_key s F X n Hinv HF NX Hn Hle). cbn [is_none andb].
  apply forallb_forall. intros [i q] Hin.
  assert (Hi : (i < nfun s)%nat).
  { destruct (f_leaf (getf s F)) eqn:Hl.
    - rewrite (ig_leafw noP s Hinv F HF Hl) in Hin. destruct Hin as [[= <- _]|[]]. exact HF.
    - destruct (ig_compw noP s Hinv F HF Hl) as (_ & _ & _ & D). apply (D i q Hin). }
  rewrite (no_match_key s i X n Hinv Hi NX Hn Hle). reflexivity.
Qed.

Lemma pwf_b_complete s d :
  pND d -> (forall k, In k (keys d) -> (k < pt_ctr s)%nat) -> pwf_b s d = true.
Proof.
  intros N H. unfold pwf_b. rewrite (nodup_by_complete Nat.eqb nat_eqb_spec _ N). cbn [andb].
  apply forallb_forall. intros k Hk. apply Nat.ltb_lt. apply H. exact Hk.
Qed.

(** ** inexact_gradient_step: the guard is the condition on (f, x0) *)
Lemma inexact_gradient_guard (prog : program) x0 F gamma eps s cs :
  prog = prog_inexact_gradient_step_absolute \/ prog = prog_inexact_gradient_step_relative \/
  prog = prog_inexact_gradient_step_invalid ->
  ok_prog prog (mk_args [x0] [F] [gamma; eps] []) (s, cs) = in_range s F && pwf_b s x0 && allnz_b x0.
Proof.
  intros [ -> | [ -> | -> ] ]; unfold ok_prog, prog_inexact_gradient_step_absolute, prog_inexact_gradient_step_relative,
    prog_inexact_gradient_step_invalid;
    cbn [ok_exec guard_s init_env e_p a_pts mk_args a_fun nth StepsFunc.exec_s];
    destruct (Func.oracle s F x0) as [s' [gd vd]]; cbn; rewrite ?andb_true_r; reflexivity.
Qed.

Theorem inexact_gradient_step_composite_inv (opt : string) x0 F gamma eps s cs :
  inv s -> (F < nfun s)%nat -> pwf_b s x0 = true -> allnz_b x0 = true ->
  inv (run_state (step_program "inexact_gradient_step" opt) (mk_args [x0] [F] [gamma; eps] []) (s, cs)).
Proof.
  intros Hinv HF Hp Hz. apply run_inv_steps; [exact Hinv|].
  rewrite (inexact_gradient_guard _ x0 F gamma eps s cs).
  - assert (Hr : in_range s F = true) by (unfold in_range; apply Nat.ltb_lt; exact HF).
    rewrite Hr, Hp, Hz. reflexivity.
  - cbn [step_program String.eqb Ascii.eqb Bool.eqb].
    destruct (String.eqb opt "absolute"); [auto|]. destruct (String.eqb opt "relative"); auto.
Qed.

(** ** linear_optimization_step *)
Lemma linear_optimization_guard dir F s cs :
  inv s -> (F < nfun s)%nat -> pND dir ->
  ok_prog prog_linear_optimization_step (mk_args [dir] [F] [] []) (s, cs) = true.
Proof.
  intros Hinv HF Nd. unfold ok_prog, prog_linear_optimization_step.
  cbn [ok_exec guard_s init_env e_p e_x a_pts mk_args a_fun a_scal nth StepsFunc.exec_s fresh_pt fresh_ex
       setp setx StepsRT.upd Nat.eqb pdefb andb compileP fst snd Func.pt_ctr Func.ex_ctr Func.funs pruned_sample].
  assert (Hr : in_range (mkS (S (pt_ctr s)) (S (ex_ctr s)) (funs s)) F = true).
  { unfold in_range. cbn. apply Nat.ltb_lt. exact HF. }
  rewrite Hr.
  assert (Hw : pwf_b (mkS (S (pt_ctr s)) (S (ex_ctr s)) (funs s)) [(pt_ctr s, 1%Q)] = true).
  { apply pwf_b_complete; [apply pND_single|]. intros k [<-|[]]. cbn. lia. }
  rewrite Hw.
  assert (Hg : nodup_by Nat.eqb (keys (p_neg dir)) = true).
  { apply (nodup_by_complete Nat.eqb nat_eqb_spec). unfold p_neg, p_scal.
    rewrite (keys_scale nat). exact Nd. }
  rewrite Hg.
  rewrite (fresh_for_key s F (prune [(pt_ctr s, 1%Q)]) (pt_ctr s) (S (pt_ctr s)) (S (ex_ctr s)) Hinv HF
             (pND_single _ _) (or_introl eq_refl) (le_n _)).
  reflexivity.
Qed.

Theorem linear_optimization_step_composite_inv dir F s cs :
  inv s -> (F < nfun s)%nat -> pND dir ->
  inv (run_state prog_linear_optimization_step (mk_args [dir] [F] [] []) (s, cs)).
Proof. intros Hinv HF Nd. apply run_inv_steps; [exact Hinv|]. apply linear_optimization_guard; assumption. Qed.

(** ** proximal_step: x = x0 - gamma gx with gx a fresh leaf *)
Section ProxPoint.
  Variables (x0 : pdict) (gamma : Q) (n : nat).
  Hypothesis Nx0 : pND x0.
  Hypothesis Hfresh : forall k, In k (keys x0) -> (k < n)%nat.
  Hypothesis Hgamma : ~ (gamma == 0)%Q.

  Let X : pdict := p_sub x0 (p_scal gamma [(n, 1%Q)]).

  Lemma prox_point_ND : pND X.
  Proof.
    unfold X, p_sub, p_add, p_neg, p_scal. apply pND_prune.
    apply (NoDupKeys_merge nat Nat.eqb nat_eqb_spec); [exact Nx0|]. cbn. apply pND_single.
  Qed.

  Lemma prox_point_keys k : In k (keys X) -> (k < S n)%nat.
  Proof.
    unfold X, p_sub, p_add, p_neg, p_scal. intros H. apply (keys_prune_incl nat) in H.
    apply keys_merge_in in H as [H|H]; [specialize (Hfresh k H); lia|].
    cbn in H. destruct H as [<-|[]]. lia.
  Qed.

  Lemma prox_point_has_fresh : In n (keys (prune X)).
  Proof.
    assert (Hnz : ~ (1 * gamma * -1 == 0)%Q).
    { intros H. apply Hgamma. assert (E : (gamma == (1 * gamma * -1) * -1)%Q) by ring.
      rewrite H in E. rewrite E. ring. }
    apply (In_keys nat n (1 * gamma * -1)%Q).
    apply (prune_keeps nat); [|exact Hnz].
    unfold X, p_sub, p_add, p_neg, p_scal. apply (prune_keeps nat); [|exact Hnz].
    unfold pmerge, merge. apply in_or_app. right. cbn [scale map filter].
    assert (Hm : mem Nat.eqb n x0 = false).
    { apply (mem_false nat Nat.eqb nat_eqb_spec). intros Hc. specialize (Hfresh n Hc). lia. }
    rewrite Hm. left. reflexivity.
  Qed.
End ProxPoint.

Lemma proximal_guard x0 F gamma s cs :
  inv s -> (F < nfun s)%nat -> pwf_b s x0 = true -> ~ (gamma == 0)%Q ->
  ok_prog prog_proximal_step (mk_args [x0] [F] [gamma] []) (s, cs) = true.
Proof.
  intros Hinv HF Hp Hg. destruct (pwf_b_spec s x0 Hp) as [Nx0 Hk].
  unfold ok_prog, prog_proximal_step.
  cbn [ok_exec guard_s init_env e_p e_x a_pts mk_args a_fun a_scal nth StepsFunc.exec_s fresh_pt fresh_ex
       setp setx StepsRT.upd Nat.eqb pdefb sdefb andb compileP seval fst snd Func.pt_ctr Func.ex_ctr Func.funs
       pruned_sample].
  assert (Hr : in_range (mkS (S (pt_ctr s)) (S (ex_ctr s)) (funs s)) F = true).
  { unfold in_range. cbn. apply Nat.ltb_lt. exact HF. }
  rewrite Hr.
  rewrite (pwf_b_complete (mkS (S (pt_ctr s)) (S (ex_ctr s)) (funs s)) _
             (prox_point_ND x0 gamma (pt_ctr s) Nx0) (prox_point_keys x0 gamma (pt_ctr s) Hk)).
  rewrite (fresh_for_key s F _ (pt_ctr s) (S (pt_ctr s)) (S (ex_ctr s)) Hinv HF
             (pND_prune _ (prox_point_ND x0 gamma (pt_ctr s) Nx0))
             (prox_point_has_fresh x0 gamma (pt_ctr s) Hk Hg) (le_n _)).
  reflexivity.
Qed.

(** proximal_step(x0, F, gamma) on ANY function F (leaf or composite), any well-formed x0, any gamma <> 0 *)
Theorem proximal_step_composite_inv x0 F gamma s cs :
  inv s -> (F < nfun s)%nat -> pwf_b s x0 = true -> ~ (gamma == 0)%Q ->
  inv (run_state prog_proximal_step (mk_args [x0] [F] [gamma] []) (s, cs)).
Proof. intros Hinv HF Hp Hg. apply run_inv_steps; [exact Hinv|]. apply proximal_guard; assumption. Qed.

(** ... and the sample it records on a composite F is the weighted sum of the samples it makes the terms record *)
Theorem proximal_step_composite_sample x0 F gamma s cs :
  inv s -> (F < nfun s)%nat -> f_leaf (getf s F) = false -> pwf_b s x0 = true -> ~ (gamma == 0)%Q ->
  let s' := run_state prog_proximal_step (mk_args [x0] [F] [gamma] []) (s, cs) in
  let gx := [(pt_ctr s, 1%Q)] in
  let t := (prune (p_sub x0 (p_scal gamma gx)), prune gx, prune [(KF (ex_ctr s), 1%Q)]) in
  In t (f_pts (getf s' F)) /\ weighted_sum_at s' F t.
Proof.
  intros Hinv HF Hc Hp Hg s' gx t.
  assert (Hin : In t (f_pts (getf s' F))).
  { unfold s', run_state, StepsFunc.run, run_full, prog_proximal_step.
    cbn [StepsFunc.exec init_env e_p e_x a_pts mk_args a_fun a_scal nth StepsFunc.exec_s fresh_pt fresh_ex
         setp setx StepsRT.upd Nat.eqb pdefb sdefb andb compileP seval fst snd Func.pt_ctr Func.ex_ctr Func.funs
         pruned_sample].
    apply (add_point_records (mkS (S (pt_ctr s)) (S (ex_ctr s)) (funs s)) F). exact HF. }
  split; [exact Hin|].
  apply (run_composite_samples prog_proximal_step (mk_args [x0] [F] [gamma] []) s cs Hinv
           (proximal_guard x0 F gamma s cs Hinv HF Hp Hg) F t HF Hc Hin).
Qed.
