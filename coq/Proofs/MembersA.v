(** Members of the non-smooth function classes satisfy the reference conditions.

    For each class: every genuine sample (pair of samples) of a real member of the class satisfies
    the reference inequality/equality of Spec/Reference.v.  Everything goes through [inner] and the
    bilinearity lemmas of Base/IPS.v (no Leibniz vector equation). *)
From Coq Require Import Reals Lra Psatz List.
From PV Require Import Base.IPS Spec.Reference Spec.Classes.
Import ListNotations.
Local Open Scope R_scope.

(** A small limit lemma: a >= c (1 - t) for all t in (0,1) implies a >= c. *)
Lemma limit_one_minus_t a c :
  0 <= c -> (forall t, 0 < t < 1 -> a >= c * (1 - t)) -> a >= c.
Proof.
  intros Hc H.
  destruct (Rle_lt_dec c a) as [Hle|Hlt]; [lra|].
  exfalso.
  assert (Hhalf : a >= c * (1 - 1 / 2)) by (apply H; lra).
  assert (Hcpos : 0 < c) by lra.
  set (t := (c - a) / (2 * c)).
  assert (Hct : c * t = (c - a) / 2) by (unfold t; field; lra).
  assert (Ht0 : 0 < t).
  { unfold t. apply Rdiv_lt_0_compat; lra. }
  assert (Ht1 : t < 1).
  { assert (c * t < c * 1) by lra.
    apply Rmult_lt_reg_l with (r := c); assumption. }
  pose proof (H t (conj Ht0 Ht1)) as P.
  replace (c * (1 - t)) with (c - c * t) in P by ring.
  lra.
Qed.

Section MembersA.
  Context {E : ips}.
  Implicit Types xi gi xj gj xs : E.
  Implicit Types fi fj fs : R.

  Ltac bilin :=
    repeat (rewrite ?inner_add_l, ?inner_add_r, ?inner_scal_l, ?inner_scal_r,
                    ?inner_zero_l, ?inner_zero_r).
  Ltac bilin_in H :=
    repeat (rewrite ?inner_add_l, ?inner_add_r, ?inner_scal_l, ?inner_scal_r,
                    ?inner_zero_l, ?inner_zero_r in H).

  (** 1. ConvexFunction *)
  Lemma mem_convex (F : fn) xi gi fi xj gj fj :
    genuine_sub F (xi, gi, fi) -> genuine_sub F (xj, gj, fj) ->
    ref_convex xi xj gj fi fj <= 0.
  Proof.
    intros [[Hdi _] Hfi] [[_ Hj] Hfj].
    unfold ref_convex. subst fi fj.
    pose proof (Hj xi Hdi) as P. lra.
  Qed.

  (** 2. StronglyConvexFunction *)
  Lemma mem_strongly_convex mu (F : fn) xi gi fi xj gj fj :
    0 <= mu -> strongly_convex_member mu F ->
    genuine_sub F (xi, gi, fi) -> genuine_sub F (xj, gj, fj) ->
    ref_strongly_convex mu xi xj gj fi fj <= 0.
  Proof.
    intros Hmu HF [[Hdi _] Hfi] [[Hdj Hj] Hfj].
    unfold ref_strongly_convex. subst fi fj.
    set (n := nrm2 (vsub xi xj)).
    set (p := inner gj (vsub xi xj)).
    assert (Hn : 0 <= n) by (unfold n, nrm2; apply inner_pos).
    assert (Hc : 0 <= mu / 2 * n) by (apply Rmult_le_pos; lra).
    assert (Hlim : val F xi - val F xj - p >= mu / 2 * n).
    { apply limit_one_minus_t; [exact Hc|].
      intros t Ht.
      destruct (HF xj xi t Hdj Hdi Ht) as [Hds Hv].
      fold n in Hv.
      pose proof (Hj (seg xj xi t) Hds) as Hs.
      assert (Hp : inner gj (vsub (seg xj xi t) xj) = t * p).
      { unfold p, seg, vsub, vneg. bilin. ring. }
      rewrite Hp in Hs.
      set (a := val F xi - val F xj - p).
      set (c := mu / 2 * n).
      assert (Hprod : 0 <= t * (a - c * (1 - t))).
      { unfold a, c.
        replace (t * (val F xi - val F xj - p - mu / 2 * n * (1 - t)))
          with ((1 - t) * val F xj + t * val F xi - mu / 2 * t * (1 - t) * n
                - (val F xj + t * p)) by ring.
        lra. }
      destruct Ht as [Ht0 Ht1].
      assert (Hq : 0 <= a - c * (1 - t)).
      { apply Rmult_le_reg_l with (r := t); [exact Ht0|]. lra. }
      lra. }
    lra.
  Qed.

  (** 3. ConvexLipschitzFunction *)
  Lemma mem_lipschitz_bound M (F : fn) xi gi fi :
    0 <= M -> lipschitz_fn M F -> genuine_sub F (xi, gi, fi) ->
    ref_bounded_g M gi <= 0.
  Proof.
    intros HM [Hdom Hlip] [[Hdi Hi] Hfi].
    unfold ref_bounded_g.
    set (y := vadd xi gi).
    pose proof (Hi y (Hdom y)) as Hs.
    pose proof (Hlip y xi) as Hl.
    assert (E1 : inner gi (vsub y xi) = nrm2 gi).
    { unfold y, vsub, vneg, nrm2. bilin. ring. }
    assert (E2 : nrm2 (vsub y xi) = nrm2 gi).
    { unfold y, vsub, vneg, nrm2. bilin.
      rewrite (inner_sym E gi xi). ring. }
    rewrite E1 in Hs. rewrite E2 in Hl.
    set (n := nrm2 gi) in *.
    set (D := val F y - val F xi) in *.
    assert (Hn : 0 <= n) by (unfold n, nrm2; apply inner_pos).
    assert (HnD : n <= D) by (unfold D; lra).
    assert (Hsq : n * n <= D * D) by (apply Rmult_le_compat; lra).
    assert (Hl' : D * D <= M ^ 2 * n) by (replace (D * D) with (D ^ 2) by ring; exact Hl).
    assert (HM2 : 0 <= M ^ 2) by (apply pow2_ge_0).
    destruct (Rle_lt_dec n 0) as [Hz|Hpos]; [lra|].
    assert (Hfin : n * n <= n * M ^ 2) by lra.
    apply Rmult_le_reg_l in Hfin; [lra|exact Hpos].
  Qed.

  (** 4-6. ConvexIndicatorFunction *)
  Lemma mem_ind_value D (F : fn) xi gi fi :
    indicator_member D F -> genuine_sub F (xi, gi, fi) -> ref_ind_value fi = 0.
  Proof.
    intros [Hv _] [[Hdi _] Hfi].
    unfold ref_ind_value. subst fi. apply Hv, Hdi.
  Qed.

  Lemma mem_ind_normal D (F : fn) xi gi fi xj gj fj :
    indicator_member D F -> genuine_sub F (xi, gi, fi) -> genuine_sub F (xj, gj, fj) ->
    ref_ind_normal xi xj gj <= 0.
  Proof.
    intros [Hv _] [[Hdi _] _] [[Hdj Hj] _].
    unfold ref_ind_normal.
    pose proof (Hj xi Hdi) as P.
    rewrite (Hv xi Hdi), (Hv xj Hdj) in P. lra.
  Qed.

  Lemma mem_ind_diameter d (F : fn) xi gi fi xj gj fj :
    indicator_member (Some d) F -> genuine_sub F (xi, gi, fi) -> genuine_sub F (xj, gj, fj) ->
    ref_diameter d xi xj <= 0.
  Proof.
    intros [_ Hd] [[Hdi _] _] [[Hdj _] _].
    unfold ref_diameter.
    pose proof (Hd xi xj Hdi Hdj) as P. lra.
  Qed.

  (** 7-9. ConvexSupportFunction *)
  Lemma mem_sup_fenchel M C sigma xi gi fi :
    support_member M C sigma -> genuine_support C sigma (xi, gi, fi) ->
    ref_sup_fenchel xi gi fi = 0.
  Proof.
    intros _ [_ [Hg Hf]].
    unfold ref_sup_fenchel. lra.
  Qed.

  Lemma mem_sup_bound m C sigma xi gi fi :
    support_member (Some m) C sigma -> genuine_support C sigma (xi, gi, fi) ->
    ref_bounded_g m gi <= 0.
  Proof.
    intros [_ Hb] [HC _].
    unfold ref_bounded_g.
    pose proof (Hb gi HC) as P. lra.
  Qed.

  Lemma mem_sup_convex M C sigma xi gi fi xj gj fj :
    support_member M C sigma -> genuine_support C sigma (xi, gi, fi) ->
    genuine_support C sigma (xj, gj, fj) ->
    ref_sup_convex xj gi gj <= 0.
  Proof.
    intros [Hup _] [HCi _] [_ [Hgj _]].
    unfold ref_sup_convex.
    rewrite inner_sub_r.
    pose proof (Hup xj gi HCi) as P.
    rewrite (inner_sym E xj gi), (inner_sym E xj gj). lra.
  Qed.

  (** 10. ConvexQGFunction *)
  Lemma mem_qg L (F : fn) xs fs xj gj fj :
    0 < L -> qg_member L F ->
    genuine_sub F (xs, vzero, fs) -> genuine_sub F (xj, gj, fj) ->
    ref_qg L xs xj gj fs fj <= 0.
  Proof.
    intros HL [Hdom Hqg] [Hsub0 Hfs] [[Hdj Hj] Hfj].
    unfold ref_qg. subst fs fj.
    set (t := 1 / L).
    assert (Ht : L * t = 1) by (unfold t; field; lra).
    assert (Ht0 : 0 < t) by (unfold t; apply Rdiv_lt_0_compat; lra).
    set (z := vadd xs (vscal t gj)).
    pose proof (Hj z (Hdom z)) as Hs.
    pose proof (Hqg xs z Hsub0) as Hq.
    set (n := nrm2 gj) in *.
    set (p := inner gj (vsub xs xj)) in *.
    assert (E1 : inner gj (vsub z xj) = p + t * n).
    { unfold p, n, z, vsub, vneg, nrm2. bilin. ring. }
    assert (E2 : nrm2 (vsub z xs) = t * t * n).
    { unfold n, z, vsub, vneg, nrm2. bilin.
      rewrite (inner_sym E gj xs). ring. }
    rewrite E1 in Hs. rewrite E2 in Hq.
    assert (E3 : L / 2 * (t * t * n) = t / 2 * n).
    { replace (L / 2 * (t * t * n)) with ((L * t) * (t / 2 * n)) by field.
      rewrite Ht. ring. }
    rewrite E3 in Hq.
    assert (E4 : 1 / (2 * L) = t / 2) by (unfold t; field; lra).
    rewrite E4. lra.
  Qed.
End MembersA.

(** Non-vacuity: on the real line, x |-> x^2 is a 2-strongly convex member and 2 is a subgradient
    at 1, so the hypotheses of [mem_strongly_convex] are satisfiable. *)
Example strongly_convex_nonvacuous :
  let F := @mkFn R1 (fun _ => True) (fun x : R => x * x) in
  strongly_convex_member 2 F /\ subgrad F 1 2.
Proof.
  intro F. split.
  - intros x y t _ _ Ht. split; [exact I|].
    unfold F, seg, vsub, vneg, nrm2. cbn.
    right. field.
  - split; [exact I|].
    intros y _. unfold F, vsub, vneg. cbn. change R in y.
    pose proof (Rle_0_sqr (y - 1)) as P. unfold Rsqr in P.
    lra.
Qed.
