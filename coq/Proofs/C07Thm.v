(** C07, part 5: the reading of the invariant clause by clause, the refutations of the unguarded
    statement (the two known findings), and what [oracle] returns. *)
From Coq Require Import List QArith Reals Qreals Lra Bool Arith Lia Permutation.
From PV Require Import Base.IPS Model.Dict Model.Terms Model.Func Spec.Sem
  Proofs.DictLemmas Proofs.SemLemmas Proofs.C07Dict Proofs.C07Inv Proofs.C07Ops Proofs.C07Main.
Import ListNotations.
Local Open Scope R_scope.

(** ** Refutations: the unguarded statement "every well-scoped op sequence keeps the invariant" fails.
    Since /repo 5162ea4 ([Function.__add__] prunes) the only composites that still carry a zero weight
    are zero functions: a bare zero scaling [0*f] = [{f: 0}], or everything cancelled [f - f] = [{}]. *)

(** F-C07d: [F = 0*f; F.oracle(x)] with [f] not yet evaluated at [x]: classification runs on the unpruned
    [{f: 0}] ("f needs gradient and value"), two fresh leaves are recorded for the ZERO function. *)
Definition ops_zero_scaling : list op :=
  [NewPoint; NewLeaf true; Combine [(0%nat, 0%Q)]; Oracle 1%nat (PVar 0)].

(** F-C07c: [F = f - f; F.stationary_point()] records a free function value for the zero function. *)
Definition ops_all_cancel : list op :=
  [NewLeaf true; Combine [(0%nat, 1%Q); (0%nat, (-1)%Q)]; Stationary 1%nat].

(** F-C07e (the old F-C07a, still reachable through the constructor): [f1.oracle(x);
    F = Function(is_leaf=False, decomposition_dict={f1: 1, f2: 0}); F.oracle(x)] gives the non-differentiable
    LEAF [f1] a second function value at [x]. *)
Definition ops_ctor_zero_weight : list op :=
  [NewPoint; NewLeaf false; NewLeaf true; Oracle 0%nat (PVar 0);
   Direct [(0%nat, 1%Q); (1%nat, 0%Q)] false; Oracle 2%nat (PVar 0)].

(** F-C07b: [f.oracle(0*y); f.oracle(0*y)] records two samples at the point [{}] with different values. *)
Definition ops_zero_query : list op :=
  [NewPoint; NewLeaf true; Oracle 0%nat (PScal (SNum 0) (PVar 0)); Oracle 0%nat (PScal (SNum 0) (PVar 0))].

(** Regression sequences (the triggers of the repaired F-C07a): [f1.oracle(x); F = f1 + f2 - f2; F.oracle(x)]
    with [f1] non-differentiable / differentiable.  With the current construction they are accepted by the
    guard and keep the invariant; with the construction before 5162ea4 they break it ([step_old]). *)
Definition ops_cancel_nondiff : list op :=
  [NewPoint; NewLeaf false; NewLeaf true; Oracle 0%nat (PVar 0);
   Combine [(0%nat, 1%Q); (1%nat, 1%Q); (1%nat, (-1)%Q)]; Oracle 2%nat (PVar 0)].
Definition ops_cancel_diff : list op :=
  [NewPoint; NewLeaf true; NewLeaf true; Oracle 0%nat (PVar 0);
   Combine [(0%nat, 1%Q); (1%nat, 1%Q); (1%nat, (-1)%Q)]; Oracle 2%nat (PVar 0)].

Definition step_old (s : state) (o : op) : state :=
  match o with
  | Combine terms =>
      mkS (pt_ctr s) (ex_ctr s)
          (funs s ++ [mkF false (combine_reuse s terms) (combine_weights_old s terms) [] []])
  | _ => step s o
  end.
Definition run_old (ops : list op) : state := fold_left step_old ops init.

Definition phi01 : nat -> R := fun e => match e with O => 1 | _ => 0 end.

Lemma two_values_refute s i x1 g1 x2 g2 :
  (i < nfun s)%nat ->
  In (x1, g1, [(KF 0, 1%Q)]) (f_pts (getf s i)) -> In (x2, g2, [(KF 1, 1%Q)]) (f_pts (getf s i)) ->
  dict_eqb Nat.eqb x1 x2 = true -> ~ inv s.
Proof.
  intros Hi H1 H2 He Hinv.
  pose proof (ig_I1 noP s Hinv i _ _ Hi H1 H2 He R1 (fun _ => 0) phi01) as H.
  unfold vof in H; cbn in H. unfold Q2R in H; cbn in H. lra.
Qed.

Lemma refuted_zero_query : ops_scoped ops_zero_query = true /\ ~ inv (run ops_zero_query).
Proof.
  split; [vm_compute; reflexivity|].
  apply (two_values_refute _ 0%nat [] [(1%nat, 1%Q)] [] [(2%nat, 1%Q)]).
  - vm_compute. lia.
  - vm_compute. left. reflexivity.
  - vm_compute. right. left. reflexivity.
  - vm_compute. reflexivity.
Qed.

Lemma refuted_ctor_zero_weight : ops_scoped ops_ctor_zero_weight = true /\ ~ inv (run ops_ctor_zero_weight).
Proof.
  split; [vm_compute; reflexivity|].
  apply (two_values_refute _ 0%nat [(0%nat, 1%Q)] [(1%nat, 1%Q)] [(0%nat, 1%Q)] [(2%nat, 1%Q)]).
  - vm_compute. lia.
  - vm_compute. left. reflexivity.
  - vm_compute. right. left. reflexivity.
  - vm_compute. reflexivity.
Qed.

(** a composite with no weight left and a sample whose value is the leaf expression 0 *)
Lemma free_value_of_zero_function_refute s F x g :
  (F < nfun s)%nat -> f_leaf (getf s F) = false -> f_w (getf s F) = [] ->
  In (x, g, [(KF 0, 1%Q)]) (f_pts (getf s F)) -> ~ inv s.
Proof.
  intros HF Hl HW Hin Hinv.
  destruct (ig_I3 noP s Hinv F _ HF Hl Hin) as [[]|(ch & _ & _ & HsV)].
  rewrite HW in HsV. specialize (HsV R1 (fun _ => 0) phi01).
  unfold vof in HsV; cbn in HsV. unfold Q2R in HsV; cbn in HsV. lra.
Qed.

Lemma refuted_all_cancel : ops_scoped ops_all_cancel = true /\ ~ inv (run ops_all_cancel).
Proof.
  split; [vm_compute; reflexivity|].
  apply (free_value_of_zero_function_refute _ 1%nat [(0%nat, 1%Q)] []).
  - vm_compute. lia.
  - vm_compute. reflexivity.
  - vm_compute. reflexivity.
  - vm_compute. left. reflexivity.
Qed.

Lemma refuted_zero_scaling : ops_scoped ops_zero_scaling = true /\ ~ inv (run ops_zero_scaling).
Proof.
  split; [vm_compute; reflexivity|].
  apply (free_value_of_zero_function_refute _ 1%nat [(0%nat, 1%Q)] [(1%nat, 1%Q)]).
  - vm_compute. lia.
  - vm_compute. reflexivity.
  - vm_compute. reflexivity.
  - vm_compute. left. reflexivity.
Qed.

(** ** The invariant, clause by clause, in the vocabulary of the property *)

(** weighted combination of the chosen gradients, as a vector of the inner-product space *)
Definition wlin {E : ips} (rho : nat -> E) (W : wdict) (pick : nat -> pdict) : E :=
  lincomb (map (fun '(i, q) => (Q2R q, evalP rho (pick i))) W).
(** weighted combination of the chosen values *)
Definition wsum {E : ips} (rho : nat -> E) (phi : nat -> R) (W : wdict) (pick : nat -> edict) : R :=
  fold_right (fun '(i, q) acc => Q2R q * evalE rho phi (pick i) + acc) 0 W.

Lemma inner_wlin {E : ips} (rho : nat -> E) W pick w :
  inner (wlin rho W pick) w = dsum nat (fun i => ip rho w (pick i)) W.
Proof.
  unfold wlin. rewrite inner_lincomb_l.
  induction W as [|[i q] W IH]; cbn [map fold_right dsum]; [reflexivity|]. rewrite IH. reflexivity.
Qed.

Lemma wsum_dsum {E : ips} (rho : nat -> E) phi W pick :
  wsum rho phi W pick = dsum nat (fun i => evalE rho phi (pick i)) W.
Proof. induction W as [|[i q] W IH]; cbn [wsum fold_right dsum]; [reflexivity|]. fold (wsum rho phi W pick). rewrite IH. reflexivity. Qed.

Section Reading.
  Variable s : state.
  Hypothesis Hinv : inv s.

  (** I0 / "flat": a composite's weights are non-zero weights over distinct LEAF functions *)
  Lemma read_flat F :
    (F < nfun s)%nat -> f_leaf (getf s F) = false ->
    NoDup (keys (f_w (getf s F))) /\
    forall k q, In (k, q) (f_w (getf s F)) ->
      (k < nfun s)%nat /\ f_leaf (getf s k) = true /\ f_w (getf s k) = [(k, 1%Q)] /\ ~ (q == 0)%Q.
  Proof.
    intros HF Hl. destruct (ig_compw noP s Hinv F HF Hl) as (A & _ & C & D). split; [exact A|].
    intros k q Hin. destruct (D k q Hin) as [Hk Hkl]. repeat split; auto.
    - apply (ig_leafw noP s Hinv k Hk Hkl).
    - apply (allnz_In nat _ k q C Hin).
  Qed.

  (** I1: one value per point decomposition *)
  Lemma read_I1 f t1 t2 :
    (f < nfun s)%nat -> In t1 (f_pts (getf s f)) -> In t2 (f_pts (getf s f)) ->
    dict_eqb Nat.eqb (xof t1) (xof t2) = true ->
    forall (E : ips) (rho : nat -> E) (phi : nat -> R), evalE rho phi (vof t1) = evalE rho phi (vof t2).
  Proof. intros Hf H1 H2 He. exact (ig_I1 noP s Hinv f t1 t2 Hf H1 H2 He). Qed.

  (** I2: a differentiable function has one gradient per point decomposition *)
  Lemma read_I2 f t1 t2 :
    (f < nfun s)%nat -> f_reuse (getf s f) = true ->
    In t1 (f_pts (getf s f)) -> In t2 (f_pts (getf s f)) ->
    dict_eqb Nat.eqb (xof t1) (xof t2) = true ->
    forall (E : ips) (rho : nat -> E), veq (evalP rho (gof t1)) (evalP rho (gof t2)).
  Proof. intros Hf Hr H1 H2 He E rho w. exact (ig_I2 noP s Hinv f t1 t2 Hf Hr H1 H2 He E rho w). Qed.

  (** I3: every sample of a composite is the weighted sum of samples recorded AT THAT POINT for its terms *)
  Lemma read_I3 F t :
    (F < nfun s)%nat -> f_leaf (getf s F) = false -> In t (f_pts (getf s F)) ->
    exists ch : nat -> sample,
      (forall i q, In (i, q) (f_w (getf s F)) ->
         In (ch i) (f_pts (getf s i)) /\ dict_eqb Nat.eqb (xof (ch i)) (xof t) = true) /\
      forall (E : ips) (rho : nat -> E) (phi : nat -> R),
        veq (evalP rho (gof t)) (wlin rho (f_w (getf s F)) (fun i => gof (ch i))) /\
        evalE rho phi (vof t) = wsum rho phi (f_w (getf s F)) (fun i => vof (ch i)).
  Proof.
    intros HF Hl Ht. destruct (ig_I3 noP s Hinv F t HF Hl Ht) as [[]|(ch & Hc & HsG & HsV)].
    exists ch. split; [exact Hc|]. intros E rho phi. split.
    - intros w. rewrite inner_wlin. apply HsG.
    - rewrite wsum_dsum. apply HsV.
  Qed.

  (** I4: a stationary point of a composite: recorded, empty gradient, zero total gradient of the terms;
      of a leaf: recorded with the empty (zero) gradient *)
  Lemma read_I4 F t :
    (F < nfun s)%nat -> In t (f_stat (getf s F)) ->
    In t (f_pts (getf s F)) /\ gof t = [] /\
    (f_leaf (getf s F) = false ->
     exists ch : nat -> sample,
       (forall i q, In (i, q) (f_w (getf s F)) ->
          In (ch i) (f_pts (getf s i)) /\ dict_eqb Nat.eqb (xof (ch i)) (xof t) = true) /\
       forall (E : ips) (rho : nat -> E), veq (wlin rho (f_w (getf s F)) (fun i => gof (ch i))) vzero).
  Proof.
    intros HF Ht. destruct (ig_stat noP s Hinv F t HF Ht) as [Hin Hg]. split; [exact Hin|]. split; [exact Hg|].
    intros Hl. destruct (read_I3 F t HF Hl Hin) as (ch & Hc & Hs). exists ch. split; [exact Hc|].
    intros E rho w. destruct (Hs E rho (fun _ => 0)) as [HG _]. rewrite <- HG, Hg. cbn.
    rewrite !inner_zero_l. reflexivity.
  Qed.

  (** I5: recorded decompositions are in normal form, and the lookup cannot tell apart two points with
      equal decompositions *)
  Lemma read_I5 f p p' :
    (f < nfun s)%nat -> pND p -> pND p' -> dict_eqb Nat.eqb p p' = true ->
    find_pt (f_pts (getf s f)) p = find_pt (f_pts (getf s f)) p' /\
    forall t, In t (f_pts (getf s f)) -> NoDup (keys (xof t)) /\ prune (xof t) = xof t.
  Proof.
    intros Hf Np Np' He. split.
    - apply find_pt_congr; auto. intros t Ht. apply (ig_samples noP s Hinv f t Hf Ht).
    - intros t Ht. destruct (ig_samples noP s Hinv f t Hf Ht) as (A & _ & _ & D & _). split; [exact A|].
      apply prune_id. exact D.
  Qed.

  (** I6: a sum declared differentiable only has differentiable terms *)
  Lemma read_I6 F :
    (F < nfun s)%nat -> f_leaf (getf s F) = false -> f_reuse (getf s F) = true ->
    forall k q, In (k, q) (f_w (getf s F)) -> f_reuse (getf s k) = true.
  Proof.
    intros HF Hl Hr k q Hin. pose proof (ig_I6 noP s Hinv F HF Hl Hr) as H. rewrite forallb_forall in H.
    apply (H (k, q) Hin).
  Qed.
End Reading.

(** lookup, independently of any state (the other half of I5) *)
Lemma lookup_exact pts x :
  match find_pt pts x with
  | Some (g, v) => exists x0, In (x0, g, v) pts /\ dict_eqb Nat.eqb x0 x = true
  | None => forall t, In t pts -> dict_eqb Nat.eqb (xof t) x = false
  end.
Proof.
  destruct (find_pt pts x) as [[g v]|] eqn:H.
  - apply find_pt_Some. exact H.
  - apply find_pt_None. exact H.
Qed.

(** ** What the calls return: a sample recorded for the function at (a point equal to) the query *)
Lemma nfun_leaf_oracle s i x : nfun (fst (leaf_oracle s i x)) = nfun s.
Proof.
  unfold leaf_oracle. destruct (find_pt (f_pts (getf s i)) x) as [[g v]|]; [destruct (f_reuse (getf s i))|];
    cbn [fst fresh_pt fresh_ex]; rewrite ?nfun_record; reflexivity.
Qed.

Lemma leaf_oracle_mono s i x j t :
  In t (f_pts (getf s j)) -> In t (f_pts (getf (fst (leaf_oracle s i x)) j)).
Proof.
  intros H. unfold leaf_oracle. destruct (find_pt (f_pts (getf s i)) x) as [[g v]|]; [destruct (f_reuse (getf s i))|];
    cbn [fst fresh_pt fresh_ex]; try exact H; apply pts_record_mono; exact H.
Qed.

Lemma nfun_leaf_value s i x : nfun (fst (leaf_value s i x)) = nfun s.
Proof.
  unfold leaf_value. destruct (find_pt (f_pts (getf s i)) x) as [[g v]|]; [reflexivity|].
  pose proof (nfun_leaf_oracle s i x) as H. destruct (leaf_oracle s i x) as [s' [g v]]. exact H.
Qed.

Lemma nfun_sum_values x : forall W s acc, nfun (fst (sum_values s W x acc)) = nfun s.
Proof.
  induction W as [|[i q] W IH]; intros s acc; cbn [sum_values]; [reflexivity|].
  pose proof (nfun_leaf_value s i x) as H. destruct (leaf_value s i x) as [s' v]. rewrite IH. exact H.
Qed.

Lemma nfun_sum_grads x : forall W s acc, nfun (fst (sum_grads s W x acc)) = nfun s.
Proof.
  induction W as [|[i q] W IH]; intros s acc; cbn [sum_grads]; [reflexivity|].
  pose proof (nfun_leaf_oracle s i x) as H. destruct (leaf_oracle s i x) as [s' [g v]]. rewrite IH. exact H.
Qed.

Lemma distribute_mono x : forall l s G V b j t,
  In t (f_pts (getf s j)) -> In t (f_pts (getf (distribute s x G V b l) j)).
Proof.
  induction l as [|[i q] l IH]; intros s G V b j t H; cbn [distribute]; [exact H|].
  destruct b as [|b].
  - apply IH. apply pts_record_mono. exact H.
  - pose proof (leaf_oracle_mono s i x j t H) as H'. destruct (leaf_oracle s i x) as [s' [g v]].
    apply IH. exact H'.
Qed.

Lemma comp_add_point_records s F x g v :
  (F < nfun s)%nat -> In (prune x, prune g, prune v) (f_pts (getf (comp_add_point s F (x, g, v)) F)).
Proof.
  intros HF. unfold comp_add_point. cbn [pruned_sample].
  set (s1 := record s F (x, g, v)).
  set (s2 := setf s1 F (fun r => mkF (f_leaf r) (f_reuse r) (prune (f_w r)) (f_pts r) (f_stat r))).
  assert (H2 : In (prune x, prune g, prune v) (f_pts (getf s2 F))).
  { unfold s2. rewrite getf_setf_eq by (unfold s1; rewrite nfun_record; exact HF). cbn [f_pts].
    unfold s1. rewrite pts_record_eq by exact HF. apply in_or_app. right. left. reflexivity. }
  destruct (classify s2 (f_w (getf s2 F)) (prune x)) as [[n go] gv].
  destruct (is_nil (go ++ gv)); [exact H2|]. apply distribute_mono. exact H2.
Qed.

Lemma oracle_returns_recorded s f p :
  (f < nfun s)%nat -> wfq s p ->
  let s' := fst (oracle s f p) in
  let g := fst (snd (oracle s f p)) in
  let v := snd (snd (oracle s f p)) in
  exists x0, In (x0, g, v) (f_pts (getf s' f)) /\ dict_eqb Nat.eqb x0 p = true.
Proof.
  intros Hf Hq. cbv zeta. unfold oracle. destruct (f_leaf (getf s f)).
  - destruct (leaf_oracle_spec s f p Hf Hq) as (_ & H & _). exact H.
  - pose proof (wfq_prune s p Hq) as Hpx. destruct Hq as (Np & _ & _).
    unfold comp_oracle.
    destruct (find_pt (f_pts (getf s f)) p) as [[g0 v0]|] eqn:Hfp.
    + destruct (f_reuse (getf s f)).
      * cbn [fst snd]. apply find_pt_Some. exact Hfp.
      * cbv zeta. destruct (classify s (f_w (getf s f)) p) as [[n go] gv].
        match goal with |- context [if ?c then sum_grads ?a ?b ?c' ?d else ?e] =>
          pose proof (nfun_sum_grads c' b a d) as Hn; destruct c end.
        -- destruct (sum_grads s (f_w (getf s f)) p []) as [s2 g]. cbn [fst snd] in *.
           exists (prune p). split; [apply comp_add_point_records; rewrite Hn; exact Hf|].
           rewrite Hpx. apply peqb_refl, Np.
        -- cbn [fresh_pt fst snd]. exists (prune p).
           split; [apply comp_add_point_records; exact Hf|]. rewrite Hpx. apply peqb_refl, Np.
    + cbv zeta. destruct (classify s (f_w (getf s f)) p) as [[n go] gv].
      assert (Hs1 : nfun (fst (if is_nil gv then sum_values s (f_w (getf s f)) p []
                              else let '(v', s'0) := fresh_ex s in (s'0, v'))) = nfun s).
      { destruct (is_nil gv); [apply nfun_sum_values|reflexivity]. }
      destruct (if is_nil gv then sum_values s (f_w (getf s f)) p []
                else let '(v', s'0) := fresh_ex s in (s'0, v')) as [s1 v]. cbn [fst] in Hs1.
      assert (Hs2 : nfun (fst (if is_nil gv && is_nil go then sum_grads s1 (f_w (getf s f)) p []
                              else let '(g', s'0) := fresh_pt s1 in (s'0, g'))) = nfun s).
      { destruct (is_nil gv && is_nil go); [rewrite nfun_sum_grads; exact Hs1|exact Hs1]. }
      destruct (if is_nil gv && is_nil go then sum_grads s1 (f_w (getf s f)) p []
                else let '(g', s'0) := fresh_pt s1 in (s'0, g')) as [s2 g]. cbn [fst snd] in *.
      exists (prune p). split; [apply comp_add_point_records; rewrite Hs2; exact Hf|].
      rewrite Hpx. apply peqb_refl, Np.
Qed.

(** [value] returns the value of a recorded sample at the query point; by I1 every other sample recorded
    there has the same value: "one value however often and through whichever route it is queried" *)
Lemma value_returns_recorded s f p :
  (f < nfun s)%nat -> wfq s p ->
  let s' := fst (value s f p) in
  let v := snd (value s f p) in
  exists x0 g, In (x0, g, v) (f_pts (getf s' f)) /\ dict_eqb Nat.eqb x0 p = true.
Proof.
  intros Hf Hq. cbv zeta. unfold value. destruct (find_pt (f_pts (getf s f)) p) as [[g0 v0]|] eqn:Hfp.
  - cbn [fst snd]. destruct (find_pt_Some _ _ _ _ Hfp) as (x0 & H1 & H2). exists x0, g0. auto.
  - pose proof (oracle_returns_recorded s f p Hf Hq) as H. cbv zeta in H.
    destruct (oracle s f p) as [s' [g v]]. cbn [fst snd] in *. destruct H as (x0 & H1 & H2). exists x0, g. auto.
Qed.

(** ** Lookup by raw dictionary = lookup by vector equality, for points in pruned normal form.
    [_is_already_evaluated_on_point] compares decomposition dictionaries.  For two dictionaries with unique
    keys and NO explicit zero coefficient this is the same as asking whether the two points are the same
    vector under every valuation of the leaf points in every inner-product space.  (Without the normal
    form it is not: [{y: 0}] and [{}] are the same vector and different dictionaries -- F-C07b.)  The
    normal-form hypothesis is discharged for recorded points by the invariant, for query points by the
    guard and, on the implementation, by the correspondence check (every Point handed to
    oracle / gradient / value / add_point has the decomposition [pt] of what was written). *)
Lemma dict_eqb_dsum (val : nat -> R) (a b : pdict) :
  pND a -> pND b -> dict_eqb Nat.eqb a b = true -> dsum nat val a = dsum nat val b.
Proof.
  intros Na Nb He.
  pose proof (proj1 (dict_eqb_char nat Nat.eqb nat_eqb_spec a b Na Nb) He) as Hc.
  rewrite (dsum_split nat Nat.eqb nat_eqb_spec val a b Na Nb).
  assert (Hf : filter (fun '(k, _) => negb (mem Nat.eqb k a)) b = []).
  { destruct (filter (fun '(k, _) => negb (mem Nat.eqb k a)) b) as [|[k v] l] eqn:Hfl; [reflexivity|exfalso].
    assert (Hin : In (k, v) (filter (fun '(k, _) => negb (mem Nat.eqb k a)) b)) by (rewrite Hfl; left; reflexivity).
    apply filter_In in Hin as [Hin Hm]. apply negb_true_iff in Hm.
    apply (In_lookup nat Nat.eqb nat_eqb_spec k v b Nb) in Hin. specialize (Hc k). rewrite Hin in Hc.
    unfold mem in Hm. destruct (lookup Nat.eqb k a); [discriminate|]. exact Hc. }
  rewrite Hf. cbn [dsum]. rewrite Rplus_0_r.
  assert (Hg : forall l, (forall k v, In (k, v) l -> In (k, v) a) ->
                 fold_right (fun '(k, _) acc => get nat Nat.eqb k b * val k + acc) 0 l = dsum nat val l).
  { induction l as [|[k v] l IH]; intros Hl; cbn [fold_right dsum]; [reflexivity|].
    rewrite IH by (intros k' v' H'; apply Hl; right; exact H'). f_equal. f_equal.
    pose proof (In_lookup nat Nat.eqb nat_eqb_spec k v a Na (Hl k v (or_introl eq_refl))) as Hla.
    specialize (Hc k). rewrite Hla in Hc. unfold get. destruct (lookup Nat.eqb k b) as [vb|]; [|contradiction].
    symmetry. apply Qeq_eqR. exact Hc. }
  symmetry. apply Hg. auto.
Qed.

Lemma ip_indicator (d : pdict) (k : nat) :
  pND d -> @ip R1 (fun j => if Nat.eqb j k then 1 else 0) 1 d = get nat Nat.eqb k d.
Proof.
  intros Nd. unfold ip. rewrite inner_evalP. unfold get.
  induction d as [|[j q] d IH]; cbn [dsum lookup]; [reflexivity|].
  destruct (NoDupKeys_cons_inv j q d Nd) as [Hni Nd'].
  rewrite (IH Nd'). cbn [inner R1]. destruct (Nat.eqb_spec k j) as [->|Hne].
  - rewrite Nat.eqb_refl.
    assert (Hl : lookup Nat.eqb j d = None) by (apply (lookup_None nat Nat.eqb nat_eqb_spec); exact Hni).
    rewrite Hl. lra.
  - destruct (Nat.eqb_spec j k) as [->|_]; [congruence|]. lra.
Qed.

Theorem lookup_is_vector_equality (a b : pdict) :
  pND a -> pND b -> allnz nat a = true -> allnz nat b = true ->
  (dict_eqb Nat.eqb a b = true <-> forall (E : ips) (rho : nat -> E), veq (evalP rho a) (evalP rho b)).
Proof.
  intros Na Nb Za Zb. split.
  - intros He E rho w. rewrite !inner_evalP. apply dict_eqb_dsum; assumption.
  - intros Hv. apply (dict_eqb_char nat Nat.eqb nat_eqb_spec a b Na Nb). intros k.
    pose proof (Hv R1 (fun j => if Nat.eqb j k then 1 else 0) 1) as Hk.
    change (@ip R1 (fun j => if Nat.eqb j k then 1 else 0) 1 a = @ip R1 (fun j => if Nat.eqb j k then 1 else 0) 1 b) in Hk.
    rewrite !ip_indicator in Hk by assumption. unfold get in Hk.
    destruct (lookup Nat.eqb k a) as [va|] eqn:Ha, (lookup Nat.eqb k b) as [vb|] eqn:Hb; unfold oeq.
    + apply eqR_Qeq. exact Hk.
    + exfalso. apply (lookup_Some_In nat Nat.eqb nat_eqb_spec) in Ha.
      apply (Q2R_nonzero va (allnz_In nat a k va Za Ha)). exact Hk.
    + exfalso. apply (lookup_Some_In nat Nat.eqb nat_eqb_spec) in Hb.
      apply (Q2R_nonzero vb (allnz_In nat b k vb Zb Hb)). symmetry. exact Hk.
    + exact I.
Qed.

(** [+] and [-] of the Point algebra return normal forms: no explicit zero, unique keys *)
Lemma pt_normal_form a b :
  allnz nat (pt (PAdd a b)) = true /\ allnz nat (pt (PSub a b)) = true /\
  pND (pt (PAdd a b)) /\ pND (pt (PSub a b)).
Proof.
  assert (W : forall t, pND (pt t)) by (intros t; apply compileP_wf; intros v; apply pND_single).
  split; [apply allnz_prune|]. split; [apply allnz_prune|]. split; apply W.
Qed.

(** ** leaves that are instances of the shipped classes *)
Lemma class_leaf_one_gradient :
  forall ops, ops_ok ops = true -> let s := run ops in
  forall (cls : String.string) (declared : bool) f t1 t2,
    (f < nfun s)%nat -> f_reuse (getf s f) = leaf_reuse cls declared ->
    class_forced cls = true \/ declared = true ->
    In t1 (f_pts (getf s f)) -> In t2 (f_pts (getf s f)) ->
    dict_eqb Nat.eqb (xof t1) (xof t2) = true ->
    forall (E : ips) (rho : nat -> E), veq (evalP rho (gof t1)) (evalP rho (gof t2)).
Proof.
  intros ops Hok s cls d f t1 t2 Hf Hr Hc H1 H2 He.
  apply (read_I2 (run ops) (inv_partial ops Hok) f t1 t2 Hf); auto.
  fold s. rewrite Hr. unfold leaf_reuse. destruct Hc as [-> | ->]; [reflexivity|apply orb_true_r].
Qed.
