(** Pair / single-point enumeration of the generic generators: which constraints are generated, for
    which pairs, how many times; where each table entry sits; and where every constraint of a whole
    plan run comes from ([run_plan_items_spec]). *)
From Coq Require Import List QArith Bool Arith Lia String Permutation.
From PV Require Import Model.Dict Model.Terms Model.ClassGen.
Import ListNotations.
Local Open Scope nat_scope.

(** * enumerate *)
Lemma enumerate_from_nth {A} (l : list A) k i a :
  In (i, a) (enumerate_from k l) <-> (k <= i /\ nth_error l (i - k) = Some a).
Proof.
  revert k. induction l as [|b l IH]; intros k; cbn [enumerate_from].
  - split; [intros []|]. intros [_ H]. destruct (i - k); discriminate.
  - cbn [In]. rewrite IH. split.
    + intros [H|[Hle H]].
      * injection H as <- <-. split; [lia|]. replace (k - k) with 0 by lia. reflexivity.
      * split; [lia|]. replace (i - k) with (S (i - S k)) by lia. exact H.
    + intros [Hle H]. destruct (Nat.eq_dec i k) as [->|Hne].
      * left. replace (k - k) with 0 in H by lia. cbn in H. injection H as ->. reflexivity.
      * right. split; [lia|]. replace (i - k) with (S (i - S k)) in H by lia. exact H.
Qed.

Lemma enumerate_nth {A} (l : list A) i a : In (i, a) (enumerate l) <-> nth_error l i = Some a.
Proof.
  unfold enumerate. rewrite enumerate_from_nth. replace (i - 0) with i by lia.
  split; [tauto|intros; split; [lia|assumption]].
Qed.

Lemma enumerate_from_length {A} (l : list A) k : List.length (enumerate_from k l) = List.length l.
Proof. revert k; induction l; intros; cbn; [reflexivity|rewrite IHl; reflexivity]. Qed.

Lemma enumerate_length {A} (l : list A) : List.length (enumerate l) = List.length l.
Proof. apply enumerate_from_length. Qed.

Lemma enumerate_from_nth_error {A} (l : list A) k i :
  nth_error (enumerate_from k l) i = option_map (fun a => (k + i, a)) (nth_error l i).
Proof.
  revert k i. induction l as [|b l IH]; intros k i; cbn [enumerate_from].
  - destruct i; reflexivity.
  - destruct i as [|i]; cbn [nth_error option_map].
    + replace (k + 0) with k by lia. reflexivity.
    + rewrite IH. replace (S k + i) with (k + S i) by lia. reflexivity.
Qed.

Lemma enumerate_nth_error {A} (l : list A) i :
  nth_error (enumerate l) i = option_map (fun a => (i, a)) (nth_error l i).
Proof. unfold enumerate. rewrite enumerate_from_nth_error. reflexivity. Qed.

Lemma map_fst_enumerate_from {A} (l : list A) k : map fst (enumerate_from k l) = seq k (List.length l).
Proof. revert k; induction l; intros; cbn; [reflexivity|rewrite IHl; reflexivity]. Qed.

Lemma map_snd_enumerate_from {A} (l : list A) k : map snd (enumerate_from k l) = l.
Proof. revert k; induction l; intros; cbn; [reflexivity|rewrite IHl; reflexivity]. Qed.

(** * grids of optional cells *)
Definition row_flat {A} (row : list (option A)) : list A :=
  flat_map (fun o => match o with Some a => [a] | None => [] end) row.

Lemma flatten_opts_cons {A} (r : list (option A)) rs : flatten_opts (r :: rs) = row_flat r ++ flatten_opts rs.
Proof. reflexivity. Qed.

Lemma in_flatten_opts {A} (rows : list (list (option A))) a :
  In a (flatten_opts rows) <-> exists row, In row rows /\ In (Some a) row.
Proof.
  unfold flatten_opts. rewrite in_flat_map. split.
  - intros [row [Hr H]]. exists row. split; [exact Hr|]. apply in_flat_map in H as [o [Ho H]].
    destruct o as [a'|]; [|destruct H]. destruct H as [->|[]]. exact Ho.
  - intros [row [Hr H]]. exists row. split; [exact Hr|]. apply in_flat_map. exists (Some a).
    split; [exact H|left; reflexivity].
Qed.

Lemma flatten_opts_grid {A B C} (p : A -> B -> bool) (g : A -> B -> C) l1 l2 :
  flatten_opts (map (fun a => map (fun b => if p a b then None else Some (g a b)) l2) l1)
  = map (fun ab => g (fst ab) (snd ab)) (filter (fun ab => negb (p (fst ab) (snd ab))) (list_prod l1 l2)).
Proof.
  unfold flatten_opts. induction l1 as [|a l1 IH]; cbn [map flat_map list_prod]; [reflexivity|].
  rewrite filter_app, map_app, IH. f_equal.
  clear IH. induction l2 as [|b l2 IH2]; cbn; [reflexivity|].
  destruct (p a b); cbn; rewrite IH2; reflexivity.
Qed.

Lemma map_list_prod {A B A' B'} (f : A -> A') (g : B -> B') l1 l2 :
  map (fun ab => (f (fst ab), g (snd ab))) (list_prod l1 l2) = list_prod (map f l1) (map g l2).
Proof.
  induction l1 as [|a l1 IH]; cbn; [reflexivity|].
  rewrite map_app, IH, !map_map. reflexivity.
Qed.

Lemma NoDup_app_intro {A} (l1 l2 : list A) :
  NoDup l1 -> NoDup l2 -> (forall a, In a l1 -> ~ In a l2) -> NoDup (l1 ++ l2).
Proof.
  intros H1 H2 Hd. induction H1 as [|a l1 Hna H1 IH]; cbn; [exact H2|].
  constructor.
  - rewrite in_app_iff. intros [H|H]; [contradiction|]. apply (Hd a); [left; reflexivity|exact H].
  - apply IH. intros b Hb. apply Hd. right. exact Hb.
Qed.

Lemma NoDup_list_prod {A B} (l1 : list A) (l2 : list B) : NoDup l1 -> NoDup l2 -> NoDup (list_prod l1 l2).
Proof.
  intros H1 H2. induction H1 as [|a l1 Hna H1 IH]; cbn; [constructor|].
  apply NoDup_app_intro; [|exact IH|].
  - clear -H2. induction H2 as [|b l2 Hnb H2 IH]; cbn; constructor; [|exact IH].
    intros Hin. apply in_map_iff in Hin as [y [Hy Hin]]. injection Hy as ->. contradiction.
  - intros [x y] Hin Hin2. apply in_map_iff in Hin as [y' [Hy _]]. injection Hy as <- <-.
    apply in_prod_iff in Hin2 as [Hin2 _]. contradiction.
Qed.

Lemma NoDup_map_filter_local {A B} (f : A -> B) (p : A -> bool) l :
  NoDup (map f l) -> NoDup (map f (filter p l)).
Proof.
  induction l as [|a l IH]; cbn; [intros; constructor|]. intros H. inversion H as [|? ? Hna Hnd]; subst.
  destruct (p a); cbn; [constructor|]; auto.
  intros Hin. apply Hna. apply in_map_iff in Hin as [x [Hx Hin]]. apply filter_In in Hin as [Hin _].
  apply in_map_iff. exists x. auto.
Qed.

(** * which ordered pairs get a constraint *)
Definition pair_selected (sym : bool) (i j : nat) (si sj : sample) : Prop :=
  s_uid si <> s_uid sj /\ (sym = true -> i <= j).

Lemma skip_pair_false sym i j si sj : skip_pair sym i j si sj = false <-> pair_selected sym i j si sj.
Proof.
  unfold skip_pair, pair_selected. rewrite orb_false_iff, andb_false_iff, Nat.eqb_neq, Nat.ltb_ge.
  destruct sym; split; intros H.
  - destruct H as [H1 [H2|H2]]; [|discriminate]. split; [exact H1|]. intros _. exact H2.
  - destruct H as [H1 H2]. split; [exact H1|]. left. exact (H2 eq_refl).
  - split; [tauto|discriminate].
  - split; [tauto|right; reflexivity].
Qed.

Definition ipair := (nat * sample)%type.
Definition pskip (sym : bool) (a b : ipair) : bool := skip_pair sym (fst a) (fst b) (snd a) (snd b).
Definition pcitem (st : fstate) (cname : string) (f : cterm) (a b : ipair) : citem :=
  mkC (Some (pair_name st cname (snd a) (snd b) (fst a) (fst b))) (inst st f (snd a) (snd b)).

(** the selected (position, sample) pairs in generation order *)
Definition sel_pairs (sym : bool) (l1 l2 : list sample) : list (ipair * ipair) :=
  filter (fun ab => negb (pskip sym (fst ab) (snd ab))) (list_prod (enumerate l1) (enumerate l2)).

Lemma gen_pairs_eq st l1 l2 cname f sym :
  gen_pairs st l1 l2 cname f sym
  = map (fun a => map (fun b => if pskip sym a b then None else Some (pcitem st cname f a b)) (enumerate l2))
        (enumerate l1).
Proof.
  unfold gen_pairs. apply map_ext. intros [i si]. apply map_ext. intros [j sj]. reflexivity.
Qed.

(** the constraints appended to list_of_class_constraints are, in order, the images of the selected
    pairs: one constraint per selected pair ... *)
Theorem gen_pairs_flat st l1 l2 cname f sym :
  flatten_opts (gen_pairs st l1 l2 cname f sym)
  = map (fun ab => pcitem st cname f (fst ab) (snd ab)) (sel_pairs sym l1 l2).
Proof. rewrite gen_pairs_eq. apply flatten_opts_grid. Qed.

(** ... the selected pairs are exactly the pairs of positions (i, j) that are not skipped ... *)
Theorem sel_pairs_In sym l1 l2 i si j sj :
  In ((i, si), (j, sj)) (sel_pairs sym l1 l2) <->
  nth_error l1 i = Some si /\ nth_error l2 j = Some sj /\ pair_selected sym i j si sj.
Proof.
  unfold sel_pairs. rewrite filter_In, in_prod_iff, !enumerate_nth. cbn [fst snd]. unfold pskip. cbn [fst snd].
  rewrite negb_true_iff, skip_pair_false. tauto.
Qed.

(** ... and no pair of positions occurs twice. *)
Theorem sel_pairs_NoDup sym l1 l2 :
  NoDup (map (fun ab => (fst (fst ab), fst (snd ab))) (sel_pairs sym l1 l2)).
Proof.
  unfold sel_pairs. apply NoDup_map_filter_local.
  rewrite (map_list_prod fst fst). unfold enumerate. rewrite !map_fst_enumerate_from.
  apply NoDup_list_prod; apply seq_NoDup.
Qed.

(** Soundness and completeness of the pair enumeration: a constraint is generated exactly for the
    selected pairs (i,j) of positions, and it is the formula instantiated on these two samples. *)
Theorem gen_pairs_spec st l1 l2 cname f sym c :
  In c (flatten_opts (gen_pairs st l1 l2 cname f sym)) <->
  exists i j si sj, nth_error l1 i = Some si /\ nth_error l2 j = Some sj /\ pair_selected sym i j si sj /\
                    c = mkC (Some (pair_name st cname si sj i j)) (inst st f si sj).
Proof.
  rewrite gen_pairs_flat, in_map_iff. split.
  - intros [[[i si] [j sj]] [<- Hin]]. apply sel_pairs_In in Hin. exists i, j, si, sj.
    unfold pcitem. cbn [fst snd]. tauto.
  - intros (i & j & si & sj & Hi & Hj & Hsel & ->). exists ((i, si), (j, sj)). split; [reflexivity|].
    apply sel_pairs_In. tauto.
Qed.

(** identities of the recorded triplets are pairwise distinct: position = identity *)
Lemma uid_inj (l : list sample) i j si sj :
  NoDup (map s_uid l) -> nth_error l i = Some si -> nth_error l j = Some sj -> s_uid si = s_uid sj -> i = j.
Proof.
  intros Hnd Hi Hj He.
  assert (Hlen : i < List.length (map s_uid l)).
  { rewrite map_length. apply nth_error_Some. rewrite Hi. discriminate. }
  apply (proj1 (NoDup_nth_error (map s_uid l)) Hnd i j Hlen).
  rewrite !nth_error_map, Hi, Hj. cbn. f_equal. exact He.
Qed.

(** the same list on both sides (distinct triplet objects): every ordered pair i <> j without the
    symmetry flag, every unordered pair i < j with it *)
Theorem pair_selected_same_list (l : list sample) sym i j si sj :
  NoDup (map s_uid l) -> nth_error l i = Some si -> nth_error l j = Some sj ->
  (pair_selected sym i j si sj <-> i <> j /\ (sym = true -> i < j)).
Proof.
  intros Hnd Hi Hj. unfold pair_selected. split.
  - intros [Hu Hs]. assert (Hne : i <> j).
    { intros ->. rewrite Hi in Hj. injection Hj as ->. apply Hu. reflexivity. }
    split; [exact Hne|]. intros Ht. specialize (Hs Ht). lia.
  - intros [Hne Hs]. split.
    + intros He. apply Hne. exact (uid_inj l i j si sj Hnd Hi Hj He).
    + intros Ht. specialize (Hs Ht). lia.
Qed.

(** * tables *)
Theorem gen_pairs_table st l1 l2 cname f sym i j si sj :
  nth_error l1 i = Some si -> nth_error l2 j = Some sj ->
  exists row, nth_error (gen_pairs st l1 l2 cname f sym) i = Some row /\
    nth_error row j =
    Some (if skip_pair sym i j si sj then None
          else Some (mkC (Some (pair_name st cname si sj i j)) (inst st f si sj))).
Proof.
  intros Hi Hj. unfold gen_pairs.
  eexists. split.
  - rewrite nth_error_map, enumerate_nth_error, Hi. cbn. reflexivity.
  - rewrite nth_error_map, enumerate_nth_error, Hj. cbn. reflexivity.
Qed.

Theorem gen_pairs_shape st l1 l2 cname f sym :
  List.length (gen_pairs st l1 l2 cname f sym) = List.length l1 /\
  forall row, In row (gen_pairs st l1 l2 cname f sym) -> List.length row = List.length l2.
Proof.
  unfold gen_pairs. split.
  - rewrite map_length. apply enumerate_length.
  - intros row H. apply in_map_iff in H as [[i si] [<- _]]. rewrite map_length. apply enumerate_length.
Qed.

(** numbering of the cells: cell contents are kept, [None] stays [None], and the number attached to
    a [Some] cell is the position of its content in the flat (row-major) list, shifted by [off] *)
Lemma row_flat_Some {A} (a : A) r : row_flat (Some a :: r) = a :: row_flat r.
Proof. reflexivity. Qed.
Lemma row_flat_None {A} (r : list (option A)) : row_flat (None :: r) = row_flat r.
Proof. reflexivity. Qed.

Lemma number_row_cell {A} (row : list (option A)) off :
  snd (number_row off row) = off + List.length (row_flat row) /\
  List.length (fst (number_row off row)) = List.length row /\
  forall j, match nth_error row j with
       | None => nth_error (fst (number_row off row)) j = None
       | Some None => nth_error (fst (number_row off row)) j = Some None
       | Some (Some a) => exists p, nth_error (fst (number_row off row)) j = Some (Some (p, a)) /\ off <= p /\
                                    nth_error (row_flat row) (p - off) = Some a
       end.
Proof.
  revert off. induction row as [|o row IH]; intros off.
  - cbn. split; [lia|]. split; [reflexivity|]. intros j. destruct j; reflexivity.
  - destruct o as [a|]; cbn [number_row].
    + specialize (IH (S off)). destruct (number_row (S off) row) as [r' n] eqn:E. cbn [fst snd] in *.
      destruct IH as (Hn & Hl & Hc). rewrite row_flat_Some. cbn [List.length].
      split; [lia|]. split; [lia|].
      intros [|j]; cbn [nth_error].
      * exists off. split; [reflexivity|]. split; [lia|]. replace (off - off) with 0 by lia. reflexivity.
      * specialize (Hc j). destruct (nth_error row j) as [[b|]|]; [|exact Hc|exact Hc].
        destruct Hc as (p & Hp & Hle & Hnth). exists p. split; [exact Hp|]. split; [lia|].
        replace (p - off) with (S (p - S off)) by lia. exact Hnth.
    + specialize (IH off). destruct (number_row off row) as [r' n] eqn:E. cbn [fst snd] in *.
      destruct IH as (Hn & Hl & Hc). rewrite row_flat_None. cbn [List.length].
      split; [exact Hn|]. split; [lia|].
      intros [|j]; cbn [nth_error]; [reflexivity|]. exact (Hc j).
Qed.

Theorem number_rows_cell {A} (rows : list (list (option A))) off i row :
  nth_error rows i = Some row ->
  exists nrow, nth_error (number_rows off rows) i = Some nrow /\ List.length nrow = List.length row /\
    forall j, match nth_error row j with
         | None => nth_error nrow j = None
         | Some None => nth_error nrow j = Some None
         | Some (Some a) => exists p, nth_error nrow j = Some (Some (p, a)) /\ off <= p /\
                                      nth_error (flatten_opts rows) (p - off) = Some a
         end.
Proof.
  revert off i. induction rows as [|r rows IH]; intros off i Hi; [destruct i; discriminate|].
  cbn [number_rows]. pose proof (number_row_cell r off) as Hr.
  destruct (number_row off r) as [r' n] eqn:E. cbn [fst snd] in Hr. destruct Hr as (Hn & Hl & Hc).
  destruct i as [|i]; cbn [nth_error] in *.
  - injection Hi as <-. exists r'. split; [reflexivity|]. split; [exact Hl|]. intros j. specialize (Hc j).
    destruct (nth_error r j) as [[a|]|]; [|exact Hc|exact Hc].
    destruct Hc as (p & Hp & Hle & Hnth). exists p. split; [exact Hp|]. split; [exact Hle|].
    rewrite flatten_opts_cons, nth_error_app1; [exact Hnth|]. apply nth_error_Some. rewrite Hnth. discriminate.
  - destruct (IH n i Hi) as (nrow & Hnr & Hlen & Hcells). exists nrow. split; [exact Hnr|]. split; [exact Hlen|].
    intros j. specialize (Hcells j). destruct (nth_error row j) as [[a|]|]; [|exact Hcells|exact Hcells].
    destruct Hcells as (p & Hp & Hle & Hnth). exists p. split; [exact Hp|]. split; [lia|].
    rewrite flatten_opts_cons, nth_error_app2 by lia.
    replace (p - off - List.length (row_flat r)) with (p - n) by lia. exact Hnth.
Qed.

Lemma number_rows_length {A} (rows : list (list (option A))) off :
  List.length (number_rows off rows) = List.length rows.
Proof.
  revert off. induction rows as [|r rows IH]; intros off; [reflexivity|]. cbn [number_rows].
  destruct (number_row off r) as [r' n]. cbn. rewrite IH. reflexivity.
Qed.

(** * single-point conditions *)
Theorem gen_singles_spec st l cname f c :
  In c (gen_singles st l cname f) <->
  exists i si, nth_error l i = Some si /\ c = mkC (Some (single_name st cname si i)) (inst st f si si).
Proof.
  unfold gen_singles. rewrite in_map_iff. split.
  - intros [[i si] [<- Hi]]. apply enumerate_nth in Hi. exists i, si. auto.
  - intros (i & si & Hi & ->). exists (i, si). split; [reflexivity|apply enumerate_nth; exact Hi].
Qed.

Theorem gen_singles_nth st l cname f i si :
  nth_error l i = Some si ->
  nth_error (gen_singles st l cname f) i = Some (mkC (Some (single_name st cname si i)) (inst st f si si)).
Proof.
  intros Hi. unfold gen_singles. rewrite nth_error_map, enumerate_nth_error, Hi. reflexivity.
Qed.

Lemma gen_singles_length st l cname f : List.length (gen_singles st l cname f) = List.length l.
Proof. unfold gen_singles. rewrite map_length. apply enumerate_length. Qed.

Lemma row_flat_map_Some {A} (l : list A) : row_flat (map Some l) = l.
Proof. induction l; cbn; [reflexivity|]. unfold row_flat in IHl. rewrite IHl. reflexivity. Qed.

Lemma flatten_opts_single {A} (l : list A) : flatten_opts [map Some l] = l.
Proof. unfold flatten_opts. cbn. rewrite app_nil_r. apply row_flat_map_Some. Qed.

(** * what one plan item contributes *)
Fixpoint item_cons (st : fstate) (it : plan_item) : list citem :=
  match it with
  | Pairs l1 l2 cname f sym => flatten_opts (gen_pairs st (get_list st l1) (get_list st l2) cname f sym)
  | Singles l cname f => gen_singles st (get_list st l) cname f
  | Guarded g it' => if guard_true st g then item_cons st it' else []
  | AutoStationary => []
  | LMI _ _ => []
  | BlockPairs cprefix f => gen_block_flat st cprefix f (f_points st)
  end.

Fixpoint item_lmis (st : fstate) (it : plan_item) : list (list (list edict)) :=
  match it with
  | LMI l entry => [map (fun si => map (fun sj => instX st entry si sj) (get_list st l)) (get_list st l)]
  | Guarded g it' => if guard_true st g then item_lmis st it' else []
  | _ => []
  end.

Fixpoint item_tables (st : fstate) (off : nat) (it : plan_item) : list table :=
  match it with
  | Pairs l1 l2 cname f sym =>
      match get_list st l1 with
      | [] => []
      | _ => [mkT cname (number_rows off (gen_pairs st (get_list st l1) (get_list st l2) cname f sym))
                  (labels (get_list st l1)) (labels (get_list st l2)) ("IC_" ++ f_id st)]
      end
  | Singles l cname f =>
      [mkT cname (number_rows off [map Some (gen_singles st (get_list st l) cname f)])
           ["0"%string] (labels (get_list st l)) ("IC_" ++ f_id st)]
  | Guarded g it' => if guard_true st g then item_tables st off it' else []
  | BlockPairs cprefix f =>
      match f_points st with
      | [] => []
      | _ => map (block_table st cprefix f (f_points st) off) (seq 0 (f_nblocks st))
      end
  | _ => []
  end.

Fixpoint item_state (st : fstate) (it : plan_item) : fstate :=
  match it with
  | Guarded g it' => if guard_true st g then item_state st it' else st
  | AutoStationary => match f_stat st with [] => auto_stationary st | _ => st end
  | _ => st
  end.

Lemma genout_eta o : o = mkG (g_cons o ++ []) (g_lmis o ++ []) (g_tables o ++ []) (g_state o).
Proof. destruct o. cbn. rewrite !app_nil_r. reflexivity. Qed.

Lemma run_item_eq it o :
  run_item it o = mkG (g_cons o ++ item_cons (g_state o) it) (g_lmis o ++ item_lmis (g_state o) it)
                      (g_tables o ++ item_tables (g_state o) (List.length (g_cons o)) it)
                      (item_state (g_state o) it).
Proof.
  induction it as [l1 l2 cname f sym|l cname f|g it IH| |l entry|cprefix f]; cbn [run_item item_cons item_lmis item_tables item_state].
  - unfold append_out. rewrite app_nil_r. reflexivity.
  - unfold append_out. rewrite app_nil_r. reflexivity.
  - destruct (guard_true (g_state o) g); [exact IH|apply genout_eta].
  - rewrite !app_nil_r. destruct (f_stat (g_state o)); [reflexivity|destruct o; reflexivity].
  - unfold append_out. rewrite !app_nil_r. reflexivity.
  - unfold append_out. rewrite app_nil_r. reflexivity.
Qed.

(** where a constraint contributed by an item comes from *)
Fixpoint item_src (st : fstate) (it : plan_item) (c : citem) : Prop :=
  match it with
  | Pairs l1 l2 cname f sym =>
      exists i j si sj, nth_error (get_list st l1) i = Some si /\ nth_error (get_list st l2) j = Some sj /\
                        pair_selected sym i j si sj /\
                        c = mkC (Some (pair_name st cname si sj i j)) (inst st f si sj)
  | Singles l cname f =>
      exists i si, nth_error (get_list st l) i = Some si /\
                   c = mkC (Some (single_name st cname si i)) (inst st f si si)
  | Guarded g it' => guard_true st g = true /\ item_src st it' c
  | AutoStationary => False
  | LMI _ _ => False
  | BlockPairs cprefix f =>
      exists i j k si sj, nth_error (f_points st) i = Some si /\ nth_error (f_points st) j = Some sj /\
                          same_tuple si sj = false /\ k < f_nblocks st /\
                          c = mkC (Some (block_name st cprefix k si sj i j)) (instB st f k si sj)
  end.

Fixpoint item_lmi_src (st : fstate) (it : plan_item) (m : list (list edict)) : Prop :=
  match it with
  | LMI l entry => m = map (fun si => map (fun sj => instX st entry si sj) (get_list st l)) (get_list st l)
  | Guarded g it' => guard_true st g = true /\ item_lmi_src st it' m
  | _ => False
  end.

Lemma block_grid_In (l : list sample) q :
  In q (flatten_opts (block_grid l)) <->
  exists i j si sj, q = (i, si, j, sj) /\ nth_error l i = Some si /\ nth_error l j = Some sj /\
                    same_tuple si sj = false.
Proof.
  rewrite in_flatten_opts. unfold block_grid. split.
  - intros [row [Hrow Hin]]. apply in_map_iff in Hrow as [[i si] [<- Hi]].
    apply in_map_iff in Hin as [[j sj] [Heq Hj]]. apply enumerate_nth in Hi. apply enumerate_nth in Hj.
    destruct (same_tuple si sj) eqn:Hs; [discriminate|]. injection Heq as <-. exists i, j, si, sj. auto.
  - intros (i & j & si & sj & -> & Hi & Hj & Hs). eexists. split.
    + apply in_map_iff. exists (i, si). split; [reflexivity|apply enumerate_nth; exact Hi].
    + apply in_map_iff. exists (j, sj). split; [|apply enumerate_nth; exact Hj]. rewrite Hs. reflexivity.
Qed.

Theorem gen_block_spec st cprefix f l c :
  In c (gen_block_flat st cprefix f l) <->
  exists i j k si sj, nth_error l i = Some si /\ nth_error l j = Some sj /\ same_tuple si sj = false /\
                      k < f_nblocks st /\
                      c = mkC (Some (block_name st cprefix k si sj i j)) (instB st f k si sj).
Proof.
  unfold gen_block_flat. rewrite in_flat_map. split.
  - intros [q [Hq Hin]]. apply block_grid_In in Hq as (i & j & si & sj & -> & Hi & Hj & Hs).
    apply in_map_iff in Hin as [k [<- Hk]]. apply in_seq in Hk. exists i, j, k, si, sj.
    repeat split; try assumption; lia.
  - intros (i & j & k & si & sj & Hi & Hj & Hs & Hk & ->). exists (i, si, j, sj). split.
    + apply block_grid_In. exists i, j, si, sj. auto.
    + apply in_map_iff. exists k. split; [reflexivity|]. apply in_seq. lia.
Qed.

Theorem item_cons_spec st it c : In c (item_cons st it) <-> item_src st it c.
Proof.
  induction it as [l1 l2 cname f sym|l cname f|g it IH| |l entry|cprefix f]; cbn [item_cons item_src].
  - apply gen_pairs_spec.
  - apply gen_singles_spec.
  - destruct (guard_true st g); [rewrite IH; tauto|]. split; [intros []|intros [H _]; discriminate].
  - tauto.
  - tauto.
  - apply gen_block_spec.
Qed.

Theorem item_lmis_spec st it m : In m (item_lmis st it) <-> item_lmi_src st it m.
Proof.
  induction it as [l1 l2 cname f sym|l cname f|g it IH| |l entry|cprefix f]; cbn [item_lmis item_lmi_src In]; try tauto.
  - destruct (guard_true st g); [rewrite IH; tauto|]. split; [intros []|intros [H _]; discriminate].
  - split; [intros [H|[]]; auto|intros ->; left; reflexivity].
Qed.

(** * whole plans *)
Definition run_items (plan : list plan_item) (o : genout) : genout := fold_left (fun o it => run_item it o) plan o.

Lemma run_plan_run_items plan st : run_plan plan st = run_items plan (mkG [] [] [] st).
Proof. reflexivity. Qed.

Lemma run_items_app p1 p2 o : run_items (p1 ++ p2) o = run_items p2 (run_items p1 o).
Proof. unfold run_items. apply fold_left_app. Qed.

Lemma run_items_cons_prefix plan o : exists cs, g_cons (run_items plan o) = g_cons o ++ cs.
Proof.
  revert o. induction plan as [|it plan IH]; intros o; [exists []; cbn; rewrite app_nil_r; reflexivity|].
  cbn [run_items fold_left]. destruct (IH (run_item it o)) as [cs Hcs]. unfold run_items in Hcs. rewrite Hcs.
  rewrite run_item_eq. cbn [g_cons]. rewrite <- app_assoc. eexists. reflexivity.
Qed.

Theorem run_items_cons plan o c :
  In c (g_cons (run_items plan o)) <->
  In c (g_cons o) \/ exists pre it post, plan = pre ++ it :: post /\ item_src (g_state (run_items pre o)) it c.
Proof.
  revert o. induction plan as [|it plan IH]; intros o.
  - cbn. split; [auto|]. intros [H|(pre & it & post & H & _)]; [exact H|]. destruct pre; discriminate.
  - change (run_items (it :: plan) o) with (run_items plan (run_item it o)). rewrite IH.
    rewrite (run_item_eq it o) at 1. cbn [g_cons]. rewrite in_app_iff, item_cons_spec. split.
    + intros [[H|H]|(pre & it' & post & -> & H)].
      * left. exact H.
      * right. exists [], it, plan. split; [reflexivity|exact H].
      * right. exists (it :: pre), it', post. split; [reflexivity|exact H].
    + intros [H|(pre & it' & post & Heq & H)]; [left; left; exact H|].
      destruct pre as [|it0 pre]; cbn in Heq; injection Heq as <- ->.
      * left. right. exact H.
      * right. exists pre, it', post. split; [reflexivity|exact H].
Qed.

Theorem run_items_lmis plan o m :
  In m (g_lmis (run_items plan o)) <->
  In m (g_lmis o) \/ exists pre it post, plan = pre ++ it :: post /\ item_lmi_src (g_state (run_items pre o)) it m.
Proof.
  revert o. induction plan as [|it plan IH]; intros o.
  - cbn. split; [auto|]. intros [H|(pre & it & post & H & _)]; [exact H|]. destruct pre; discriminate.
  - change (run_items (it :: plan) o) with (run_items plan (run_item it o)). rewrite IH.
    rewrite (run_item_eq it o) at 1. cbn [g_lmis]. rewrite in_app_iff, item_lmis_spec. split.
    + intros [[H|H]|(pre & it' & post & -> & H)].
      * left. exact H.
      * right. exists [], it, plan. split; [reflexivity|exact H].
      * right. exists (it :: pre), it', post. split; [reflexivity|exact H].
    + intros [H|(pre & it' & post & Heq & H)]; [left; left; exact H|].
      destruct pre as [|it0 pre]; cbn in Heq; injection Heq as <- ->.
      * left. right. exact H.
      * right. exists pre, it', post. split; [reflexivity|exact H].
Qed.

Theorem run_items_tables plan o t :
  In t (g_tables (run_items plan o)) <->
  In t (g_tables o) \/
  exists pre it post, plan = pre ++ it :: post /\
    In t (item_tables (g_state (run_items pre o)) (List.length (g_cons (run_items pre o))) it).
Proof.
  revert o. induction plan as [|it plan IH]; intros o.
  - cbn. split; [auto|]. intros [H|(pre & it & post & H & _)]; [exact H|]. destruct pre; discriminate.
  - change (run_items (it :: plan) o) with (run_items plan (run_item it o)). rewrite IH.
    rewrite (run_item_eq it o) at 1. cbn [g_tables]. rewrite in_app_iff. split.
    + intros [[H|H]|(pre & it' & post & -> & H)].
      * left. exact H.
      * right. exists [], it, plan. split; [reflexivity|exact H].
      * right. exists (it :: pre), it', post. split; [reflexivity|exact H].
    + intros [H|(pre & it' & post & Heq & H)]; [left; left; exact H|].
      destruct pre as [|it0 pre]; cbn in Heq; injection Heq as <- ->.
      * left. right. exact H.
      * right. exists pre, it', post. split; [reflexivity|exact H].
Qed.

(** Every constraint in list_of_class_constraints after set_class_constraints() comes from one item
    of the plan, instantiated on samples drawn from the function's lists in the state reached when
    that item runs (the state only changes through AutoStationary). *)
Theorem run_plan_items_spec plan st c :
  In c (g_cons (run_plan plan st)) <->
  exists pre it post, plan = pre ++ it :: post /\ item_src (g_state (run_plan pre st)) it c.
Proof. rewrite !run_plan_run_items, run_items_cons. cbn [g_cons In]. tauto. Qed.

Theorem run_plan_lmis_spec plan st m :
  In m (g_lmis (run_plan plan st)) <->
  exists pre it post, plan = pre ++ it :: post /\ item_lmi_src (g_state (run_plan pre st)) it m.
Proof. rewrite !run_plan_run_items, run_items_lmis. cbn [g_lmis In]. tauto. Qed.

(** plans in which the automatic stationary point can only be created by the first statement (all
    shipped plans): every item sees the same state *)
Fixpoint auto_free (it : plan_item) : bool :=
  match it with AutoStationary => false | Guarded _ it' => auto_free it' | _ => true end.

Definition auto_head_only (plan : list plan_item) : bool :=
  match plan with AutoStationary :: rest => forallb auto_free rest | _ => forallb auto_free plan end.

Definition start_state (plan : list plan_item) (st : fstate) : fstate :=
  match plan with AutoStationary :: _ => item_state st AutoStationary | _ => st end.

Lemma item_state_auto_free st it : auto_free it = true -> item_state st it = st.
Proof.
  induction it; cbn; try reflexivity; try discriminate. intros H. destruct (guard_true st g); auto.
Qed.

Lemma run_items_state_auto_free plan o : forallb auto_free plan = true -> g_state (run_items plan o) = g_state o.
Proof.
  revert o. induction plan as [|it plan IH]; intros o H; [reflexivity|]. cbn in H. apply andb_true_iff in H as [H1 H2].
  change (run_items (it :: plan) o) with (run_items plan (run_item it o)). rewrite IH by exact H2.
  rewrite run_item_eq. cbn [g_state]. apply item_state_auto_free. exact H1.
Qed.

Lemma forallb_app_l {A} (p : A -> bool) l1 l2 : forallb p (l1 ++ l2) = true -> forallb p l1 = true.
Proof. rewrite forallb_app. intros H. apply andb_true_iff in H. tauto. Qed.

Lemma run_plan_prefix_state plan st pre it post :
  auto_head_only plan = true -> plan = pre ++ it :: post -> auto_free it = true ->
  g_state (run_plan pre st) = start_state plan st.
Proof.
  intros Hh -> Hit. rewrite run_plan_run_items. destruct pre as [|it0 pre].
  - cbn. destruct it; try reflexivity. discriminate.
  - cbn [app] in *.
    assert (Hcases : it0 = AutoStationary \/
                     (auto_head_only (it0 :: pre ++ it :: post) = forallb auto_free ((it0 :: pre) ++ it :: post) /\
                      start_state (it0 :: pre ++ it :: post) st = st)).
    { destruct it0; auto. }
    destruct Hcases as [->|[E1 E2]].
    + cbn [auto_head_only start_state] in *.
      change (run_items (AutoStationary :: pre) (mkG [] [] [] st))
        with (run_items pre (run_item AutoStationary (mkG [] [] [] st))).
      rewrite run_items_state_auto_free by exact (forallb_app_l _ _ _ Hh).
      rewrite run_item_eq. reflexivity.
    + rewrite E1 in Hh. rewrite E2. rewrite run_items_state_auto_free; [reflexivity|exact (forallb_app_l _ _ _ Hh)].
Qed.

Lemma item_src_auto_free st it c : item_src st it c -> auto_free it = true.
Proof. induction it; cbn; try reflexivity; try tauto. Qed.

Lemma item_lmi_src_auto_free st it m : item_lmi_src st it m -> auto_free it = true.
Proof. induction it; cbn; try reflexivity; try tauto. Qed.

Theorem run_plan_items_spec_simple plan st c :
  auto_head_only plan = true ->
  (In c (g_cons (run_plan plan st)) <-> exists it, In it plan /\ item_src (start_state plan st) it c).
Proof.
  intros Hh. rewrite run_plan_items_spec. split.
  - intros (pre & it & post & Heq & Hsrc). exists it. split; [rewrite Heq; apply in_elt|].
    rewrite <- (run_plan_prefix_state plan st pre it post Hh Heq (item_src_auto_free _ _ _ Hsrc)). exact Hsrc.
  - intros (it & Hin & Hsrc). apply in_split in Hin as (pre & post & Heq). exists pre, it, post.
    split; [exact Heq|].
    rewrite (run_plan_prefix_state plan st pre it post Hh Heq (item_src_auto_free _ _ _ Hsrc)). exact Hsrc.
Qed.

Theorem run_plan_lmis_spec_simple plan st m :
  auto_head_only plan = true ->
  (In m (g_lmis (run_plan plan st)) <-> exists it, In it plan /\ item_lmi_src (start_state plan st) it m).
Proof.
  intros Hh. rewrite run_plan_lmis_spec. split.
  - intros (pre & it & post & Heq & Hsrc). exists it. split; [rewrite Heq; apply in_elt|].
    rewrite <- (run_plan_prefix_state plan st pre it post Hh Heq (item_lmi_src_auto_free _ _ _ Hsrc)). exact Hsrc.
  - intros (it & Hin & Hsrc). apply in_split in Hin as (pre & post & Heq). exists pre, it, post.
    split; [exact Heq|].
    rewrite (run_plan_prefix_state plan st pre it post Hh Heq (item_lmi_src_auto_free _ _ _ Hsrc)). exact Hsrc.
Qed.

Theorem run_plan_state plan st : auto_head_only plan = true -> g_state (run_plan plan st) = start_state plan st.
Proof.
  intros Hh. rewrite run_plan_run_items. destruct plan as [|it0 plan]; [reflexivity|].
  assert (Hcases : it0 = AutoStationary \/
                   (auto_head_only (it0 :: plan) = forallb auto_free (it0 :: plan) /\ start_state (it0 :: plan) st = st)).
  { destruct it0; auto. }
  destruct Hcases as [->|[E1 E2]].
  - cbn [auto_head_only start_state] in *.
    change (run_items (AutoStationary :: plan) (mkG [] [] [] st))
      with (run_items plan (run_item AutoStationary (mkG [] [] [] st))).
    rewrite run_items_state_auto_free by exact Hh. rewrite run_item_eq. reflexivity.
  - rewrite E1 in Hh. rewrite E2. rewrite run_items_state_auto_free; [reflexivity|exact Hh].
Qed.
