(** Pair / single-point enumeration of the generic generators: which constraints are generated, for
    which pairs, how many times; and where each table entry sits. *)
From Coq Require Import List QArith Bool Arith Lia String.
From PV Require Import Model.Dict Model.Terms Model.ClassGen.
Import ListNotations.
Local Open Scope nat_scope.

Lemma enumerate_from_nth {A} (l : list A) k i a :
  In (i, a) (enumerate_from k l) <-> (k <= i /\ nth_error l (i - k) = Some a).
Proof.
  revert k. induction l as [|b l IH]; intros k; cbn [enumerate_from].
  - split; [intros []|]. intros [_ H]. destruct (i - k); discriminate.
  - cbn [In]. rewrite IH. split.
    + intros [H|[Hle H]].
      * injection H as <- <-. split; [lia|]. replace (k - k) with 0 by lia. reflexivity.
      * split; [lia|]. replace (i - k) with (S (i - S k)) by lia. exact H.
    + intros [Hle H]. destruct (Nat.eq_dec i k) as [->|Hne].
      * left. replace (k - k) with 0 in H by lia. cbn in H. injection H as ->. reflexivity.
      * right. split; [lia|]. replace (i - k) with (S (i - S k)) in H by lia. exact H.
Qed.

Lemma enumerate_nth {A} (l : list A) i a : In (i, a) (enumerate l) <-> nth_error l i = Some a.
Proof.
  unfold enumerate. rewrite enumerate_from_nth. replace (i - 0) with i by lia.
  split; [tauto|intros; split; [lia|assumption]].
Qed.

Lemma enumerate_from_length {A} (l : list A) k : List.length (enumerate_from k l) = List.length l.
Proof. revert k; induction l; intros; cbn; [reflexivity|rewrite IHl; reflexivity]. Qed.

Lemma enumerate_from_nth_error {A} (l : list A) k i :
  nth_error (enumerate_from k l) i = option_map (fun a => (k + i, a)) (nth_error l i).
Proof.
  revert k i. induction l as [|b l IH]; intros k i; cbn [enumerate_from].
  - destruct i; reflexivity.
  - destruct i as [|i]; cbn [nth_error option_map].
    + replace (k + 0) with k by lia. reflexivity.
    + rewrite IH. replace (S k + i) with (k + S i) by lia. reflexivity.
Qed.

Lemma in_flatten_opts {A} (rows : list (list (option A))) a :
  In a (flatten_opts rows) <-> exists row, In row rows /\ In (Some a) row.
Proof.
  unfold flatten_opts. rewrite in_flat_map. split.
  - intros [row [Hr H]]. exists row. split; [exact Hr|]. apply in_flat_map in H as [o [Ho H]].
    destruct o as [a'|]; [|destruct H]. destruct H as [->|[]]. exact Ho.
  - intros [row [Hr H]]. exists row. split; [exact Hr|]. apply in_flat_map. exists (Some a).
    split; [exact H|left; reflexivity].
Qed.

Definition pair_name (st : fstate) (cname : string) (si sj : sample) (i j : nat) : string :=
  ("IC_" ++ f_id st ++ "_" ++ cname ++ "(" ++ point_id si i ++ ", " ++ point_id sj j ++ ")")%string.

(** which ordered pairs get a constraint *)
Definition pair_selected (sym : bool) (i j : nat) : Prop := i <> j /\ (sym = true -> i < j).

Lemma pair_selected_dec sym i j :
  (Nat.eqb i j || (Nat.ltb j i && sym)) = false <-> pair_selected sym i j.
Proof.
  unfold pair_selected. rewrite orb_false_iff, andb_false_iff, Nat.eqb_neq, Nat.ltb_ge.
  destruct sym; split; intros H.
  - destruct H as [H1 [H2|H2]]; [|discriminate]. split; [exact H1|]. intros _. lia.
  - destruct H as [H1 H2]. split; [exact H1|]. left. specialize (H2 eq_refl). lia.
  - split; [tauto|discriminate].
  - split; [tauto|right; reflexivity].
Qed.

(** Soundness and completeness of the pair enumeration: a constraint is generated exactly for the
    selected pairs (i,j) of positions, and it is the formula instantiated on these two samples. *)
Theorem gen_pairs_spec st l1 l2 cname f sym c :
  In c (flatten_opts (gen_pairs st l1 l2 cname f sym)) <->
  exists i j si sj, nth_error l1 i = Some si /\ nth_error l2 j = Some sj /\ pair_selected sym i j /\
                    c = mkC (Some (pair_name st cname si sj i j)) (inst st f si sj).
Proof.
  rewrite in_flatten_opts. unfold gen_pairs. split.
  - intros [row [Hrow Hin]]. apply in_map_iff in Hrow as [[i si] [<- Hi]].
    apply in_map_iff in Hin as [[j sj] [Heq Hj]].
    apply enumerate_nth in Hi. apply enumerate_nth in Hj.
    destruct (Nat.eqb i j || (Nat.ltb j i && sym)) eqn:Hsel; [discriminate|].
    injection Heq as <-. exists i, j, si, sj. apply pair_selected_dec in Hsel. auto.
  - intros (i & j & si & sj & Hi & Hj & Hsel & ->).
    eexists. split.
    + apply in_map_iff. exists (i, si). split; [reflexivity|]. apply enumerate_nth. exact Hi.
    + apply in_map_iff. exists (j, sj). split; [|apply enumerate_nth; exact Hj].
      apply pair_selected_dec in Hsel. rewrite Hsel. reflexivity.
Qed.

(** the table has one row per sample of list 1, one column per sample of list 2, and entry (i,j) is
    the constraint of that ordered pair, or None (rendered 0) where none is generated *)
Theorem gen_pairs_table st l1 l2 cname f sym i j si sj :
  nth_error l1 i = Some si -> nth_error l2 j = Some sj ->
  exists row, nth_error (gen_pairs st l1 l2 cname f sym) i = Some row /\
    nth_error row j =
    Some (if Nat.eqb i j || (Nat.ltb j i && sym) then None
          else Some (mkC (Some (pair_name st cname si sj i j)) (inst st f si sj))).
Proof.
  intros Hi Hj. unfold gen_pairs.
  eexists. split.
  - rewrite nth_error_map. unfold enumerate. rewrite enumerate_from_nth_error, Hi. cbn. reflexivity.
  - rewrite nth_error_map. unfold enumerate. rewrite enumerate_from_nth_error, Hj. cbn. reflexivity.
Qed.

Theorem gen_pairs_shape st l1 l2 cname f sym :
  List.length (gen_pairs st l1 l2 cname f sym) = List.length l1 /\
  forall row, In row (gen_pairs st l1 l2 cname f sym) -> List.length row = List.length l2.
Proof.
  unfold gen_pairs. split.
  - rewrite map_length. apply enumerate_from_length.
  - intros row H. apply in_map_iff in H as [[i si] [<- _]]. rewrite map_length. apply enumerate_from_length.
Qed.

(** number of generated constraints *)
Fixpoint count_sel (sym : bool) (i : nat) (js : list nat) : nat :=
  match js with
  | [] => 0
  | j :: js' => (if Nat.eqb i j || (Nat.ltb j i && sym) then 0 else 1) + count_sel sym i js'
  end.

Definition single_name (st : fstate) (cname : string) (si : sample) (i : nat) : string :=
  ("IC_" ++ f_id st ++ "_" ++ cname ++ "(" ++ point_id si i ++ ")")%string.

Theorem gen_singles_spec st l cname f c :
  In c (gen_singles st l cname f) <->
  exists i si, nth_error l i = Some si /\ c = mkC (Some (single_name st cname si i)) (inst st f si si).
Proof.
  unfold gen_singles. rewrite in_map_iff. split.
  - intros [[i si] [<- Hi]]. apply enumerate_nth in Hi. exists i, si. auto.
  - intros (i & si & Hi & ->). exists (i, si). split; [reflexivity|apply enumerate_nth; exact Hi].
Qed.

Theorem gen_singles_nth st l cname f i si :
  nth_error l i = Some si ->
  nth_error (gen_singles st l cname f) i = Some (mkC (Some (single_name st cname si i)) (inst st f si si)).
Proof.
  intros Hi. unfold gen_singles, enumerate. rewrite nth_error_map, enumerate_from_nth_error, Hi. reflexivity.
Qed.

(** exactly one constraint per selected pair: the number of generated constraints is the number of
    selected positions (together with [gen_pairs_spec]: none missing, none twice). *)
Definition sel_count (sym : bool) (i j : nat) : nat :=
  if Nat.eqb i j || (Nat.ltb j i && sym) then 0 else 1.

Lemma length_flat_map {A B} (f : A -> list B) l :
  List.length (flat_map f l) = list_sum (map (fun x => List.length (f x)) l).
Proof. induction l; cbn; [reflexivity|rewrite app_length, IHl; reflexivity]. Qed.

Lemma list_sum_enumerate {A} (g : nat -> nat) (l : list A) k :
  list_sum (map (fun '(i, _) => g i) (enumerate_from k l)) = list_sum (map g (seq k (List.length l))).
Proof. revert k; induction l as [|a l IH]; intros k; cbn; [reflexivity|rewrite IH; reflexivity]. Qed.

Theorem gen_pairs_count st l1 l2 cname f sym :
  List.length (flatten_opts (gen_pairs st l1 l2 cname f sym))
  = list_sum (map (fun i => list_sum (map (sel_count sym i) (seq 0 (List.length l2)))) (seq 0 (List.length l1))).
Proof.
  unfold flatten_opts, gen_pairs. rewrite length_flat_map, map_map.
  rewrite <- (list_sum_enumerate (fun i => list_sum (map (sel_count sym i) (seq 0 (List.length l2)))) l1 0).
  unfold enumerate. f_equal. apply map_ext. intros [i si].
  rewrite length_flat_map, map_map.
  rewrite <- (list_sum_enumerate (sel_count sym i) l2 0). f_equal. apply map_ext. intros [j sj].
  unfold sel_count. destruct (Nat.eqb i j || (Nat.ltb j i && sym)); reflexivity.
Qed.

(** closed forms when both lists are the same list of n samples *)
Lemma sel_count_nosym i j : sel_count false i j = if Nat.eqb i j then 0 else 1.
Proof. unfold sel_count. rewrite andb_false_r, orb_false_r. reflexivity. Qed.

Lemma row_count_nosym_gen i k m :
  list_sum (map (sel_count false i) (seq k m)) = m - (if (k <=? i) && (i <? k + m) then 1 else 0).
Proof.
  revert k. induction m as [|m IH]; intros k.
  - cbn. reflexivity.
  - change (seq k (S m)) with (k :: seq (S k) m). cbn [map list_sum]. rewrite IH, sel_count_nosym.
    destruct (Nat.eqb_spec i k) as [->|Hne].
    + replace ((S k <=? k) && (k <? S k + m)) with false
        by (symmetry; apply andb_false_iff; left; apply Nat.leb_gt; lia).
      replace ((k <=? k) && (k <? k + S m)) with true
        by (symmetry; apply andb_true_iff; split; [apply Nat.leb_le|apply Nat.ltb_lt]; lia).
      lia.
    + destruct ((S k <=? i) && (i <? S k + m)) eqn:Hc.
      * apply andb_true_iff in Hc as [H1 H2]. apply Nat.leb_le in H1. apply Nat.ltb_lt in H2.
        replace ((k <=? i) && (i <? k + S m)) with true
          by (symmetry; apply andb_true_iff; split; [apply Nat.leb_le|apply Nat.ltb_lt]; lia).
        lia.
      * replace ((k <=? i) && (i <? k + S m)) with false; [lia|].
        symmetry. apply andb_false_iff. apply andb_false_iff in Hc as [Hc|Hc].
        -- apply Nat.leb_gt in Hc. left. apply Nat.leb_gt. lia.
        -- apply Nat.ltb_ge in Hc. right. apply Nat.ltb_ge. lia.
Qed.

Lemma row_count_nosym n i : i < n -> list_sum (map (sel_count false i) (seq 0 n)) = n - 1.
Proof.
  intros Hi. rewrite row_count_nosym_gen.
  replace ((0 <=? i) && (i <? 0 + n)) with true; [reflexivity|].
  symmetry. apply andb_true_iff. split; [apply Nat.leb_le|apply Nat.ltb_lt]; lia.
Qed.

Theorem gen_pairs_count_same_nosym st l cname f :
  List.length (flatten_opts (gen_pairs st l l cname f false)) = List.length l * (List.length l - 1).
Proof.
  rewrite gen_pairs_count. set (n := List.length l).
  assert (H : forall k m, k + m <= n ->
             list_sum (map (fun i => list_sum (map (sel_count false i) (seq 0 n))) (seq k m)) = m * (n - 1)).
  { intros k m. revert k. induction m as [|m IH]; intros k Hle; [reflexivity|].
    change (seq k (S m)) with (k :: seq (S k) m). cbn [map list_sum].
    rewrite IH by lia. rewrite row_count_nosym by lia. lia. }
  rewrite (H 0 n) by lia. reflexivity.
Qed.
