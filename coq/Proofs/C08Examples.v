(** Elementary facts about real numbers used by the non-vacuity examples of Props/C08.v
    (F(x) = x^2/2 on the real line). *)
From Coq Require Import Reals Lra.
From PV Require Import Base.IPS.
Local Open Scope R_scope.

Lemma ex_cvx_sq (x y t : R) :
  0 < t < 1 -> (x + t * (y + -1 * x)) * (x + t * (y + -1 * x)) / 2 <= (1 - t) * (x * x / 2) + t * (y * y / 2).
Proof.
  intros Ht. assert (H : 0 <= t * (1 - t) * ((x - y) * (x - y))).
  { apply Rmult_le_pos. - apply Rmult_le_pos; lra. - apply Rle_0_sqr. }
  assert (Hid : (1 - t) * (x * x / 2) + t * (y * y / 2) - (x + t * (y + -1 * x)) * (x + t * (y + -1 * x)) / 2
                = t * (1 - t) * ((x - y) * (x - y)) / 2) by field.
  lra.
Qed.
Lemma ex_prox_sq (y : R) : 1 * (1 * 1 / 2) + 1 / 2 * ((1 + -1 * 2) * (1 + -1 * 2)) <= 1 * (y * y / 2) + 1 / 2 * ((y + -1 * 2) * (y + -1 * 2)).
Proof.
  assert (H : 0 <= (y - 1) * (y - 1)) by apply Rle_0_sqr.
  assert (Hid : 1 * (y * y / 2) + 1 / 2 * ((y + -1 * 2) * (y + -1 * 2))
                - (1 * (1 * 1 / 2) + 1 / 2 * ((1 + -1 * 2) * (1 + -1 * 2))) = (y - 1) * (y - 1)) by field.
  lra.
Qed.
Lemma ex_gc (x y : R) : y * y / 2 >= x * x / 2 + x * (y + -1 * x).
Proof.
  assert (H : 0 <= (y - x) * (y - x)) by apply Rle_0_sqr.
  assert (Hid : y * y / 2 - (x * x / 2 + x * (y + -1 * x)) = (y - x) * (y - x) / 2) by field. lra.
Qed.
Lemma ex_min (y : R) : 0 * 0 / 2 <= y * y / 2.
Proof. assert (H : 0 <= y * y) by apply Rle_0_sqr. lra. Qed.
Lemma ex_veq_R1 (a b : R1) : veq a b -> a = b.
Proof. intros Hab. pose proof (Hab 1) as H1. cbn in H1. lra. Qed.
