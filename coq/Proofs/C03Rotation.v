(** C03 — non-gradient members of the operator classes: the scaled rotations  A = a I + b J  of the plane,
    A (x0, x1) = (a x0 - b x1, b x0 + a x1).

    <A u, u> = a |u|^2 and |A u|^2 = (a^2 + b^2) |u|^2, so A is EXACTLY a-strongly monotone, a/(a^2+b^2)-cocoercive
    and sqrt(a^2+b^2)-Lipschitz: it sits on the boundary of these classes, and for b <> 0 it is not the gradient
    of any function.  Such members separate the operator classes from the classes of gradients: e.g. the
    inequality  <dg, dx> >= (beta |dg|^2 + mu |dx|^2) / (1 + mu beta), valid for gradients of mu-strongly convex
    1/beta-smooth functions, FAILS for a member of CocoerciveStronglyMonotoneOperator(mu, beta)
    ([rotation_violates_gradient_only_inequality]). *)
From Coq Require Import List QArith Reals Qreals Lra Bool Arith Lia String.
From PV Require Import Base.IPS Model.Dict Model.Terms Model.ClassGen Spec.Sem Spec.Reference Spec.Classes.
From PV Require Import Proofs.DictLemmas Proofs.SemLemmas Proofs.ClassGenLemmas Proofs.C04Lemmas.
From PV Require Import Proofs.MembersC Proofs.C03Core Proofs.C03Assembly Proofs.C03Examples.
From PV Require Import Gen.Classes.
Import ListNotations.
Local Open Scope R_scope.

Definition rotS (a b : R) : Rn 2 -> Rn 2 := mat2 a (- b) b a.
(** the graph of the operator (outputs observed through inner products) *)
Definition rot_graph (a b : R) : @graph (Rn 2) := fun x g => veq g (rotS a b x).

Lemma rot_coords a b (x g : Rn 2) :
  rot_graph a b x g -> g 0%nat = a * x 0%nat - b * x 1%nat /\ g 1%nat = b * x 0%nat + a * x 1%nat.
Proof. intros H. apply veq_Rn2 in H. unfold rotS, mat2, vec2 in H. cbn in H. destruct H as [H0 H1]. split; lra. Qed.

Lemma rot_inner a b x u y v :
  rot_graph a b x u -> rot_graph a b y v ->
  inner (vsub u v) (vsub x y) = a * nrm2 (vsub x y) /\
  nrm2 (vsub u v) = (a * a + b * b) * nrm2 (vsub x y).
Proof.
  intros Hu Hv. destruct (rot_coords a b x u Hu) as [U0 U1]. destruct (rot_coords a b y v Hv) as [V0 V1].
  unfold nrm2, vsub, vneg. cbn. rewrite U0, U1, V0, V1. split; ring.
Qed.

Theorem rotation_scaled_strongly_monotone a b : strongly_monotone_op a (rot_graph a b).
Proof. intros x u y v Hu Hv. destruct (rot_inner a b x u y v Hu Hv) as [H _]. rewrite H. lra. Qed.

Theorem rotation_scaled_lipschitz a b L : a * a + b * b <= L ^ 2 -> lipschitz_op L (rot_graph a b).
Proof.
  intros HL x u y v Hu Hv. destruct (rot_inner a b x u y v Hu Hv) as [_ H]. rewrite H.
  apply Rmult_le_compat_r; [apply inner_pos|exact HL].
Qed.

Theorem rotation_scaled_cocoercive a b : 0 < a * a + b * b -> cocoercive_op (a / (a * a + b * b)) (rot_graph a b).
Proof.
  intros Hr x u y v Hu Hv. destruct (rot_inner a b x u y v Hu Hv) as [H1 H2]. rewrite H1, H2.
  right. field. lra.
Qed.

Theorem rotation_scaled_cocoercive_strongly_monotone a b :
  0 < a * a + b * b -> cocoercive_strongly_monotone_op a (a / (a * a + b * b)) (rot_graph a b).
Proof. intros Hr. split; [apply rotation_scaled_strongly_monotone|apply rotation_scaled_cocoercive; exact Hr]. Qed.

Theorem rotation_monotone b : monotone_op (rot_graph 0 b).
Proof. intros x u y v Hu Hv. destruct (rot_inner 0 b x u y v Hu Hv) as [H _]. rewrite H. lra. Qed.

Theorem rotation_nonexpansive a b : a * a + b * b <= 1 -> nonexpansive_op (rot_graph a b).
Proof. intros H. apply rotation_scaled_lipschitz. lra. Qed.

(** a < 0: exactly rho-negatively comonotone with rho = -a / (a^2 + b^2) *)
Theorem rotation_scaled_neg_comonotone a b :
  0 < a * a + b * b -> neg_comonotone_op (- a / (a * a + b * b)) (rot_graph a b).
Proof.
  intros Hr x u y v Hu Hv. destruct (rot_inner a b x u y v Hu Hv) as [H1 H2]. rewrite H1, H2.
  right. field. lra.
Qed.

(** The gradient-only combined inequality does not hold on the class: A = I + J is 1-strongly monotone and
    1/2-cocoercive, and on the pair ((1,0), 0) it gives  1 >= (1/2 * 2 + 1 * 1) / (1 + 1/2) = 4/3. *)
Theorem rotation_violates_gradient_only_inequality :
  let A := rot_graph 1 1 in
  cocoercive_strongly_monotone_op 1 (1 / 2) A /\
  exists x u y v, A x u /\ A y v /\
    ~ (inner (vsub u v) (vsub x y) >= (1 / 2 * nrm2 (vsub u v) + 1 * nrm2 (vsub x y)) / (1 + 1 * (1 / 2))).
Proof.
  intros A. split.
  - replace (1 / 2) with (1 / (1 * 1 + 1 * 1)) by lra. apply rotation_scaled_cocoercive_strongly_monotone. lra.
  - exists (vec2 1 0), (vec2 1 1), (vec2 0 0), (vec2 0 0). split; [|split].
    + apply veq_Rn2. unfold rotS, mat2, vec2. cbn. split; lra.
    + apply veq_Rn2. unfold rotS, mat2, vec2. cbn. split; lra.
    + unfold nrm2, vsub, vneg, vec2. cbn. lra.
Qed.

(** ** the class theorem applied to a non-gradient member on the boundary of the class:
       CocoerciveStronglyMonotoneOperator(mu = 1, beta = 1/2), A = I + J, samples (1,0) -> (1,1), (0,1) -> (-1,1)
       and the zero of A *)
Definition rot_rho : nat -> Rn 2 :=
  @leaf_vals (nat -> R) (vec2 0 0) [vec2 1 0; vec2 1 1; vec2 0 1; vec2 (-1) 1; vec2 0 0].
Definition rot_s1 := mkSample [(0%nat, 1%Q)] [(1%nat, 1%Q)] [] None 0 1 2 [].
Definition rot_s2 := mkSample [(2%nat, 1%Q)] [(3%nat, 1%Q)] [] None 3 4 5 [].
Definition rot_s3 := mkSample [(4%nat, 1%Q)] [] [] None 6 7 8 [].
Definition rot_st : fstate :=
  mkF "A" (par2 1 1%Q 4 (1 # 2)%Q) no_inf [rot_s1; rot_s2; rot_s3] [rot_s3] [] None 5 0 9 0 no_Lk.

Example rotation_member_example :
  cocoercive_strongly_monotone_op 1 (1 / 2) (rot_graph 1 1) /\ par_is rot_st 1 1 /\ par_is rot_st 4 (1 / 2) /\
  wf_state rot_st /\
  (forall s, In s (f_points rot_st) -> genuine_op (rot_graph 1 1) (sval rot_rho (fun _ => 0) s)) /\
  all_satisfied rot_rho (fun _ => 0) (run_plan plan_CocoerciveStronglyMonotoneOperator rot_st) /\
  List.length (g_cons (run_plan plan_CocoerciveStronglyMonotoneOperator rot_st)) = 6%nat.
Proof.
  assert (H1 : cocoercive_strongly_monotone_op 1 (1 / 2) (rot_graph 1 1))
    by exact (proj1 rotation_violates_gradient_only_inequality).
  assert (H2 : par_is rot_st 1 1) by (unfold par_is; calc).
  assert (H3 : par_is rot_st 4 (1 / 2)) by (unfold par_is; calc).
  assert (H4 : wf_state rot_st) by wf_state_tac.
  assert (H5 : forall s, In s (f_points rot_st) -> genuine_op (rot_graph 1 1) (sval rot_rho (fun _ => 0) s)).
  { intros s H. cbn [f_points rot_st] in H.
    in_cases H; apply veq_Rn2; unfold rotS, mat2, vec2; cbn; unfold Q2R; cbn; split; lra. }
  pose proof (c03_CocoerciveStronglyMonotoneOperator rot_rho (fun _ => 0) 1 (1 / 2) (rot_graph 1 1) rot_st H1 H2 H3 H4 H5) as Hall.
  finish.
Qed.
