(** C04, the SUFFICIENCY half, for the classes where it is elementary.

    "For interpolation classes a finite primal value is attained by a real member of the class":
    whenever a finite list of triples (x_i, g_i, f_i) of an inner-product space satisfies the
    reference conditions of the class (Spec/Reference.v) on ALL ordered pairs, there EXISTS a real
    member of the class (Spec/Classes.v) of which every triple is a genuine sample.

      1. ConvexFunction           F = max_j ( f_j + <g_j, . - x_j> )        (max-affine interpolant)
      2. ConvexIndicatorFunction  F = indicator of the convex hull of the x_i (any D, finite or not)
      3. StronglyConvexFunction   F = max-affine interpolant of the shifted data + mu/2 |.|^2
      4. ConvexLipschitzFunction  F = the max-affine interpolant again (M-Lipschitz by Cauchy-Schwarz)
      5. ConvexSupportFunction    C = convex hull of the g_i, sigma = max_i <g_i, .> (any M)
      6. graph-defined operator classes (monotone, strongly monotone, cocoercive, negatively
         comonotone, Lipschitz, nonexpansive): the finite graph {(x_i, g_i)} itself (no extension)

    [convex_member] of Spec/Classes.v is [True]; to make the statements meaningful the convexity of
    the constructed F (segment inequality on a convex domain, [convex_seg]) is part of each
    conclusion.  Everything goes through [inner] and bilinearity (no Leibniz vector equation); the
    hull is closed under [veq].  The converse (necessity) is Proofs/MembersA.v. *)
From Coq Require Import Reals Lra Psatz List.
From PV Require Import Base.IPS Spec.Reference Spec.Classes.
Import ListNotations.
Local Open Scope R_scope.

Section Suff.
  Context {E : ips}.
  Local Notation tri := (@triple E).
  Local Notation fnE := (@fn E).

  Ltac bilin :=
    repeat (rewrite ?inner_add_l, ?inner_add_r, ?inner_scal_l, ?inner_scal_r,
                    ?inner_zero_l, ?inner_zero_r).

  (** Convexity of an extended-valued function, segment form: the domain is convex and the value at
      x + t (y - x) is below the chord. *)
  Definition convex_seg (F : fnE) : Prop :=
    forall x y t, dom F x -> dom F y -> 0 <= t <= 1 ->
      dom F (seg x y t) /\ val F (seg x y t) <= (1 - t) * val F x + t * val F y.

  Lemma nrm2_sub (u z : E) : nrm2 (vsub u z) = nrm2 u - 2 * inner u z + nrm2 z.
  Proof. unfold nrm2, vsub, vneg. bilin. rewrite (inner_sym E z u). ring. Qed.

  Lemma nrm2_sub_sym (u z : E) : nrm2 (vsub u z) = nrm2 (vsub z u).
  Proof. rewrite !nrm2_sub, (inner_sym E z u). ring. Qed.

  Lemma nrm2_seg (x y : E) t :
    nrm2 (seg x y t) = (1 - t) * nrm2 x + t * nrm2 y - t * (1 - t) * nrm2 (vsub y x).
  Proof. unfold nrm2, seg, vsub, vneg. bilin. rewrite (inner_sym E y x). ring. Qed.

  (** * 1. ConvexFunction: the max-affine interpolant *)

  (** the affine minorant carried by a triple *)
  Definition aff (s : tri) (x : E) : R := let '(xj, gj, fj) := s in fj + inner gj (vsub x xj).

  (** max over the non-empty list [s0 :: l] *)
  Fixpoint maxaff (s0 : tri) (l : list tri) (x : E) : R :=
    match l with
    | [] => aff s0 x
    | s :: l' => Rmax (aff s x) (maxaff s0 l' x)
    end.

  Definition maxaff_fn (s0 : tri) (l : list tri) : fnE := mkFn (fun _ => True) (maxaff s0 l).

  Lemma maxaff_ge s0 l x s : In s (s0 :: l) -> aff s x <= maxaff s0 l x.
  Proof.
    induction l as [|a l IH]; cbn [maxaff]; intros [H|H].
    - subst. apply Rle_refl.
    - destruct H.
    - eapply Rle_trans; [apply IH; left; exact H|apply Rmax_r].
    - destruct H as [H|H].
      + subst. apply Rmax_l.
      + eapply Rle_trans; [apply IH; right; exact H|apply Rmax_r].
  Qed.

  Lemma maxaff_attained s0 l x : exists s, In s (s0 :: l) /\ maxaff s0 l x = aff s x.
  Proof.
    induction l as [|a l [s [Hs Hv]]]; cbn [maxaff].
    - exists s0. split; [left; reflexivity|reflexivity].
    - unfold Rmax. destruct (Rle_dec (aff a x) (maxaff s0 l x)) as [_|_].
      + exists s. split; [|exact Hv]. destruct Hs as [Hs|Hs]; [left; exact Hs|right; right; exact Hs].
      + exists a. split; [right; left; reflexivity|reflexivity].
  Qed.

  Lemma maxaff_le s0 l x b : (forall s, In s (s0 :: l) -> aff s x <= b) -> maxaff s0 l x <= b.
  Proof. intro H. destruct (maxaff_attained s0 l x) as [s [Hs Hv]]. rewrite Hv. apply H, Hs. Qed.

  Lemma aff_seg s x y t : aff s (seg x y t) = (1 - t) * aff s x + t * aff s y.
  Proof. destruct s as [[xj gj] fj]. unfold aff, seg, vsub, vneg. bilin. ring. Qed.

  Lemma maxaff_convex s0 l : convex_seg (maxaff_fn s0 l).
  Proof.
    intros x y t _ _ [Ht0 Ht1]. split; [exact I|]. cbn [val maxaff_fn].
    apply maxaff_le. intros s Hs. rewrite aff_seg.
    pose proof (maxaff_ge s0 l x s Hs) as Px. pose proof (maxaff_ge s0 l y s Hs) as Py.
    apply Rplus_le_compat; apply Rmult_le_compat_l; (lra || assumption).
  Qed.

  (** the pairwise condition of ConvexFunction on a list *)
  Definition convex_cond (l : list tri) : Prop :=
    forall xi gi fi xj gj fj, In (xi, gi, fi) l -> In (xj, gj, fj) l -> ref_convex xi xj gj fi fj <= 0.

  Lemma maxaff_genuine s0 l :
    convex_cond (s0 :: l) -> forall s, In s (s0 :: l) -> genuine_sub (maxaff_fn s0 l) s.
  Proof.
    intros H [[xi gi] fi] Hs.
    assert (Hv : maxaff s0 l xi = fi).
    { apply Rle_antisym.
      - apply maxaff_le. intros [[xj gj] fj] Hj.
        pose proof (H xi gi fi xj gj fj Hs Hj) as P. unfold ref_convex in P. cbn [aff]. lra.
      - pose proof (maxaff_ge s0 l xi _ Hs) as P. cbn [aff] in P.
        rewrite inner_sub_r in P. lra. }
    split; [split; [exact I|]|].
    - intros y _. cbn [val maxaff_fn]. rewrite Hv.
      pose proof (maxaff_ge s0 l y _ Hs) as P. cbn [aff] in P. lra.
    - cbn [val maxaff_fn]. symmetry. exact Hv.
  Qed.

  (** SUFFICIENCY, ConvexFunction: data satisfying f_i >= f_j + <g_j, x_i - x_j> on all ordered
      pairs are genuine samples (value and subgradient) of a finite-everywhere convex function. *)
  Theorem suff_convex (l : list tri) :
    l <> [] -> convex_cond l ->
    exists F : fnE, convex_member F /\ convex_seg F /\ (forall x, dom F x) /\
                    forall s, In s l -> genuine_sub F s.
  Proof.
    destruct l as [|s0 l]; [congruence|]. intros _ H.
    exists (maxaff_fn s0 l). split; [exact I|]. split; [apply maxaff_convex|].
    split; [intro; exact I|]. apply maxaff_genuine, H.
  Qed.

  (** * 3. StronglyConvexFunction(mu): shift the data by mu/2 |.|^2, reuse 1. *)
  Definition shift (mu : R) (s : tri) : tri :=
    let '(x, g, f) := s in (x, vsub g (vscal mu x), f - mu / 2 * nrm2 x).

  Definition strongly_convex_cond (mu : R) (l : list tri) : Prop :=
    forall xi gi fi xj gj fj, In (xi, gi, fi) l -> In (xj, gj, fj) l ->
                              ref_strongly_convex mu xi xj gj fi fj <= 0.

  Lemma shift_cond mu l : strongly_convex_cond mu l -> convex_cond (map (shift mu) l).
  Proof.
    intros H xi gi' fi' xj gj' fj' Hi Hj.
    apply in_map_iff in Hi. destruct Hi as [[[xi0 gi] fi] [Ei Hi]].
    apply in_map_iff in Hj. destruct Hj as [[[xj0 gj] fj] [Ej Hj]].
    cbn [shift] in Ei, Ej. inversion Ei; subst. inversion Ej; subst. clear Ei Ej.
    pose proof (H _ _ _ _ _ _ Hi Hj) as P.
    unfold ref_strongly_convex in P. rewrite nrm2_sub in P.
    unfold ref_convex. unfold nrm2, vsub, vneg in *. revert P. bilin.
    rewrite (inner_sym E xj xi). intro P. lra.
  Qed.

  Definition sc_fn (mu : R) (s0 : tri) (l : list tri) : fnE :=
    mkFn (fun _ => True) (fun x => maxaff (shift mu s0) (map (shift mu) l) x + mu / 2 * nrm2 x).

  Lemma sc_fn_strongly_convex mu s0 l : strongly_convex_member mu (sc_fn mu s0 l).
  Proof.
    intros x y t _ _ [Ht0 Ht1]. split; [exact I|]. cbn [val sc_fn].
    destruct (maxaff_convex (shift mu s0) (map (shift mu) l) x y t I I) as [_ P]; [lra|].
    cbn [val maxaff_fn] in P. rewrite nrm2_seg. lra.
  Qed.

  Lemma sc_fn_convex mu s0 l : 0 <= mu -> convex_seg (sc_fn mu s0 l).
  Proof.
    intros Hmu x y t _ _ [Ht0 Ht1]. split; [exact I|]. cbn [val sc_fn].
    destruct (maxaff_convex (shift mu s0) (map (shift mu) l) x y t I I) as [_ P]; [lra|].
    cbn [val maxaff_fn] in P. rewrite nrm2_seg.
    assert (Hn : 0 <= nrm2 (vsub y x)) by (unfold nrm2; apply inner_pos).
    assert (Hq : 0 <= mu / 2 * (t * (1 - t) * nrm2 (vsub y x))).
    { apply Rmult_le_pos; [lra|]. apply Rmult_le_pos; [|exact Hn]. apply Rmult_le_pos; lra. }
    lra.
  Qed.

  Lemma sc_fn_genuine mu s0 l :
    0 <= mu -> strongly_convex_cond mu (s0 :: l) ->
    forall s, In s (s0 :: l) -> genuine_sub (sc_fn mu s0 l) s.
  Proof.
    intros Hmu H [[xi gi] fi] Hs.
    pose proof (shift_cond mu (s0 :: l) H) as Hc. cbn [map] in Hc.
    assert (Hs' : In (shift mu (xi, gi, fi)) (shift mu s0 :: map (shift mu) l))
      by (change (In (shift mu (xi, gi, fi)) (map (shift mu) (s0 :: l))); apply in_map, Hs).
    destruct (maxaff_genuine _ _ Hc _ Hs') as [[_ Hsub] Hv]. cbn [val maxaff_fn shift] in Hsub, Hv.
    split; [split; [exact I|]|].
    - intros y _. cbn [val sc_fn].
      pose proof (Hsub y I) as P. cbn [shift] in P.
      assert (Hn : 0 <= mu / 2 * nrm2 (vsub y xi)).
      { apply Rmult_le_pos; [lra|]. unfold nrm2. apply inner_pos. }
      rewrite nrm2_sub in Hn.
      revert P. unfold vsub, vneg. bilin. unfold nrm2 in *.
      rewrite (inner_sym E y xi) in Hn. intro P. lra.
    - cbn [val sc_fn]. lra.
  Qed.

  (** SUFFICIENCY, StronglyConvexFunction(mu), mu >= 0. *)
  Theorem suff_strongly_convex (mu : R) (l : list tri) :
    0 <= mu -> l <> [] -> strongly_convex_cond mu l ->
    exists F : fnE, strongly_convex_member mu F /\ convex_seg F /\ (forall x, dom F x) /\
                    forall s, In s l -> genuine_sub F s.
  Proof.
    intros Hmu Hne H. destruct l as [|s0 l]; [congruence|].
    exists (sc_fn mu s0 l). split; [apply sc_fn_strongly_convex|].
    split; [apply sc_fn_convex, Hmu|]. split; [intro; exact I|].
    apply sc_fn_genuine; assumption.
  Qed.

  (** * 2. ConvexIndicatorFunction(D): indicator of the convex hull of the sampled points *)

  (** weighted families (weight, point); total weight; weighted sum of a real function *)
  Definition wtot (l : list (R * E)) : R := fold_right (fun p acc => fst p + acc) 0 l.
  Definition fsum (phi : E -> R) (l : list (R * E)) : R :=
    fold_right (fun '(a, u) acc => a * phi u + acc) 0 l.

  (** convex hull of a set of points: finite convex combinations (non-negative weights summing to 1),
      up to [veq] *)
  Definition hull (P : E -> Prop) (y : E) : Prop :=
    exists l : list (R * E),
      (forall a u, In (a, u) l -> 0 <= a /\ P u) /\ wtot l = 1 /\ veq y (lincomb l).

  Lemma fsum_cons phi a u l : fsum phi ((a, u) :: l) = a * phi u + fsum phi l.
  Proof. reflexivity. Qed.
  Lemma wtot_cons a u l : wtot ((a, u) :: l) = a + wtot l.
  Proof. reflexivity. Qed.
  Lemma fsum_nil phi : fsum phi [] = 0. Proof. reflexivity. Qed.
  Lemma wtot_nil : wtot [] = 0. Proof. reflexivity. Qed.

  Lemma inner_lincomb_fsum l w : inner (lincomb l) w = fsum (fun u => inner u w) l.
  Proof.
    induction l as [|[a u] l IH]; cbn [lincomb].
    - rewrite fsum_nil. apply inner_zero_l.
    - rewrite fsum_cons, inner_add_l, inner_scal_l, IH. reflexivity.
  Qed.

  Lemma fsum_le phi b l :
    (forall a u, In (a, u) l -> 0 <= a /\ phi u <= b) -> fsum phi l <= wtot l * b.
  Proof.
    induction l as [|[a u] l IH]; intro H.
    - rewrite fsum_nil, wtot_nil. lra.
    - rewrite fsum_cons, wtot_cons.
      destruct (H a u (or_introl eq_refl)) as [Ha Hu].
      assert (IH' : fsum phi l <= wtot l * b) by (apply IH; intros a' u' Hin; apply H; right; exact Hin).
      pose proof (Rmult_le_compat_l a _ _ Ha Hu) as P. lra.
  Qed.

  Lemma fsum_ge0 phi l :
    (forall a u, In (a, u) l -> 0 <= a /\ 0 <= phi u) -> 0 <= fsum phi l.
  Proof.
    induction l as [|[a u] l IH]; intro H.
    - rewrite fsum_nil. lra.
    - rewrite fsum_cons.
      destruct (H a u (or_introl eq_refl)) as [Ha Hu].
      assert (IH' : 0 <= fsum phi l) by (apply IH; intros a' u' Hin; apply H; right; exact Hin).
      pose proof (Rmult_le_pos a _ Ha Hu) as P. lra.
  Qed.

  Lemma fsum_app phi l1 l2 : fsum phi (l1 ++ l2) = fsum phi l1 + fsum phi l2.
  Proof.
    induction l1 as [|[a u] l1 IH]; cbn [app].
    - rewrite fsum_nil. lra.
    - rewrite !fsum_cons, IH. lra.
  Qed.

  Lemma wtot_app l1 l2 : wtot (l1 ++ l2) = wtot l1 + wtot l2.
  Proof.
    induction l1 as [|[a u] l1 IH]; cbn [app].
    - rewrite wtot_nil. lra.
    - rewrite !wtot_cons, IH. lra.
  Qed.

  Definition sc (c : R) (p : R * E) : R * E := (c * fst p, snd p).
  Lemma sc_pair c a u : sc c (a, u) = (c * a, u). Proof. reflexivity. Qed.

  Lemma fsum_sc phi c l : fsum phi (map (sc c) l) = c * fsum phi l.
  Proof.
    induction l as [|[a u] l IH]; cbn [map].
    - rewrite fsum_nil. lra.
    - rewrite sc_pair, !fsum_cons, IH. lra.
  Qed.

  Lemma wtot_sc c l : wtot (map (sc c) l) = c * wtot l.
  Proof.
    induction l as [|[a u] l IH]; cbn [map].
    - rewrite wtot_nil. lra.
    - rewrite sc_pair, !wtot_cons, IH. lra.
  Qed.

  (** sum_k a_k |u_k - z|^2 = sum_k a_k |u_k|^2 - 2 <sum_k a_k u_k, z> + (sum_k a_k) |z|^2 *)
  Lemma fsum_sq l z :
    fsum (fun u => nrm2 (vsub u z)) l = fsum (fun u => nrm2 u) l - 2 * inner (lincomb l) z + wtot l * nrm2 z.
  Proof.
    induction l as [|[a u] l IH]; cbn [lincomb].
    - rewrite !fsum_nil, wtot_nil, inner_zero_l. lra.
    - rewrite !fsum_cons, wtot_cons, IH, nrm2_sub, inner_add_l, inner_scal_l. ring.
  Qed.

  (** convexity of the squared distance to z over a convex combination (variance identity) *)
  Lemma jensen_sq l z :
    (forall a u, In (a, u) l -> 0 <= a) -> wtot l = 1 ->
    nrm2 (vsub (lincomb l) z) <= fsum (fun u => nrm2 (vsub u z)) l.
  Proof.
    intros Hpos Hw.
    pose proof (fsum_sq l z) as Pz. pose proof (fsum_sq l (lincomb l)) as Py.
    assert (P0 : 0 <= fsum (fun u => nrm2 (vsub u (lincomb l))) l).
    { apply fsum_ge0. intros a u Hin. split; [apply (Hpos a u Hin)|unfold nrm2; apply inner_pos]. }
    rewrite Hw in Pz, Py. rewrite nrm2_sub.
    set (Y := lincomb l) in *. unfold nrm2 in *. lra.
  Qed.

  Lemma hull_pt (P : E -> Prop) x : P x -> hull P x.
  Proof.
    intro Hx. exists [(1, x)]. split; [|split].
    - intros a u [H|[]]. inversion H; subst. split; [lra|exact Hx].
    - cbn. lra.
    - intro w. cbn [lincomb]. bilin. lra.
  Qed.

  Lemma hull_veq (P : E -> Prop) y y' : hull P y -> veq y y' -> hull P y'.
  Proof.
    intros [l [H1 [H2 H3]]] Hv. exists l. split; [exact H1|]. split; [exact H2|].
    eapply veq_trans; [apply veq_sym, Hv|exact H3].
  Qed.

  Lemma hull_convex (P : E -> Prop) y z t : hull P y -> hull P z -> 0 <= t <= 1 -> hull P (seg y z t).
  Proof.
    intros [ly [Py [Wy Hy]]] [lz [Pz [Wz Hz]]] [Ht0 Ht1].
    exists (map (sc (1 - t)) ly ++ map (sc t) lz). split; [|split].
    - intros a u Hin. apply in_app_or in Hin. destruct Hin as [Hin|Hin];
        apply in_map_iff in Hin; destruct Hin as [[a' u'] [Heq Hin]];
        cbn [sc fst snd] in Heq; inversion Heq; subst.
      + destruct (Py _ _ Hin) as [Ha Hu]. split; [apply Rmult_le_pos; lra|exact Hu].
      + destruct (Pz _ _ Hin) as [Ha Hu]. split; [apply Rmult_le_pos; lra|exact Hu].
    - rewrite wtot_app, !wtot_sc, Wy, Wz. lra.
    - intro w. rewrite inner_lincomb_fsum, fsum_app, !fsum_sc, <- !inner_lincomb_fsum.
      rewrite <- (Hy w), <- (Hz w). unfold seg, vsub, vneg. bilin. ring.
  Qed.

  (** a half-space containing the points contains their hull *)
  Lemma hull_halfspace (P : E -> Prop) g b y :
    (forall u, P u -> inner u g <= b) -> hull P y -> inner y g <= b.
  Proof.
    intros H [l [Hl [Hw Hy]]]. rewrite (Hy g), inner_lincomb_fsum.
    replace b with (wtot l * b) by (rewrite Hw; lra).
    apply fsum_le. intros a u Hin. destruct (Hl a u Hin) as [Ha Hu]. split; [exact Ha|apply H, Hu].
  Qed.

  (** a ball (squared radius r, any centre) containing the points contains their hull *)
  Lemma hull_ball (P : E -> Prop) z r y :
    (forall u, P u -> nrm2 (vsub u z) <= r) -> hull P y -> nrm2 (vsub y z) <= r.
  Proof.
    intros H [l [Hl [Hw Hy]]].
    assert (Hv : veq (vsub y z) (vsub (lincomb l) z)) by (apply veq_sub; [exact Hy|apply veq_refl]).
    unfold nrm2. rewrite (veq_inner _ _ _ _ Hv Hv). fold (nrm2 (vsub (lincomb l) z)).
    eapply Rle_trans; [apply jensen_sq; [intros a u Hin; apply (Hl a u Hin)|exact Hw]|].
    replace r with (wtot l * r) by (rewrite Hw; lra).
    apply fsum_le. intros a u Hin. destruct (Hl a u Hin) as [Ha Hu]. split; [exact Ha|apply H, Hu].
  Qed.

  (** the diameter bound extends from the points to their hull (two nested convexity arguments) *)
  Lemma hull_diameter (P : E -> Prop) r :
    (forall u v, P u -> P v -> nrm2 (vsub u v) <= r) ->
    forall y z, hull P y -> hull P z -> nrm2 (vsub y z) <= r.
  Proof.
    intros H y z Hy Hz.
    apply (hull_ball P z r y); [|exact Hy].
    intros u Hu. rewrite nrm2_sub_sym.
    apply (hull_ball P u r z); [|exact Hz].
    intros v Hv. apply H; assumption.
  Qed.

  (** the sampled points of a list of triples *)
  Definition pts (l : list tri) (u : E) : Prop := exists g f, In (u, g, f) l.

  Definition ind_fn (l : list tri) : fnE := mkFn (hull (pts l)) (fun _ => 0).

  Definition indicator_cond (D : option R) (l : list tri) : Prop :=
    (forall x g f, In (x, g, f) l -> ref_ind_value f = 0) /\
    (forall xi gi fi xj gj fj, In (xi, gi, fi) l -> In (xj, gj, fj) l -> ref_ind_normal xi xj gj <= 0) /\
    match D with
    | Some d => forall xi gi fi xj gj fj, In (xi, gi, fi) l -> In (xj, gj, fj) l -> ref_diameter d xi xj <= 0
    | None => True
    end.

  Lemma ind_fn_convex l : convex_seg (ind_fn l).
  Proof.
    intros x y t Hx Hy Ht. split; [apply hull_convex; assumption|]. cbn [val ind_fn]. lra.
  Qed.

  Lemma ind_fn_member D l : indicator_cond D l -> indicator_member D (ind_fn l).
  Proof.
    intros [_ [_ Hd]]. split; [intros; reflexivity|].
    destruct D as [d|]; [|exact I].
    cbn [dom ind_fn]. apply hull_diameter.
    intros u v [gu [fu Hu]] [gv [fv Hv]].
    pose proof (Hd _ _ _ _ _ _ Hu Hv) as P. unfold ref_diameter in P. lra.
  Qed.

  Lemma ind_fn_genuine D l : indicator_cond D l -> forall s, In s l -> genuine_sub (ind_fn l) s.
  Proof.
    intros [Hv [Hn _]] [[xi gi] fi] Hs.
    split; [split|].
    - cbn [dom ind_fn]. apply hull_pt. exists gi, fi. exact Hs.
    - intros y Hy. cbn [dom val ind_fn] in *.
      assert (P : inner y gi <= inner xi gi).
      { apply (hull_halfspace (pts l) gi (inner xi gi) y); [|exact Hy].
        intros u [gu [fu Hu]]. pose proof (Hn _ _ _ _ _ _ Hu Hs) as Q.
        unfold ref_ind_normal in Q. rewrite inner_sub_r, !(inner_sym E gi) in Q. lra. }
      rewrite inner_sub_r, !(inner_sym E gi). lra.
    - cbn [val ind_fn]. pose proof (Hv _ _ _ Hs) as P. unfold ref_ind_value in P. exact P.
  Qed.

  (** SUFFICIENCY, ConvexIndicatorFunction(D), D finite or infinite, any list (the empty list gives
      the indicator of the empty set). *)
  Theorem suff_indicator (D : option R) (l : list tri) :
    indicator_cond D l ->
    exists F : fnE, indicator_member D F /\ convex_seg F /\
                    (forall x, dom F x <-> hull (pts l) x) /\
                    forall s, In s l -> genuine_sub F s.
  Proof.
    intro H. exists (ind_fn l). split; [apply ind_fn_member, H|].
    split; [apply ind_fn_convex|]. split; [intro; reflexivity|]. apply (ind_fn_genuine D), H.
  Qed.

  (** * 4. ConvexLipschitzFunction(M): the max-affine interpolant is M-Lipschitz when |g_i| <= M *)

  (** a linear form <g, .> with |g|^2 <= M^2 is M-Lipschitz (Cauchy-Schwarz), squared form *)
  Lemma lin_form_lip M (g w : E) : ref_bounded_g M g <= 0 -> (inner g w) ^ 2 <= M ^ 2 * nrm2 w.
  Proof.
    unfold ref_bounded_g, nrm2. intro Hg.
    pose proof (cauchy_schwarz g w) as CS. pose proof (inner_pos E w) as Hw.
    assert (H : inner g g * inner w w <= M ^ 2 * inner w w) by (apply Rmult_le_compat_r; lra).
    replace (inner g w ^ 2) with (inner g w * inner g w) by ring. lra.
  Qed.

  Definition bounded_cond (M : R) (l : list tri) : Prop :=
    forall x g f, In (x, g, f) l -> ref_bounded_g M g <= 0.

  (** one-sided: F x - F y <= <g, x - y> for the slope g of a piece active at x *)
  Lemma maxaff_diff M s0 l x y :
    bounded_cond M (s0 :: l) ->
    exists g, ref_bounded_g M g <= 0 /\ maxaff s0 l x - maxaff s0 l y <= inner g (vsub x y).
  Proof.
    intro Hb. destruct (maxaff_attained s0 l x) as [[[xs gs] fs] [Hs Hv]].
    exists gs. split; [apply (Hb _ _ _ Hs)|].
    pose proof (maxaff_ge s0 l y _ Hs) as P. rewrite Hv. cbn [aff] in P |- *.
    rewrite inner_sub_r in P. rewrite !inner_sub_r. lra.
  Qed.

  Lemma maxaff_lipschitz M s0 l : bounded_cond M (s0 :: l) -> lipschitz_fn M (maxaff_fn s0 l).
  Proof.
    intro Hb. split; [intro; exact I|]. intros x y. cbn [val maxaff_fn].
    destruct (maxaff_diff M s0 l x y Hb) as [g [Hg P]].
    destruct (maxaff_diff M s0 l y x Hb) as [g' [Hg' P']].
    pose proof (lin_form_lip M g (vsub x y) Hg) as Q.
    pose proof (lin_form_lip M g' (vsub y x) Hg') as Q'.
    rewrite (nrm2_sub_sym y x) in Q'.
    set (K := M ^ 2 * nrm2 (vsub x y)) in *.
    set (a := inner g (vsub x y)) in *. set (b := inner g' (vsub y x)) in *.
    set (d := maxaff s0 l x - maxaff s0 l y) in *.
    assert (P'' : - d <= b) by (unfold d; lra). clearbody K a b d.
    destruct (Rle_dec 0 d) as [Hd|Hd]; nra.
  Qed.

  (** SUFFICIENCY, ConvexLipschitzFunction(M) (no sign condition on M is needed: only M^2 occurs). *)
  Theorem suff_convex_lipschitz (M : R) (l : list tri) :
    l <> [] -> convex_cond l -> bounded_cond M l ->
    exists F : fnE, lipschitz_fn M F /\ convex_member F /\ convex_seg F /\
                    forall s, In s l -> genuine_sub F s.
  Proof.
    destruct l as [|s0 l]; [congruence|]. intros _ Hc Hb.
    exists (maxaff_fn s0 l). split; [apply maxaff_lipschitz, Hb|]. split; [exact I|].
    split; [apply maxaff_convex|]. apply maxaff_genuine, Hc.
  Qed.

  (** * 5. ConvexSupportFunction(M): C = hull of the g_i, sigma = max_i <g_i, .> *)

  (** the linear piece <g, .> as a triple for [maxaff] *)
  Definition lin (s : tri) : tri := (vzero, snd (fst s), 0).

  Lemma aff_lin s x : aff (lin s) x = inner (snd (fst s)) x.
  Proof. unfold lin. cbn [aff]. rewrite inner_sub_r, inner_zero_r. lra. Qed.

  Definition sigma_max (s0 : tri) (l : list tri) (x : E) : R := maxaff (lin s0) (map lin l) x.

  Lemma sigma_ge s0 l x xi gi fi : In (xi, gi, fi) (s0 :: l) -> inner gi x <= sigma_max s0 l x.
  Proof.
    intro Hs. unfold sigma_max.
    assert (Hs' : In (lin (xi, gi, fi)) (lin s0 :: map lin l))
      by (change (In (lin (xi, gi, fi)) (map lin (s0 :: l))); apply in_map, Hs).
    pose proof (maxaff_ge _ _ x _ Hs') as P. rewrite aff_lin in P. exact P.
  Qed.

  Lemma sigma_le s0 l x b :
    (forall xi gi fi, In (xi, gi, fi) (s0 :: l) -> inner gi x <= b) -> sigma_max s0 l x <= b.
  Proof.
    intro H. unfold sigma_max. apply maxaff_le. intros s' Hs'.
    change (In s' (map lin (s0 :: l))) in Hs'. apply in_map_iff in Hs'.
    destruct Hs' as [[[xi gi] fi] [Heq Hin]]. subst s'. rewrite aff_lin. apply (H _ _ _ Hin).
  Qed.

  Lemma sigma_attained s0 l x :
    exists xi gi fi, In (xi, gi, fi) (s0 :: l) /\ sigma_max s0 l x = inner gi x.
  Proof.
    unfold sigma_max. destruct (maxaff_attained (lin s0) (map lin l) x) as [s' [Hs' Hv]].
    change (In s' (map lin (s0 :: l))) in Hs'. apply in_map_iff in Hs'.
    destruct Hs' as [[[xi gi] fi] [Heq Hin]]. subst s'. rewrite aff_lin in Hv.
    exists xi, gi, fi. split; [exact Hin|exact Hv].
  Qed.

  (** the sampled subgradients of a list of triples *)
  Definition gs (l : list tri) (u : E) : Prop := exists x f, In (x, u, f) l.

  Definition support_cond (M : option R) (l : list tri) : Prop :=
    (forall x g f, In (x, g, f) l -> ref_sup_fenchel x g f = 0) /\
    (forall xi gi fi xj gj fj, In (xi, gi, fi) l -> In (xj, gj, fj) l -> ref_sup_convex xj gi gj <= 0) /\
    match M with
    | Some m => forall x g f, In (x, g, f) l -> ref_bounded_g m g <= 0
    | None => True
    end.

  Lemma nrm2_sub_zero (u : E) : nrm2 (vsub u vzero) = nrm2 u.
  Proof. rewrite nrm2_sub. unfold nrm2. rewrite !inner_zero_r. lra. Qed.

  (** SUFFICIENCY, ConvexSupportFunction(M), M finite or not: C is convex, sigma is its support
      function (an upper bound of <c, .> on C that is attained in C at every x), C lies in the ball
      of radius M, and every triple is a genuine sample (g_i in C is a maximiser at x_i). *)
  Theorem suff_support (M : option R) (l : list tri) :
    l <> [] -> support_cond M l ->
    exists (C : E -> Prop) (sigma : E -> R),
      support_member M C sigma /\
      (forall c c' t, C c -> C c' -> 0 <= t <= 1 -> C (seg c c' t)) /\
      (forall x, exists c, C c /\ inner c x = sigma x) /\
      forall s, In s l -> genuine_support C sigma s.
  Proof.
    destruct l as [|s0 l]; [congruence|]. intros _ [Hf [Hc Hb]].
    exists (hull (gs (s0 :: l))), (sigma_max s0 l). split; [|split; [|split]].
    - constructor.
      + intros x c Hcx. apply (hull_halfspace (gs (s0 :: l)) x (sigma_max s0 l x) c); [|exact Hcx].
        intros u [xu [fu Hu]]. apply (sigma_ge s0 l x _ _ _ Hu).
      + destruct M as [m|]; [|exact I]. intros c Hcx.
        rewrite <- nrm2_sub_zero. apply (hull_ball (gs (s0 :: l)) vzero (m ^ 2) c); [|exact Hcx].
        intros u [xu [fu Hu]]. rewrite nrm2_sub_zero.
        pose proof (Hb _ _ _ Hu) as P. unfold ref_bounded_g in P. lra.
    - intros c c' t. apply hull_convex.
    - intro x. destruct (sigma_attained s0 l x) as [xi [gi [fi [Hin Hv]]]].
      exists gi. split; [apply hull_pt; exists xi, fi; exact Hin|symmetry; exact Hv].
    - intros [[xj gj] fj] Hs.
      assert (Hv : inner gj xj = sigma_max s0 l xj).
      { apply Rle_antisym; [apply (sigma_ge s0 l xj _ _ _ Hs)|].
        apply sigma_le. intros xi gi fi Hi.
        pose proof (Hc _ _ _ _ _ _ Hi Hs) as P. unfold ref_sup_convex in P.
        rewrite inner_sub_r, !(inner_sym E xj) in P. lra. }
      split; [apply hull_pt; exists xj, fj; exact Hs|]. split; [exact Hv|].
      pose proof (Hf _ _ _ Hs) as P. unfold ref_sup_fenchel in P. lra.
  Qed.

  (** * 6. Operator classes defined on graphs: interpolation by the finite graph itself.

      The operator classes of Spec/Classes.v are predicates on a set-valued graph
      ([forall x u y v, A x u -> A y v -> ...]); the finite graph A = {(x_i, g_i)} is therefore a
      member of the class IF AND ONLY IF the pairwise reference condition holds on all ordered
      pairs, and every sample is trivially a genuine sample of it.  This is all that these
      first-principles definitions ask for.  Extending the finite graph to a maximal monotone /
      everywhere-defined Lipschitz operator (Zorn / Kirszbraun-Valentine) is NOT proved here and
      stays in the trusted base. *)
  Definition graph_of (l : list tri) : @graph E := fun x g => exists f, In (x, g, f) l.

  Definition all_pairs (r : E -> E -> E -> E -> R) (l : list tri) : Prop :=
    forall xi gi fi xj gj fj, In (xi, gi, fi) l -> In (xj, gj, fj) l -> r xi gi xj gj <= 0.

  Lemma graph_pairs_iff (r : E -> E -> E -> E -> R) (Q : E -> E -> E -> E -> Prop) l :
    (forall x u y v, r x u y v <= 0 <-> Q x u y v) ->
    (all_pairs r l <-> forall x u y v, graph_of l x u -> graph_of l y v -> Q x u y v).
  Proof.
    intro H. split.
    - intros Hp x u y v [fx Hx] [fy Hy]. apply H. apply (Hp _ _ _ _ _ _ Hx Hy).
    - intros Hq xi gi fi xj gj fj Hi Hj. apply H. apply Hq; [exists fi; exact Hi|exists fj; exact Hj].
  Qed.

  Theorem suff_graph_classes (l : list tri) :
    (forall s, In s l -> genuine_op (graph_of l) s) /\
    (all_pairs ref_monotone l <-> monotone_op (graph_of l)) /\
    (forall mu, all_pairs (ref_strong_monotone mu) l <-> strongly_monotone_op mu (graph_of l)) /\
    (forall beta, all_pairs (ref_cocoercive beta) l <-> cocoercive_op beta (graph_of l)) /\
    (forall rho, all_pairs (ref_neg_comonotone rho) l <-> neg_comonotone_op rho (graph_of l)) /\
    (forall L, all_pairs (ref_lipschitz L) l <-> lipschitz_op L (graph_of l)) /\
    (all_pairs ref_nonexpansive l <-> nonexpansive_op (graph_of l)).
  Proof.
    split; [intros [[x g] f] Hs; exists f; exact Hs|].
    split; [|split; [|split; [|split; [|split]]]]; intros;
      apply graph_pairs_iff; intros x u y v;
      unfold ref_monotone, ref_strong_monotone, ref_cocoercive, ref_neg_comonotone, ref_lipschitz,
             ref_nonexpansive; split; intro; lra.
  Qed.
End Suff.

(** * Non-vacuity on the real line *)

(** three samples of |x|: at -1 (slope -1), at 0 (subgradient 0), at 1 (slope 1) *)
Definition ex_abs : list (@triple R1) := [(-1, -1, 1); (0, 0, 0); (1, 1, 1)].

Ltac ex_pairs H1 H2 :=
  cbn [In] in H1, H2;
  destruct H1 as [H1|[H1|[H1|[]]]]; inversion H1; subst; clear H1;
  destruct H2 as [H2|[H2|[H2|[]]]]; inversion H2; subst; clear H2.

Example suff_convex_nonvacuous :
  ex_abs <> [] /\ convex_cond ex_abs /\
  exists F : @fn R1, convex_seg F /\ forall s, In s ex_abs -> genuine_sub F s.
Proof.
  assert (Hc : convex_cond ex_abs).
  { intros xi gi fi xj gj fj Hi Hj. unfold ex_abs in Hi, Hj.
    ex_pairs Hi Hj; unfold ref_convex, vsub, vneg; cbn; lra. }
  assert (Hne : ex_abs <> []) by (unfold ex_abs; discriminate).
  split; [exact Hne|]. split; [exact Hc|].
  destruct (suff_convex ex_abs Hne Hc) as [F [_ [HF [_ Hg]]]]. exists F. split; assumption.
Qed.

(** three samples of x^2 (2-strongly convex): at -1, 0, 1 *)
Definition ex_sq : list (@triple R1) := [(-1, -2, 1); (0, 0, 0); (1, 2, 1)].

Example suff_strongly_convex_nonvacuous :
  ex_sq <> [] /\ strongly_convex_cond 2 ex_sq /\
  exists F : @fn R1, strongly_convex_member 2 F /\ forall s, In s ex_sq -> genuine_sub F s.
Proof.
  assert (Hc : strongly_convex_cond 2 ex_sq).
  { intros xi gi fi xj gj fj Hi Hj. unfold ex_sq in Hi, Hj.
    ex_pairs Hi Hj; unfold ref_strongly_convex, nrm2, vsub, vneg; cbn; lra. }
  assert (Hne : ex_sq <> []) by (unfold ex_sq; discriminate).
  split; [exact Hne|]. split; [exact Hc|].
  destruct (suff_strongly_convex 2 ex_sq ltac:(lra) Hne Hc) as [F [HF [_ [_ Hg]]]].
  exists F. split; assumption.
Qed.

(** three samples of the indicator of [-1, 1] (diameter 2): normal cones (-inf,0], {0}, [0,+inf) *)
Definition ex_ind : list (@triple R1) := [(-1, -1, 0); (0, 0, 0); (1, 1, 0)].

Example suff_indicator_nonvacuous :
  indicator_cond (Some 2) ex_ind /\
  exists F : @fn R1, indicator_member (Some 2) F /\ convex_seg F /\ forall s, In s ex_ind -> genuine_sub F s.
Proof.
  assert (Hc : indicator_cond (Some 2) ex_ind).
  { split; [|split].
    - intros x g f H. unfold ex_ind in H. cbn [In] in H.
      destruct H as [H|[H|[H|[]]]]; inversion H; reflexivity.
    - intros xi gi fi xj gj fj Hi Hj. unfold ex_ind in Hi, Hj.
      ex_pairs Hi Hj; unfold ref_ind_normal, vsub, vneg; cbn; lra.
    - intros xi gi fi xj gj fj Hi Hj. unfold ex_ind in Hi, Hj.
      ex_pairs Hi Hj; unfold ref_diameter, nrm2, vsub, vneg; cbn; lra. }
  split; [exact Hc|].
  destruct (suff_indicator (Some 2) ex_ind Hc) as [F [HF [HC [_ Hg]]]].
  exists F. split; [exact HF|]. split; assumption.
Qed.

(** the same three triples read as samples of a 1-Lipschitz convex function (|x|), of the support
    function of [-1, 1] (sigma = |x|, the g_i in C, M = 1), and of a monotone nonexpansive operator
    (the graph {(-1,-1), (0,0), (1,1)}) *)
Example suff_lipschitz_nonvacuous :
  bounded_cond 1 ex_abs /\
  exists F : @fn R1, lipschitz_fn 1 F /\ convex_seg F /\ forall s, In s ex_abs -> genuine_sub F s.
Proof.
  assert (Hb : bounded_cond 1 ex_abs).
  { intros x g f H. unfold ex_abs in H. cbn [In] in H.
    destruct H as [H|[H|[H|[]]]]; inversion H; subst; unfold ref_bounded_g, nrm2; cbn; lra. }
  split; [exact Hb|].
  destruct suff_convex_nonvacuous as [Hne [Hc _]].
  destruct (suff_convex_lipschitz 1 ex_abs Hne Hc Hb) as [F [HL [_ [HC Hg]]]].
  exists F. split; [exact HL|]. split; assumption.
Qed.

Example suff_support_nonvacuous :
  support_cond (Some 1) ex_abs /\
  exists (C : R1 -> Prop) (sigma : R1 -> R),
    support_member (Some 1) C sigma /\ forall s, In s ex_abs -> genuine_support C sigma s.
Proof.
  assert (Hc : support_cond (Some 1) ex_abs).
  { split; [|split].
    - intros x g f H. unfold ex_abs in H. cbn [In] in H.
      destruct H as [H|[H|[H|[]]]]; inversion H; subst; unfold ref_sup_fenchel; cbn; lra.
    - intros xi gi fi xj gj fj Hi Hj. unfold ex_abs in Hi, Hj.
      ex_pairs Hi Hj; unfold ref_sup_convex, vsub, vneg; cbn; lra.
    - apply (proj1 suff_lipschitz_nonvacuous). }
  split; [exact Hc|].
  destruct (suff_support (Some 1) ex_abs (proj1 suff_convex_nonvacuous) Hc) as [C [sigma [HS [_ [_ Hg]]]]].
  exists C, sigma. split; assumption.
Qed.

Example suff_graph_nonvacuous :
  all_pairs ref_monotone ex_abs /\ all_pairs ref_nonexpansive ex_abs /\
  monotone_op (graph_of ex_abs) /\ nonexpansive_op (graph_of ex_abs).
Proof.
  assert (H1 : all_pairs ref_monotone ex_abs).
  { intros xi gi fi xj gj fj Hi Hj. unfold ex_abs in Hi, Hj.
    ex_pairs Hi Hj; unfold ref_monotone, vsub, vneg; cbn; lra. }
  assert (H2 : all_pairs ref_nonexpansive ex_abs).
  { intros xi gi fi xj gj fj Hi Hj. unfold ex_abs in Hi, Hj.
    ex_pairs Hi Hj; unfold ref_nonexpansive, nrm2, vsub, vneg; cbn; lra. }
  destruct (suff_graph_classes ex_abs) as [_ [Hm [_ [_ [_ [_ Hn]]]]]].
  split; [exact H1|]. split; [exact H2|]. split; [apply Hm, H1|apply Hn, H2].
Qed.
