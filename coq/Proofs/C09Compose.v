(** C09, composition: the samples PEPit records for a function during ANY run of a method are, at the
    values the real run gives the leaves, genuine samples of the real function (MethodLemmas); hence
    (C03, whose theorems are about the formulas and plans regenerated from the sources) every class
    constraint PEPit generates from them holds at those values.  Together with C09Bound this is the
    whole argument: items hold => feasible point => weak duality => performance <= tau. *)
From Coq Require Import List QArith Reals Qreals Lra Arith Bool String.
From PV Require Import Base.IPS Model.Dict Model.Terms Model.Method Model.MethodDump Model.ClassGen
  Spec.Sem Spec.World Spec.Classes Proofs.DictLemmas Proofs.SemLemmas Proofs.MethodLemmas Proofs.C04Lemmas Proofs.C03Core Proofs.C03Assembly.
From PV Require Import Gen.Classes.
Import ListNotations.
Local Open Scope R_scope.

(** the recorded triples of function [f], as the class generator sees them.  The identity of a triplet
    is its position in the recording order; stationary samples are those with an empty gradient
    dictionary (function.py: [if g.decomposition_dict == dict()]), sharing identity with the same
    triplet in the list of all points. *)
Fixpoint to_samples (uid : nat) (l : list msample) : list sample :=
  match l with
  | [] => []
  | (x, g, fx) :: l' => mkSample x g fx None uid 0 0 [] :: to_samples (S uid) l'
  end.

Definition is_stationary (s : sample) : bool := match s_g s with [] => true | _ => false end.

Definition fstate_of (par : nat -> Q) (s : mstate) (f : nat) : fstate :=
  let pts := to_samples 0 (samples_of f s) in
  mkF "f" par (fun _ => false) pts (filter is_stationary pts) [] None (m_np s) (m_ne s) (List.length pts) 0 (fun _ => 0%Q).

(** evaluated points come from Python dictionaries: unique keys *)
Definition op_nodup (o : mop) : Prop :=
  match o with MEval _ p => NoDupKeys nat p | MProx _ p _ => NoDupKeys nat p | MLinOpt _ dir => NoDupKeys nat dir
  | MInexact _ p _ _ => NoDupKeys nat p | MEpsSub _ p => NoDupKeys nat p
  | MBregGrad _ gx0 sx0 _ => NoDupKeys nat gx0 /\ NoDupKeys nat sx0 | MBregProx _ _ sx0 _ => NoDupKeys nat sx0
  | MInexactProx _ x0 _ _ => NoDupKeys nat x0
  | _ => True end.

(** worlds without an exact line search *)
Lemma no_ls {E : ips} (o : nat -> E -> E * R) (l : nat -> E -> list E -> E) f x0 ds :
  false = true ->
  let x := l f x0 ds in inner (vsub x x0) (fst (o f x)) = 0 /\ forall d, In d ds -> inner d (fst (o f x)) = 0.
Proof. discriminate. Qed.

(** what it means for [ls] to be an exact line / span search for a function with gradient map [g]: the gradient
    at the returned point is orthogonal to the displacement and to every direction; [hs = false]: none claimed *)
Definition ls_spec {E : ips} (g : E -> E) (hs : bool) (ls : E -> list E -> E) : Prop :=
  hs = true -> forall x0 ds,
    let x := ls x0 ds in inner (vsub x x0) (g x) = 0 /\ forall d, In d ds -> inner d (g x) = 0.

(** the exact oracle output is an inexact direction of any accuracy *)
Lemma exact_inexact_bound {E : ips} (o : nat -> E -> E * R) (f : nat) (relative : bool) (eps : R) (x : E) :
  nrm2 (vsub (fst (o f x)) (fst (o f x))) <= eps ^ 2 * (if relative then nrm2 (fst (o f x)) else 1).
Proof.
  assert (H0 : nrm2 (vsub (fst (o f x)) (fst (o f x))) = 0).
  { unfold nrm2. rewrite inner_sub_l, !inner_sub_r. lra. }
  rewrite H0. apply Rmult_le_pos; [apply pow2_ge_0|]. destruct relative; [apply inner_pos|lra].
Qed.

(** worlds without a linear minimisation oracle *)
Lemma no_lmo {E : ips} (G : nat -> E * E * R -> Prop) (l : nat -> E -> E * R) f d :
  false = true -> G f (fst (l f d), vneg d, snd (l f d)).
Proof. discriminate. Qed.

(** the oracle's own output is an epsilon-subgradient of accuracy 0 (the conjugate is attained at the point itself) *)
Definition exact_epssub {E : ips} (o : nat -> E -> E * R) : nat -> E -> (E * R) * (E * R) :=
  fun f x => ((fst (o f x), 0), (x, snd (o f x))).
Lemma exact_epssub_spec {E : ips} (o : nat -> E -> E * R) (G : nat -> E * E * R -> Prop)
    (Ho : forall f x, G f (x, fst (o f x), snd (o f x))) f x0 :
  G f (x0, fst (o f x0), snd (o f x0)) /\
  snd (o f x0) + (inner (fst (o f x0)) x0 - snd (o f x0)) - inner (fst (o f x0)) x0 <= 0.
Proof. split; [apply Ho|lra]. Qed.

(** worlds without mirror maps / Bregman proximal operators *)
Lemma no_mirror {E : ips} (G : nat -> E * E * R -> Prop) (m : nat -> E -> E * R) h s :
  false = true -> G h (fst (m h s), s, snd (m h s)).
Proof. discriminate. Qed.
Lemma no_bprox {E : ips} (G : nat -> E * E * R -> Prop) (b : nat -> nat -> R -> E -> (E * E) * (R * R)) h f gamma s0 :
  false = true -> 0 < gamma ->
  G f (fst (fst (b h f gamma s0)), snd (fst (b h f gamma s0)), fst (snd (b h f gamma s0))) /\
  G h (fst (fst (b h f gamma s0)), vsub s0 (vscal gamma (snd (fst (b h f gamma s0)))), snd (snd (b h f gamma s0))).
Proof. discriminate. Qed.

(** an approximate proximal operator every world has: 'PD_gapI' / 'PD_gapII' stay at x0 (x = w = x0, v = gx = the oracle's
    output there), 'PD_gapIII' takes the explicit step x = x0 - gamma g (w = x0, v = (x0 - x) / gamma = g); the accuracy
    returned is the value of the criterion *)
Definition exact_iprox {E : ips} (o : nat -> E -> E * R) : nat -> ipopt -> R -> E -> ((E * E * R) * (E * E * R)) * R :=
  fun f opt gamma x0 =>
    let g := fst (o f x0) in let v0 := snd (o f x0) in
    match opt with
    | PDgapI => (((x0, g, v0), (x0, g, v0)),
                 nrm2 (vadd (vsub x0 x0) (vscal gamma g)) / 2 + gamma * (v0 - v0 - inner g (vsub x0 x0)))
    | PDgapII => (((x0, g, v0), (x0, g, v0)), nrm2 (vadd (vsub x0 x0) (vscal gamma g)) / 2)
    | PDgapIII => let x := vsub x0 (vscal gamma g) in
                  (((x0, g, v0), (x, fst (o f x), snd (o f x))),
                   gamma * (snd (o f x) - v0 - inner (vscal (1 / gamma) (vsub x0 x)) (vsub x x0)))
    end.
Lemma exact_iprox_spec {E : ips} (o : nat -> E -> E * R) (G : nat -> E * E * R -> Prop)
    (Ho : forall f x, G f (x, fst (o f x), snd (o f x)))
    (Hv : forall f x g g' v, G f (x, g, v) -> veq g g' -> G f (x, g', v)) f opt gamma x0 :
  0 < gamma ->
  let r := exact_iprox o f opt gamma x0 in
  let w := fst (fst (fst (fst r))) in let v := snd (fst (fst (fst r))) in let fw := snd (fst (fst r)) in
  let x := fst (fst (snd (fst r))) in let gx := snd (fst (snd (fst r))) in let fx := snd (snd (fst r)) in
  G f (x, gx, fx) /\
  match opt with
  | PDgapI => G f (w, v, fw) /\
              nrm2 (vadd (vsub x x0) (vscal gamma v)) / 2 + gamma * (fx - fw - inner v (vsub x w)) <= snd r
  | PDgapII => nrm2 (vadd (vsub x x0) (vscal gamma gx)) / 2 <= snd r
  | PDgapIII => G f (w, vscal (1 / gamma) (vsub x0 x), fw) /\
                gamma * (fx - fw - inner (vscal (1 / gamma) (vsub x0 x)) (vsub x w)) <= snd r
  end.
Proof.
  intros Hg. destruct opt; cbn [exact_iprox fst snd].
  - split; [apply Ho|]. split; [apply Ho|apply Rle_refl].
  - split; [apply Ho|apply Rle_refl].
  - split; [apply Ho|]. split; [|apply Rle_refl].
    apply (Hv f x0 (fst (o f x0))); [apply Ho|].
    intros w. rewrite inner_scal_l, !inner_sub_l, inner_scal_l. field. lra.
Qed.

(** what it means for [ie] to be an inexact oracle for the map [g] (the gradient): within the accuracy, in the
    absolute or the relative sense *)
Definition inexact_spec {E : ips} (g : E -> E) (ie : bool -> R -> E -> E) : Prop :=
  forall (relative : bool) (eps : R) (x : E),
    nrm2 (vsub (g x) (ie relative eps x)) <= eps ^ 2 * (if relative then nrm2 (g x) else 1).

(** what it means for [res] to be the proximal operator (resolvent) of the member a world is made of, in the
    world's own notion [G] of a genuine sample ([valf]: the value recorded at a point): the proximal point, with
    (x0 - prox)/gamma and the value there, is a genuine sample.  [hp = false]: no proximal operator is claimed
    (programs then contain no proximal step on the function, [steps_ok]). *)
Definition prox_spec {E : ips} (G : E * E * R -> Prop) (valf : E -> R) (hp : bool) (res : R -> E -> E) : Prop :=
  hp = true -> forall gamma x0, 0 < gamma ->
    G (res gamma x0, vscal (1 / gamma) (vsub x0 (res gamma x0)), valf (res gamma x0)).

Lemma In_to_samples uid l s :
  In s (to_samples uid l) -> exists t, In t l /\ s_x s = fst (fst t) /\ s_g s = snd (fst t) /\ s_f s = snd t.
Proof.
  revert uid. induction l as [|[[x g] fx] l IH]; intros uid; cbn [to_samples In]; [tauto|].
  intros [<-|H].
  - exists (x, g, fx). cbn. auto.
  - destruct (IH _ H) as (t & Ht & E). exists t. auto.
Qed.

Lemma In_samples_of f s t : In t (samples_of f s) -> In (f, t) (m_samples s).
Proof.
  unfold samples_of. rewrite in_flat_map. intros [[f' t'] [Hin H]].
  destruct (Nat.eqb_spec f f') as [->|]; [|destruct H]. destruct H as [->|[]]. exact Hin.
Qed.

Section Compose.
  Context {E : ips}.
  Variable W : @world E.

  (** well-formedness of what a run records *)
  Lemma recorded_nodup ops : forall s,
    Forall op_nodup ops ->
    (forall f t, In (f, t) (m_samples s) -> NoDupKeys nat (fst (fst t)) /\ NoDupKeys nat (snd (fst t)) /\ NoDupKeys ekey (snd t)) ->
    forall f t, In (f, t) (m_samples (mrun ops s)) ->
      NoDupKeys nat (fst (fst t)) /\ NoDupKeys nat (snd (fst t)) /\ NoDupKeys ekey (snd t).
  Proof.
    induction ops as [|o ops IH]; intros s Hnd Hs; cbn [mrun fold_left]; [exact Hs|].
    inversion Hnd as [|? ? Ho Hnd']; subst. apply (IH (mstep s o) Hnd').
    intros f t Hin. destruct o as [|g p|g|g p gamma|g dir|g p rel eps|g x0 dirs|g p|h gx0 sx0 gamma|h g sx0 gamma|g x0 gamma opt];
      cbn [mstep m_samples] in Hin.
    - apply (Hs f t Hin).
    - apply in_app_or in Hin as [Hin|[Heq|[]]]; [apply (Hs f t Hin)|]. injection Heq as <- <-. cbn [fst snd].
      split; [exact Ho|]. split; [apply NoDupKeys_single|apply NoDupKeys_single].
    - apply in_app_or in Hin as [Hin|[Heq|[]]]; [apply (Hs f t Hin)|]. injection Heq as <- <-. cbn [fst snd].
      split; [apply NoDupKeys_single|]. split; [apply NoDupKeys_nil|apply NoDupKeys_single].
    - apply in_app_or in Hin as [Hin|[Heq|[]]]; [apply (Hs f t Hin)|]. injection Heq as <- <-. cbn [fst snd].
      split; [|split; [apply NoDupKeys_single|apply NoDupKeys_single]].
      apply NoDupKeys_prune. apply pND_sub; [exact Ho|]. apply NoDupKeys_single.
    - apply in_app_or in Hin as [Hin|[Heq|[]]]; [apply (Hs f t Hin)|]. injection Heq as <- <-. cbn [fst snd].
      split; [apply NoDupKeys_single|split; [|apply NoDupKeys_single]].
      apply NoDupKeys_prune. apply pND_neg. exact Ho.
    - apply in_app_or in Hin as [Hin|[Heq|[]]]; [apply (Hs f t Hin)|]. injection Heq as <- <-. cbn [fst snd].
      split; [exact Ho|]. split; [apply NoDupKeys_single|apply NoDupKeys_single].
    - apply in_app_or in Hin as [Hin|[Heq|[]]]; [apply (Hs f t Hin)|]. injection Heq as <- <-. cbn [fst snd].
      split; [apply NoDupKeys_single|]. split; [apply NoDupKeys_single|apply NoDupKeys_single].
    - apply in_app_or in Hin as [Hin|[Heq|[Heq|[]]]]; [apply (Hs f t Hin)| |]; injection Heq as <- <-; cbn [fst snd].
      + split; [exact Ho|]. split; [apply NoDupKeys_single|apply NoDupKeys_single].
      + split; [apply NoDupKeys_single|]. split; [apply NoDupKeys_single|apply NoDupKeys_single].
    - apply in_app_or in Hin as [Hin|[Heq|[]]]; [apply (Hs f t Hin)|]. injection Heq as <- <-. cbn [fst snd].
      destruct Ho as [Hog Hos].
      split; [apply NoDupKeys_single|split; [|apply NoDupKeys_single]].
      unfold breg_dual. apply NoDupKeys_prune. apply pND_sub; [exact Hos|]. apply pND_scal. exact Hog.
    - apply in_app_or in Hin as [Hin|[Heq|[Heq|[]]]]; [apply (Hs f t Hin)| |]; injection Heq as <- <-; cbn [fst snd].
      + split; [apply NoDupKeys_single|]. split; [apply NoDupKeys_single|apply NoDupKeys_single].
      + split; [apply NoDupKeys_single|split; [|apply NoDupKeys_single]].
        unfold breg_dual. apply NoDupKeys_prune. apply pND_sub; [exact Ho|]. apply pND_scal. apply NoDupKeys_single.
    - destruct opt; cbn [mstep m_samples] in Hin.
      + apply in_app_or in Hin as [Hin|[Heq|[Heq|[]]]]; [apply (Hs f t Hin)| |]; injection Heq as <- <-; cbn [fst snd];
          (split; [apply NoDupKeys_single|]; split; [apply NoDupKeys_single|apply NoDupKeys_single]).
      + apply in_app_or in Hin as [Hin|[Heq|[]]]; [apply (Hs f t Hin)|]. injection Heq as <- <-. cbn [fst snd].
        split; [|split; [apply NoDupKeys_single|apply NoDupKeys_single]].
        unfold ip2_point. apply NoDupKeys_prune. apply pND_add; [|apply NoDupKeys_single].
        apply pND_sub; [exact Ho|]. apply pND_scal. apply NoDupKeys_single.
      + apply in_app_or in Hin as [Hin|[Heq|[Heq|[]]]]; [apply (Hs f t Hin)| |]; injection Heq as <- <-; cbn [fst snd].
        * split; [apply NoDupKeys_single|]. split; [apply NoDupKeys_single|apply NoDupKeys_single].
        * split; [apply NoDupKeys_single|split; [|apply NoDupKeys_single]].
          unfold ip3_grad. apply NoDupKeys_prune. apply pND_div. apply pND_sub; [exact Ho|apply NoDupKeys_single].
  Qed.

  (** Every sample the class generator sees is well formed and genuine at the values of the run. *)
  Theorem run_state_genuine (par : nat -> Q) ops vs f :
    mwf ops minit = true -> steps_ok W ops = true -> Forall op_nodup ops ->
    let s := mrun ops minit in
    let rho := fst (wrun W ops minit vs) in
    let phi := snd (wrun W ops minit vs) in
    wf_state (fstate_of par s f) /\
    forall sm, In sm (f_points (fstate_of par s f)) -> Gen W f (sval rho phi sm).
  Proof.
    intros Hwf Hpx Hnd s rho phi.
    assert (Hpts : forall sm, In sm (f_points (fstate_of par s f)) ->
              wf_sample sm /\ Gen W f (sval rho phi sm)).
    { intros sm Hin. cbn [fstate_of f_points] in Hin.
      apply In_to_samples in Hin as (t & Ht & Ex & Eg & Ef).
      apply In_samples_of in Ht.
      destruct (recorded_nodup ops minit Hnd (fun _ _ (H : In _ []) => match H with end) f t Ht) as (N1 & N2 & N3).
      split.
      - unfold wf_sample. rewrite Ex, Eg, Ef. auto.
      - pose proof (proj2 (world_samples_genuine_init W ops vs Hwf Hpx f t Ht)) as G.
        destruct t as [[x g] fx]. cbn [fst snd] in *. unfold sval, px, pg, pf. rewrite Ex, Eg, Ef. exact G. }
    split.
    - unfold wf_state. split; [|split; [|split]].
      + intros sm Hin. apply (Hpts sm Hin).
      + intros sm Hin. cbn [fstate_of f_stat] in Hin. apply filter_In in Hin as [Hin _]. apply (Hpts sm Hin).
      + intros sm [].
      + exact I.
    - intros sm Hin. apply (Hpts sm Hin).
  Qed.
End Compose.

(** ** Two instances: a differentiable class and a non-differentiable one. *)
Section Instances.
  Context {E : ips}.

  (** functions on E are observed through inner products only *)
  Definition respects_veq (F : @dfn E) : Prop :=
    forall x x' : E, veq x x' -> veq (dgrad F x) (dgrad F x') /\ dval F x = dval F x'.

  (** world of one differentiable function with a stationary point [xs] *)
  Section DfnWorld.
    Variable F : @dfn E.
    Variable xs : E.
    Hypothesis Hxs : veq (dgrad F xs) vzero.
    Hypothesis Hext : respects_veq F.
    (* optionally: the resolvent of the gradient, res gamma x0 + gamma * grad F (res gamma x0) = x0 *)
    Variable hp : bool.
    Variable res : R -> E -> E.
    Hypothesis Hres : prox_spec (genuine_grad F) (dval F) hp res.
    (* an inexact first-order oracle: ie relative eps x is within the accuracy eps of the gradient at x
       (e.g. the gradient itself, [exact_direction]) *)
    Variable ie : bool -> R -> E -> E.
    Hypothesis Hie : inexact_spec (dgrad F) ie.
    (* optionally: an exact line / span search *)
    Variable hs : bool.
    Variable ls : E -> list E -> E.
    Hypothesis Hls : ls_spec (dgrad F) hs ls.

    Lemma dfn_orc_genuine (f : nat) (x : E) : genuine_grad F (x, dgrad F x, dval F x).
    Proof. split; [apply veq_refl|reflexivity]. Qed.
    Lemma dfn_stat_genuine (f : nat) : genuine_grad F (xs, vzero, dval F xs).
    Proof. split; [apply veq_sym; exact Hxs|reflexivity]. Qed.
    Lemma dfn_gen_veq (f : nat) (x g g' : E) (v : R) : genuine_grad F (x, g, v) -> veq g g' -> genuine_grad F (x, g', v).
    Proof. intros [H1 H2] Hg. split; [|exact H2]. eapply veq_trans; [apply veq_sym; exact Hg|exact H1]. Qed.
    Lemma dfn_gen_xveq (f : nat) (x x' g : E) (v : R) : genuine_grad F (x, g, v) -> veq x x' -> genuine_grad F (x', g, v).
    Proof.
      intros [H1 H2] Hx. destruct (Hext x x' Hx) as [Hg Hf].
      split; [eapply veq_trans; [exact H1|exact Hg]|rewrite H2; exact Hf].
    Qed.

    Definition dfn_world : @world E :=
      mkW (fun _ x => (dgrad F x, dval F x)) (fun _ t => genuine_grad F t) (fun _ => (xs, dval F xs))
          dfn_orc_genuine dfn_stat_genuine dfn_gen_veq dfn_gen_xveq
          (fun _ => hp) (fun _ => res) (fun _ gamma x0 => dval F (res gamma x0))
          (fun _ gamma x0 H Hg => Hres H gamma x0 Hg)
          (fun _ => false) (fun _ d => (d, 0)) (no_lmo _ _)
          (fun _ => ie) (fun _ => Hie)
          (fun _ => hs) (fun _ => ls) (fun _ x0 ds H => Hls H x0 ds)
          (exact_epssub (fun _ x => (dgrad F x, dval F x)))
          (exact_epssub_spec (fun _ x => (dgrad F x, dval F x)) (fun _ t => genuine_grad F t) dfn_orc_genuine)
          (fun _ => false) (fun _ sd => (sd, 0)) (no_mirror _ _)
          (fun _ _ => false) (fun _ _ _ sd => ((sd, sd), (0, 0))) (no_bprox _ _)
          (exact_iprox (fun _ x => (dgrad F x, dval F x)))
          (exact_iprox_spec (fun _ x => (dgrad F x, dval F x)) (fun _ t => genuine_grad F t) dfn_orc_genuine dfn_gen_veq).
  End DfnWorld.

  (** Any first-order method run on any real mu-strongly convex L-smooth function: every interpolation
      constraint PEPit generates for the recorded samples holds at the values of the run. *)
  Theorem run_satisfies_smooth_strongly_convex (mu L : R) (qmu qL : Q) (F : @dfn E) (xs : E)
      (Hxs : veq (dgrad F xs) vzero) (Hext : respects_veq F)
      (hp : bool) (res : R -> E -> E) (Hres : prox_spec (genuine_grad F) (dval F) hp res)
      (ie : bool -> R -> E -> E) (Hie : inexact_spec (dgrad F) ie)
      (hs : bool) (ls : E -> list E -> E) (Hls : ls_spec (dgrad F) hs ls) ops vs :
    0 <= mu < L -> smooth_strongly_convex_member mu L F ->
    Q2R qL = L -> Q2R qmu = mu ->
    mwf ops minit = true -> Forall op_nodup ops ->
    let W := dfn_world F xs Hxs Hext hp res Hres ie Hie hs ls Hls in
    steps_ok W ops = true ->
    let par := fun p => match p with 0%nat => qL | 1%nat => qmu | _ => 0%Q end in
    all_satisfied (fst (wrun W ops minit vs)) (snd (wrun W ops minit vs))
      (run_plan plan_SmoothStronglyConvexFunction (fstate_of par (mrun ops minit) 0)).
  Proof.
    intros Hr HF HL Hmu Hwf Hnd W Hpx par.
    destruct (run_state_genuine W par ops vs 0 Hwf Hpx Hnd) as [Hst Hgen].
    apply (c03_SmoothStronglyConvexFunction _ _ mu L F); try assumption.
  Qed.

  (** world of one convex (possibly non-differentiable, extended-valued) function: the oracle picks a
      subgradient [sel x] at every point of its domain; [xs] is a minimiser *)
  Definition fn_respects_veq (F : @fn E) : Prop :=
    forall x x' : E, veq x x' -> (dom F x -> dom F x') /\ val F x = val F x'.

  Section FnWorld.
    Variable F : @fn E.
    Variable sel : E -> E.
    Hypothesis Hsel : forall x, subgrad F x (sel x).
    Variable xs : E.
    Hypothesis Hxs : subgrad F xs vzero.
    Hypothesis Hext : fn_respects_veq F.
    (* optionally: the proximal operator of F *)
    Variable hp : bool.
    Variable res : R -> E -> E.
    Hypothesis Hres : prox_spec (genuine_sub F) (val F) hp res.

    Lemma fn_orc_genuine (f : nat) (x : E) : genuine_sub F (x, sel x, val F x).
    Proof. split; [apply Hsel|reflexivity]. Qed.
    Lemma fn_stat_genuine (f : nat) : genuine_sub F (xs, vzero, val F xs).
    Proof. split; [exact Hxs|reflexivity]. Qed.
    Lemma fn_gen_veq (f : nat) (x g g' : E) (v : R) : genuine_sub F (x, g, v) -> veq g g' -> genuine_sub F (x, g', v).
    Proof.
      intros [[Hd Hs] Hv] Hq. split; [|exact Hv]. split; [exact Hd|]. intros y Hy.
      rewrite <- (Hq (vsub y x)). apply Hs, Hy.
    Qed.
    Lemma fn_gen_xveq (f : nat) (x x' g : E) (v : R) : genuine_sub F (x, g, v) -> veq x x' -> genuine_sub F (x', g, v).
    Proof.
      intros [[Hd Hs] Hv] Hq. destruct (Hext x x' Hq) as [Hdom Hval].
      split; [|rewrite Hv; exact Hval]. split; [apply Hdom, Hd|]. intros y Hy.
      rewrite <- Hval. specialize (Hs y Hy).
      assert (Hin : inner g (vsub y x') = inner g (vsub y x)).
      { rewrite !inner_sub_r. f_equal. rewrite !(inner_sym E g). symmetry. apply Hq. }
      rewrite Hin. exact Hs.
    Qed.

    Definition fn_world : @world E :=
      mkW (fun _ x => (sel x, val F x)) (fun _ t => genuine_sub F t) (fun _ => (xs, val F xs))
          fn_orc_genuine fn_stat_genuine fn_gen_veq fn_gen_xveq
          (fun _ => hp) (fun _ => res) (fun _ gamma x0 => val F (res gamma x0))
          (fun _ gamma x0 H Hg => Hres H gamma x0 Hg)
          (fun _ => false) (fun _ d => (d, 0)) (no_lmo _ _)
          (fun f _ _ x => sel x) (exact_inexact_bound (fun _ x => (sel x, val F x)))
          (fun _ => false) (fun _ x0 _ => x0) (no_ls _ _)
          (exact_epssub (fun _ x => (sel x, val F x)))
          (exact_epssub_spec (fun _ x => (sel x, val F x)) (fun _ t => genuine_sub F t) fn_orc_genuine)
          (fun _ => false) (fun _ sd => (sd, 0)) (no_mirror _ _)
          (fun _ _ => false) (fun _ _ _ sd => ((sd, sd), (0, 0))) (no_bprox _ _)
          (exact_iprox (fun _ x => (sel x, val F x)))
          (exact_iprox_spec (fun _ x => (sel x, val F x)) (fun _ t => genuine_sub F t) fn_orc_genuine fn_gen_veq).
  End FnWorld.

  Theorem run_satisfies_convex (F : @fn E) (sel : E -> E) (Hsel : forall x, subgrad F x (sel x))
      (xs : E) (Hxs : subgrad F xs vzero) (Hext : fn_respects_veq F)
      (hp : bool) (res : R -> E -> E) (Hres : prox_spec (genuine_sub F) (val F) hp res) ops vs :
    mwf ops minit = true -> Forall op_nodup ops ->
    let W := fn_world F sel Hsel xs Hxs Hext hp res Hres in
    steps_ok W ops = true ->
    all_satisfied (fst (wrun W ops minit vs)) (snd (wrun W ops minit vs))
      (run_plan plan_ConvexFunction (fstate_of (fun _ => 0%Q) (mrun ops minit) 0)).
  Proof.
    intros Hwf Hnd W Hpx.
    destruct (run_state_genuine W (fun _ => 0%Q) ops vs 0 Hwf Hpx Hnd) as [Hst Hgen].
    apply (c03_ConvexFunction _ _ F); assumption.
  Qed.
End Instances.
