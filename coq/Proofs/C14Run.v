(** C14: interpreter of the GENERATED program [Gen.PostSolve.post_solve] (PEP._solve_with_wrapper from the first
    wrapper.solve to the last return) recording which solve each piece of data comes from, its dump for the
    correspondence stream, and the syntactic check [well_ordered].  Definitions only (so that the stream can still be
    evaluated when a changed pep.py makes the theorems of Proofs/C14PostSolve.v fail). *)
From Coq Require Import List String ZArith Bool Arith Lia.
From PV Require Import Model.Dict Model.Terms Model.Dump Gen.PostSolve.
Import ListNotations.
Open Scope string_scope.
Open Scope list_scope.

(** ** Interpreter *)
Record cfg : Type := {
  c_h : option string;              (* dimension_reduction_heuristic (None | a string) *)
  c_mode : string;                  (* return_primal_or_dual *)
  c_int : string -> option Z;       (* Python's int() on a string: None = ValueError *)
  c_none : nat -> bool              (* does the k-th solve return wc_value = None ? *)
}.

Inductive value : Type :=
| VNone                                           (* wc_value of an unbounded first solve *)
| VDualObjective (reconstructed_from : option (option nat))
      (* the variable dual_objective: None = unbound; Some d = check_feasibility's reconstruction from the
         multipliers stored on the constraints, which come from assign_dual_values after solve d *)
| VWc (solve : nat).                              (* wc_value of the given solve *)

Inductive outcome : Type := Running | Returned (v : value) | RaisedValueError.

Inductive event : Type :=
| EvSolve (k : nat)                 (* k-th call of wrapper.solve *)
| EvAssign (k : nat)                (* assign_dual_values reading the output of solve k *)
| EvGetPrimal (k : nat)
| EvEig | EvComputeW | EvStore
| EvPrepare (k : nat)               (* prepare_heuristic with the wc_value of solve k *)
| EvHeuristic (w : wkind)
| EvEval (primal_of : nat)
| EvCheck (duals_of : option nat) (wc_of : nat).

Record st : Type := {
  n_solves : nat;
  duals_of : option nat;            (* which solve the multipliers on the constraint objects come from *)
  primal_of : nat;                  (* which solve G_value, F_value come from *)
  dualobj : option (option nat);    (* the variable dual_objective *)
  trace : list event;
  out : outcome
}.

Definition init : st :=
  {| n_solves := 0; duals_of := None; primal_of := 0; dualobj := None; trace := []; out := Running |}.

Definition emit_ev (e : event) (s : st) : st :=
  {| n_solves := n_solves s; duals_of := duals_of s; primal_of := primal_of s; dualobj := dualobj s;
     trace := trace s ++ [e]; out := out s |}.
Definition finish (o : outcome) (s : st) : st :=
  {| n_solves := n_solves s; duals_of := duals_of s; primal_of := primal_of s; dualobj := dualobj s;
     trace := trace s; out := o |}.

Fixpoint lookup_case (m : string) (cases : list (string * retval)) : option retval :=
  match cases with
  | [] => None
  | (k, r) :: rest => if String.eqb m k then Some r else lookup_case m rest
  end.

Definition step (c : cfg) (a : atom) (s : st) : st :=
  match a with
  | ASolve =>
      {| n_solves := S (n_solves s); duals_of := duals_of s; primal_of := primal_of s; dualobj := dualobj s;
         trace := trace s ++ [EvSolve (S (n_solves s))]; out := out s |}
  | AReturnIfNone => if c_none c (n_solves s) then finish (Returned VNone) s else s
  | AAssignDuals =>
      {| n_solves := n_solves s; duals_of := Some (n_solves s); primal_of := primal_of s; dualobj := dualobj s;
         trace := trace s ++ [EvAssign (n_solves s)]; out := out s |}
  | AGetPrimal =>
      {| n_solves := n_solves s; duals_of := duals_of s; primal_of := n_solves s; dualobj := dualobj s;
         trace := trace s ++ [EvGetPrimal (n_solves s)]; out := out s |}
  | AEig => emit_ev EvEig s
  | APrepare => emit_ev (EvPrepare (n_solves s)) s
  | AHeuristic w => emit_ev (EvHeuristic w) s
  | AComputeW => emit_ev EvComputeW s
  | AStoreGF => emit_ev EvStore s
  | AEvalPoints => emit_ev (EvEval (primal_of s)) s
  | ACheckFeasibility =>
      {| n_solves := n_solves s; duals_of := duals_of s; primal_of := primal_of s; dualobj := Some (duals_of s);
         trace := trace s ++ [EvCheck (duals_of s) (n_solves s)]; out := out s |}
  | ARaiseValueError => finish RaisedValueError s
  | AReturnSwitch cases =>
      match lookup_case (c_mode c) cases with
      | Some RetDualObjective => finish (Returned (VDualObjective (dualobj s))) s
      | Some RetWcValue => finish (Returned (VWc (n_solves s))) s
      | None => finish RaisedValueError s
      end
  end.

(** nothing executes after a return / raise *)
Definition exec_atom (c : cfg) (a : atom) (s : st) : st :=
  match out s with Running => step c a s | _ => s end.

Definition exec_atoms (c : cfg) (l : list atom) (s : st) : st := fold_left (fun s a => exec_atom c a s) l s.

Definition hstring (c : cfg) : string := match c_h c with Some s => s | None => "" end.
Definition truthy (c : cfg) : bool := match c_h c with Some s => negb (String.eqb s "") | None => false end.

Definition exec_l1 (c : cfg) (x : lvl1) (s : st) : st :=
  match x with
  | L1 a => exec_atom c a s
  | L1Loop skip body =>
      match out s with
      | Running =>
          let h := hstring c in
          match c_int c (substring skip (String.length h - skip) h) with
          | None => finish RaisedValueError s                           (* int(...) raises ValueError *)
          | Some z => Nat.iter (Z.to_nat z) (exec_atoms c body) s       (* range(1, 1 + niter) *)
          end
      | _ => s
      end
  end.
Definition exec_l1s (c : cfg) (l : list lvl1) (s : st) : st := fold_left (fun s x => exec_l1 c x s) l s.

Definition test_holds (t : test) (h : string) : bool :=
  match t with TEqStr s => String.eqb h s | TStartsWith p => prefix p h end.

Fixpoint select (branches : list (test * list lvl1)) (orelse : list lvl1) (h : string) : list lvl1 :=
  match branches with
  | [] => orelse
  | (t, body) :: rest => if test_holds t h then body else select rest orelse h
  end.

Definition exec_l2 (c : cfg) (x : lvl2) (s : st) : st :=
  match x with
  | L2 a => exec_atom c a s
  | L2Dispatch branches orelse => exec_l1s c (select branches orelse (hstring c)) s
  end.
Definition exec_l2s (c : cfg) (l : list lvl2) (s : st) : st := fold_left (fun s x => exec_l2 c x s) l s.

Definition exec_top (c : cfg) (x : top) (s : st) : st :=
  match x with
  | T a => exec_atom c a s
  | TIfHeuristic body => if truthy c then exec_l2s c body s else s
  end.
Definition exec (c : cfg) (p : list top) (s : st) : st := fold_left (fun s x => exec_top c x s) p s.

(** dump of a run for the correspondence stream: the calls made on the wrapper, in order, and how the run ended *)
Definition dump_event (e : event) : list D :=
  match e with
  | EvSolve k => [DL [DZ 0; DN k]]
  | EvAssign k => [DL [DZ 1; DN k]]
  | EvGetPrimal k => [DL [DZ 2; DN k]]
  | EvPrepare k => [DL [DZ 3; DN k]]
  | EvHeuristic WIdentity => [DL [DZ 4; DZ 0]]
  | EvHeuristic WVar => [DL [DZ 4; DZ 1]]
  | _ => []
  end.
Definition dump_outcome (o : outcome) : D :=
  match o with
  | Returned VNone => DL [DZ 3]
  | Returned (VDualObjective (Some (Some k))) => DL [DZ 0; DN k]
  | Returned (VDualObjective _) => DL [DZ 0; DZ (-1)]
  | Returned (VWc k) => DL [DZ 1; DN k]
  | RaisedValueError => DL [DZ 2]
  | Running => DL [DZ 9]
  end.
(** [h]: the heuristic string ("" for None), [mode], [niter]: what int() returns on the suffix (None: raises),
    [unbounded]: the first solve returns None *)
Definition run_events (h : string) (mode : string) (niter : option Z) (unbounded : bool) : D :=
  let c := {| c_h := Some h; c_mode := mode; c_int := fun _ => niter; c_none := fun _ => unbounded |} in
  let s := exec c post_solve init in
  DL [DL (flat_map dump_event (trace s)); dump_outcome (out s)].

(** ** The syntactic check *)
Inductive phase : Type := PInit | PSolved | PAssigned.
Definition abs : Type := (phase * bool)%type.       (* phase, has check_feasibility run *)

Definition phase_eqb (a b : phase) : bool :=
  match a, b with PInit, PInit | PSolved, PSolved | PAssigned, PAssigned => true | _, _ => false end.
Definition abs_eqb (a b : abs) : bool := phase_eqb (fst a) (fst b) && Bool.eqb (snd a) (snd b).

Definition retval_is (r : option retval) (want : retval) : bool :=
  match r, want with
  | Some RetDualObjective, RetDualObjective => true
  | Some RetWcValue, RetWcValue => true
  | _, _ => false
  end.

Definition abs_atom (a : atom) (x : abs) : option abs :=
  let '(ph, chk) := x in
  match a with
  | ASolve => match ph with PInit => Some (PSolved, chk) | PAssigned => Some x | PSolved => None end
  | AAssignDuals => match ph with PSolved => Some (PAssigned, chk) | _ => None end
  | APrepare | AHeuristic _ => match ph with PAssigned => Some x | _ => None end
  | ACheckFeasibility => match ph with PAssigned => Some (PAssigned, true) | _ => None end
  | AReturnSwitch cases =>
      match ph with
      | PAssigned => if chk && retval_is (lookup_case "dual" cases) RetDualObjective then Some x else None
      | _ => None
      end
  | AReturnIfNone | AGetPrimal | AEig | AComputeW | AStoreGF | AEvalPoints | ARaiseValueError => Some x
  end.

Fixpoint abs_atoms (l : list atom) (x : abs) : option abs :=
  match l with
  | [] => Some x
  | a :: r => match abs_atom a x with Some x' => abs_atoms r x' | None => None end
  end.

Definition keeps (o : option abs) (x : abs) : bool :=
  match o with Some x' => abs_eqb x' x | None => false end.

Definition abs_l1 (y : lvl1) (x : abs) : option abs :=
  match y with
  | L1 a => abs_atom a x
  | L1Loop _ body => if keeps (abs_atoms body x) x then Some x else None
  end.
Fixpoint abs_l1s (l : list lvl1) (x : abs) : option abs :=
  match l with
  | [] => Some x
  | a :: r => match abs_l1 a x with Some x' => abs_l1s r x' | None => None end
  end.

Definition abs_l2 (y : lvl2) (x : abs) : option abs :=
  match y with
  | L2 a => abs_atom a x
  | L2Dispatch branches orelse =>
      if forallb (fun '(_, body) => keeps (abs_l1s body x) x) branches && keeps (abs_l1s orelse x) x
      then Some x else None
  end.
Fixpoint abs_l2s (l : list lvl2) (x : abs) : option abs :=
  match l with
  | [] => Some x
  | a :: r => match abs_l2 a x with Some x' => abs_l2s r x' | None => None end
  end.

Definition abs_top (y : top) (x : abs) : option abs :=
  match y with
  | T a => abs_atom a x
  | TIfHeuristic body => if keeps (abs_l2s body x) x then Some x else None
  end.
Fixpoint abs_prog (l : list top) (x : abs) : option abs :=
  match l with
  | [] => Some x
  | a :: r => match abs_top a x with Some x' => abs_prog r x' | None => None end
  end.

Definition well_ordered (p : list top) : bool :=
  match abs_prog p (PInit, false) with Some _ => true | None => false end.

