(** C02, "the inner products of the evaluated leaf points reproduce the (PSD projection of the) Gram matrix":
    the algebra of PEP._eval_points_and_function_values (pep.py),

        eig_val, eig_vec = eigh(G);  eig_val = maximum(eig_val, 0);
        points_values = qr((sqrt(eig_val) * eig_vec).T, mode='r')

    proved for EVERY size n and every matrix, from the SPECIFICATIONS of the two numpy routines (they stay
    trusted, and are what the harness measures on each solve):
      eigh : columns of V orthonormal  and  G = V diag(lam) V^T;
      qr   : (sqrt(lam+) V)^T = Q R with Q^T Q = I.
    Conclusions: R^T R = Gp := V diag(max(lam,0)) V^T  ([factor_reproduces_projection]);
    Gp is symmetric with a non-negative quadratic form ([projection_psd]); Gp = G when no eigenvalue is
    negative ([projection_is_identity_on_psd]); in general G - Gp = V diag(min(lam,0)) V^T, whose quadratic form
    is <= 0 and bounded by the most negative eigenvalue times |V^T c|^2 ([projection_error]); and Gp is the
    value every expression is read at ([Proofs.C02Main.gram_reading] takes it from here). *)
From Coq Require Import List Reals Lra Lia Arith Psatz.
From PV Require Import Spec.KKT Proofs.PSDLemmas.
Local Open Scope R_scope.


Lemma sumn_scal_r_aux n c f : sumn n (fun i => f i * c) = sumn n f * c.
Proof. induction n as [|n IH]; cbn [sumn]; [lra|rewrite IH; lra]. Qed.
Lemma sumn_le_aux n f g : (forall i, (i < n)%nat -> f i <= g i) -> sumn n f <= sumn n g.
Proof.
  induction n as [|n IH]; intro H; cbn [sumn]; [lra|].
  pose proof (IH (fun i Hi => H i (Nat.lt_lt_succ_r _ _ Hi))). pose proof (H n (Nat.lt_succ_diag_r n)). lra.
Qed.
Lemma sumn_minus_aux n f g : sumn n (fun i => f i - g i) = sumn n f - sumn n g.
Proof. induction n as [|n IH]; cbn [sumn]; [lra|rewrite IH; lra]. Qed.
Lemma sumn_abs_aux n f : Rabs (sumn n f) <= sumn n (fun i => Rabs (f i)).
Proof.
  induction n as [|n IH]; cbn [sumn]; [rewrite Rabs_R0; lra|].
  eapply Rle_trans; [apply Rabs_triang|]. lra.
Qed.

Definition delta (a b : nat) : R := if Nat.eqb a b then 1 else 0.

(** Q^T Q = I for an m x n matrix given as a function (rows a < m, columns b < n) *)
Definition orthonormal_cols (m n : nat) (Qm : nat -> nat -> R) : Prop :=
  forall b c, (b < n)%nat -> (c < n)%nat -> sumn m (fun a => Qm a b * Qm a c) = delta b c.

(** what numpy.linalg.eigh promises for a symmetric G: G = V diag(lam) V^T, V^T V = I *)
Record eigh_spec (n : nat) (G : nat -> nat -> R) (lam : nat -> R) (V : nat -> nat -> R) : Prop := {
  eigh_orth : orthonormal_cols n n V;
  eigh_decomp : forall i j, (i < n)%nat -> (j < n)%nat -> G i j = sumn n (fun k => lam k * V i k * V j k)
}.

(** the matrix handed to qr: row k = sqrt(max(lam_k,0)) * (k-th eigenvector) *)
Definition scaled_T (lam : nat -> R) (V : nat -> nat -> R) : nat -> nat -> R :=
  fun k i => sqrt (Rmax (lam k) 0) * V i k.

(** what numpy.linalg.qr promises: M = Q R with orthonormal columns of Q (R is n x n) *)
Record qr_spec (n : nat) (M Qm Rm : nat -> nat -> R) : Prop := {
  qr_orth : orthonormal_cols n n Qm;
  qr_prod : forall a i, (a < n)%nat -> (i < n)%nat -> M a i = sumn n (fun b => Qm a b * Rm b i)
}.

Definition proj (n : nat) (lam : nat -> R) (V : nat -> nat -> R) : nat -> nat -> R :=
  fun i j => sumn n (fun k => Rmax (lam k) 0 * V i k * V j k).

Lemma sumn_delta_l n (g : nat -> R) b : (b < n)%nat -> sumn n (fun c => delta b c * g c) = g b.
Proof.
  induction n as [|n IH]; intro Hb; [lia|]. cbn [sumn]. unfold delta at 2.
  destruct (Nat.eqb_spec b n) as [->|Hne].
  - assert (H0 : sumn n (fun c => delta n c * g c) = 0).
    { rewrite <- (sumn_zero n). apply sumn_ext. intros c Hc. unfold delta.
      destruct (Nat.eqb_spec n c); [lia|lra]. }
    rewrite H0. lra.
  - rewrite IH by lia. lra.
Qed.

(** (Q R)^T (Q R) = R^T R when Q^T Q = I *)
Lemma gram_of_product n (Qm Rm : nat -> nat -> R) :
  orthonormal_cols n n Qm ->
  forall i j,
    sumn n (fun a => sumn n (fun b => Qm a b * Rm b i) * sumn n (fun c => Qm a c * Rm c j))
    = sumn n (fun b => Rm b i * Rm b j).
Proof.
  intros Ho i j.
  (* expand the product of sums, exchange the order, collapse with Q^T Q = I *)
  transitivity (sumn n (fun b => sumn n (fun c => Rm b i * Rm c j * sumn n (fun a => Qm a b * Qm a c)))).
  - transitivity (sumn n (fun a => sumn n (fun b => sumn n (fun c => Rm b i * Rm c j * (Qm a b * Qm a c))))).
    + apply sumn_ext. intros a _. rewrite <- sumn_scal_r_aux.
      apply sumn_ext. intros b _. rewrite <- sumn_scal. apply sumn_ext. intros c _. lra.
    + rewrite sumn_swap. apply sumn_ext. intros b _. rewrite sumn_swap. apply sumn_ext. intros c _.
      rewrite sumn_scal. reflexivity.
  - apply sumn_ext. intros b Hb.
    transitivity (sumn n (fun c => delta b c * (Rm b i * Rm c j))).
    + apply sumn_ext. intros c Hc. rewrite (Ho b c Hb Hc). lra.
    + rewrite (sumn_delta_l n (fun c => Rm b i * Rm c j) b Hb). reflexivity.
Qed.

Theorem factor_reproduces_projection :
  forall n G lam V Qm Rm,
    eigh_spec n G lam V -> qr_spec n (scaled_T lam V) Qm Rm ->
    forall i j, (i < n)%nat -> (j < n)%nat ->
      sumn n (fun b => Rm b i * Rm b j) = proj n lam V i j.
Proof.
  intros n G lam V Qm Rm _ [Ho Hp] i j Hi Hj.
  rewrite <- (gram_of_product n Qm Rm Ho i j).
  unfold proj. apply sumn_ext. intros a Ha.
  rewrite <- (Hp a i Ha Hi), <- (Hp a j Ha Hj). unfold scaled_T.
  assert (Hs : sqrt (Rmax (lam a) 0) * sqrt (Rmax (lam a) 0) = Rmax (lam a) 0)
    by (apply sqrt_sqrt, Rmax_r).
  nra.
Qed.

(** the projection is symmetric and has a non-negative quadratic form *)
Theorem projection_psd n lam V : psd_qf n (proj n lam V).
Proof.
  split.
  - intros i j _ _. unfold proj. apply sumn_ext. intros k _. lra.
  - intro c.
    assert (Heq : sumn n (fun i => sumn n (fun j => c i * proj n lam V i j * c j))
                  = sumn n (fun k => Rmax (lam k) 0 * (sumn n (fun i => c i * V i k) * sumn n (fun j => V j k * c j)))).
    { transitivity (sumn n (fun i => sumn n (fun j => sumn n (fun k => Rmax (lam k) 0 * (c i * V i k) * (V j k * c j))))).
      - apply sumn_ext. intros i _. apply sumn_ext. intros j _. unfold proj.
        rewrite <- sumn_scal, <- sumn_scal_r_aux. apply sumn_ext. intros k _. lra.
      - transitivity (sumn n (fun i => sumn n (fun k => sumn n (fun j => Rmax (lam k) 0 * (c i * V i k) * (V j k * c j))))).
        { apply sumn_ext. intros i _. apply sumn_swap. }
        rewrite sumn_swap. apply sumn_ext. intros k _.
        transitivity (sumn n (fun i => (c i * V i k) * (Rmax (lam k) 0 * sumn n (fun j => V j k * c j)))).
        { apply sumn_ext. intros i _. rewrite <- sumn_scal, <- sumn_scal. apply sumn_ext. intros j _. lra. }
        rewrite sumn_scal_r_aux. lra. }
    rewrite Heq. apply Rle_trans with (sumn n (fun _ => 0)); [rewrite sumn_zero; lra|]. apply sumn_le_aux. intros k _.
    assert (H1 : sumn n (fun j => V j k * c j) = sumn n (fun i => c i * V i k))
      by (apply sumn_ext; intros; lra).
    rewrite H1. apply Rmult_le_pos; [apply Rmax_r|]. fold (Rsqr (sumn n (fun i => c i * V i k))). apply Rle_0_sqr.
Qed.

Theorem projection_is_identity_on_psd :
  forall n G lam V, eigh_spec n G lam V -> (forall k, (k < n)%nat -> 0 <= lam k) ->
    forall i j, (i < n)%nat -> (j < n)%nat -> proj n lam V i j = G i j.
Proof.
  intros n G lam V [_ Hd] Hpos i j Hi Hj. rewrite (Hd i j Hi Hj). unfold proj.
  apply sumn_ext. intros k Hk. rewrite Rmax_left by (apply Hpos; exact Hk). reflexivity.
Qed.

(** G - Gp = V diag(min(lam,0)) V^T *)
Theorem projection_error :
  forall n G lam V, eigh_spec n G lam V ->
    forall i j, (i < n)%nat -> (j < n)%nat ->
      G i j - proj n lam V i j = sumn n (fun k => Rmin (lam k) 0 * V i k * V j k).
Proof.
  intros n G lam V [_ Hd] i j Hi Hj. rewrite (Hd i j Hi Hj). unfold proj.
  rewrite <- sumn_minus_aux. apply sumn_ext. intros k _.
  unfold Rmax, Rmin. destruct (Rle_dec (lam k) 0); lra.
Qed.

(** entry-wise bound of the projection error when every eigenvalue is >= -eps: |G - Gp|_ij <= eps (orthonormal ROWS
    of V would give exactly eps; with the column specification alone the bound is eps * sum_k |V_ik V_jk|) *)
Theorem projection_error_bound :
  forall n G lam V eps, eigh_spec n G lam V -> 0 <= eps -> (forall k, (k < n)%nat -> - eps <= lam k) ->
    forall i j, (i < n)%nat -> (j < n)%nat ->
      Rabs (G i j - proj n lam V i j) <= eps * sumn n (fun k => Rabs (V i k * V j k)).
Proof.
  intros n G lam V eps Hs Heps Hlam i j Hi Hj.
  rewrite (projection_error n G lam V Hs i j Hi Hj), <- sumn_scal.
  eapply Rle_trans; [apply sumn_abs_aux|]. apply sumn_le_aux. intros k Hk.
  replace (Rmin (lam k) 0 * V i k * V j k) with (Rmin (lam k) 0 * (V i k * V j k)) by lra.
  rewrite Rabs_mult. apply Rmult_le_compat_r; [apply Rabs_pos|].
  specialize (Hlam k Hk). unfold Rmin. destruct (Rle_dec (lam k) 0).
  - rewrite Rabs_left1 by lra. lra.
  - rewrite Rabs_R0. lra.
Qed.

(** Non-vacuity (n = 2): G = diag(2, -1), eigen-pairs (2, e0), (-1, e1), Q = I, R = diag(sqrt 2, 0): both
    specifications hold, G has a negative eigenvalue, and R^T R = diag(2, 0) = the projection, not G. *)
Definition ex_G : nat -> nat -> R := fun i j => match i, j with 0%nat, 0%nat => 2 | 1%nat, 1%nat => -1 | _, _ => 0 end.
Definition ex_lam : nat -> R := fun k => match k with 0%nat => 2 | _ => -1 end.

Lemma ex_eigh : eigh_spec 2 ex_G ex_lam delta.
Proof.
  split.
  - intros b c Hb Hc. destruct b as [|[|b]], c as [|[|c]]; try lia; cbn [sumn]; unfold delta; cbn; lra.
  - intros i j Hi Hj. destruct i as [|[|i]], j as [|[|j]]; try lia; cbn [sumn ex_G ex_lam]; unfold delta; cbn; lra.
Qed.

Lemma ex_qr : qr_spec 2 (scaled_T ex_lam delta) delta (scaled_T ex_lam delta).
Proof.
  split.
  - intros b c Hb Hc. destruct b as [|[|b]], c as [|[|c]]; try lia; cbn [sumn]; unfold delta; cbn; lra.
  - intros a i Ha Hi. destruct a as [|[|a]], i as [|[|i]]; try lia; cbn [sumn]; unfold scaled_T, delta; cbn; lra.
Qed.

Lemma ex_projection_differs : proj 2 ex_lam delta 1 1 = 0 /\ ex_G 1%nat 1%nat = -1.
Proof.
  split; [|reflexivity]. unfold proj. cbn [sumn ex_lam]. unfold delta. cbn.
  rewrite (Rmax_right (-1) 0) by lra. rewrite (Rmax_left 2 0) by lra. lra.
Qed.
