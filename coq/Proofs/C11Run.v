(** C11 -- the Task calls MosekWrapper emits denote, under MOSEK's API semantics, exactly the declared SDP.
    Lemmas for coq/Props/C11.v (part 1: the executable side; no real numbers here). *)
From Coq Require Import List QArith ZArith Bool Arith Lia.
From PV Require Import Model.Dict Model.Terms Model.Sent Model.Matrices Model.Mosek.
Import ListNotations.
Local Open Scope nat_scope.

(* ------------------------------------------------------------------ generic list facts *)
Lemma run_app a b s : run (a ++ b) s = match run a s with Some s' => run b s' | None => None end.
Proof.
  revert s. induction a as [|c a IH]; intros s; cbn [run app]; [reflexivity|].
  destruct (step s c); [apply IH|reflexivity].
Qed.

Lemma upd_nth_mid {A} (f : A -> A) pre x suf :
  upd_nth (length pre) f (pre ++ x :: suf) = Some (pre ++ f x :: suf).
Proof. induction pre as [|p pre IH]; cbn; [reflexivity|]. rewrite IH. reflexivity. Qed.

Lemma upd_nth_last {A} (f : A -> A) pre x n :
  n = length pre -> upd_nth n f (pre ++ [x]) = Some (pre ++ [f x]).
Proof. intros ->. apply upd_nth_mid. Qed.

Lemma nth_error_last {A} (l : list A) x n : n = length l -> nth_error (l ++ [x]) n = Some x.
Proof. intros ->. rewrite nth_error_app2 by lia. rewrite Nat.sub_diag. reflexivity. Qed.

Lemma repeat_snoc {A} (x : A) n : repeat x (S n) = repeat x n ++ [x].
Proof. induction n as [|n IH]; [reflexivity|]. cbn [repeat app] in *. rewrite <- IH. reflexivity. Qed.

Lemma int32_ok_lt nb n : (Z.of_nat (nb + n) <= int32_lim)%Z -> 0 < n -> int32_ok nb = true.
Proof. intros H Hn. unfold int32_ok. apply Z.ltb_lt. lia. Qed.

(* ------------------------------------------------------------------ the pieces of a row *)
Definition set_lin (acc : list (nat * Q)) (cv : nat * Q) := set_assoc (fst cv) (snd cv) acc.

Lemma put_aij_last nvar nb : forall (l : list (nat * Q)) rows r0,
    nb = length rows ->
    forallb (fun cv => Nat.ltb (fst cv) nvar) l = true ->
    put_aij nvar (rows ++ [r0]) (repeat nb (length l)) (map fst l) (map snd l)
    = Some (rows ++ [mkRow (fold_left set_lin l (r_lin r0)) (r_bar r0) (r_bnd r0)]).
Proof.
  induction l as [|[c v] l IH]; intros rows r0 Hnb Hwf; cbn [length repeat map put_aij fold_left fst snd].
  - destruct r0; reflexivity.
  - cbn [forallb fst] in Hwf. apply andb_prop in Hwf as [Hc Hwf]. rewrite Hc.
    rewrite (upd_nth_last _ rows r0 nb Hnb).
    rewrite (IH rows _ Hnb Hwf). cbn [r_lin r_bar r_bnd]. reflexivity.
Qed.

(** the state reached after a list of rows / stored matrices has been added *)
Definition grow (st : tstate) (bars : list nat) (rows : list row) (syms : list (nat * list triple)) : tstate :=
  mkT (t_bars st ++ bars) (t_vb st) (t_rows st ++ rows) (t_syms st ++ syms) (t_c st) (t_barc st) (t_sense st).

Lemma grow_nil st : grow st [] [] [] = st.
Proof. destruct st; unfold grow; cbn. rewrite !app_nil_r. reflexivity. Qed.

Lemma grow_grow st b1 r1 s1 b2 r2 s2 :
  grow (grow st b1 r1 s1) b2 r2 s2 = grow st (b1 ++ b2) (r1 ++ r2) (s1 ++ s2).
Proof. unfold grow; cbn. rewrite !app_assoc. reflexivity. Qed.

Definition wf_expr' (pc nvar : nat) (e : edict) : bool :=
  valid_triples pc (sG (sp e)) && forallb (fun cv => Nat.ltb (fst cv) nvar) (sF (sp e)).

Lemma wf_expr_mono pc ec nvar e : ec <= nvar -> wf_expr pc ec e = true -> wf_expr' pc nvar e = true.
Proof.
  unfold wf_expr, wf_expr'. intros Hle H. apply andb_prop in H as [H1 H2]. rewrite H1. cbn.
  rewrite forallb_forall in *. intros cv Hin. specialize (H2 cv Hin). apply Nat.ltb_lt in H2. apply Nat.ltb_lt. lia.
Qed.

Lemma row_tail_ok nb e bk lo up : int32_ok nb = true ->
  row_tail nb e bk lo up =
  [TPutAijList (repeat nb (length (sF (sp e)))) (map fst (sF (sp e))) (map snd (sF (sp e))); TPutConBound nb bk lo up].
Proof. intros H. unfold row_tail. rewrite H. reflexivity. Qed.

(* single steps, on an arbitrary state *)
Definition set_rows (st : tstate) (rows : list row) : tstate :=
  mkT (t_bars st) (t_vb st) rows (t_syms st) (t_c st) (t_barc st) (t_sense st).
Definition set_syms (st : tstate) (syms : list (nat * list triple)) : tstate :=
  mkT (t_bars st) (t_vb st) (t_rows st) syms (t_c st) (t_barc st) (t_sense st).

Lemma run_cons c cs st st' : step st c = Some st' -> run (c :: cs) st = run cs st'.
Proof. intros H. cbn [run]. rewrite H. reflexivity. Qed.

Lemma step_getnumcon st nb : nb = length (t_rows st) -> step st (TGetNumCon nb) = Some st.
Proof. intros ->. cbn [step]. rewrite Nat.eqb_refl. reflexivity. Qed.

Lemma step_appendcons1 st : step st (TAppendCons 1) = Some (set_rows st (t_rows st ++ [empty_row])).
Proof. reflexivity. Qed.

Lemma step_symmat st dim tr k : valid_triples dim tr = true -> k = length (t_syms st) ->
  step st (TAppendSparseSymMat dim tr k) = Some (set_syms st (t_syms st ++ [(dim, tr)])).
Proof. intros Hv ->. cbn [step]. rewrite Hv, Nat.eqb_refl. reflexivity. Qed.

Lemma step_putbaraij st i j k w dim tr pre r :
  nth_error (t_bars st) j = Some dim -> nth_error (t_syms st) k = Some (dim, tr) ->
  t_rows st = pre ++ [r] -> i = length pre ->
  step st (TPutBarAij i j [k] [w])
  = Some (set_rows st (pre ++ [mkRow (r_lin r) (set_assoc j [(w, tr)] (r_bar r)) (r_bnd r)])).
Proof.
  intros Hb Hs Hr Hi. cbn [step]. rewrite Hb. cbn [resolve]. rewrite Hs, Nat.eqb_refl. rewrite Hr.
  rewrite (upd_nth_last _ pre r i Hi). reflexivity.
Qed.

Lemma step_putaijlist st nb (l : list (nat * Q)) pre r0 :
  t_rows st = pre ++ [r0] -> nb = length pre ->
  forallb (fun cv => Nat.ltb (fst cv) (length (t_vb st))) l = true ->
  step st (TPutAijList (repeat nb (length l)) (map fst l) (map snd l))
  = Some (set_rows st (pre ++ [mkRow (fold_left set_lin l (r_lin r0)) (r_bar r0) (r_bnd r0)])).
Proof.
  intros Hr Hnb Hf. cbn [step]. rewrite Hr. rewrite (put_aij_last _ nb l pre r0 Hnb Hf). reflexivity.
Qed.

Lemma step_putconbound st i bk lo up pre r :
  t_rows st = pre ++ [r] -> i = length pre ->
  step st (TPutConBound i bk lo up) = Some (set_rows st (pre ++ [mkRow (r_lin r) (r_bar r) (bk, lo, up)])).
Proof. intros Hr Hi. cbn [step]. rewrite Hr. rewrite (upd_nth_last _ pre r i Hi). reflexivity. Qed.

Lemma step_putbarcj st j k w dim tr :
  nth_error (t_bars st) j = Some dim -> nth_error (t_syms st) k = Some (dim, tr) ->
  step st (TPutBarCj j [k] [w])
  = Some (mkT (t_bars st) (t_vb st) (t_rows st) (t_syms st) (t_c st) (set_assoc j [(w, tr)] (t_barc st)) (t_sense st)).
Proof. intros Hb Hs. cbn [step]. rewrite Hb. cbn [resolve]. rewrite Hs, Nat.eqb_refl. reflexivity. Qed.

(** send_constraint_to_solver adds exactly the row [sc_row e s] (and stores one symmetric matrix) *)
Lemma run_sc pc e s st nb k :
  nb = length (t_rows st) -> k = length (t_syms st) -> nth_error (t_bars st) 0 = Some pc ->
  wf_expr' pc (length (t_vb st)) e = true -> int32_ok nb = true ->
  run (emit_sc pc nb k e s) st = Some (grow st [] [sc_row e s] [(pc, sG (sp e))]).
Proof.
  intros Hnb Hk Hbar Hwf Hlt. unfold wf_expr' in Hwf. apply andb_prop in Hwf as [Hv Hf].
  unfold emit_sc. rewrite (row_tail_ok nb e _ _ _ Hlt). cbn [app].
  rewrite (run_cons _ _ _ _ (step_getnumcon st nb Hnb)).
  rewrite (run_cons _ _ _ _ (step_appendcons1 st)).
  erewrite run_cons; [|apply step_symmat; [exact Hv|exact Hk]].
  erewrite run_cons; [|eapply (step_putbaraij _ nb 0 k 1%Q pc (sG (sp e)) (t_rows st) empty_row);
                       [exact Hbar|unfold set_syms, set_rows; cbn [t_syms]; apply nth_error_last; exact Hk|reflexivity|exact Hnb]].
  erewrite run_cons; [|eapply (step_putaijlist _ nb (sF (sp e)) (t_rows st)); [reflexivity|exact Hnb|exact Hf]].
  erewrite run_cons; [|eapply (step_putconbound _ nb _ _ _ (t_rows st)); [reflexivity|exact Hnb]].
  cbn [run]. unfold grow, set_rows, set_syms, sc_row, lin_of; cbn [t_bars t_vb t_rows t_syms t_c t_barc t_sense
    r_lin r_bar r_bnd empty_row set_assoc].
  rewrite app_nil_r. destruct (sc_bound e s) as [[bk lo] up]. reflexivity.
Qed.

Lemma valid_coupling size i j : i < size -> j < size -> valid_triples size [coupling_triple i j] = true.
Proof.
  intros Hi Hj. unfold coupling_triple. cbn [valid_triples pos_mem negb andb].
  assert (H1 : Nat.ltb (Nat.max i j) size = true) by (apply Nat.ltb_lt; lia).
  assert (H2 : Nat.leb (Nat.min i j) (Nat.max i j) = true) by (apply Nat.leb_le; lia).
  rewrite H1, H2. reflexivity.
Qed.

(** one entry of send_lmi_constraint_to_solver adds exactly [lmi_row bar i j e] *)
Lemma run_entry pc size bar e i j st nb k :
  nb = length (t_rows st) -> k = length (t_syms st) -> nth_error (t_bars st) 0 = Some pc ->
  nth_error (t_bars st) bar = Some size -> bar <> 0 -> i < size -> j < size ->
  wf_expr' pc (length (t_vb st)) e = true -> int32_ok nb = true ->
  run (emit_entry pc size bar nb k i j e) st
  = Some (grow st [] [lmi_row bar i j e] [(pc, sG (sp e)); (size, [coupling_triple i j])]).
Proof.
  intros Hnb Hk Hbar0 Hbar Hne Hi Hj Hwf Hlt. unfold wf_expr' in Hwf. apply andb_prop in Hwf as [Hv Hf].
  unfold emit_entry. rewrite (row_tail_ok nb e _ _ _ Hlt). cbn [app].
  assert (Hk2 : S k = length (t_syms st ++ [(pc, sG (sp e))])) by (rewrite app_length; cbn; lia).
  rewrite (run_cons _ _ _ _ (step_getnumcon st nb Hnb)).
  rewrite (run_cons _ _ _ _ (step_appendcons1 st)).
  erewrite run_cons; [|apply step_symmat; [exact Hv|exact Hk]].
  erewrite run_cons; [|apply step_symmat; [exact (valid_coupling size i j Hi Hj)|exact Hk2]].
  erewrite run_cons; [|eapply (step_putbaraij _ nb 0 k 1%Q pc (sG (sp e)) (t_rows st) empty_row);
                       [exact Hbar0
                       |unfold set_syms, set_rows; cbn [t_syms]; rewrite nth_error_app1 by (rewrite app_length; cbn; lia); apply nth_error_last; exact Hk
                       |reflexivity|exact Hnb]].
  erewrite run_cons; [|eapply (step_putbaraij _ nb bar (S k) 1%Q size [coupling_triple i j] (t_rows st));
                       [exact Hbar|unfold set_syms, set_rows; cbn [t_syms]; apply nth_error_last; exact Hk2|reflexivity|exact Hnb]].
  erewrite run_cons; [|eapply (step_putaijlist _ nb (sF (sp e)) (t_rows st)); [reflexivity|exact Hnb|exact Hf]].
  erewrite run_cons; [|eapply (step_putconbound _ nb _ _ _ (t_rows st)); [reflexivity|exact Hnb]].
  cbn [run]. unfold grow, set_rows, set_syms, lmi_row, lin_of; cbn [t_bars t_vb t_rows t_syms t_c t_barc t_sense
    r_lin r_bar r_bnd empty_row set_assoc].
  destruct (Nat.eqb_spec bar 0) as [->|_]; [congruence|].
  rewrite app_nil_r, <- app_assoc. reflexivity.
Qed.

Definition entry_rows (bar : nat) (es : list (nat * nat * edict)) : list row :=
  map (fun ije => lmi_row bar (fst (fst ije)) (snd (fst ije)) (snd ije)) es.
Definition entry_syms (pc size : nat) (es : list (nat * nat * edict)) : list (nat * list triple) :=
  flat_map (fun ije => [(pc, sG (sp (snd ije))); (size, [coupling_triple (fst (fst ije)) (snd (fst ije))])]) es.

Lemma entry_syms_length pc size es : length (entry_syms pc size es) = 2 * length es.
Proof. unfold entry_syms. induction es as [|x es IH]; cbn [flat_map length app]; [reflexivity|]. rewrite IH. lia. Qed.

Definition entry_ok (pc nvar size : nat) (ije : nat * nat * edict) : Prop :=
  fst (fst ije) < size /\ snd (fst ije) < size /\ wf_expr' pc nvar (snd ije) = true.

Lemma run_entries pc size bar : forall es st nb k,
    nb = length (t_rows st) -> k = length (t_syms st) -> nth_error (t_bars st) 0 = Some pc ->
    nth_error (t_bars st) bar = Some size -> bar <> 0 ->
    Forall (entry_ok pc (length (t_vb st)) size) es -> (Z.of_nat (nb + length es) <= int32_lim)%Z ->
    run (emit_entries pc size bar nb k es) st = Some (grow st [] (entry_rows bar es) (entry_syms pc size es)).
Proof.
  induction es as [|[[i j] e] es IH]; intros st nb k Hnb Hk Hb0 Hb Hne Hok Hle.
  - cbn. rewrite grow_nil. reflexivity.
  - inversion Hok as [|? ? [Hi [Hj Hwf]] Hok']; subst. cbn [fst snd] in *.
    cbn [emit_entries length] in *.
    assert (Hlt : int32_ok (length (t_rows st)) = true) by (apply (int32_ok_lt _ (S (length es))); [exact Hle|lia]).
    rewrite Hlt.
    rewrite run_app. rewrite (run_entry pc size bar e i j st _ _ eq_refl eq_refl Hb0 Hb Hne Hi Hj Hwf Hlt).
    rewrite IH; [rewrite grow_grow; reflexivity|..];
      unfold grow; cbn [t_rows t_syms t_bars t_vb length]; rewrite ?app_length, ?app_nil_r; cbn [length];
      try lia; try assumption.
Qed.

(* ------------------------------------------------------------------ entries of a square matrix are in range *)
Lemma row_entries_spec i : forall r j0 i' j' e,
    In (i', j', e) (row_entries i j0 r) -> i' = i /\ j0 <= j' < j0 + length r.
Proof.
  induction r as [|x r IH]; intros j0 i' j' e; cbn [row_entries In length]; [tauto|].
  intros [H|H]; [injection H as <- <- <-; lia|]. apply IH in H. lia.
Qed.

Lemma mat_entries_spec n : forall m i0 i j e,
    forallb (fun r => Nat.eqb (length r) n) m = true ->
    In (i, j, e) (mat_entries i0 m) -> i0 <= i < i0 + length m /\ j < n.
Proof.
  induction m as [|r m IH]; intros i0 i j e Hsq; cbn [mat_entries In length]; [tauto|].
  cbn [forallb] in Hsq. apply andb_prop in Hsq as [Hr Hsq]. apply Nat.eqb_eq in Hr.
  intros H. apply in_app_or in H as [H|H].
  - apply row_entries_spec in H. lia.
  - apply (IH _ _ _ _ Hsq) in H. lia.
Qed.

Lemma entries_ok pc ec nvar m : ec <= nvar -> wf_item pc ec (LMI m) = true ->
  Forall (entry_ok pc nvar (length m)) (entries m).
Proof.
  intros Hle H. cbn [wf_item] in H. apply andb_prop in H as [Hsq Hwf].
  apply Forall_forall. intros [[i j] e] Hin. unfold entry_ok. cbn [fst snd].
  pose proof (mat_entries_spec (length m) m 0 i j e Hsq Hin) as [Hi Hj].
  rewrite forallb_forall in Hwf. specialize (Hwf _ Hin). cbn [snd] in Hwf.
  split; [lia|]. split; [exact Hj|]. apply (wf_expr_mono pc ec nvar e Hle Hwf).
Qed.

(* ------------------------------------------------------------------ the whole list *)
Fixpoint syms_of (pc : nat) (l : sent) : list (nat * list triple) :=
  match l with
  | [] => []
  | SC e _ :: rest => (pc, sG (sp e)) :: syms_of pc rest
  | LMI m :: rest => entry_syms pc (length m) (entries m) ++ syms_of pc rest
  end.

Lemma syms_of_length pc l : length (syms_of pc l) = total_syms l.
Proof.
  induction l as [|[e s|m] l IH]; cbn [syms_of total_syms fold_right item_syms length]; [reflexivity| |].
  - unfold total_syms in IH. rewrite IH. reflexivity.
  - rewrite app_length, entry_syms_length. unfold total_syms in IH. rewrite IH. reflexivity.
Qed.

Lemma rows_of_length kb l : length (rows_of kb l) = total_rows l.
Proof.
  revert kb. induction l as [|[e s|m] l IH]; intros kb; cbn [rows_of total_rows fold_right item_rows length]; [reflexivity| |].
  - unfold total_rows in IH. rewrite IH. reflexivity.
  - rewrite app_length, map_length. unfold total_rows in IH. rewrite IH. reflexivity.
Qed.

Lemma lmis_cons_sc e s l : lmis (SC e s :: l) = lmis l.
Proof. reflexivity. Qed.
Lemma lmis_cons_lmi m l : lmis (LMI m :: l) = m :: lmis l.
Proof. reflexivity. Qed.

Definition dims (l : sent) : list nat := map (fun m => length m) (lmis l).

Lemma total_rows_cons it l : total_rows (it :: l) = item_rows it + total_rows l.
Proof. reflexivity. Qed.

Lemma run_items pc ec : forall l st nb k nsdp,
    nb = length (t_rows st) -> k = length (t_syms st) -> nsdp = length (t_bars st) -> 1 <= nsdp ->
    nth_error (t_bars st) 0 = Some pc -> ec <= length (t_vb st) ->
    wf_sent pc ec l = true -> (Z.of_nat (nb + total_rows l) <= int32_lim)%Z ->
    run (emit_items pc nb k nsdp l) st
    = Some (grow st (dims l) (rows_of nsdp l) (syms_of pc l)).
Proof.
  induction l as [|[e s|m] l IH]; intros st nb k nsdp Hnb Hk Hkb Hpos Hb0 Hec Hwf Hle.
  - cbn. unfold dims; cbn. rewrite grow_nil. reflexivity.
  - cbn [wf_sent forallb] in Hwf. apply andb_prop in Hwf as [He Hwf].
    rewrite total_rows_cons in Hle. cbn [item_rows] in Hle.
    cbn [emit_items].
    assert (Hlt : int32_ok nb = true) by (apply (int32_ok_lt _ (1 + total_rows l)); [exact Hle|lia]).
    rewrite Hlt. rewrite run_app.
    rewrite (run_sc pc e s st nb k Hnb Hk Hb0 (wf_expr_mono pc ec _ e Hec He) Hlt).
    rewrite (IH _ (S nb) (S k) nsdp).
    + rewrite grow_grow. unfold dims. rewrite lmis_cons_sc. reflexivity.
    + unfold grow; cbn [t_rows]. rewrite app_length. cbn [length]. lia.
    + unfold grow; cbn [t_syms]. rewrite app_length. cbn [length]. lia.
    + unfold grow; cbn [t_bars]. rewrite app_nil_r. exact Hkb.
    + exact Hpos.
    + unfold grow; cbn [t_bars]. rewrite app_nil_r. exact Hb0.
    + unfold grow; cbn [t_vb]. exact Hec.
    + exact Hwf.
    + lia.
  - cbn [wf_sent forallb] in Hwf. apply andb_prop in Hwf as [Hm Hwf].
    rewrite total_rows_cons in Hle. cbn [item_rows] in Hle.
    cbn [emit_items]. replace (S nsdp - 1) with nsdp by lia.
    assert (Hle' : Z.leb (Z.of_nat (nb + length (entries m))) int32_lim = true) by (apply Z.leb_le; lia). rewrite Hle'.
    rewrite (run_cons (TAppendBarvars [length m]) _ st
               (mkT (t_bars st ++ [length m]) (t_vb st) (t_rows st) (t_syms st) (t_c st) (t_barc st) (t_sense st))
               eq_refl).
    set (st1 := mkT (t_bars st ++ [length m]) (t_vb st) (t_rows st) (t_syms st) (t_c st) (t_barc st) (t_sense st)).
    rewrite (run_cons _ _ st1 st1 (step_getnumcon st1 nb Hnb)).
    rewrite run_app.
    assert (Hb0' : nth_error (t_bars st ++ [length m]) 0 = Some pc).
    { destruct (t_bars st) as [|b bs] eqn:Eb; [cbn in Hkb; lia|]. cbn in *. exact Hb0. }
    rewrite (run_entries pc (length m) nsdp (entries m) st1 nb k Hnb Hk Hb0'
               (nth_error_last (t_bars st) (length m) nsdp Hkb) ltac:(lia)
               (entries_ok pc ec _ m Hec Hm)) by lia.
    rewrite (IH _ (nb + length (entries m)) (k + 2 * length (entries m)) (S nsdp)).
    + rewrite grow_grow. unfold st1, grow, dims; cbn [t_bars t_vb t_rows t_syms t_c t_barc t_sense].
      rewrite lmis_cons_lmi. cbn [map rows_of syms_of]. rewrite <- !app_assoc. reflexivity.
    + unfold grow, st1; cbn [t_rows]. rewrite app_length. unfold entry_rows. rewrite map_length. lia.
    + unfold grow, st1; cbn [t_syms]. rewrite app_length, entry_syms_length. lia.
    + unfold grow, st1; cbn [t_bars]. rewrite app_nil_r, app_length. cbn [length]. lia.
    + lia.
    + unfold grow, st1; cbn [t_bars]. rewrite app_nil_r. exact Hb0'.
    + unfold grow, st1; cbn [t_vb]. exact Hec.
    + exact Hwf.
    + lia.
Qed.

(* ------------------------------------------------------------------ prologue / epilogue *)
Lemma run_putvarbounds B R Sy C BC se lo up : forall n pre suf,
    run (map (fun i => TPutVarBound i BFr lo up) (seq (length pre) n))
        (mkT B (pre ++ repeat fixed0 n ++ suf) R Sy C BC se)
    = Some (mkT B (pre ++ repeat (BFr, lo, up) n ++ suf) R Sy C BC se).
Proof.
  induction n as [|n IH]; intros pre suf; cbn [seq map run repeat app]; [reflexivity|].
  cbn [step t_vb]. rewrite upd_nth_mid. cbn [t_bars t_vb t_rows t_syms t_c t_barc t_sense].
  specialize (IH (pre ++ [(BFr, lo, up)]) suf). rewrite app_length in IH. cbn [length] in IH.
  rewrite Nat.add_1_r in IH. rewrite <- !app_assoc in IH. cbn [app] in IH. exact IH.
Qed.

Definition vb_of (ec : nat) : list (bkey * Q * Q) := repeat (BFr, (- (1))%Q, 1%Q) ec ++ [fixed0].

Lemma vb_of_length ec : length (vb_of ec) = S ec.
Proof. unfold vb_of. rewrite app_length, repeat_length. cbn. lia. Qed.

Lemma run_prologue pc ec : run (prologue pc ec) t0 = Some (mkT [pc] (vb_of ec) [] [] [] [] OMin).
Proof.
  unfold prologue. cbn [run step t0 t_bars t_vb t_rows t_syms t_c t_barc t_sense app].
  rewrite repeat_snoc.
  exact (run_putvarbounds [pc] [] [] [] [] OMin (- (1))%Q 1%Q ec [] [fixed0]).
Qed.

(** the state in which generate_problem leaves the task *)
Definition base_state (l : sent) (pc ec obj : nat) : tstate :=
  mkT (pc :: dims l) (vb_of ec) (rows_of 1 l) (syms_of pc l) [(obj, 1%Q)] [] OMax.

Lemma run_body l pc ec : wf_sent pc ec l = true -> (Z.of_nat (total_rows l) <= int32_lim)%Z ->
  run (prologue pc ec ++ emit_items pc 0 0 1 l) t0
  = Some (mkT (pc :: dims l) (vb_of ec) (rows_of 1 l) (syms_of pc l) [] [] OMin).
Proof.
  intros Hwf Hle. rewrite run_app, run_prologue.
  rewrite (run_items pc ec l _ 0 0 1); cbn [t_rows t_syms t_bars t_vb length nth_error]; try reflexivity; try lia.
  - rewrite vb_of_length. lia.
  - exact Hwf.
Qed.

Lemma run_epilogue l pc ec obj : obj < ec ->
  run (epilogue ec obj) (mkT (pc :: dims l) (vb_of ec) (rows_of 1 l) (syms_of pc l) [] [] OMin)
  = Some (base_state l pc ec obj).
Proof.
  intros Hlt. unfold epilogue. cbn [run step t_vb t_c put_c]. rewrite vb_of_length, Nat.eqb_refl.
  cbn [t_bars t_vb t_rows t_syms t_c t_barc t_sense put_c]. rewrite vb_of_length.
  assert (H : Nat.ltb obj (S ec) = true) by (apply Nat.ltb_lt; lia). rewrite H. reflexivity.
Qed.

Lemma guard_spec l pc ec obj : guard l pc ec obj = true ->
  wf_sent pc ec l = true /\ obj < ec /\ (Z.of_nat (total_rows l) <= int32_lim)%Z.
Proof.
  unfold guard, rows_fit_int32. intros H.
  apply andb_prop in H as [H H3]. apply andb_prop in H as [H1 H2].
  repeat split; [exact H1|apply Nat.ltb_lt; exact H2|apply Z.leb_le; exact H3].
Qed.

Lemma run_emit l pc ec obj : guard l pc ec obj = true ->
  run (emit l pc ec obj) t0 = Some (base_state l pc ec obj).
Proof.
  intros Hg. apply guard_spec in Hg as (Hwf & Hobj & Hle).
  unfold emit, rows_fit_int32. apply Z.leb_le in Hle as Hle'. rewrite Hle'.
  rewrite app_assoc, run_app, (run_body l pc ec Hwf Hle). apply run_epilogue. exact Hobj.
Qed.

Theorem same_sdp l pc ec obj : guard l pc ec obj = true ->
  task_denote (emit l pc ec obj) = Some (sdp_of l pc ec obj).
Proof. intros Hg. unfold task_denote. rewrite (run_emit _ _ _ _ Hg). reflexivity. Qed.

(* ------------------------------------------------------------------ reads *)
Lemma run_lmi_reads : forall l st cp, cp + length (lmis l) <= length (t_bars st) ->
  run (recover_lmi_reads cp l) st = Some st.
Proof.
  induction l as [|[e s|m] l IH]; intros st cp H; cbn [recover_lmi_reads run]; [reflexivity|apply IH; exact H|].
  rewrite lmis_cons_lmi in H. cbn [length] in H. cbn [step].
  assert (Hlt : Nat.ltb cp (length (t_bars st)) = true) by (apply Nat.ltb_lt; lia). rewrite Hlt.
  apply IH. lia.
Qed.

Lemma run_reads l pc ec obj :
  run (solve_reads ++ recover_reads l) (base_state l pc ec obj) = Some (base_state l pc ec obj).
Proof.
  unfold solve_reads, recover_reads. cbn [app run step base_state t_bars length Nat.ltb Nat.leb].
  apply run_lmi_reads. unfold base_state, dims. cbn [t_bars length]. rewrite map_length. lia.
Qed.

(* ------------------------------------------------------------------ the heuristic problem *)
Lemma heur_sparse obj v :
  sG (sp (heur_edict obj v)) = [] /\ sF (sp (heur_edict obj v)) = [(obj, (1 * - (1))%Q)].
Proof.
  unfold heur_edict, c_ges, c_les, x_subs, x_adds, x_neg, x_scal, scale, emerge, merge, prune. cbn [map fst snd].
  cbn [lookup ekey_eqb filter mem negb app].
  unfold nonzero at 1. cbn [Qeq_bool Qmult Qopp Qnum Qden Z.mul Z.opp Pos.mul Zeq_bool Z.compare negb].
  destruct (nonzero (- - v)); unfold sp, sparse_loop; cbn; split; reflexivity.
Qed.

Lemma wf_heur pc nvar obj v : obj < nvar -> wf_expr' pc nvar (heur_edict obj v) = true.
Proof.
  intros H. unfold wf_expr'. destruct (heur_sparse obj v) as [-> ->]. cbn [valid_triples forallb fst andb].
  assert (H' : Nat.ltb obj nvar = true) by (apply Nat.ltb_lt; exact H). rewrite H'. reflexivity.
Qed.

Theorem heuristic_sdp l pc ec obj v W :
  guard l pc ec obj = true -> int32_ok (total_rows l) = true -> valid_triples pc W = true ->
  task_denote (emit l pc ec obj ++ solve_reads ++ recover_reads l
               ++ emit_prepare pc ec obj (total_rows l) (total_syms l) v
               ++ emit_heuristic pc (S (total_syms l)) W)
  = Some (sdp_heur l pc ec obj v W).
Proof.
  intros Hg Hlt HW. unfold task_denote.
  rewrite run_app, (run_emit _ _ _ _ Hg).
  rewrite app_assoc, run_app, run_reads.
  apply guard_spec in Hg as (Hwf & Hobj & _).
  rewrite run_app. unfold emit_prepare. rewrite run_app.
  cbn [run step base_state t_vb t_c put_c]. rewrite vb_of_length.
  assert (H1 : Nat.ltb obj (S ec) = true) by (apply Nat.ltb_lt; lia). rewrite H1.
  cbn [set_assoc]. rewrite Nat.eqb_refl.
  unfold base_state. cbn [t_bars t_vb t_rows t_syms t_c t_barc t_sense].
  set (st1 := mkT (pc :: dims l) (vb_of ec) (rows_of 1 l) (syms_of pc l) [(obj, 0%Q)] [] OMin).
  rewrite (run_sc pc (heur_edict obj v) Ineq st1 (total_rows l) (total_syms l)).
  - unfold emit_heuristic.
    erewrite run_cons; [|apply step_symmat; [exact HW|unfold grow, st1; cbn [t_syms]; rewrite app_length, syms_of_length; cbn [length]; lia]].
    erewrite run_cons; [|eapply (step_putbarcj _ 0 (S (total_syms l)) 1%Q pc W);
                         [reflexivity|unfold set_syms, grow, st1; cbn [t_syms]; apply nth_error_last;
                                      rewrite app_length, syms_of_length; cbn [length]; lia]].
    cbn [run step]. unfold sdp_of_state, sdp_heur, set_syms, grow, st1; cbn [t_bars t_vb t_rows t_syms t_c t_barc t_sense set_assoc].
    rewrite !app_nil_r. reflexivity.
  - unfold st1; cbn. symmetry. apply rows_of_length.
  - unfold st1; cbn. symmetry. apply syms_of_length.
  - reflexivity.
  - unfold st1; cbn [t_vb]. rewrite vb_of_length. apply wf_heur. lia.
  - exact Hlt.
Qed.

(** solve(): the value returned is the objective's variable *)
Theorem readout_objective xx obj st : mosek_solve_value xx obj st = Some (nth obj xx 0%Q).
Proof. reflexivity. Qed.
