(** C16 — lemmas: an accessor called on an unsolved object raises ValueError (for every object, by
    induction over its decomposition); the tail of solve() returns None and assigns nothing when the
    solver reports no value; invalid option strings are rejected. *)
From Coq Require Import List String Bool PeanoNat.
From PV Require Import Model.Accessors Gen.Handlers.
Import ListNotations.
Open Scope string_scope.

(** ------------------------------------------------------------------ induction over points *)
Section PointInd.
  Variable P : point -> Prop.
  Hypothesis Hleaf : forall v, P (PLeaf v).
  Hypothesis Hlin : forall c ts, Forall P ts -> P (PLin c ts).
  Fixpoint point_ind' (p : point) : P p :=
    match p with
    | PLeaf v => Hleaf v
    | PLin c ts =>
        Hlin c ts ((fix go (ts : list point) : Forall P ts :=
                      match ts with
                      | [] => Forall_nil P
                      | t :: r => Forall_cons t (point_ind' t) (go r)
                      end) ts)
    end.
End PointInd.

Lemma exn_eqb_eq : forall a b, exn_eqb a b = true -> a = b.
Proof.
  intros a b H. destruct a, b; cbn in H; try discriminate; try reflexivity.
  apply String.eqb_eq in H. now subst.
Qed.

Lemma existsb_find : forall (A : Type) (p : A -> bool) l,
    existsb p l = true -> exists b, find p l = Some b /\ p b = true.
Proof.
  intros A p. induction l as [|a l IH]; intro H; [discriminate|]. cbn in *.
  destruct (p a) eqn:E; [exists a; auto|]. cbn in H. auto.
Qed.

(** ------------------------------------------------------------------ shapes that honour the contract *)
Definition catches (m : matcher) (e : exn) : bool :=
  match m with
  | MClass c => exn_isa e c
  | MTuple cs => existsb (exn_isa e) cs
  | MBare => true
  | MInstance _ => false
  end.

Definition is_leafexpr (b : branch) : bool := match b with BLeafExpr _ => true | _ => false end.
Definition is_inner (b : branch) : bool := match b with BInner _ => true | _ => false end.
Definition is_const (b : branch) : bool := match b with BConst => true | _ => false end.

Definition point_shape_ok (sh : acc_shape) : bool :=
  match sh with
  | ALeafOrFold e bs =>
      exn_eqb e ValueError && existsb (fun b => match b with BAny | BSum true => true | _ => false end) bs
      && negb (existsb (fun b => match b with BSum false => true | _ => false end) bs)
  | _ => false
  end.
Definition expr_shape_ok (sh : acc_shape) : bool :=
  match sh with
  | ALeafOrFold e bs => exn_eqb e ValueError && existsb is_leafexpr bs && existsb is_inner bs && existsb is_const bs
  | _ => false
  end.
Definition try_shape_ok (sh : acc_shape) : bool :=
  match sh with ATryInner m r => exn_eqb r ValueError && catches m ValueError | _ => false end.
Definition dual_shape_ok (sh : acc_shape) : bool :=
  match sh with ADualField e => exn_eqb e ValueError | _ => false end.

Section Contract.
  Variable shp she shc shm shcd shmd : acc_shape.
  Variable dim : nat.
  Hypothesis Hp : point_shape_ok shp = true.
  Hypothesis He : expr_shape_ok she = true.

  Notation evp := (eval_point shp dim).
  Notation eve := (eval_expr shp she dim).

  Lemma leaf_raise_p : leaf_raise_of shp = ValueError.
  Proof.
    pose proof Hp as H. destruct shp; try discriminate. cbn in H. apply andb_true_iff in H. destruct H as [H _].
    apply andb_true_iff in H. destruct H as [H _]. now apply exn_eqb_eq.
  Qed.
  Lemma leaf_raise_e : leaf_raise_of she = ValueError.
  Proof.
    pose proof He as H. destruct she; try discriminate. cbn in H.
    apply andb_true_iff in H. destruct H as [H _]. apply andb_true_iff in H. destruct H as [H _].
    apply andb_true_iff in H. destruct H as [H _]. now apply exn_eqb_eq.
  Qed.

  Lemma vec_iadd_cases : forall a n, vec_iadd a n = Value (VVec a) \/ vec_iadd a n = Raise ValueError.
  Proof. intros a n. unfold vec_iadd. destruct (Nat.eqb n a || Nat.eqb n 1); auto. Qed.
  Lemma vec_add_cases : forall a n, (exists m, vec_add a n = Value (VVec m)) \/ vec_add a n = Raise ValueError.
  Proof.
    intros a n. unfold vec_add. destruct (Nat.eqb n a); [left; eauto|].
    destruct (Nat.eqb a 1); [left; eauto|]. destruct (Nat.eqb n 1); [left; eauto|auto].
  Qed.

  Lemma pending_lin : forall ts, pending_p (PLin None ts) = existsb pending_p ts.
  Proof. induction ts as [|t r IH]; [reflexivity|]. cbn [existsb]. rewrite <- IH. reflexivity. Qed.

  (** the generated mode is never "re-binding fold whose empty sum stays the scalar 0" *)
  Lemma mode_ok : point_mode shp <> Rebind false.
  Proof.
    pose proof Hp as H. unfold point_mode, branches_of. destruct shp as [e bs| |]; try discriminate. cbn in H.
    apply andb_true_iff in H. destruct H as [_ H]. apply negb_true_iff in H.
    destruct (find (fun b => match b with BSum _ => true | _ => false end) bs) as [b|] eqn:F; [|discriminate].
    destruct b; try discriminate. destruct empty_is_null; [discriminate|].
    exfalso. apply find_some in F. destruct F as [Hin _].
    assert (existsb (fun b => match b with BSum false => true | _ => false end) bs = true)
      by (apply existsb_exists; exists (BSum false); auto).
    congruence.
  Qed.

  Definition pcontract (ev : point -> result) (t : point) : Prop :=
    (forall v, ev t = Value v -> exists n, v = VVec n)
    /\ (forall e, ev t = Raise e -> e = ValueError)
    /\ (pending_p t = true -> ev t = Raise ValueError).

  (** the loop of Point.eval, for any accumulator: vectors only, ValueError only, and ValueError as soon as
      one key is pending *)
  Lemma fold_contract : forall ev mode ts,
      mode <> Rebind false -> Forall (pcontract ev) ts ->
      forall acc,
        (forall v, fold_points ev mode dim acc ts = Value v -> exists n, v = VVec n)
        /\ (forall e, fold_points ev mode dim acc ts = Raise e -> e = ValueError)
        /\ (existsb pending_p ts = true -> fold_points ev mode dim acc ts = Raise ValueError).
  Proof.
    intros ev mode ts Hmode HF. induction HF as [|t rest Ht Hrest IH]; intro acc.
    - cbn. split; [|split]; [| |intro; discriminate].
      + intros v H. destruct acc; [inversion H; eauto|]. destruct mode as [|b]; [inversion H; eauto|].
        destruct b; [inversion H; eauto|congruence].
      + intros e H. destruct acc; [discriminate|]. destruct mode as [|b]; [discriminate|]. destruct b; discriminate.
    - destruct Ht as [Tv [Tr Tp]].
      change (fold_points ev mode dim acc (t :: rest)) with
        (match ev t with
         | Raise e => Raise e
         | Value (VVec n) =>
             match (match acc, mode with
                    | None, _ => Value (VVec n)
                    | Some a, InPlace => vec_iadd a n
                    | Some a, Rebind _ => vec_add a n
                    end) with
             | Value (VVec a') => fold_points ev mode dim (Some a') rest
             | Value _ => Raise TypeError
             | Raise e => Raise e
             end
         | Value _ => Raise TypeError
         end).
      cbn [existsb].
      destruct (ev t) as [v|e] eqn:Et.
      + destruct (Tv v eq_refl) as [n ->].
        assert (Hc : (exists m, (match acc, mode with
                                 | None, _ => Value (VVec n)
                                 | Some a, InPlace => vec_iadd a n
                                 | Some a, Rebind _ => vec_add a n
                                 end) = Value (VVec m))
                     \/ (match acc, mode with
                         | None, _ => Value (VVec n)
                         | Some a, InPlace => vec_iadd a n
                         | Some a, Rebind _ => vec_add a n
                         end) = Raise ValueError).
        { destruct acc as [a|]; [|left; eauto]. destruct mode.
          - destruct (vec_iadd_cases a n) as [H|H]; [left; eauto|auto].
          - apply vec_add_cases. }
        destruct Hc as [[m Hm]|Hr].
        * rewrite Hm. destruct (IH (Some m)) as [I1 [I2 I3]]. repeat split; auto.
          intro Hpd. apply orb_true_iff in Hpd. destruct Hpd as [Hpd|Hpd]; [specialize (Tp Hpd); discriminate|auto].
        * rewrite Hr. repeat split; intros; try discriminate; congruence.
      + pose proof (Tr e eq_refl) as ->. repeat split; intros; try discriminate; congruence.
  Qed.

  (** Point.eval: values are vectors; the only exception is ValueError; an unsolved point raises it *)
  Lemma point_contract : forall p, pcontract evp p.
  Proof.
    induction p as [v|c ts IH] using point_ind'; unfold pcontract.
    - destruct v as [n|]; cbn [eval_point pending_p].
      + repeat split; intros; try discriminate. inversion H. eauto.
      + rewrite leaf_raise_p. repeat split; intros; try discriminate; congruence.
    - destruct c as [n|].
      + cbn [eval_point pending_p]. repeat split; intros; try discriminate. inversion H. eauto.
      + rewrite pending_lin.
        change (evp (PLin None ts)) with (fold_points evp (point_mode shp) dim (point_init shp dim) ts).
        apply fold_contract; [exact mode_ok|exact IH].
  Qed.

  Lemma point_pending : forall p, pending_p p = true -> evp p = Raise ValueError.
  Proof. intro p. apply point_contract. Qed.
  Lemma point_raises_only_VE : forall p e, evp p = Raise e -> e = ValueError.
  Proof. intro p. apply point_contract. Qed.

  (** the branch table of Expression.eval *)
  Lemma she_form : exists bs, she = ALeafOrFold ValueError bs
                              /\ (exists a, find is_leafexpr bs = Some (BLeafExpr a))
                              /\ (exists a, find is_inner bs = Some (BInner a))
                              /\ (exists b, find is_const bs = Some b).
  Proof.
    pose proof He as H. destruct she as [e bs| |]; try discriminate. cbn in H.
    apply andb_true_iff in H. destruct H as [H123 H4]. apply andb_true_iff in H123. destruct H123 as [H12 H3].
    apply andb_true_iff in H12. destruct H12 as [H1 H2]. apply exn_eqb_eq in H1. subst e.
    exists bs. split; [reflexivity|].
    destruct (existsb_find _ _ _ H2) as [b2 [F2 P2]]. destruct (existsb_find _ _ _ H3) as [b3 [F3 P3]].
    destruct (existsb_find _ _ _ H4) as [b4 [F4 P4]].
    destruct b2; try discriminate. destruct b3; try discriminate. split; [eauto|split; eauto].
  Qed.

  (** one well-formed key: a value, or ValueError; a pending key raises ValueError *)
  Lemma term_contract : forall t,
      wf_term t = true ->
      ((exists v, eval_term shp she dim eve t = Value v) \/ eval_term shp she dim eve t = Raise ValueError)
      /\ (pending_term t = true -> eval_term shp she dim eve t = Raise ValueError).
  Proof.
    destruct she_form as [bs [Hs [[a1 F1] [[a2 F2] [b3 F3]]]]].
    intros t Hwf. destruct t as [e|p q| |]; cbn [wf_term] in Hwf; try discriminate.
    - (* leaf expression *)
      destruct e as [v|c ts]; [|discriminate].
      unfold eval_term, find_branch, branches_of. rewrite Hs.
      change (find (fun b => match b with BLeafExpr _ => true | _ => false end) bs) with (find is_leafexpr bs).
      rewrite F1. cbn [e_is_leaf negb andb]. rewrite andb_false_r.
      destruct v; cbn [eval_expr pending_term leaf_raise_of].
      + split; [left; eauto|intro; discriminate].
      + split; [right; reflexivity|reflexivity].
    - (* inner product of two leaf points *)
      apply andb_true_iff in Hwf. destruct Hwf as [Lp Lq].
      unfold eval_term, find_branch, branches_of. rewrite Hs.
      change (find (fun b => match b with BInner _ => true | _ => false end) bs) with (find is_inner bs).
      rewrite F2. rewrite Lp, Lq. cbn [negb]. rewrite !andb_false_r.
      destruct (point_contract p) as [Pv [Pr Pp]]. destruct (point_contract q) as [Qv [Qr Qp]].
      cbn [pending_term].
      destruct (evp p) as [v|e] eqn:Ep.
      + destruct (Pv v eq_refl) as [n ->].
        destruct (evp q) as [w|e] eqn:Eq.
        * destruct (Qv w eq_refl) as [m ->]. unfold vec_dot. split.
          -- destruct (Nat.eqb n m); [left; eauto|right; reflexivity].
          -- intro Hpd. apply orb_true_iff in Hpd. destruct Hpd as [Hpd|Hpd];
               [specialize (Pp Hpd)|specialize (Qp Hpd)]; discriminate.
        * rewrite (Qr e eq_refl). split; [right; reflexivity|reflexivity].
      + rewrite (Pr e eq_refl). split; [right; reflexivity|reflexivity].
    - (* constant *)
      unfold eval_term, find_branch, branches_of. rewrite Hs.
      change (find (fun b => match b with BConst => true | _ => false end) bs) with (find is_const bs).
      rewrite F3. split; [left; eauto|intro; discriminate].
  Qed.

  Lemma eve_lin_cons : forall t rest,
      eve (ELin false (t :: rest)) =
      match eval_term shp she dim eve t with Raise x => Raise x | Value _ => eve (ELin false rest) end.
  Proof. reflexivity. Qed.

  (** Expression.eval on what the API builds: a value or ValueError; an unsolved expression raises it *)
  Lemma expr_contract : forall e,
      wf_e e = true ->
      ((exists v, eve e = Value v) \/ eve e = Raise ValueError)
      /\ (pending_e e = true -> eve e = Raise ValueError).
  Proof.
    intros e Hwf. destruct e as [v|c ts].
    - destruct v; cbn [eval_expr pending_e negb].
      + split; [left; eauto|intro; discriminate].
      + rewrite leaf_raise_e. split; [right; reflexivity|reflexivity].
    - destruct c.
      + cbn [eval_expr pending_e]. split; [left; eauto|intro; discriminate].
      + cbn [wf_e] in Hwf. induction ts as [|t rest IH].
        * cbn. split; [left; eauto|intro; discriminate].
        * cbn [forallb] in Hwf. apply andb_true_iff in Hwf. destruct Hwf as [Ht Hrest]. specialize (IH Hrest).
          destruct (term_contract t Ht) as [Tc Tp]. rewrite eve_lin_cons.
          assert (Hpend : pending_e (ELin false (t :: rest)) = pending_term t || pending_e (ELin false rest)) by reflexivity.
          destruct Tc as [[v Tv]|Tr].
          -- rewrite Tv. destruct IH as [I1 I2]. split; [exact I1|].
             intro Hpd. rewrite Hpend in Hpd. apply orb_true_iff in Hpd. destruct Hpd as [Hpd|Hpd]; auto.
             specialize (Tp Hpd). congruence.
          -- rewrite Tr. split; [right; reflexivity|reflexivity].
  Qed.

  Lemma expr_pending : forall e, wf_e e = true -> pending_e e = true -> eve e = Raise ValueError.
  Proof. intros e Hw. apply (expr_contract e Hw). Qed.

  (** an expression that mentions no leaf evaluates to a number in every state (its constant) *)
  Lemma const_only_value : forall e, const_only e = true -> eve e = Value VNum.
  Proof.
    destruct she_form as [bs [Hs [_ [_ [b3 F3]]]]].
    intros e Hc. destruct e as [v|c ts]; [discriminate|]. destruct c; [reflexivity|].
    cbn [const_only] in Hc. induction ts as [|t rest IH]; [reflexivity|].
    cbn [forallb] in Hc. apply andb_true_iff in Hc. destruct Hc as [Ht Hr]. rewrite eve_lin_cons.
    destruct t; try discriminate. unfold eval_term at 1, find_branch, branches_of. rewrite Hs.
    change (find (fun b => match b with BConst => true | _ => false end) bs) with (find is_const bs).
    rewrite F3. rewrite <- Hs. auto.
  Qed.

  (** Constraint.eval *)
  Lemma run_try_caught : forall m r, catches m ValueError = true -> run_try (Raise ValueError) m r = Raise r.
  Proof.
    intros m r H. destruct m; cbn in *; try rewrite H; try reflexivity. discriminate.
  Qed.

  Lemma constraint_pending : forall c,
      try_shape_ok shc = true -> c_cached c = false -> wf_e (c_expr c) = true -> pending_e (c_expr c) = true ->
      eval_constraint shp she shc dim c = Raise ValueError.
  Proof.
    intros c Hs Hc Hw Hpd. unfold eval_constraint. rewrite Hc. destruct shc as [| m r |]; try discriminate.
    cbn in Hs. apply andb_true_iff in Hs. destruct Hs as [Hr Hm]. apply exn_eqb_eq in Hr. subst r.
    rewrite (expr_pending _ Hw Hpd). now apply run_try_caught.
  Qed.

  (** the defect repaired by 8173fdc, as the model sees it: an INSTANCE as matcher turns the documented
      ValueError into a TypeError *)
  Lemma constraint_instance_matcher : forall c k r,
      c_cached c = false -> wf_e (c_expr c) = true -> pending_e (c_expr c) = true ->
      eval_constraint shp she (ATryInner (MInstance k) r) dim c = Raise TypeError.
  Proof.
    intros c k r Hc Hw Hpd. unfold eval_constraint. rewrite Hc. now rewrite (expr_pending _ Hw Hpd).
  Qed.

  (** PSDMatrix.eval: row-major list comprehension *)
  Lemma row_contract : forall row,
      forallb wf_e row = true ->
      ((exists v, eval_row shp she dim row = Value v) \/ eval_row shp she dim row = Raise ValueError)
      /\ (existsb pending_e row = true -> eval_row shp she dim row = Raise ValueError).
  Proof.
    induction row as [|e rest IH]; intro Hw.
    - cbn. split; [left; eauto|intro; discriminate].
    - cbn [forallb] in Hw. apply andb_true_iff in Hw. destruct Hw as [He' Hr]. specialize (IH Hr).
      destruct (expr_contract e He') as [Ec Ep]. cbn [eval_row existsb].
      destruct Ec as [[v Ev]|Er].
      + rewrite Ev. destruct IH as [I1 I2]. split; [exact I1|]. intro Hpd. apply orb_true_iff in Hpd.
        destruct Hpd as [Hpd|Hpd]; auto. specialize (Ep Hpd). congruence.
      + rewrite Er. split; [right; reflexivity|reflexivity].
  Qed.

  Lemma rows_contract : forall rows,
      forallb (forallb wf_e) rows = true ->
      ((exists v, eval_rows shp she dim rows = Value v) \/ eval_rows shp she dim rows = Raise ValueError)
      /\ (existsb (existsb pending_e) rows = true -> eval_rows shp she dim rows = Raise ValueError).
  Proof.
    induction rows as [|r rest IH]; intro Hw.
    - cbn. split; [left; eauto|intro; discriminate].
    - cbn [forallb] in Hw. apply andb_true_iff in Hw. destruct Hw as [Hr Hrest]. specialize (IH Hrest).
      destruct (row_contract r Hr) as [Rc Rp]. cbn [eval_rows existsb].
      destruct Rc as [[v Rv]|Rr].
      + rewrite Rv. destruct IH as [I1 I2]. split; [exact I1|]. intro Hpd. apply orb_true_iff in Hpd.
        destruct Hpd as [Hpd|Hpd]; auto. specialize (Rp Hpd). congruence.
      + rewrite Rr. split; [right; reflexivity|reflexivity].
  Qed.

  Lemma psd_pending : forall m,
      try_shape_ok shm = true -> m_cached m = false -> forallb (forallb wf_e) (m_entries m) = true ->
      existsb (existsb pending_e) (m_entries m) = true ->
      eval_psd shp she shm dim m = Raise ValueError.
  Proof.
    intros m Hs Hc Hw Hpd. unfold eval_psd. rewrite Hc. destruct shm as [| mt r |]; try discriminate.
    cbn in Hs. apply andb_true_iff in Hs. destruct Hs as [Hr Hm]. apply exn_eqb_eq in Hr. subst r.
    rewrite (proj2 (rows_contract _ Hw) Hpd). now apply run_try_caught.
  Qed.

  Lemma dual_unsolved : forall sh v, dual_shape_ok sh = true -> eval_dual_field sh false v = Raise ValueError.
  Proof.
    intros sh v H. destruct sh; try discriminate. cbn in *. now apply exn_eqb_eq in H; subst.
  Qed.
End Contract.

(** ------------------------------------------------------------------ the generated shapes *)
Lemma gen_shapes_ok :
  point_shape_ok h_Point_eval = true /\ expr_shape_ok h_Expression_eval = true
  /\ try_shape_ok h_Constraint_eval = true /\ try_shape_ok h_PSDMatrix_eval = true
  /\ dual_shape_ok h_Constraint_eval_dual = true /\ dual_shape_ok h_PSDMatrix_eval_dual = true.
Proof. repeat split; vm_compute; reflexivity. Qed.

(** every eval / eval_dual method found in the sources is one of the six above *)
Lemma gen_handlers_complete :
  map (fun t => fst t) handlers =
  [("Constraint", "eval"); ("Constraint", "eval_dual"); ("Expression", "eval"); ("Point", "eval");
   ("PSDMatrix", "eval"); ("PSDMatrix", "eval_dual")].
Proof. reflexivity. Qed.

(** ------------------------------------------------------------------ solve(): no value, no assignment *)
Lemma run_plan_guard : forall plan, guard_first plan = true ->
                                    run_plan plan None = {| returned := Some None ; writes := [] |}.
Proof.
  intros plan H. destruct plan as [|st rest]; [discriminate|]. destruct st; try discriminate.
  cbn [guard_first] in H. cbn [run_plan].
  induction rest as [|s r IH]; [discriminate|]. destruct s; try discriminate.
  - cbn [run_plan]. apply IH. exact H.
  - reflexivity.
Qed.

Lemma gen_guard_first : guard_first post_solve_plan = true.
Proof. vm_compute. reflexivity. Qed.

(** values, duals and LMI entry duals of DSL objects are assigned by these functions only; each of them is called
    only from _solve_with_wrapper (after the guard, by the plan) or from Wrapper.assign_dual_values, which is itself
    one of them: nothing else in PEPit can give an object a number *)
Definition writer_call_ok (c : string * string) : bool :=
  String.eqb (snd c) "pep.py:_solve_with_wrapper" || String.eqb (snd c) "wrapper.py:assign_dual_values".
Lemma gen_writers :
  value_writers = [("pep.py", "PEP._eval_points_and_function_values"); ("wrapper.py", "Wrapper.assign_dual_values");
                   ("wrappers/cvxpy_wrapper.py", "CvxpyWrapper._recover_dual_values");
                   ("wrappers/mosek_wrapper.py", "MosekWrapper._recover_dual_values")]
  /\ forallb writer_call_ok writer_callers = true.
Proof. split; [reflexivity|vm_compute; reflexivity]. Qed.

(** ------------------------------------------------------------------ option strings *)
Lemma check_option_rejects : forall c v,
    existsb (String.eqb v) (accepted c) = false -> existsb (fun p => String.prefix p v) (prefixes c) = false ->
    check_option c v = Raise (rejected_with c).
Proof. intros c v H1 H2. unfold check_option. now rewrite H1, H2. Qed.

Lemma gen_options_raise_VE : rejected_with opt_return = ValueError /\ rejected_with opt_heuristic = ValueError
                             /\ accepted opt_return = ["dual"; "primal"].
Proof. repeat split. Qed.

(** option dispatches of the primitive steps (generated): the else branch raises ValueError and no `return`
    precedes the dispatch, so an invalid literal cannot be accepted on any path *)
Definition step_dispatch_ok (d : string * string * option_check) : bool :=
  exn_eqb (rejected_with (snd d)) ValueError && checked_before_solve (snd d).
Lemma gen_step_dispatches :
  map (fun d => snd (fst d)) step_option_dispatches = ["inexact_gradient_step:notion"; "inexact_proximal_step:opt"]
  /\ forallb step_dispatch_ok step_option_dispatches = true.
Proof. split; [reflexivity|vm_compute; reflexivity]. Qed.
